(* Proofs/Headers.v -- C04: proofs about Model/Headers.v (+ Gen/Headers.v).  Statements live in Props/C04.v. *)
From Coq Require Import ZArith List Bool Lia Sorted.
Import ListNotations.
From SZ Require Import Lib.Py Gen.Utils Gen.Headers Model.Headers Proofs.PyLemmas.
Open Scope Z_scope.

(* ================================================================ A. lists of codes *)
Lemma memZ_In x l : memZ x l = true <-> In x l.
Proof.
  unfold memZ. rewrite existsb_exists. split.
  - intros [y [Hy He]]. apply Z.eqb_eq in He. subst. exact Hy.
  - intro H. exists x. split; [exact H | apply Z.eqb_refl].
Qed.
Lemma memZ_false x l : memZ x l = false <-> ~ In x l.
Proof. rewrite <- memZ_In. destruct (memZ x l); split; intro H; congruence. Qed.

Definition asc (l : list Z) : Prop := StronglySorted Z.lt l.

Lemma ascending_asc l : ascending l = true -> asc l.
Proof.
  induction l as [|x r IH]; intro H; [constructor|].
  cbn [ascending] in H. destruct r as [|y r'].
  - constructor; constructor.
  - apply andb_true_iff in H. destruct H as [Hxy Hr]. apply Z.ltb_lt in Hxy.
    specialize (IH Hr). constructor; [exact IH|].
    inversion IH as [|? ? Hs Hall]; subst. constructor; [exact Hxy|].
    eapply Forall_impl; [|exact Hall]. intros a Ha. cbn beta in Ha. lia.
Qed.

Lemma asc_NoDup l : asc l -> NoDup l.
Proof.
  induction 1 as [|x r Hs IH Hall]; constructor; [|exact IH].
  intro Hin. rewrite Forall_forall in Hall. specialize (Hall x Hin). lia.
Qed.

Lemma asc_filter p l : asc l -> asc (filter p l).
Proof.
  induction 1 as [|x r Hs IH Hall]; cbn [filter]; [constructor|].
  destruct (p x); [|exact IH]. constructor; [exact IH|].
  rewrite Forall_forall in *. intros y Hy. apply filter_In in Hy. apply Hall. tauto.
Qed.

Lemma asc_ext_eq l1 : forall l2, asc l1 -> asc l2 -> (forall x, In x l1 <-> In x l2) -> l1 = l2.
Proof.
  induction l1 as [|x r IH]; intros l2 H1 H2 Hext.
  - destruct l2 as [|y r2]; [reflexivity|]. exfalso. apply (proj2 (Hext y)). left. reflexivity.
  - destruct l2 as [|y r2]; [exfalso; apply (proj1 (Hext x)); left; reflexivity|].
    inversion H1 as [|? ? Hs1 Ha1]; subst. inversion H2 as [|? ? Hs2 Ha2]; subst.
    rewrite Forall_forall in Ha1, Ha2.
    assert (Hxy : x = y).
    { destruct (proj1 (Hext x) (or_introl eq_refl)) as [E|Hin]; [symmetry; exact E|].
      destruct (proj2 (Hext y) (or_introl eq_refl)) as [E|Hin']; [exact E|].
      specialize (Ha2 x Hin). specialize (Ha1 y Hin'). lia. }
    subst y. f_equal. apply IH; [exact Hs1 | exact Hs2|].
    intro z. split; intro Hz.
    + destruct (proj1 (Hext z) (or_intror Hz)) as [E|Hin]; [|exact Hin]. subst z. specialize (Ha1 x Hz). lia.
    + destruct (proj2 (Hext z) (or_intror Hz)) as [E|Hin]; [|exact Hin]. subst z. specialize (Ha2 x Hz). lia.
Qed.

Lemma insert_u_In x l y : In y (insert_u x l) <-> y = x \/ In y l.
Proof.
  induction l as [|z r IH]; cbn [insert_u In]; [intuition|].
  destruct (x <? z) eqn:E1; [cbn [In]; intuition|].
  destruct (x =? z) eqn:E2.
  - apply Z.eqb_eq in E2. subst. cbn [In]. intuition.
  - cbn [In]. rewrite IH. intuition.
Qed.
Lemma insert_u_asc x l : asc l -> asc (insert_u x l).
Proof.
  induction 1 as [|z r Hs IH Hall]; cbn [insert_u]; [constructor; constructor|].
  destruct (x <? z) eqn:E1.
  - apply Z.ltb_lt in E1. constructor; [constructor; assumption|].
    constructor; [exact E1|]. eapply Forall_impl; [|exact Hall]. intros a Ha. cbn beta in Ha. lia.
  - destruct (x =? z) eqn:E2; [constructor; assumption|].
    apply Z.ltb_ge in E1. apply Z.eqb_neq in E2.
    constructor; [exact IH|]. rewrite Forall_forall in *. intros y Hy. apply insert_u_In in Hy.
    destruct Hy as [->|Hy]; [lia | apply Hall; exact Hy].
Qed.
Lemma set_sort_In l y : In y (set_sort l) <-> In y l.
Proof.
  induction l as [|x r IH]; cbn [set_sort fold_right In]; [tauto|].
  change (fold_right insert_u [] r) with (set_sort r). rewrite insert_u_In, IH. intuition.
Qed.
Lemma set_sort_asc l : asc (set_sort l).
Proof.
  induction l as [|x r IH]; cbn [set_sort fold_right]; [constructor|]. apply insert_u_asc. exact IH.
Qed.
Lemma set_sort_id l : asc l -> set_sort l = l.
Proof.
  intro H. apply asc_ext_eq; [apply set_sort_asc | exact H | apply set_sort_In].
Qed.

Lemma indexZ_nth k l d : In k l -> nth (Z.to_nat (indexZ k l)) l d = k /\ 0 <= indexZ k l < Z.of_nat (length l).
Proof.
  induction l as [|x r IH]; intro H; [destruct H|].
  cbn [indexZ]. destruct (k =? x) eqn:E.
  - apply Z.eqb_eq in E. subst. cbn [length]. split; [reflexivity | lia].
  - apply Z.eqb_neq in E. destruct H as [H|H]; [congruence|]. destruct (IH H) as [IH1 IH2].
    cbn [length]. split; [|lia].
    replace (Z.to_nat (1 + indexZ k r)) with (S (Z.to_nat (indexZ k r))) by lia. exact IH1.
Qed.
Lemma indexZ_app k l1 l2 : In k l1 -> indexZ k (l1 ++ l2) = indexZ k l1.
Proof.
  induction l1 as [|x r IH]; intro H; [destruct H|]. cbn [indexZ app].
  destruct (k =? x) eqn:E; [reflexivity|]. apply Z.eqb_neq in E. destruct H as [H|H]; [congruence|].
  rewrite IH by exact H. reflexivity.
Qed.
Lemma indexZ_last k l : ~ In k l -> indexZ k (l ++ [k]) = Z.of_nat (length l).
Proof.
  induction l as [|x r IH]; intro H; cbn [indexZ app length].
  - rewrite Z.eqb_refl. reflexivity.
  - destruct (k =? x) eqn:E; [apply Z.eqb_eq in E; subst; exfalso; apply H; left; reflexivity|].
    rewrite IH by (intro; apply H; right; assumption). lia.
Qed.

(* ================================================================ B. the table *)
Definition tbl_of (F : Z -> Z * Z) (fields : list Z) : table := map (fun f => (f, F f)) fields.

Lemma tbl_init_of fields : tbl_init fields = tbl_of (fun _ => hx_tbl_default) fields.
Proof. reflexivity. Qed.

Lemma tbl_of_ext F G fields : (forall f, In f fields -> F f = G f) -> tbl_of F fields = tbl_of G fields.
Proof. intro H. apply map_ext_in. intros f Hf. rewrite (H f Hf). reflexivity. Qed.

Lemma tbl_set_notin F fields k v :
  ~ In k fields -> tbl_set (tbl_of F fields) k v = tbl_of F fields ++ [(k, v)].
Proof.
  induction fields as [|x r IH]; intro H; cbn [tbl_of map tbl_set app]; [reflexivity|].
  destruct (x =? k) eqn:E; [apply Z.eqb_eq in E; subst; exfalso; apply H; left; reflexivity|].
  fold (tbl_of F r). rewrite IH by (intro; apply H; right; assumption). reflexivity.
Qed.

Lemma tbl_set_of F fields k v :
  NoDup fields -> In k fields ->
  tbl_set (tbl_of F fields) k v = tbl_of (fun f => if f =? k then v else F f) fields.
Proof.
  induction fields as [|x r IH]; intros Hnd Hin; [destruct Hin|].
  inversion Hnd as [|? ? Hx Hr]; subst. cbn [tbl_of map tbl_set].
  destruct (x =? k) eqn:E.
  - apply Z.eqb_eq in E. subst x. f_equal. apply map_ext_in. intros f Hf.
    destruct (f =? k) eqn:E2; [apply Z.eqb_eq in E2; subst; contradiction | reflexivity].
  - apply Z.eqb_neq in E. destruct Hin as [Hin|Hin]; [congruence|]. f_equal.
    fold (tbl_of F r). rewrite IH by assumption. reflexivity.
Qed.

(* a loop  for hw in L: [table[hw] = u hw]  over distinct keys of the table *)
Lemma fold_upd_of (u : Z -> option (Z * Z)) fields : NoDup fields -> forall L F,
  (forall k, In k L -> In k fields) ->
  fold_left (fun T hw => match u hw with Some v => tbl_set T hw v | None => T end) L (tbl_of F fields)
  = tbl_of (fun f => if memZ f L then match u f with Some v => v | None => F f end else F f) fields.
Proof.
  intros Hnd L. induction L as [|x r IH] using rev_ind; intros F Hsub.
  - cbn [fold_left]. apply tbl_of_ext. intros. reflexivity.
  - rewrite fold_left_app. cbn [fold_left]. rewrite IH by (intros; apply Hsub; apply in_or_app; left; assumption).
    assert (Hx : In x fields) by (apply Hsub; apply in_or_app; right; left; reflexivity).
    destruct (u x) as [v|] eqn:Eu.
    + rewrite tbl_set_of by assumption. apply tbl_of_ext. intros f Hf. cbv beta.
      destruct (f =? x) eqn:E.
      * apply Z.eqb_eq in E. subst f.
        replace (memZ x (r ++ [x])) with true
          by (symmetry; apply memZ_In; apply in_or_app; right; left; reflexivity).
        rewrite Eu. reflexivity.
      * apply Z.eqb_neq in E.
        assert (Hm : memZ f (r ++ [x]) = memZ f r).
        { destruct (memZ f r) eqn:Em.
          - apply memZ_In. apply in_or_app. left. apply memZ_In. exact Em.
          - apply memZ_false. intro Hin. apply in_app_or in Hin. destruct Hin as [Hin|[Hin|[]]]; [|congruence].
            apply memZ_false in Em. contradiction. }
        rewrite Hm. reflexivity.
    + apply tbl_of_ext. intros f Hf. cbv beta.
      destruct (f =? x) eqn:E.
      * apply Z.eqb_eq in E. subst f.
        replace (memZ x (r ++ [x])) with true
          by (symmetry; apply memZ_In; apply in_or_app; right; left; reflexivity).
        rewrite Eu. destruct (memZ x r); reflexivity.
      * apply Z.eqb_neq in E.
        assert (Hm : memZ f (r ++ [x]) = memZ f r).
        { destruct (memZ f r) eqn:Em.
          - apply memZ_In. apply in_or_app. left. apply memZ_In. exact Em.
          - apply memZ_false. intro Hin. apply in_app_or in Hin. destruct Hin as [Hin|[Hin|[]]]; [|congruence].
            apply memZ_false in Em. contradiction. }
        rewrite Hm. reflexivity.
Qed.

Lemma tbl_set_set T k a b : tbl_set (tbl_set T k a) k b = tbl_set T k b.
Proof.
  induction T as [|[k' v'] r IH]; cbn [tbl_set].
  - rewrite Z.eqb_refl. reflexivity.
  - destruct (k' =? k) eqn:E; cbn [tbl_set]; [rewrite Z.eqb_refl; reflexivity|]. rewrite E, IH. reflexivity.
Qed.

Lemma assocZ_tbl_of F fields k : In k fields -> assocZ k (tbl_of F fields) = Some (F k).
Proof.
  induction fields as [|x r IH]; intro H; [destruct H|]. cbn [tbl_of map assocZ].
  destruct (k =? x) eqn:E; [apply Z.eqb_eq in E; subst; reflexivity|].
  apply Z.eqb_neq in E. destruct H as [H|H]; [congruence|]. apply IH. exact H.
Qed.

(* ---- table codec round trip ---- *)
Lemma to_buffer_from_below rows : forall i b a, a < hx_enc_start i -> to_buffer_from i rows b a = b a.
Proof.
  induction rows as [|[[r0 r1] r2] rest IH]; intros i b a Ha; cbn [to_buffer_from]; [reflexivity|].
  rewrite IH by (unfold hx_enc_start in *; lia).
  unfold hx_enc_layout, hx_enc_start in *. cbn [fold_left fst snd]. unfold wb_set.
  repeat match goal with |- context [?x =? ?y] => destruct (Z.eqb_spec x y); [lia|] end. reflexivity.
Qed.

Lemma to_buffer_from_nth rows : forall i b (j : nat) r0 r1 r2,
  nth_error rows j = Some (r0, r1, r2) ->
  let a := hx_enc_start (i + Z.of_nat j) in
  let m := to_buffer_from i rows b in
  m (a + 0) = r0 /\ m (a + 4) = r1 /\ m (a + 8) = r2.
Proof.
  induction rows as [|[[q0 q1] q2] rest IH]; intros i b j r0 r1 r2 Hn; [destruct j; discriminate|].
  destruct j as [|j].
  - cbn [nth_error] in Hn. inversion Hn; subst. cbn [to_buffer_from]. cbn zeta.
    replace (i + Z.of_nat 0) with i by lia.
    rewrite !to_buffer_from_below by (unfold hx_enc_start; lia).
    unfold hx_enc_layout, hx_enc_start. cbn [fold_left fst snd]. unfold wb_set.
    repeat split;
      repeat match goal with |- context [?x =? ?y] => destruct (Z.eqb_spec x y); try lia end; reflexivity.
  - cbn [nth_error] in Hn. cbn [to_buffer_from]. cbn zeta.
    replace (i + Z.of_nat (S j)) with ((i + 1) + Z.of_nat j) by lia.
    exact (IH (i + 1) _ j r0 r1 r2 Hn).
Qed.

Lemma skipn_S_tail {A} (l : list A) : forall n e rest, skipn n l = e :: rest -> skipn (S n) l = rest.
Proof.
  induction l as [|x r IH]; intros n e rest H.
  - destruct n; discriminate.
  - destruct n as [|n]; cbn [skipn] in *; [inversion H; destruct rest; reflexivity | apply (IH n e); exact H].
Qed.

Lemma dec_rows_to_buffer T :
  Z.of_nat (length T) = hx_n_entries -> dec_rows (to_buffer T) = T.
Proof.
  intro Hlen. unfold dec_rows.
  assert (H : forall i, 0 <= i < hx_n_entries ->
            match map (fun j => to_buffer T (hx_dec_word_lo i j)) hx_dec_js with
            | [a; c; d] => hx_dec_entry a c d | _ => (0, (0, 0)) end = nth (Z.to_nat i) T (0, (0, 0))).
  { intros i Hi. unfold hx_dec_js. cbn [map].
    destruct (nth_error T (Z.to_nat i)) as [[k [v0 v1]]|] eqn:En;
      [|apply nth_error_None in En; lia].
    assert (En' : nth_error (to_list T) (Z.to_nat i) = Some (k, v0, v1)).
    { unfold to_list. rewrite nth_error_map, En. reflexivity. }
    pose proof (to_buffer_from_nth (to_list T) 0 wb_zero (Z.to_nat i) k v0 v1 En') as Hw.
    cbn zeta in Hw. replace (0 + Z.of_nat (Z.to_nat i)) with i in Hw by lia.
    destruct Hw as [H0 [H1 H2]]. unfold to_buffer, hx_dec_word_lo. unfold hx_enc_start in H0, H1, H2.
    rewrite H0, H1, H2. unfold hx_dec_entry.
    rewrite (nth_error_nth T (Z.to_nat i) _ En). reflexivity. }
  assert (Hgen : forall (n : nat) lo, (Z.of_nat n + lo <= hx_n_entries) -> 0 <= lo ->
            map (fun i => match map (fun j => to_buffer T (hx_dec_word_lo i j)) hx_dec_js with
                          | [a; c; d] => hx_dec_entry a c d | _ => (0, (0, 0)) end) (zrange_nat lo n)
            = firstn n (skipn (Z.to_nat lo) T)).
  { induction n as [|n IHn]; intros lo Hb Hlo; [reflexivity|].
    cbn [zrange_nat map]. rewrite H by lia. rewrite IHn by lia.
    assert (Hl : (Z.to_nat lo < length T)%nat) by lia.
    rewrite <- (firstn_skipn (Z.to_nat lo) T) at 1.
    rewrite app_nth2 by (rewrite firstn_length; lia).
    rewrite firstn_length. replace (Z.to_nat lo - Nat.min (Z.to_nat lo) (length T))%nat with O by lia.
    replace (Z.to_nat (lo + 1)) with (S (Z.to_nat lo)) by lia.
    destruct (skipn (Z.to_nat lo) T) as [|e rest] eqn:Es.
    - exfalso. assert (length (skipn (Z.to_nat lo) T) = 0%nat) by (rewrite Es; reflexivity).
      rewrite skipn_length in H0. lia.
    - cbn [nth firstn]. f_equal.
      assert (Hs : skipn (S (Z.to_nat lo)) T = rest) by (apply (skipn_S_tail T _ e); exact Es).
      rewrite Hs. reflexivity. }
  unfold zrange. rewrite Hgen by lia. cbn [Z.to_nat skipn].
  replace (Z.to_nat (hx_n_entries - 0)) with (length T) by lia. apply firstn_all.
Qed.

Lemma fold_set_own (T : table) : forall X : table,
  NoDup (map fst T) -> map fst X = map fst T ->
  fold_left (fun X e => tbl_set X (fst e) (snd e)) T X = T.
Proof.
  induction T as [|[k v] r IH]; intros X Hnd Hk.
  - destruct X; [reflexivity | discriminate].
  - destruct X as [|[k' v'] X']; [discriminate|]. cbn [map fst] in Hk. inversion Hk; subst k'.
    cbn [fold_left fst snd tbl_set]. rewrite Z.eqb_refl.
    inversion Hnd as [|? ? Hx Hr]; subst.
    assert (Hcons : forall (es : table) Y, ~ In k (map fst es) ->
              fold_left (fun X e => tbl_set X (fst e) (snd e)) es ((k, v) :: Y)
              = (k, v) :: fold_left (fun X e => tbl_set X (fst e) (snd e)) es Y).
    { induction es as [|[k2 v2] es IHes]; intros Y Hn; [reflexivity|].
      cbn [fold_left fst snd tbl_set]. destruct (k =? k2) eqn:E.
      - apply Z.eqb_eq in E. subst. exfalso. apply Hn. left. reflexivity.
      - apply IHes. intro. apply Hn. right. assumption. }
    rewrite Hcons by exact Hx. f_equal. apply IH; assumption.
Qed.

Lemma table_roundtrip fields (T : table) :
  Z.of_nat (length fields) = hx_n_entries -> NoDup fields -> map fst T = fields ->
  from_buffer fields (to_buffer T) = T.
Proof.
  intros Hlen Hnd Hk. unfold from_buffer.
  rewrite dec_rows_to_buffer by (rewrite <- Hlen, <- Hk, map_length; reflexivity).
  apply fold_set_own; [rewrite Hk; exact Hnd|].
  unfold tbl_init. rewrite map_map. cbn [fst]. rewrite map_id. symmetry. exact Hk.
Qed.

Lemma map_fst_tbl_of F fields : map fst (tbl_of F fields) = fields.
Proof. unfold tbl_of. rewrite map_map. cbn [fst]. apply map_id. Qed.

(* ================================================================ C. get_header_dict on tables without duplicates *)
Definition is_inv (e : Z * (Z * Z)) : bool := hx_tpl_invariant (fst (snd e)) (snd (snd e)).
Definition selfs (T : table) : list Z := map fst (filter (fun e => negb (is_inv e)) T).
(* every entry is invariant or refers to itself *)
Definition simple (T : table) : Prop := forall e, In e T -> is_inv e = true \/ snd (snd e) = fst e.

Lemma assocZ_app_notin {A} k (l1 l2 : list (Z * A)) :
  ~ In k (map fst l1) -> assocZ k (l1 ++ l2) = assocZ k l2.
Proof.
  induction l1 as [|[k' v] r IH]; intro H; [reflexivity|]. cbn [app assocZ].
  destruct (k =? k') eqn:E; [apply Z.eqb_eq in E; subst; exfalso; apply H; left; reflexivity|].
  apply IH. intro. apply H. right. assumption.
Qed.
Lemma assocZ_app_in {A} k (l1 l2 : list (Z * A)) v : assocZ k l1 = Some v -> assocZ k (l1 ++ l2) = Some v.
Proof.
  induction l1 as [|[k' v'] r IH]; intro H; [discriminate|]. cbn [app assocZ] in *.
  destruct (k =? k'); [exact H | apply IH; exact H].
Qed.
Lemma assocZ_None_notin {A} k (l : list (Z * A)) : assocZ k l = None <-> ~ In k (map fst l).
Proof.
  induction l as [|[k' v] r IH]; cbn [assocZ map fst In]; [tauto|].
  destruct (k =? k') eqn:E.
  - apply Z.eqb_eq in E. subst. split; [discriminate | intro H; exfalso; apply H; left; reflexivity].
  - apply Z.eqb_neq in E. rewrite IH. split; intro H; [intros [H1|H1]; [congruence | contradiction] | tauto].
Qed.

Lemma NoDup_app_l {A} (l1 l2 : list A) : NoDup (l1 ++ l2) -> NoDup l1.
Proof.
  induction l1 as [|x r IH]; intro H; [constructor|]. cbn [app] in H. inversion H as [|? ? Hx Hr]; subst.
  constructor; [intro Hin; apply Hx; apply in_or_app; left; exact Hin | apply IH; exact Hr].
Qed.

Lemma ghd_simple nhb ndb padded (T : table) :
  simple T -> NoDup (map fst T) ->
  let st := fold_left (ghd_step nhb ndb padded) T {| rs_dict := []; rs_stored := [] |} in
  rs_stored st = selfs T /\ map fst (rs_dict st) = map fst T /\
  forall e, In e T ->
    assocZ (fst e) (rs_dict st)
    = Some (if is_inv e then Const (fst (snd e)) else Off (hx_tpl_offset nhb ndb (indexZ (fst e) (selfs T)) padded)).
Proof.
  induction T as [|e r IH] using rev_ind; intros Hs Hnd; cbn zeta.
  - cbn. repeat split. intros e [].
  - rewrite fold_left_app. cbn [fold_left].
    assert (Hs' : simple r) by (intros x Hx; apply Hs; apply in_or_app; left; exact Hx).
    rewrite map_app in Hnd. assert (Hnd' : NoDup (map fst r)) by (apply (NoDup_app_l _ _ Hnd)).
    specialize (IH Hs' Hnd'). cbn zeta in IH. destruct IH as [IH1 [IH2 IH3]].
    set (st := fold_left (ghd_step nhb ndb padded) r {| rs_dict := []; rs_stored := [] |}) in *.
    destruct e as [k [v0 v1]].
    assert (Hk : ~ In k (map fst r)).
    { intro Hin. cbn [map fst] in Hnd. apply NoDup_remove_2 in Hnd. rewrite app_nil_r in Hnd. contradiction. }
    assert (Hse : selfs (r ++ [(k, (v0, v1))]) = selfs r ++ (if hx_tpl_invariant v0 v1 then [] else [k])).
    { unfold selfs. rewrite filter_app, map_app. cbn [filter]. unfold is_inv at 2. cbn [fst snd].
      destruct (hx_tpl_invariant v0 v1); reflexivity. }
    assert (Hold : forall x, In x r -> In (fst x) (selfs r) \/ is_inv x = true).
    { intros x Hx. destruct (is_inv x) eqn:Ei; [right; reflexivity|left].
      unfold selfs. apply in_map. apply filter_In. split; [exact Hx | rewrite Ei; reflexivity]. }
    unfold ghd_step. destruct (hx_tpl_invariant v0 v1) eqn:Einv.
    + cbn [rs_dict rs_stored]. rewrite Hse, app_nil_r. split; [exact IH1|]. split.
      * rewrite !map_app, IH2. reflexivity.
      * intros x Hx. apply in_app_or in Hx. destruct Hx as [Hx|[Hx|[]]].
        -- rewrite (assocZ_app_in _ _ _ _ (IH3 x Hx)). reflexivity.
        -- subst x. cbn [fst snd]. rewrite assocZ_app_notin by (rewrite IH2; exact Hk).
           cbn [assocZ]. rewrite Z.eqb_refl. unfold is_inv. cbn [fst snd]. rewrite Einv. reflexivity.
    + assert (Hv1 : v1 = k).
      { destruct (Hs (k, (v0, v1))) as [H|H]; [apply in_or_app; right; left; reflexivity | |exact H].
        unfold is_inv in H. cbn [fst snd] in H. congruence. }
      subst v1.
      assert (Hnone : assocZ k (rs_dict st) = None) by (apply assocZ_None_notin; rewrite IH2; exact Hk).
      rewrite Hnone. cbn [rs_dict rs_stored]. rewrite Hse, IH1. split; [reflexivity|]. split.
      * rewrite !map_app, IH2. reflexivity.
      * assert (Hkn : ~ In k (selfs r)).
        { unfold selfs. intro Hin. apply in_map_iff in Hin. destruct Hin as [x [Hfx Hx]]. apply filter_In in Hx.
          apply Hk. rewrite <- Hfx. apply in_map. tauto. }
        intros x Hx. apply in_app_or in Hx. destruct Hx as [Hx|[Hx|[]]].
        -- rewrite (assocZ_app_in _ _ _ _ (IH3 x Hx)). destruct (is_inv x) eqn:Ei; [reflexivity|].
           destruct (Hold x Hx) as [Hin|Hc]; [|congruence]. rewrite indexZ_app by exact Hin. reflexivity.
        -- subst x. cbn [fst snd]. rewrite assocZ_app_notin by (rewrite IH2; exact Hk).
           cbn [assocZ]. rewrite Z.eqb_refl. unfold is_inv. cbn [fst snd]. rewrite Einv.
           rewrite indexZ_last by exact Hkn. reflexivity.
Qed.

Lemma count_selfs F fields :
  (forall f, In f fields -> f <> 0) ->
  (forall f, In f fields -> is_inv (f, F f) = true \/ F f = (0, f)) ->
  (forall f, In f fields -> is_inv (f, F f) = true -> snd (F f) = 0) ->
  header_array_count (tbl_of F fields) = Z.of_nat (length (selfs (tbl_of F fields))).
Proof.
  intros Hnz Hs Hinv. unfold header_array_count, selfs, to_list, tbl_of. f_equal.
  rewrite map_length. rewrite !map_map. cbn [fst snd].
  induction fields as [|x r IH]; [reflexivity|]. cbn [map filter].
  assert (IH' := IH (fun f Hf => Hnz f (or_intror Hf)) (fun f Hf => Hs f (or_intror Hf))
                    (fun f Hf => Hinv f (or_intror Hf))).
  assert (Hx : In x (x :: r)) by (left; reflexivity).
  unfold hx_is_stored at 1. unfold is_inv at 1. cbn [fst snd].
  destruct (Hs x Hx) as [Hi|Hself].
  - unfold is_inv in Hi. cbn [fst snd] in Hi. rewrite Hi. cbn [negb].
    rewrite (Hinv x Hx) by (unfold is_inv; exact Hi).
    destruct (Z.eqb_spec x 0) as [E|E]; [exfalso; exact (Hnz x Hx E)|]. exact IH'.
  - rewrite Hself. cbn [fst snd]. rewrite Z.eqb_refl. unfold hx_tpl_invariant.
    destruct (Z.eqb_spec x 0) as [E|E]; [exfalso; exact (Hnz x Hx E)|]. cbn [Z.eqb negb orb length].
    f_equal. exact IH'.
Qed.

(* ================================================================ D. the footer *)
Lemma stride_agree len : 1 <= len -> len + hx_wr_pad len = hx_rd_padded len.
Proof.
  intro H. unfold hx_wr_pad, hx_rd_padded.
  pose proof (Z.div_mod (len - 1) 512 ltac:(lia)) as Hdm.
  pose proof (Z.mod_pos_bound (len - 1) 512 ltac:(lia)) as Hb.
  set (q := (len - 1) / 512) in *. set (r := (len - 1) mod 512) in *.
  assert (Hm : (- len) mod 512 = 511 - r).
  { symmetry. apply (Z.mod_unique (- len) 512 (- (q + 1)) (511 - r)); lia. }
  rewrite Hm. lia.
Qed.
Lemma np_pad_same len : hx_np_pad len = hx_wr_pad len.
Proof. reflexivity. Qed.

(* for every trace count n >= 1: the word of trace t of array k lies inside array k's slot *)
Lemma offset_in_slot n k t :
  1 <= n -> 0 <= k -> 0 <= t < n ->
  let stride := hx_rd_padded (4 * n) in
  stride mod 512 = 0 /\ 4 * n <= stride < 4 * n + 512 /\
  k * stride <= k * stride + 4 * t /\ k * stride + 4 * t + 4 <= k * stride + 4 * n /\ k * stride + 4 * n <= (k + 1) * stride.
Proof.
  intros Hn Hk Ht. cbn zeta. unfold hx_rd_padded.
  pose proof (Z.div_mod (4 * n - 1) 512 ltac:(lia)) as Hdm.
  pose proof (Z.mod_pos_bound (4 * n - 1) 512 ltac:(lia)) as Hb.
  set (q := (4 * n - 1) / 512) in *. set (r := (4 * n - 1) mod 512) in *.
  split; [|lia].
  replace (512 + 512 * q) with ((1 + q) * 512) by lia. apply Z.mod_mul. lia.
Qed.

Lemma seg_read_write_footer padf len (arrs : list (Z -> Z)) : forall pos (k : nat) t,
  0 <= padf len -> 0 <= t -> 4 * t + 4 <= len -> (k < length arrs)%nat ->
  seg_read (write_footer padf pos len arrs) (pos + Z.of_nat k * (len + padf len) + 4 * t)
  = Some (nth k arrs (fun _ => 0) t).
Proof.
  induction arrs as [|a r IH]; intros pos k t Hp Ht Hl Hk; [cbn in Hk; lia|].
  cbn [write_footer seg_read]. destruct k as [|k].
  - replace (pos + Z.of_nat 0 * (len + padf len) + 4 * t) with (pos + 4 * t) by lia.
    replace ((pos <=? pos + 4 * t) && (pos + 4 * t + 4 <=? pos + len)) with true
      by (symmetry; apply andb_true_iff; split; apply Z.leb_le; lia).
    replace (pos + 4 * t - pos) with (t * 4) by lia. rewrite Z.mod_mul by lia. cbn [Z.eqb].
    rewrite Z.div_mul by lia. reflexivity.
  - cbn [length] in Hk. set (off := pos + Z.of_nat (S k) * (len + padf len) + 4 * t).
    assert (Hoff : off = (pos + len + padf len) + Z.of_nat k * (len + padf len) + 4 * t) by (unfold off; lia).
    assert (Hge : pos + len + padf len <= off) by (rewrite Hoff; nia).
    replace ((pos <=? off) && (off + 4 <=? pos + len)) with false
      by (symmetry; apply andb_false_iff; right; apply Z.leb_gt; lia).
    replace ((pos + len <=? off) && (off + 4 <=? pos + len + padf len)) with false
      by (symmetry; apply andb_false_iff; right; apply Z.leb_gt; lia).
    replace ((pos <=? off) && (off <? pos + len + padf len)) with false
      by (symmetry; apply andb_false_iff; right; apply Z.ltb_ge; lia).
    rewrite Hoff. cbn [nth]. apply IH; try assumption. lia.
Qed.

(* ================================================================ E. header capture *)
Lemma find_unique {A} (P : A -> bool) l x :
  In x l -> P x = true -> (forall y, In y l -> P y = true -> y = x) -> find P l = Some x.
Proof.
  induction l as [|y r IH]; intros Hin Hp Hu; [destruct Hin|]. cbn [find].
  destruct (P y) eqn:Ey.
  - f_equal. apply Hu; [left; reflexivity | exact Ey].
  - destruct Hin as [Hin|Hin]; [subst; congruence|].
    apply IH; [exact Hin | exact Hp | intros z Hz; apply Hu; right; exact Hz].
Qed.
Lemma find_none_all {A} (P : A -> bool) l : (forall y, In y l -> P y = false) -> find P l = None.
Proof.
  induction l as [|y r IH]; intro H; [reflexivity|]. cbn [find]. rewrite (H y (or_introl eq_refl)).
  apply IH. intros z Hz. apply H. right. exact Hz.
Qed.

Lemma assocZ_map_find {A} (slot : Z -> Z) (g : Z -> A) l p :
  assocZ p (map (fun t => (slot t, g t)) l)
  = match find (fun t => slot t =? p) l with Some t => Some (g t) | None => None end.
Proof.
  induction l as [|x r IH]; [reflexivity|]. cbn [map assocZ find]. rewrite (Z.eqb_sym p (slot x)).
  destruct (slot x =? p); [reflexivity | exact IH].
Qed.

Lemma capture_at ts slot h f t :
  In t ts -> (forall t', In t' ts -> slot t' = slot t -> t' = t) -> capture ts slot h f (slot t) = h t f.
Proof.
  intros Hin Hinj. unfold capture. cbv zeta. rewrite <- rev_alt, assocZ_map_find. rewrite (find_unique _ (rev ts) t); [reflexivity | | |].
  - apply in_rev in Hin. exact Hin.
  - apply Z.eqb_refl.
  - intros y Hy He. apply Z.eqb_eq in He. apply Hinj; [apply in_rev; exact Hy | exact He].
Qed.
Lemma capture_miss ts slot h f p : (forall t, In t ts -> slot t <> p) -> capture ts slot h f p = 0.
Proof.
  intro H. unfold capture. cbv zeta. rewrite <- rev_alt, assocZ_map_find. rewrite find_none_all; [reflexivity|].
  intros y Hy. apply Z.eqb_neq. apply H. apply in_rev. exact Hy.
Qed.

Lemma slot_regular_id n_xl t : 0 < n_xl -> slot_regular n_xl t = t.
Proof.
  intro H. unfold slot_regular, hx_t_store, hx_t_xl, hx_t_il.
  pose proof (Z.div_mod t n_xl ltac:(lia)). lia.
Qed.

(* plane sets / trace groups: every index below n is visited: group g = p / bs, member i = p mod bs *)
Lemma group_cover n bs p : 0 < bs -> 0 <= p < n ->
  0 <= p / bs < pad n bs / bs /\ 0 <= p mod bs < bs /\
  p mod bs < (if ((p / bs + 1) * bs >? n) then n mod bs else bs) /\ p = (p / bs) * bs + p mod bs.
Proof.
  intros Hbs Hp.
  pose proof (Z.div_mod p bs ltac:(lia)) as Hdm. pose proof (Z.mod_pos_bound p bs Hbs) as Hmb.
  assert (Hq0 : 0 <= p / bs) by (apply Z.div_pos; lia).
  pose proof (Z.div_mod n bs ltac:(lia)) as Hdn. pose proof (Z.mod_pos_bound n bs Hbs) as Hnb.
  split; [split; [exact Hq0|]|split; [exact Hmb|split; [|lia]]].
  - unfold pad. destruct (Z.eqb_spec (n mod bs) 0) as [E|E].
    + apply Z.div_lt_upper_bound; [lia|]. lia.
    + rewrite Z.mul_comm, Z.div_mul by lia.
      assert (p / bs <= n / bs) by (apply Z.div_le_mono; lia). lia.
  - destruct ((p / bs + 1) * bs >? n) eqn:Eg; [|lia].
    apply Z.gtb_lt in Eg.
    assert (Hr : n - bs * (p / bs) = n mod bs).
    { apply (Z.mod_unique n bs (p / bs)); lia. }
    lia.
Qed.

Lemma traces_regular_cover n_il n_xl bs0 p :
  0 < n_xl -> 0 < bs0 -> 0 <= p < n_il * n_xl -> In p (traces_regular n_il n_xl bs0).
Proof.
  intros Hx Hb Hp.
  pose proof (Z.div_mod p n_xl ltac:(lia)) as Hdm. pose proof (Z.mod_pos_bound p n_xl Hx) as Hmb.
  set (il := p / n_xl) in *. set (x := p mod n_xl) in *.
  assert (Hil : 0 <= il < n_il).
  { split; [apply Z.div_pos; lia|]. apply Z.div_lt_upper_bound; [lia|]. lia. }
  destruct (group_cover n_il bs0 il Hb Hil) as [Hg [Hi [Hpl Hdec]]].
  unfold traces_regular. apply in_flat_map. exists (il / bs0). split; [apply in_zrange; lia|].
  apply in_flat_map. exists (il mod bs0). split; [apply in_zrange; lia|].
  unfold hx_planes_to_read.
  replace (il mod bs0 <? (if (il / bs0 + 1) * bs0 >? n_il then n_il mod bs0 else bs0)) with true
    by (symmetry; apply Z.ltb_lt; exact Hpl).
  apply in_map_iff. exists x. split; [|apply in_zrange; lia].
  unfold hx_start_trace. replace (0 + il / bs0 * bs0 + il mod bs0) with il by lia. lia.
Qed.

Lemma traces_2d_cover n bs1 p : 0 < bs1 -> 0 <= p < n -> In p (traces_2d n bs1).
Proof.
  intros Hb Hp. destruct (group_cover n bs1 p Hb Hp) as [Hg [Hi [Hpl Hdec]]].
  unfold traces_2d. apply in_flat_map. exists (p / bs1). split; [apply in_zrange; lia|].
  apply in_flat_map. exists (p mod bs1). split; [apply in_zrange; lia|].
  unfold hx_traces_to_read.
  replace (p mod bs1 <? (if (p / bs1 + 1) * bs1 >? n then n mod bs1 else bs1)) with true
    by (symmetry; apply Z.ltb_lt; exact Hpl).
  left. unfold hx_trace_id_2d. lia.
Qed.

Lemma slot_irregular_eq n_xl bs0 ili xli t : 0 < bs0 -> slot_irregular n_xl bs0 ili xli t = xli t + ili t * n_xl.
Proof.
  intro H. unfold slot_irregular, hx_t_store_irr.
  pose proof (Z.div_mod (ili t) bs0 ltac:(lia)) as Hd.
  replace (ili t / bs0 * bs0 + ili t mod bs0) with (ili t) by lia. reflexivity.
Qed.

(* a geometry is dense when the arrays have one element per trace and trace t is captured into element t *)
Definition dense (ge : geometry) : Prop :=
  1 <= ge_n ge /\ ge_G ge = ge_n ge /\
  (if ge_is3d ge then hx_hel_3d (ge_nxl ge) (ge_nil ge) else hx_hel_2d (ge_n ge)) = 4 * ge_n ge /\
  (ge_is3d ge = true -> ge_n ge = ge_nil ge * ge_nxl ge) /\
  forall h f t, 0 <= t < ge_n ge -> capture (ge_ts ge) (ge_slot ge) h f t = h t f.

Lemma hel_3d_eq n_xl n_il : hx_hel_3d n_xl n_il = 4 * (n_il * n_xl).
Proof. unfold hx_hel_3d. replace (n_xl * n_il * 32) with ((4 * (n_il * n_xl)) * 8) by lia. apply Z.div_mul. lia. Qed.
Lemma hel_2d_eq n : hx_hel_2d n = 4 * n.
Proof. unfold hx_hel_2d. replace (n * 32) with ((4 * n) * 8) by lia. apply Z.div_mul. lia. Qed.

Lemma dense_regular n_il n_xl bs0 : 1 <= n_il -> 1 <= n_xl -> 1 <= bs0 -> dense (geo_regular n_il n_xl bs0).
Proof.
  intros Hi Hx Hb. unfold dense, geo_regular. cbn [ge_n ge_G ge_is3d ge_nil ge_nxl ge_ts ge_slot].
  split; [nia|]. split; [reflexivity|]. split; [apply hel_3d_eq|]. split; [reflexivity|].
  intros h f t Ht.
  rewrite <- (slot_regular_id n_xl t) at 1 by lia. apply capture_at.
  - apply traces_regular_cover; lia.
  - intros t' _ He. rewrite !slot_regular_id in He by lia. exact He.
Qed.
Lemma dense_2d n bs1 : 1 <= n -> 1 <= bs1 -> dense (geo_2d n bs1).
Proof.
  intros Hn Hb. unfold dense, geo_2d. cbn [ge_n ge_G ge_is3d ge_nil ge_nxl ge_ts ge_slot].
  split; [lia|]. split; [reflexivity|]. split; [apply hel_2d_eq|]. split; [discriminate|].
  intros h f t Ht. apply (capture_at (traces_2d n bs1) (fun t => t) h f t).
  - apply traces_2d_cover; lia.
  - intros t' _ He. exact He.
Qed.

(* ================================================================ F. written files and the reader *)
Lemma wf_fields_facts fields : wf_fields fields = true ->
  asc fields /\ NoDup fields /\ (forall f, In f fields -> 0 < f) /\ Z.of_nat (length fields) = hx_n_entries.
Proof.
  unfold wf_fields. intro H. apply andb_true_iff in H. destruct H as [H H3]. apply andb_true_iff in H.
  destruct H as [H1 H2]. apply ascending_asc in H1. rewrite forallb_forall in H2. apply Z.eqb_eq in H3.
  repeat split; [exact H1 | apply asc_NoDup; exact H1 | | exact H3].
  intros f Hf. apply Z.ltb_lt. apply H2. exact Hf.
Qed.

Lemma filter_all_true {A} (p : A -> bool) l : (forall x, In x l -> p x = true) -> filter p l = l.
Proof.
  induction l as [|x r IH]; intro H; [reflexivity|]. cbn [filter]. rewrite (H x (or_introl eq_refl)).
  f_equal. apply IH. intros y Hy. apply H. right. exact Hy.
Qed.
Lemma filter_all_false {A} (p : A -> bool) l : (forall x, In x l -> p x = false) -> filter p l = [].
Proof.
  induction l as [|x r IH]; intro H; [reflexivity|]. cbn [filter]. rewrite (H x (or_introl eq_refl)).
  apply IH. intros y Hy. apply H. right. exact Hy.
Qed.
Lemma filter_filter {A} (p q : A -> bool) l : filter p (filter q l) = filter (fun x => q x && p x) l.
Proof.
  induction l as [|x r IH]; [reflexivity|]. cbn [filter]. destruct (q x); cbn [filter andb]; [|exact IH].
  destruct (p x); rewrite IH; reflexivity.
Qed.

Lemma selfs_tbl_of Fn fields : selfs (tbl_of Fn fields) = filter (fun f => negb (is_inv (f, Fn f))) fields.
Proof.
  unfold selfs, tbl_of. induction fields as [|x r IH]; [reflexivity|]. cbn [map filter].
  destruct (negb (is_inv (x, Fn x))); cbn [map fst]; rewrite IH; reflexivity.
Qed.
Lemma is_inv_const f c : is_inv (f, (c, 0)) = true.
Proof. unfold is_inv, hx_tpl_invariant. cbn [fst snd]. apply orb_true_r. Qed.
Lemma is_inv_self f : f <> 0 -> is_inv (f, (0, f)) = false.
Proof.
  intro H. unfold is_inv, hx_tpl_invariant. cbn [fst snd]. apply Z.eqb_neq in H. rewrite H. reflexivity.
Qed.

(* what a writer produced: table tbl_of Fn (every entry a constant or a reference to itself), the referenced arrays in
   table order after the data section, each 4*G bytes padded by padf *)
Record planned (fields : list Z) (F : sgzfile) (Fn : Z -> Z * Z) (cap : Z -> Z -> Z) (G : Z) (padf : Z -> Z) : Prop := {
  pl_nhb : f_nhb F = hx_header_blocks;
  pl_hel : f_hel F = 4 * G;
  pl_G : 1 <= G;
  pl_table : f_table F = to_buffer (tbl_of Fn fields);
  pl_kinds : forall f, In f fields -> Fn f = (fst (Fn f), 0) \/ Fn f = (0, f);
  pl_count : f_count F = header_array_count (tbl_of Fn fields);
  pl_pad : forall len, padf len = hx_wr_pad len;
  pl_footer : f_footer F = write_footer padf (4096 * hx_header_blocks + 4096 * f_ndb F) (4 * G)
                                        (map cap (selfs (tbl_of Fn fields)))
}.

Definition field_offset (F : sgzfile) (Fn : Z -> Z * Z) (fields : list Z) (G f : Z) : Z :=
  hx_tpl_offset hx_header_blocks (f_ndb F) (indexZ f (selfs (tbl_of Fn fields))) (hx_rd_padded (4 * G)).

Lemma planned_kind_inv fields F Fn cap G padf f :
  planned fields F Fn cap G padf -> (forall g, In g fields -> 0 < g) -> In f fields ->
  (is_inv (f, Fn f) = true /\ snd (Fn f) = 0) \/ (is_inv (f, Fn f) = false /\ Fn f = (0, f)).
Proof.
  intros P Hpos Hf. destruct (pl_kinds _ _ _ _ _ _ P f Hf) as [H|H].
  - left. rewrite H. cbn [snd]. split; [apply is_inv_const | reflexivity].
  - right. rewrite H. split; [apply is_inv_self; specialize (Hpos f Hf); lia | reflexivity].
Qed.

Lemma planned_template fields F Fn cap G padf :
  wf_fields fields = true -> planned fields F Fn cap G padf ->
  exists tpl, rd_template fields F = Return tpl /\ map fst tpl = fields /\
    forall f, In f fields ->
      assocZ f tpl = Some (if is_inv (f, Fn f) then Const (fst (Fn f)) else Off (field_offset F Fn fields G f)).
Proof.
  intros Hwf P. destruct (wf_fields_facts _ Hwf) as [Hasc [Hnd [Hpos Hlen]]].
  unfold rd_template, rd_padded. rewrite (pl_table _ _ _ _ _ _ P), (pl_nhb _ _ _ _ _ _ P), (pl_hel _ _ _ _ _ _ P).
  rewrite table_roundtrip by (try assumption; apply map_fst_tbl_of).
  unfold get_header_dict.
  assert (Hsimple : simple (tbl_of Fn fields)).
  { intros e He. unfold tbl_of in He. apply in_map_iff in He. destruct He as [f [<- Hf]].
    destruct (planned_kind_inv _ _ _ _ _ _ f P Hpos Hf) as [[H _]|[_ H]]; [left; exact H|right].
    cbn [fst snd]. rewrite H. reflexivity. }
  assert (Hndk : NoDup (map fst (tbl_of Fn fields))) by (rewrite map_fst_tbl_of; exact Hnd).
  destruct (ghd_simple hx_header_blocks (f_ndb F) (hx_rd_padded (4 * G)) _ Hsimple Hndk) as [S1 [S2 S3]].
  cbn zeta in S1, S2, S3.
  set (st := fold_left _ _ _) in *.
  assert (Hc : Z.of_nat (length (rs_stored st)) =? f_count F = true).
  { apply Z.eqb_eq. rewrite (pl_count _ _ _ _ _ _ P), S1. symmetry. apply count_selfs.
    - intros f Hf. specialize (Hpos f Hf). lia.
    - intros f Hf. destruct (planned_kind_inv _ _ _ _ _ _ f P Hpos Hf) as [[H _]|[_ H]]; [left|right]; exact H.
    - intros f Hf Hi. destruct (planned_kind_inv _ _ _ _ _ _ f P Hpos Hf) as [[_ H]|[H _]]; [exact H|congruence]. }
  rewrite Hc. exists (rs_dict st). split; [reflexivity|]. split; [rewrite S2; apply map_fst_tbl_of|].
  intros f Hf. specialize (S3 (f, Fn f)). cbn [fst snd] in S3. unfold field_offset. apply S3.
  unfold tbl_of. apply in_map_iff. exists f. split; [reflexivity | exact Hf].
Qed.

Lemma planned_word fields F Fn cap G padf f p :
  wf_fields fields = true -> planned fields F Fn cap G padf -> In f fields -> Fn f = (0, f) -> 0 <= p < G ->
  rd_word F (field_offset F Fn fields G f + 4 * p) = Return (cap f p).
Proof.
  intros Hwf P Hf Hself Hp. destruct (wf_fields_facts _ Hwf) as [Hasc [Hnd [Hpos Hlen]]].
  unfold rd_word, field_offset, hx_tpl_offset. rewrite (pl_footer _ _ _ _ _ _ P).
  set (ks := selfs (tbl_of Fn fields)).
  assert (Hin : In f ks).
  { unfold ks. rewrite selfs_tbl_of. apply filter_In. split; [exact Hf|]. rewrite Hself.
    rewrite is_inv_self; [reflexivity | specialize (Hpos f Hf); lia]. }
  destruct (indexZ_nth f ks 0 Hin) as [Hn Hb].
  pose proof (pl_G _ _ _ _ _ _ P) as HG.
  assert (Hpad : 0 <= padf (4 * G)).
  { rewrite (pl_pad _ _ _ _ _ _ P). unfold hx_wr_pad. apply Z.mod_pos_bound. lia. }
  rewrite <- (stride_agree (4 * G)) by lia. rewrite <- (pl_pad _ _ _ _ _ _ P).
  replace (indexZ f ks) with (Z.of_nat (Z.to_nat (indexZ f ks))) at 1 by lia.
  rewrite seg_read_write_footer; try lia; [|rewrite map_length; lia].
  rewrite (nth_indep _ _ (cap 0)) by (rewrite map_length; lia).
  rewrite map_nth, Hn. reflexivity.
Qed.

(* gen_trace_header(t)[f], both access paths, on a file whose arrays have one element per trace *)
Lemma planned_read fields F Fn cap G padf la t f :
  wf_fields fields = true -> planned fields F Fn cap G padf ->
  (if f_is3d F then hx_rd_structured (f_tracecount F) (f_nil F) (f_nxl F) else false) = f_is3d F ->
  f_tracecount F <= G -> 0 <= t < f_tracecount F -> In f fields ->
  read_field fields F la t f = Return (if is_inv (f, Fn f) then fst (Fn f) else cap f t).
Proof.
  intros Hwf P Hst HG Ht Hf. destruct (wf_fields_facts _ Hwf) as [Hasc [Hnd [Hpos Hlen]]].
  unfold read_field. unfold hx_rd_index_ok.
  replace ((0 <=? t) && (t <? f_tracecount F)) with true
    by (symmetry; apply andb_true_iff; split; [apply Z.leb_le | apply Z.ltb_lt]; lia).
  cbn [negb]. destruct (planned_template _ _ _ _ _ _ Hwf P) as [tpl [Ht1 [Ht2 Ht3]]].
  rewrite Ht1. cbn [bind]. cbv zeta. rewrite (Ht3 f Hf).
  destruct (planned_kind_inv _ _ _ _ _ _ f P Hpos Hf) as [[Hi _]|[Hi Hself]]; rewrite Hi; [reflexivity|].
  unfold rd_resolve, rd_structured. rewrite Hst.
  assert (Hval : rd_value F (field_offset F Fn fields G f) t = Return (cap f t)).
  { unfold rd_value, rd_G. rewrite (pl_hel _ _ _ _ _ _ P). rewrite Z.mul_comm, Z.div_mul by lia.
    replace ((0 <=? t) && (t <? G)) with true
      by (symmetry; apply andb_true_iff; split; [apply Z.leb_le | apply Z.ltb_lt]; lia).
    apply (planned_word fields F Fn cap G padf); try assumption. lia. }
  unfold hx_rd_via_arrays, rd_variant_elem, hx_rd_use_mask, rd_structured. rewrite Hst.
  destruct (f_is3d F); destruct la; cbn [orb negb andb]; try exact Hval.
  unfold hx_rd_word_off. apply (planned_word fields F Fn cap G padf); try assumption. lia.
Qed.

(* ---- the four detection modes produce planned files ---- *)
Lemma listed_all_eq fields : Z.of_nat (length fields) = hx_n_entries -> listed_all fields = fields.
Proof.
  intro H. unfold listed_all, hx_list_lo, hx_list_hi. cbn [Z.to_nat skipn Z.sub].
  apply firstn_all2. unfold hx_n_entries in H. lia.
Qed.
Lemma listed_table_all fields : NoDup fields -> listed_table fields fields = tbl_of (fun f => (0, f)) fields.
Proof.
  intro Hnd. unfold listed_table. rewrite tbl_init_of.
  rewrite (fold_upd_of (fun hw => Some (hx_tbl_listed hw)) fields Hnd fields) by tauto.
  apply tbl_of_ext. intros f Hf. apply memZ_In in Hf. rewrite Hf. reflexivity.
Qed.

Section Modes.
  Variables (fields : list Z) (is3d : bool) (n_il n_xl n G ndb : Z) (h : Z -> Z -> Z) (cap : Z -> Z -> Z).
  Hypothesis Hwf : wf_fields fields = true.
  Hypothesis Hhel : (if is3d then hx_hel_3d n_xl n_il else hx_hel_2d n) = 4 * G.
  Hypothesis HG : 1 <= G.

  Lemma planned_exhaustive :
    planned fields (segy_write Exhaustive fields is3d n_il n_xl n G ndb h cap) (fun f => (0, f)) cap G hx_wr_pad.
  Proof.
    destruct (wf_fields_facts _ Hwf) as [Hasc [Hnd [Hpos Hlen]]].
    cbv [segy_write blank_header_info]. cbv iota beta. rewrite listed_all_eq by exact Hlen.
    rewrite listed_table_all by exact Hnd.
    constructor; cbn [f_nhb f_ndb f_hel f_count f_tracecount f_is3d f_nil f_nxl f_table f_footer];
      try reflexivity; try assumption.
    - intros f Hf. right. reflexivity.
    - rewrite selfs_tbl_of, filter_all_true; [reflexivity|].
      intros f Hf. rewrite is_inv_self; [reflexivity | specialize (Hpos f Hf); lia].
  Qed.

  Lemma planned_strip :
    planned fields (segy_write Strip fields is3d n_il n_xl n G ndb h cap) (fun _ => (0, 0)) cap G hx_wr_pad.
  Proof.
    cbv [segy_write blank_header_info]. cbv iota beta. unfold listed_table. cbn [fold_left]. rewrite tbl_init_of.
    constructor; cbn [f_nhb f_ndb f_hel f_count f_tracecount f_is3d f_nil f_nxl f_table f_footer];
      try reflexivity; try assumption.
    - intros f Hf. left. reflexivity.
    - rewrite selfs_tbl_of, filter_all_false; [reflexivity|]. intros f Hf. rewrite is_inv_const. reflexivity.
  Qed.

  (* 'thorough': projections of the re-classification loop *)
  Definition th_const (hw : Z) : option (Z * Z) :=
    if all_equal G (cap hw) then Some (hx_thorough_const (cap hw 0)) else None.
  Lemma thorough_fold_fst L : forall T ks,
    fst (fold_left (thorough_step G cap) L (T, ks))
    = fold_left (fun T hw => match th_const hw with Some v => tbl_set T hw v | None => T end) L T.
  Proof.
    induction L as [|x r IH]; intros T ks; [reflexivity|]. cbn [fold_left]. unfold thorough_step at 2, th_const at 2.
    cbn [fst snd]. destruct (all_equal G (cap x)); apply IH.
  Qed.
  Lemma thorough_fold_snd L : forall T ks,
    snd (fold_left (thorough_step G cap) L (T, ks))
    = fold_left (fun ks hw => if all_equal G (cap hw) then remove Z.eq_dec hw ks else ks) L ks.
  Proof.
    induction L as [|x r IH]; intros T ks; [reflexivity|]. cbn [fold_left]. unfold thorough_step at 2.
    cbn [fst snd]. destruct (all_equal G (cap x)); apply IH.
  Qed.
  Lemma remove_filter x l : remove Z.eq_dec x l = filter (fun k => negb (k =? x)) l.
  Proof.
    induction l as [|y r IH]; [reflexivity|]. cbn [remove filter].
    destruct (Z.eq_dec x y) as [E|E].
    - subst. rewrite Z.eqb_refl. cbn [negb]. exact IH.
    - destruct (Z.eqb_spec y x) as [E2|E2]; [congruence|]. cbn [negb]. rewrite IH. reflexivity.
  Qed.
  Lemma fold_remove (c : Z -> bool) L : forall ks,
    fold_left (fun ks hw => if c hw then remove Z.eq_dec hw ks else ks) L ks
    = filter (fun k => negb (c k && memZ k L)) ks.
  Proof.
    induction L as [|x r IH]; intro ks; cbn [fold_left].
    - symmetry. apply filter_all_true. intros k _. rewrite andb_false_r. reflexivity.
    - rewrite IH. destruct (c x) eqn:Ec.
      + rewrite remove_filter, filter_filter. apply filter_ext. intro k. unfold memZ. cbn [existsb].
        destruct (Z.eqb_spec k x) as [E|E]; [subst; rewrite Ec; reflexivity|]. cbn [negb andb orb]. reflexivity.
      + apply filter_ext. intro k. unfold memZ. cbn [existsb].
        destruct (Z.eqb_spec k x) as [E|E]; [subst; rewrite Ec; reflexivity|]. reflexivity.
  Qed.

  Definition th_fn (f : Z) : Z * Z := if all_equal G (cap f) then (cap f 0, 0) else (0, f).

  Lemma planned_thorough :
    planned fields (segy_write Thorough fields is3d n_il n_xl n G ndb h cap) th_fn cap G hx_wr_pad.
  Proof.
    destruct (wf_fields_facts _ Hwf) as [Hasc [Hnd [Hpos Hlen]]].
    cbv [segy_write blank_header_info]. cbv iota beta. rewrite listed_all_eq by exact Hlen.
    rewrite listed_table_all by exact Hnd.
    rewrite (surjective_pairing (fold_left (thorough_step G cap) fields (tbl_of (fun f => (0, f)) fields, fields))).
    rewrite thorough_fold_fst, thorough_fold_snd.
    rewrite (fold_upd_of th_const fields Hnd fields) by tauto. rewrite fold_remove.
    assert (Hfn : tbl_of (fun f => if memZ f fields then match th_const f with Some v => v | None => (0, f) end else (0, f)) fields
                  = tbl_of th_fn fields).
    { apply tbl_of_ext. intros f Hf. apply memZ_In in Hf. rewrite Hf. unfold th_const, th_fn, hx_thorough_const.
      destruct (all_equal G (cap f)); reflexivity. }
    rewrite Hfn.
    constructor; cbn [f_nhb f_ndb f_hel f_count f_tracecount f_is3d f_nil f_nxl f_table f_footer];
      try reflexivity; try assumption.
    - intros f Hf. unfold th_fn. destruct (all_equal G (cap f)); [left|right]; reflexivity.
    - rewrite selfs_tbl_of. f_equal. f_equal. apply filter_ext_in. intros f Hf.
      apply memZ_In in Hf. rewrite Hf, andb_true_r. unfold th_fn. destruct (all_equal G (cap f)).
      + rewrite is_inv_const. reflexivity.
      + rewrite is_inv_self; [reflexivity|]. apply memZ_In in Hf. specialize (Hpos f Hf). lia.
  Qed.
End Modes.

Lemma fold_left_ext_pw {A B} (f g : A -> B -> A) : (forall a b, f a b = g a b) ->
  forall l a, fold_left f l a = fold_left g l a.
Proof. intros H l. induction l as [|x r IH]; intro a; [reflexivity|]. cbn [fold_left]. rewrite H. apply IH. Qed.

(* ---- 'heuristic' when no two variant fields agree on both the first and the last trace ---- *)
Section HeurNoDup.
  Variables (fields : list Z) (fv lv : Z -> Z).
  Hypothesis Hasc : asc fields.
  Hypothesis Hpairs : forall f g, In f fields -> In g fields -> f <> g ->
    hx_cls_variant (fv f) (lv f) = true -> hx_cls_variant (fv g) (lv g) = true ->
    hx_cls_same (fv f) (lv f) (fv g) (lv g) = false.

  Lemma find_dups_nil vs : forall seen,
    NoDup (seen ++ vs) ->
    (forall hw hw2, In hw vs -> In hw2 (seen ++ vs) -> hw2 <> hw -> hx_cls_same (fv hw) (lv hw) (fv hw2) (lv hw2) = false) ->
    find_dups fv lv seen vs = [].
  Proof.
    induction vs as [|hw r IH]; intros seen Hnd Hc; [reflexivity|]. cbn [find_dups].
    rewrite find_none_all.
    - apply IH.
      + rewrite <- app_assoc. exact Hnd.
      + intros a b Ha Hb Hab. apply Hc; [right; exact Ha | rewrite <- app_assoc in Hb; exact Hb | exact Hab].
    - intros y Hy. apply Hc; [left; reflexivity | apply in_or_app; left; exact Hy|].
      intro E. subst y. apply NoDup_remove_2 in Hnd. apply Hnd. apply in_or_app. left. exact Hy.
  Qed.

  Lemma duplicate_hw_nil : duplicate_hw fields fv lv = [].
  Proof.
    unfold duplicate_hw. apply find_dups_nil.
    - cbn [app]. apply asc_NoDup. apply asc_filter. exact Hasc.
    - cbn [app]. intros a b Ha Hb Hab. unfold variant_hw in Ha, Hb. apply filter_In in Ha. apply filter_In in Hb.
      apply Hpairs; try tauto. congruence.
  Qed.

  Lemma unique_hw_eq : unique_hw fields fv lv = variant_hw fields fv lv.
  Proof.
    unfold unique_hw. cbv zeta. rewrite duplicate_hw_nil. cbn [assocZ]. rewrite map_id.
    apply set_sort_id. apply asc_filter. exact Hasc.
  Qed.

  Definition heur_fn (f : Z) : Z * Z := if hx_cls_variant (fv f) (lv f) then (0, f) else (fv f, 0).

  Lemma heur_table_eq : heur_table fields fv lv = tbl_of heur_fn fields.
  Proof.
    pose proof (asc_NoDup _ Hasc) as Hnd.
    unfold heur_table. cbv zeta. fold (heur_step fields fv lv). rewrite tbl_init_of.
    set (u := fun hw => if memZ hw (variant_hw fields fv lv) then Some (hx_tbl_unique hw)
                        else if memZ hw (invariant_nonzero_hw fields fv lv) then Some (hx_tbl_invariant (fv hw)) else None).
    assert (Hstep : forall T hw, heur_step fields fv lv T hw = match u hw with Some v => tbl_set T hw v | None => T end).
    { intros T hw. unfold heur_step, heur_step_with, u. rewrite unique_hw_eq, duplicate_hw_nil. cbn [assocZ].
      destruct (memZ hw (invariant_nonzero_hw fields fv lv)); destruct (memZ hw (variant_hw fields fv lv));
        try reflexivity. apply tbl_set_set. }
    rewrite (fold_left_ext_pw _ _ Hstep fields). rewrite (fold_upd_of u fields Hnd fields) by tauto.
    apply tbl_of_ext. intros f Hf. unfold heur_fn, u.
    replace (memZ f fields) with true by (symmetry; apply memZ_In; exact Hf).
    assert (Hv : memZ f (variant_hw fields fv lv) = hx_cls_variant (fv f) (lv f)).
    { destruct (hx_cls_variant (fv f) (lv f)) eqn:E.
      - apply memZ_In. apply filter_In. tauto.
      - apply memZ_false. intro Hin. apply filter_In in Hin. destruct Hin as [_ Hin]. congruence. }
    rewrite Hv. destruct (hx_cls_variant (fv f) (lv f)) eqn:Ev; [reflexivity|].
    unfold hx_tbl_invariant, hx_tbl_default.
    destruct (memZ f (invariant_nonzero_hw fields fv lv)) eqn:Ei; [reflexivity|].
    (* not invariant-nonzero and not variant: the first value is 0 *)
    apply memZ_false in Ei. f_equal.
    destruct (Z.eqb_spec (fv f) 0) as [E0|E0]; [symmetry; exact E0|]. exfalso. apply Ei.
    unfold invariant_nonzero_hw, nonzero_hw, invariant_hw. apply filter_In. split.
    - apply filter_In. split; [exact Hf|]. unfold hx_cls_nonzero. apply Z.eqb_neq in E0. rewrite E0. reflexivity.
    - apply memZ_In. apply filter_In. split; [exact Hf|]. unfold hx_cls_invariant, hx_cls_variant in *.
      destruct (fv f =? lv f); [reflexivity | discriminate].
  Qed.
End HeurNoDup.

Section ModeHeuristic.
  Variables (fields : list Z) (is3d : bool) (n_il n_xl n G ndb : Z) (h : Z -> Z -> Z) (cap : Z -> Z -> Z).
  Hypothesis Hwf : wf_fields fields = true.
  Hypothesis Hhel : (if is3d then hx_hel_3d n_xl n_il else hx_hel_2d n) = 4 * G.
  Hypothesis HG : 1 <= G.
  Let fv := h 0.
  Let lv := h (py_index n hx_last_index).
  Hypothesis Hpairs : forall f g, In f fields -> In g fields -> f <> g ->
    hx_cls_variant (fv f) (lv f) = true -> hx_cls_variant (fv g) (lv g) = true ->
    hx_cls_same (fv f) (lv f) (fv g) (lv g) = false.

  Lemma planned_heuristic :
    planned fields (segy_write Heuristic fields is3d n_il n_xl n G ndb h cap) (heur_fn fv lv) cap G hx_wr_pad.
  Proof.
    destruct (wf_fields_facts _ Hwf) as [Hasc [Hnd [Hpos Hlen]]].
    cbv [segy_write blank_header_info]. cbv iota beta zeta. fold fv lv.
    rewrite (heur_table_eq fields fv lv Hasc Hpairs), (unique_hw_eq fields fv lv Hasc Hpairs).
    constructor; cbn [f_nhb f_ndb f_hel f_count f_tracecount f_is3d f_nil f_nxl f_table f_footer];
      try reflexivity; try assumption.
    - intros f Hf. unfold heur_fn. destruct (hx_cls_variant (fv f) (lv f)); [right|left]; reflexivity.
    - rewrite selfs_tbl_of. f_equal. f_equal. unfold variant_hw. apply filter_ext_in. intros f Hf.
      unfold heur_fn. destruct (hx_cls_variant (fv f) (lv f)).
      + rewrite is_inv_self; [reflexivity | specialize (Hpos f Hf); lia].
      + rewrite is_inv_const. reflexivity.
  Qed.
End ModeHeuristic.

Lemma segy_write_proj md fields is3d n_il n_xl n G ndb h cap :
  let F := segy_write md fields is3d n_il n_xl n G ndb h cap in
  f_is3d F = is3d /\ f_tracecount F = n /\ f_nil F = n_il /\ f_nxl F = n_xl /\ f_ndb F = ndb.
Proof.
  cbv zeta. unfold segy_write. destruct (blank_header_info md fields n h) as [T0 k0].
  destruct md; try (cbn; repeat split; reflexivity).
  destruct (fold_left (thorough_step G cap) k0 (T0, k0)) as [T k]. cbn. repeat split; reflexivity.
Qed.

Lemma py_index_last n : py_index n hx_last_index = n - 1.
Proof. unfold py_index, hx_last_index. cbn [Z.ltb Z.compare]. lia. Qed.

Lemma all_equal_spec G a : all_equal G a = true -> forall p, 0 <= p < G -> a p = a 0.
Proof.
  unfold all_equal. rewrite forallb_forall. intros H p Hp. apply Z.eqb_eq. apply H. apply in_zrange. lia.
Qed.

(* ================================================================ the theorems for dense geometries (regular 3D, 2D) *)
Section Main.
  Variables (fields : list Z) (ge : geometry) (ndb : Z) (h : Z -> Z -> Z).
  Hypothesis Hwf : wf_fields fields = true.
  Hypothesis Hd : dense ge.
  Let cap := capture (ge_ts ge) (ge_slot ge) h.

  Lemma dense_hel : (if ge_is3d ge then hx_hel_3d (ge_nxl ge) (ge_nil ge) else hx_hel_2d (ge_n ge)) = 4 * ge_G ge.
  Proof. destruct Hd as [_ [HG [Hh _]]]. rewrite HG. exact Hh. Qed.
  Lemma dense_G1 : 1 <= ge_G ge.
  Proof. destruct Hd as [Hn [HG _]]. rewrite HG. exact Hn. Qed.
  Lemma dense_cap t f : 0 <= t < ge_n ge -> cap f t = h t f.
  Proof. destruct Hd as [_ [_ [_ [_ Hc]]]]. apply Hc. Qed.

  Lemma dense_read md Fn la t f :
    planned fields (write_geo md fields ge ndb h) Fn cap (ge_G ge) hx_wr_pad ->
    0 <= t < ge_n ge -> In f fields ->
    read_field fields (write_geo md fields ge ndb h) la t f = Return (if is_inv (f, Fn f) then fst (Fn f) else h t f).
  Proof.
    intros P Ht Hf. rewrite <- (dense_cap t f Ht).
    destruct (segy_write_proj md fields (ge_is3d ge) (ge_nil ge) (ge_nxl ge) (ge_n ge) (ge_G ge) ndb h cap)
      as [P1 [P2 [P3 [P4 P5]]]].
    apply (planned_read fields _ Fn cap (ge_G ge) hx_wr_pad); try assumption.
    - unfold write_geo. fold cap. rewrite P1, P2, P3, P4. destruct (ge_is3d ge) eqn:E3; [|reflexivity].
      unfold hx_rd_structured. apply Z.eqb_eq. destruct Hd as [_ [_ [_ [Hs _]]]]. apply Hs. exact E3.
    - unfold write_geo. fold cap. rewrite P2. destruct Hd as [_ [HG _]]. lia.
    - unfold write_geo. fold cap. rewrite P2. exact Ht.
  Qed.

  Theorem exhaustive_preserves_p la t f : 0 <= t < ge_n ge -> In f fields ->
    read_field fields (write_geo Exhaustive fields ge ndb h) la t f = Return (h t f).
  Proof.
    intros Ht Hf. destruct (wf_fields_facts _ Hwf) as [_ [_ [Hpos _]]].
    rewrite (dense_read Exhaustive (fun f => (0, f))); try assumption.
    - rewrite is_inv_self; [reflexivity | specialize (Hpos f Hf); lia].
    - apply planned_exhaustive; first [exact Hwf | apply dense_hel | apply dense_G1].
  Qed.

  Theorem strip_reads_zero_p la t f : 0 <= t < ge_n ge -> In f fields ->
    read_field fields (write_geo Strip fields ge ndb h) la t f = Return 0.
  Proof.
    intros Ht Hf. rewrite (dense_read Strip (fun _ => (0, 0))); try assumption.
    - rewrite is_inv_const. reflexivity.
    - apply planned_strip; first [exact Hwf | apply dense_hel | apply dense_G1].
  Qed.

  Theorem thorough_preserves_p la t f : 0 <= t < ge_n ge -> In f fields ->
    read_field fields (write_geo Thorough fields ge ndb h) la t f = Return (h t f).
  Proof.
    intros Ht Hf. destruct (wf_fields_facts _ Hwf) as [_ [_ [Hpos _]]].
    rewrite (dense_read Thorough (th_fn (ge_G ge) cap)); try assumption.
    - unfold th_fn. destruct (all_equal (ge_G ge) (cap f)) eqn:Ea.
      + rewrite is_inv_const. cbn [fst]. f_equal.
        rewrite <- (all_equal_spec _ _ Ea t) by (destruct Hd as [_ [HG _]]; lia). apply dense_cap. exact Ht.
      + rewrite is_inv_self; [reflexivity | specialize (Hpos f Hf); lia].
    - apply planned_thorough; first [exact Hwf | apply dense_hel | apply dense_G1].
  Qed.

  Theorem heuristic_preserves_p la t f :
    const_or_ends_differ fields (ge_n ge) h = true -> no_coinciding_pair fields (ge_n ge) h = true ->
    0 <= t < ge_n ge -> In f fields ->
    read_field fields (write_geo Heuristic fields ge ndb h) la t f = Return (h t f).
  Proof.
    intros Hc Hp Ht Hf. destruct (wf_fields_facts _ Hwf) as [_ [_ [Hpos _]]].
    set (n := ge_n ge) in *.
    assert (Hpairs : forall f g, In f fields -> In g fields -> f <> g ->
              hx_cls_variant (h 0 f) (h (py_index n hx_last_index) f) = true ->
              hx_cls_variant (h 0 g) (h (py_index n hx_last_index) g) = true ->
              hx_cls_same (h 0 f) (h (py_index n hx_last_index) f) (h 0 g) (h (py_index n hx_last_index) g) = false).
    { intros a b Ha Hb Hab Hva Hvb. rewrite py_index_last in *. unfold no_coinciding_pair in Hp.
      rewrite forallb_forall in Hp. specialize (Hp a Ha). rewrite forallb_forall in Hp. specialize (Hp b Hb).
      unfold hx_cls_variant in Hva, Hvb. unfold hx_cls_same.
      destruct (Z.eqb_spec a b) as [E|E]; [contradiction|].
      destruct (h 0 a =? h (n - 1) a); [discriminate|]. destruct (h 0 b =? h (n - 1) b); [discriminate|].
      cbn [orb] in Hp. apply negb_true_iff in Hp. exact Hp. }
    rewrite (dense_read Heuristic (heur_fn (h 0) (h (py_index n hx_last_index)))); try assumption.
    - unfold heur_fn. destruct (hx_cls_variant (h 0 f) (h (py_index n hx_last_index) f)) eqn:Ev.
      + rewrite is_inv_self; [reflexivity | specialize (Hpos f Hf); lia].
      + rewrite is_inv_const. cbn [fst]. f_equal.
        unfold const_or_ends_differ in Hc. rewrite forallb_forall in Hc. specialize (Hc f Hf).
        rewrite py_index_last in Ev. unfold hx_cls_variant in Ev. apply negb_false_iff in Ev. rewrite Ev in Hc.
        cbn [negb] in Hc. rewrite orb_false_r in Hc. unfold all_traces in Hc. rewrite forallb_forall in Hc.
        symmetry. apply Z.eqb_eq. apply Hc. apply in_zrange. exact Ht.
    - apply planned_heuristic; first [exact Hwf | apply dense_hel | apply dense_G1 | exact Hpairs].
  Qed.
End Main.

(* ================================================================ gen_trace_header as a whole dictionary *)
Lemma mapM_Return {A B} (f : A -> outcome B) (g : A -> B) l :
  (forall x, In x l -> f x = Return (g x)) -> mapM f l = Return (map g l).
Proof.
  induction l as [|x r IH]; intro H; [reflexivity|]. cbn [mapM map]. rewrite (H x (or_introl eq_refl)). cbn [bind].
  rewrite IH by (intros y Hy; apply H; right; exact Hy). reflexivity.
Qed.
Lemma assocZ_In_NoDup {A} (l : list (Z * A)) kv : NoDup (map fst l) -> In kv l -> assocZ (fst kv) l = Some (snd kv).
Proof.
  induction l as [|[k v] r IH]; intros Hnd Hin; [destruct Hin|]. cbn [map fst] in Hnd. inversion Hnd as [|? ? Hx Hr]; subst.
  cbn [assocZ]. destruct Hin as [Hin|Hin].
  - subst kv. cbn [fst snd]. rewrite Z.eqb_refl. reflexivity.
  - destruct (Z.eqb_spec (fst kv) k) as [E|E]; [exfalso; apply Hx; rewrite <- E; apply in_map; exact Hin|].
    apply IH; assumption.
Qed.

Lemma gth_of_fields fields F la t (v : Z -> Z) tpl :
  NoDup fields -> rd_template fields F = Return tpl -> map fst tpl = fields ->
  (forall f, In f fields -> read_field fields F la t f = Return (v f)) ->
  hx_rd_index_ok t (f_tracecount F) = true ->
  gen_trace_header fields F la t = Return (map (fun f => (f, v f)) fields).
Proof.
  intros Hnd Ht Hk Hr Hok. unfold gen_trace_header. rewrite Hok, Ht. cbn [negb bind]. cbv zeta.
  rewrite (mapM_Return _ (fun kv => (fst kv, v (fst kv)))).
  - rewrite <- Hk, map_map. reflexivity.
  - intros kv Hkv. assert (Hf : In (fst kv) fields) by (rewrite <- Hk; apply in_map; exact Hkv).
    specialize (Hr _ Hf). unfold read_field in Hr. rewrite Hok, Ht in Hr. cbn [negb bind] in Hr. cbv zeta in Hr.
    rewrite (assocZ_In_NoDup tpl kv) in Hr by (try rewrite Hk; assumption). rewrite Hr. reflexivity.
Qed.

Section MainDict.
  Variables (fields : list Z) (ge : geometry) (ndb : Z) (h : Z -> Z -> Z).
  Hypothesis Hwf : wf_fields fields = true.
  Hypothesis Hd : dense ge.

  Lemma dense_gth md Fn la t :
    planned fields (write_geo md fields ge ndb h) Fn (capture (ge_ts ge) (ge_slot ge) h) (ge_G ge) hx_wr_pad ->
    (forall f, In f fields -> read_field fields (write_geo md fields ge ndb h) la t f = Return (h t f)) ->
    0 <= t < ge_n ge ->
    gen_trace_header fields (write_geo md fields ge ndb h) la t = Return (map (fun f => (f, h t f)) fields).
  Proof.
    intros P Hr Ht. destruct (wf_fields_facts _ Hwf) as [_ [Hnd _]].
    destruct (planned_template _ _ _ _ _ _ Hwf P) as [tpl [T1 [T2 _]]].
    apply (gth_of_fields fields _ la t (h t) tpl); try assumption.
    destruct (segy_write_proj md fields (ge_is3d ge) (ge_nil ge) (ge_nxl ge) (ge_n ge) (ge_G ge) ndb h
                (capture (ge_ts ge) (ge_slot ge) h)) as [_ [P2 _]].
    unfold write_geo. rewrite P2. unfold hx_rd_index_ok. apply andb_true_iff. split; [apply Z.leb_le | apply Z.ltb_lt]; lia.
  Qed.

  Theorem exhaustive_gth la t : 0 <= t < ge_n ge ->
    gen_trace_header fields (write_geo Exhaustive fields ge ndb h) la t = Return (map (fun f => (f, h t f)) fields).
  Proof.
    intro Ht. apply (dense_gth Exhaustive (fun f => (0, f))); try assumption.
    - apply planned_exhaustive; first [exact Hwf | apply dense_hel; exact Hd | apply dense_G1; exact Hd].
    - intros f Hf. apply exhaustive_preserves_p; assumption.
  Qed.
  Theorem thorough_gth la t : 0 <= t < ge_n ge ->
    gen_trace_header fields (write_geo Thorough fields ge ndb h) la t = Return (map (fun f => (f, h t f)) fields).
  Proof.
    intro Ht. apply (dense_gth Thorough (th_fn (ge_G ge) (capture (ge_ts ge) (ge_slot ge) h))); try assumption.
    - apply planned_thorough; first [exact Hwf | apply dense_hel; exact Hd | apply dense_G1; exact Hd].
    - intros f Hf. apply thorough_preserves_p; assumption.
  Qed.
End MainDict.

(* ================================================================ G. the SEG-Y textual + binary file header *)
Lemma nth_zrange_nat n : forall lo i d, (i < n)%nat -> nth i (zrange_nat lo n) d = lo + Z.of_nat i.
Proof.
  induction n as [|n IH]; intros lo i d Hi; [lia|]. cbn [zrange_nat]. destruct i as [|i]; cbn [nth]; [lia|].
  rewrite IH by lia. lia.
Qed.
Lemma zrange_nat_app a : forall lo b, zrange_nat lo (a + b) = zrange_nat lo a ++ zrange_nat (lo + Z.of_nat a) b.
Proof.
  induction a as [|a IH]; intros lo b; cbn [zrange_nat app Nat.add].
  - replace (lo + Z.of_nat 0) with lo by lia. reflexivity.
  - rewrite IH. replace (lo + 1 + Z.of_nat a) with (lo + Z.of_nat (S a)) by lia. reflexivity.
Qed.
Lemma zrange_app a b c : a <= b <= c -> zrange a b ++ zrange b c = zrange a c.
Proof.
  intro H. unfold zrange. replace (Z.to_nat (c - a)) with (Z.to_nat (b - a) + Z.to_nat (c - b))%nat by lia.
  rewrite zrange_nat_app. replace (a + Z.of_nat (Z.to_nat (b - a))) with b by lia. reflexivity.
Qed.
Lemma slice_app m a b c : a <= b <= c -> slice m a b ++ slice m b c = slice m a c.
Proof. intro H. unfold slice. rewrite <- map_app, zrange_app by exact H. reflexivity. Qed.
Lemma slice_ext m m' lo hi : (forall a, lo <= a < hi -> m a = m' a) -> slice m lo hi = slice m' lo hi.
Proof. intro H. unfold slice. apply map_ext_in. intros a Ha. apply H. apply in_zrange. exact Ha. Qed.

Lemma slice_splice_same m lo bs : slice (splice m lo bs) lo (lo + Z.of_nat (length bs)) = bs.
Proof.
  unfold slice, zrange. replace (Z.to_nat (lo + Z.of_nat (length bs) - lo)) with (length bs) by lia.
  apply (nth_ext _ _ (splice m lo bs lo) 0).
  - rewrite map_length, zrange_nat_length. reflexivity.
  - intros i Hi. rewrite map_length, zrange_nat_length in Hi.
    rewrite map_nth, nth_zrange_nat by exact Hi. unfold splice.
    replace ((lo <=? lo + Z.of_nat i) && (lo + Z.of_nat i <? lo + Z.of_nat (length bs))) with true
      by (symmetry; apply andb_true_iff; split; [apply Z.leb_le | apply Z.ltb_lt]; lia).
    replace (Z.to_nat (lo + Z.of_nat i - lo)) with i by lia. reflexivity.
Qed.
Lemma splice_outside m lo bs a : a < lo \/ lo + Z.of_nat (length bs) <= a -> splice m lo bs a = m a.
Proof.
  intro H. unfold splice.
  replace ((lo <=? a) && (a <? lo + Z.of_nat (length bs))) with false; [reflexivity|].
  symmetry. apply andb_false_iff. destruct H; [left; apply Z.leb_gt | right; apply Z.ltb_ge]; lia.
Qed.

Theorem file_headers_verbatim_p (src : list Z) (later : list (Z * list Z)) :
  hx_filehdr_read <= Z.of_nat (length src) ->
  (forall w, In w later -> fst w + Z.of_nat (length (snd w)) <= hx_filehdr_lo) ->
  rd_text (header_bytes src later) ++ rd_bin (header_bytes src later) = firstn (Z.to_nat hx_filehdr_read) src /\
  Z.of_nat (length (rd_text (header_bytes src later))) = hx_rd_text_hi - hx_rd_text_lo.
Proof.
  intros Hlen Hlater. unfold rd_text, rd_bin. split.
  - rewrite slice_app by (unfold hx_rd_text_lo, hx_rd_text_hi, hx_rd_bin_lo, hx_rd_bin_hi; lia).
    set (bs := firstn (Z.to_nat hx_filehdr_read) src).
    assert (Hbs : Z.of_nat (length bs) = hx_filehdr_read).
    { unfold bs. rewrite firstn_length_le; unfold hx_filehdr_read in *; lia. }
    assert (Hm : forall a, hx_filehdr_lo <= a -> header_bytes src later a = splice (fun _ => 0) hx_filehdr_lo bs a).
    { unfold header_bytes. fold bs. generalize (splice (fun _ => 0) hx_filehdr_lo bs) as m0.
      induction later as [|w r IH]; intros m0 a Ha; [reflexivity|]. cbn [fold_left].
      rewrite IH by (try exact Ha; intros w' Hw'; apply Hlater; right; exact Hw').
      apply splice_outside. right. specialize (Hlater w (or_introl eq_refl)). lia. }
    rewrite (slice_ext _ (splice (fun _ => 0) hx_filehdr_lo bs))
      by (intros a Ha; apply Hm; unfold hx_rd_text_lo, hx_filehdr_lo in *; lia).
    replace hx_rd_text_lo with hx_filehdr_lo by reflexivity.
    replace hx_rd_bin_hi with (hx_filehdr_lo + Z.of_nat (length bs)) by (rewrite Hbs; reflexivity).
    apply slice_splice_same.
  - unfold slice. rewrite map_length. unfold zrange. rewrite zrange_nat_length.
    unfold hx_rd_text_hi, hx_rd_text_lo. lia.
Qed.

(* ================================================================ H. the NumPy route *)
Lemma wrap32_id v : i32b v = true -> wrap32 v = v.
Proof.
  unfold i32b, wrap32. intro H. apply andb_true_iff in H. destruct H as [H1 H2]. apply Z.leb_le in H1. apply Z.ltb_lt in H2.
  rewrite Z.mod_small by lia. lia.
Qed.

Section Numpy.
  Variables (fields user : list Z) (n_il n_xl ndb : Z) (ua : Z -> Z -> Z) (ilines xlines : Z -> Z).
  Hypothesis Hwf : wf_fields fields = true.
  Hypothesis Huser : forall k, In k user -> In k fields.
  Hypothesis Hil : In hx_np_default_il fields.
  Hypothesis Hxl : In hx_np_default_xl fields.
  Hypothesis Hnil : 1 <= n_il.
  Hypothesis Hnxl : 1 <= n_xl.

  Lemma np_keys_In k : In k (np_keys user) <-> In k user \/ k = hx_np_default_il \/ k = hx_np_default_xl.
  Proof.
    unfold np_keys. rewrite set_sort_In.
    destruct (memZ hx_np_default_il (set_sort user)) eqn:E1.
    - apply memZ_In in E1. rewrite set_sort_In in E1.
      destruct (memZ hx_np_default_xl (set_sort user)) eqn:E2.
      + apply memZ_In in E2. rewrite set_sort_In in E2. rewrite set_sort_In. intuition (subst; auto).
      + rewrite in_app_iff, set_sort_In. cbn [In]. intuition (subst; auto).
    - destruct (memZ hx_np_default_xl (set_sort user ++ [hx_np_default_il])) eqn:E2.
      + apply memZ_In in E2. rewrite in_app_iff, set_sort_In in E2. cbn [In] in E2.
        rewrite in_app_iff, set_sort_In. cbn [In]. intuition (subst; auto).
      + rewrite !in_app_iff, set_sort_In. cbn [In]. intuition (subst; auto).
  Qed.

  Definition np_fn (f : Z) : Z * Z := if memZ f (np_keys user) then (0, f) else (0, 0).

  Lemma planned_numpy :
    planned fields (numpy_write fields user n_il n_xl ndb ua ilines xlines) np_fn
            (np_array user ua ilines xlines n_xl) (n_il * n_xl) hx_np_pad.
  Proof.
    destruct (wf_fields_facts _ Hwf) as [Hasc [Hnd [Hpos Hlen]]].
    assert (Hsub : forall k, In k (np_keys user) -> In k fields).
    { intros k Hk. apply np_keys_In in Hk. destruct Hk as [H|[H|H]]; subst; auto. }
    assert (HT : dict_table fields (np_keys user) = tbl_of np_fn fields).
    { unfold dict_table. rewrite tbl_init_of.
      rewrite (fold_upd_of (fun hw => Some (hx_tbl_dict hw)) fields Hnd (np_keys user) _ Hsub).
      apply tbl_of_ext. intros f Hf. unfold np_fn. destruct (memZ f (np_keys user)); reflexivity. }
    unfold numpy_write. cbv zeta. rewrite HT.
    constructor; cbn [f_nhb f_ndb f_hel f_count f_tracecount f_is3d f_nil f_nxl f_table f_footer];
      try reflexivity.
    - apply hel_3d_eq.
    - nia.
    - intros f Hf. unfold np_fn. destruct (memZ f (np_keys user)); [right|left]; reflexivity.
    - f_equal. f_equal. rewrite selfs_tbl_of. apply asc_ext_eq.
      + unfold np_keys. apply set_sort_asc.
      + apply asc_filter. exact Hasc.
      + intro k. rewrite filter_In. unfold np_fn. split.
        * intro Hk. split; [apply Hsub; exact Hk|]. apply memZ_In in Hk. rewrite Hk.
          rewrite is_inv_self; [reflexivity|]. apply memZ_In in Hk. specialize (Hpos k (Hsub k Hk)). lia.
        * intros [Hk Hi]. destruct (memZ k (np_keys user)) eqn:E; [apply memZ_In; exact E|].
          rewrite is_inv_const in Hi. discriminate.
  Qed.

  Theorem numpy_headers_roundtrip_p la t f : 0 <= t < n_il * n_xl -> In f fields ->
    read_field fields (numpy_write fields user n_il n_xl ndb ua ilines xlines) la t f
    = Return (np_array user ua ilines xlines n_xl f t).
  Proof.
    intros Ht Hf. destruct (wf_fields_facts _ Hwf) as [Hasc [Hnd [Hpos Hlen]]].
    rewrite (planned_read fields _ np_fn (np_array user ua ilines xlines n_xl) (n_il * n_xl) hx_np_pad);
      try assumption; try apply planned_numpy.
    - unfold np_fn. destruct (memZ f (np_keys user)) eqn:E.
      + rewrite is_inv_self; [reflexivity | specialize (Hpos f Hf); lia].
      + rewrite is_inv_const. cbn [fst]. f_equal. apply memZ_false in E. rewrite np_keys_In in E.
        unfold np_array. replace (memZ f user) with false by (symmetry; apply memZ_false; tauto).
        destruct (Z.eqb_spec f hx_np_default_il) as [E1|E1]; [tauto|].
        destruct (Z.eqb_spec f hx_np_default_xl) as [E2|E2]; [tauto|]. reflexivity.
    - unfold numpy_write. cbn [f_is3d f_tracecount f_nil f_nxl]. unfold hx_rd_structured. apply Z.eqb_refl.
    - unfold numpy_write. cbn [f_tracecount]. lia.
  Qed.
End Numpy.

(* ================================================================ final forms (referenced by Props/C04.v) *)
Lemma regular_or_2d_dense ge : regular_or_2d ge -> dense ge.
Proof.
  intros [[n_il [n_xl [bs0 [H1 [H2 [H3 ->]]]]]]|[n [bs1 [H1 [H2 ->]]]]]; [apply dense_regular | apply dense_2d]; assumption.
Qed.

Theorem table_roundtrip_wf fields (T : table) :
  wf_fields fields = true -> map fst T = fields -> from_buffer fields (to_buffer T) = T.
Proof.
  intros Hwf Hk. destruct (wf_fields_facts _ Hwf) as [_ [Hnd [_ Hlen]]]. apply table_roundtrip; assumption.
Qed.

Theorem exhaustive_preserves fields ge ndb h la t f :
  wf_fields fields = true -> regular_or_2d ge -> 0 <= t < ge_n ge -> In f fields ->
  read_field fields (write_geo Exhaustive fields ge ndb h) la t f = Return (h t f).
Proof. intros Hwf Hg. apply exhaustive_preserves_p; first [exact Hwf | apply regular_or_2d_dense; exact Hg]. Qed.

Theorem thorough_preserves fields ge ndb h la t f :
  wf_fields fields = true -> regular_or_2d ge -> 0 <= t < ge_n ge -> In f fields ->
  read_field fields (write_geo Thorough fields ge ndb h) la t f = Return (h t f).
Proof. intros Hwf Hg. apply thorough_preserves_p; first [exact Hwf | apply regular_or_2d_dense; exact Hg]. Qed.

Theorem heuristic_preserves fields ge ndb h la t f :
  wf_fields fields = true -> regular_or_2d ge ->
  const_or_ends_differ fields (ge_n ge) h = true -> no_coinciding_pair fields (ge_n ge) h = true ->
  0 <= t < ge_n ge -> In f fields ->
  read_field fields (write_geo Heuristic fields ge ndb h) la t f = Return (h t f).
Proof. intros Hwf Hg. apply heuristic_preserves_p; first [exact Hwf | apply regular_or_2d_dense; exact Hg]. Qed.

Theorem strip_reads_zero fields ge ndb h la t f :
  wf_fields fields = true -> regular_or_2d ge -> 0 <= t < ge_n ge -> In f fields ->
  read_field fields (write_geo Strip fields ge ndb h) la t f = Return 0.
Proof. intros Hwf Hg. apply strip_reads_zero_p; first [exact Hwf | apply regular_or_2d_dense; exact Hg]. Qed.

Theorem exhaustive_dict fields ge ndb h la t :
  wf_fields fields = true -> regular_or_2d ge -> 0 <= t < ge_n ge ->
  gen_trace_header fields (write_geo Exhaustive fields ge ndb h) la t = Return (map (fun f => (f, h t f)) fields).
Proof. intros Hwf Hg. apply exhaustive_gth; first [exact Hwf | apply regular_or_2d_dense; exact Hg]. Qed.
Theorem thorough_dict fields ge ndb h la t :
  wf_fields fields = true -> regular_or_2d ge -> 0 <= t < ge_n ge ->
  gen_trace_header fields (write_geo Thorough fields ge ndb h) la t = Return (map (fun f => (f, h t f)) fields).
Proof. intros Hwf Hg. apply thorough_gth; first [exact Hwf | apply regular_or_2d_dense; exact Hg]. Qed.

(* the documented limitation of 'heuristic': a field equal in the first and last trace but varying in between reads back
   as the constant; 1 x 3 cube, field 37 = 5, 6, 5 *)
Theorem heuristic_refuted :
  exists ge h t f, regular_or_2d ge /\ In f segy_fields /\ 0 <= t < ge_n ge /\
    no_coinciding_pair segy_fields (ge_n ge) h = true /\ h 0 f = h (ge_n ge - 1) f /\
    read_field segy_fields (write_geo Heuristic segy_fields ge 1 h) false t f = Return (h 0 f) /\ h t f <> h 0 f.
Proof.
  exists (geo_regular 1 3 4), (hdr_of_cols [(37, [5; 6; 5])]), 1, 37.
  split; [left; exists 1, 3, 4; repeat split; lia|].
  split; [vm_compute; tauto|]. split; [cbn [ge_n geo_regular]; lia|].
  split; [vm_compute; reflexivity|]. split; [vm_compute; reflexivity|].
  split; [vm_compute; reflexivity | vm_compute; discriminate].
Qed.

Theorem numpy_headers_roundtrip fields user n_il n_xl ndb ua ilines xlines la t f :
  wf_fields fields = true -> (forall k, In k user -> In k fields) ->
  In hx_np_default_il fields -> In hx_np_default_xl fields -> 1 <= n_il -> 1 <= n_xl ->
  0 <= t < n_il * n_xl -> In f fields ->
  read_field fields (numpy_write fields user n_il n_xl ndb ua ilines xlines) la t f
  = Return (np_expected user ua ilines xlines n_xl f t).
Proof. intros. apply numpy_headers_roundtrip_p; assumption. Qed.

Theorem np_expected_cases user ua ilines xlines n_xl f t :
  (In f user -> i32b (ua f t) = true -> np_expected user ua ilines xlines n_xl f t = ua f t) /\
  (~ In f user -> f = hx_np_default_il -> i32b (ilines (t / n_xl)) = true ->
     np_expected user ua ilines xlines n_xl f t = ilines (t / n_xl)) /\
  (~ In f user -> f = hx_np_default_xl -> i32b (xlines (t mod n_xl)) = true ->
     np_expected user ua ilines xlines n_xl f t = xlines (t mod n_xl)) /\
  (~ In f user -> f <> hx_np_default_il -> f <> hx_np_default_xl -> np_expected user ua ilines xlines n_xl f t = 0).
Proof.
  unfold np_expected, np_array. repeat split.
  - intros H Hi. apply memZ_In in H. rewrite H. apply wrap32_id. exact Hi.
  - intros H -> Hi. apply memZ_false in H. rewrite H. rewrite Z.eqb_refl. apply wrap32_id. exact Hi.
  - intros H -> Hi. apply memZ_false in H. rewrite H. cbn. apply wrap32_id. exact Hi.
  - intros H H1 H2. apply memZ_false in H. rewrite H. apply Z.eqb_neq in H1, H2. rewrite H1, H2. reflexivity.
Qed.

(* ================================================================ I. irregular 3D sources (masked read path) *)
Lemma asc_zrange_nat n : forall lo, asc (zrange_nat lo n).
Proof.
  induction n as [|n IH]; intro lo; cbn [zrange_nat]; [constructor|]. constructor; [apply IH|].
  apply Forall_forall. intros x Hx. apply in_zrange_nat in Hx. lia.
Qed.
Lemma asc_zrange lo hi : asc (zrange lo hi).
Proof. apply asc_zrange_nat. Qed.
Lemma asc_map_mono (pos : Z -> Z) l : asc l -> (forall a b, In a l -> In b l -> a < b -> pos a < pos b) -> asc (map pos l).
Proof.
  induction 1 as [|x r Hs IH Hall]; intro Hm; cbn [map]; [constructor|]. constructor.
  - apply IH. intros a b Ha Hb. apply Hm; right; assumption.
  - apply Forall_forall. intros y Hy. apply in_map_iff in Hy. destruct Hy as [z [<- Hz]].
    rewrite Forall_forall in Hall. apply Hm; [left; reflexivity | right; exact Hz | apply Hall; exact Hz].
Qed.
Lemma combine_map_filter {A} (q : A -> bool) (g : Z -> A) l :
  map fst (filter (fun pv => q (snd pv)) (combine l (map g l))) = filter (fun p => q (g p)) l.
Proof.
  induction l as [|x r IH]; [reflexivity|]. cbn [map combine filter snd]. destruct (q (g x)); cbn [map fst]; rewrite IH; reflexivity.
Qed.
Lemma nth_error_zrange n t : 0 <= t < n -> nth_error (zrange 0 n) (Z.to_nat t) = Some t.
Proof.
  intro H. unfold zrange. rewrite (nth_error_nth' _ 0) by (rewrite zrange_nat_length; lia).
  rewrite nth_zrange_nat by lia. f_equal. lia.
Qed.

Lemma planned_read_masked fields F Fn cap G padf (pos : Z -> Z) la t f :
  wf_fields fields = true -> planned fields F Fn cap G padf ->
  f_is3d F = true -> hx_rd_structured (f_tracecount F) (f_nil F) (f_nxl F) = false ->
  (forall s, 0 <= s < f_tracecount F -> 0 <= pos s < G) ->
  (forall s s', 0 <= s < s' -> s' < f_tracecount F -> pos s < pos s') ->
  In hx_rd_mask_field fields -> Fn hx_rd_mask_field = (0, hx_rd_mask_field) ->
  (forall s, 0 <= s < f_tracecount F -> cap hx_rd_mask_field (pos s) <> 0) ->
  (forall p, (forall s, 0 <= s < f_tracecount F -> pos s <> p) -> cap hx_rd_mask_field p = 0) ->
  0 <= t < f_tracecount F -> In f fields ->
  read_field fields F la t f = Return (if is_inv (f, Fn f) then fst (Fn f) else cap f (pos t)).
Proof.
  intros Hwf P H3 Hst Hpos Hmono Hmf Hmself Hnz Hz Ht Hf.
  destruct (wf_fields_facts _ Hwf) as [Hasc [Hnd [Hposf Hlen]]].
  set (n := f_tracecount F) in *. set (mf := hx_rd_mask_field) in *.
  unfold read_field. unfold hx_rd_index_ok. fold n.
  replace ((0 <=? t) && (t <? n)) with true
    by (symmetry; apply andb_true_iff; split; [apply Z.leb_le | apply Z.ltb_lt]; lia).
  cbn [negb]. destruct (planned_template _ _ _ _ _ _ Hwf P) as [tpl [Ht1 [Ht2 Ht3]]].
  rewrite Ht1. cbn [bind]. cbv zeta. rewrite (Ht3 f Hf).
  destruct (planned_kind_inv _ _ _ _ _ _ f P Hposf Hf) as [[Hi _]|[Hi Hself]]; rewrite Hi; [reflexivity|].
  pose proof (pl_G _ _ _ _ _ _ P) as HG1.
  assert (HrdG : rd_G F = G).
  { unfold rd_G. rewrite (pl_hel _ _ _ _ _ _ P). rewrite Z.mul_comm, Z.div_mul by lia. reflexivity. }
  assert (Hval : forall g p, In g fields -> Fn g = (0, g) -> 0 <= p < G ->
            rd_value F (field_offset F Fn fields G g) p = Return (cap g p)).
  { intros g p Hg Hgs Hp. unfold rd_value. rewrite HrdG.
    replace ((0 <=? p) && (p <? G)) with true
      by (symmetry; apply andb_true_iff; split; [apply Z.leb_le | apply Z.ltb_lt]; lia).
    apply (planned_word fields F Fn cap G padf); assumption. }
  (* the mask *)
  assert (Hmask : rd_mask F tpl = Return (map pos (zrange 0 n))).
  { unfold rd_mask. fold mf. rewrite (Ht3 mf Hmf). rewrite Hmself.
    rewrite is_inv_self by (specialize (Hposf mf Hmf); lia). rewrite HrdG.
    rewrite (mapM_Return _ (cap mf)) by (intros p Hp; apply in_zrange in Hp; apply Hval; assumption).
    cbn [bind]. f_equal. rewrite combine_map_filter. apply asc_ext_eq.
    - apply asc_filter. apply asc_zrange.
    - apply asc_map_mono; [apply asc_zrange|]. intros x y Hx Hy Hxy. apply in_zrange in Hx, Hy. apply Hmono; lia.
    - intro p. rewrite filter_In, in_zrange, in_map_iff. unfold hx_rd_mask_rule. split.
      + intros [Hp Hne]. apply negb_true_iff, Z.eqb_neq in Hne.
        destruct (find (fun s => pos s =? p) (zrange 0 n)) as [s|] eqn:Ef.
        * apply find_some in Ef. destruct Ef as [Hs He]. apply Z.eqb_eq in He. exists s. split; assumption.
        * exfalso. apply Hne. apply Hz. intros s Hs He.
          pose proof (find_none _ _ Ef s ltac:(apply in_zrange; exact Hs)) as Hc. cbv beta in Hc.
          apply Z.eqb_neq in Hc. contradiction.
      + intros [s [<- Hs]]. apply in_zrange in Hs. split; [apply Hpos; exact Hs|].
        apply negb_true_iff, Z.eqb_neq. apply Hnz. exact Hs. }
  unfold rd_resolve, hx_rd_via_arrays, rd_structured. fold n. rewrite H3, Hst. rewrite orb_true_r.
  unfold rd_variant_elem, hx_rd_use_mask, rd_structured. fold n. rewrite H3, Hst. cbn [andb orb negb].
  rewrite Hmask. cbn [bind]. rewrite nth_error_map, (nth_error_zrange n t Ht). cbn [option_map].
  apply Hval; [exact Hf | exact Hself | apply Hpos; exact Ht].
Qed.

Section Irregular.
  Variables (fields : list Z) (n_il n_xl bs0 n ndb : Z) (ili xli : Z -> Z) (h : Z -> Z -> Z).
  Hypothesis Hwf : wf_fields fields = true.
  Hypothesis Hmf : In hx_rd_mask_field fields.
  Hypothesis Hok : irregular_ok hx_rd_mask_field n_il n_xl bs0 n ili xli h.
  Let ge := geo_irregular n_il n_xl bs0 n ili xli.
  Let pos := fun t => xli t + ili t * n_xl.
  Let cap := capture (ge_ts ge) (ge_slot ge) h.
  Let G := n_il * n_xl.

  Lemma irr_pos_range s : 0 <= s < n -> 0 <= pos s < G.
  Proof.
    destruct Hok as [H1 [H2 [H3 [H4 [H5 _]]]]]. intro Hs. destruct (H5 s Hs) as [Hi Hx]. unfold pos, G. nia.
  Qed.
  Lemma irr_cap_at f s : 0 <= s < n -> cap f (pos s) = h s f.
  Proof.
    destruct Hok as [H1 [H2 [H3 [H4 [H5 [H6 _]]]]]]. intro Hs. unfold cap, ge, geo_irregular, pos. cbn [ge_ts ge_slot].
    rewrite <- (slot_irregular_eq n_xl bs0 ili xli s) by lia. apply capture_at; [apply in_zrange; exact Hs|].
    intros s' Hs' He. apply in_zrange in Hs'. rewrite !slot_irregular_eq in He by lia.
    destruct (Z.lt_trichotomy s' s) as [Hlt|[Heq|Hgt]]; [|exact Heq|].
    - specialize (H6 s' s ltac:(lia) ltac:(lia)). lia.
    - specialize (H6 s s' ltac:(lia) ltac:(lia)). lia.
  Qed.
  Lemma irr_cap_miss f p : (forall s, 0 <= s < n -> pos s <> p) -> cap f p = 0.
  Proof.
    destruct Hok as [H1 [H2 [H3 _]]]. intro Hm. unfold cap, ge, geo_irregular. cbn [ge_ts ge_slot]. apply capture_miss.
    intros s Hs. apply in_zrange in Hs. rewrite slot_irregular_eq by lia. apply Hm. exact Hs.
  Qed.

  Lemma irr_read md Fn la t f :
    planned fields (write_geo md fields ge ndb h) Fn cap G hx_wr_pad ->
    Fn hx_rd_mask_field = (0, hx_rd_mask_field) ->
    0 <= t < n -> In f fields ->
    read_field fields (write_geo md fields ge ndb h) la t f = Return (if is_inv (f, Fn f) then fst (Fn f) else h t f).
  Proof.
    intros P Hself Ht Hf. rewrite <- (irr_cap_at f t Ht).
    destruct Hok as [H1 [H2 [H3 [H4 [H5 [H6 [H7 H8]]]]]]].
    destruct (segy_write_proj md fields (ge_is3d ge) (ge_nil ge) (ge_nxl ge) (ge_n ge) (ge_G ge) ndb h cap)
      as [P1 [P2 [P3 [P4 P5]]]].
    unfold write_geo in P |- *. fold cap in P |- *.
    set (F := segy_write md fields (ge_is3d ge) (ge_nil ge) (ge_nxl ge) (ge_n ge) (ge_G ge) ndb h cap) in *.
    change (ge_is3d ge) with true in P1. change (ge_n ge) with n in P2. change (ge_nil ge) with n_il in P3.
    change (ge_nxl ge) with n_xl in P4.
    assert (A2 : hx_rd_structured (f_tracecount F) (f_nil F) (f_nxl F) = false).
    { rewrite P2, P3, P4. unfold hx_rd_structured. apply Z.eqb_neq. lia. }
    assert (A3 : forall s, 0 <= s < f_tracecount F -> 0 <= pos s < G) by (rewrite P2; apply irr_pos_range).
    assert (A4 : forall s s', 0 <= s < s' -> s' < f_tracecount F -> pos s < pos s').
    { rewrite P2. intros s s' Hs Hs'. apply H6; assumption. }
    assert (A5 : forall s, 0 <= s < f_tracecount F -> cap hx_rd_mask_field (pos s) <> 0).
    { rewrite P2. intros s Hs. rewrite irr_cap_at by exact Hs. apply H7. exact Hs. }
    assert (A6 : forall p, (forall s, 0 <= s < f_tracecount F -> pos s <> p) -> cap hx_rd_mask_field p = 0).
    { rewrite P2. apply irr_cap_miss. }
    assert (A7 : 0 <= t < f_tracecount F) by (rewrite P2; exact Ht).
    exact (planned_read_masked fields F Fn cap G hx_wr_pad pos la t f Hwf P P1 A2 A3 A4 Hmf Hself A5 A6 A7 Hf).
  Qed.

  Lemma irr_hel : (if ge_is3d ge then hx_hel_3d (ge_nxl ge) (ge_nil ge) else hx_hel_2d (ge_n ge)) = 4 * ge_G ge.
  Proof. unfold ge, geo_irregular. cbn [ge_is3d ge_nxl ge_nil ge_G]. unfold hx_irr_array_len. apply hel_3d_eq. Qed.
  Lemma irr_G1 : 1 <= ge_G ge.
  Proof. destruct Hok as [H1 [H2 _]]. unfold ge, geo_irregular. cbn [ge_G]. unfold hx_irr_array_len. nia. Qed.

  Theorem irregular_exhaustive_preserves_p la t f : 0 <= t < n -> In f fields ->
    read_field fields (write_geo Exhaustive fields ge ndb h) la t f = Return (h t f).
  Proof.
    intros Ht Hf. destruct (wf_fields_facts _ Hwf) as [_ [_ [Hpos _]]].
    rewrite (irr_read Exhaustive (fun f => (0, f))); try assumption; try reflexivity.
    - rewrite is_inv_self; [reflexivity | specialize (Hpos f Hf); lia].
    - apply planned_exhaustive; first [exact Hwf | apply irr_hel | apply irr_G1].
  Qed.

  Theorem irregular_thorough_preserves_p la t f : 0 <= t < n -> In f fields ->
    read_field fields (write_geo Thorough fields ge ndb h) la t f = Return (h t f).
  Proof.
    intros Ht Hf. destruct (wf_fields_facts _ Hwf) as [_ [_ [Hpos _]]].
    assert (Hmask_stored : th_fn (ge_G ge) cap hx_rd_mask_field = (0, hx_rd_mask_field)).
    { unfold th_fn. destruct (all_equal (ge_G ge) (cap hx_rd_mask_field)) eqn:Ea; [exfalso|reflexivity].
      destruct Hok as [H1 [H2 [H3 [H4 [H5 [H6 [H7 [p0 [Hp0 Hhole]]]]]]]]].
      pose proof (all_equal_spec _ _ Ea p0 Hp0) as E1.
      pose proof (all_equal_spec _ _ Ea (pos 0) (irr_pos_range 0 ltac:(lia))) as E2.
      rewrite irr_cap_miss in E1 by (intros s Hs; apply Hhole; exact Hs).
      rewrite irr_cap_at in E2 by lia. apply (H7 0 ltac:(lia)). congruence. }
    rewrite (irr_read Thorough (th_fn (ge_G ge) cap)); try assumption.
    - unfold th_fn. destruct (all_equal (ge_G ge) (cap f)) eqn:Ea.
      + rewrite is_inv_const. cbn [fst]. f_equal.
        rewrite <- (all_equal_spec _ _ Ea (pos t) (irr_pos_range t Ht)). apply irr_cap_at. exact Ht.
      + rewrite is_inv_self; [reflexivity | specialize (Hpos f Hf); lia].
    - apply planned_thorough; first [exact Hwf | apply irr_hel | apply irr_G1].
  Qed.
End Irregular.

Theorem irregular_exhaustive_preserves fields n_il n_xl bs0 n ndb ili xli h la t f :
  wf_fields fields = true -> In hx_rd_mask_field fields ->
  irregular_ok hx_rd_mask_field n_il n_xl bs0 n ili xli h -> 0 <= t < n -> In f fields ->
  read_field fields (write_geo Exhaustive fields (geo_irregular n_il n_xl bs0 n ili xli) ndb h) la t f = Return (h t f).
Proof. intros. apply irregular_exhaustive_preserves_p; assumption. Qed.
Theorem irregular_thorough_preserves fields n_il n_xl bs0 n ndb ili xli h la t f :
  wf_fields fields = true -> In hx_rd_mask_field fields ->
  irregular_ok hx_rd_mask_field n_il n_xl bs0 n ili xli h -> 0 <= t < n -> In f fields ->
  read_field fields (write_geo Thorough fields (geo_irregular n_il n_xl bs0 n ili xli) ndb h) la t f = Return (h t f).
Proof. intros. apply irregular_thorough_preserves_p; assumption. Qed.

(* a field the table holds as a constant reads back as that constant on any file, whatever the geometry *)
Lemma planned_read_const fields F Fn cap G padf la t f :
  wf_fields fields = true -> planned fields F Fn cap G padf -> 0 <= t < f_tracecount F -> In f fields ->
  is_inv (f, Fn f) = true -> read_field fields F la t f = Return (fst (Fn f)).
Proof.
  intros Hwf P Ht Hf Hi. unfold read_field, hx_rd_index_ok.
  replace ((0 <=? t) && (t <? f_tracecount F)) with true
    by (symmetry; apply andb_true_iff; split; [apply Z.leb_le | apply Z.ltb_lt]; lia).
  cbn [negb]. destruct (planned_template _ _ _ _ _ _ Hwf P) as [tpl [Ht1 [Ht2 Ht3]]].
  rewrite Ht1. cbn [bind]. cbv zeta. rewrite (Ht3 f Hf), Hi. reflexivity.
Qed.

Lemma pairs_of_no_coinciding fields n h : no_coinciding_pair fields n h = true ->
  forall f g, In f fields -> In g fields -> f <> g ->
    hx_cls_variant (h 0 f) (h (py_index n hx_last_index) f) = true ->
    hx_cls_variant (h 0 g) (h (py_index n hx_last_index) g) = true ->
    hx_cls_same (h 0 f) (h (py_index n hx_last_index) f) (h 0 g) (h (py_index n hx_last_index) g) = false.
Proof.
  intros Hp a b Ha Hb Hab Hva Hvb. rewrite py_index_last in *. unfold no_coinciding_pair in Hp.
  rewrite forallb_forall in Hp. specialize (Hp a Ha). rewrite forallb_forall in Hp. specialize (Hp b Hb).
  unfold hx_cls_variant in Hva, Hvb. unfold hx_cls_same.
  destruct (Z.eqb_spec a b) as [E|E]; [contradiction|].
  destruct (h 0 a =? h (n - 1) a); [discriminate|]. destruct (h 0 b =? h (n - 1) b); [discriminate|].
  cbn [orb] in Hp. apply negb_true_iff in Hp. exact Hp.
Qed.

Section Irregular2.
  Variables (fields : list Z) (n_il n_xl bs0 n ndb : Z) (ili xli : Z -> Z) (h : Z -> Z -> Z).
  Hypothesis Hwf : wf_fields fields = true.
  Hypothesis Hmf : In hx_rd_mask_field fields.
  Hypothesis Hok : irregular_ok hx_rd_mask_field n_il n_xl bs0 n ili xli h.
  Let ge := geo_irregular n_il n_xl bs0 n ili xli.
  Let cap := capture (ge_ts ge) (ge_slot ge) h.

  Theorem irregular_strip_reads_zero_p la t f : 0 <= t < n -> In f fields ->
    read_field fields (write_geo Strip fields ge ndb h) la t f = Return 0.
  Proof.
    intros Ht Hf.
    destruct (segy_write_proj Strip fields (ge_is3d ge) (ge_nil ge) (ge_nxl ge) (ge_n ge) (ge_G ge) ndb h cap)
      as [_ [P2 _]].
    unfold write_geo. fold cap.
    rewrite (planned_read_const fields _ (fun _ => (0, 0)) cap (ge_G ge) hx_wr_pad); try assumption;
      first [ reflexivity
            | apply planned_strip; first [exact Hwf | apply irr_hel | apply (irr_G1 n_il n_xl bs0 n ili xli h Hok)]
            | rewrite P2; exact Ht
            | apply is_inv_const ].
  Qed.

  Theorem irregular_heuristic_preserves_p la t f :
    const_or_ends_differ fields n h = true -> no_coinciding_pair fields n h = true ->
    h 0 hx_rd_mask_field <> h (n - 1) hx_rd_mask_field ->
    0 <= t < n -> In f fields ->
    read_field fields (write_geo Heuristic fields ge ndb h) la t f = Return (h t f).
  Proof.
    intros Hc Hp Hmv Ht Hf. destruct (wf_fields_facts _ Hwf) as [_ [_ [Hpos _]]].
    pose proof (pairs_of_no_coinciding fields n h Hp) as Hpairs.
    rewrite (irr_read fields n_il n_xl bs0 n ndb ili xli h Hwf Hmf Hok Heuristic
               (heur_fn (h 0) (h (py_index n hx_last_index)))); try assumption.
    - unfold heur_fn. destruct (hx_cls_variant (h 0 f) (h (py_index n hx_last_index) f)) eqn:Ev.
      + rewrite is_inv_self; [reflexivity | specialize (Hpos f Hf); lia].
      + rewrite is_inv_const. cbn [fst]. f_equal.
        unfold const_or_ends_differ in Hc. rewrite forallb_forall in Hc. specialize (Hc f Hf).
        rewrite py_index_last in Ev. unfold hx_cls_variant in Ev. apply negb_false_iff in Ev. rewrite Ev in Hc.
        cbn [negb] in Hc. rewrite orb_false_r in Hc. unfold all_traces in Hc. rewrite forallb_forall in Hc.
        symmetry. apply Z.eqb_eq. apply Hc. apply in_zrange. exact Ht.
    - apply planned_heuristic; first [exact Hwf | apply irr_hel | apply (irr_G1 n_il n_xl bs0 n ili xli h Hok) | exact Hpairs].
    - unfold heur_fn. rewrite py_index_last. unfold hx_cls_variant.
      apply Z.eqb_neq in Hmv. rewrite Hmv. reflexivity.
  Qed.
End Irregular2.

Theorem irregular_heuristic_preserves fields n_il n_xl bs0 n ndb ili xli h la t f :
  wf_fields fields = true -> In hx_rd_mask_field fields ->
  irregular_ok hx_rd_mask_field n_il n_xl bs0 n ili xli h ->
  const_or_ends_differ fields n h = true -> no_coinciding_pair fields n h = true ->
  h 0 hx_rd_mask_field <> h (n - 1) hx_rd_mask_field ->
  0 <= t < n -> In f fields ->
  read_field fields (write_geo Heuristic fields (geo_irregular n_il n_xl bs0 n ili xli) ndb h) la t f = Return (h t f).
Proof. intros. apply irregular_heuristic_preserves_p; assumption. Qed.
Theorem irregular_strip_reads_zero fields n_il n_xl bs0 n ndb ili xli h la t f :
  wf_fields fields = true -> In hx_rd_mask_field fields ->
  irregular_ok hx_rd_mask_field n_il n_xl bs0 n ili xli h -> 0 <= t < n -> In f fields ->
  read_field fields (write_geo Strip fields (geo_irregular n_il n_xl bs0 n ili xli) ndb h) la t f = Return 0.
Proof. intros. apply irregular_strip_reads_zero_p; assumption. Qed.

(* a concrete irregular source (used by Props/C04.v for non-vacuity) *)
Ltac cases4 t :=
  let H := fresh in assert (H : t = 0 \/ t = 1 \/ t = 2 \/ t = 3) by lia; destruct H as [-> | [-> | [-> | -> ]]].
Ltac decide_num := vm_compute; repeat split; first [discriminate | reflexivity | (intro; discriminate)].
Lemma irregular_example_ok :
  irregular_ok hx_rd_mask_field 2 3 4 4 (fun t => nth (Z.to_nat t) [0; 0; 1; 1] 0) (fun t => nth (Z.to_nat t) [0; 2; 0; 2] 0)
               (hdr_of_cols [(189, [10; 10; 13; 13]); (193, [20; 24; 20; 24])]).
Proof.
  unfold irregular_ok. split; [lia|]. split; [lia|]. split; [lia|]. split; [lia|].
  split. { intros t Ht. cases4 t; decide_num. }
  split. { intros s t Hs Ht. cases4 t; cases4 s; try lia; decide_num. }
  split. { intros t Ht. cases4 t; decide_num. }
  exists 1. split; [lia|]. intros t Ht. cases4 t; decide_num.
Qed.
