(* Proofs/GeometrySweepC.v -- C05, finite-domain computations (vm_compute) over the binary64 model, part C.
   Domain: EVERY start time t0 = -32768..32767 ms for the interval 1001 us (the first one the unrepaired code stored
   wrongly): header exact, first 3 samples equal; and long axes (the first 4096 samples) for a few (interval, start) pairs. *)
From Coq Require Import ZArith List Bool.
From SZ Require Import Lib.Py Gen.Geometry Model.Geometry.
Import ListNotations.
Open Scope Z_scope.

Theorem sweep_all_starts_d_1001 : forallb (fun t0 => zs_check 1001 t0 3) (zrange (-32768) 32768) = true.
Proof. vm_compute. reflexivity. Qed.
Theorem sweep_long_axes :
  forallb (fun d => forallb (fun t0 => zs_check d t0 4096) [0; -32768; 32767; 1500]) [1; 3; 1001; 4000; 65535] = true.
Proof. vm_compute. reflexivity. Qed.
