(* Proofs/Config.v -- C19 configuration soundness: proofs about the GENERATED define_blockshape* (Gen/Config.v). *)
From Coq Require Import ZArith QArith Qround List Bool Lia.
From SZ Require Import Lib.Py Lib.PyConfig Gen.Config Model.Config.
Import ListNotations.
Open Scope Z_scope.

(* ------------------------------------------------------------------ the generated function is the re-arranged one *)
Lemma gen_is_spec a bs d2 : define_blockshape a bs d2 = define_blockshape_spec a bs d2.
Proof. destruct bs as [[b0 b1] b2]. reflexivity. Qed.

(* ------------------------------------------------------------------ booleans on Q *)
Lemma Qlt_bool_iff a b : Qlt_bool a b = true <-> (a < b)%Q.
Proof.
  unfold Qlt_bool. rewrite negb_true_iff. split.
  - intro H. apply Qnot_le_lt. intro L. apply Qle_bool_iff in L. congruence.
  - intro H. destruct (Qle_bool b a) eqn:E; [|reflexivity]. apply Qle_bool_iff in E.
    exfalso. exact (Qlt_not_le _ _ H E).
Qed.

Lemma Qlt_bool_false a b : Qlt_bool a b = false <-> (b <= a)%Q.
Proof.
  unfold Qlt_bool. rewrite negb_false_iff. apply Qle_bool_iff.
Qed.

Lemma Qeq_bool_false a b : Qeq_bool a b = false <-> ~ (a == b)%Q.
Proof.
  split; [apply Qeq_bool_neq|]. intro N. destruct (Qeq_bool a b) eqn:E; [|reflexivity].
  apply Qeq_bool_iff in E. contradiction.
Qed.

Lemma Qeq_bool_comp_l a b c : (a == b)%Q -> Qeq_bool a c = Qeq_bool b c.
Proof.
  intro E. destruct (Qeq_bool b c) eqn:B.
  - apply Qeq_bool_iff. apply Qeq_bool_iff in B. rewrite E. exact B.
  - apply Qeq_bool_false. apply Qeq_bool_false in B. rewrite E. exact B.
Qed.

Lemma Qlt_bool_comp_l a b c : (a == b)%Q -> Qlt_bool a c = Qlt_bool b c.
Proof. intro E. unfold Qlt_bool. rewrite (Qleb_comp c c (Qeq_refl c) a b E). reflexivity. Qed.

Lemma inject_Z_nonzero n : n <> 0 -> ~ (inject_Z n == 0)%Q.
Proof. intros Hn E. apply Hn. apply (proj1 (inject_Z_injective n 0)). exact E. Qed.

(* ------------------------------------------------------------------ the eight rates *)
Lemma q_in_iff q : q_in q rates = true <-> is_rate q.
Proof.
  unfold q_in, is_rate. rewrite existsb_exists.
  split; intros (k & Hk & E); exists k; (split; [exact Hk|]); apply Qeq_bool_iff; exact E.
Qed.

Lemma is_rate_cases q : is_rate q ->
  (q == 1 # 4 \/ q == 1 # 2 \/ q == 1 # 1 \/ q == 2 # 1 \/ q == 4 # 1 \/ q == 8 # 1 \/ q == 16 # 1 \/ q == 32 # 1)%Q.
Proof.
  intros (k & Hk & E). unfold rates in Hk. cbn [In] in Hk.
  destruct Hk as [<-|[<-|[<-|[<-|[<-|[<-|[<-|[<-|[]]]]]]]]]; tauto.
Qed.

Lemma is_rate_comp q q' : (q == q')%Q -> is_rate q -> is_rate q'.
Proof. intros E (k & Hk & Ek). exists k. split; [exact Hk|]. rewrite <- E. exact Ek. Qed.

Lemma is_rate_pos q : is_rate q -> (0 < q)%Q.
Proof.
  intro R. destruct (is_rate_cases q R) as [E|[E|[E|[E|[E|[E|[E|E]]]]]]]; rewrite E; reflexivity.
Qed.

Lemma is_rate_ge_quarter q : is_rate q -> (1 # 4 <= q)%Q.
Proof.
  intro R. destruct (is_rate_cases q R) as [E|[E|[E|[E|[E|[E|[E|E]]]]]]]; rewrite E; unfold Qle; cbn; lia.
Qed.

(* ------------------------------------------------------------------ powers of two *)
Lemma land_pred_pow2 n : 0 < n -> Z.land n (n - 1) = 0 -> n = 2 ^ Z.log2 n.
Proof.
  intros Hn HL. pose proof (Z.log2_spec n Hn) as [Lo Hi]. pose proof (Z.log2_nonneg n) as Hk.
  destruct (Z.eq_dec n (2 ^ Z.log2 n)) as [E|Ne]; [exact E|exfalso].
  assert (P : 0 < 2 ^ Z.log2 n) by (apply Z.pow_pos_nonneg; lia).
  assert (L1 : Z.log2 (n - 1) = Z.log2 n) by (apply Z.log2_unique; lia).
  pose proof (Z.bit_log2 n Hn) as B1. pose proof (Z.bit_log2 (n - 1) ltac:(lia)) as B2. rewrite L1 in B2.
  assert (T : Z.testbit (Z.land n (n - 1)) (Z.log2 n) = true) by (rewrite Z.land_spec, B1, B2; reflexivity).
  rewrite HL, Z.bits_0 in T. discriminate.
Qed.

Lemma pow2_land k : 0 <= k -> Z.land (2 ^ k) (2 ^ k - 1) = 0.
Proof.
  intro Hk. replace (2 ^ k - 1) with (Z.ones k) by (rewrite Z.ones_equiv; lia).
  rewrite Z.land_ones by exact Hk. apply Z.mod_same. apply Z.pow_nonzero; lia.
Qed.

Lemma pow2_ge4b_iff n : pow2_ge4b n = true <-> pow2_ge4 n.
Proof.
  unfold pow2_ge4b, pow2_ge4. rewrite andb_true_iff, Z.leb_le, Z.eqb_eq. split.
  - intros [H4 HL]. exists (Z.log2 n). split.
    + change 2 with (Z.log2 4). apply Z.log2_le_mono. exact H4.
    + apply land_pred_pow2; [lia|exact HL].
  - intros (k & Hk & ->). split.
    + change 4 with (2 ^ 2). apply Z.pow_le_mono_r; lia.
    + apply pow2_land. lia.
Qed.

(* the validation loop's test, as the generator writes it *)
Lemma dim_check_iff n : negb ((n >=? 4) && (Z.land n (n - 1) =? 0)) = false <-> pow2_ge4 n.
Proof.
  rewrite negb_false_iff, <- pow2_ge4b_iff. unfold pow2_ge4b. rewrite Z.geb_leb. reflexivity.
Qed.

Lemma pow2_ge4_pos n : pow2_ge4 n -> 4 <= n.
Proof. intros (k & Hk & ->). change 4 with (2 ^ 2). apply Z.pow_le_mono_r; lia. Qed.

(* ------------------------------------------------------------------ the argument *)
Lemma arg_to_num_value a v : arg_to_num a = Return v <-> arg_value a = Some v.
Proof.
  destruct a as [z|q|[q|]]; cbn; split; intro H; try discriminate; inversion H; reflexivity.
Qed.

Lemma arg_to_num_raise a e : arg_to_num a = Raise e -> arg_value a = None.
Proof. destruct a as [z|q|[q|]]; cbn; intro H; try discriminate; reflexivity. Qed.

Lemma arg_eq_int_value a k : arg_eq_int a k = true ->
  exists v, arg_value a = Some v /\ Qeq_bool v (inject_Z k) = true.
Proof.
  destruct a as [z|q|s]; cbn; intro H; try discriminate.
  - exists (inject_Z z). split; [reflexivity|]. apply Z.eqb_eq in H. subst z. apply Qeq_bool_iff. reflexivity.
  - exists q. split; [reflexivity|exact H].
Qed.

(* `1 / -x if x < -1 else x` never raises and yields rate_of_value *)
Lemma recip_step_eq v : recip_step v = Return (rate_of_value v).
Proof.
  unfold recip_step, rate_of_value. destruct (Qlt_bool v (inject_Z (-1))) eqn:L; [|reflexivity].
  apply Qlt_bool_iff in L. unfold q_truediv.
  replace (Qeq_bool (- v) 0) with false; [reflexivity|]. symmetry. apply Qeq_bool_false. intro E.
  assert (E2 : (v == 0)%Q) by (rewrite <- (Qopp_involutive v), E; reflexivity).
  rewrite E2 in L. discriminate L.
Qed.

Lemma rate_of_value_free v : Qeq_bool (rate_of_value v) (inject_Z (-1)) = Qeq_bool v (inject_Z (-1)).
Proof.
  unfold rate_of_value. destruct (Qlt_bool v (inject_Z (-1))) eqn:L; [|reflexivity].
  apply Qlt_bool_iff in L.
  replace (Qeq_bool v (inject_Z (-1))) with false.
  2:{ symmetry. apply Qeq_bool_false. intro E. rewrite E in L. discriminate L. }
  apply Qeq_bool_false. intro E.
  assert (P : (0 < - v)%Q). { apply (Qopp_lt_compat v 0). apply Qlt_trans with (inject_Z (-1)); [exact L|reflexivity]. }
  assert (P2 : (0 < inject_Z 1 / - v)%Q). { apply Qlt_shift_div_l; [exact P|]. rewrite Qmult_0_l. reflexivity. }
  rewrite E in P2. discriminate P2.
Qed.

Lemma rate_of_value_comp v v' : (v == v')%Q -> (rate_of_value v == rate_of_value v')%Q.
Proof.
  intro E. unfold rate_of_value. rewrite (Qlt_bool_comp_l v v' _ E).
  destruct (Qlt_bool v' (inject_Z (-1))); [|exact E]. rewrite E. reflexivity.
Qed.

(* ------------------------------------------------------------------ division *)
Lemma q_truediv_ok a b : ~ (b == 0)%Q -> q_truediv a b = Return (a / b)%Q.
Proof. intro N. unfold q_truediv. apply Qeq_bool_false in N. rewrite N. reflexivity. Qed.

Lemma q_floordiv_exact a b z : ~ (b == 0)%Q -> (a == inject_Z z * b)%Q -> q_floordiv a b = Return (inject_Z z).
Proof.
  intros N E. unfold q_floordiv. apply Qeq_bool_false in N as N'. rewrite N'. f_equal. f_equal.
  rewrite <- (Qfloor_Z z). apply Qfloor_comp. rewrite E. apply Qdiv_mult_l. exact N.
Qed.

Lemma q_int_inject z : q_int (inject_Z z) = z.
Proof. unfold q_int. cbn. apply Z.quot_1_r. Qed.

Lemma q_int_of_Qeq q z : (q == inject_Z z)%Q -> q_int q = z.
Proof.
  unfold Qeq, q_int. cbn. intro E. rewrite Z.mul_1_r in E. rewrite E. apply Z.quot_mul. discriminate.
Qed.

(* ------------------------------------------------------------------ the validation phase *)
Definition checks (d2 : bool) (q : Q) (x y z : Z) : Prop :=
  is_rate q /\ supported d2 q /\ (d2 = false -> pow2_ge4 x) /\ pow2_ge4 y /\ pow2_ge4 z /\
  (q * inject_Z (x * y * z) == inject_Z 32768)%Q.

Lemma product_form q x y z :
  (((q * inject_Z x) * inject_Z y) * inject_Z z == q * inject_Z (x * y * z))%Q.
Proof. rewrite !inject_Z_mult. ring. Qed.

Lemma supported_iff d2 q : d2 && Qlt_bool q (inject_Z 1) = false <-> supported d2 q.
Proof.
  unfold supported. destruct d2; cbn [andb].
  - rewrite Qlt_bool_false. split; [intros H _; exact H|intro H; apply H; reflexivity].
  - split; [intros _ H; discriminate H|reflexivity].
Qed.

Lemma dims_iff (d2 : bool) x y z :
  existsb (fun n => negb ((n >=? 4) && (Z.land n (n - 1) =? 0))) (if d2 then [y; z] else [x; y; z]) = false <->
  (d2 = false -> pow2_ge4 x) /\ pow2_ge4 y /\ pow2_ge4 z.
Proof.
  destruct d2; cbn [existsb]; rewrite ?orb_false_iff, ?dim_check_iff; split.
  - intros (Hy & Hz & _). repeat split; try assumption. intro H; discriminate H.
  - intros (_ & Hy & Hz). repeat split; assumption.
  - intros (Hx & Hy & Hz & _). repeat split; try assumption. intros _. exact Hx.
  - intros (Hx & Hy & Hz). repeat split; try assumption. apply Hx. reflexivity.
Qed.

Lemma final_checks_iff d2 q x y z r :
  final_checks d2 q x y z = Return r <-> r = (q, (x, y, z)) /\ checks d2 q x y z.
Proof.
  unfold final_checks, checks.
  destruct (negb (q_in q rates)) eqn:C1.
  { split; [discriminate|]. intros (_ & R & _). apply q_in_iff in R. rewrite R in C1. discriminate C1. }
  apply negb_false_iff in C1. apply q_in_iff in C1.
  destruct (d2 && Qlt_bool q (inject_Z 1)) eqn:C2.
  { split; [discriminate|]. intros (_ & _ & S & _). apply supported_iff in S. congruence. }
  apply supported_iff in C2.
  destruct (existsb _ _) eqn:C3.
  { split; [discriminate|]. intros (_ & _ & _ & Hx & Hy & Hz & _).
    assert (D : existsb (fun n => negb ((n >=? 4) && (Z.land n (n - 1) =? 0))) (if d2 then [y; z] else [x; y; z]) = false)
      by (apply dims_iff; repeat split; assumption).
    congruence. }
  apply dims_iff in C3. destruct C3 as (Hx & Hy & Hz).
  destruct (Qeq_bool _ _) eqn:C4.
  - apply Qeq_bool_iff in C4. rewrite product_form in C4. change (inject_Z (4096 * 8)) with (inject_Z 32768) in C4.
    split.
    + intro H. inversion H. repeat split; assumption.
    + intros (-> & _). reflexivity.
  - split; [discriminate|]. intros (_ & _ & _ & _ & _ & _ & P). apply Qeq_bool_false in C4. exfalso. apply C4.
    rewrite product_form. exact P.
Qed.

Lemma checks_comp d2 q q' x y z : (q == q')%Q -> checks d2 q x y z -> checks d2 q' x y z.
Proof.
  intros E (R & S & Hx & Hy & Hz & P). unfold checks. repeat split; try assumption.
  - exact (is_rate_comp q q' E R).
  - intro H. rewrite <- E. exact (S H).
  - rewrite <- E. exact P.
Qed.

Lemma checks_wf d2 q x y z : (d2 = true -> x = 1) -> checks d2 q x y z -> wf d2 (q, (x, y, z)) /\ supported d2 q.
Proof.
  intros H1 (R & S & Hx & Hy & Hz & P). split; [|exact S]. unfold wf. repeat split; try assumption.
  destruct d2; [apply H1; reflexivity|apply Hx; reflexivity].
Qed.

Lemma wf_checks d2 q x y z : wf d2 (q, (x, y, z)) -> supported d2 q -> checks d2 q x y z.
Proof.
  intros (R & H0 & Hy & Hz & P) S. unfold checks. repeat split; try assumption.
  intro E. rewrite E in H0. exact H0.
Qed.

(* ------------------------------------------------------------------ what a returned value tells (soundness) *)
Lemma spec_inv a b0 b1 b2 d2 r :
  define_blockshape_spec a (b0, b1, b2) d2 = Return r ->
  exists q x y z, r = (q, (x, y, z)) /\ checks d2 q x y z /\
    (b0 = -1 \/ x = b0) /\ (b1 = -1 \/ y = b1) /\ (b2 = -1 \/ z = b2) /\
    exists v, arg_value a = Some v /\ ((v == inject_Z (-1))%Q \/ q = rate_of_value v).
Proof.
  unfold define_blockshape_spec.
  destruct (py_count _ >? 1); [discriminate|].
  destruct (arg_to_num a) as [v|e] eqn:A; cbn [bind]; [|discriminate].
  apply arg_to_num_value in A. rewrite recip_step_eq. cbn [bind].
  destruct (Qeq_bool (rate_of_value v) (inject_Z (-1))) eqn:F.
  - (* the rate is free *)
    rewrite rate_of_value_free in F. apply Qeq_bool_iff in F.
    destruct (q_truediv _ _) as [t|e]; cbn [bind]; [|discriminate].
    intro H. apply final_checks_iff in H. destruct H as (-> & C).
    exists t, b0, b1, b2. split; [reflexivity|]. split; [exact C|]. split; [auto|]. split; [auto|]. split; [auto|]. exists v. split; [exact A|left; exact F].
  - destruct (b0 =? -1) eqn:E0.
    { apply Z.eqb_eq in E0. destruct (q_floordiv _ _) as [t|e]; cbn [bind]; [|discriminate].
      intro H. apply final_checks_iff in H. destruct H as (-> & C).
      exists (rate_of_value v), (q_int t), b1, b2. split; [reflexivity|]. split; [exact C|]. split; [auto|]. split; [auto|]. split; [auto|]. exists v. split; [exact A|right; reflexivity]. }
    destruct (b1 =? -1) eqn:E1.
    { apply Z.eqb_eq in E1. destruct (q_floordiv _ _) as [t|e]; cbn [bind]; [|discriminate].
      intro H. apply final_checks_iff in H. destruct H as (-> & C).
      exists (rate_of_value v), b0, (q_int t), b2. split; [reflexivity|]. split; [exact C|]. split; [auto|]. split; [auto|]. split; [auto|]. exists v. split; [exact A|right; reflexivity]. }
    destruct (b2 =? -1) eqn:E2.
    { apply Z.eqb_eq in E2. destruct (q_floordiv _ _) as [t|e]; cbn [bind]; [|discriminate].
      intro H. apply final_checks_iff in H. destruct H as (-> & C).
      exists (rate_of_value v), b0, b1, (q_int t). split; [reflexivity|]. split; [exact C|]. split; [auto|]. split; [auto|]. split; [auto|]. exists v. split; [exact A|right; reflexivity]. }
    intro H. apply final_checks_iff in H. destruct H as (-> & C).
    exists (rate_of_value v), b0, b1, b2. split; [reflexivity|]. split; [exact C|]. split; [auto|]. split; [auto|]. split; [auto|]. exists v. split; [exact A|right; reflexivity].
Qed.

(* resolve, unfolded to the re-arranged function *)
Lemma resolve_unfold c :
  resolve c = let '(b0, b1, b2) := c_bs c in
              if c_2d c then (if b0 =? 1 then define_blockshape_spec (c_bpv c) (b0, b1, b2) true else Raise AssertErr)
              else define_blockshape_spec (c_bpv c) (b0, b1, b2) false.
Proof.
  unfold resolve, define_blockshape_2d, define_blockshape_3d. destruct (c_bs c) as [[b0 b1] b2].
  rewrite !gen_is_spec. reflexivity.
Qed.

Lemma resolve_inv c r : resolve c = Return r ->
  exists q x y z, r = (q, (x, y, z)) /\ checks (c_2d c) q x y z /\ (c_2d c = true -> x = 1) /\
    completes c (q, (x, y, z)) /\
    exists v, arg_value (c_bpv c) = Some v /\ ((v == inject_Z (-1))%Q \/ q = rate_of_value v).
Proof.
  rewrite resolve_unfold. unfold completes. destruct (c_bs c) as [[b0 b1] b2]. destruct (c_2d c) eqn:D.
  - destruct (b0 =? 1) eqn:E; [|discriminate]. apply Z.eqb_eq in E. subst b0. intro H.
    destruct (spec_inv _ _ _ _ _ _ H) as (q & x & y & z & -> & C & [X|X] & Y & Z' & v & A & V); [discriminate X|].
    exists q, x, y, z. split; [reflexivity|]. split; [exact C|]. split; [intros _; exact X|].
    split; [|exists v; split; assumption].
    split; [right; exact X|]. split; [exact Y|]. split; [exact Z'|].
    exists v. split; [exact A|]. destruct V as [V|V]; [left; exact V|right; rewrite V; reflexivity].
  - intro H. destruct (spec_inv _ _ _ _ _ _ H) as (q & x & y & z & -> & C & X & Y & Z' & v & A & V).
    exists q, x, y, z. split; [reflexivity|]. split; [exact C|]. split; [intro H1; discriminate H1|].
    split; [|exists v; split; assumption].
    split; [exact X|]. split; [exact Y|]. split; [exact Z'|].
    exists v. split; [exact A|]. destruct V as [V|V]; [left; exact V|right; rewrite V; reflexivity].
Qed.

(* C19, first half: WHATEVER is accepted is well-formed, for all requests (unbounded integers, any number, any str) *)
Theorem accepted_sound c r : resolve c = Return r -> wf (c_2d c) r /\ supported (c_2d c) (fst r).
Proof.
  intro H. destruct (resolve_inv c r H) as (q & x & y & z & -> & C & X1 & _). cbn [fst].
  apply checks_wf; assumption.
Qed.

(* ... and keeps every parameter that was not left free *)
Theorem accepted_keeps_fixed c r : resolve c = Return r -> completes c r.
Proof. intro H. destruct (resolve_inv c r H) as (q & x & y & z & -> & _ & _ & K & _). exact K. Qed.

(* ------------------------------------------------------------------ completeness: a well-formed completion is found *)
Lemma final_pass d2 q x y z : checks d2 q x y z -> final_checks d2 q x y z = Return (q, (x, y, z)).
Proof. intro C. apply final_checks_iff. split; [reflexivity|exact C]. Qed.

Lemma prod_rate_nonzero n q : n <> 0 -> is_rate q -> ~ (inject_Z n * q == 0)%Q.
Proof.
  intros Hn R E. apply Qmult_integral in E. destruct E as [E|E].
  - exact (inject_Z_nonzero n Hn E).
  - pose proof (is_rate_pos q R) as P. rewrite E in P. discriminate P.
Qed.

Lemma exact_eq q n m : (q * inject_Z (n * m) == inject_Z 32768)%Q ->
  (inject_Z (4096 * 8) == inject_Z n * (inject_Z m * q))%Q.
Proof. intro H. change (inject_Z (4096 * 8)) with (inject_Z 32768). rewrite <- H, inject_Z_mult. ring. Qed.

Lemma code_count_le a v b0 b1 b2 :
  arg_value a = Some v ->
  py_count [b0 =? -1; b1 =? -1; b2 =? -1; Qeq_bool v (inject_Z (-1))] <= 1 ->
  (py_count [b0 =? -1; b1 =? -1; b2 =? -1; arg_eq_int a (-1)] >? 1) = false.
Proof.
  intros A Hc. destruct (arg_eq_int a (-1)) eqn:EA.
  - apply arg_eq_int_value in EA. destruct EA as (v' & A' & EV). rewrite A in A'. inversion A'. subst v'.
    rewrite EV in Hc. revert Hc. destruct (b0 =? -1), (b1 =? -1), (b2 =? -1); cbn; lia.
  - revert Hc. destruct (b0 =? -1), (b1 =? -1), (b2 =? -1), (Qeq_bool v (inject_Z (-1))); cbn; lia.
Qed.

Lemma spec_complete a v b0 b1 b2 d2 q x y z :
  arg_value a = Some v ->
  py_count [b0 =? -1; b1 =? -1; b2 =? -1; Qeq_bool v (inject_Z (-1))] <= 1 ->
  (b0 = -1 \/ x = b0) -> (b1 = -1 \/ y = b1) -> (b2 = -1 \/ z = b2) ->
  ((v == inject_Z (-1))%Q \/ (q == rate_of_value v)%Q) ->
  checks d2 q x y z -> 0 < x ->
  exists q', define_blockshape_spec a (b0, b1, b2) d2 = Return (q', (x, y, z)) /\ (q' == q)%Q.
Proof.
  intros A Hc X Y Z' V C Hx.
  pose proof C as (R & S & _ & Py & Pz & P).
  pose proof (pow2_ge4_pos y Py) as Hy. pose proof (pow2_ge4_pos z Pz) as Hz.
  unfold define_blockshape_spec. rewrite (code_count_le a v b0 b1 b2 A Hc).
  rewrite (proj2 (arg_to_num_value a v) A). cbn [bind]. rewrite recip_step_eq. cbn [bind].
  rewrite rate_of_value_free.
  destruct (Qeq_bool v (inject_Z (-1))) eqn:F.
  - (* the rate is free: the three dimensions are given *)
    assert (E0 : (b0 =? -1) = false /\ (b1 =? -1) = false /\ (b2 =? -1) = false).
    { revert Hc. destruct (b0 =? -1), (b1 =? -1), (b2 =? -1); cbn; intro; repeat split; lia. }
    destruct E0 as (E0 & E1 & E2). apply Z.eqb_neq in E0, E1, E2.
    destruct X as [X|X]; [contradiction|]. destruct Y as [Y|Y]; [contradiction|]. destruct Z' as [Z'|Z']; [contradiction|].
    subst b0 b1 b2.
    assert (N : ~ (inject_Z (x * y * z) == 0)%Q) by (apply inject_Z_nonzero; nia).
    rewrite (q_truediv_ok _ _ N). cbn [bind].
    assert (E : (inject_Z (4096 * 8) / inject_Z (x * y * z) == q)%Q).
    { change (inject_Z (4096 * 8)) with (inject_Z 32768). rewrite <- P. apply Qdiv_mult_l. exact N. }
    eexists. split; [|exact E]. apply final_pass. apply (checks_comp d2 q); [symmetry; exact E|exact C].
  - (* the rate is given *)
    destruct V as [V|V]; [apply Qeq_bool_iff in V; congruence|].
    set (q0 := rate_of_value v) in *.
    assert (C0 : checks d2 q0 x y z) by (apply (checks_comp d2 q); assumption).
    pose proof C0 as (R0 & _ & _ & _ & _ & P0).
    exists q0. split; [|symmetry; exact V].
    destruct (b0 =? -1) eqn:E0.
    { assert (E12 : (b1 =? -1) = false /\ (b2 =? -1) = false).
      { revert Hc. destruct (b1 =? -1), (b2 =? -1); cbn; intro; split; lia. }
      destruct E12 as (E1 & E2). apply Z.eqb_neq in E1, E2.
      destruct Y as [Y|Y]; [contradiction|]. destruct Z' as [Z'|Z']; [contradiction|]. subst b1 b2.
      rewrite (q_floordiv_exact _ _ x).
      - cbn [bind]. rewrite q_int_inject. apply final_pass. exact C0.
      - apply prod_rate_nonzero; [nia|exact R0].
      - apply exact_eq. replace (x * (y * z)) with (x * y * z) by ring. exact P0. }
    apply Z.eqb_neq in E0. destruct X as [X|X]; [contradiction|]. subst b0.
    destruct (b1 =? -1) eqn:E1.
    { assert (E2 : (b2 =? -1) = false).
      { revert Hc. replace (x =? -1) with false by lia. destruct (b2 =? -1); cbn; intro; lia. }
      apply Z.eqb_neq in E2. destruct Z' as [Z'|Z']; [contradiction|]. subst b2.
      rewrite (q_floordiv_exact _ _ y).
      - cbn [bind]. rewrite q_int_inject. apply final_pass. exact C0.
      - apply prod_rate_nonzero; [nia|exact R0].
      - apply exact_eq. replace (y * (z * x)) with (x * y * z) by ring. exact P0. }
    apply Z.eqb_neq in E1. destruct Y as [Y|Y]; [contradiction|]. subst b1.
    destruct (b2 =? -1) eqn:E2.
    { rewrite (q_floordiv_exact _ _ z).
      - cbn [bind]. rewrite q_int_inject. apply final_pass. exact C0.
      - apply prod_rate_nonzero; [nia|exact R0].
      - apply exact_eq. replace (z * (x * y)) with (x * y * z) by ring. exact P0. }
    apply Z.eqb_neq in E2. destruct Z' as [Z'|Z']; [contradiction|]. subst b2.
    apply final_pass. exact C0.
Qed.

(* C19, free-parameter resolution is COMPLETE: when at most one parameter is free and the request has a well-formed
   completion (that the codec supports), it is accepted and that completion is returned.  In a 2D request the first
   block dimension is not a parameter: it must be given as 1 (define_blockshape_2d asserts it). *)
Theorem resolve_complete c r :
  free_count c <= 1 -> (c_2d c = true -> fst (fst (c_bs c)) = 1) ->
  completes c r -> wf (c_2d c) r -> supported (c_2d c) (fst r) ->
  exists q', resolve c = Return (q', snd r) /\ (q' == fst r)%Q.
Proof.
  destruct r as (q & ((x & y) & z)). cbn [fst snd]. unfold free_count, completes. rewrite resolve_unfold.
  destruct (c_bs c) as [[b0 b1] b2]. cbn [fst]. intros Hc H2 (X & Y & Z' & v & A & V) W S. rewrite A in Hc.
  pose proof (wf_checks _ _ _ _ _ W S) as C. destruct W as (_ & W0 & _).
  destruct (c_2d c) eqn:D.
  - rewrite (H2 eq_refl) in *. cbn [Z.eqb Pos.eqb]. subst x. apply (spec_complete _ v); auto; lia.
  - apply (spec_complete _ v); auto. pose proof (pow2_ge4_pos x W0). lia.
Qed.

(* ------------------------------------------------------------------ the property's "in particular" clause *)
Lemma valid_not_free c v : arg_value (c_bpv c) = Some v -> wf (c_2d c) (rate_of_value v, c_bs c) ->
  free_count c = 0 /\ Qeq_bool v (inject_Z (-1)) = false.
Proof.
  unfold free_count. destruct (c_bs c) as [[b0 b1] b2]. intros A (R & H0 & H1 & H2 & _). rewrite A.
  assert (F : Qeq_bool v (inject_Z (-1)) = false).
  { rewrite <- rate_of_value_free. apply Qeq_bool_false. intro E. pose proof (is_rate_pos _ R) as P.
    rewrite E in P. discriminate P. }
  rewrite F. pose proof (pow2_ge4_pos _ H1). pose proof (pow2_ge4_pos _ H2).
  assert (b0 <> -1) by (destruct (c_2d c); [lia|pose proof (pow2_ge4_pos _ H0); lia]).
  replace (b0 =? -1) with false by lia. replace (b1 =? -1) with false by lia. replace (b2 =? -1) with false by lia.
  split; reflexivity.
Qed.

(* every valid setting (that the codec supports) is accepted, with the same settings *)
Theorem valid_accepted c : valid c ->
  exists v, arg_value (c_bpv c) = Some v /\
    (supported (c_2d c) (rate_of_value v) -> resolve c = Return (rate_of_value v, c_bs c)).
Proof.
  intros (v & A & W). exists v. split; [exact A|]. intro S.
  destruct (valid_not_free c v A W) as (F0 & Fv).
  assert (K : completes c (rate_of_value v, c_bs c)).
  { unfold completes. destruct (c_bs c) as [[b0 b1] b2]. repeat split; auto.
    exists v. split; [exact A|right; reflexivity]. }
  assert (H2 : c_2d c = true -> fst (fst (c_bs c)) = 1).
  { intro D. rewrite D in W. destruct (c_bs c) as [[b0 b1] b2]. destruct W as (_ & W0 & _). exact W0. }
  destruct (resolve_complete c (rate_of_value v, c_bs c) ltac:(lia) H2 K W S) as (q' & Hr & _).
  cbn [fst snd] in Hr.
  destruct (resolve_inv c _ Hr) as (q & x & y & z & E & _ & _ & _ & v' & A' & V).
  rewrite A in A'. inversion A'. subst v'. inversion E. subst q'.
  destruct V as [V|V].
  - apply Qeq_bool_iff in V. congruence.
  - rewrite Hr, V. reflexivity.
Qed.

(* D13: a valid 2D setting below 1 bit per voxel is refused (a clean exception instead of zfpy's heap corruption) *)
Theorem valid_unsupported_rejected c : valid c ->
  forall v, arg_value (c_bpv c) = Some v -> ~ supported (c_2d c) (rate_of_value v) -> exists e, resolve c = Raise e.
Proof.
  intros (v0 & A0 & W) v A NS. rewrite A in A0. inversion A0. subst v0.
  destruct (resolve c) as [r|e] eqn:Hr; [exfalso|exists e; reflexivity].
  destruct (valid_not_free c v A W) as (_ & Fv).
  destruct (resolve_inv c r Hr) as (q & x & y & z & -> & (_ & S & _) & _ & _ & v' & A' & V).
  rewrite A in A'. inversion A'. subst v'. destruct V as [V|V].
  - apply Qeq_bool_iff in V. congruence.
  - subst q. exact (NS S).
Qed.

(* ------------------------------------------------------------------ uniqueness of the completion *)
Lemma rate_product_inj q q' A B : (q == q')%Q -> (0 < q)%Q ->
  (q * inject_Z A == inject_Z 32768)%Q -> (q' * inject_Z B == inject_Z 32768)%Q -> A = B.
Proof.
  intros E P HA HB. rewrite <- E, <- HA in HB. apply inject_Z_injective. symmetry.
  apply (proj1 (Qmult_inj_l (inject_Z B) (inject_Z A) q ltac:(intro Z0; rewrite Z0 in P; discriminate P))). exact HB.
Qed.

Theorem completion_unique c r r' :
  free_count c <= 1 -> completes c r -> completes c r' -> wf (c_2d c) r -> wf (c_2d c) r' ->
  snd r = snd r' /\ (fst r == fst r')%Q.
Proof.
  destruct r as (q & ((x & y) & z)). destruct r' as (q' & ((x' & y') & z')). cbn [fst snd].
  unfold free_count, completes. destruct (c_bs c) as [[b0 b1] b2].
  intros Hc (X & Y & Z1 & v & A & V) (X' & Y' & Z1' & v' & A' & V') (R & W0 & Wy & Wz & P) (R' & W0' & Wy' & Wz' & P').
  rewrite A in A'. inversion A'. subst v'. rewrite A in Hc.
  pose proof (pow2_ge4_pos _ Wy). pose proof (pow2_ge4_pos _ Wz).
  pose proof (pow2_ge4_pos _ Wy'). pose proof (pow2_ge4_pos _ Wz').
  assert (Px : 0 < x /\ 0 < x' /\ (c_2d c = true -> x = x')).
  { destruct (c_2d c); [subst; repeat split; lia|].
    pose proof (pow2_ge4_pos _ W0). pose proof (pow2_ge4_pos _ W0'). repeat split; try lia; intro D; discriminate D. }
  destruct Px as (Px & Px' & X2).
  pose proof (is_rate_pos _ R) as Pq.
  destruct (Qeq_bool v (inject_Z (-1))) eqn:F.
  - (* rate free: dimensions given *)
    assert (E0 : (b0 =? -1) = false /\ (b1 =? -1) = false /\ (b2 =? -1) = false).
    { revert Hc. destruct (b0 =? -1), (b1 =? -1), (b2 =? -1); cbn; intro; repeat split; lia. }
    destruct E0 as (E0 & E1 & E2). apply Z.eqb_neq in E0, E1, E2.
    assert (x = x' /\ y = y' /\ z = z') as (-> & -> & ->) by (repeat split; lia).
    split; [reflexivity|].
    assert (N : ~ (inject_Z (x' * y' * z') == 0)%Q) by (apply inject_Z_nonzero; nia).
    apply (proj1 (Qmult_inj_r q q' _ N)). rewrite P, P'. reflexivity.
  - assert (Eq : (q == q')%Q).
    { destruct V as [V|V]; [apply Qeq_bool_iff in V; congruence|].
      destruct V' as [V'|V']; [apply Qeq_bool_iff in V'; congruence|]. rewrite V, V'. reflexivity. }
    split; [|exact Eq].
    pose proof (rate_product_inj q q' _ _ Eq Pq P P') as EP.
    assert (x = x' /\ y = y' /\ z = z') as (-> & -> & ->); [|reflexivity].
    destruct (b0 =? -1) eqn:E0.
    { assert (E12 : (b1 =? -1) = false /\ (b2 =? -1) = false).
      { revert Hc. destruct (b1 =? -1), (b2 =? -1); cbn; intro; split; lia. }
      destruct E12 as (E1 & E2). apply Z.eqb_neq in E1, E2.
      assert (y = y' /\ z = z') as (-> & ->) by (split; lia). repeat split. nia. }
    apply Z.eqb_neq in E0. assert (x = x') as -> by lia.
    destruct (b1 =? -1) eqn:E1.
    { assert (E2 : (b2 =? -1) = false). { revert Hc. destruct (b2 =? -1); cbn; intro; lia. }
      apply Z.eqb_neq in E2. assert (z = z') as -> by lia. repeat split. nia. }
    apply Z.eqb_neq in E1. assert (y = y') as -> by lia.
    repeat split. destruct Z1 as [Z1|Z1], Z1' as [Z1'|Z1']; try lia. nia.
Qed.

(* what the task calls "free-parameter resolution is unique and correct": an accepted request returns the ONLY
   well-formed completion *)
Theorem resolve_unique c r r' :
  free_count c <= 1 -> resolve c = Return r -> completes c r' -> wf (c_2d c) r' ->
  snd r' = snd r /\ (fst r' == fst r)%Q.
Proof.
  intros Hc Hr K' W'. destruct (accepted_sound c r Hr) as (W & _).
  exact (completion_unique c r' r Hc K' (accepted_keeps_fixed c r Hr) W' W).
Qed.

(* ... and a request is refused only when it has no well-formed, supported completion *)
Theorem rejected_has_no_completion c e :
  free_count c <= 1 -> (c_2d c = true -> fst (fst (c_bs c)) = 1) -> resolve c = Raise e ->
  forall r, completes c r -> wf (c_2d c) r -> supported (c_2d c) (fst r) -> False.
Proof.
  intros Hc H2 Hr r K W S. destruct (resolve_complete c r Hc H2 K W S) as (q' & Hq & _). congruence.
Qed.

(* ------------------------------------------------------------------ boolean forms *)
Lemma wfb_iff d2 r : wfb d2 r = true <-> wf d2 r.
Proof.
  destruct r as (q & ((x & y) & z)). unfold wfb, wf.
  rewrite !andb_true_iff, q_in_iff, !pow2_ge4b_iff, Qeq_bool_iff.
  destruct d2; [rewrite Z.eqb_eq|rewrite pow2_ge4b_iff]; tauto.
Qed.

Lemma validb_iff c : validb c = true <-> valid c.
Proof.
  unfold validb, valid. destruct (arg_value (c_bpv c)) as [v|].
  - rewrite wfb_iff. split; [intro W; exists v; split; [reflexivity|exact W]|].
    intros (v' & A & W). inversion A. subst v'. exact W.
  - split; [discriminate|]. intros (v & A & _). discriminate A.
Qed.

Lemma supportedb_iff d2 q : supportedb d2 q = true <-> supported d2 q.
Proof.
  unfold supportedb, supported. destruct d2; cbn [negb orb].
  - rewrite Qle_bool_iff. split; [intros H _; exact H|intro H; apply H; reflexivity].
  - split; [intros _ H; discriminate H|reflexivity].
Qed.

(* ------------------------------------------------------------------ concrete facts (closed computations) *)
(* the default settings of the run() methods (GENERATED from conversion.py) are valid and resolve as documented *)
Lemma defaults_resolve :
  resolve {| c_2d := false; c_bpv := default_bits_per_voxel_segy; c_bs := default_blockshape_3d |} = Return ((4 # 1)%Q, (4, 4, 512)) /\
  resolve {| c_2d := true; c_bpv := default_bits_per_voxel_segy; c_bs := default_blockshape_2d |} = Return ((4 # 1)%Q, (1, 16, 512)) /\
  resolve {| c_2d := false; c_bpv := default_bits_per_voxel_numpy; c_bs := default_blockshape_numpy |} = Return ((4 # 1)%Q, (4, 4, 512)).
Proof. repeat split; vm_compute; reflexivity. Qed.

(* D13 witness: 2D, 1/2 bit, (1, 256, 256) is valid in the property's sense and refused *)
Definition d13_witness : cfg := {| c_2d := true; c_bpv := AFloat (1 # 2); c_bs := (1, 256, 256) |}.
Lemma d13_witness_refuted : valid d13_witness /\ resolve d13_witness = Raise ValueErr.
Proof. split; [apply validb_iff|]; vm_compute; reflexivity. Qed.

(* D12 witnesses: the settings the unrepaired code turned into unreadable files are all refused now *)
Lemma d12_witnesses_rejected :
  resolve {| c_2d := false; c_bpv := AInt 3; c_bs := (4, 4, -1) |} = Raise ValueErr /\
  resolve {| c_2d := false; c_bpv := AFloat (5404319552844595 # 18014398509481984); c_bs := (4, 4, -1) |} = Raise ValueErr /\
  resolve {| c_2d := false; c_bpv := AInt 4; c_bs := (3, 4, -1) |} = Raise ValueErr /\
  resolve {| c_2d := false; c_bpv := AInt (-1); c_bs := (4, 4, 100) |} = Raise ValueErr /\
  resolve {| c_2d := false; c_bpv := AInt 4; c_bs := (2, 4, -1) |} = Raise ValueErr /\
  resolve {| c_2d := false; c_bpv := AStr (Some (inject_Z (-1))); c_bs := (4, 4, -1) |} = Raise ValueErr /\
  resolve {| c_2d := false; c_bpv := AInt 32; c_bs := (-1, 32, 32) |} = Raise ValueErr /\
  resolve {| c_2d := false; c_bpv := AInt 0; c_bs := (4, 4, -1) |} = Raise ZeroDivErr.
Proof. repeat split; vm_compute; reflexivity. Qed.
