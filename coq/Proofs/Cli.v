(* Proofs/Cli.v -- proofs about the command line interface model (Model/Cli.v over Gen/Cli.v), and its composition with
   the API-side developments of C19 (Model/Config.v, Proofs/Config.v) and C11 (Model/Window.v, Proofs/Window.v). *)
From Coq Require Import ZArith QArith List Bool String Ascii DecimalString DecimalZ DecimalPos Lia.
From SZ Require Import Lib.Py Lib.PyConfig Gen.Config Model.Config Proofs.Config
                       Gen.Window Model.Window Proofs.Window Gen.Cli Model.Cli.
Import ListNotations.
Open Scope Z_scope.
Open Scope string_scope.

(* ================================================================ K1: decorator stacking, for EVERY stack *)
Lemma rev_flat_map {A B} (f : A -> list B) (l : list A) :
  rev (flat_map f l) = flat_map (fun x => rev (f x)) (rev l).
Proof.
  induction l as [|x l IH]; [reflexivity|].
  cbn [flat_map rev]. rewrite rev_app_distr, IH, flat_map_app. cbn [flat_map]. rewrite app_nil_r. reflexivity.
Qed.

Lemma click_params_declared_order (stack : list cli_deco) : click_params true stack = declared_order stack.
Proof.
  unfold click_params, click_memo, declared_order.
  rewrite rev_flat_map, rev_involutive.
  apply flat_map_ext. intros [p|g]; cbn [deco_appends rev app]; [reflexivity|apply rev_involutive].
Qed.

(* without reversed() in add_options the options of each group come out in reverse *)
Lemma click_params_plain_loop (stack : list cli_deco) :
  click_params false stack = flat_map (fun d => match d with UseParam p => [p] | UseGroup g => rev g end) stack.
Proof.
  unfold click_params, click_memo.
  rewrite rev_flat_map, rev_involutive.
  apply flat_map_ext. intros [p|g]; reflexivity.
Qed.

Lemma cmd_params_declared (c : command) : cmd_params c = declared_order (cmd_stack c).
Proof. unfold cmd_params. change cli_add_options_reversed with true. apply click_params_declared_order. Qed.

(* the concrete parameter lists (computed from the generated stacks) *)
Lemma sgy2sgz_params :
  cmd_params cmd_sgy2sgz =
  [DArgument "input-segy-file" (CPath true) true; DArgument "output-sgz-file" (CPath false) true;
   DOption "--bits-per-voxel" CInt (VInt 4); DOption "--blockshape" (CIntTuple 3) VNone;
   DOption "--reduce-iops" CBool (VBool false);
   DOption "--min-il" CInt VNone; DOption "--max-il" CInt VNone; DOption "--min-xl" CInt VNone; DOption "--max-xl" CInt VNone;
   DVersion].
Proof. reflexivity. Qed.
Lemma zgy2sgz_params :
  cmd_params cmd_zgy2sgz =
  [DArgument "input-zgy-file" (CPath true) true; DArgument "output-sgz-file" (CPath false) true;
   DOption "--bits-per-voxel" CInt (VInt 4); DVersion].
Proof. reflexivity. Qed.
Lemma sgz2sgy_params :
  cmd_params cmd_sgz2sgy =
  [DArgument "input-sgz-file" (CPath true) true; DArgument "output-sgy-file" (CPath false) true; DVersion].
Proof. reflexivity. Qed.

(* K2 + K5: the names click derives are exactly the parameters of each callback *)
Lemma all_wired : forallb wired all_commands = true.
Proof. vm_compute. reflexivity. Qed.
Lemma command_names : map cmd_name all_commands = cli_commands.
Proof. reflexivity. Qed.

(* ================================================================ K3: INT and BOOL tokens *)
Lemma parse_int_show (z : Z) : parse_int (show_int z) = Some z.
Proof.
  unfold parse_int, show_int.
  rewrite NilZero.isi.
  - cbn [option_map]. f_equal. apply DecimalZ.of_to.
  - destruct z as [|p|p]; cbn [Z.to_int]; try discriminate.
    intro H. injection H as H. exact (Unsigned.to_uint_nonnil p H).
  - destruct z as [|p|p]; cbn [Z.to_int]; try discriminate.
    intro H. injection H as H. exact (Unsigned.to_uint_nonnil p H).
Qed.

Lemma parse_bool_show (b : bool) : parse_bool (show_bool b) = Some b.
Proof. destruct b; reflexivity. Qed.

(* every spelling click.BOOL accepts, and nothing else (up to case) *)
Lemma parse_bool_spec (s : string) (b : bool) :
  parse_bool s = Some b <->
  (b = true /\ In (lower s) ["1"; "yes"; "true"; "on"; "t"; "y"]) \/
  (b = false /\ In (lower s) ["0"; "no"; "false"; "off"; "f"; "n"; ""]).
Proof.
  unfold parse_bool. generalize (lower s) as k. intro k. cbn [assoc bool_states].
  split.
  - repeat (match goal with |- context [String.eqb k ?c] => destruct (String.eqb_spec k c) as [->|_] end;
            [intros [= <-]; first [left; split; [reflexivity|cbn [In]; auto 20] | right; split; [reflexivity|cbn [In]; auto 20]]|]).
    discriminate.
  - intros [[-> H]|[-> H]]; cbn [In] in H;
      repeat (destruct H as [<-|H]; [reflexivity|]); contradiction.
Qed.

Lemma render_denotes (fs : string -> bool) (o : sgy2sgz_opts) : raw_denotes (click_std fs) (render o) o.
Proof.
  destruct o as [bpv bs ri a b c d]. unfold raw_denotes, render. cbn [click_std cv_int cv_bool
    r_bpv r_bs r_ri r_min_il r_max_il r_min_xl r_max_xl o_bpv o_bs o_ri o_min_il o_max_il o_min_xl o_max_xl].
  repeat split.
  - destruct bpv; cbn; [apply parse_int_show|exact I].
  - destruct bs as [[[x y] z]|]; cbn; [repeat split; apply parse_int_show|exact I].
  - destruct ri; cbn; [apply parse_bool_show|exact I].
  - destruct a; cbn; [apply parse_int_show|exact I].
  - destruct b; cbn; [apply parse_int_show|exact I].
  - destruct c; cbn; [apply parse_int_show|exact I].
  - destruct d; cbn; [apply parse_int_show|exact I].
Qed.

(* ================================================================ the calls of sgy2sgz, for EVERY option assignment *)
Ltac use_eqs :=
  repeat match goal with
         | H : _ = Some _ |- _ => rewrite H; clear H
         | H : _ = true |- _ => rewrite H; clear H
         end.

Lemma bound_int (C : converters) (rs : option string) (v : option Z) (dflt : cli_val) :
  denotes (cv_int C) rs v ->
  bound C CInt dflt (one rs) = Some (match v with Some z => VInt z | None => dflt end).
Proof. destruct rs, v; cbn; try contradiction; [intros ->|]; reflexivity. Qed.
Lemma bound_bool (C : converters) (rs : option string) (v : option bool) (dflt : cli_val) :
  denotes (cv_bool C) rs v ->
  bound C CBool dflt (one rs) = Some (match v with Some b => VBool b | None => dflt end).
Proof. destruct rs, v; cbn; try contradiction; [intros ->|]; reflexivity. Qed.
Lemma bound_int3 (C : converters) (rs : option (string * string * string)) (v : option (Z * Z * Z)) (dflt : cli_val) :
  denotes3 (cv_int C) rs v ->
  bound C (CIntTuple 3) dflt (option_map (fun t => match t with (a, b, c) => [a; b; c] end) rs) =
  Some (match v with Some (x, y, z) => VInts [x; y; z] | None => dflt end).
Proof.
  destruct rs as [[[a b] c]|], v as [[[x y] z]|]; cbn; try contradiction; [|reflexivity].
  intros (-> & -> & ->). reflexivity.
Qed.

Lemma sgy2sgz_calls_raw (C : converters) (input output : string) (r : sgy2sgz_raw) (o : sgy2sgz_opts) :
  cv_exists C input = true -> raw_denotes C r o ->
  cli_run C cmd_sgy2sgz (sgy2sgz_invocation input output r) = api_sgy2sgz input output o.
Proof.
  intros Hex (H1 & H2 & H3 & H4 & H5 & H6 & H7).
  unfold cli_run. rewrite sgy2sgz_params.
  change (iv_opt (sgy2sgz_invocation input output r)) with (sgy2sgz_lookup r).
  change (iv_args (sgy2sgz_invocation input output r)) with [input; output].
  change (sgy2sgz_lookup r "--version") with (@None (list string)).
  rewrite andb_false_r.
  cbn [bind_params].
  change (sgy2sgz_lookup r "--bits-per-voxel") with (one (r_bpv r)).
  change (sgy2sgz_lookup r "--blockshape") with (option_map (fun t => match t with (a, b, c) => [a; b; c] end) (r_bs r)).
  change (sgy2sgz_lookup r "--reduce-iops") with (one (r_ri r)).
  change (sgy2sgz_lookup r "--min-il") with (one (r_min_il r)).
  change (sgy2sgz_lookup r "--max-il") with (one (r_max_il r)).
  change (sgy2sgz_lookup r "--min-xl") with (one (r_min_xl r)).
  change (sgy2sgz_lookup r "--max-xl") with (one (r_max_xl r)).
  rewrite (bound_int C _ _ _ H1), (bound_int3 C _ _ _ H2), (bound_bool C _ _ _ H3),
          (bound_int C _ _ _ H4), (bound_int C _ _ _ H5), (bound_int C _ _ _ H6), (bound_int C _ _ _ H7).
  cbn [convert]. rewrite Hex. cbn [andb negb].
  destruct o as [bpv bs ri a b c d]. destruct bpv, ri; reflexivity.
Qed.

Lemma sgy2sgz_calls (fs : string -> bool) (input output : string) (o : sgy2sgz_opts) :
  fs input = true ->
  cli_run (click_std fs) cmd_sgy2sgz (sgy2sgz_invocation input output (render o)) = api_sgy2sgz input output o.
Proof. intro H. apply sgy2sgz_calls_raw; [exact H|apply render_denotes]. Qed.

(* ================================================================ refusals: nothing is called *)
Lemma bind_params_bad_option (C : converters) (decl : string) (ty : cli_ty) (dflt : cli_val) (raw : list string)
      (opt : string -> option (list string)) :
  opt decl = Some raw -> convert C ty raw = None ->
  forall ps args, In (DOption decl ty dflt) ps -> bind_params C ps args opt = None.
Proof.
  intros Ho Hc. induction ps as [|p ps IH]; intros args Hin; [destruct Hin|].
  destruct Hin as [->|Hin].
  - cbn [bind_params]. unfold bound. rewrite Ho, Hc. reflexivity.
  - destruct p as [d t rq|d t df|]; cbn [bind_params].
    + destruct args as [|a args'].
      * destruct rq; [reflexivity|]. rewrite (IH [] Hin). reflexivity.
      * rewrite (IH args' Hin). destruct (convert C t [a]); reflexivity.
    + rewrite (IH args Hin). destruct (bound C t df (opt d)); reflexivity.
    + apply IH. exact Hin.
Qed.

(* an option whose tokens do not convert (not an integer, not a boolean, not k tokens): usage error, for every command *)
Lemma bad_option_refused (C : converters) (c : command) (iv : invocation) decl ty dflt raw :
  In (DOption decl ty dflt) (cmd_params c) -> iv_opt iv decl = Some raw -> convert C ty raw = None ->
  iv_opt iv "--version" = None ->
  cli_run C c iv = CliUsageError.
Proof.
  intros Hin Ho Hc Hv. unfold cli_run. rewrite Hv, andb_false_r.
  rewrite (bind_params_bad_option C decl ty dflt raw (iv_opt iv) Ho Hc _ _ Hin). reflexivity.
Qed.

(* the first positional token names a file that does not exist / positional tokens are missing *)
Lemma missing_input_refused (C : converters) (c : command) (iv : invocation) input rest :
  In c all_commands -> iv_args iv = input :: rest -> cv_exists C input = false -> iv_opt iv "--version" = None ->
  cli_run C c iv = CliUsageError.
Proof.
  intros Hc Ha He Hv. unfold cli_run. rewrite Hv, andb_false_r, Ha.
  destruct Hc as [<-|[<-|[<-|[]]]].
  - rewrite sgy2sgz_params. cbn [bind_params convert andb negb]. rewrite He. reflexivity.
  - rewrite zgy2sgz_params. cbn [bind_params convert andb negb]. rewrite He. reflexivity.
  - rewrite sgz2sgy_params. cbn [bind_params convert andb negb]. rewrite He. reflexivity.
Qed.
Lemma missing_arguments_refused (C : converters) (c : command) (iv : invocation) :
  In c all_commands -> (List.length (iv_args iv) < 2)%nat -> iv_opt iv "--version" = None ->
  cli_run C c iv = CliUsageError.
Proof.
  intros Hc Hl Hv. unfold cli_run. rewrite Hv, andb_false_r.
  destruct (iv_args iv) as [|a [|b rest]]; [| |cbn [List.length] in Hl; lia];
    destruct Hc as [<-|[<-|[<-|[]]]];
    rewrite ?sgy2sgz_params, ?zgy2sgz_params, ?sgz2sgy_params; cbn [bind_params]; try reflexivity;
    destruct (convert C (CPath true) [a]); reflexivity.
Qed.

Lemma version_only (C : converters) (c : command) (iv : invocation) raw :
  In c all_commands -> iv_opt iv "--version" = Some raw -> cli_run C c iv = CliVersion.
Proof.
  intros Hc Hv. unfold cli_run. rewrite Hv.
  destruct Hc as [<-|[<-|[<-|[]]]]; reflexivity.
Qed.

(* ================================================================ zgy2sgz and sgz2sgy *)
Lemma zgy2sgz_calls_raw (C : converters) (input output : string) (rbpv : option string) (bpv : option Z) :
  cv_exists C input = true -> denotes (cv_int C) rbpv bpv ->
  cli_run C cmd_zgy2sgz (zgy2sgz_invocation input output rbpv) = api_zgy2sgz input output bpv.
Proof.
  destruct C as [fi fb fe]. unfold denotes. cbn [cv_int cv_exists]. intros Hex H.
  destruct rbpv as [s|], bpv as [v|]; try contradiction; vm_compute; use_eqs; reflexivity.
Qed.
Lemma zgy2sgz_calls (fs : string -> bool) (input output : string) (bpv : option Z) :
  fs input = true ->
  cli_run (click_std fs) cmd_zgy2sgz (zgy2sgz_invocation input output (option_map show_int bpv)) = api_zgy2sgz input output bpv.
Proof.
  intro H. apply zgy2sgz_calls_raw; [exact H|]. destruct bpv; cbn; [apply parse_int_show|exact I].
Qed.
Lemma sgz2sgy_calls (C : converters) (input output : string) :
  cv_exists C input = true ->
  cli_run C cmd_sgz2sgy (sgz2sgy_invocation input output) = api_sgz2sgy input output.
Proof. destruct C as [fi fb fe]. cbn [cv_exists]. intro Hex. vm_compute. use_eqs. reflexivity. Qed.

(* ================================================================ the API side: Python binds the calls to conversion.py *)
(* the calls of sgy2sgz against SeismicFileConverter.__init__ / run: every keyword is a parameter of the API function,
   every parameter receives the value of its own option; header_detection is not passed (the API's default) *)
Lemma sgy2sgz_api_binding (input output : string) (o : sgy2sgz_opts) :
  match the_calls (api_sgy2sgz input output o) with
  | Some (ctor, run) =>
      api_bind api_seismicfileconverter_init_params ctor =
        Some [("in_filename", VStr input); ("min_il", optz (o_min_il o)); ("max_il", optz (o_max_il o));
              ("min_xl", optz (o_min_xl o)); ("max_xl", optz (o_max_xl o))] /\
      api_bind api_seismicfileconverter_run_params run =
        Some [("out_filename", VStr output);
              ("bits_per_voxel", VInt (match o_bpv o with Some b => b | None => 4 end));
              ("blockshape", opt3 (o_bs o));
              ("reduce_iops", VBool (match o_ri o with Some b => b | None => false end));
              ("header_detection", VStr "heuristic")]
  | None => False
  end.
Proof. destruct o as [bpv bs ri a b c d]. split; vm_compute; reflexivity. Qed.

Lemma sgy2sgz_defaults_are_api_defaults (input output : string) :
  match the_calls (api_sgy2sgz input output no_options) with
  | Some (ctor, run) =>
      api_bind api_seismicfileconverter_init_params ctor =
        api_bind api_seismicfileconverter_init_params {| call_name := "SegyConverter"; call_pos := [VStr input]; call_kw := [] |} /\
      api_bind api_seismicfileconverter_run_params run =
        api_bind api_seismicfileconverter_run_params {| call_name := "run"; call_pos := [VStr output]; call_kw := [] |}
  | None => False
  end.
Proof. split; vm_compute; reflexivity. Qed.

Lemma zgy2sgz_api_binding (input output : string) (bpv : option Z) :
  match the_calls (api_zgy2sgz input output bpv) with
  | Some (ctor, run) =>
      api_bind api_seismicfileconverter_init_params ctor =
        Some [("in_filename", VStr input); ("min_il", VNone); ("max_il", VNone); ("min_xl", VNone); ("max_xl", VNone)] /\
      api_bind api_seismicfileconverter_run_params run =
        Some [("out_filename", VStr output); ("bits_per_voxel", VInt (match bpv with Some b => b | None => 4 end));
              ("blockshape", VNone); ("reduce_iops", VBool false); ("header_detection", VStr "heuristic")]
  | None => False
  end.
Proof. split; vm_compute; reflexivity. Qed.

Lemma sgz2sgy_api_binding (input output : string) :
  match the_calls (api_sgz2sgy input output) with
  | Some (ctor, exp) =>
      api_bind api_sgzconverter_init_params ctor =
        Some [("file", VStr input); ("filetype_checking", VBool true); ("preload", VBool false); ("chunk_cache_size", VNone)] /\
      api_bind api_sgzconverter_convert_to_segy_params exp = Some [("out_file", VStr output)]
  | None => False
  end.
Proof. split; vm_compute; reflexivity. Qed.

(* ================================================================ C19: the configuration a CLI invocation requests *)
Local Open Scope Z_scope.
Lemma sgy2sgz_cfg (fs : string -> bool) (input output : string) (o : sgy2sgz_opts) (d2 : bool) :
  fs input = true ->
  exists ctor run,
    cli_run (click_std fs) cmd_sgy2sgz (sgy2sgz_invocation input output (render o)) = CliCalls ctor run /\
    cfg_of_call d2 run = Some (run_cfg d2 (AInt (cli_bpv o)) (o_bs o)).
Proof.
  intro H. rewrite (sgy2sgz_calls fs input output o H). unfold api_sgy2sgz. eexists. eexists. split; [reflexivity|].
  destruct o as [bpv bs ri a b c d]. unfold cli_bpv. cbn [o_bpv o_bs].
  destruct bs as [[[x y] z]|]; reflexivity.
Qed.

(* the CLI never hands run() a float or a str: the reciprocal convention is the only way to a fractional rate, and it
   reaches every rate *)
Lemma cli_reaches_every_rate (q : Q) : In q rates -> exists b : Z, (rate_of_value (inject_Z b) == q)%Q.
Proof.
  unfold rates. cbn [In].
  intros [<-|[<-|[<-|[<-|[<-|[<-|[<-|[<-|[]]]]]]]]];
    [exists (-4)|exists (-2)|exists 1|exists 2|exists 4|exists 8|exists 16|exists 32]; reflexivity.
Qed.

Lemma rate_of_int (b : Z) :
  (rate_of_value (inject_Z b) == (if b <? -1 then 1 # Z.to_pos (- b) else inject_Z b))%Q.
Proof.
  unfold rate_of_value, Qlt_bool, Qle_bool, inject_Z. cbn [Qnum Qden].
  rewrite !Z.mul_1_r.
  destruct (Z.leb_spec (-1) b) as [H|H]; cbn [negb].
  - replace (b <? -1) with false by (symmetry; apply Z.ltb_ge; lia). reflexivity.
  - replace (b <? -1) with true by (symmetry; apply Z.ltb_lt; lia).
    destruct b as [|p|p]; try lia.
    unfold Qdiv, Qinv, Qopp, Qmult, Qeq. cbn. reflexivity.
Qed.

(* an accepted CLI setting: sound, and its rate is the one the integer denotes (negative = reciprocal) unless left free *)
Lemma cli_accepted (d2 : bool) (b : Z) (bs : option (Z * Z * Z)) (r : resolved) :
  resolve (run_cfg d2 (AInt b) bs) = Return r ->
  wf d2 r /\ supported d2 (fst r) /\ completes (run_cfg d2 (AInt b) bs) r /\
  (b <> -1 -> (fst r == rate_of_value (inject_Z b))%Q).
Proof.
  intro H.
  destruct (accepted_sound _ _ H) as [Hwf Hsup].
  pose proof (accepted_keeps_fixed _ _ H) as Hc.
  repeat split; try assumption.
  intro Hb. unfold completes in Hc. cbn [run_cfg c_bs c_bpv] in Hc.
  destruct (match bs with Some t => t | None => if d2 then default_blockshape_2d else default_blockshape_3d end) as [[b0 b1] b2].
  destruct r as [q [[x y] z]].
  destruct Hc as (_ & _ & _ & v & Hv & Hq). cbn [arg_value] in Hv. injection Hv as <-.
  destruct Hq as [Hq|Hq]; [|exact Hq].
  exfalso. apply Hb. unfold Qeq, inject_Z in Hq. cbn in Hq. lia.
Qed.

Lemma cli_valid_accepted (d2 : bool) (b x y z : Z) :
  wf d2 (rate_of_value (inject_Z b), (x, y, z)) -> supported d2 (rate_of_value (inject_Z b)) ->
  resolve (run_cfg d2 (AInt b) (Some (x, y, z))) = Return (rate_of_value (inject_Z b), (x, y, z)).
Proof.
  intros Hwf Hsup.
  destruct (valid_accepted (run_cfg d2 (AInt b) (Some (x, y, z)))) as (v & Hv & Hres).
  - exists (inject_Z b). split; [reflexivity|exact Hwf].
  - cbn [run_cfg c_bpv arg_value] in Hv. injection Hv as <-. apply Hres. exact Hsup.
Qed.

Lemma cli_defaults_resolve :
  resolve (run_cfg false (AInt (cli_bpv no_options)) (o_bs no_options)) = Return ((4 # 1)%Q, (4, 4, 512)) /\
  resolve (run_cfg true (AInt (cli_bpv no_options)) (o_bs no_options)) = Return ((4 # 1)%Q, (1, 16, 512)).
Proof. destruct defaults_resolve as (H3 & H2 & _). split; [exact H3|exact H2]. Qed.

(* ================================================================ C11: the window a CLI invocation requests *)
Lemma sgy2sgz_window (fs : string -> bool) (input output : string) (o : sgy2sgz_opts) :
  fs input = true ->
  exists ctor run,
    cli_run (click_std fs) cmd_sgy2sgz (sgy2sgz_invocation input output (render o)) = CliCalls ctor run /\
    window_of_call ctor = Some (cli_window o) /\ reduce_iops_of_call run = Some (cli_reduce_iops o).
Proof.
  intro H. rewrite (sgy2sgz_calls fs input output o H). unfold api_sgy2sgz. eexists. eexists. split; [reflexivity|].
  destruct o as [bpv bs ri a b c d]. unfold cli_window, cli_reduce_iops.
  cbn [o_min_il o_max_il o_min_xl o_max_xl o_ri].
  split; [destruct a, b, c, d; reflexivity|reflexivity].
Qed.

(* the window is in force exactly when all four options occur; a bound of 0 is a bound *)
Lemma cli_window_accepted_iff (o : sgy2sgz_opts) :
  (let '(a, b, c, d) := cli_window o in w_window_accepted a b c d) = true <->
  (o_min_il o <> None /\ o_max_il o <> None /\ o_min_xl o <> None /\ o_max_xl o <> None).
Proof. unfold cli_window. apply window_accepted_iff_given. Qed.

Lemma cli_full_window (o : sgy2sgz_opts) (a b c d : Z) :
  o_min_il o = Some a -> o_max_il o = Some b -> o_min_xl o = Some c -> o_max_xl o = Some d ->
  cli_window o = win a b c d.
Proof. unfold cli_window, win. intros -> -> -> ->. reflexivity. Qed.

(* composition with C11 (Proofs/Window.v): a CLI conversion with all four window options is the conversion the C11
   theorem is about.  The CLI does not pass header_detection, so the API default "heuristic" is in force: the guard of
   C11 (tables_agree, known finding D6-heuristic-corners outside it) is inherited. *)
Lemma cli_window_equals_subcube (fs : string -> bool) (input output : string) (o : sgy2sgz_opts) (a b c d : Z) :
  fs input = true ->
  o_min_il o = Some a -> o_max_il o = Some b -> o_min_xl o = Some c -> o_max_xl o = Some d ->
  exists ctor run W ri,
    cli_run (click_std fs) cmd_sgy2sgz (sgy2sgz_invocation input output (render o)) = CliCalls ctor run /\
    window_of_call ctor = Some W /\ reduce_iops_of_call run = Some ri /\
    assoc "header_detection" (call_kw run) = None /\
    assoc "header_detection" api_seismicfileconverter_run_params = Some (Some (VStr "heuristic")) /\
    forall trace (zero_trace : trace) codes st1 st2 bs0 bs1 (S : source trace),
      window_ok trace S a b c d = true -> 2 <= b - a -> 2 <= d - c -> 0 < bs0 ->
      tables_agree trace codes Heuristic S a b c d = true ->
      Window.convert trace zero_trace codes Heuristic W ri st1 bs0 bs1 S =
      Window.convert trace zero_trace codes Heuristic no_window ri st2 bs0 bs1 (restrict trace S a b c d).
Proof.
  intros Hf Ha Hb Hc Hd.
  destruct (sgy2sgz_window fs input output o Hf) as (ctor & run & Hrun & Hw & Hr).
  exists ctor, run, (win a b c d), (cli_reduce_iops o).
  rewrite (cli_full_window o a b c d Ha Hb Hc Hd) in Hw.
  repeat split; try assumption.
  - rewrite (sgy2sgz_calls fs input output o Hf) in Hrun. unfold api_sgy2sgz in Hrun. injection Hrun as _ <-. reflexivity.
  - intros. apply window_equals_subcube; assumption.
Qed.
