(* C09 writer side: the k-th unit code of the data section written for a 2D source is the code of the unit (xu, zu)
   with unit_index2 H xu zu = k of the section extended by edge replication; the header make_header writes is
   well-formed (wf2) and carries the source's trace count and sample count. *)
From Coq Require Import ZArith List Bool Lia.
Import ListNotations.
From SZ Require Import Lib.Py Gen.Utils Gen.Version Gen.Reader Gen.Producer2d Spec.Container
  Proofs.PyLemmas Proofs.Layout Proofs.TwoD Model.Producer2d.
Open Scope Z_scope.

(* ---------------- lists indexed by Z ---------------- *)
Lemma nth_error_zrange_nat lo c m : (m < c)%nat -> nth_error (zrange_nat lo c) m = Some (lo + Z.of_nat m).
Proof.
  revert lo m; induction c as [|c IH]; intros lo m Hm; [lia|].
  destruct m as [|m]; cbn [zrange_nat nth_error]; [f_equal; lia|].
  rewrite IH by lia. f_equal. lia.
Qed.

Lemma nth_error_map_zrange {B} (g : Z -> B) n j : 0 <= j < n ->
  nth_error (map g (zrange 0 n)) (Z.to_nat j) = Some (g j).
Proof.
  intro Hj. apply map_nth_error. unfold zrange. rewrite nth_error_zrange_nat by lia. f_equal. lia.
Qed.

Lemma length_map_zrange {B} (g : Z -> B) n : 0 <= n -> Z.of_nat (length (map g (zrange 0 n))) = n.
Proof. intro Hn. rewrite map_length. unfold zrange. rewrite zrange_nat_length. lia. Qed.

Lemma nth_error_flat_map_nat {B} (f : Z -> list B) (L : nat) lo c m j :
  (forall i, lo <= i < lo + Z.of_nat c -> length (f i) = L) -> (m < c)%nat -> (j < L)%nat ->
  nth_error (flat_map f (zrange_nat lo c)) (m * L + j) = nth_error (f (lo + Z.of_nat m)) j.
Proof.
  revert lo m; induction c as [|c IH]; intros lo m HL Hm Hj; [lia|].
  cbn [zrange_nat flat_map]. destruct m as [|m].
  - cbn [Nat.mul Nat.add]. rewrite nth_error_app1 by (rewrite HL by lia; exact Hj). f_equal. f_equal. lia.
  - rewrite nth_error_app2 by (rewrite HL by lia; lia). rewrite HL by lia.
    replace (S m * L + j - L)%nat with (m * L + j)%nat by lia.
    rewrite IH by (try lia; intros; apply HL; lia). f_equal. f_equal. lia.
Qed.

Lemma length_flat_map_nat {B} (f : Z -> list B) (L : nat) lo c :
  (forall i, lo <= i < lo + Z.of_nat c -> length (f i) = L) -> length (flat_map f (zrange_nat lo c)) = (c * L)%nat.
Proof.
  revert lo; induction c as [|c IH]; intros lo HL; [reflexivity|].
  cbn [zrange_nat flat_map]. rewrite app_length, HL by lia. rewrite IH by (intros; apply HL; lia). lia.
Qed.

Lemma nth_error_flat_map_uniform {B} (f : Z -> list B) L n k j :
  (forall i, 0 <= i < n -> Z.of_nat (length (f i)) = L) -> 0 <= k < n -> 0 <= j < L ->
  nth_error (flat_map f (zrange 0 n)) (Z.to_nat (k * L + j)) = nth_error (f k) (Z.to_nat j).
Proof.
  intros HL Hk Hj. unfold zrange.
  replace (Z.to_nat (k * L + j)) with (Z.to_nat k * Z.to_nat L + Z.to_nat j)%nat.
  2:{ rewrite Z2Nat.inj_add, Z2Nat.inj_mul by nia. reflexivity. }
  rewrite (nth_error_flat_map_nat f (Z.to_nat L)); try lia.
  - f_equal. f_equal. lia.
  - intros i Hi. specialize (HL i ltac:(lia)). lia.
Qed.

Lemma length_flat_map_uniform {B} (f : Z -> list B) L n :
  (forall i, 0 <= i < n -> Z.of_nat (length (f i)) = L) -> 0 <= n -> 0 <= L ->
  Z.of_nat (length (flat_map f (zrange 0 n))) = n * L.
Proof.
  intros HL Hn HL0. unfold zrange. rewrite (length_flat_map_nat f (Z.to_nat L)).
  - nia.
  - intros i Hi. specialize (HL i ltac:(lia)). lia.
Qed.

Lemma flat_map_flat_map {A B C} (f : B -> list C) (g : A -> list B) l :
  flat_map f (flat_map g l) = flat_map (fun x => flat_map f (g x)) l.
Proof. induction l as [|x xs IH]; cbn [flat_map]; [reflexivity|]. rewrite flat_map_app, IH. reflexivity. Qed.

Lemma flat_map_map {A B C} (f : B -> list C) (g : A -> B) l : flat_map f (map g l) = flat_map (fun x => f (g x)) l.
Proof. induction l as [|x xs IH]; cbn [flat_map map]; [reflexivity|]. rewrite IH. reflexivity. Qed.

Lemma unit_of_ext {S} (f f' : Z -> Z -> S) xu zu :
  (forall p q, 0 <= p < 4 -> 0 <= q < 4 -> f (4 * xu + p) (4 * zu + q) = f' (4 * xu + p) (4 * zu + q)) ->
  unit_of f xu zu = unit_of f' xu zu.
Proof.
  intro E. unfold unit_of. change (zrange 0 4) with [0; 1; 2; 3]. cbn [flat_map map app].
  rewrite !E by lia. reflexivity.
Qed.

Section CONFORM.
Variable sample code : Type.
Variable zero : sample.
Variable enc : list sample -> code.
Variable src : Z -> Z -> sample.
Variable H : hdr.
Hypothesis W : wf2 H = true.

Local Notation n := (s_ntr H).
Local Notation ns := (s_ns H).
Local Notation bs1 := (s_bs1 H).
Local Notation bs2 := (s_bs2 H).

Local Notation buf' := (buf sample zero src n ns bs1 bs2).
Local Notation ext := (extend sample src n ns).

Lemma W' : 1 <= n /\ 1 <= ns /\ 4 <= bs1 /\ bs1 mod 4 = 0 /\ 4 <= bs2 /\ bs2 mod 4 = 0.
Proof. destruct (wf2_unpack H W) as (_ & A & B & C & D & E & G & _). repeat split; assumption. Qed.

Lemma PT_facts : n <= s_PT H /\ s_PT H mod bs1 = 0 /\ p2_padded1 n ns bs1 bs2 = s_PT H /\
                 p2_n_trace_groups n ns bs1 bs2 = s_PT H / bs1 /\ s_PT H / bs1 = (n + bs1 - 1) / bs1.
Proof.
  destruct W' as (N1 & _ & B1 & _). pose proof (pad_to_spec n bs1 ltac:(lia)) as (P1 & P2 & P3).
  fold (s_PT H) in P1, P2, P3. unfold p2_n_trace_groups, p2_padded1. rewrite pad_is_pad_to by lia. fold (s_PT H).
  repeat split; try assumption; lia.
Qed.
Lemma PZ_facts : ns <= s_PZ H /\ s_PZ H mod bs2 = 0 /\ p2_padded2 n ns bs1 bs2 = s_PZ H /\ bs2 <= s_PZ H.
Proof.
  destruct W' as (_ & N1 & _ & _ & B2 & _). pose proof (pad_to_spec ns bs2 ltac:(lia)) as (P1 & P2 & P3).
  pose proof (pad_to_pos ns bs2 ltac:(lia) N1) as P4.
  fold (s_PZ H) in P1, P2, P3, P4. unfold p2_padded2. rewrite pad_is_pad_to by lia. fold (s_PZ H).
  repeat split; try assumption; lia.
Qed.

(* the group buffer IS the edge-extended section *)
Lemma buf_extend g i j : 0 <= g < s_PT H / bs1 -> 0 <= i < bs1 -> 0 <= j ->
  buf' g i j = ext (g * bs1 + i) j.
Proof.
  intros Hg Hi Hj. destruct W' as (N1 & NS1 & B1 & _). destruct PT_facts as (_ & _ & _ & _ & PTd).
  unfold buf, extend, row_final, row_after_copy, io2_fill_lo, io2_fill_src, io2_copy_lo, io2_copy_hi.
  (* the sample axis *)
  assert (COL : forall tr : Z -> sample,
            (if ns <=? j then (if (0 <=? ns - 1) && (ns - 1 <? ns) then tr (ns - 1 - 0) else zero)
             else (if (0 <=? j) && (j <? ns) then tr (j - 0) else zero)) = tr (Z.min j (ns - 1))).
  { intro tr. destruct (ns <=? j) eqn:E.
    - apply Z.leb_le in E. replace ((0 <=? ns - 1) && (ns - 1 <? ns)) with true by lia. f_equal. lia.
    - apply Z.leb_gt in E. replace ((0 <=? j) && (j <? ns)) with true by lia. f_equal. lia. }
  rewrite COL. f_equal.
  (* the trace axis *)
  unfold io2_row_src, p2_traces_to_read, py_idx.
  assert (GB : g * bs1 <= n - 1).
  { rewrite PTd in Hg. pose proof (Z.div_mod (n + bs1 - 1) bs1 ltac:(lia)) as DM.
    pose proof (Z.mod_pos_bound (n + bs1 - 1) bs1 ltac:(lia)) as MB. nia. }
  pose proof (Z.div_mod n bs1 ltac:(lia)) as DMn. pose proof (Z.mod_pos_bound n bs1 ltac:(lia)) as MBn.
  assert (G0 : 0 <= g * bs1) by nia.
  destruct ((g + 1) * bs1 >? n) eqn:E.
  - assert (E' : n < (g + 1) * bs1) by lia.
    assert (G : g = n / bs1).
    { apply (Z.div_unique n bs1 g (n - g * bs1)); lia. }
    rewrite <- G in DMn.
    destruct (i <? n mod bs1) eqn:Ei.
    + apply Z.ltb_lt in Ei. replace (g * bs1 + i <? 0) with false by lia. lia.
    + apply Z.ltb_ge in Ei. match goal with |- context [?k <? 0] => change (k <? 0) with true end. cbv iota. lia.
  - assert (E' : (g + 1) * bs1 <= n) by lia.
    replace (i <? bs1) with true by lia. replace (g * bs1 + i <? 0) with false by lia. lia.
Qed.

Lemma compress2_length rows cols (a : Z -> Z -> sample) : 0 <= rows -> 0 <= cols ->
  Z.of_nat (length (compress2 sample code enc rows cols a)) = (rows / 4) * (cols / 4).
Proof.
  intros Hr Hc. unfold compress2. apply length_flat_map_uniform.
  - intros i _. apply length_map_zrange. apply Z.div_pos; lia.
  - apply Z.div_pos; lia.
  - apply Z.div_pos; lia.
Qed.

Lemma compress2_nth rows cols (a : Z -> Z -> sample) xu zu : 0 <= xu < rows / 4 -> 0 <= zu < cols / 4 ->
  nth_error (compress2 sample code enc rows cols a) (Z.to_nat (xu * (cols / 4) + zu)) = Some (enc (unit_of a xu zu)).
Proof.
  intros Hx Hz. unfold compress2.
  rewrite (nth_error_flat_map_uniform _ (cols / 4) (rows / 4) xu zu); try lia.
  - apply (nth_error_map_zrange (fun zu => enc (unit_of a xu zu))). exact Hz.
  - intros i _. apply length_map_zrange. lia.
Qed.

Theorem producer_2d_conform xu zu : 0 <= xu < s_PT H / 4 -> 0 <= zu < s_PZ H / 4 ->
  nth_error (written sample code zero enc src n ns bs1 bs2) (Z.to_nat (unit_index2 H xu zu)) =
  Some (enc (unit_of ext xu zu)).
Proof.
  intros Hxu Hzu. destruct W' as (N1 & NS1 & B1 & B1m & B2 & B2m).
  destruct PT_facts as (PT1 & PTm & PTp & PTg & PTd). destruct PZ_facts as (PZ1 & PZm & PZp & PZb).
  pose proof (exact_div bs1 4 ltac:(lia) B1m) as E1. pose proof (exact_div bs2 4 ltac:(lia) B2m) as E2.
  pose proof (exact_div (s_PT H) bs1 ltac:(lia) PTm) as EPT. pose proof (exact_div (s_PZ H) bs2 ltac:(lia) PZm) as EPZ.
  assert (U1 : 0 < bs1 / 4) by (apply Z.div_str_pos; lia).
  assert (U2 : 0 < bs2 / 4) by (apply Z.div_str_pos; lia).
  assert (PT4 : s_PT H / 4 = (s_PT H / bs1) * (bs1 / 4)) by (apply div4_split; [lia | exact B1m | exact PTm]).
  assert (PZ4 : s_PZ H / 4 = (s_PZ H / bs2) * (bs2 / 4)) by (apply div4_split; [lia | exact B2m | exact PZm]).
  assert (NBZ : 0 < s_PZ H / bs2) by (apply Z.div_str_pos; lia).
  unfold written, p2_items. rewrite PTg. rewrite flat_map_flat_map.
  unfold unit_index2.
  set (u1 := bs1 / 4) in *. set (u2 := bs2 / 4) in *. set (nbz := s_PZ H / bs2) in *. set (NG := s_PT H / bs1) in *.
  pose proof (Z.div_mod xu u1 ltac:(lia)) as DMx. pose proof (Z.mod_pos_bound xu u1 ltac:(lia)) as MBx.
  pose proof (Z.div_mod zu u2 ltac:(lia)) as DMz. pose proof (Z.mod_pos_bound zu u2 ltac:(lia)) as MBz.
  set (g := xu / u1) in *. set (a := xu mod u1) in *. set (z := zu / u2) in *. set (c := zu mod u2) in *.
  assert (Hg : 0 <= g < NG).
  { split; [apply Z.div_pos; lia | apply Z.div_lt_upper_bound; lia]. }
  assert (Hz : 0 <= z < nbz).
  { split; [apply Z.div_pos; lia | apply Z.div_lt_upper_bound; lia]. }
  unfold p2_whole_group. destruct (bs1 =? 4) eqn:SW.
  - (* whole group buffers: bs1 = 4, u1 = 1 *)
    apply Z.eqb_eq in SW. assert (u1 = 1) by (subst u1; rewrite SW; reflexivity).
    assert (a = 0) by lia. assert (g = xu) by lia.
    replace ((g * nbz + z) * (u1 * u2) + (a * u2 + c)) with (g * (s_PZ H / 4) + zu) by (rewrite PZ4; fold nbz u2; nia).
    rewrite (nth_error_flat_map_uniform _ (s_PZ H / 4) NG g zu); try lia.
    + cbn [flat_map item_codes]. rewrite app_nil_r. unfold p2_buffer_rows, p2_buffer_cols. rewrite PZp.
      pose proof (compress2_nth bs1 (s_PZ H) (buf' g) 0 zu ltac:(fold u1; lia) ltac:(lia)) as CN.
      rewrite Z.mul_0_l, Z.add_0_l in CN. rewrite CN. f_equal. f_equal.
      etransitivity.
      { apply (unit_of_ext _ (fun i j => ext (g * bs1 + i) j)). intros p q Hp Hq.
        apply buf_extend; [fold NG; lia | lia | lia]. }
      unfold unit_of. change (zrange 0 4) with [0; 1; 2; 3]. cbn [flat_map map app].
      repeat (f_equal; try lia).
    + intros i Hi. cbn [flat_map item_codes]. rewrite app_nil_r. unfold p2_buffer_rows, p2_buffer_cols. rewrite PZp.
      rewrite compress2_length by lia. fold u1. nia.
  - (* block by block *)
    unfold p2_n_zblocks, p2_slice_lo, p2_slice_hi. rewrite PZp. fold nbz.
    replace ((g * nbz + z) * (u1 * u2) + (a * u2 + c)) with (g * (nbz * (u1 * u2)) + (z * (u1 * u2) + (a * u2 + c))) by ring.
    assert (BL : forall g' z', Z.of_nat (length (item_codes sample code zero enc src n ns bs1 bs2
                                  (P2Block g' (z' * bs2) ((z' + 1) * bs2)))) = u1 * u2).
    { intros g' z'. cbn [item_codes]. unfold p2_buffer_rows. rewrite compress2_length by nia.
      replace ((z' + 1) * bs2 - z' * bs2) with bs2 by ring. reflexivity. }
    rewrite (nth_error_flat_map_uniform _ (nbz * (u1 * u2)) NG g); try nia.
    + rewrite flat_map_map.
      rewrite (nth_error_flat_map_uniform _ (u1 * u2) nbz z (a * u2 + c)); try nia.
      * cbn [item_codes]. unfold p2_buffer_rows. replace ((z + 1) * bs2 - z * bs2) with bs2 by ring.
        fold u2. rewrite (compress2_nth bs1 bs2 _ a c) by (fold u1 u2; lia). f_equal. f_equal.
        etransitivity.
        { apply (unit_of_ext _ (fun i j => ext (g * bs1 + i) (z * bs2 + j))). intros p q Hp Hq.
          apply buf_extend; [fold NG; lia | nia | nia]. }
        unfold unit_of. change (zrange 0 4) with [0; 1; 2; 3]. cbn [flat_map map app].
        repeat (f_equal; try lia).
      * intros i _. apply BL.
    + intros i _. rewrite flat_map_map. apply length_flat_map_uniform; [intros; apply BL | lia | nia].
Qed.

Theorem producer_2d_length :
  Z.of_nat (length (written sample code zero enc src n ns bs1 bs2)) = (s_PT H / 4) * (s_PZ H / 4).
Proof.
  destruct W' as (N1 & NS1 & B1 & B1m & B2 & B2m).
  destruct PT_facts as (PT1 & PTm & PTp & PTg & PTd). destruct PZ_facts as (PZ1 & PZm & PZp & PZb).
  assert (PT4 : s_PT H / 4 = (s_PT H / bs1) * (bs1 / 4)) by (apply div4_split; [lia | exact B1m | exact PTm]).
  assert (PZ4 : s_PZ H / 4 = (s_PZ H / bs2) * (bs2 / 4)) by (apply div4_split; [lia | exact B2m | exact PZm]).
  assert (NG0 : 0 <= s_PT H / bs1) by (apply Z.div_pos; lia).
  assert (NB0 : 0 <= s_PZ H / bs2) by (apply Z.div_pos; lia).
  assert (U1 : 0 <= bs1 / 4) by (apply Z.div_pos; lia).
  assert (U2 : 0 <= bs2 / 4) by (apply Z.div_pos; lia).
  unfold written, p2_items. rewrite PTg, flat_map_flat_map, PT4, PZ4.
  replace (s_PT H / bs1 * (bs1 / 4) * (s_PZ H / bs2 * (bs2 / 4)))
    with (s_PT H / bs1 * ((bs1 / 4) * ((s_PZ H / bs2) * (bs2 / 4)))) by ring.
  apply length_flat_map_uniform; [| lia | nia].
  intros g _. unfold p2_whole_group. destruct (bs1 =? 4) eqn:SW.
  - cbn [flat_map item_codes]. rewrite app_nil_r. unfold p2_buffer_rows, p2_buffer_cols. rewrite PZp.
    rewrite compress2_length by lia. rewrite PZ4. reflexivity.
  - unfold p2_n_zblocks, p2_slice_lo, p2_slice_hi. rewrite PZp, flat_map_map.
    replace (bs1 / 4 * (s_PZ H / bs2 * (bs2 / 4))) with (s_PZ H / bs2 * ((bs1 / 4) * (bs2 / 4))) by ring.
    apply length_flat_map_uniform; [| lia | nia].
    intros z _. cbn [item_codes]. unfold p2_buffer_rows. rewrite compress2_length by nia.
    replace ((z + 1) * bs2 - z * bs2) with bs2 by ring. reflexivity.
Qed.

(* headers: every real trace t is stored exactly at position t from source header t, nothing else *)
Lemma hdr_stores_identity p : In p (all_hdr_stores n ns bs1 bs2) -> fst p = snd p /\ 0 <= fst p < n.
Proof.
  destruct W' as (N1 & NS1 & B1 & _). destruct PT_facts as (_ & _ & _ & PTg & PTd).
  unfold all_hdr_stores, hdr_stores. rewrite in_flat_map. intros (g & Hg & Hin).
  rewrite in_flat_map in Hin. destruct Hin as (i & Hi & Hin).
  rewrite in_zrange in Hg, Hi. unfold io2_n_rows in Hi. rewrite PTg, PTd in Hg.
  destruct (i <? p2_traces_to_read n ns bs1 bs2 g) eqn:E; [|destruct Hin].
  destruct Hin as [<-|[]]. unfold io2_hdr_dst, io2_hdr_src. cbn [fst snd]. split; [reflexivity|].
  apply Z.ltb_lt in E. unfold p2_traces_to_read in E.
  pose proof (Z.div_mod (n + bs1 - 1) bs1 ltac:(lia)) as DM. pose proof (Z.mod_pos_bound (n + bs1 - 1) bs1 ltac:(lia)) as MB.
  pose proof (Z.div_mod n bs1 ltac:(lia)) as DMn. pose proof (Z.mod_pos_bound n bs1 ltac:(lia)) as MBn.
  destruct ((g + 1) * bs1 >? n) eqn:E2.
  - assert (E' : n < (g + 1) * bs1) by lia.
    assert (G : g = n / bs1) by (apply (Z.div_unique n bs1 g (n - g * bs1)); nia). nia.
  - assert (E' : (g + 1) * bs1 <= n) by lia. nia.
Qed.

Lemma hdr_stores_complete t : 0 <= t < n -> In (t, t) (all_hdr_stores n ns bs1 bs2).
Proof.
  intro Ht. destruct W' as (N1 & NS1 & B1 & _). destruct PT_facts as (_ & _ & _ & PTg & PTd).
  pose proof (Z.div_mod t bs1 ltac:(lia)) as DM. pose proof (Z.mod_pos_bound t bs1 ltac:(lia)) as MB.
  pose proof (Z.div_mod n bs1 ltac:(lia)) as DMn. pose proof (Z.mod_pos_bound n bs1 ltac:(lia)) as MBn.
  unfold all_hdr_stores, hdr_stores. rewrite in_flat_map. exists (t / bs1). rewrite in_zrange, PTg, PTd. split.
  - split; [apply Z.div_pos; lia|]. apply Z.div_lt_upper_bound; [lia|].
    pose proof (Z.div_mod (n + bs1 - 1) bs1 ltac:(lia)) as DM2. pose proof (Z.mod_pos_bound (n + bs1 - 1) bs1 ltac:(lia)). nia.
  - rewrite in_flat_map. exists (t mod bs1). rewrite in_zrange. unfold io2_n_rows. split; [lia|].
    replace (t mod bs1 <? p2_traces_to_read n ns bs1 bs2 (t / bs1)) with true.
    + left. unfold io2_hdr_dst, io2_hdr_src. f_equal; lia.
    + symmetry. apply Z.ltb_lt. unfold p2_traces_to_read. destruct ((t / bs1 + 1) * bs1 >? n) eqn:E2; [|lia].
      assert (E' : n < (t / bs1 + 1) * bs1) by lia.
      assert (G : t / bs1 = n / bs1) by (apply (Z.div_unique n bs1 (t / bs1) (n - t / bs1 * bs1)); nia). nia.
Qed.
End CONFORM.

(* ---------------- the header ---------------- *)
Lemma header_2d_layout n ns rate bs1 bs2 nha ver : wfp2 n ns rate bs1 bs2 = true ->
  let H := hdr_of_writes (mh2_writes ns n n rate 1 1 bs1 bs2 nha ver) in
  wf2 H = true /\ s_ntr H = n /\ s_ns H = ns /\ s_bs0 H = 1 /\ s_bs1 H = bs1 /\ s_bs2 H = bs2 /\
  s_rate_code H = rate /\ s_nil H = 0 /\ s_nxl H = 0 /\ s_nhb H = 2 /\ s_hel H = 4 * n /\ s_nha H = nha /\ s_ver H = ver /\
  4096 * s_ndb H = (s_PT H / 4) * (s_PZ H / 4) * s_ub2 H.
Proof.
  unfold wfp2. rewrite !andb_true_iff, !Z.leb_le, !Z.eqb_eq.
  intros (((((((N1 & NS1) & R1) & B1) & B1m) & B2) & B2m) & Blk).
  cbv zeta.
  set (H := hdr_of_writes (mh2_writes ns n n rate 1 1 bs1 bs2 nha ver)).
  assert (F0 : s_nhb H = 2) by reflexivity.
  assert (F1 : s_ns H = ns) by reflexivity.
  assert (F2 : s_nxl H = 0) by reflexivity.
  assert (F3 : s_nil H = 0) by reflexivity.
  assert (F4 : s_rate_code H = rate).
  { unfold s_rate_code, H, hdr_of_writes, mh2_writes. cbn [h_i32_40 lookup existsb fst Z.eqb Pos.eqb orb].
    unfold mh2_bpv. replace (rate <? 1) with false by lia. apply Z.quot_1_r. }
  assert (F5 : s_bs0 H = 1) by reflexivity.
  assert (F6 : s_bs1 H = bs1) by reflexivity.
  assert (F7 : s_bs2 H = bs2) by reflexivity.
  assert (F8 : s_ntr H = n) by reflexivity.
  assert (F9 : s_hel H = n * 32 / 8) by reflexivity.
  assert (F10 : s_nha H = nha) by reflexivity.
  assert (F11 : s_ver H = ver) by reflexivity.
  assert (F12 : s_ndb H = Z.quot (rate * pad ns bs2 * pad n bs1) 1 / 8 / 4096) by reflexivity.
  assert (RN : s_rn H = rate) by (unfold s_rn; rewrite F4; replace (rate <? 0) with false by lia; reflexivity).
  assert (RD : s_rd H = 1) by (unfold s_rd; rewrite F4; replace (rate <? 0) with false by lia; reflexivity).
  pose proof (exact_div bs1 4 ltac:(lia) B1m) as E1. pose proof (exact_div bs2 4 ltac:(lia) B2m) as E2.
  assert (UB : s_ub2 H = 2 * rate).
  { unfold s_ub2. rewrite RN, RD. replace (16 * rate) with ((2 * rate) * (8 * 1)) by ring. apply Z_div_mult. lia. }
  assert (BLK : (bs1 / 4) * (bs2 / 4) * (2 * rate) = 4096).
  { set (u1 := bs1 / 4) in *. set (u2 := bs2 / 4) in *. nia. }
  assert (WF : wf2 H = true).
  { unfold wf2. rewrite F5, F8, F1, F6, F7, F4, UB, RN, RD.
    rewrite !andb_true_iff, negb_true_iff, !Z.leb_le, !Z.eqb_eq, Z.ltb_lt, Z.eqb_neq.
    repeat split; try lia. }
  split; [exact WF|]. repeat (split; [assumption|]).
  split. { rewrite F9. replace (n * 32) with ((4 * n) * 8) by ring. apply Z_div_mult. lia. }
  split; [assumption|]. split; [assumption|].
  (* the recorded number of disk blocks is the size of the data section *)
  rewrite F12, UB. unfold s_PT, s_PZ. rewrite F8, F1, F6, F7. rewrite !pad_is_pad_to by lia.
  pose proof (pad_to_spec n bs1 ltac:(lia)) as (_ & PTm & _). pose proof (pad_to_spec ns bs2 ltac:(lia)) as (_ & PZm & _).
  set (PT := pad_to n bs1) in *. set (PZ := pad_to ns bs2) in *.
  rewrite Z.quot_1_r.
  pose proof (exact_div PT bs1 ltac:(lia) PTm) as EPT. pose proof (exact_div PZ bs2 ltac:(lia) PZm) as EPZ.
  assert (PT4 : PT / 4 = (PT / bs1) * (bs1 / 4)) by (apply div4_split; [lia | exact B1m | exact PTm]).
  assert (PZ4 : PZ / 4 = (PZ / bs2) * (bs2 / 4)) by (apply div4_split; [lia | exact B2m | exact PZm]).
  rewrite PT4, PZ4.
  set (gt := PT / bs1) in *. set (gz := PZ / bs2) in *. set (u1 := bs1 / 4) in *. set (u2 := bs2 / 4) in *.
  assert (EQ : rate * PZ * PT = (gt * gz * 4096) * 8).
  { rewrite EPT, EPZ. replace (rate * (bs2 * gz) * (bs1 * gt)) with ((rate * bs1 * bs2) * (gt * gz)) by ring.
    rewrite Blk. ring. }
  rewrite EQ. rewrite Z_div_mult by lia. rewrite Z_div_mult by lia.
  replace (gt * u1 * (gz * u2) * (2 * rate)) with ((gt * gz) * (u1 * u2 * (2 * rate))) by ring.
  rewrite BLK. ring.
Qed.

(* ---------------- write, then read: the 2D instance ---------------- *)
(* the code a provenance points at (a unit code starts at byte ub * k of the data section) and the cell inside it *)
Definition prov_code {code : Type} (written : list code) (ub : Z) (p : prov) : option (code * Z) :=
  match p with
  | PUnit off c => option_map (fun cd => (cd, c)) (nth_error written (Z.to_nat (off / ub)))
  | _ => None
  end.

Section WTR.
Variable sample code : Type.
Variable zero : sample.
Variable enc : list sample -> code.
Variable src : Z -> Z -> sample.
Variable H : hdr.
Hypothesis W : wf2v H = true.

Lemma wf2_of_wf2v : wf2 H = true.
Proof. unfold wf2v in W. apply andb_true_iff in W. tauto. Qed.

Theorem write_then_read_2d t0 t1 z0 z1 :
  0 <= t0 < t1 -> t1 <= s_ntr H -> 0 <= z0 < z1 -> z1 <= s_ns H ->
  exists v, rd_read_subplane H t0 t1 z0 z1 false = Return v /\ av_shape v = [t1 - t0; z1 - z0] /\
    forall t z, 0 <= t < t1 - t0 -> 0 <= z < z1 - z0 ->
      prov_code (written sample code zero enc src (s_ntr H) (s_ns H) (s_bs1 H) (s_bs2 H)) (s_ub2 H) (av_cell v [t; z]) =
      Some (enc (unit_of (extend sample src (s_ntr H) (s_ns H)) ((t0 + t) / 4) ((z0 + z) / 4)),
            ((t0 + t) mod 4) * 4 + (z0 + z) mod 4).
Proof.
  intros Ht Ht1 Hz Hz1. destruct (subplane_coherent H W t0 t1 z0 z1 Ht Ht1 Hz Hz1) as (v & Ev & Sv & Cv & _).
  exists v. split; [exact Ev|]. split; [exact Sv|]. intros t z Ht' Hz'. rewrite Cv by assumption.
  unfold spec_cell2, prov_code. pose proof (wf2v_facts H W) as F. pose proof (g_ub H F) as Ub.
  rewrite (Z.mul_comm (s_ub2 H)), Z_div_mult by lia.
  destruct (g_PT H F) as (PT1 & _ & PT4 & _). destruct (g_PZ H F) as (PZ1 & _ & PZ4 & _).
  rewrite (producer_2d_conform sample code zero enc src H wf2_of_wf2v).
  - reflexivity.
  - apply div4_lt2; [lia | exact PT4].
  - apply div4_lt2; [lia | exact PZ4].
Qed.
End WTR.

(* the header written by a library version newer than 0.2.1 satisfies the reader-side hypothesis wf2v *)
Lemma header_2d_wf2v n ns rate bs1 bs2 nha ver : wfp2 n ns rate bs1 bs2 = true ->
  (version_reencode ver >? version_to_encoding 0 2 1 false) = true ->
  wf2v (hdr_of_writes (mh2_writes ns n n rate 1 1 bs1 bs2 nha ver)) = true.
Proof.
  intros Wp V. destruct (header_2d_layout n ns rate bs1 bs2 nha ver Wp) as (WF & _).
  unfold wf2v. rewrite WF. cbn [andb]. exact V.
Qed.

(* the 2D decision of detect_geometry *)
Lemma detect_2d u il0 xl0 il1 xl1 tc ni nx :
  (exists k, detect_geometry u il0 xl0 il1 xl1 tc ni nx = G2d k) <->
  (u = true /\ il0 = 0 /\ xl0 = 0 /\ il1 = 0 /\ xl1 = 0) \/ (u = false /\ (ni = 1 \/ nx = 1)).
Proof.
  unfold detect_geometry. destruct u.
  - destruct ((il0 =? 0) && (xl0 =? 0) && (il1 =? 0) && (xl1 =? 0)) eqn:E.
    + rewrite !andb_true_iff, !Z.eqb_eq in E. split; [intros _; left; tauto | intros _; eexists; reflexivity].
    + split; [intros (k & Q); discriminate|]. intros [(_ & A & B & C & D)|(Q & _)]; [|discriminate].
      subst. discriminate.
  - destruct (ni =? 1) eqn:E1; [|destruct (nx =? 1) eqn:E2].
    + apply Z.eqb_eq in E1. split; [intros _; right; tauto | intros _; eexists; reflexivity].
    + apply Z.eqb_eq in E2. split; [intros _; right; tauto | intros _; eexists; reflexivity].
    + apply Z.eqb_neq in E1, E2. split; [intros (k & Q); discriminate|].
      intros [(Q & _)|(_ & [Q|Q])]; [discriminate | contradiction | contradiction].
Qed.
Lemma detect_2d_count u il0 xl0 il1 xl1 tc ni nx k : detect_geometry u il0 xl0 il1 xl1 tc ni nx = G2d k -> k = tc.
Proof.
  unfold detect_geometry. destruct u.
  - destruct ((il0 =? 0) && (xl0 =? 0) && (il1 =? 0) && (xl1 =? 0)); intro Q; [injection Q; auto | discriminate].
  - destruct (ni =? 1); [intro Q; injection Q; auto|]. destruct (nx =? 1); intro Q; [injection Q; auto | discriminate].
Qed.
