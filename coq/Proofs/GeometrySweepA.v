(* Proofs/GeometrySweepA.v -- C05, finite-domain computations (vm_compute) over the binary64 model, part A.
   Domain: EVERY sample interval d = 1..65535 us with start time 0 ms: the header stores d and 0 exactly and the first 8
   regenerated samples equal segyio's bit for bit.  The bounds are in the statements. *)
From Coq Require Import ZArith List Bool.
From SZ Require Import Lib.Py Gen.Geometry Model.Geometry.
Import ListNotations.
Open Scope Z_scope.

Theorem sweep_all_intervals_t0_0 : forallb (fun d => zs_check d 0 8) (zrange 1 65536) = true.
Proof. vm_compute. reflexivity. Qed.
