(* Mixed-radix enumeration: nested loops over range() enumerate consecutive integers. *)
From Coq Require Import ZArith List Bool Lia.
Import ListNotations.
From SZ Require Import Lib.Py Proofs.PyLemmas.
Open Scope Z_scope.

Lemma zrange_nat_app lo a b : zrange_nat lo (a + b) = zrange_nat lo a ++ zrange_nat (lo + Z.of_nat a) b.
Proof.
  revert lo; induction a as [|a IH]; intro lo; cbn [zrange_nat plus app].
  - replace (lo + Z.of_nat 0) with lo by lia. reflexivity.
  - rewrite IH. replace (lo + 1 + Z.of_nat a) with (lo + Z.of_nat (S a)) by lia. reflexivity.
Qed.

Lemma zrange_split lo mid hi : lo <= mid <= hi -> zrange lo hi = zrange lo mid ++ zrange mid hi.
Proof.
  intro Hm. unfold zrange. replace (Z.to_nat (hi - lo)) with (Z.to_nat (mid - lo) + Z.to_nat (hi - mid))%nat by lia.
  rewrite zrange_nat_app. replace (lo + Z.of_nat (Z.to_nat (mid - lo))) with mid by lia. reflexivity.
Qed.

Lemma zrange_snoc n : 0 <= n -> zrange 0 (n + 1) = zrange 0 n ++ [n].
Proof.
  intro Hn. rewrite (zrange_split 0 n (n + 1)) by lia. f_equal.
  unfold zrange. replace (Z.to_nat (n + 1 - n)) with 1%nat by lia. reflexivity.
Qed.

Lemma zrange_length lo hi : length (zrange lo hi) = Z.to_nat (hi - lo).
Proof. apply zrange_nat_length. Qed.

Lemma map_flat_map {A B C} (g : B -> C) (f : A -> list B) l : map g (flat_map f l) = flat_map (fun x => map g (f x)) l.
Proof. induction l as [|x xs IH]; cbn [flat_map map]; [reflexivity | rewrite map_app, IH; reflexivity]. Qed.

Lemma flat_map_flat_map {A B C} (g : B -> list C) (f : A -> list B) l :
  flat_map g (flat_map f l) = flat_map (fun x => flat_map g (f x)) l.
Proof. induction l as [|x xs IH]; cbn [flat_map]; [reflexivity | rewrite flat_map_app, IH; reflexivity]. Qed.

Lemma flat_map_map {A B C} (g : B -> list C) (f : A -> B) l : flat_map g (map f l) = flat_map (fun x => g (f x)) l.
Proof. induction l as [|x xs IH]; cbn [flat_map map]; [reflexivity | rewrite IH; reflexivity]. Qed.

Lemma flat_map_ext_in {A B} (f g : A -> list B) l : (forall x, In x l -> f x = g x) -> flat_map f l = flat_map g l.
Proof.
  induction l as [|x xs IH]; intro E; cbn [flat_map]; [reflexivity|].
  rewrite (E x (or_introl eq_refl)), IH; [reflexivity | intros; apply E; right; assumption].
Qed.

(* innermost loop: consecutive values *)
Lemma map_add_zrange_nat base lo k : map (fun c => base + c) (zrange_nat lo k) = zrange_nat (base + lo) k.
Proof.
  revert lo; induction k as [|k IH]; intro lo; cbn [zrange_nat map]; [reflexivity|].
  rewrite IH. replace (base + (lo + 1)) with (base + lo + 1) by lia. reflexivity.
Qed.
Lemma map_add_zrange base n : 0 <= n -> map (fun c => base + c) (zrange 0 n) = zrange base (base + n).
Proof.
  intro Hn. unfold zrange. rewrite map_add_zrange_nat. replace (base + 0) with base by lia.
  replace (base + n - base) with (n - 0) by lia. reflexivity.
Qed.

(* one loop level: if the a-th inner list is the a-th run of length L, the whole is one run *)
Lemma flat_map_enum (f : Z -> list Z) base L n : 0 <= n -> 0 <= L ->
  (forall a, 0 <= a < n -> f a = zrange (base + a * L) (base + (a + 1) * L)) ->
  flat_map f (zrange 0 n) = zrange base (base + n * L).
Proof.
  intros Hn HL. pattern n. apply natlike_ind; [| | exact Hn].
  - intros _. rewrite (zrange_empty 0 0), (zrange_empty base) by lia. reflexivity.
  - intros k Hk IH Hf. unfold Z.succ. rewrite zrange_snoc by lia. rewrite flat_map_app. cbn [flat_map]. rewrite app_nil_r.
    rewrite IH by (intros; apply Hf; lia). rewrite Hf by lia.
    rewrite <- zrange_split by nia. reflexivity.
Qed.
