From Coq Require Import ZArith Bool List Lia String.
From SZ Require Import Lib.Py Gen.Version Spec.Version Model.Version.
Open Scope Z_scope.

Lemma enc_closed v : enc v = 1024*2048*vmaj v + 2048*vmin v + 2*vpat v + 1 - (if vdev v then 1 else 0).
Proof. unfold enc, version_to_encoding. destruct (vdev v); lia. Qed.

Lemma dec_enc v : ver_ok v -> dec (enc v) = v.
Proof.
  intros (HM & Hm & Hp). rewrite enc_closed. destruct v as [M m p d]. cbn [vmaj vmin vpat vdev] in *.
  set (k := if d then 1 else 0). assert (Hk: 0 <= k <= 1) by (subst k; destruct d; lia).
  set (n := 1024*2048*M + 2048*m + 2*p + 1 - k).
  assert (E1: n / (1024*2048) = M).
  { symmetry. apply (Z.div_unique_pos _ _ _ (2048*m + 2*p + 1 - k)); subst n; lia. }
  unfold dec, version_of_int_major, version_of_int_minor, version_of_int_patch, version_of_int_dev.
  rewrite E1.
  assert (E2: (n - M*1024*2048) / 2048 = m).
  { symmetry. apply (Z.div_unique_pos _ _ _ (2*p + 1 - k)); subst n; lia. }
  rewrite E2.
  assert (E3: (n - M*1024*2048 - m*2048) / 2 = p).
  { symmetry. apply (Z.div_unique_pos _ _ _ (1 - k)); subst n; lia. }
  rewrite E3.
  assert (E4: (n mod 2 =? 0) = d).
  { subst n. replace (1024*2048*M + 2048*m + 2*p + 1 - k) with ((1-k) + (1024*1024*M + 1024*m + p)*2) by ring.
    rewrite Z_mod_plus_full. subst k; destruct d; reflexivity. }
  rewrite E4. reflexivity.
Qed.

Lemma dec_ok n : 0 <= n -> ver_ok (dec n).
Proof.
  intro Hn. unfold ver_ok, dec, version_of_int_major, version_of_int_minor, version_of_int_patch; cbn [vmaj vmin vpat].
  pose proof (Z.div_mod n (1024*2048) ltac:(lia)) as D1. pose proof (Z.mod_pos_bound n (1024*2048) ltac:(lia)) as B1.
  set (M := n / (1024*2048)) in *. set (r := n mod (1024*2048)) in *.
  replace (n - M * 1024 * 2048) with r by lia.
  pose proof (Z.div_mod r 2048 ltac:(lia)) as D2. pose proof (Z.mod_pos_bound r 2048 ltac:(lia)) as B2.
  set (m := r / 2048) in *. set (r2 := r mod 2048) in *.
  replace (r - m * 2048) with r2 by lia.
  pose proof (Z.div_mod r2 2 ltac:(lia)) as D3. pose proof (Z.mod_pos_bound r2 2 ltac:(lia)) as B3.
  assert (0 <= M) by (subst M; apply Z.div_pos; lia).
  assert (0 <= m < 1024) by (split; [subst m; apply Z.div_pos; lia | subst m; apply Z.div_lt_upper_bound; lia]).
  assert (0 <= r2/2 < 1024) by (split; [apply Z.div_pos; lia | apply Z.div_lt_upper_bound; lia]).
  lia.
Qed.

Lemma enc_dec n : 0 <= n -> enc (dec n) = n.
Proof.
  intro Hn. rewrite enc_closed.
  unfold dec, version_of_int_major, version_of_int_minor, version_of_int_patch, version_of_int_dev; cbn [vmaj vmin vpat vdev].
  pose proof (Z.div_mod n (1024*2048) ltac:(lia)) as D1. pose proof (Z.mod_pos_bound n (1024*2048) ltac:(lia)) as B1.
  set (M := n / (1024*2048)) in *. set (r := n mod (1024*2048)) in *.
  replace (n - M * 1024 * 2048) with r by lia.
  pose proof (Z.div_mod r 2048 ltac:(lia)) as D2. pose proof (Z.mod_pos_bound r 2048 ltac:(lia)) as B2.
  set (m := r / 2048) in *. set (r2 := r mod 2048) in *.
  replace (r - m * 2048) with r2 by lia.
  pose proof (Z.div_mod r2 2 ltac:(lia)) as D3. pose proof (Z.mod_pos_bound r2 2 ltac:(lia)) as B3.
  assert (E: n mod 2 = r2 mod 2).
  { replace n with (r2 + (1024*1024*M + 1024*m) * 2) by lia. apply Z_mod_plus_full. }
  rewrite E. destruct (r2 mod 2 =? 0) eqn:Q; [apply Z.eqb_eq in Q | apply Z.eqb_neq in Q]; lia.
Qed.

Lemma enc_nonneg v : ver_ok v -> 0 <= enc v.
Proof. intros (?&?&?). rewrite enc_closed. destruct (vdev v); lia. Qed.

Lemma enc_monotone a b : ver_ok a -> ver_ok b -> (ver_lt a b <-> enc a < enc b).
Proof.
  rewrite !enc_closed. destruct a as [M m p d], b as [M' m' p' d']; unfold ver_ok, ver_lt; cbn [vmaj vmin vpat vdev].
  intros (?&?&?) (?&?&?). destruct d, d'; split; intro H5; try lia.
Qed.

Lemma enc_injective a b : ver_ok a -> ver_ok b -> enc a = enc b -> a = b.
Proof. intros Ha Hb E. rewrite <- (dec_enc a Ha), <- (dec_enc b Hb), E. reflexivity. Qed.

(* the reader re-encodes what it decoded: identity on every stored (non-negative) value *)
Lemma reencode_id n : 0 <= n -> version_reencode n = n.
Proof. intro Hn. exact (enc_dec n Hn). Qed.

(* the two gates of the reader *)
Lemma gate_after v M m p : ver_ok v -> 0 <= M -> 0 <= m < 1024 -> 0 <= p < 1024 ->
  (ver_gt_impl v (rel M m p) = true <-> ver_lt (rel M m p) v).
Proof.
  intros Hv HM Hm Hp. unfold ver_gt_impl. rewrite Z.gtb_lt.
  symmetry. apply enc_monotone; [unfold ver_ok, rel; cbn; lia | exact Hv].
Qed.

(* ---- string constructor ---- *)
Open Scope string_scope.
Example parse_release_example : parse_version "0.2.9" = Return (rel 0 2 9).
Proof. vm_compute. reflexivity. Qed.
Example parse_dev_example :
  parse_version "0.2.5.dev3+g45bcf96.d20240101" = Return {| vmaj := 0; vmin := 2; vpat := 5; vdev := true |}.
Proof. vm_compute. reflexivity. Qed.
Example parse_rc_example : parse_version "0.1.7rc2" = Return {| vmaj := 0; vmin := 1; vpat := 7; vdev := true |}.
Proof. vm_compute. reflexivity. Qed.
(* D19: strings setuptools_scm emits when no tag is reachable / the tree is dirty abort the constructor *)
Example parse_scm_refuted_nopatch : parse_version "0.1.dev1+g45bcf9689" = Raise ValueErr.
Proof. vm_compute. reflexivity. Qed.
Example parse_scm_refuted_dirty : parse_version "0.2.4+d20240101" = Raise ValueErr.
Proof. vm_compute. reflexivity. Qed.
