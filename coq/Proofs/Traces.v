(* C02c: get_trace of the GENERAL layout and both diagonal readers of EVERY 3D layout.
   - get_trace(t, min_sample_id, max_sample_id) on a file whose blockshape is not (4,4,N): the GENERATED reader
     (rd_get_trace -> rd_read_containing_chunk -> rd_read_subvolume with access_padding = True) returns the
     specification decoder's cells of the requested window of trace t, and reads exactly the blocks of the trace's
     block column that the window touches, one 4096-byte read per block, in loader order.
   - get_correlated_diagonal_length / get_anticorrelated_diagonal_length (Gen/Utils.v) count exactly the grid cells
     of the diagonal.
   - read_correlated_diagonal / read_anticorrelated_diagonal with all 16 shapes of their four optional cropping
     arguments: row d of the result is the trace at the d-th cell of the (cropped) diagonal.
   For every header with wf3, by arithmetic (lia + explicit div/mod lemmas), no enumeration. *)
From Coq Require Import ZArith List Bool Lia.
Import ListNotations.
From SZ Require Import Lib.Py Gen.Utils Gen.Version Gen.Reader Spec.Container
  Proofs.PyLemmas Proofs.Layout Proofs.Default Proofs.Enum Proofs.TwoD Proofs.Subvolume Proofs.General.
Open Scope Z_scope.

(* ---------------- arithmetic ---------------- *)
(* (i, x) from the trace ordinal i * n + x *)
Lemma ord_div i x n : 0 <= x < n -> (i * n + x) / n = i.
Proof. intro Hx. symmetry. apply (Z.div_unique_pos (i * n + x) n i x); lia. Qed.
Lemma ord_mod i x n : 0 <= x < n -> (i * n + x) mod n = x.
Proof. intro Hx. symmetry. apply (Z.mod_unique_pos (i * n + x) n i x); lia. Qed.
Lemma ord_range i x m n : 0 <= i < m -> 0 <= x < n -> 0 <= i * n + x < m * n.
Proof.
  intros Hi Hx. assert (0 <= i * n) by (apply mul_nonneg; lia).
  assert ((i + 1) * n <= m * n) by (apply Z.mul_le_mono_nonneg_r; lia). lia.
Qed.

(* ceiling block of a block-aligned bound *)
Lemma bhi_aligned bs q : 0 < bs -> (bs * q + bs - 1) / bs = q.
Proof. intro Hb. symmetry. apply (Z.div_unique_pos (bs * q + bs - 1) bs q (bs - 1)); lia. Qed.
Lemma bhi_aligned1 bs q : 0 < bs -> (bs * q + bs + bs - 1) / bs = q + 1.
Proof. intro Hb. symmetry. apply (Z.div_unique_pos (bs * q + bs + bs - 1) bs (q + 1) (bs - 1)); lia. Qed.

(* ---------------- get_trace, general layout ---------------- *)
(* the reads of one trace window [a, b) of the trace at grid position (i, x):
   default layout: ONE read covering the blocks zb0 .. zb1-1 of the 4x4 column (they are contiguous on disk);
   general layout: one 4096-byte read per block (i / bs0, x / bs1, bz), bz = zb0 .. zb1-1;
   zb0 = a / bs2, zb1 = ceil(b / bs2) *)
Definition trace_blocks (H : hdr) (i x a b : Z) : list (Z * Z) :=
  map (fun bz => (4096 * blk_no H (i / s_bs0 H) (x / s_bs1 H) bz, 4096))
      (zrange (a / s_bs2 H) ((b + s_bs2 H - 1) / s_bs2 H)).

Definition trace_reads (H : hdr) (i x a b : Z) : list (Z * Z) :=
  if (s_bs0 H =? 4) && (s_bs1 H =? 4)
  then [(s_ub3 H * unit_index3 H (i / 4) (x / 4) ((s_bs2 H / 4) * (a / s_bs2 H)),
         4096 * ((b + s_bs2 H - 1) / s_bs2 H - a / s_bs2 H))]
  else trace_blocks H i x a b.

Section TRACEG.
Variable H : hdr.
Variable mask_nth : Z -> outcome Z.
Hypothesis W : wf3 H = true.
Hypothesis G : general_layout H.
Let F := wf3_facts H W.

Lemma gt3_body_general t a b :
  0 <= t < s_nil H * s_nxl H -> 0 <= a < b -> b <= s_ns H ->
  exists v, gt3_body H t a b = Return v /\ av_shape v = [b - a] /\
    (forall z, 0 <= z < b - a -> av_cell v [z] = spec_cell3 H (t / s_nxl H) (t mod s_nxl H) (a + z)) /\
    av_reads v = trace_blocks H (t / s_nxl H) (t mod s_nxl H) a b.
Proof.
  intros Ht Ha Hb. unfold gt3_body, rd_read_containing_chunk.
  rewrite (r_nil H F), (r_nxl H F), (r_ns H F), (r_bs0 H F), (r_bs1 H F), (r_bs2 H F), (r_fl_bs2 H F).
  replace ((0 <=? t) && (t <? s_nil H * s_nxl H)) with true by lia. cbn [negb]. cbv iota.
  replace ((0 <=? a) && (a <? b) && (b <=? s_ns H)) with true by lia. cbn [negb]. cbv iota.
  rewrite !mul_mod_0. change (0 =? 0) with true. cbn [negb]. cbv iota.
  pose proof (f_nil H F) as NIL. pose proof (f_nxl H F) as NXL. pose proof (f_ns H F) as NS.
  pose proof (f_bs0 H F) as B0. pose proof (f_bs1 H F) as B1. pose proof (f_bs2 H F) as B2.
  destruct (f_PI H F) as (PI1 & _ & _ & _). destruct (f_PX H F) as (PX1 & _ & _ & _).
  destruct (f_PZ H F) as (PZ1 & _ & _ & _).
  destruct (P_nb3 H W) as (PIe & PXe & PZe).
  assert (Til : 0 <= t / s_nxl H < s_nil H).
  { split; [apply Z.div_pos; lia | apply Z.div_lt_upper_bound; lia]. }
  pose proof (Z.mod_pos_bound t (s_nxl H) ltac:(lia)) as Txl.
  set (il := t / s_nxl H) in *. set (xl := t mod s_nxl H) in *.
  pose proof (fl_m il (s_bs0 H) ltac:(lia)) as Fil. pose proof (fl_m xl (s_bs1 H) ltac:(lia)) as Fxl.
  pose proof (Z.div_mod il (s_bs0 H) ltac:(lia)) as Dil. pose proof (Z.div_mod xl (s_bs1 H) ltac:(lia)) as Dxl.
  pose proof (Z.mod_pos_bound il (s_bs0 H) ltac:(lia)) as Mil. pose proof (Z.mod_pos_bound xl (s_bs1 H) ltac:(lia)) as Mxl.
  pose proof (fl_m a (s_bs2 H) ltac:(lia)) as Fa. pose proof (cdiv_bounds b (s_bs2 H) ltac:(lia)) as Cb.
  assert (Ib0 : 0 <= il / s_bs0 H) by (apply Z.div_pos; lia).
  assert (Xb0 : 0 <= xl / s_bs1 H) by (apply Z.div_pos; lia).
  assert (Zb0 : 0 <= a / s_bs2 H) by (apply Z.div_pos; lia).
  assert (PIle : s_bs0 H * (il / s_bs0 H) + s_bs0 H <= s_PI H).
  { rewrite PIe. replace (s_bs0 H * (il / s_bs0 H) + s_bs0 H) with (s_bs0 H * (il / s_bs0 H + 1)) by ring.
    apply mul_le_l; [lia|]. assert (il / s_bs0 H < nbi3 H); [|lia]. apply Z.div_lt_upper_bound; lia. }
  assert (PXle : s_bs1 H * (xl / s_bs1 H) + s_bs1 H <= s_PX H).
  { rewrite PXe. replace (s_bs1 H * (xl / s_bs1 H) + s_bs1 H) with (s_bs1 H * (xl / s_bs1 H + 1)) by ring.
    apply mul_le_l; [lia|]. assert (xl / s_bs1 H < nbx3 H); [|lia]. apply Z.div_lt_upper_bound; lia. }
  assert (PZle : s_bs2 H * ((b + s_bs2 H - 1) / s_bs2 H) <= s_PZ H).
  { unfold s_PZ, pad_to. apply mul_le_l; [lia|]. apply Z.div_le_mono; lia. }
  set (ib := il / s_bs0 H) in *. set (xb := xl / s_bs1 H) in *.
  set (zb0 := a / s_bs2 H) in *. set (zb1 := (b + s_bs2 H - 1) / s_bs2 H) in *.
  destruct (General.subvolume_gen H W G true false (s_bs0 H * ib) (s_bs0 H * ib + s_bs0 H)
              (s_bs1 H * xb) (s_bs1 H * xb + s_bs1 H) (s_bs2 H * zb0) (s_bs2 H * zb1))
    as (r & Er & Sr & Cr & Rr); try lia.
  rewrite Er. cbn [bind]. unfold a_slice. rewrite Sr.
  replace (s_bs0 H * ib + s_bs0 H - s_bs0 H * ib) with (s_bs0 H) in * by ring.
  replace (s_bs1 H * xb + s_bs1 H - s_bs1 H * xb) with (s_bs1 H) in * by ring.
  cbn [subs_ok slice_shape].
  match goal with |- context [if negb ?c then _ else _] => replace c with true by lia end.
  cbn [negb]. cbv iota.
  rewrite !norm_bound_in by lia.
  replace (Z.max 0 (b - s_bs2 H * zb0 - (a - s_bs2 H * zb0))) with (b - a) by lia.
  eexists. split; [reflexivity|]. cbn [av_shape av_cell av_reads]. split; [reflexivity|]. split.
  - intros z Hz. rewrite in_shape1 by lia. cbn [slice_index].
    replace (il mod s_bs0 H <? 0) with false by lia. replace (xl mod s_bs1 H <? 0) with false by lia.
    rewrite !norm_bound_in by lia. rewrite Cr by lia. f_equal; lia.
  - rewrite Rr. unfold box_reads, trace_blocks, blo, bhi.
    rewrite !mul_div_l by lia. rewrite !bhi_aligned1 by lia. rewrite bhi_aligned by lia.
    rewrite !zrange_single. cbn [flat_map]. rewrite !app_nil_r.
    fold ib xb zb0 zb1. reflexivity.
Qed.

(* get_trace(index, min_sample_id, max_sample_id, override_unstructured_mapping): structured file, or override *)
Lemma get_trace_general t lo hi ov :
  ov = true \/ rd_tracecount H = s_nil H * s_nxl H ->
  0 <= t < s_nil H * s_nxl H -> 0 <= win_lo lo < win_hi H hi -> win_hi H hi <= s_ns H ->
  exists v, rd_get_trace mask_nth H t lo hi ov = Return v /\ av_shape v = [win_hi H hi - win_lo lo] /\
    (forall z, 0 <= z < win_hi H hi - win_lo lo ->
       av_cell v [z] = spec_cell3 H (t / s_nxl H) (t mod s_nxl H) (win_lo lo + z)) /\
    av_reads v = trace_blocks H (t / s_nxl H) (t mod s_nxl H) (win_lo lo) (win_hi H hi).
Proof. intros S Ht Hw Hw1. rewrite (get_trace_3d_unfold H mask_nth W t lo hi ov S). apply gt3_body_general; assumption. Qed.
End TRACEG.

(* ---------------- get_trace, every 3D layout, addressed by grid position ---------------- *)
Lemma default_layout_dec H : default_layout H \/ general_layout H.
Proof.
  unfold general_layout, default_layout.
  destruct (Z.eq_dec (s_bs0 H) 4) as [A|A]; [|right; intros [? ?]; contradiction].
  destruct (Z.eq_dec (s_bs1 H) 4) as [B|B]; [left; split; assumption | right; intros [? ?]; contradiction].
Qed.

Section TRACE_ANY.
Variable H : hdr.
Variable mask_nth : Z -> outcome Z.
Hypothesis W : wf3 H = true.
Let F := wf3_facts H W.

Lemma trace_reads_default : default_layout H -> forall i x a b,
  trace_reads H i x a b = [(s_ub3 H * unit_index3 H (i / 4) (x / 4) ((s_bs2 H / 4) * (a / s_bs2 H)),
                            4096 * ((b + s_bs2 H - 1) / s_bs2 H - a / s_bs2 H))].
Proof. intros [D0 D1] i x a b. unfold trace_reads. rewrite D0, D1. reflexivity. Qed.
Lemma trace_reads_general : general_layout H -> forall i x a b, trace_reads H i x a b = trace_blocks H i x a b.
Proof. intros G i x a b. unfold trace_reads. rewrite (not_default_test H G). reflexivity. Qed.

(* the trace at inline ordinal i, crossline ordinal x is trace number i * n_xl + x *)
Lemma get_trace_at i x lo hi ov :
  ov = true \/ rd_tracecount H = s_nil H * s_nxl H ->
  0 <= i < s_nil H -> 0 <= x < s_nxl H -> 0 <= win_lo lo < win_hi H hi -> win_hi H hi <= s_ns H ->
  exists v, rd_get_trace mask_nth H (i * s_nxl H + x) lo hi ov = Return v /\
    av_shape v = [win_hi H hi - win_lo lo] /\
    (forall z, 0 <= z < win_hi H hi - win_lo lo -> av_cell v [z] = spec_cell3 H i x (win_lo lo + z)) /\
    av_reads v = trace_reads H i x (win_lo lo) (win_hi H hi).
Proof.
  intros S Hi Hx Hw Hw1.
  pose proof (ord_range i x (s_nil H) (s_nxl H) Hi Hx) as Ht.
  pose proof (ord_div i x (s_nxl H) Hx) as Ed. pose proof (ord_mod i x (s_nxl H) Hx) as Em.
  destruct (default_layout_dec H) as [D|G].
  - destruct (get_trace_default H mask_nth W D _ lo hi ov S Ht Hw Hw1) as (v & Ev & Sv & Cv & Rv).
    rewrite Ed, Em in *. exists v. rewrite trace_reads_default by exact D. repeat split; assumption.
  - destruct (get_trace_general H mask_nth W G _ lo hi ov S Ht Hw Hw1) as (v & Ev & Sv & Cv & Rv).
    rewrite Ed, Em in *. exists v. rewrite trace_reads_general by exact G. repeat split; assumption.
Qed.
End TRACE_ANY.

(* ---------------- the diagonals of the n_il x n_xl grid ---------------- *)
(* the d-th cell of correlated diagonal cd (inline - crossline = cd) and of anticorrelated diagonal ad
   (inline + crossline = ad), as the reader enumerates them *)
Definition cd_il (cd d : Z) : Z := if cd >=? 0 then d + cd else d.
Definition cd_xl (cd d : Z) : Z := if cd >=? 0 then d else d - cd.
Definition ad_il (n_xl ad d : Z) : Z := if ad <? n_xl then d else ad - n_xl + 1 + d.
Definition ad_xl (n_xl ad d : Z) : Z := if ad <? n_xl then ad - d else n_xl - d - 1.

Lemma cd_on_diagonal cd d : cd_il cd d - cd_xl cd d = cd.
Proof. unfold cd_il, cd_xl. destruct (cd >=? 0); lia. Qed.
Lemma ad_on_diagonal n_xl ad d : ad_il n_xl ad d + ad_xl n_xl ad d = ad.
Proof. unfold ad_il, ad_xl. destruct (ad <? n_xl); lia. Qed.

(* the generated length functions count exactly the cells of the diagonal that lie inside the grid *)
Lemma cd_length_exact cd n_il n_xl d :
  0 <= d < get_correlated_diagonal_length cd n_il n_xl <->
  0 <= d /\ 0 <= cd_il cd d < n_il /\ 0 <= cd_xl cd d < n_xl.
Proof.
  unfold get_correlated_diagonal_length, cd_il, cd_xl.
  destruct (n_xl >? n_il) eqn:E1; [apply Z.gtb_lt in E1 | rewrite Z.gtb_ltb in E1; apply Z.ltb_ge in E1].
  - destruct (cd >=? 0) eqn:E2; [apply Z.geb_le in E2; lia | rewrite Z.geb_leb in E2; apply Z.leb_gt in E2].
    destruct (Z.abs cd <=? n_xl - n_il) eqn:E3; [apply Z.leb_le in E3 | apply Z.leb_gt in E3]; lia.
  - destruct (n_xl <? n_il) eqn:E4; [apply Z.ltb_lt in E4 | apply Z.ltb_ge in E4].
    + destruct (cd <=? 0) eqn:E5; [apply Z.leb_le in E5 | apply Z.leb_gt in E5].
      * destruct (cd >=? 0) eqn:E2; [apply Z.geb_le in E2 | rewrite Z.geb_leb in E2; apply Z.leb_gt in E2]; lia.
      * replace (cd >=? 0) with true by lia.
        destruct (Z.abs cd <=? n_il - n_xl) eqn:E3; [apply Z.leb_le in E3 | apply Z.leb_gt in E3]; lia.
    + destruct (cd >=? 0) eqn:E2; [apply Z.geb_le in E2 | rewrite Z.geb_leb in E2; apply Z.leb_gt in E2]; lia.
Qed.

Lemma ad_length_exact ad n_il n_xl d :
  0 <= d < get_anticorrelated_diagonal_length ad n_il n_xl <->
  0 <= d /\ 0 <= ad_il n_xl ad d < n_il /\ 0 <= ad_xl n_xl ad d < n_xl.
Proof.
  unfold get_anticorrelated_diagonal_length, ad_il, ad_xl.
  destruct (ad <? Z.min n_il n_xl) eqn:E1; [apply Z.ltb_lt in E1 | apply Z.ltb_ge in E1].
  - replace (ad <? n_xl) with true by lia. lia.
  - destruct ((Z.min n_il n_xl <=? ad) && (ad <? Z.max n_il n_xl)) eqn:E2.
    + apply andb_true_iff in E2. destruct E2 as [E2 E3]. apply Z.leb_le in E2. apply Z.ltb_lt in E3.
      destruct (ad <? n_xl) eqn:E4; [apply Z.ltb_lt in E4 | apply Z.ltb_ge in E4]; lia.
    + apply andb_false_iff in E2.
      assert (E3 : Z.max n_il n_xl <= ad).
      { destruct E2 as [E2|E2]; [apply Z.leb_gt in E2; lia | apply Z.ltb_ge in E2; exact E2]. }
      replace (ad <? n_xl) with false by lia. lia.
Qed.

(* ... and every grid cell of the diagonal is enumerated, at exactly one d *)
Lemma cd_complete cd n_il n_xl i x : 0 <= i < n_il -> 0 <= x < n_xl -> i - x = cd ->
  exists d, 0 <= d < get_correlated_diagonal_length cd n_il n_xl /\ cd_il cd d = i /\ cd_xl cd d = x.
Proof.
  intros Hi Hx E. exists (if cd >=? 0 then x else i).
  assert (K : cd_il cd (if cd >=? 0 then x else i) = i /\ cd_xl cd (if cd >=? 0 then x else i) = x).
  { unfold cd_il, cd_xl. destruct (cd >=? 0); lia. }
  destruct K as [K1 K2]. split; [|split; assumption].
  apply cd_length_exact. rewrite K1, K2. destruct (cd >=? 0); lia.
Qed.
Lemma ad_complete ad n_il n_xl i x : 0 <= i < n_il -> 0 <= x < n_xl -> i + x = ad ->
  exists d, 0 <= d < get_anticorrelated_diagonal_length ad n_il n_xl /\ ad_il n_xl ad d = i /\ ad_xl n_xl ad d = x.
Proof.
  intros Hi Hx E. exists (if ad <? n_xl then i else n_xl - 1 - x).
  assert (K : ad_il n_xl ad (if ad <? n_xl then i else n_xl - 1 - x) = i /\
              ad_xl n_xl ad (if ad <? n_xl then i else n_xl - 1 - x) = x).
  { unfold ad_il, ad_xl. destruct (ad <? n_xl); lia. }
  destruct K as [K1 K2]. split; [|split; assumption].
  apply ad_length_exact. rewrite K1, K2. destruct (ad <? n_xl) eqn:E1; [apply Z.ltb_lt in E1 | apply Z.ltb_ge in E1]; lia.
Qed.
Lemma cd_inj cd d d' : cd_il cd d = cd_il cd d' -> d = d'.
Proof. unfold cd_il. destruct (cd >=? 0); lia. Qed.
Lemma ad_inj n_xl ad d d' : ad_il n_xl ad d = ad_il n_xl ad d' -> d = d'.
Proof. unfold ad_il. destruct (ad <? n_xl); lia. Qed.

(* a diagonal inside the documented range has at least one cell *)
Lemma cd_length_pos cd n_il n_xl : 1 <= n_il -> 1 <= n_xl ->
  - n_xl < cd < n_il -> 0 < get_correlated_diagonal_length cd n_il n_xl.
Proof.
  intros N1 N2 R. assert (K : 0 <= 0 < get_correlated_diagonal_length cd n_il n_xl); [|lia].
  apply cd_length_exact. unfold cd_il, cd_xl.
  destruct (cd >=? 0) eqn:E2; [apply Z.geb_le in E2 | rewrite Z.geb_leb in E2; apply Z.leb_gt in E2]; lia.
Qed.
Lemma ad_length_pos ad n_il n_xl : 1 <= n_il -> 1 <= n_xl ->
  0 <= ad < n_il + n_xl - 1 -> 0 < get_anticorrelated_diagonal_length ad n_il n_xl.
Proof.
  intros N1 N2 R. assert (K : 0 <= 0 < get_anticorrelated_diagonal_length ad n_il n_xl); [|lia].
  apply ad_length_exact. unfold ad_il, ad_xl.
  destruct (ad <? n_xl) eqn:E1; [apply Z.ltb_lt in E1 | apply Z.ltb_ge in E1]; lia.
Qed.

(* ---------------- the loop both diagonal readers run ---------------- *)
(* out = np.zeros((n, w)); for d in range(m0, n + m0): out[d - m0, :] = tr(d) *)
Definition diag_loop (tr : Z -> outcome arrv) (m0 n w : Z) : outcome arrv :=
  bind (flat_mapM (fun d => bind (tr d) (fun r => Return [([SIdx (d - m0); SFull], r)])) (zrange m0 (n + m0)))
       (fun fs => bind (a_zeros_fill [n; w] fs) (fun z => Return z)).

Definition out_get (o : outcome arrv) : arrv :=
  match o with Return v => v | Raise _ => {| av_shape := []; av_cell := fun _ => PBad; av_reads := [] |} end.

Lemma flat_map_flat_map_single {A B C} (h : B -> list C) (k : A -> B) l :
  flat_map h (flat_map (fun d => [k d]) l) = flat_map (fun d => h (k d)) l.
Proof. induction l as [|a l IH]; cbn [flat_map app]; [reflexivity|]. rewrite IH. reflexivity. Qed.

Lemma diag_fills tr m0 n :
  (forall d, m0 <= d < m0 + n -> exists v, tr d = Return v) ->
  flat_mapM (fun d => bind (tr d) (fun r => Return [([SIdx (d - m0); SFull], r)])) (zrange m0 (n + m0))
  = Return (flat_map (fun d => [([SIdx (d - m0); SFull], out_get (tr d))]) (zrange m0 (n + m0))).
Proof.
  intro HT. apply flat_mapM_Return. intros d Hd. apply in_zrange in Hd.
  destruct (HT d ltac:(lia)) as (v & Ev). rewrite Ev. reflexivity.
Qed.

Lemma diag_loop_ok tr m0 n w (cellf : Z -> Z -> prov) (readsf : Z -> list (Z * Z)) :
  (forall d, m0 <= d < m0 + n -> exists v, tr d = Return v /\ av_shape v = [w] /\
     (forall z, 0 <= z < w -> av_cell v [z] = cellf d z) /\ av_reads v = readsf d) ->
  exists v, diag_loop tr m0 n w = Return v /\ av_shape v = [n; w] /\
    (forall d z, 0 <= d < n -> 0 <= z < w -> av_cell v [d; z] = cellf (m0 + d) z) /\
    av_reads v = flat_map readsf (zrange m0 (m0 + n)).
Proof.
  intro HT. unfold diag_loop. rewrite diag_fills.
  2:{ intros d Hd. destruct (HT d Hd) as (v & Ev & _). exists v. exact Ev. }
  cbn [bind]. replace (n + m0) with (m0 + n) by ring.
  set (fills := flat_map (fun d => [([SIdx (d - m0); SFull], out_get (tr d))]) (zrange m0 (m0 + n))).
  unfold a_zeros_fill.
  assert (OK : forallb (fill_ok [n; w]) fills = true).
  { unfold fills. apply (forallb_flat_map_single (fill_ok [n; w]) (fun d => ([SIdx (d - m0); SFull], out_get (tr d)))).
    intros d Hd. apply in_zrange in Hd. destruct (HT d Hd) as (v & Ev & Sv & _). rewrite Ev. cbn [out_get].
    unfold fill_ok. cbn [fst snd subs_ok slice_shape]. rewrite Sv.
    replace ((- n <=? d - m0) && (d - m0 <? n)) with true by lia. rewrite list_eqb_refl. reflexivity. }
  rewrite OK. cbn [negb bind]. cbv iota. cbn [bind].
  eexists. split; [reflexivity|]. cbn [av_shape av_cell av_reads]. split; [reflexivity|]. split.
  - intros d z Hd Hz. rewrite in_shape2 by lia. unfold fill_cell.
    destruct (HT (m0 + d) ltac:(lia)) as (v & Ev & Sv & Cv & Rv).
    rewrite (fill_lookup_unique [n; w] fills [d; z] [SIdx (m0 + d - m0); SFull] v [z]).
    + rewrite Sv. cbn [length Nat.eqb]. cbv iota. apply Cv. lia.
    + unfold fills. apply in_flat_map. exists (m0 + d). split; [apply in_zrange; lia|]. rewrite Ev. left. reflexivity.
    + cbn [fill_hit option_map]. replace (m0 + d - m0 <? 0) with false by lia.
      replace (d =? m0 + d - m0) with true by lia. reflexivity.
    + intros s' v' j' Hin Hh. unfold fills in Hin. apply in_flat_map in Hin. destruct Hin as (d' & Hd' & [E|[]]).
      apply in_zrange in Hd'. injection E as <- <-. cbn [fill_hit option_map] in Hh.
      replace (d' - m0 <? 0) with false in Hh by lia.
      destruct (d =? d' - m0) eqn:Q; [|discriminate]. apply Z.eqb_eq in Q.
      assert (d' = m0 + d) by lia. subst d'. injection Hh as <-. rewrite Ev. reflexivity.
  - unfold fills. rewrite (flat_map_flat_map_single (fun f => av_reads (snd f))
                             (fun d => ([SIdx (d - m0); SFull], out_get (tr d)))).
    apply flat_map_ext_in. intros d Hd. apply in_zrange in Hd. destruct (HT d Hd) as (v & Ev & _ & _ & Rv).
    rewrite Ev. exact Rv.
Qed.

(* numpy refuses the row assignment when a trace is not as long as the row *)
Lemma diag_loop_mismatch tr m0 n w w' :
  0 < n -> w' <> w ->
  (forall d, m0 <= d < m0 + n -> exists v, tr d = Return v /\ av_shape v = [w']) ->
  diag_loop tr m0 n w = Raise ValueErr.
Proof.
  intros Hn Hw HT. unfold diag_loop. rewrite diag_fills.
  2:{ intros d Hd. destruct (HT d Hd) as (v & Ev & _). exists v. exact Ev. }
  cbn [bind]. unfold a_zeros_fill.
  replace (n + m0) with (m0 + n) by ring.
  match goal with |- context [forallb ?p ?l] => assert (OK : forallb p l = false) end.
  { unfold zrange. replace (Z.to_nat (m0 + n - m0)) with (S (Z.to_nat (n - 1))) by lia.
    cbn [zrange_nat flat_map app forallb].
    destruct (HT m0 ltac:(lia)) as (v & Ev & Sv). rewrite Ev. cbn [out_get].
    unfold fill_ok at 1. cbn [fst snd subs_ok slice_shape]. rewrite Sv.
    unfold list_eqb. cbn [length Nat.eqb combine forallb fst snd andb orb].
    replace (w =? w') with false by lia. rewrite !andb_false_r. reflexivity. }
  rewrite OK. reflexivity.
Qed.

(* ---------------- the optional cropping arguments ---------------- *)
(* min_cd_idx / max_cd_idx are used only when BOTH are given *)
Definition dg_lo (mn mx : option Z) : Z := match mn, mx with Some a, Some _ => a | _, _ => 0 end.
Definition dg_n (mn mx : option Z) (len : Z) : Z := match mn, mx with Some a, Some b => b - a | _, _ => len end.
(* the row length of the result: max - min when BOTH sample bounds are given, else n_samples *)
Definition dg_w (H : hdr) (lo hi : option Z) : Z :=
  match lo, hi with Some a, Some b => b - a | _, _ => rd_n_samples H end.

Definition crop_guard (mn mx : option Z) (len : Z) (K : outcome arrv) : outcome arrv :=
  match mn, mx with
  | Some a, Some b =>
      if negb ((0 <=? a) && (a <? len)) then Raise IndexErr else
      if negb ((0 <? b) && (b <=? len)) then Raise IndexErr else
      if negb (a <? b) then Raise IndexErr else K
  | _, _ => K
  end.
Definition smp_guard (H : hdr) (lo hi : option Z) (K : outcome arrv) : outcome arrv :=
  match lo, hi with
  | Some a, Some b => if negb ((0 <=? a) && (a <? b) && (b <=? rd_n_samples H)) then Raise IndexErr else K
  | _, _ => K
  end.

(* in-range cropping arguments *)
Definition crop_ok (mn mx : option Z) (len : Z) : Prop :=
  match mn, mx with Some a, Some b => 0 <= a < b /\ b <= len | _, _ => True end.

Lemma crop_guard_ok mn mx len K : crop_ok mn mx len -> crop_guard mn mx len K = K.
Proof.
  unfold crop_ok, crop_guard. destruct mn as [a|], mx as [b|]; try reflexivity. intro C.
  replace ((0 <=? a) && (a <? len)) with true by lia. replace ((0 <? b) && (b <=? len)) with true by lia.
  replace (a <? b) with true by lia. reflexivity.
Qed.
Lemma smp_guard_ok H lo hi K : 0 <= win_lo lo < win_hi H hi -> win_hi H hi <= rd_n_samples H -> smp_guard H lo hi K = K.
Proof.
  unfold smp_guard, win_lo, win_hi. destruct lo as [a|], hi as [b|]; try reflexivity. intros C C1.
  replace ((0 <=? a) && (a <? b) && (b <=? rd_n_samples H)) with true by lia. reflexivity.
Qed.
Lemma crop_bounds mn mx len : 0 < len -> crop_ok mn mx len ->
  0 <= dg_lo mn mx /\ 0 < dg_n mn mx len /\ dg_lo mn mx + dg_n mn mx len <= len.
Proof. unfold crop_ok, dg_lo, dg_n. destruct mn as [a|], mx as [b|]; lia. Qed.

(* the generated readers, in uniform shape: all 16 shapes of the four optional arguments at once *)
Lemma cd_unfold mask_nth H cd mn mx lo hi :
  rd_read_correlated_diagonal mask_nth H cd mn mx lo hi =
  if rd_blockshape0_v1 H =? 1 then Raise WrongDim else
  if negb ((- rd_n_xlines H <? cd) && (cd <? rd_n_ilines H)) then Raise IndexErr else
  crop_guard mn mx (get_correlated_diagonal_length cd (rd_n_ilines H) (rd_n_xlines H))
   (smp_guard H lo hi
     (if cd >=? 0
      then diag_loop (fun d => rd_get_trace mask_nth H ((d + cd) * rd_n_xlines H + d) lo hi true)
             (dg_lo mn mx) (dg_n mn mx (get_correlated_diagonal_length cd (rd_n_ilines H) (rd_n_xlines H))) (dg_w H lo hi)
      else diag_loop (fun d => rd_get_trace mask_nth H (d * rd_n_xlines H + d - cd) lo hi true)
             (dg_lo mn mx) (dg_n mn mx (get_correlated_diagonal_length cd (rd_n_ilines H) (rd_n_xlines H))) (dg_w H lo hi))).
Proof.
  unfold rd_read_correlated_diagonal, crop_guard, smp_guard, diag_loop, dg_lo, dg_n, dg_w.
  destruct mn, mx, lo, hi; reflexivity.
Qed.

Lemma ad_unfold mask_nth H ad mn mx lo hi :
  rd_read_anticorrelated_diagonal mask_nth H ad mn mx lo hi =
  if rd_blockshape0_v1 H =? 1 then Raise WrongDim else
  if negb ((0 <=? ad) && (ad <? rd_n_ilines H + rd_n_xlines H - 1)) then Raise IndexErr else
  crop_guard mn mx (get_anticorrelated_diagonal_length ad (rd_n_ilines H) (rd_n_xlines H))
   (smp_guard H lo hi
     (if ad <? rd_n_xlines H
      then diag_loop (fun d => rd_get_trace mask_nth H (ad + d * (rd_n_xlines H - 1)) lo hi true)
             (dg_lo mn mx) (dg_n mn mx (get_anticorrelated_diagonal_length ad (rd_n_ilines H) (rd_n_xlines H))) (dg_w H lo hi)
      else diag_loop (fun d => rd_get_trace mask_nth H ((ad - rd_n_xlines H + 1 + d) * rd_n_xlines H + (rd_n_xlines H - d - 1)) lo hi true)
             (dg_lo mn mx) (dg_n mn mx (get_anticorrelated_diagonal_length ad (rd_n_ilines H) (rd_n_xlines H))) (dg_w H lo hi))).
Proof.
  unfold rd_read_anticorrelated_diagonal, crop_guard, smp_guard, diag_loop, dg_lo, dg_n, dg_w.
  destruct mn, mx, lo, hi; reflexivity.
Qed.

(* ---------------- read_correlated_diagonal / read_anticorrelated_diagonal, every 3D layout ---------------- *)
Section DIAG.
Variable H : hdr.
Variable mask_nth : Z -> outcome Z.
Hypothesis W : wf3 H = true.
Let F := wf3_facts H W.

Local Notation cd_len cd := (get_correlated_diagonal_length cd (s_nil H) (s_nxl H)).
Local Notation ad_len ad := (get_anticorrelated_diagonal_length ad (s_nil H) (s_nxl H)).

(* the trace of the d-th cell of a diagonal, as get_trace is called by the diagonal readers (override = True) *)
Lemma cd_trace cd d lo hi :
  0 <= d < cd_len cd -> 0 <= win_lo lo < win_hi H hi -> win_hi H hi <= s_ns H ->
  exists v, (if cd >=? 0 then rd_get_trace mask_nth H ((d + cd) * s_nxl H + d) lo hi true
             else rd_get_trace mask_nth H (d * s_nxl H + d - cd) lo hi true) = Return v /\
    av_shape v = [win_hi H hi - win_lo lo] /\
    (forall z, 0 <= z < win_hi H hi - win_lo lo ->
       av_cell v [z] = spec_cell3 H (cd_il cd d) (cd_xl cd d) (win_lo lo + z)) /\
    av_reads v = trace_reads H (cd_il cd d) (cd_xl cd d) (win_lo lo) (win_hi H hi).
Proof.
  intros Hd Hw Hw1. apply cd_length_exact in Hd. destruct Hd as (Hd & Hi & Hx).
  pose proof (get_trace_at H mask_nth W (cd_il cd d) (cd_xl cd d) lo hi true (or_introl eq_refl) Hi Hx Hw Hw1) as T.
  unfold cd_il, cd_xl in *. destruct (cd >=? 0).
  - exact T.
  - replace (d * s_nxl H + d - cd) with (d * s_nxl H + (d - cd)) by ring. exact T.
Qed.

Lemma ad_trace ad d lo hi :
  0 <= d < ad_len ad -> 0 <= win_lo lo < win_hi H hi -> win_hi H hi <= s_ns H ->
  exists v, (if ad <? s_nxl H then rd_get_trace mask_nth H (ad + d * (s_nxl H - 1)) lo hi true
             else rd_get_trace mask_nth H ((ad - s_nxl H + 1 + d) * s_nxl H + (s_nxl H - d - 1)) lo hi true) = Return v /\
    av_shape v = [win_hi H hi - win_lo lo] /\
    (forall z, 0 <= z < win_hi H hi - win_lo lo ->
       av_cell v [z] = spec_cell3 H (ad_il (s_nxl H) ad d) (ad_xl (s_nxl H) ad d) (win_lo lo + z)) /\
    av_reads v = trace_reads H (ad_il (s_nxl H) ad d) (ad_xl (s_nxl H) ad d) (win_lo lo) (win_hi H hi).
Proof.
  intros Hd Hw Hw1. apply ad_length_exact in Hd. destruct Hd as (Hd & Hi & Hx).
  pose proof (get_trace_at H mask_nth W (ad_il (s_nxl H) ad d) (ad_xl (s_nxl H) ad d) lo hi true
                (or_introl eq_refl) Hi Hx Hw Hw1) as T.
  unfold ad_il, ad_xl in *. destruct (ad <? s_nxl H).
  - replace (ad + d * (s_nxl H - 1)) with (d * s_nxl H + (ad - d)) by ring. exact T.
  - exact T.
Qed.

(* read_correlated_diagonal(cd, min_cd_idx, max_cd_idx, min_sample_idx, max_sample_idx): every shape of the four
   optional arguments.  Row d of the result is the window [win_lo lo, win_hi hi) of the trace at cell dg_lo + d
   of the diagonal; the reads are those of the traces, in order. *)
Lemma read_correlated_diagonal_ok cd mn mx lo hi :
  - s_nxl H < cd < s_nil H -> crop_ok mn mx (cd_len cd) ->
  0 <= win_lo lo < win_hi H hi -> win_hi H hi <= s_ns H -> dg_w H lo hi = win_hi H hi - win_lo lo ->
  exists v, rd_read_correlated_diagonal mask_nth H cd mn mx lo hi = Return v /\
    av_shape v = [dg_n mn mx (cd_len cd); win_hi H hi - win_lo lo] /\
    (forall d z, 0 <= d < dg_n mn mx (cd_len cd) -> 0 <= z < win_hi H hi - win_lo lo ->
       av_cell v [d; z] = spec_cell3 H (cd_il cd (dg_lo mn mx + d)) (cd_xl cd (dg_lo mn mx + d)) (win_lo lo + z)) /\
    av_reads v = flat_map (fun d => trace_reads H (cd_il cd d) (cd_xl cd d) (win_lo lo) (win_hi H hi))
                          (zrange (dg_lo mn mx) (dg_lo mn mx + dg_n mn mx (cd_len cd))).
Proof.
  intros R C Hw Hw1 Ew. rewrite cd_unfold.
  rewrite (r_not2d H F), (r_nil H F), (r_nxl H F). cbv iota.
  replace ((- s_nxl H <? cd) && (cd <? s_nil H)) with true by lia. cbn [negb]. cbv iota.
  rewrite (crop_guard_ok _ _ _ _ C). rewrite smp_guard_ok by (rewrite ?(r_ns H F); assumption). rewrite Ew.
  pose proof (cd_length_pos cd (s_nil H) (s_nxl H) (f_nil H F) (f_nxl H F) R) as LP.
  destruct (crop_bounds mn mx _ LP C) as (B0 & B1 & B2).
  pose proof (fun d (Hd : 0 <= d < cd_len cd) => cd_trace cd d lo hi Hd Hw Hw1) as T.
  destruct (cd >=? 0);
    apply (diag_loop_ok _ _ _ _ (fun d z => spec_cell3 H (cd_il cd d) (cd_xl cd d) (win_lo lo + z))
             (fun d => trace_reads H (cd_il cd d) (cd_xl cd d) (win_lo lo) (win_hi H hi)));
    intros d Hd; cbv beta; apply T; lia.
Qed.

Lemma read_anticorrelated_diagonal_ok ad mn mx lo hi :
  0 <= ad < s_nil H + s_nxl H - 1 -> crop_ok mn mx (ad_len ad) ->
  0 <= win_lo lo < win_hi H hi -> win_hi H hi <= s_ns H -> dg_w H lo hi = win_hi H hi - win_lo lo ->
  exists v, rd_read_anticorrelated_diagonal mask_nth H ad mn mx lo hi = Return v /\
    av_shape v = [dg_n mn mx (ad_len ad); win_hi H hi - win_lo lo] /\
    (forall d z, 0 <= d < dg_n mn mx (ad_len ad) -> 0 <= z < win_hi H hi - win_lo lo ->
       av_cell v [d; z] = spec_cell3 H (ad_il (s_nxl H) ad (dg_lo mn mx + d)) (ad_xl (s_nxl H) ad (dg_lo mn mx + d))
                                     (win_lo lo + z)) /\
    av_reads v = flat_map (fun d => trace_reads H (ad_il (s_nxl H) ad d) (ad_xl (s_nxl H) ad d) (win_lo lo) (win_hi H hi))
                          (zrange (dg_lo mn mx) (dg_lo mn mx + dg_n mn mx (ad_len ad))).
Proof.
  intros R C Hw Hw1 Ew. rewrite ad_unfold.
  rewrite (r_not2d H F), (r_nil H F), (r_nxl H F). cbv iota.
  replace ((0 <=? ad) && (ad <? s_nil H + s_nxl H - 1)) with true by lia. cbn [negb]. cbv iota.
  rewrite (crop_guard_ok _ _ _ _ C). rewrite smp_guard_ok by (rewrite ?(r_ns H F); assumption). rewrite Ew.
  pose proof (ad_length_pos ad (s_nil H) (s_nxl H) (f_nil H F) (f_nxl H F) R) as LP.
  destruct (crop_bounds mn mx _ LP C) as (B0 & B1 & B2).
  pose proof (fun d (Hd : 0 <= d < ad_len ad) => ad_trace ad d lo hi Hd Hw Hw1) as T.
  destruct (ad <? s_nxl H);
    apply (diag_loop_ok _ _ _ _ (fun d z => spec_cell3 H (ad_il (s_nxl H) ad d) (ad_xl (s_nxl H) ad d) (win_lo lo + z))
             (fun d => trace_reads H (ad_il (s_nxl H) ad d) (ad_xl (s_nxl H) ad d) (win_lo lo) (win_hi H hi)));
    intros d Hd; cbv beta; apply T; lia.
Qed.

(* when exactly one sample bound is given and it is not the trivial one, the rows (n_samples long) cannot take
   the shorter traces: numpy raises ValueError (could not broadcast) *)
Lemma read_correlated_diagonal_one_sided cd mn mx lo hi :
  - s_nxl H < cd < s_nil H -> crop_ok mn mx (cd_len cd) ->
  0 <= win_lo lo < win_hi H hi -> win_hi H hi <= s_ns H -> dg_w H lo hi <> win_hi H hi - win_lo lo ->
  rd_read_correlated_diagonal mask_nth H cd mn mx lo hi = Raise ValueErr.
Proof.
  intros R C Hw Hw1 Ew. rewrite cd_unfold.
  rewrite (r_not2d H F), (r_nil H F), (r_nxl H F). cbv iota.
  replace ((- s_nxl H <? cd) && (cd <? s_nil H)) with true by lia. cbn [negb]. cbv iota.
  rewrite (crop_guard_ok _ _ _ _ C). rewrite smp_guard_ok by (rewrite ?(r_ns H F); assumption).
  pose proof (cd_length_pos cd (s_nil H) (s_nxl H) (f_nil H F) (f_nxl H F) R) as LP.
  destruct (crop_bounds mn mx _ LP C) as (B0 & B1 & B2).
  pose proof (fun d (Hd : 0 <= d < cd_len cd) => cd_trace cd d lo hi Hd Hw Hw1) as T.
  destruct (cd >=? 0); apply (diag_loop_mismatch _ _ _ _ (win_hi H hi - win_lo lo)); try lia;
    intros d Hd; cbv beta; destruct (T d ltac:(lia)) as (v & Ev & Sv & _); exists v; split; assumption.
Qed.

Lemma read_anticorrelated_diagonal_one_sided ad mn mx lo hi :
  0 <= ad < s_nil H + s_nxl H - 1 -> crop_ok mn mx (ad_len ad) ->
  0 <= win_lo lo < win_hi H hi -> win_hi H hi <= s_ns H -> dg_w H lo hi <> win_hi H hi - win_lo lo ->
  rd_read_anticorrelated_diagonal mask_nth H ad mn mx lo hi = Raise ValueErr.
Proof.
  intros R C Hw Hw1 Ew. rewrite ad_unfold.
  rewrite (r_not2d H F), (r_nil H F), (r_nxl H F). cbv iota.
  replace ((0 <=? ad) && (ad <? s_nil H + s_nxl H - 1)) with true by lia. cbn [negb]. cbv iota.
  rewrite (crop_guard_ok _ _ _ _ C). rewrite smp_guard_ok by (rewrite ?(r_ns H F); assumption).
  pose proof (ad_length_pos ad (s_nil H) (s_nxl H) (f_nil H F) (f_nxl H F) R) as LP.
  destruct (crop_bounds mn mx _ LP C) as (B0 & B1 & B2).
  pose proof (fun d (Hd : 0 <= d < ad_len ad) => ad_trace ad d lo hi Hd Hw Hw1) as T.
  destruct (ad <? s_nxl H); apply (diag_loop_mismatch _ _ _ _ (win_hi H hi - win_lo lo)); try lia;
    intros d Hd; cbv beta; destruct (T d ltac:(lia)) as (v & Ev & Sv & _); exists v; split; assumption.
Qed.
End DIAG.

(* ---------------- readable special cases ---------------- *)
(* when does the row length agree with the trace window?  both or neither sample bound given, or the single given
   bound is the trivial one *)
Lemma dg_w_cases H lo hi :
  dg_w H lo hi = win_hi H hi - win_lo lo <->
  match lo, hi with
  | Some a, None => a = 0
  | None, Some b => b = rd_n_samples H
  | _, _ => True
  end.
Proof. unfold dg_w, win_hi, win_lo. destruct lo as [a|], hi as [b|]; lia. Qed.

Section DIAG_CASES.
Variable H : hdr.
Variable mask_nth : Z -> outcome Z.
Hypothesis W : wf3 H = true.
Let F := wf3_facts H W.

Local Notation cd_len cd := (get_correlated_diagonal_length cd (s_nil H) (s_nxl H)).
Local Notation ad_len ad := (get_anticorrelated_diagonal_length ad (s_nil H) (s_nxl H)).

(* no cropping arguments: the whole diagonal, whole traces *)
Lemma read_correlated_diagonal_full cd : - s_nxl H < cd < s_nil H ->
  exists v, rd_read_correlated_diagonal mask_nth H cd None None None None = Return v /\
    av_shape v = [cd_len cd; s_ns H] /\
    (forall d z, 0 <= d < cd_len cd -> 0 <= z < s_ns H ->
       av_cell v [d; z] = spec_cell3 H (cd_il cd d) (cd_xl cd d) z) /\
    av_reads v = flat_map (fun d => trace_reads H (cd_il cd d) (cd_xl cd d) 0 (s_ns H)) (zrange 0 (cd_len cd)).
Proof.
  intro R. pose proof (f_ns H F) as NS. pose proof (r_ns H F) as RNS.
  destruct (read_correlated_diagonal_ok H mask_nth W cd None None None None R I) as (v & Ev & Sv & Cv & Rv);
    cbn [win_lo win_hi dg_w dg_lo dg_n] in *; rewrite ?RNS in *; try lia.
  rewrite !Z.sub_0_r, !Z.add_0_l in *. exists v. split; [exact Ev|]. split; [exact Sv|]. split; [|exact Rv].
  intros d z Hd Hz. rewrite (Cv d z Hd Hz). reflexivity.
Qed.

Lemma read_anticorrelated_diagonal_full ad : 0 <= ad < s_nil H + s_nxl H - 1 ->
  exists v, rd_read_anticorrelated_diagonal mask_nth H ad None None None None = Return v /\
    av_shape v = [ad_len ad; s_ns H] /\
    (forall d z, 0 <= d < ad_len ad -> 0 <= z < s_ns H ->
       av_cell v [d; z] = spec_cell3 H (ad_il (s_nxl H) ad d) (ad_xl (s_nxl H) ad d) z) /\
    av_reads v = flat_map (fun d => trace_reads H (ad_il (s_nxl H) ad d) (ad_xl (s_nxl H) ad d) 0 (s_ns H))
                          (zrange 0 (ad_len ad)).
Proof.
  intro R. pose proof (f_ns H F) as NS. pose proof (r_ns H F) as RNS.
  destruct (read_anticorrelated_diagonal_ok H mask_nth W ad None None None None R I) as (v & Ev & Sv & Cv & Rv);
    cbn [win_lo win_hi dg_w dg_lo dg_n] in *; rewrite ?RNS in *; try lia.
  rewrite !Z.sub_0_r, !Z.add_0_l in *. exists v. split; [exact Ev|]. split; [exact Sv|]. split; [|exact Rv].
  intros d z Hd Hz. rewrite (Cv d z Hd Hz). reflexivity.
Qed.

(* all four cropping arguments: cells m0 .. m1-1 of the diagonal, samples z0 .. z1-1 *)
Lemma read_correlated_diagonal_cropped cd m0 m1 z0 z1 : - s_nxl H < cd < s_nil H ->
  0 <= m0 < m1 -> m1 <= cd_len cd -> 0 <= z0 < z1 -> z1 <= s_ns H ->
  exists v, rd_read_correlated_diagonal mask_nth H cd (Some m0) (Some m1) (Some z0) (Some z1) = Return v /\
    av_shape v = [m1 - m0; z1 - z0] /\
    (forall d z, 0 <= d < m1 - m0 -> 0 <= z < z1 - z0 ->
       av_cell v [d; z] = spec_cell3 H (cd_il cd (m0 + d)) (cd_xl cd (m0 + d)) (z0 + z)) /\
    av_reads v = flat_map (fun d => trace_reads H (cd_il cd d) (cd_xl cd d) z0 z1) (zrange m0 m1).
Proof.
  intros R Hm Hm1 Hz Hz1.
  destruct (read_correlated_diagonal_ok H mask_nth W cd (Some m0) (Some m1) (Some z0) (Some z1) R) as (v & Ev & Sv & Cv & Rv);
    cbn [win_lo win_hi dg_w dg_lo dg_n crop_ok] in *; try lia.
  replace (m0 + (m1 - m0)) with m1 in Rv by ring. exists v. repeat split; assumption.
Qed.

Lemma read_anticorrelated_diagonal_cropped ad m0 m1 z0 z1 : 0 <= ad < s_nil H + s_nxl H - 1 ->
  0 <= m0 < m1 -> m1 <= ad_len ad -> 0 <= z0 < z1 -> z1 <= s_ns H ->
  exists v, rd_read_anticorrelated_diagonal mask_nth H ad (Some m0) (Some m1) (Some z0) (Some z1) = Return v /\
    av_shape v = [m1 - m0; z1 - z0] /\
    (forall d z, 0 <= d < m1 - m0 -> 0 <= z < z1 - z0 ->
       av_cell v [d; z] = spec_cell3 H (ad_il (s_nxl H) ad (m0 + d)) (ad_xl (s_nxl H) ad (m0 + d)) (z0 + z)) /\
    av_reads v = flat_map (fun d => trace_reads H (ad_il (s_nxl H) ad d) (ad_xl (s_nxl H) ad d) z0 z1) (zrange m0 m1).
Proof.
  intros R Hm Hm1 Hz Hz1.
  destruct (read_anticorrelated_diagonal_ok H mask_nth W ad (Some m0) (Some m1) (Some z0) (Some z1) R) as (v & Ev & Sv & Cv & Rv);
    cbn [win_lo win_hi dg_w dg_lo dg_n crop_ok] in *; try lia.
  replace (m0 + (m1 - m0)) with m1 in Rv by ring. exists v. repeat split; assumption.
Qed.
End DIAG_CASES.

(* ---------------- definitions spelled out (for the statements in Props/C02c.v) ---------------- *)
Lemma trace_blocks_unfold H i x a b :
  trace_blocks H i x a b =
  map (fun bz => (4096 * (((i / s_bs0 H) * (s_PX H / s_bs1 H) + x / s_bs1 H) * (s_PZ H / s_bs2 H) + bz), 4096))
      (zrange (a / s_bs2 H) ((b + s_bs2 H - 1) / s_bs2 H)).
Proof. reflexivity. Qed.

Lemma trace_reads_meaning H : wf3 H = true -> forall i x a b,
  (default_layout H -> trace_reads H i x a b =
     [(s_ub3 H * unit_index3 H (i / 4) (x / 4) ((s_bs2 H / 4) * (a / s_bs2 H)),
       4096 * ((b + s_bs2 H - 1) / s_bs2 H - a / s_bs2 H))]) /\
  (general_layout H -> trace_reads H i x a b = trace_blocks H i x a b).
Proof.
  intros W i x a b. split; intro L; [apply trace_reads_default | apply trace_reads_general]; assumption.
Qed.

Lemma diag_cells_meaning cd ad n_xl d :
  cd_il cd d = (if cd >=? 0 then d + cd else d) /\ cd_xl cd d = (if cd >=? 0 then d else d - cd) /\
  ad_il n_xl ad d = (if ad <? n_xl then d else ad - n_xl + 1 + d) /\
  ad_xl n_xl ad d = (if ad <? n_xl then ad - d else n_xl - d - 1).
Proof. repeat split. Qed.

Lemma crop_meaning H mn mx lo hi len :
  dg_lo mn mx = match mn, mx with Some a, Some _ => a | _, _ => 0 end /\
  dg_n mn mx len = match mn, mx with Some a, Some b => b - a | _, _ => len end /\
  (crop_ok mn mx len <-> match mn, mx with Some a, Some b => 0 <= a < b /\ b <= len | _, _ => True end) /\
  dg_w H lo hi = match lo, hi with Some a, Some b => b - a | _, _ => rd_n_samples H end /\
  win_lo lo = match lo with Some a => a | None => 0 end /\
  win_hi H hi = match hi with Some b => b | None => rd_n_samples H end.
Proof. repeat split; intro K; exact K. Qed.

Section TRACEG_CASES.
Variable H : hdr.
Variable mask_nth : Z -> outcome Z.
Hypothesis W : wf3 H = true.
Hypothesis G : general_layout H.
Let F := wf3_facts H W.

(* get_trace(t, lo, hi) of a structured file *)
Lemma get_trace_window_general t lo hi : rd_tracecount H = s_nil H * s_nxl H ->
  0 <= t < s_nil H * s_nxl H -> 0 <= lo < hi -> hi <= s_ns H ->
  exists v, rd_get_trace mask_nth H t (Some lo) (Some hi) false = Return v /\ av_shape v = [hi - lo] /\
    (forall z, 0 <= z < hi - lo -> av_cell v [z] = spec_cell3 H (t / s_nxl H) (t mod s_nxl H) (lo + z)) /\
    av_reads v = trace_blocks H (t / s_nxl H) (t mod s_nxl H) lo hi.
Proof.
  intros S Ht Hw Hw1.
  exact (get_trace_general H mask_nth W G t (Some lo) (Some hi) false (or_intror S) Ht Hw Hw1).
Qed.

(* get_trace(t): the whole trace; every block of the trace's block column *)
Lemma get_trace_whole_general t : rd_tracecount H = s_nil H * s_nxl H -> 0 <= t < s_nil H * s_nxl H ->
  exists v, rd_get_trace mask_nth H t None None false = Return v /\ av_shape v = [s_ns H] /\
    (forall z, 0 <= z < s_ns H -> av_cell v [z] = spec_cell3 H (t / s_nxl H) (t mod s_nxl H) z) /\
    av_reads v = map (fun bz => (4096 * blk_no H (t / s_nxl H / s_bs0 H) (t mod s_nxl H / s_bs1 H) bz, 4096))
                     (zrange 0 (s_PZ H / s_bs2 H)).
Proof.
  intros S Ht. pose proof (f_ns H F) as NS. pose proof (r_ns H F) as RNS. pose proof (f_bs2 H F) as B2.
  destruct (get_trace_general H mask_nth W G t None None false (or_intror S) Ht) as (v & Ev & Sv & Cv & Rv);
    cbn [win_lo win_hi] in *; rewrite ?RNS in *; try lia.
  rewrite Z.sub_0_r in *. exists v. split; [exact Ev|]. split; [exact Sv|]. split.
  - intros z Hz. rewrite (Cv z Hz). reflexivity.
  - rewrite Rv. unfold trace_blocks. rewrite Z.div_0_l by lia.
    destruct (pad_to_spec (s_ns H) (s_bs2 H) ltac:(lia)) as (_ & _ & E). unfold s_PZ. rewrite E. reflexivity.
Qed.
End TRACEG_CASES.
