(* Proofs/Window.v -- proofs for C11 (conversion with an inline/crossline window) about Model/Window.v + Gen/Window.v *)
From Coq Require Import ZArith List Bool Lia.
Import ListNotations.
From SZ Require Import Lib.Py Gen.Utils Gen.Window Proofs.PyLemmas Model.Window.
Open Scope Z_scope.

(* ---------------------------------------------------------------- lists and ranges *)
Lemma zrange_nat_shift lo d n : zrange_nat (lo + d) n = map (fun x => x + d) (zrange_nat lo n).
Proof.
  revert lo. induction n as [|n IH]; intros lo; [reflexivity|].
  cbn [zrange_nat map]. f_equal. replace (lo + d + 1) with (lo + 1 + d) by lia. apply IH.
Qed.

Lemma zrange_shift a b : zrange a b = map (fun x => x + a) (zrange 0 (b - a)).
Proof.
  unfold zrange. replace (b - a - 0) with (b - a) by lia.
  rewrite <- (zrange_nat_shift 0 a). reflexivity.
Qed.

Lemma zrange_length lo hi : length (zrange lo hi) = Z.to_nat (hi - lo).
Proof. unfold zrange. apply zrange_nat_length. Qed.

Lemma zrange_nat_S lo n : zrange_nat lo (S n) = zrange_nat lo n ++ [lo + Z.of_nat n].
Proof.
  revert lo. induction n as [|n IH]; intros lo.
  - cbn. f_equal. lia.
  - change (zrange_nat lo (S (S n))) with (lo :: zrange_nat (lo + 1) (S n)).
    rewrite IH. cbn [zrange_nat app]. do 2 f_equal. f_equal. lia.
Qed.

Lemma zrange_snoc lo hi : lo <= hi -> zrange lo (hi + 1) = zrange lo hi ++ [hi].
Proof.
  intros H. unfold zrange. replace (Z.to_nat (hi + 1 - lo)) with (S (Z.to_nat (hi - lo))) by lia.
  rewrite zrange_nat_S. do 2 f_equal. lia.
Qed.

Lemma zrange_nat_app lo n m : zrange_nat lo (n + m) = zrange_nat lo n ++ zrange_nat (lo + Z.of_nat n) m.
Proof.
  revert lo. induction n as [|n IH]; intros lo.
  - cbn. f_equal. lia.
  - cbn [Nat.add zrange_nat app]. f_equal. rewrite IH. do 2 f_equal. lia.
Qed.

Lemma zrange_app lo mid hi : lo <= mid -> mid <= hi -> zrange lo hi = zrange lo mid ++ zrange mid hi.
Proof.
  intros H1 H2. unfold zrange.
  replace (Z.to_nat (hi - lo)) with (Z.to_nat (mid - lo) + Z.to_nat (hi - mid))%nat by lia.
  rewrite zrange_nat_app. do 2 f_equal. lia.
Qed.

Lemma combine_zrange_shift st n :
  combine (zrange 0 n) (zrange st (st + n)) = map (fun j => (j, st + j)) (zrange 0 n).
Proof.
  unfold zrange. replace (st + n - st) with (n - 0) by lia. generalize (Z.to_nat (n - 0)) as k. intros k.
  replace st with (st + 0) at 1 by lia. generalize 0 as lo. induction k as [|k IH]; intros lo; [reflexivity|].
  cbn [zrange_nat combine map]. f_equal. replace (st + lo + 1) with (st + (lo + 1)) by lia. apply IH.
Qed.

Lemma mapM_Return {A B} (f : A -> outcome B) (g : A -> B) l :
  (forall x, In x l -> f x = Return (g x)) -> mapM f l = Return (map g l).
Proof.
  induction l as [|x l IH]; intros H; [reflexivity|].
  cbn [mapM map]. rewrite (H x (or_introl eq_refl)). cbn [bind]. rewrite IH; [reflexivity|].
  intros y Hy. apply H. right. exact Hy.
Qed.

Lemma flat_map_ext_in {A B} (f g : A -> list B) l : (forall x, In x l -> f x = g x) -> flat_map f l = flat_map g l.
Proof.
  induction l as [|x l IH]; intros H; [reflexivity|]. cbn [flat_map].
  rewrite (H x (or_introl eq_refl)), IH; [reflexivity|]. intros y Hy. apply H. right. exact Hy.
Qed.

Lemma flat_map_map {A B C} (f : A -> B) (g : B -> list C) l : flat_map g (map f l) = flat_map (fun x => g (f x)) l.
Proof. induction l as [|x l IH]; [reflexivity|]. cbn [map flat_map]. rewrite IH. reflexivity. Qed.

Lemma map_flat_map {A B C} (f : A -> list B) (g : B -> C) l : map g (flat_map f l) = flat_map (fun x => map g (f x)) l.
Proof. induction l as [|x l IH]; [reflexivity|]. cbn [flat_map]. rewrite map_app, IH. reflexivity. Qed.

(* ---------------------------------------------------------------- plane sets and rows *)
(* inline (relative to the window) read into buffer row i of plane set p *)
Definition row_line (n bs0 p i : Z) : Z :=
  let ptr := w_planes_to_read n bs0 p in if i <? ptr then p * bs0 + i else p * bs0 + ptr - 1.

Lemma n_plane_sets_le n b p : 0 < b -> 0 <= n -> p < w_n_plane_sets n b -> p <= n / b /\ (n mod b = 0 -> p < n / b).
Proof.
  intros Hb Hn. unfold w_n_plane_sets, pad. destruct (n mod b =? 0) eqn:E.
  - apply Z.eqb_eq in E. intros H. split; [lia|]. intros _. exact H.
  - apply Z.eqb_neq in E. rewrite Z.mul_comm, Z.div_mul by lia. intros H. split; [lia|]. intros E'. contradiction.
Qed.

Lemma planes_to_read_range n b p : 0 < b -> 0 < n -> 0 <= p < w_n_plane_sets n b ->
  1 <= w_planes_to_read n b p <= b /\ p * b + w_planes_to_read n b p <= n /\
  (w_planes_to_read n b p < b -> p * b + w_planes_to_read n b p = n).
Proof.
  intros Hb Hn [Hp0 Hp]. destruct (n_plane_sets_le n b p Hb (Z.lt_le_incl _ _ Hn) Hp) as [Hle Hex].
  pose proof (Z.div_mod n b (ltac:(lia))) as Hdm. pose proof (Z.mod_pos_bound n b Hb) as Hm.
  assert (Hpb : p * b <= n / b * b) by (apply Z.mul_le_mono_nonneg_r; lia).
  unfold w_planes_to_read. rewrite Z.gtb_ltb. destruct (n <? (p + 1) * b) eqn:E.
  - apply Z.ltb_lt in E.
    assert (Hq : p = n / b).
    { destruct (Z.eq_dec p (n / b)) as [|Hne]; [assumption|]. exfalso.
      assert (p + 1 <= n / b) by lia.
      assert ((p + 1) * b <= n / b * b) by (apply Z.mul_le_mono_nonneg_r; lia). lia. }
    assert (Hnz : n mod b <> 0) by (intros E0; specialize (Hex E0); lia).
    subst p. split; [lia|]. split; lia.
  - apply Z.ltb_ge in E. split; [lia|]. split; lia.
Qed.

Lemma row_line_range n b p i : 0 < b -> 0 < n -> 0 <= p < w_n_plane_sets n b -> 0 <= i < b ->
  0 <= row_line n b p i < n.
Proof.
  intros Hb Hn Hp Hi. destruct (planes_to_read_range n b p Hb Hn Hp) as [H1 [H2 _]].
  assert (0 <= p * b) by (apply Z.mul_nonneg_nonneg; lia).
  unfold row_line. cbv zeta. destruct (i <? w_planes_to_read n b p) eqn:E.
  - apply Z.ltb_lt in E. lia.
  - lia.
Qed.

(* the row read is the window's row min(p*bs0+i, n-1): edge replication along the inline axis *)
Lemma row_line_min n b p i : 0 < b -> 0 < n -> 0 <= p < w_n_plane_sets n b -> 0 <= i < b ->
  row_line n b p i = Z.min (p * b + i) (n - 1).
Proof.
  intros Hb Hn Hp Hi. destruct (planes_to_read_range n b p Hb Hn Hp) as [H1 [H2 H3]].
  unfold row_line. cbv zeta. destruct (i <? w_planes_to_read n b p) eqn:E.
  - apply Z.ltb_lt in E. lia.
  - apply Z.ltb_ge in E. specialize (H3 ltac:(lia)). lia.
Qed.

(* ---------------------------------------------------------------- canonical form of io_thread_func *)
Lemma py_idx_in n k : 0 <= k < n -> py_idx n k = Return k.
Proof.
  intros H. unfold py_idx. replace (0 <=? k) with true by (symmetry; apply Z.leb_le; lia).
  replace (k <? n) with true by (symmetry; apply Z.ltb_lt; lia). reflexivity.
Qed.

Lemma assign_row_exact {A} n (r : list A) : Z.of_nat (length r) = n -> assign_row n r = Return r.
Proof. intros H. unfold assign_row. rewrite H, Z.eqb_refl. reflexivity. Qed.

Section Canon.
Variable trace : Type.
Variable zero_trace : trace.

Definition geo_in (S : source trace) (g : geo) : Prop :=
  0 <= gi0 g /\ 0 < gni g /\ gi0 g + gni g <= s_nil S /\ 0 <= gx0 g /\ 0 < gnx g /\ gx0 g + gnx g <= s_nxl S /\
  gxl g = gx0 g + gnx g - 1.
Definition geo_full (S : source trace) (g : geo) : Prop :=
  gi0 g = 0 /\ gx0 g = 0 /\ gni g = s_nil S /\ gnx g = s_nxl S.

(* the traces of window row r *)
Definition canon_traces (S : source trace) (g : geo) (r : Z) : list trace :=
  map (fun x => s_trace S (gi0 g + r) (gx0 g + x)) (zrange 0 (gnx g)).
(* (slot, flat source index) of the headers of window row r *)
Definition canon_events (S : source trace) (g : geo) (r : Z) : list (Z * Z) :=
  map (fun j => (r * gnx g + j, (gi0 g + r) * s_nxl S + (gx0 g + j))) (zrange 0 (gnx g)).

Section Rows.
Variables (S : source trace) (g : geo) (bs0 bs1 : Z).
Hypothesis Hg : geo_in S g.
Hypothesis Hbs0 : 0 < bs0.
Variables (p i : Z).
Hypothesis Hp : 0 <= p < w_n_plane_sets (gni g) bs0.
Hypothesis Hi : 0 <= i < bs0.
Let ptr := w_planes_to_read (gni g) bs0 p.
Let r := row_line (gni g) bs0 p i.

Lemma r_range : 0 <= r < gni g.
Proof. destruct Hg as (?&?&?&?&?&?&?). apply row_line_range; assumption. Qed.

Lemma row_seg_canon : row_seg trace S g bs0 p ptr i = Return (canon_traces S g r).
Proof.
  pose proof r_range as Hr. destruct Hg as (G1&G2&G3&G4&G5&G6&G7).
  unfold row_seg, sN. cbv [w_seg_line w_pad_seg_line w_seg_xl_lo w_pad_xl_lo w_seg_xl_hi w_pad_xl_hi].
  assert (Hk : (if i <? ptr then gi0 g + p * bs0 + i else gi0 g + p * bs0 + ptr - 1) = gi0 g + r).
  { unfold r, row_line. cbv zeta. fold ptr. destruct (i <? ptr); lia. }
  rewrite Hk. rewrite py_idx_in by lia. cbn [bind].
  replace (if i <? ptr then gx0 g else gx0 g) with (gx0 g) by (destruct (i <? ptr); reflexivity).
  replace (if i <? ptr then gxl g + 1 else gxl g + 1) with (gx0 g + gnx g) by (destruct (i <? ptr); lia).
  unfold slice_idx. rewrite !norm_bound_in by lia.
  rewrite assign_row_exact by (rewrite map_length, zrange_length; lia).
  f_equal. unfold canon_traces. rewrite zrange_shift, map_map.
  replace (gx0 g + gnx g - gx0 g) with (gnx g) by lia.
  apply map_ext. intros x. f_equal. lia.
Qed.

Lemma row_min_canon : geo_full S g -> row_min trace S g bs0 p ptr i = Return (canon_traces S g r).
Proof.
  intros (F1&F2&F3&F4). pose proof r_range as Hr. destruct Hg as (G1&G2&G3&G4&G5&G6&G7).
  unfold row_min, sN. cbv [w_min_line w_pad_min_line].
  assert (Hk : (if i <? ptr then p * bs0 + i else p * bs0 + ptr - 1) = r).
  { unfold r, row_line. cbv zeta. fold ptr. reflexivity. }
  rewrite Hk.
  replace (0 <=? r) with true by (symmetry; apply Z.leb_le; lia).
  replace (r <? s_nil S) with true by (symmetry; apply Z.ltb_lt; lia). cbn [andb].
  rewrite assign_row_exact by (rewrite map_length, zrange_length; lia).
  f_equal. unfold canon_traces. rewrite F1, F2, F4. apply map_ext. intros x. f_equal; lia.
Qed.

(* t_store of the j-th header of the row *)
Lemma t_store_canon j : 0 <= j < gnx g -> i <? ptr = true ->
  t_store_of trace S g bs0 p ptr i (w_start_trace (gi0 g) (gx0 g) (gxl g) (gni g) (gnx g) (s_nxl S) bs0 p ptr i + j)
  = r * gnx g + j.
Proof.
  intros Hj Hlt. destruct Hg as (G1&G2&G3&G4&G5&G6&G7).
  assert (Hr : r = p * bs0 + i) by (unfold r, row_line; cbv zeta; fold ptr; rewrite Hlt; reflexivity).
  unfold t_store_of, sN. cbv [w_t_store w_t_xl w_t_il w_start_trace].
  set (N := s_nxl S). assert (HN : 0 < N) by (unfold N; lia).
  assert (E : (gi0 g + p * bs0 + i) * N + gx0 g + j = N * (gi0 g + r) + (gx0 g + j)) by (rewrite Hr; ring).
  rewrite <- (Z.mod_unique_pos _ N (gi0 g + r) (gx0 g + j)) by (unfold N; lia || exact E).
  rewrite <- (Z.div_unique_pos _ N (gi0 g + r) (gx0 g + j)) by (unfold N; lia || exact E).
  ring.
Qed.

Lemma combine_map_r {A B} (f : A -> B) l : combine l (map f l) = map (fun x => (x, f x)) l.
Proof. induction l as [|x l IH]; [reflexivity|]. cbn [map combine]. rewrite IH. reflexivity. Qed.

Lemma hdr_events_canon use_min store : (use_min = true -> geo_full S g) ->
  hdr_events trace S g bs0 use_min store p ptr i = if (i <? ptr) && store then canon_events S g r else [].
Proof.
  intros Hfull. pose proof r_range as Hr. pose proof Hg as (G1&G2&G3&G4&G5&G6&G7).
  unfold hdr_events. destruct ((i <? ptr) && store) eqn:E; [|reflexivity].
  apply andb_prop in E. destruct E as [Hlt _].
  assert (Hre : r = p * bs0 + i) by (unfold r, row_line; cbv zeta; fold ptr; rewrite Hlt; reflexivity).
  set (N := s_nxl S). assert (HN : 0 < N) by (unfold N; lia).
  set (idxs := if use_min then hdr_idx_min trace S g bs0 p ptr i else hdr_idx_seg trace S g bs0 p ptr i).
  assert (Hc : combine (zrange 0 (Z.of_nat (length idxs))) idxs
               = map (fun j => (j, (gi0 g + r) * N + (gx0 g + j))) (zrange 0 (gnx g))).
  { unfold idxs. destruct use_min.
    - destruct (Hfull eq_refl) as (F1&F2&F3&F4).
      unfold hdr_idx_min, sN. cbv [w_min_line w_min_nheaders]. fold N.
      rewrite map_length, zrange_length. replace (Z.of_nat (Z.to_nat (N - 0))) with N by lia.
      rewrite combine_map_r. rewrite F4. fold N. apply map_ext. intros j. f_equal. rewrite F1, F2, Hre. ring.
    - unfold hdr_idx_seg, sN, s_tracecount. cbv [w_hdr_lo w_hdr_hi w_start_trace]. fold N.
      set (st := (gi0 g + p * bs0 + i) * N + gx0 g).
      assert (Hst : 0 <= st /\ st + gnx g <= s_nil S * N).
      { replace st with ((gi0 g + r) * N + gx0 g) by (unfold st; rewrite Hre; ring). split.
        - assert (0 <= (gi0 g + r) * N) by (apply Z.mul_nonneg_nonneg; lia). lia.
        - assert ((gi0 g + r + 1) * N <= s_nil S * N) by (apply Z.mul_le_mono_nonneg_r; lia). lia. }
      unfold slice_idx. rewrite !norm_bound_in by lia.
      rewrite zrange_length. replace (Z.of_nat (Z.to_nat (st + gnx g - st))) with (gnx g) by lia.
      rewrite combine_zrange_shift. apply map_ext. intros j. f_equal. unfold st. rewrite Hre. ring. }
  rewrite Hc, map_map. unfold canon_events. apply map_ext_in. intros j Hj. apply in_zrange in Hj.
  cbn [fst snd]. f_equal. unfold sN. apply t_store_canon; assumption.
Qed.

Definition canon_xpad (n_xl bs1' : Z) (row : list trace) : list trace :=
  map (fun x => nth (Z.to_nat (Z.min x (n_xl - 1))) row zero_trace) (zrange 0 (pad n_xl bs1')).

Lemma xpad_row_canon row : Z.of_nat (length row) = gnx g ->
  xpad_row trace zero_trace S g bs0 bs1 p ptr i row = canon_xpad (gnx g) bs1 row.
Proof.
  intros Hl. pose proof Hg as (G1&G2&G3&G4&G5&G6&G7).
  unfold xpad_row, canon_xpad. cbv [w_padded1 w_xpad_from w_xpad_src]. cbv zeta.
  apply map_ext_in. intros x Hx. apply in_zrange in Hx.
  unfold py_norm. replace (gnx g - 1 <? 0) with false by (symmetry; apply Z.ltb_ge; lia).
  destruct (gnx g <=? x) eqn:E.
  - apply Z.leb_le in E. rewrite Z.min_r by lia. apply app_nth1. lia.
  - apply Z.leb_gt in E. rewrite Z.min_l by lia. apply app_nth1. lia.
Qed.

Lemma canon_traces_length r' : Z.of_nat (length (canon_traces S g r')) = gnx g.
Proof. destruct Hg as (G1&G2&G3&G4&G5&G6&G7). unfold canon_traces. rewrite map_length, zrange_length. lia. Qed.

Lemma do_row_canon use_min store alloc hf : (use_min = true -> geo_full S g) -> alloc = gni g * gnx g ->
  do_row trace zero_trace S g bs0 bs1 use_min store alloc p ptr i hf
  = Return (canon_xpad (gnx g) bs1 (canon_traces S g r), if (i <? ptr) && store then canon_events S g r else []).
Proof.
  intros Hfull Ha. pose proof r_range as Hr. pose proof Hg as (G1&G2&G3&G4&G5&G6&G7).
  unfold do_row.
  assert (Hrow : (if use_min then row_min trace S g bs0 p ptr i else row_seg trace S g bs0 p ptr i)
                 = Return (canon_traces S g r)).
  { destruct use_min; [apply row_min_canon; auto | apply row_seg_canon]. }
  rewrite Hrow. cbn [bind]. rewrite (hdr_events_canon use_min store Hfull).
  assert (Hok : forallb (ev_ok alloc) (if (i <? ptr) && store then canon_events S g r else []) = true).
  { destruct ((i <? ptr) && store); [|reflexivity]. apply forallb_forall. intros e He.
    unfold canon_events in He. apply in_map_iff in He. destruct He as (j & <- & Hj). apply in_zrange in Hj.
    unfold ev_ok. cbn [fst]. rewrite Ha.
    assert (0 <= r * gnx g) by (apply Z.mul_nonneg_nonneg; lia).
    assert ((r + 1) * gnx g <= gni g * gnx g) by (apply Z.mul_le_mono_nonneg_r; lia).
    apply andb_true_intro. split; [apply Z.leb_le | apply Z.ltb_lt]; lia. }
  rewrite Hok. rewrite andb_false_r. rewrite xpad_row_canon by apply canon_traces_length. reflexivity.
Qed.
End Rows.

(* ---- one plane set, all plane sets ---- *)
Definition canon_set_buf (S : source trace) (g : geo) (bs0 bs1 p : Z) : list (list trace) :=
  map (fun i => canon_xpad (gnx g) bs1 (canon_traces S g (row_line (gni g) bs0 p i))) (zrange 0 bs0).
Definition canon_set_events (S : source trace) (g : geo) (bs0 : Z) (store : bool) (p : Z) : list (Z * Z) :=
  flat_map (fun i => if (i <? w_planes_to_read (gni g) bs0 p) && store
                     then canon_events S g (row_line (gni g) bs0 p i) else []) (zrange 0 bs0).
Definition hash_rows (g : geo) (bs0 p : Z) (buf : list (list trace)) : list (list trace) :=
  map (firstn (Z.to_nat (gnx g))) (firstn (Z.to_nat (w_planes_to_read (gni g) bs0 p)) buf).
Definition canon_set (S : source trace) (g : geo) (bs0 bs1 : Z) (store : bool) (p : Z) :=
  (canon_set_buf S g bs0 bs1 p, hash_rows g bs0 p (canon_set_buf S g bs0 bs1 p), canon_set_events S g bs0 store p).

Lemma do_sets_canon S g bs0 bs1 use_min store alloc hf :
  geo_in S g -> 0 < bs0 -> (use_min = true -> geo_full S g) -> alloc = gni g * gnx g ->
  do_sets trace zero_trace S g bs0 bs1 use_min store alloc hf
  = Return (map (canon_set S g bs0 bs1 store) (zrange 0 (w_n_plane_sets (gni g) bs0))).
Proof.
  intros Hg Hb Hfull Ha. unfold do_sets. apply mapM_Return. intros p Hp. apply in_zrange in Hp.
  unfold do_set.
  rewrite (mapM_Return _ (fun i => (canon_xpad (gnx g) bs1 (canon_traces S g (row_line (gni g) bs0 p i)),
                                    if (i <? w_planes_to_read (gni g) bs0 p) && store
                                    then canon_events S g (row_line (gni g) bs0 p i) else []))).
  - cbn [bind]. unfold canon_set, canon_set_buf, canon_set_events, hash_rows.
    cbv [w_hash_x_hi w_hash_rows]. rewrite map_map. cbn [fst].
    rewrite flat_map_map. cbn [snd]. reflexivity.
  - intros i Hi. apply in_zrange in Hi. apply do_row_canon; assumption.
Qed.
End Canon.

(* ---------------------------------------------------------------- header arrays *)
Lemma set_at_map {A B} (f : A -> B) k v l : set_at k (f v) (map f l) = map f (set_at k v l).
Proof.
  revert k. induction l as [|x l IH]; intros k; [destruct k; reflexivity|].
  destruct k; cbn [map set_at]; [reflexivity|]. rewrite IH. reflexivity.
Qed.

Lemma fold_events_map (phi : Z -> Z) alloc evs arr :
  fold_left (fun arr e => set_at (Z.to_nat (py_norm alloc (fst e))) (Some (snd e)) arr)
            (map (fun e => (fst e, phi (snd e))) evs) (map (option_map phi) arr)
  = map (option_map phi) (fold_left (fun arr e => set_at (Z.to_nat (py_norm alloc (fst e))) (Some (snd e)) arr) evs arr).
Proof.
  revert arr. induction evs as [|e evs IH]; intros arr; [reflexivity|].
  cbn [map fold_left fst snd]. change (Some (phi (snd e))) with (option_map phi (Some (snd e))).
  rewrite set_at_map. apply IH.
Qed.

Lemma apply_events_map (phi : Z -> Z) alloc evs :
  apply_events alloc (map (fun e => (fst e, phi (snd e))) evs) = map (option_map phi) (apply_events alloc evs).
Proof.
  unfold apply_events. rewrite <- fold_events_map. f_equal.
  induction (Z.to_nat alloc) as [|n IH]; [reflexivity|]. cbn [repeat map option_map]. rewrite <- IH. reflexivity.
Qed.

(* ---------------------------------------------------------------- the canonical container *)
Lemma row_eqb_eq x y : row_eqb x y = true -> x = y.
Proof.
  destruct x as [[x1 x2] x3], y as [[y1 y2] y3]. unfold row_eqb, row_code, row_const, row_ref. cbn [fst snd].
  intros H. apply andb_prop in H. destruct H as [H H3]. apply andb_prop in H. destruct H as [H1 H2].
  apply Z.eqb_eq in H1, H2, H3. subst. reflexivity.
Qed.
Lemma table_eqb_eq x y : table_eqb x y = true -> x = y.
Proof.
  revert y. induction x as [|r x IH]; intros [|s y] H; try discriminate; [reflexivity|].
  cbn [table_eqb] in H. apply andb_prop in H. destruct H as [H1 H2].
  apply row_eqb_eq in H1. apply IH in H2. subst. reflexivity.
Qed.
Lemma table_eqb_refl x : table_eqb x x = true.
Proof.
  induction x as [|[[r1 r2] r3] x IH]; [reflexivity|]. cbn [table_eqb]. rewrite IH.
  unfold row_eqb, row_code, row_const, row_ref. cbn [fst snd]. rewrite !Z.eqb_refl. reflexivity.
Qed.

Section Container.
Variable trace : Type.
Variable zero_trace : trace.

Definition canon_container (codes : list Z) (m : mode) (bs0 bs1 : Z) (S : source trace) (g : geo) : container trace :=
  let tc := s_tracecount trace S in
  let alloc := gni g * gnx g in
  let tbl := table0 codes m (s_hdr S 0) (s_hdr S (tc - 1)) in
  let fields := stored_fields tbl in
  let store := match m with Strip => false | _ => true end in
  let sets := map (canon_set trace zero_trace S g bs0 bs1 store) (zrange 0 (w_n_plane_sets (gni g) bs0)) in
  let slots := apply_events alloc (flat_map (fun s => snd s) sets) in
  let arrays := if store then map (fun f => (f, array_of trace S slots f)) fields else [] in
  let tbl' := match m with Thorough => prune_table tbl arrays | _ => tbl end in
  let arrays' := match m with Thorough => prune_arrays arrays | _ => arrays end in
  {| c_n_il := gni g; c_n_xl := gnx g;
     c_origin_il := s_ilines trace S (gi0 g); c_origin_xl := s_xlines trace S (gx0 g);
     c_inc_il := s_ilines trace S 1 - s_ilines trace S 0; c_inc_xl := s_xlines trace S 1 - s_xlines trace S 0;
     c_hel := gnx g * gni g * 32 / 8; c_tracecount := gni g * gnx g;
     c_nha := Z.of_nat (length (stored_fields tbl')); c_table := tbl';
     c_sets := map (fun s => fst (fst s)) sets;
     c_hashed := flat_map (fun s => snd (fst s)) sets;
     c_alloc := alloc;
     c_arrays := arrays' |}.

Lemma use_min_full S g reduce st : geo_in trace S g ->
  w_use_minimal reduce st (s_nil S) (s_nxl S) (gni g) (gnx g) = true -> geo_full trace S g.
Proof.
  intros (G1&G2&G3&G4&G5&G6&G7). unfold w_use_minimal. intros H.
  apply andb_prop in H. destruct H as [_ H]. apply andb_prop in H. destruct H as [_ H].
  apply andb_prop in H. destruct H as [H1 H2]. apply Z.eqb_eq in H1, H2.
  unfold geo_full. repeat split; lia.
Qed.

Lemma convert3d_canon codes m reduce st bs0 bs1 S g :
  geo_in trace S g -> 0 < bs0 -> 2 <= s_nil S -> 2 <= s_nxl S ->
  convert3d trace zero_trace codes m reduce st bs0 bs1 S g = Return (canon_container codes m bs0 bs1 S g).
Proof.
  intros Hg Hb HI HN. pose proof Hg as (G1&G2&G3&G4&G5&G6&G7).
  unfold convert3d. cbv [w_hdr_origin_xl w_hdr_origin_il]. cbv zeta.
  rewrite (py_idx_in (s_nxl S) (gx0 g)) by lia. rewrite (py_idx_in (s_nil S) (gi0 g)) by lia. cbn [bind].
  replace (2 <=? s_nxl S) with true by (symmetry; apply Z.leb_le; lia).
  replace (2 <=? s_nil S) with true by (symmetry; apply Z.leb_le; lia). cbn [andb negb].
  assert (Ha : w_header_alloc true false (s_tracecount trace S) (s_hdr S 0 189) (gni g) (gnx g) = gni g * gnx g) by reflexivity.
  rewrite Ha.
  rewrite (do_sets_canon trace zero_trace S g bs0 bs1);
    [ | assumption | assumption | intros Hu; exact (use_min_full S g reduce st Hg Hu) | reflexivity ].
  cbn [bind]. reflexivity.
Qed.
End Container.

(* ---------------------------------------------------------------- window vs sub-cube *)
Lemma rlen_step1 lo hi : lo < hi -> rlen (lo, hi, 1) = hi - lo.
Proof. intros H. unfold rlen. rewrite Z.div_1_r. lia. Qed.

Section Compare.
Variable trace : Type.
Variable zero_trace : trace.
Variables (S : source trace) (a b c d : Z).
Hypothesis Hw : window_ok trace S a b c d = true.

Definition win_geo : geo := {| gi0 := a; gni := b - a; gx0 := c; gxl := d - 1; gnx := d - c |}.
Definition sub_geo : geo := {| gi0 := 0; gni := b - a; gx0 := 0; gxl := d - c - 1; gnx := d - c |}.
Let R := restrict trace S a b c d.

Lemma window_facts : 0 <= a /\ a < b /\ b <= s_nil S /\ 0 <= c /\ c < d /\ d <= s_nxl S /\ 2 <= s_nil S /\ 2 <= s_nxl S.
Proof.
  pose proof Hw as H0. unfold window_ok in H0.
  repeat (apply andb_prop in H0; let H := fresh "B" in destruct H0 as [H0 H]).
  repeat match goal with H : (_ <=? _) = true |- _ => apply Z.leb_le in H | H : (_ <? _) = true |- _ => apply Z.ltb_lt in H end.
  repeat split; assumption.
Qed.

Lemma mk_geo_window : mk_geo (w_window_geom a b c d) = Return win_geo.
Proof.
  destruct window_facts as (W1&W2&W3&W4&W5&W6&W7&W8).
  unfold mk_geo, w_window_geom, w_geom_ilines, w_geom_xlines, rstep, rfirst, rlast. cbn [snd].
  rewrite !rlen_step1 by lia. change (1 <=? 0) with false. cbn [orb].
  replace (d - c =? 0) with false by (symmetry; apply Z.eqb_neq; lia).
  replace (b - a =? 0) with false by (symmetry; apply Z.eqb_neq; lia).
  unfold win_geo. f_equal. f_equal. lia.
Qed.

Lemma mk_geo_detect : mk_geo (w_detect_geom (s_nil R) (s_nxl R)) = Return sub_geo.
Proof.
  destruct window_facts as (W1&W2&W3&W4&W5&W6&W7&W8).
  unfold R. cbn [restrict s_nil s_nxl].
  unfold mk_geo, w_detect_geom, w_geom_ilines, w_geom_xlines, rstep, rfirst, rlast. cbn [snd].
  rewrite !rlen_step1 by lia. change (1 <=? 0) with false. cbn [orb].
  replace (d - c - 0 =? 0) with false by (symmetry; apply Z.eqb_neq; lia).
  replace (b - a - 0 =? 0) with false by (symmetry; apply Z.eqb_neq; lia).
  unfold sub_geo. f_equal. f_equal; lia.
Qed.

Lemma win_geo_in : geo_in trace S win_geo.
Proof. destruct window_facts as (W1&W2&W3&W4&W5&W6&W7&W8). unfold geo_in, win_geo. cbn [gi0 gni gx0 gxl gnx]. lia. Qed.
Lemma sub_geo_in : geo_in trace R sub_geo.
Proof.
  destruct window_facts as (W1&W2&W3&W4&W5&W6&W7&W8). unfold geo_in, sub_geo, R.
  cbn [gi0 gni gx0 gxl gnx restrict s_nil s_nxl]. lia.
Qed.

(* flat index in the source of trace t of the sub-cube file *)
Definition phi (t : Z) : Z := (t / (d - c) + a) * s_nxl S + (t mod (d - c) + c).

Lemma canon_traces_eq r : canon_traces trace S win_geo r = canon_traces trace R sub_geo r.
Proof.
  unfold canon_traces, win_geo, sub_geo, R. cbn [gi0 gx0 gnx restrict s_trace].
  apply map_ext. intros x. f_equal; lia.
Qed.

Lemma canon_events_rel r :
  canon_events trace S win_geo r = map (fun e => (fst e, phi (snd e))) (canon_events trace R sub_geo r).
Proof.
  destruct window_facts as (W1&W2&W3&W4&W5&W6&W7&W8).
  unfold canon_events, win_geo, sub_geo, R. cbn [gi0 gx0 gnx restrict s_nxl]. rewrite map_map. cbn [fst snd].
  apply map_ext_in. intros j Hj. apply in_zrange in Hj. f_equal. unfold phi.
  assert (E : (0 + r) * (d - c) + (0 + j) = (d - c) * r + j) by ring.
  rewrite <- (Z.div_unique_pos _ (d - c) r j) by (lia || exact E).
  rewrite <- (Z.mod_unique_pos _ (d - c) r j) by (lia || exact E).
  ring.
Qed.

Lemma canon_set_buf_eq bs0 bs1 p :
  canon_set_buf trace zero_trace S win_geo bs0 bs1 p = canon_set_buf trace zero_trace R sub_geo bs0 bs1 p.
Proof.
  unfold canon_set_buf. apply map_ext. intros i. rewrite canon_traces_eq. reflexivity.
Qed.

Lemma canon_set_events_rel bs0 store p :
  canon_set_events trace S win_geo bs0 store p
  = map (fun e => (fst e, phi (snd e))) (canon_set_events trace R sub_geo bs0 store p).
Proof.
  unfold canon_set_events. rewrite map_flat_map. apply flat_map_ext_in. intros i _.
  change (gni win_geo) with (gni sub_geo).
  destruct ((i <? w_planes_to_read (gni sub_geo) bs0 p) && store); [apply canon_events_rel | reflexivity].
Qed.

Lemma array_of_phi slots f : array_of trace S (map (option_map phi) slots) f = array_of trace R slots f.
Proof. unfold array_of. rewrite map_map. apply map_ext. intros [t|]; reflexivity. Qed.

Lemma canon_container_eq codes m bs0 bs1 :
  tables_agree trace codes m S a b c d = true ->
  canon_container trace zero_trace codes m bs0 bs1 S win_geo = canon_container trace zero_trace codes m bs0 bs1 R sub_geo.
Proof.
  intros Ht. destruct window_facts as (W1&W2&W3&W4&W5&W6&W7&W8).
  unfold tables_agree in Ht. apply table_eqb_eq in Ht. fold R in Ht.
  unfold canon_container. cbv zeta. rewrite Ht.
  set (tbl := table0 codes m (s_hdr R 0) (s_hdr R (s_tracecount trace R - 1))).
  set (store := match m with Strip => false | _ => true end).
  change (gni win_geo) with (gni sub_geo). change (gnx win_geo) with (gnx sub_geo).
  set (l := zrange 0 (w_n_plane_sets (gni sub_geo) bs0)).
  (* plane-set buffers and hashed rows are equal, header events are related by phi *)
  assert (Hbuf : map (fun s => fst (fst s)) (map (canon_set trace zero_trace S win_geo bs0 bs1 store) l)
                 = map (fun s => fst (fst s)) (map (canon_set trace zero_trace R sub_geo bs0 bs1 store) l)).
  { rewrite !map_map. apply map_ext. intros p. unfold canon_set. cbn [fst]. apply canon_set_buf_eq. }
  assert (Hhash : flat_map (fun s => snd (fst s)) (map (canon_set trace zero_trace S win_geo bs0 bs1 store) l)
                  = flat_map (fun s => snd (fst s)) (map (canon_set trace zero_trace R sub_geo bs0 bs1 store) l)).
  { rewrite !flat_map_map. apply flat_map_ext_in. intros p _. unfold canon_set. cbn [fst snd].
    rewrite canon_set_buf_eq. reflexivity. }
  assert (Hev : flat_map (fun s => snd s) (map (canon_set trace zero_trace S win_geo bs0 bs1 store) l)
                = map (fun e => (fst e, phi (snd e)))
                      (flat_map (fun s => snd s) (map (canon_set trace zero_trace R sub_geo bs0 bs1 store) l))).
  { rewrite !flat_map_map, map_flat_map. apply flat_map_ext_in. intros p _. unfold canon_set. cbn [snd].
    apply canon_set_events_rel. }
  rewrite Hbuf, Hhash, Hev. rewrite apply_events_map.
  set (slots := apply_events (gni sub_geo * gnx sub_geo) _).
  assert (Harr : (if store then map (fun f => (f, array_of trace S (map (option_map phi) slots) f)) (stored_fields tbl) else [])
                 = (if store then map (fun f => (f, array_of trace R slots f)) (stored_fields tbl) else [])).
  { destruct store; [|reflexivity]. apply map_ext. intros f. rewrite array_of_phi. reflexivity. }
  rewrite Harr.
  (* the remaining fields: axis origins and increments *)
  assert (Ho1 : s_ilines trace S (gi0 win_geo) = s_ilines trace R (gi0 sub_geo)).
  { unfold s_ilines, py_norm, win_geo, sub_geo, R. cbn [gi0 restrict s_il0 s_dil s_nil].
    replace (a <? 0) with false by (symmetry; apply Z.ltb_ge; lia). change (0 <? 0) with false. ring. }
  assert (Ho2 : s_xlines trace S (gx0 win_geo) = s_xlines trace R (gx0 sub_geo)).
  { unfold s_xlines, py_norm, win_geo, sub_geo, R. cbn [gx0 restrict s_xl0 s_dxl s_nxl].
    replace (c <? 0) with false by (symmetry; apply Z.ltb_ge; lia). change (0 <? 0) with false. ring. }
  assert (Hi1 : s_ilines trace S 1 - s_ilines trace S 0 = s_ilines trace R 1 - s_ilines trace R 0).
  { unfold s_ilines, py_norm, R. cbn [restrict s_il0 s_dil s_nil]. change (1 <? 0) with false. change (0 <? 0) with false. ring. }
  assert (Hi2 : s_xlines trace S 1 - s_xlines trace S 0 = s_xlines trace R 1 - s_xlines trace R 0).
  { unfold s_xlines, py_norm, R. cbn [restrict s_xl0 s_dxl s_nxl]. change (1 <? 0) with false. change (0 <? 0) with false. ring. }
  rewrite Ho1, Ho2, Hi1, Hi2. reflexivity.
Qed.

Lemma convert3d_window_eq codes m reduce st1 st2 bs0 bs1 : 0 < bs0 -> 2 <= b - a -> 2 <= d - c ->
  tables_agree trace codes m S a b c d = true ->
  convert3d trace zero_trace codes m reduce st1 bs0 bs1 S win_geo
  = convert3d trace zero_trace codes m reduce st2 bs0 bs1 R sub_geo.
Proof.
  intros Hb H1 H2 Ht. destruct window_facts as (W1&W2&W3&W4&W5&W6&W7&W8).
  rewrite (convert3d_canon trace zero_trace codes m reduce st1 bs0 bs1 S win_geo win_geo_in Hb W7 W8).
  rewrite (convert3d_canon trace zero_trace codes m reduce st2 bs0 bs1 R sub_geo sub_geo_in Hb)
    by (unfold R; cbn [restrict s_nil s_nxl]; lia).
  f_equal. apply canon_container_eq. exact Ht.
Qed.
End Compare.

(* ---------------------------------------------------------------- top level *)
Theorem window_equals_subcube trace (zero_trace : trace) codes m reduce st1 st2 bs0 bs1 (S : source trace) a b c d :
  window_ok trace S a b c d = true -> 2 <= b - a -> 2 <= d - c -> 0 < bs0 ->
  tables_agree trace codes m S a b c d = true ->
  convert trace zero_trace codes m (win a b c d) reduce st1 bs0 bs1 S
  = convert trace zero_trace codes m no_window reduce st2 bs0 bs1 (restrict trace S a b c d).
Proof.
  intros Hw H1 H2 Hb Ht. unfold convert, win, no_window.
  change (w_window_accepted (Some a) (Some b) (Some c) (Some d)) with true.
  change (w_window_accepted None None None None) with false. cbv iota.
  rewrite (mk_geo_window trace S a b c d Hw). rewrite (mk_geo_detect trace S a b c d Hw).
  assert (Hd : w_detect_2d (s_nil (restrict trace S a b c d)) (s_nxl (restrict trace S a b c d)) = false).
  { cbn [restrict s_nil s_nxl]. unfold w_detect_2d.
    replace (b - a =? 1) with false by (symmetry; apply Z.eqb_neq; lia).
    replace (d - c =? 1) with false by (symmetry; apply Z.eqb_neq; lia). reflexivity. }
  rewrite Hd. cbn [bind]. f_equal. apply convert3d_window_eq; assumption.
Qed.

(* every valid window, one-line windows included: the container in closed form *)
Theorem window_closed_form trace (zero_trace : trace) codes m reduce st bs0 bs1 (S : source trace) a b c d :
  window_ok trace S a b c d = true -> 0 < bs0 ->
  convert trace zero_trace codes m (win a b c d) reduce st bs0 bs1 S
  = Some (Return (canon_container trace zero_trace codes m bs0 bs1 S (win_geo a b c d))).
Proof.
  intros Hw Hb. unfold convert, win.
  change (w_window_accepted (Some a) (Some b) (Some c) (Some d)) with true. cbv iota.
  rewrite (mk_geo_window trace S a b c d Hw). cbn [bind]. f_equal.
  destruct (window_facts trace S a b c d Hw) as (W1&W2&W3&W4&W5&W6&W7&W8).
  apply convert3d_canon; try assumption. apply win_geo_in. exact Hw.
Qed.

(* a sub-cube file with at least two lines per axis converted without a window takes the 3D route with the full geometry *)
Lemma tables_agree_other trace codes m (S : source trace) a b c d :
  m <> Heuristic -> tables_agree trace codes m S a b c d = true.
Proof.
  intros H. unfold tables_agree, table0.
  destruct m; try congruence; cbv [mode_source w_mode_thorough w_mode_exhaustive w_mode_strip]; apply table_eqb_refl.
Qed.

(* the window is used exactly when all four bounds are given -- zero bounds included (D6a) *)
Lemma window_accepted_iff_given a b c d :
  w_window_accepted a b c d = true <-> (a <> None /\ b <> None /\ c <> None /\ d <> None).
Proof.
  unfold w_window_accepted, w_some. destruct a, b, c, d; cbn [andb]; split; intros H;
    try discriminate; try reflexivity; try (repeat split; discriminate); destruct H as (?&?&?&?); congruence.
Qed.

(* D6-heuristic-detection-from-source-corners: outside the guard the two conversions differ (number of stored arrays) *)
Definition refute_hdr (t f : Z) : Z :=
  if f =? 21 then 3 * (t / 5) - 2 * (t mod 5) else if f =? 189 then 10 + 3 * (t / 5)
  else if f =? 193 then 100 + 2 * (t mod 5) else 0.
Definition refute_source : source unit :=
  {| s_nil := 4; s_nxl := 5; s_ns := 6; s_il0 := 10; s_dil := 3; s_xl0 := 100; s_dxl := 2;
     s_trace := fun _ _ => tt; s_hdr := refute_hdr |}.

Theorem window_heuristic_refuted :
  exists (S : source unit) a b c d codes,
    window_ok unit S a b c d = true /\ 2 <= b - a /\ 2 <= d - c /\
    tables_agree unit codes Heuristic S a b c d = false /\
    convert unit tt codes Heuristic (win a b c d) false true 4 4 S
    <> convert unit tt codes Heuristic no_window false true 4 4 (restrict unit S a b c d).
Proof.
  exists refute_source, 0, 3, 0, 4, [21; 189; 193].
  split; [vm_compute; reflexivity|]. split; [lia|]. split; [lia|]. split; [vm_compute; reflexivity|].
  intros H.
  apply (f_equal (fun o => match o with Some (Return k) => c_nha unit k | _ => -1 end)) in H.
  vm_compute in H. discriminate H.
Qed.

(* the reduced-I/O reader's seek is the SEG-Y offset of the first trace of line i exactly when the file has no
   extended textual headers (with them its self-test fails and, since D5, segyio is used) *)
Definition segy_trace_offset (ext ns t : Z) : Z := 3600 + 3200 * ext + t * (240 + 4 * ns).
Lemma minimal_reader_offset n_xl ns i ext : w_min_seek n_xl ns i = segy_trace_offset ext ns (i * n_xl) <-> ext = 0.
Proof. unfold w_min_seek, segy_trace_offset. split; intros H; [|subst ext]; lia. Qed.

(* ---------------------------------------------------------------- closed forms *)
Lemma nth_zrange_nat n lo k : (k < n)%nat -> nth k (zrange_nat lo n) 0 = lo + Z.of_nat k.
Proof.
  revert lo k. induction n as [|n IH]; intros lo k H; [lia|].
  destruct k as [|k]; cbn [zrange_nat nth]; [lia|]. rewrite IH by lia. lia.
Qed.

Lemma nth_map_zrange {A} (f : Z -> A) n k dflt : 0 <= k < n -> nth (Z.to_nat k) (map f (zrange 0 n)) dflt = f k.
Proof.
  intros H. rewrite (nth_indep _ dflt (f 0)) by (rewrite map_length, zrange_length; lia).
  rewrite map_nth. f_equal. unfold zrange. rewrite nth_zrange_nat by lia. lia.
Qed.

Section Closed.
Variable trace : Type.
Variable zero_trace : trace.
Variables (S : source trace) (a b c d : Z).
Hypothesis Hw : window_ok trace S a b c d = true.
Variables (codes : list Z) (m : mode) (bs0 bs1 : Z).
Hypothesis Hb : 0 < bs0.
Let C := canon_container trace zero_trace codes m bs0 bs1 S (win_geo a b c d).

Lemma closed_scalars :
  c_n_il trace C = b - a /\ c_n_xl trace C = d - c /\
  c_origin_il trace C = s_il0 S + a * s_dil S /\ c_origin_xl trace C = s_xl0 S + c * s_dxl S /\
  c_inc_il trace C = s_dil S /\ c_inc_xl trace C = s_dxl S /\
  c_tracecount trace C = (b - a) * (d - c) /\ c_hel trace C = 4 * ((b - a) * (d - c)) /\
  c_alloc trace C = (b - a) * (d - c).
Proof.
  destruct (window_facts trace S a b c d Hw) as (W1&W2&W3&W4&W5&W6&W7&W8).
  unfold C, canon_container, win_geo. cbv zeta. cbn [c_n_il c_n_xl c_origin_il c_origin_xl c_inc_il c_inc_xl c_tracecount c_hel c_alloc gi0 gni gx0 gnx].
  unfold s_ilines, s_xlines, py_norm.
  replace (a <? 0) with false by (symmetry; apply Z.ltb_ge; lia).
  replace (c <? 0) with false by (symmetry; apply Z.ltb_ge; lia).
  change (1 <? 0) with false. change (0 <? 0) with false.
  repeat split; try ring.
  replace ((d - c) * (b - a) * 32) with (4 * ((b - a) * (d - c)) * 8) by ring. apply Z.div_mul. lia.
Qed.

(* every cell of every plane-set buffer: the sub-cube, edge-extended to the padded extents *)
Lemma closed_cells p i x :
  0 <= p < pad (b - a) bs0 / bs0 -> 0 <= i < bs0 -> 0 <= x < pad (d - c) bs1 ->
  nth (Z.to_nat x) (nth (Z.to_nat i) (nth (Z.to_nat p) (c_sets trace C) []) []) zero_trace
  = spec_cell trace S a b c d (p * bs0 + i) x.
Proof.
  intros Hp Hi Hx. destruct (window_facts trace S a b c d Hw) as (W1&W2&W3&W4&W5&W6&W7&W8).
  unfold C, canon_container. cbv zeta. cbn [c_sets]. rewrite map_map. unfold canon_set. cbn [fst].
  change (gni (win_geo a b c d)) with (b - a). change (w_n_plane_sets (b - a) bs0) with (pad (b - a) bs0 / bs0).
  rewrite nth_map_zrange by assumption.
  unfold canon_set_buf. rewrite nth_map_zrange by assumption.
  unfold canon_xpad. change (gnx (win_geo a b c d)) with (d - c). rewrite nth_map_zrange by assumption.
  unfold canon_traces. change (gnx (win_geo a b c d)) with (d - c). rewrite nth_map_zrange by lia.
  change (gni (win_geo a b c d)) with (b - a). rewrite row_line_min by (assumption || lia).
  reflexivity.
Qed.
End Closed.

(* ---- the rows read by the plane sets, concatenated, are 0 .. n-1 ---- *)
Lemma pad_ge n b : 0 < b -> 0 <= n -> n <= w_n_plane_sets n b * b.
Proof.
  intros Hb Hn. unfold w_n_plane_sets, pad. pose proof (Z.div_mod n b ltac:(lia)) as Hdm.
  pose proof (Z.mod_pos_bound n b Hb) as Hm. destruct (n mod b =? 0) eqn:E.
  - apply Z.eqb_eq in E. rewrite E in Hdm. lia.
  - rewrite (Z.mul_comm b), Z.div_mul by lia. lia.
Qed.

Lemma flat_rows_prefix n b (k : nat) : 0 < b -> 0 < n -> Z.of_nat k <= w_n_plane_sets n b ->
  flat_map (fun p => zrange (p * b) (p * b + w_planes_to_read n b p)) (zrange 0 (Z.of_nat k))
  = zrange 0 (Z.min (Z.of_nat k * b) n).
Proof.
  intros Hb Hn. induction k as [|k IH]; intros Hk.
  - cbn. rewrite Z.min_l by lia. reflexivity.
  - replace (Z.of_nat (S k)) with (Z.of_nat k + 1) by lia.
    rewrite zrange_snoc by lia. rewrite flat_map_app. cbn [flat_map]. rewrite app_nil_r.
    rewrite IH by lia.
    destruct (planes_to_read_range n b (Z.of_nat k) Hb Hn ltac:(lia)) as (P1&P2&P3).
    assert (0 <= Z.of_nat k * b) by (apply Z.mul_nonneg_nonneg; lia).
    rewrite Z.min_l by lia.
    rewrite <- zrange_app by lia. f_equal.
    destruct (Z.eq_dec (w_planes_to_read n b (Z.of_nat k)) b) as [E|E].
    + rewrite E. rewrite Z.min_l by lia. ring.
    + specialize (P3 ltac:(lia)). rewrite Z.min_r by lia. exact P3.
Qed.

Lemma flat_rows n b : 0 < b -> 0 < n ->
  flat_map (fun p => zrange (p * b) (p * b + w_planes_to_read n b p)) (zrange 0 (w_n_plane_sets n b)) = zrange 0 n.
Proof.
  intros Hb Hn. pose proof (pad_ge n b Hb ltac:(lia)) as Hge.
  assert (Hns : 0 <= w_n_plane_sets n b).
  { unfold w_n_plane_sets. apply Z.div_pos; [|lia]. unfold pad. destruct (n mod b =? 0); [lia|].
    apply Z.mul_nonneg_nonneg; [lia|]. assert (0 <= n / b) by (apply Z.div_pos; lia). lia. }
  rewrite <- (Z2Nat.id (w_n_plane_sets n b)) at 1 by assumption.
  rewrite flat_rows_prefix by lia. rewrite Z2Nat.id by assumption. rewrite Z.min_r by lia. reflexivity.
Qed.

Lemma flat_map_nil {A B} (f : A -> list B) l : (forall x, In x l -> f x = []) -> flat_map f l = [].
Proof.
  induction l as [|x l IH]; intros H; [reflexivity|]. cbn [flat_map]. rewrite (H x (or_introl eq_refl)), IH; [reflexivity|].
  intros y Hy. apply H. right. exact Hy.
Qed.

Lemma flat_map_flat_map {A B C} (f : A -> list B) (g : B -> list C) l :
  flat_map g (flat_map f l) = flat_map (fun x => flat_map g (f x)) l.
Proof. induction l as [|x l IH]; [reflexivity|]. cbn [flat_map]. rewrite flat_map_app, IH. reflexivity. Qed.

(* ---- sequential writes k = 0 .. n-1 fill the array in order ---- *)
Lemma set_at_app_length {A} (l1 : list A) x v rest : set_at (length l1) v (l1 ++ x :: rest) = l1 ++ v :: rest.
Proof. induction l1 as [|y l1 IH]; [reflexivity|]. cbn [length app set_at]. rewrite IH. reflexivity. Qed.

Lemma apply_events_prefix (v : Z -> Z) n (k : nat) : (k <= n)%nat ->
  fold_left (fun arr e => set_at (Z.to_nat (py_norm (Z.of_nat n) (fst e))) (Some (snd e)) arr)
            (map (fun j => (j, v j)) (zrange 0 (Z.of_nat k))) (repeat None n)
  = map (fun j => Some (v j)) (zrange 0 (Z.of_nat k)) ++ repeat None (n - k).
Proof.
  induction k as [|k IH]; intros Hk.
  - cbn. rewrite Nat.sub_0_r. reflexivity.
  - replace (Z.of_nat (S k)) with (Z.of_nat k + 1) by lia.
    rewrite zrange_snoc by lia. rewrite !map_app, fold_left_app. rewrite IH by lia.
    cbn [map fold_left fst snd]. unfold py_norm.
    replace (Z.of_nat k <? 0) with false by (symmetry; apply Z.ltb_ge; lia). rewrite Nat2Z.id.
    replace (n - k)%nat with (S (n - S k)) by lia. cbn [repeat].
    replace k with (length (map (fun j => Some (v j)) (zrange 0 (Z.of_nat k)))) at 1
      by (rewrite map_length, zrange_length; lia).
    rewrite set_at_app_length. rewrite <- app_assoc. reflexivity.
Qed.

Lemma apply_events_seq (v : Z -> Z) n : 0 <= n ->
  apply_events n (map (fun j => (j, v j)) (zrange 0 n)) = map (fun j => Some (v j)) (zrange 0 n).
Proof.
  intros Hn. unfold apply_events. pose proof (apply_events_prefix v (Z.to_nat n) (Z.to_nat n) (le_n _)) as H.
  rewrite Z2Nat.id in H by assumption. rewrite H. rewrite Nat.sub_diag. cbn [repeat]. apply app_nil_r.
Qed.

(* ---- the headers of rows 0 .. n-1, concatenated, are the window's traces in order ---- *)
Lemma canon_events_flat trace (Src : source trace) g (n : nat) : 0 < gnx g ->
  flat_map (canon_events trace Src g) (zrange 0 (Z.of_nat n))
  = map (fun k => (k, (gi0 g + k / gnx g) * s_nxl Src + (gx0 g + k mod gnx g))) (zrange 0 (Z.of_nat n * gnx g)).
Proof.
  intros Hx. induction n as [|n IH]; [reflexivity|].
  replace (Z.of_nat (S n)) with (Z.of_nat n + 1) by lia.
  rewrite zrange_snoc by lia. rewrite flat_map_app. cbn [flat_map]. rewrite app_nil_r. rewrite IH.
  assert (0 <= Z.of_nat n * gnx g) by (apply Z.mul_nonneg_nonneg; lia).
  rewrite (zrange_app 0 (Z.of_nat n * gnx g) ((Z.of_nat n + 1) * gnx g)) by lia.
  rewrite map_app. f_equal.
  unfold canon_events. rewrite (zrange_shift (Z.of_nat n * gnx g)). rewrite map_map.
  replace ((Z.of_nat n + 1) * gnx g - Z.of_nat n * gnx g) with (gnx g) by ring.
  apply map_ext_in. intros j Hj. apply in_zrange in Hj.
  assert (E : j + Z.of_nat n * gnx g = gnx g * Z.of_nat n + j) by ring.
  rewrite <- (Z.div_unique_pos _ (gnx g) (Z.of_nat n) j) by (lia || exact E).
  rewrite <- (Z.mod_unique_pos _ (gnx g) (Z.of_nat n) j) by (lia || exact E).
  f_equal. ring.
Qed.

Section ClosedArrays.
Variable trace : Type.
Variable zero_trace : trace.
Variables (S : source trace) (a b c d : Z).
Hypothesis Hw : window_ok trace S a b c d = true.
Variables (bs0 bs1 : Z).
Hypothesis Hb : 0 < bs0.

Lemma canon_set_events_rows p : 0 <= p < w_n_plane_sets (b - a) bs0 ->
  canon_set_events trace S (win_geo a b c d) bs0 true p
  = flat_map (canon_events trace S (win_geo a b c d)) (zrange (p * bs0) (p * bs0 + w_planes_to_read (b - a) bs0 p)).
Proof.
  intros Hp. destruct (window_facts trace S a b c d Hw) as (W1&W2&W3&W4&W5&W6&W7&W8).
  destruct (planes_to_read_range (b - a) bs0 p Hb ltac:(lia) Hp) as (P1&P2&P3).
  unfold canon_set_events. change (gni (win_geo a b c d)) with (b - a).
  set (ptr := w_planes_to_read (b - a) bs0 p) in *.
  rewrite (zrange_app 0 ptr bs0) by lia. rewrite flat_map_app.
  rewrite (flat_map_nil _ (zrange ptr bs0)).
  - rewrite app_nil_r. rewrite (zrange_shift (p * bs0)). rewrite flat_map_map.
    replace (p * bs0 + ptr - p * bs0) with (ptr - 0) by lia. replace (ptr - 0) with ptr by lia.
    apply flat_map_ext_in. intros i Hi. apply in_zrange in Hi.
    replace (i <? ptr) with true by (symmetry; apply Z.ltb_lt; lia). cbn [andb].
    unfold row_line. cbv zeta. fold ptr. replace (i <? ptr) with true by (symmetry; apply Z.ltb_lt; lia).
    f_equal. ring.
  - intros i Hi. apply in_zrange in Hi. replace (i <? ptr) with false by (symmetry; apply Z.ltb_ge; lia). reflexivity.
Qed.

(* slot k of every stored array holds the header of the k-th trace of the window *)
Lemma window_slots :
  apply_events ((b - a) * (d - c))
    (flat_map (fun s => snd s) (map (canon_set trace zero_trace S (win_geo a b c d) bs0 bs1 true)
                                    (zrange 0 (w_n_plane_sets (b - a) bs0))))
  = map (fun k => Some (spec_src_index trace S a c d k)) (zrange 0 ((b - a) * (d - c))).
Proof.
  destruct (window_facts trace S a b c d Hw) as (W1&W2&W3&W4&W5&W6&W7&W8).
  rewrite flat_map_map. unfold canon_set. cbn [snd].
  rewrite (flat_map_ext_in _ (fun p => flat_map (canon_events trace S (win_geo a b c d))
                                        (zrange (p * bs0) (p * bs0 + w_planes_to_read (b - a) bs0 p)))).
  2:{ intros p Hp. apply in_zrange in Hp. apply canon_set_events_rows. exact Hp. }
  rewrite <- flat_map_flat_map. rewrite flat_rows by lia.
  replace (zrange 0 (b - a)) with (zrange 0 (Z.of_nat (Z.to_nat (b - a)))) by (rewrite Z2Nat.id; [reflexivity|lia]).
  rewrite canon_events_flat by (cbn [gnx win_geo]; lia).
  rewrite Z2Nat.id by lia. change (gnx (win_geo a b c d)) with (d - c).
  change (gi0 (win_geo a b c d)) with a. change (gx0 (win_geo a b c d)) with c.
  assert (0 <= (b - a) * (d - c)) by (apply Z.mul_nonneg_nonneg; lia).
  rewrite (apply_events_seq (fun k => (a + k / (d - c)) * s_nxl S + (c + k mod (d - c)))) by assumption.
  reflexivity.
Qed.

(* every stored header array, entry by entry (before the 'thorough' pruning, which only drops constant arrays) *)
Lemma closed_arrays codes m :
  c_arrays trace (canon_container trace zero_trace codes m bs0 bs1 S (win_geo a b c d))
  = let tbl := table0 codes m (s_hdr S 0) (s_hdr S (s_tracecount trace S - 1)) in
    let arrays := match m with Strip => [] | _ => map (fun f => (f, spec_array trace S a b c d f)) (stored_fields tbl) end in
    match m with Thorough => prune_arrays arrays | _ => arrays end.
Proof.
  unfold canon_container. cbv zeta. cbn [c_arrays].
  change (gni (win_geo a b c d)) with (b - a). change (gnx (win_geo a b c d)) with (d - c).
  assert (Harr : forall f, array_of trace S (map (fun k => Some (spec_src_index trace S a c d k)) (zrange 0 ((b - a) * (d - c)))) f
                           = spec_array trace S a b c d f).
  { intros f. unfold array_of, spec_array. rewrite map_map. reflexivity. }
  destruct m; try rewrite window_slots; try reflexivity;
    (erewrite map_ext; [reflexivity | intros f; cbv beta; rewrite Harr; reflexivity]).
Qed.
End ClosedArrays.

(* ---------------------------------------------------------------- the closed form, packaged *)
Theorem window_container_spec trace (zero_trace : trace) codes m reduce st bs0 bs1 (S : source trace) a b c d :
  window_ok trace S a b c d = true -> 0 < bs0 ->
  exists C, convert trace zero_trace codes m (win a b c d) reduce st bs0 bs1 S = Some (Return C) /\
    (c_n_il trace C = b - a /\ c_n_xl trace C = d - c /\
     c_origin_il trace C = s_il0 S + a * s_dil S /\ c_origin_xl trace C = s_xl0 S + c * s_dxl S /\
     c_inc_il trace C = s_dil S /\ c_inc_xl trace C = s_dxl S /\
     c_tracecount trace C = (b - a) * (d - c) /\ c_hel trace C = 4 * ((b - a) * (d - c)) /\
     c_alloc trace C = (b - a) * (d - c)) /\
    (forall p i x, 0 <= p < pad (b - a) bs0 / bs0 -> 0 <= i < bs0 -> 0 <= x < pad (d - c) bs1 ->
       nth (Z.to_nat x) (nth (Z.to_nat i) (nth (Z.to_nat p) (c_sets trace C) []) []) zero_trace
       = spec_cell trace S a b c d (p * bs0 + i) x) /\
    c_arrays trace C
    = (let tbl := table0 codes m (s_hdr S 0) (s_hdr S (s_tracecount trace S - 1)) in
       let arrays := match m with Strip => [] | _ => map (fun f => (f, spec_array trace S a b c d f)) (stored_fields tbl) end in
       match m with Thorough => prune_arrays arrays | _ => arrays end).
Proof.
  intros Hw Hb. exists (canon_container trace zero_trace codes m bs0 bs1 S (win_geo a b c d)).
  split; [apply window_closed_form; assumption|].
  split; [apply closed_scalars; assumption|].
  split; [intros p i x; apply closed_cells; assumption|].
  apply closed_arrays; assumption.
Qed.

Theorem window_equals_subcube_modes trace (zero_trace : trace) codes m reduce st1 st2 bs0 bs1 (S : source trace) a b c d :
  m <> Heuristic ->
  window_ok trace S a b c d = true -> 2 <= b - a -> 2 <= d - c -> 0 < bs0 ->
  convert trace zero_trace codes m (win a b c d) reduce st1 bs0 bs1 S
  = convert trace zero_trace codes m no_window reduce st2 bs0 bs1 (restrict trace S a b c d).
Proof. intros Hm Hw H1 H2 Hb. apply window_equals_subcube; try assumption. apply tables_agree_other. exact Hm. Qed.
