(* Proofs/Routes.v -- proofs about Model/Routes.v (+ Gen/Routes.v): file-type dispatch, the data path of every route
   through the handle contract, the ZGY header-word table, stored arrays and their read-back through the reader model
   of Model/Headers.v, the extra header fields.  The sample-axis part is Proofs/RoutesAxis.v.
   Statements live in Props/C01a.v, Props/C03b.v, Props/C05a.v. *)
From Coq Require Import ZArith List Bool Lia Sorted.
From Coq Require PrimFloat.
Import ListNotations.
From SZ Require Import Lib.Py Gen.Utils Gen.Reader Gen.Header Gen.Headers Gen.Producer Gen.Window Gen.Routes Spec.Container.
From SZ Require Import Model.Writer Model.Headers Model.HeaderW Model.Routes.
From SZ Require Import Proofs.PyLemmas Proofs.Layout Proofs.Writer Proofs.Headers Proofs.ContainerW.
Open Scope Z_scope.

(* ================================================================ 1. SeismicFile.open *)
Lemma codes_eqb_eq a : forall b, codes_eqb a b = true <-> a = b.
Proof.
  induction a as [|x a IH]; intros [|y b]; cbn [codes_eqb]; try (split; [discriminate | discriminate]); [tauto|].
  rewrite andb_true_iff, Z.eqb_eq, IH. split; [intros [-> ->]; reflexivity | intro E; inversion E; tauto].
Qed.

Lemma assoc_ext_In e t v : assoc_ext e t = Some v -> In (e, v) t.
Proof.
  induction t as [|[k w] r IH]; cbn [assoc_ext]; [discriminate|].
  destruct (codes_eqb e k) eqn:E.
  - apply codes_eqb_eq in E. subst. intro H. inversion H. left. reflexivity.
  - intro H. right. apply IH. exact H.
Qed.
Lemma assoc_ext_None e t : assoc_ext e t = None -> forall v, ~ In (e, v) t.
Proof.
  induction t as [|[k w] r IH]; cbn [assoc_ext]; [intros _ v []|].
  destruct (codes_eqb e k) eqn:E; [discriminate|]. intros H v [Hin|Hin].
  - inversion Hin. subst. assert (codes_eqb e e = true) by (apply codes_eqb_eq; reflexivity). congruence.
  - exact (IH H v Hin).
Qed.

(* an explicit Filetype wins over the extension; anything else is refused *)
Lemma open_explicit raw v : open_filetype raw (ArgFt v) = Return v.
Proof. reflexivity. Qed.
Lemma open_not_a_filetype raw : open_filetype raw ArgOther = Raise ValueErr.
Proof. reflexivity. Qed.
(* without file_type: exactly the generated table decides, on the lower-cased, dot-stripped extension *)
Lemma open_by_extension raw v :
  open_filetype raw NoArg = Return v <-> assoc_ext (ext_norm raw) open_ext_table = Some v.
Proof.
  unfold open_filetype. destruct (assoc_ext (ext_norm raw) open_ext_table) as [w|].
  - split; intro H; inversion H; reflexivity.
  - split; discriminate.
Qed.
Lemma open_unknown_extension raw :
  (forall v, ~ In (ext_norm raw, v) open_ext_table) -> open_filetype raw NoArg = Raise ValueErr.
Proof.
  intro H. unfold open_filetype. destruct (assoc_ext (ext_norm raw) open_ext_table) as [w|] eqn:E; [|reflexivity].
  exfalso. exact (H w (assoc_ext_In _ _ _ E)).
Qed.
(* the table as it stands: "", sgy, segy -> SEG-Y; zgy; vds; sgz (and the values of the enumeration) *)
Lemma open_table_now :
  open_ext_table = [([], 0); ([115; 103; 121], 0); ([115; 101; 103; 121], 0); ([122; 103; 121], 10); ([118; 100; 115], 30);
                    ([115; 103; 122], 100)] /\
  filetype_codes = [0; 10; 30; 100] /\ ft_SEGY = 0 /\ ft_ZGY = 10 /\ ft_VDS = 30 /\ ft_SGZ = 100.
Proof. repeat split. Qed.
(* upper / mixed case and the leading dot are immaterial *)
Lemma open_examples :
  open_show [46; 90; 71; 89] NoArg true = (0, 10, 1, 1) /\      (* ".ZGY" -> ZGY, pyzgy.open, structured *)
  open_show [46; 86; 100; 115] NoArg false = (0, 30, 2, 1) /\   (* ".Vds" *)
  open_show [46; 115; 103; 122] NoArg true = (0, 100, 3, 1) /\  (* ".sgz" *)
  open_show [] NoArg false = (0, 0, 0, 0) /\                    (* no extension: SEG-Y, structured as computed *)
  open_show [46; 83; 69; 71; 89] NoArg true = (0, 0, 0, 1) /\   (* ".SEGY" *)
  open_show [46; 116; 120; 116] NoArg true = (1, 0, 0, 0) /\    (* ".txt": ValueError *)
  open_show [46; 116; 120; 116] (ArgFt 10) true = (0, 10, 1, 1) /\
  open_show [46; 122; 103; 121] ArgOther true = (1, 0, 0, 0).
Proof. repeat split; vm_compute; reflexivity. Qed.

Lemma open_structured_const ft m : In ft [ft_ZGY; ft_VDS; ft_SGZ] -> open_structured_of ft m = Some true.
Proof. cbn [In]. intros [<-|[<-|[<-|[]]]]; reflexivity. Qed.
Lemma open_structured_segy m : open_structured_of ft_SEGY m = Some m.
Proof. reflexivity. Qed.
Lemma open_openers : map (fun ft => open_opener_of ft) filetype_codes = [Some 0; Some 1; Some 2; Some 3].
Proof. reflexivity. Qed.
Lemma converter_filetypes :
  conv_filetype_segy = Some ft_SEGY /\ conv_filetype_zgy = Some ft_ZGY /\ conv_filetype_vds = Some ft_VDS /\ conv_filetype_base = None.
Proof. repeat split. Qed.

(* ================================================================ 2. the data path through a handle *)
Section DataPath.
Variable Smp : Type.
Variable H : hdr.
Hypothesis W : wf3 H = true.

(* every cell of the padded cube is the edge-replicated source sample, for every handle that honours the contract *)
Theorem route_cell_fidelity (h : handle Smp) (src : Z -> Z -> Z -> Smp) i x z :
  handle_ok h src (s_nil H) -> 0 <= i < s_PI H -> 0 <= x -> 0 <= z ->
  route_cell h (s_nil H) (s_nxl H) (s_ns H) (s_bs0 H) (s_bs1 H) (s_bs2 H) i x z
  = Some (src (Z.min i (s_nil H - 1)) (Z.min x (s_nxl H - 1)) (Z.min z (s_ns H - 1))).
Proof.
  intros OK Hi Hx Hz. unfold route_cell. rewrite (sf_cell_src_edge H W false i x z Hi Hx Hz). unfold edge_src.
  apply OK. pose proof (f_nil H (wf3_facts H W)). lia.
Qed.
End DataPath.

(* pyzgy / pyvds accessor: correct whenever every line number is non-negative *)
Lemma find_from_hit (axis : Z -> Z) i : forall fuel k,
  k <= i -> i < k + Z.of_nat fuel -> (forall j, k <= j < i -> axis j <> axis i) ->
  find_from axis (axis i) k fuel = Some i.
Proof.
  induction fuel as [|f IH]; intros k Hk Hf Hinj; [lia|]. cbn [find_from].
  destruct (Z.eqb_spec (axis k) (axis i)) as [E|E].
  - destruct (Z.eq_dec k i) as [->|N]; [reflexivity|]. exfalso. apply (Hinj k); [lia | exact E].
  - apply IH; [| lia | intros j Hj; apply Hinj; lia].
    destruct (Z.eq_dec k i) as [->|N]; [congruence | lia].
Qed.

Theorem emu_handle_ok (Smp : Type) (planes : Z -> Z -> Z -> Smp) a d n :
  d <> 0 -> 0 <= a -> 0 <= a + d * (n - 1) ->
  handle_ok (emu_handle (fun k => a + d * k) n planes) planes n.
Proof.
  intros Hd Ha Hl i x z Hi. unfold emu_handle. cbn [h_iline h_ilines]. unfold emu_iline.
  assert (Hpos : 0 <= a + d * i).
  { destruct (Z_lt_le_dec d 0) as [N|P].
    - assert (d * (n - 1) <= d * i) by (apply Z.mul_le_mono_nonpos_l; lia). lia.
    - assert (0 <= d * i) by (apply Z.mul_nonneg_nonneg; lia). lia. }
  replace (a + d * i <? 0) with false by (symmetry; apply Z.ltb_ge; exact Hpos).
  rewrite (find_from_hit (fun k => a + d * k) i (Z.to_nat n) 0); [reflexivity | lia | lia |].
  intros j Hj E. cbv beta in E. assert (d * j = d * i) by lia. apply Z.mul_reg_l in H; lia.
Qed.

(* ... and wrong for a negative line number (finding D53): on the axis -2, 0, 2, 4, 6, 8 the plane asked for as
   iline[ilines[0]] = iline[-2] is inline number 6 + (-2) = 4, i.e. ordinal 3 *)
Theorem emu_negative_refuted :
  let h := emu_handle (fun k => -2 + 2 * k) 6 (fun i _ _ => i) in
  h_iline h (h_ilines h 0) 0 0 = Some 3 /\ ~ handle_ok h (fun i _ _ => i) 6.
Proof.
  cbv zeta. split; [vm_compute; reflexivity|]. intro OK. specialize (OK 0 0 0 ltac:(lia)). vm_compute in OK. discriminate.
Qed.
(* with step 1 the accessor raises IndexError instead (no such number) *)
Lemma emu_negative_indexerror :
  let h := emu_handle (fun k => -3 + k) 5 (fun i _ _ => i) in h_iline h (h_ilines h 0) 0 0 = None.
Proof. vm_compute. reflexivity. Qed.

(* ================================================================ 3. header fields added by make_header_seismic_file *)
Lemma mh_assigned_clear : forallb (disjoint_from 76 100) mh_assigned = true.
Proof. vm_compute. reflexivity. Qed.
Lemma later_writes_clear ft :
  forallb (fun w => forallb (disjoint_from (fst w) (snd w)) mh_assigned) (route_later_writes ft) = true.
Proof. unfold route_later_writes, mhs_f64. destruct (ft =? ft_ZGY); vm_compute; reflexivity. Qed.
Lemma later_writes_ranges :
  route_later_writes ft_ZGY = [(76, 80); (80, 84); (84, 92); (92, 100)] /\
  (forall ft, ft <> ft_ZGY -> route_later_writes ft = [(76, 80); (80, 84)]).
Proof.
  split; [reflexivity|]. intros ft N. unfold route_later_writes, mhs_f64.
  replace (ft =? ft_ZGY) with false by (symmetry; apply Z.eqb_neq; exact N). reflexivity.
Qed.

Lemma route_f64_zgy E :
  route_f64 ft_ZGY E 84 = re_samples0 E /\ route_f64 ft_ZGY E 92 = PrimFloat.mul (re_zinc E) (f_of_Z 1000).
Proof. split; reflexivity. Qed.
Lemma route_f64_other ft E off : ft <> ft_ZGY -> route_f64 ft E off = f_zero.
Proof.
  intro N. unfold route_f64, mhs_f64. replace (ft =? ft_ZGY) with false by (symmetry; apply Z.eqb_neq; exact N). reflexivity.
Qed.
Lemma route_f64_elsewhere E off : off <> 84 -> off <> 92 -> route_f64 ft_ZGY E off = f_zero.
Proof.
  intros N1 N2. unfold route_f64. change (mhs_f64 ft_ZGY) with mhs_zgy_f64. unfold mhs_zgy_f64. cbn [find fst snd].
  destruct (Z.eqb_spec 84 off); [lia|]. destruct (Z.eqb_spec 92 off); [lia|]. reflexivity.
Qed.

Lemma source_codes :
  route_source_code ft_SEGY = 0 /\ route_source_code ft_ZGY = 10 /\ route_source_code ft_VDS = 30 /\
  route_source_code ft_SGZ = 100 /\ mhn_source_code = 20 /\
  (mhs_source_code_lo, mhs_source_code_hi) = (rd_source_code_lo, rd_source_code_lo + 4) /\
  (mhs_detection_lo, mhs_detection_hi) = (rd_detection_code_lo, rd_detection_code_lo + 4) /\
  map detection_code [0; 1; 2; 3]%nat = [0; 10; 20; 30].
Proof. repeat split. Qed.
Lemma hwinfo_routes :
  hwinfo_route ft_SEGY = 0 /\ hwinfo_route ft_VDS = 0 /\ hwinfo_route ft_ZGY = 1 /\ hwinfo_route ft_SGZ = 2.
Proof. repeat split. Qed.
Lemma store_headers_rule strip :
  run_store_headers ft_ZGY strip = false /\ run_store_headers ft_VDS strip = negb strip /\
  run_store_headers ft_SEGY strip = negb strip /\ run_store_headers ft_SGZ strip = negb strip.
Proof. repeat split. Qed.

(* ================================================================ 4. the ZGY header-word table *)
Definition zgy_keys : list Z := map fst zgy_tbl_consts ++ zgy_tbl_self_keys.

Lemma zgy_table_of fields tv : NoDup fields -> (forall k, In k zgy_keys -> In k fields) ->
  zgy_table fields tv = tbl_of (zgy_fn tv) fields.
Proof.
  intros Hnd Hin. unfold zgy_table. rewrite tbl_init_of.
  cbn [zgy_tbl_consts zgy_tbl_self_keys fold_left fst snd].
  repeat (rewrite tbl_set_of; [| exact Hnd | apply Hin; vm_compute; tauto]).
  apply tbl_of_ext. intros f _. unfold zgy_fn. cbn [zgy_tbl_consts zgy_tbl_self_keys memZ existsb assocZ].
  repeat match goal with |- context [?a =? ?b] => destruct (Z.eqb_spec a b); try subst f; try lia end;
    cbn [orb]; try reflexivity; try lia.
Qed.

Lemma zgy_fn_kinds tv f : zgy_fn tv f = (fst (zgy_fn tv f), 0) \/ zgy_fn tv f = (0, f).
Proof.
  unfold zgy_fn. destruct (memZ f zgy_tbl_self_keys); [right; reflexivity|].
  destruct (assocZ f zgy_tbl_consts); left; reflexivity.
Qed.
Lemma zgy_fn_inv tv f : 0 < f -> is_inv (f, zgy_fn tv f) = negb (memZ f zgy_tbl_self_keys).
Proof.
  intro Hf. unfold zgy_fn. destruct (memZ f zgy_tbl_self_keys).
  - cbn [negb]. apply is_inv_self. lia.
  - destruct (assocZ f zgy_tbl_consts); apply is_inv_const.
Qed.

Lemma asc_four : asc [181; 185; 189; 193].
Proof. repeat constructor; lia. Qed.

Lemma zgy_selfs fields tv : wf_fields fields = true -> (forall k, In k zgy_keys -> In k fields) ->
  selfs (tbl_of (zgy_fn tv) fields) = [181; 185; 189; 193].
Proof.
  intros Hwf Hin. destruct (wf_fields_facts _ Hwf) as [Hasc [Hnd [Hpos Hlen]]].
  rewrite selfs_tbl_of. apply asc_ext_eq; [apply asc_filter; exact Hasc | exact asc_four |].
  intro k. rewrite filter_In. split.
  - intros [Hk Hi]. rewrite zgy_fn_inv in Hi by (apply Hpos; exact Hk). rewrite negb_involutive in Hi.
    apply memZ_In in Hi. exact Hi.
  - intro Hk. assert (Hf : In k fields) by (apply Hin; unfold zgy_keys; apply in_or_app; right; exact Hk).
    split; [exact Hf|]. rewrite zgy_fn_inv by (apply Hpos; exact Hf). rewrite negb_involutive. apply memZ_In. exact Hk.
Qed.

Lemma headers_dict_keys : map fst zgy_headers_dict = [181; 185; 189; 193] /\ map snd zgy_headers_dict = [0; 1; 2; 3].
Proof. split; reflexivity. Qed.

(* get_header_array_count() of the ZGY table is 4, whatever the source *)
Theorem zgy_array_count fields tv : wf_fields fields = true -> (forall k, In k zgy_keys -> In k fields) ->
  header_array_count (zgy_table fields tv) = 4.
Proof.
  intros Hwf Hin. destruct (wf_fields_facts _ Hwf) as [Hasc [Hnd [Hpos Hlen]]].
  rewrite zgy_table_of by assumption. rewrite count_selfs.
  - rewrite zgy_selfs by assumption. reflexivity.
  - intros f Hf. specialize (Hpos f Hf). lia.
  - intros f Hf. destruct (zgy_fn_kinds tv f) as [K|K]; [left | right; exact K].
    rewrite K. apply is_inv_const.
  - intros f Hf Hi. rewrite zgy_fn_inv in Hi by (apply Hpos; exact Hf).
    unfold zgy_fn. destruct (memZ f zgy_tbl_self_keys); [discriminate|]. destruct (assocZ f zgy_tbl_consts); reflexivity.
Qed.

(* the entries: three constants, four self-references, everything else (0, 0) *)
Theorem zgy_table_entries fields tv f : wf_fields fields = true -> (forall k, In k zgy_keys -> In k fields) -> In f fields ->
  assocZ f (zgy_table fields tv) = Some (zgy_fn tv f).
Proof.
  intros Hwf Hin Hf. destruct (wf_fields_facts _ Hwf) as [Hasc [Hnd [Hpos Hlen]]].
  rewrite zgy_table_of by assumption. apply assocZ_tbl_of. exact Hf.
Qed.
Lemma zgy_fn_values tv :
  zgy_fn tv 115 = (tv TVNSamples, 0) /\ zgy_fn tv 117 = (tv (TVTrunc (RMul (RInt 1000) RZinc)), 0) /\
  zgy_fn tv 71 = (tv (TVConst (-100)), 0) /\
  zgy_fn tv 181 = (0, 181) /\ zgy_fn tv 185 = (0, 185) /\ zgy_fn tv 189 = (0, 189) /\ zgy_fn tv 193 = (0, 193) /\
  (forall f, ~ In f [115; 117; 71; 181; 185; 189; 193] -> zgy_fn tv f = (0, 0)).
Proof.
  repeat split; try reflexivity. intros f N. cbn [In] in N. unfold zgy_fn.
  cbn [zgy_tbl_consts zgy_tbl_self_keys memZ existsb assocZ].
  repeat match goal with |- context [?a =? ?b] => destruct (Z.eqb_spec a b); [exfalso; apply N; lia|] end.
  reflexivity.
Qed.
Lemma ztv_values n_samples E :
  ztv_of n_samples E TVNSamples = n_samples /\ ztv_of n_samples E (TVConst (-100)) = -100 /\
  ztv_of n_samples E (TVTrunc (RMul (RInt 1000) RZinc)) = Model.Geometry.f_trunc_Z (PrimFloat.mul (f_of_Z 1000) (re_zinc E)).
Proof. repeat split. Qed.

(* ================================================================ 5. the ZGY file and its read-back, for any window *)
(* the crop of get_blank_header_info keeps exactly the window: rows wi0 .. wi1-1, columns wx0 .. wx1-1 of the whole-file grid *)
Lemma win_ok_unpack w n_il n_xl : win_ok w n_il n_xl = true ->
  0 <= wi0 w < wi1 w /\ wi1 w <= n_il /\ 0 <= wx0 w < wx1 w /\ wx1 w <= n_xl.
Proof. unfold win_ok. rewrite !andb_true_iff, !Z.leb_le, !Z.ltb_lt. lia. Qed.
Lemma crop_facts w n_il n_xl : win_ok w n_il n_xl = true ->
  crop_r0 w = wi0 w /\ crop_c0 w = wx0 w /\
  crop_rows w (zgy_grid_rows n_il n_xl) = wi1 w - wi0 w /\ crop_cols w (zgy_grid_cols n_il n_xl) = wx1 w - wx0 w /\
  win_nil w = wi1 w - wi0 w /\ win_nxl w = wx1 w - wx0 w.
Proof.
  intro OK. apply win_ok_unpack in OK.
  unfold crop_r0, crop_c0, crop_rows, crop_cols, crop_r0, crop_c0, crop_args, win_nil, win_nxl, g_ilines, g_xlines,
    w_geom_ilines, w_geom_xlines, rng_first, rng_last, rng_len, zgy_crop_row_lo, zgy_crop_row_hi, zgy_crop_col_lo, zgy_crop_col_hi,
    zgy_grid_rows, zgy_grid_cols.
  repeat split; lia.
Qed.
Lemma whole_ok n_il n_xl : 1 <= n_il -> 1 <= n_xl ->
  win_ok (whole n_il n_xl) n_il n_xl = true /\ wi0 (whole n_il n_xl) = 0 /\ wi1 (whole n_il n_xl) = n_il /\
  wx0 (whole n_il n_xl) = 0 /\ wx1 (whole n_il n_xl) = n_xl.
Proof.
  intros A B. unfold whole, w_detect_geom, win_of, win_ok. cbn [wi0 wi1 wx0 wx1].
  repeat split; try reflexivity. rewrite !andb_true_iff, !Z.leb_le, !Z.ltb_lt. lia.
Qed.
(* the array length the windowed header states (make_header: Gen/Header.v mh_field_60, Gen/Window.v w_hdr_hel, Gen/Headers.v
   hx_hel_3d all say 4 bytes per window trace) *)
Lemma hel_agree xlines ilines gi0 gx0 tc rn rd ns g_ntr bs0 bs1 bs2 na ve gni gnx :
  hx_hel_3d gnx gni = w_hdr_hel xlines ilines gi0 gx0 gni gnx tc /\
  hx_hel_3d gnx gni = mh_field_60 rn rd ns gni gnx g_ntr tc bs0 bs1 bs2 na ve false false.
Proof. split; reflexivity. Qed.

Section ZgyFile.
Variables (fields : list Z) (tv : ztv -> Z) (arr : Z -> Z -> Z) (n_il n_xl : Z) (w : win) (ndb : Z).
Hypothesis Hwf : wf_fields fields = true.
Hypothesis Hin : forall k, In k zgy_keys -> In k fields.
Hypothesis Hw : win_ok w n_il n_xl = true.

Lemma planned_zgy : planned fields (zgy_wwrite fields tv arr n_il n_xl w ndb) (zgy_fn tv) arr (win_nil w * win_nxl w) hx_wr_pad.
Proof.
  destruct (wf_fields_facts _ Hwf) as [Hasc [Hnd [Hpos Hlen]]].
  destruct (crop_facts w n_il n_xl Hw) as (_ & _ & CR & CC & NI & NX). pose proof (win_ok_unpack _ _ _ Hw) as U.
  unfold zgy_wwrite. cbv zeta. rewrite zgy_table_of by assumption.
  constructor; cbn [f_nhb f_ndb f_hel f_count f_tracecount f_is3d f_nil f_nxl f_table f_footer]; try reflexivity.
  - apply hel_3d_eq.
  - rewrite NI, NX. nia.
  - intros f Hf. apply zgy_fn_kinds.
  - rewrite CR, CC, NI, NX. f_equal. rewrite zgy_selfs by assumption.
    rewrite <- (proj1 headers_dict_keys). rewrite map_map. reflexivity.
Qed.

(* gen_trace_header(t)[f] on the file written by the ZGY route, both access paths of the reader; t = trace of the WINDOW *)
Theorem zgy_readback la t f : 0 <= t < win_nil w * win_nxl w -> In f fields ->
  read_field fields (zgy_wwrite fields tv arr n_il n_xl w ndb) la t f = Return (zgy_expected tv arr f t).
Proof.
  intros Ht Hf. destruct (wf_fields_facts _ Hwf) as [Hasc [Hnd [Hpos Hlen]]].
  rewrite (planned_read fields _ (zgy_fn tv) arr (win_nil w * win_nxl w) hx_wr_pad); try assumption; try apply planned_zgy.
  - rewrite zgy_fn_inv by (apply Hpos; exact Hf). unfold zgy_expected.
    destruct (memZ f zgy_tbl_self_keys); reflexivity.
  - unfold zgy_wwrite. cbn [f_is3d f_tracecount f_nil f_nxl]. unfold hx_rd_structured. apply Z.eqb_refl.
  - unfold zgy_wwrite. cbn [f_tracecount]. lia.
Qed.

(* the footer: exactly the four arrays of headers_dict, in that order, 4 bytes per WINDOW trace each = the array length the
   header states, at the padded stride *)
Theorem zgy_footer_layout :
  let F := zgy_wwrite fields tv arr n_il n_xl w ndb in
  let G := (wi1 w - wi0 w) * (wx1 w - wx0 w) in
  f_count F = 4 /\ f_hel F = 4 * G /\ f_tracecount F = G /\ Model.Headers.f_nil F = wi1 w - wi0 w /\ Model.Headers.f_nxl F = wx1 w - wx0 w /\
  map (fun s => match s with (pos, len, pd, _) => (pos, len, pd) end) (f_footer F)
  = map (fun k => (4096 * 2 + 4096 * ndb + k * (4 * G + hx_wr_pad (4 * G)), 4 * G, hx_wr_pad (4 * G))) [0; 1; 2; 3] /\
  hx_rd_padded (f_hel F) = 4 * G + hx_wr_pad (4 * G).
Proof.
  cbv zeta. destruct (crop_facts w n_il n_xl Hw) as (_ & _ & CR & CC & NI & NX). pose proof (win_ok_unpack _ _ _ Hw) as U.
  unfold zgy_wwrite. cbn [f_count f_hel f_tracecount f_footer Model.Headers.f_nil Model.Headers.f_nxl]. rewrite CR, CC, NI, NX.
  split; [apply zgy_array_count; assumption|]. split; [rewrite hel_3d_eq; reflexivity|]. split; [reflexivity|].
  split; [reflexivity|]. split; [reflexivity|]. split.
  - cbn [zgy_headers_dict map write_footer fst]. unfold hx_header_blocks.
    set (L := 4 * ((wi1 w - wi0 w) * (wx1 w - wx0 w))). set (P := hx_wr_pad L).
    repeat (apply (f_equal2 cons); [f_equal; f_equal; lia|]). reflexivity.
  - rewrite hel_3d_eq. symmetry. apply stride_agree. nia.
Qed.
End ZgyFile.

Lemma zgy_expected_cases tv arr t :
  zgy_expected tv arr 115 t = tv TVNSamples /\ zgy_expected tv arr 117 t = tv (TVTrunc (RMul (RInt 1000) RZinc)) /\
  zgy_expected tv arr 71 t = tv (TVConst (-100)) /\
  zgy_expected tv arr 181 t = arr 181 t /\ zgy_expected tv arr 185 t = arr 185 t /\
  zgy_expected tv arr 189 t = arr 189 t /\ zgy_expected tv arr 193 t = arr 193 t /\
  (forall f, ~ In f [115; 117; 71; 181; 185; 189; 193] -> zgy_expected tv arr f t = 0).
Proof.
  repeat split; try reflexivity. intros f N. unfold zgy_expected.
  rewrite (proj2 (proj2 (proj2 (proj2 (proj2 (proj2 (proj2 (zgy_fn_values tv))))))) f N).
  replace (memZ f zgy_tbl_self_keys) with false; [reflexivity|].
  symmetry. apply memZ_false. cbn [zgy_tbl_self_keys In] in *. tauto.
Qed.

(* ================================================================ 6. the stored arrays *)
Lemma divmod_row n_xl i x : 0 <= x < n_xl -> (i * n_xl + x) / n_xl = i /\ (i * n_xl + x) mod n_xl = x.
Proof.
  intro Hx. split.
  - rewrite Z.div_add_l by lia. rewrite Z.div_small by lia. lia.
  - rewrite Z.add_comm, Z_mod_plus_full. apply Z.mod_small. lia.
Qed.

Section ZgyArrays.
Variable lin : Z -> Z -> Z -> Z -> Z.
Variable rnd : rfx -> Z -> Z -> Z.
Hypothesis LIN : lin_exact lin.
Variables a_il d_il n_il a_xl d_xl n_xl : Z.
Hypothesis Hnil : 2 <= n_il.
Hypothesis Hnxl : 2 <= n_xl.
Variable w : win.
Hypothesis Hw : win_ok w n_il n_xl = true.
Let il := arith_lax a_il d_il n_il.
Let xl := arith_lax a_xl d_xl n_xl.

(* (i, x) = ordinals in the SOURCE; the word is counted in the window *)
Theorem zgy_window_line_arrays i x : wi0 w <= i < wi1 w -> wx0 w <= x < wx1 w ->
  zgy_warray lin rnd il xl w 189 ((i - wi0 w) * (wx1 w - wx0 w) + (x - wx0 w)) = a_il + d_il * i /\
  zgy_warray lin rnd il xl w 193 ((i - wi0 w) * (wx1 w - wx0 w) + (x - wx0 w)) = a_xl + d_xl * x.
Proof.
  intros Hi Hx. destruct (crop_facts w n_il n_xl Hw) as (R0 & C0 & _ & CC & _ & _). pose proof (win_ok_unpack _ _ _ Hw) as U.
  unfold zgy_warray, il, xl, arith_lax. cbn [ax_n ax_first ax_last]. rewrite R0, C0, CC.
  destruct (divmod_row (wx1 w - wx0 w) (i - wi0 w) (x - wx0 w) ltac:(lia)) as [-> ->].
  change (assocZ 189 zgy_headers_dict) with (Some 2). change (assocZ 193 zgy_headers_dict) with (Some 3).
  change (nth (Z.to_nat 2) zgy_returns (ZLines true true)) with (ZLines true true).
  change (nth (Z.to_nat 3) zgy_returns (ZLines true true)) with (ZLines false false).
  cbn [zsym_elem ax_first ax_last ax_n].
  replace (wi0 w + (i - wi0 w)) with i by lia. replace (wx0 w + (x - wx0 w)) with x by lia.
  split; apply LIN; cbn [ax_n]; lia.
Qed.
(* the CDP words of the window are the rounded affine expression at the SOURCE position (i, x) *)
Theorem zgy_window_cdp_arrays i x : wi0 w <= i < wi1 w -> wx0 w <= x < wx1 w ->
  zgy_warray lin rnd il xl w 181 ((i - wi0 w) * (wx1 w - wx0 w) + (x - wx0 w))
    = rnd (match nth 0 zgy_returns (ZLines true true) with ZRound e => e | _ => RInt 0 end) i x /\
  zgy_warray lin rnd il xl w 185 ((i - wi0 w) * (wx1 w - wx0 w) + (x - wx0 w))
    = rnd (match nth 1 zgy_returns (ZLines true true) with ZRound e => e | _ => RInt 0 end) i x.
Proof.
  intros Hi Hx. destruct (crop_facts w n_il n_xl Hw) as (R0 & C0 & _ & CC & _ & _). pose proof (win_ok_unpack _ _ _ Hw) as U.
  unfold zgy_warray, il, xl, arith_lax. cbn [ax_n ax_first ax_last]. rewrite R0, C0, CC.
  destruct (divmod_row (wx1 w - wx0 w) (i - wi0 w) (x - wx0 w) ltac:(lia)) as [-> ->].
  replace (wi0 w + (i - wi0 w)) with i by lia. replace (wx0 w + (x - wx0 w)) with x by lia. split; reflexivity.
Qed.
(* one word per window trace = hel / 4 of the header the windowed conversion writes *)
Theorem zgy_window_array_length :
  zgy_warray_words il xl w = (wi1 w - wi0 w) * (wx1 w - wx0 w) /\
  hx_hel_3d (win_nxl w) (win_nil w) = 4 * zgy_warray_words il xl w.
Proof.
  destruct (crop_facts w n_il n_xl Hw) as (_ & _ & CR & CC & NI & NX).
  unfold zgy_warray_words, il, xl, arith_lax. cbn [ax_n]. rewrite CR, CC, NI, NX, hel_3d_eq. split; ring.
Qed.
End ZgyArrays.

(* the conversion without a window is the instance (0, n_il, 0, n_xl) *)
Section ZgyArraysWhole.
Variable lin : Z -> Z -> Z -> Z -> Z.
Variable rnd : rfx -> Z -> Z -> Z.
Hypothesis LIN : lin_exact lin.
Variables a_il d_il n_il a_xl d_xl n_xl : Z.
Hypothesis Hnil : 2 <= n_il.
Hypothesis Hnxl : 2 <= n_xl.
Let il := arith_lax a_il d_il n_il.
Let xl := arith_lax a_xl d_xl n_xl.
Let WH := whole_ok n_il n_xl ltac:(lia) ltac:(lia).

Theorem zgy_line_arrays i x : 0 <= i < n_il -> 0 <= x < n_xl ->
  zgy_array lin rnd il xl 189 (i * n_xl + x) = a_il + d_il * i /\
  zgy_array lin rnd il xl 193 (i * n_xl + x) = a_xl + d_xl * x.
Proof.
  intros Hi Hx. destruct WH as (OK & E0 & E1 & E2 & E3).
  pose proof (zgy_window_line_arrays lin rnd LIN a_il d_il n_il a_xl d_xl n_xl Hnil Hnxl _ OK i x) as T.
  rewrite E0, E1, E2, E3 in T. unfold zgy_array, il, xl. cbn [arith_lax ax_n].
  replace ((i - 0) * (n_xl - 0) + (x - 0)) with (i * n_xl + x) in T by ring. apply T; lia.
Qed.
Theorem zgy_cdp_arrays i x : 0 <= i < n_il -> 0 <= x < n_xl ->
  zgy_array lin rnd il xl 181 (i * n_xl + x) = rnd (match nth 0 zgy_returns (ZLines true true) with ZRound e => e | _ => RInt 0 end) i x /\
  zgy_array lin rnd il xl 185 (i * n_xl + x) = rnd (match nth 1 zgy_returns (ZLines true true) with ZRound e => e | _ => RInt 0 end) i x.
Proof.
  intros Hi Hx. destruct WH as (OK & E0 & E1 & E2 & E3).
  pose proof (zgy_window_cdp_arrays lin rnd a_il d_il n_il a_xl d_xl n_xl _ OK i x) as T.
  rewrite E0, E1, E2, E3 in T. unfold zgy_array, il, xl. cbn [arith_lax ax_n].
  replace ((i - 0) * (n_xl - 0) + (x - 0)) with (i * n_xl + x) in T by ring. apply T; lia.
Qed.
Theorem zgy_array_length : zgy_array_words il xl = n_il * n_xl.
Proof.
  destruct WH as (OK & E0 & E1 & E2 & E3).
  pose proof (proj1 (zgy_window_array_length a_il d_il n_il a_xl d_xl n_xl _ OK)) as T.
  rewrite E0, E1, E2, E3 in T. unfold zgy_array_words, il, xl. cbn [arith_lax ax_n]. rewrite T. ring.
Qed.
End ZgyArraysWhole.

(* the CDP expressions as they stand: 100 * (corner0 + row * (corner1 - corner0) / (n_il - 1) + col * (corner2 - corner0) / (n_xl - 1)) *)
Lemma cdp_exprs_now :
  nth 0 zgy_returns (ZLines true true)
  = ZRound (RMul (RFlt 100) (RAdd (RAdd (RCorner 0 0) (RMul RRow (RDiv (RSub (RCorner 1 0) (RCorner 0 0)) (RSub RCountIl (RInt 1)))))
                                   (RMul RCol (RDiv (RSub (RCorner 2 0) (RCorner 0 0)) (RSub RCountXl (RInt 1)))))) /\
  nth 1 zgy_returns (ZLines true true)
  = ZRound (RMul (RFlt 100) (RAdd (RAdd (RCorner 0 1) (RMul RRow (RDiv (RSub (RCorner 1 1) (RCorner 0 1)) (RSub RCountIl (RInt 1)))))
                                   (RMul RCol (RDiv (RSub (RCorner 2 1) (RCorner 0 1)) (RSub RCountXl (RInt 1)))))).
Proof. split; reflexivity. Qed.

(* ================================================================ 7. the whole ZGY file: header through the specification decoder *)
(* the integer header fields are those of make_header (Gen/Header.v) with n_arrays = get_header_array_count() = 4 *)
Theorem zgy_header_conforms fields tv rn rd ns n_il n_xl bs0 bs1 bs2 venc tc :
  wf_fields fields = true -> (forall k, In k zgy_keys -> In k fields) ->
  cfg3 rn rd ns n_il n_xl bs0 bs1 bs2 = true ->
  fields_ok rn rd ns n_il n_xl 0 tc bs0 bs1 bs2 4 venc false false = true ->
  exists H, written_hdr rn rd ns n_il n_xl 0 tc bs0 bs1 bs2 (header_array_count (zgy_table fields tv)) venc false false = Return H /\
    wf3 H = true /\
    (s_nhb H = 2 /\ s_nil H = n_il /\ s_nxl H = n_xl /\ s_ns H = ns /\ s_bs0 H = bs0 /\ s_bs1 H = bs1 /\ s_bs2 H = bs2 /\
     s_rn H = rn /\ s_rd H = rd /\ s_hel H = 4 * (n_il * n_xl) /\ s_nha H = 4 /\ s_ntr H = n_il * n_xl /\ s_ver H = venc) /\
    s_ndb H * 4096 = s_data_bytes3 H /\ s_data_bytes3 H = s_ub3 H * data_units H.
Proof.
  intros Hwf Hin CFG FIT. rewrite zgy_array_count by assumption.
  exists (Hw rn rd ns n_il n_xl bs0 bs1 bs2 4 venc tc).
  pose proof (written_wf _ _ _ _ _ _ _ _ 4 venc tc CFG FIT) as WF.
  split; [apply written_is_Hw; exact FIT|]. split; [exact WF|]. split; [apply written_states_truth; assumption|].
  exact (written_diskblocks _ _ _ _ _ _ _ _ 4 venc tc CFG FIT).
Qed.

(* segyio's trace-header fields contain the seven keys of the ZGY table *)
Lemma segy_fields_ok : wf_fields segy_fields = true /\ (forall k, In k zgy_keys -> In k segy_fields).
Proof.
  split; [vm_compute; reflexivity|]. intros k Hk. vm_compute in Hk.
  repeat (destruct Hk as [<-|Hk]; [vm_compute; tauto|]). destruct Hk.
Qed.

(* ================================================================ 8. composition: what a reader gets back from a ZGY-sourced file *)
(* trace t of the window is source trace (wi0 + t / gnx, wx0 + t mod gnx), gnx = crosslines of the window *)
Theorem zgy_window_lines_readback lin rnd fields tv a_il d_il n_il a_xl d_xl n_xl w ndb la t :
  lin_exact lin -> wf_fields fields = true -> (forall k, In k zgy_keys -> In k fields) ->
  2 <= n_il -> 2 <= n_xl -> win_ok w n_il n_xl = true -> 0 <= t < (wi1 w - wi0 w) * (wx1 w - wx0 w) ->
  let arr := zgy_warray lin rnd (arith_lax a_il d_il n_il) (arith_lax a_xl d_xl n_xl) w in
  let F := zgy_wwrite fields tv arr n_il n_xl w ndb in
  let gnx := wx1 w - wx0 w in
  read_field fields F la t 189 = Return (a_il + d_il * (wi0 w + t / gnx)) /\
  read_field fields F la t 193 = Return (a_xl + d_xl * (wx0 w + t mod gnx)) /\
  read_field fields F la t 115 = Return (tv TVNSamples) /\
  read_field fields F la t 117 = Return (tv (TVTrunc (RMul (RInt 1000) RZinc))) /\
  read_field fields F la t 71 = Return (tv (TVConst (-100))).
Proof.
  intros LIN Hwf Hin Hnil Hnxl Hw Ht. cbv zeta.
  assert (K : forall k, In k [115; 117; 71; 181; 185; 189; 193] -> In k fields).
  { intros k Hk. apply Hin. unfold zgy_keys. cbn [In] in Hk. vm_compute. tauto. }
  destruct (crop_facts w n_il n_xl Hw) as (_ & _ & _ & _ & NI & NX). pose proof (win_ok_unpack _ _ _ Hw) as U.
  set (gnx := wx1 w - wx0 w) in *. set (gni := wi1 w - wi0 w) in *.
  pose proof (Z.div_mod t gnx ltac:(lia)) as DM. pose proof (Z.mod_pos_bound t gnx ltac:(lia)) as MB.
  assert (Hi : 0 <= t / gnx < gni).
  { split; [apply Z.div_pos; lia | apply Z.div_lt_upper_bound; lia]. }
  rewrite !(zgy_readback fields tv _ n_il n_xl w ndb Hwf Hin Hw) by (try (rewrite NI, NX; fold gni gnx; lia); apply K; cbn [In]; tauto).
  destruct (zgy_expected_cases tv (zgy_warray lin rnd (arith_lax a_il d_il n_il) (arith_lax a_xl d_xl n_xl) w) t)
    as (E115 & E117 & E71 & _ & _ & E189 & E193 & _).
  rewrite E115, E117, E71, E189, E193.
  destruct (zgy_window_line_arrays lin rnd LIN a_il d_il n_il a_xl d_xl n_xl Hnil Hnxl w Hw (wi0 w + t / gnx) (wx0 w + t mod gnx)
              ltac:(fold gni; lia) ltac:(fold gnx; lia)) as [L1 L2].
  fold gnx in L1, L2.
  replace ((wi0 w + t / gnx - wi0 w) * gnx + (wx0 w + t mod gnx - wx0 w)) with t in L1, L2 by lia. rewrite L1, L2.
  repeat split; reflexivity.
Qed.

Theorem zgy_lines_readback lin rnd fields tv a_il d_il n_il a_xl d_xl n_xl ndb la t :
  lin_exact lin -> wf_fields fields = true -> (forall k, In k zgy_keys -> In k fields) ->
  2 <= n_il -> 2 <= n_xl -> 0 <= t < n_il * n_xl ->
  let arr := zgy_array lin rnd (arith_lax a_il d_il n_il) (arith_lax a_xl d_xl n_xl) in
  let F := zgy_write fields tv arr n_il n_xl ndb in
  read_field fields F la t 189 = Return (a_il + d_il * (t / n_xl)) /\
  read_field fields F la t 193 = Return (a_xl + d_xl * (t mod n_xl)) /\
  read_field fields F la t 115 = Return (tv TVNSamples) /\
  read_field fields F la t 117 = Return (tv (TVTrunc (RMul (RInt 1000) RZinc))) /\
  read_field fields F la t 71 = Return (tv (TVConst (-100))).
Proof.
  intros LIN Hwf Hin Hnil Hnxl Ht. cbv zeta.
  destruct (whole_ok n_il n_xl ltac:(lia) ltac:(lia)) as (OK & E0 & E1 & E2 & E3).
  pose proof (zgy_window_lines_readback lin rnd fields tv a_il d_il n_il a_xl d_xl n_xl (whole n_il n_xl) ndb la t LIN Hwf Hin Hnil Hnxl OK) as T.
  cbv zeta in T. rewrite E0, E1, E2, E3 in T. rewrite !Z.sub_0_r, !Z.add_0_l in T.
  unfold zgy_array, zgy_write. cbn [arith_lax ax_n]. apply T. exact Ht.
Qed.
