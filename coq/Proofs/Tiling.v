(* Proofs/Tiling.v -- the unit index of the specification is a bijection from the unit grid onto [0, #units). *)
From Coq Require Import ZArith List Bool Lia.
Open Scope Z_scope.

Lemma mixed_inj B C a b c a' b' c' :
  0 <= b < B -> 0 <= c < C -> 0 <= b' < B -> 0 <= c' < C ->
  (a*B + b)*C + c = (a'*B + b')*C + c' -> a = a' /\ b = b' /\ c = c'.
Proof.
  intros Hb Hc Hb' Hc' E.
  assert (E1: (a*B+b) = (a'*B+b') /\ c = c') by (apply (Z.div_mod_unique C); [left; lia | left; lia | lia]).
  destruct E1 as [E1 E2].
  assert (E3: a = a' /\ b = b') by (apply (Z.div_mod_unique B); [left; lia | left; lia | lia]).
  tauto.
Qed.
Lemma mixed_bound A B C a b c : 0 <= a < A -> 0 <= b < B -> 0 <= c < C -> 0 <= (a*B + b)*C + c < A*B*C.
Proof.
  intros Ha Hb Hc.
  assert (P1: 0 <= a*B) by (apply Z.mul_nonneg_nonneg; lia).
  assert (P2: 0 <= (a*B+b)*C) by (apply Z.mul_nonneg_nonneg; lia).
  split; [lia|].
  assert (Q1: a*B <= (A-1)*B) by (apply Z.mul_le_mono_nonneg_r; lia).
  assert (Q2: a*B + b <= A*B - 1) by lia.
  assert (Q3: (a*B+b)*C <= (A*B-1)*C) by (apply Z.mul_le_mono_nonneg_r; lia).
  replace (A*B*C) with ((A*B-1)*C + C) by ring. lia.
Qed.
Lemma divmod_eq u x y : 0 < u -> x / u = y / u -> x mod u = y mod u -> x = y.
Proof. intros. rewrite (Z.div_mod x u), (Z.div_mod y u) by lia. congruence. Qed.

Section TILING.
(* u0 u1 u2: units per block along each axis; nb0 nb1 nb2: blocks per axis *)
Variables u0 u1 u2 nb0 nb1 nb2 : Z.
Hypotheses (Hu0 : 0 < u0) (Hu1 : 0 < u1) (Hu2 : 0 < u2) (Hn0 : 0 < nb0) (Hn1 : 0 < nb1) (Hn2 : 0 < nb2).
Definition tuidx (iu xu zu : Z) : Z :=
  (((iu / u0) * nb1 + xu / u1) * nb2 + zu / u2) * (u0*u1*u2) + (((iu mod u0) * u1 + xu mod u1) * u2 + zu mod u2).
Definition in_grid iu xu zu := 0 <= iu < nb0*u0 /\ 0 <= xu < nb1*u1 /\ 0 <= zu < nb2*u2.

Lemma div_range x u nb : 0 < u -> 0 <= x < nb*u -> 0 <= x / u < nb.
Proof. intros Hu Hx. split. apply Z.div_pos; lia. apply Z.div_lt_upper_bound; lia. Qed.

Theorem tuidx_bound iu xu zu : in_grid iu xu zu -> 0 <= tuidx iu xu zu < (nb0*nb1*nb2) * (u0*u1*u2).
Proof.
  intros (Hi & Hx & Hz). unfold tuidx.
  pose proof (div_range iu u0 nb0 Hu0 Hi). pose proof (div_range xu u1 nb1 Hu1 Hx). pose proof (div_range zu u2 nb2 Hu2 Hz).
  pose proof (Z.mod_pos_bound iu u0 Hu0). pose proof (Z.mod_pos_bound xu u1 Hu1). pose proof (Z.mod_pos_bound zu u2 Hu2).
  pose proof (mixed_bound nb0 nb1 nb2 (iu/u0) (xu/u1) (zu/u2) ltac:(lia) ltac:(lia) ltac:(lia)) as B1.
  pose proof (mixed_bound u0 u1 u2 (iu mod u0) (xu mod u1) (zu mod u2) ltac:(lia) ltac:(lia) ltac:(lia)) as B2.
  set (blk := ((iu / u0) * nb1 + xu / u1) * nb2 + zu / u2) in *.
  set (inb := ((iu mod u0) * u1 + xu mod u1) * u2 + zu mod u2) in *.
  set (U := u0*u1*u2) in *. set (NB := nb0*nb1*nb2) in *. nia.
Qed.

Theorem tuidx_inj iu xu zu iu' xu' zu' : in_grid iu xu zu -> in_grid iu' xu' zu' ->
  tuidx iu xu zu = tuidx iu' xu' zu' -> iu = iu' /\ xu = xu' /\ zu = zu'.
Proof.
  intros (Hi & Hx & Hz) (Hi' & Hx' & Hz') E. unfold tuidx in E.
  pose proof (Z.mod_pos_bound iu u0 Hu0). pose proof (Z.mod_pos_bound xu u1 Hu1). pose proof (Z.mod_pos_bound zu u2 Hu2).
  pose proof (Z.mod_pos_bound iu' u0 Hu0). pose proof (Z.mod_pos_bound xu' u1 Hu1). pose proof (Z.mod_pos_bound zu' u2 Hu2).
  pose proof (div_range xu u1 nb1 Hu1 Hx). pose proof (div_range zu u2 nb2 Hu2 Hz).
  pose proof (div_range xu' u1 nb1 Hu1 Hx'). pose proof (div_range zu' u2 nb2 Hu2 Hz').
  pose proof (mixed_bound u0 u1 u2 (iu mod u0) (xu mod u1) (zu mod u2) ltac:(lia) ltac:(lia) ltac:(lia)) as B2.
  pose proof (mixed_bound u0 u1 u2 (iu' mod u0) (xu' mod u1) (zu' mod u2) ltac:(lia) ltac:(lia) ltac:(lia)) as B2'.
  assert (E1: ((iu / u0) * nb1 + xu / u1) * nb2 + zu / u2 = ((iu' / u0) * nb1 + xu' / u1) * nb2 + zu' / u2
              /\ ((iu mod u0) * u1 + xu mod u1) * u2 + zu mod u2 = ((iu' mod u0) * u1 + xu' mod u1) * u2 + zu' mod u2).
  { apply (Z.div_mod_unique (u0*u1*u2)); [left; lia | left; lia | lia]. }
  destruct E1 as [Eb Ei].
  apply mixed_inj in Eb; try lia. apply mixed_inj in Ei; try lia.
  destruct Eb as (A1 & A2 & A3), Ei as (C1 & C2 & C3).
  repeat split; [apply (divmod_eq u0) | apply (divmod_eq u1) | apply (divmod_eq u2)]; assumption.
Qed.
End TILING.

