(* Proofs/AccessorsBounds.v -- C13: an ordinal that segyio rejects is handed by the emulator's accessor to the GENERATED
   reader (Gen/Reader.v), which rejects it (C14's lemmas in Proofs/Bounds.v). *)
From Coq Require Import ZArith List Bool Lia.
Import ListNotations.
From SZ Require Import Lib.Py Model.Accessors Gen.Accessors Gen.Reader Proofs.Accessors Proofs.Bounds.
Open Scope Z_scope.

Theorem depth_slice_rejection_agrees : forall H, (rd_blockshape0_v1 H =? 1) = false -> forall i,
  rejected (segyio_wrapindex (rd_n_samples H) i) = true ->
  exists j, acc_getitem_int (rd_n_samples H) i = Return j /\ rd_read_zslice H j = Raise IndexErr.
Proof.
  intros H I i R. pose proof (ordinal_int_agree (rd_n_samples H) i) as A.
  destruct (segyio_wrapindex (rd_n_samples H) i); [discriminate |].
  destruct A as (j & E & N). exists j. split; [exact E | exact (zslice_oob H I j N)].
Qed.

Theorem trace_rejection_agrees : forall H mask_nth, (rd_blockshape0_v1 H =? 1) = false ->
  (rd_tracecount H =? rd_n_ilines H * rd_n_xlines H) = true -> forall i,
  rejected (segyio_wrapindex (rd_n_ilines H * rd_n_xlines H) i) = true ->
  exists j, acc_getitem_int (rd_n_ilines H * rd_n_xlines H) i = Return j /\
            rd_get_trace mask_nth H j None None false = Raise IndexErr.
Proof.
  intros H m I S i R. pose proof (ordinal_int_agree (rd_n_ilines H * rd_n_xlines H) i) as A.
  destruct (segyio_wrapindex (rd_n_ilines H * rd_n_xlines H) i); [discriminate |].
  destruct A as (j & E & N). exists j. split; [exact E | exact (trace_oob_index H m I j None None S N)].
Qed.
