(* Proofs/StateFoot.v -- C15a.
   1. census_checked: the check of Model/StateFoot.v holds of the generated census (by computation: the census is a
      finite table; the bound is the table itself).
   2. The abstract object: a state is a map from attribute tokens to contents; `sem c m a s` is what method m of class c
      does.  The ONE hypothesis linking it to the code is `frame`: a call leaves unchanged everything outside the
      method's effective footprint (the generated closure minus what the method restores) -- the meaning of the census,
      cross-checked on real objects by tools/checks/historyx.py.  Then, by induction over the call list, after ANY
      sequence of checked public calls every protected attribute holds what the constructor left; and two histories
      that agree on the unprotected part (the caches, handled by C15, and the listed exceptions) are
      indistinguishable by any later call. *)
From Coq Require Import List String Bool Arith.
From SZ Require Import Gen.Caches Gen.StateFoot Model.StateFoot.
Import ListNotations.
Local Open Scope string_scope.

Lemma census_checked : census_ok = true.
Proof. vm_compute. reflexivity. Qed.

Lemma smem_In : forall x l, smem x l = true <-> In x l.
Proof.
  intros x l. unfold smem. rewrite existsb_exists. split.
  - intros [y [H E]]. apply String.eqb_eq in E. subst. exact H.
  - intros H. exists x. split; [exact H | apply String.eqb_refl].
Qed.

(* what the check gives for one method of one class of the census *)
Lemma checked_tokens : forall c m t, In c census -> In m (c_methods c) -> checked m = true -> In t (m_closure m) ->
  token_ok restored scratch numpy_source_branch_guard c m t = true.
Proof.
  intros c m t Hc Hm Hk Ht. pose proof census_checked as H. unfold census_ok, check in H.
  do 5 (apply andb_prop in H; destruct H as [H _]).
  rewrite forallb_forall in H. specialize (H c Hc). unfold class_ok in H. rewrite forallb_forall in H.
  specialize (H m Hm). unfold method_ok in H. rewrite Hk in H. cbn [negb orb] in H. rewrite forallb_forall in H. exact (H t Ht).
Qed.

(* a protected attribute is outside the effective footprint of every checked method *)
Lemma protected_not_effective : forall c m x, In c census -> In m (c_methods c) -> checked m = true ->
  protected c x = true -> ~ In x (effective c m).
Proof.
  intros c m x Hc Hm Hk Hp Hin. unfold effective in Hin. apply filter_In in Hin. destruct Hin as [Hx Hr].
  apply negb_true_iff in Hr.
  pose proof (checked_tokens c m x Hc Hm Hk Hx) as T. unfold token_ok in T.
  unfold protected in Hp. apply andb_true_iff in Hp. destruct Hp as [P1 P2].
  apply negb_true_iff in P1. rewrite P1 in T. rewrite orb_false_l in T.
  unfold excepted in T. apply existsb_exists in T. destruct T as [e [He Te]].
  repeat (apply andb_true_iff in Te; destruct Te as [Te ?]).
  destruct (leaves_value (e_kind e)) eqn:L.
  - apply negb_true_iff in P2. assert (X : existsb (fun e0 => String.eqb (e_class e0) (c_name c) && String.eqb (e_token e0) x
        && leaves_value (e_kind e0)) exceptions = true).
    { apply existsb_exists. exists e. split; [exact He|]. rewrite Te, L. match goal with E : String.eqb (e_token e) x = true |- _ => rewrite E end.
      reflexivity. }
    congruence.
  - assert (X : restoring restored scratch numpy_source_branch_guard (c_name c) (m_name m) x = true).
    { unfold restoring. apply existsb_exists. exists e. split; [exact He|]. rewrite Te, L.
      repeat match goal with E : _ = true |- _ => rewrite E; clear E end. reflexivity. }
    congruence.
Qed.

Section Machine.
  Variable value arg res : Type.
  Definition state := string -> value.
  Variable sem : class -> meth -> arg -> state -> state * res.
  (* the meaning of the census *)
  Hypothesis frame : forall c m a s x, In c census -> In m (c_methods c) -> ~ In x (effective c m) ->
    fst (sem c m a s) x = s x.

  Fixpoint run (c : class) (s : state) (calls : list (meth * arg)) : state * list res :=
    match calls with
    | [] => (s, [])
    | (m, a) :: t => let (s1, r) := sem c m a s in let (s2, rs) := run c s1 t in (s2, r :: rs)
    end.
  Definition admissible (c : class) (calls : list (meth * arg)) : Prop :=
    forall m a, In (m, a) calls -> In m (c_methods c) /\ checked m = true.

  (* after ANY sequence of checked public calls the protected state is what the constructor left *)
  Theorem noncache_state_preserved : forall c, In c census -> forall calls s0, admissible c calls ->
    forall x, protected c x = true -> fst (run c s0 calls) x = s0 x.
  Proof.
    intros c Hc calls. induction calls as [|[m a] t IH]; intros s0 Ha x Hp; cbn; [reflexivity|].
    destruct (sem c m a s0) as [s1 r] eqn:E. destruct (run c s1 t) as [s2 rs] eqn:E2. cbn.
    assert (Ht : admissible c t) by (intros m' a' I; apply (Ha m' a'); right; exact I).
    pose proof (IH s1 Ht x Hp) as H2. rewrite E2 in H2. cbn in H2. rewrite H2.
    destruct (Ha m a (or_introl eq_refl)) as [Hm Hk].
    pose proof (frame c m a s0 x Hc Hm (protected_not_effective c m x Hc Hm Hk Hp)) as F. rewrite E in F. exact F.
  Qed.

  (* a call sees the state only pointwise (no hidden identity of the map) *)
  Hypothesis sem_ext : forall c m a s1 s2, (forall x, s1 x = s2 x) -> snd (sem c m a s1) = snd (sem c m a s2).

  (* hence a result can depend on the history only through the unprotected part: the caches (C15) and the listed
     exceptions.  Two histories from the same constructor state that agree there cannot be told apart. *)
  Theorem history_only_through_caches : forall c, In c census -> forall h1 h2 s0, admissible c h1 -> admissible c h2 ->
    (forall x, protected c x = false -> fst (run c s0 h1) x = fst (run c s0 h2) x) ->
    forall m a, snd (sem c m a (fst (run c s0 h1))) = snd (sem c m a (fst (run c s0 h2))).
  Proof.
    intros c Hc h1 h2 s0 A1 A2 Hu m a. apply sem_ext. intros x. destruct (protected c x) eqn:P.
    - rewrite (noncache_state_preserved c Hc h1 s0 A1 x P), (noncache_state_preserved c Hc h2 s0 A2 x P). reflexivity.
    - exact (Hu x P).
  Qed.
  (* in particular against the fresh object (empty history) *)
  Corollary fresh_equivalent : forall c, In c census -> forall h s0, admissible c h ->
    (forall x, protected c x = false -> fst (run c s0 h) x = s0 x) ->
    forall m a, snd (sem c m a (fst (run c s0 h))) = snd (sem c m a s0).
  Proof.
    intros c Hc h s0 A Hu m a. apply (history_only_through_caches c Hc h [] s0 A); [intros m' a' []| exact Hu].
  Qed.
End Machine.

(* ---------------------------------------------------------------------------------------------- ties and witnesses *)
(* the cache tokens are exactly the state modelled by Model/Caches.v: the class-level tables are those of Gen/Caches.v, the
   lazy reader caches are among the reader attributes genx_caches found mutable *)
Lemma cache_set_tie :
  reader_cache =
    ["mask"; "variant_headers[]"; "include_padding"; "file@pos"; "_read_containing_chunk_cached@lru";
     "loader.file@pos"; "loader.compressed_volume";
     "loader.read_and_decompress_trace_range@lru"; "loader.read_unshuffle_and_decompress_chunk_range_2d@lru";
     "loader.read_and_decompress_il_set@lru"; "loader.read_and_decompress_xl_set@lru";
     "loader.read_and_decompress_zslice_set@lru"; "loader.read_and_decompress_zslice_set_adv@lru";
     "loader.read_and_decompress_chunk_range@lru"; "loader.read_unshuffle_and_decompress_chunk_range@lru"] /\
  forallb (fun a => smem a reader_mutable) ["mask"; "variant_headers"; "include_padding"] = true /\
  cached_reads_mutable = ["compressed_volume"] /\
  chunk_cached_method = "_read_containing_chunk".
Proof. repeat split; reflexivity. Qed.

(* the refuted forms: the same check, on the data the generator produces for the three defects *)
(* D46: convert_to_segy assigns self.headerbytes and does not restore it: `restored` is empty *)
Lemma D46_rejected :
  check census census_functions [] scratch mutable_defaults memo_order_uses sticky_header_callers
        cropper_structured_guard numpy_source_branch_guard = false /\
  existsb (fun c => String.eqb (c_name c) "SgzConverter" && negb (class_ok [] scratch numpy_source_branch_guard c)) census = true /\
  forallb (fun c => String.eqb (c_name c) "SgzConverter" || class_ok [] scratch numpy_source_branch_guard c) census = true.
Proof. vm_compute. repeat split; reflexivity. Qed.
(* D45: convert_to_adv_sgz iterated over the header memo *)
Lemma D45_rejected :
  check census census_functions restored scratch mutable_defaults [("SgzConverter", "convert_to_adv_sgz", "variant_headers")]
        sticky_header_callers cropper_structured_guard numpy_source_branch_guard = false.
Proof. vm_compute. reflexivity. Qed.
(* D47: the converters called the sticky read_variant_headers themselves *)
Lemma D47_rejected :
  check census census_functions restored scratch mutable_defaults memo_order_uses
        (("SgzConverter", "write_segy") :: ("SgzConverter", "convert_to_adv_sgz") :: sticky_header_callers)
        cropper_structured_guard numpy_source_branch_guard = false.
Proof. vm_compute. reflexivity. Qed.

(* D46 in the abstract machine: a method whose footprint holds the non-cache attribute headerbytes makes a later
   result depend on the history *)
Definition toy_sem (c : class) (m : meth) (a : unit) (s : string -> nat) : (string -> nat) * nat :=
  if String.eqb (m_name m) "convert_to_segy"
  then ((fun x => if String.eqb x "headerbytes" then 1 else s x), 0)
  else (s, s "headerbytes").
Lemma D46_history_dependence :
  let c := mkC "SgzConverter" "conversion" ["SgzConverter"; "SgzReader"] [] [] [] [] in
  let export := mkM "convert_to_segy" "SgzConverter" true "method" ["headerbytes"] ["headerbytes"] [] in
  let query := mkM "get_file_source_code" "SgzReader" true "method" [] [] [] in
  let s0 := fun _ : string => 0 in
  snd (run nat unit nat toy_sem c s0 [(export, tt); (query, tt)]) = [0; 1] /\
  snd (run nat unit nat toy_sem c s0 [(query, tt)]) = [0] /\
  protected c "headerbytes" = true.
Proof. vm_compute. repeat split; reflexivity. Qed.

(* non-vacuity: how much the check covers *)
Definition n_checked : nat := fold_right (fun c n => n + List.length (filter checked (c_methods c))) 0 census.
Definition n_checked_writing : nat :=
  fold_right (fun c n => n + List.length (filter (fun m => checked m && negb (match m_closure m with [] => true | _ => false end))
                                                 (c_methods c))) 0 census.
Lemma coverage : Nat.leb 20 (List.length census) = true /\ Nat.leb 400 n_checked = true /\ Nat.leb 200 n_checked_writing = true.
Proof. vm_compute. repeat split; reflexivity. Qed.
