(* C12 / D45: the ORDER in which convert_to_adv_sgz writes the footer arrays, as a function of what the same converter
   object was asked before.  Hand model of the memo self.variant_headers (a Python dict: insertion order, a key loaded once):
     get_tracefield_values(q) / get_tracefield_1d(q)  ->  _load_variant_headers(tracefields=[q]): q is appended if it is a
                                                          stored key that is not in the memo yet;
     read_variant_headers(include_padding=True)        ->  every stored key not in the memo is appended, in table order.
   (A change of padding mode clears the memo first: then the order is the table order again; the model keeps the worst case,
   a memo that survives.)  The loop head of the footer loop is GENERATED (Gen/Reblock.v: rb_footer_table_order). *)
From Coq Require Import ZArith List Bool Lia.
Import ListNotations.
From SZ Require Import Gen.Reblock.
Open Scope Z_scope.

Definition zin (k : Z) (l : list Z) : bool := existsb (Z.eqb k) l.

(* one tracefield query on the converter object *)
Definition memo_query (stored memo : list Z) (q : Z) : list Z :=
  if zin q stored && negb (zin q memo) then memo ++ [q] else memo.

(* the bulk load at the end of convert_to_adv_sgz *)
Fixpoint memo_fill (memo rest : list Z) : list Z :=
  match rest with
  | [] => memo
  | k :: r => memo_fill (if zin k memo then memo else memo ++ [k]) r
  end.

Definition memo_after (stored queries : list Z) : list Z :=
  memo_fill (fold_left (memo_query stored) queries []) stored.

(* the keys whose arrays are written, in writing order; primary k: hw_info.table[k][1] == k *)
Definition footer_order_of (table_order : bool) (primary : Z -> bool) (stored queries : list Z) : list Z :=
  filter primary (if table_order then stored else memo_after stored queries).

Definition footer_order := footer_order_of rb_footer_table_order.

(* what a reader expects: the primary stored keys in table order *)
Definition expected_order (primary : Z -> bool) (stored : list Z) : list Z := filter primary stored.

Lemma table_order_any_history : forall primary stored queries,
  footer_order_of true primary stored queries = expected_order primary stored.
Proof. reflexivity. Qed.

Lemma memo_fill_fresh : forall rest memo, (forall k, In k rest -> zin k memo = false) -> NoDup rest ->
  memo_fill memo rest = memo ++ rest.
Proof.
  induction rest as [|k r IH]; intros memo Hn Hd; cbn [memo_fill].
  - now rewrite app_nil_r.
  - rewrite (Hn k (or_introl eq_refl)). inversion Hd as [|? ? Hk Hr]; subst.
    rewrite IH; [now rewrite <- app_assoc | | exact Hr].
    intros j Hj. unfold zin. rewrite existsb_app, orb_false_iff. split.
    + apply (Hn j). now right.
    + cbn. rewrite orb_false_r. apply Z.eqb_neq. intros ->. contradiction.
Qed.

(* a FRESH object (no query) writes in table order in either mode *)
Lemma fresh_object_table_order : forall b primary stored, NoDup stored ->
  footer_order_of b primary stored [] = expected_order primary stored.
Proof.
  intros [|] primary stored Hd; [reflexivity|].
  unfold footer_order_of, memo_after. cbn [fold_left].
  rewrite memo_fill_fresh; [reflexivity | reflexivity | exact Hd].
Qed.

(* the memo mode is wrong after one query of a later key: stored keys 181, 189, 193, query 193 *)
Lemma memo_order_refuted :
  exists primary stored queries, NoDup stored /\
    footer_order_of false primary stored queries <> expected_order primary stored.
Proof.
  exists (fun _ => true), [181; 189; 193], [193]. split.
  - repeat constructor; cbn; intuition discriminate.
  - vm_compute. discriminate.
Qed.

Lemma current_code_any_history : forall primary stored queries,
  footer_order primary stored queries = expected_order primary stored.
Proof. exact table_order_any_history. Qed.

(* ---- D46: the converter object's header bytes after convert_to_segy ----
   hb: the stored SEG-Y file header (headerbytes[DISK_BLOCK_BYTES:]) as a list of bytes; code: the format code read from it.
   convert_to_segy substitutes the default code in a COPY that it assigns to self.headerbytes when code is not accepted;
   export_restores_headerbytes (GENERATED from the shape of the function) says whether the object gets its bytes back. *)
From SZ Require Import Gen.Export.

Definition splice (hb : list Z) (lo : Z) (bs : list Z) : list Z :=
  firstn (Z.to_nat lo) hb ++ bs ++ skipn (Z.to_nat lo + length bs) hb.

Definition headerbytes_after_export_of (restores : bool) (hb : list Z) (code : Z) : list Z :=
  if existsb (Z.eqb code) export_fmt_accepted then hb
  else if restores then hb else splice hb export_fmt_patch_lo export_fmt_patch_bytes.

Definition headerbytes_after_export := headerbytes_after_export_of export_restores_headerbytes.

Lemma restoring_export_leaves_headerbytes : forall hb code, headerbytes_after_export_of true hb code = hb.
Proof. intros hb code. unfold headerbytes_after_export_of. now destruct (existsb _ _). Qed.

Lemma current_export_leaves_headerbytes : forall hb code, headerbytes_after_export hb code = hb.
Proof. exact restoring_export_leaves_headerbytes. Qed.

Lemma nonrestoring_export_refuted : exists hb code, headerbytes_after_export_of false hb code <> hb.
Proof. exists (repeat 0 3600), 0. vm_compute. discriminate. Qed.

(* ---- D47: loading the header arrays inside a conversion, after earlier queries on the same object ----
   mode: the padding mode the memo is in (None: nothing loaded yet).  read_variant_headers asserts, for a file that is not
   structured, that the requested mode is the memo's; _load_variant_headers clears the memo first when the modes differ. *)
Inductive load_result := LoadOk (mode_after : bool) (reloaded : bool) | LoadAssertionError.

Definition load_headers (reload structured : bool) (mode : option bool) (want : bool) : load_result :=
  match mode with
  | None => LoadOk want false
  | Some m => if structured then LoadOk m false
              else if Bool.eqb m want then LoadOk want false
              else if reload then LoadOk want true else LoadAssertionError
  end.

Lemma reloading_load_never_refuses : forall structured mode want,
  load_headers true structured mode want <> LoadAssertionError.
Proof. intros structured [m|] want; cbn; [|discriminate]. destruct structured; [discriminate|]. destruct (Bool.eqb m want); discriminate. Qed.

Lemma reblock_load_never_refuses : forall structured mode,
  load_headers rb_footer_reload_on_mode_switch structured mode rb_footer_include_padding <> LoadAssertionError.
Proof. intros. apply reloading_load_never_refuses. Qed.

Lemma export_load_never_refuses : forall structured mode,
  load_headers export_headers_reload_on_mode_switch structured mode false <> LoadAssertionError.
Proof. intros. apply reloading_load_never_refuses. Qed.

Lemma direct_load_refuted : exists structured mode want, load_headers false structured mode want = LoadAssertionError.
Proof. exists false, (Some false), true. reflexivity. Qed.
