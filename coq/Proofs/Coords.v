(* Proofs/Coords.v -- lemmas behind Props/C02d.v and Props/C14b.v: the by-number / by-coordinate entry points of the
   reader (Model/Coords.v over the GENERATED Gen/Coords.v).  Everything is proved for arbitrary axes, lengths and values
   by induction / arithmetic; nothing is enumerated. *)
From Coq Require Import ZArith List Bool Lia.
Import ListNotations.
From SZ Require Import Lib.Py Gen.Utils Gen.Reader Gen.Coords Spec.Container Model.Coords
  Proofs.PyLemmas Proofs.Default Proofs.TwoD Proofs.General Proofs.Traces.
Open Scope Z_scope.

(* ---------------------------------------------------------------------------------------------------------------- *)
(* sequences *)
Lemma zlen_nonneg {A} (l : list A) : 0 <= zlen l.
Proof. unfold zlen. lia. Qed.

Lemma zlen_cons {A} (x : A) l : zlen (x :: l) = zlen l + 1.
Proof. unfold zlen. cbn [List.length]. lia. Qed.

Lemma zth_nil {A} i : zth (@nil A) i = None.
Proof. unfold zth. destruct (i <? 0); [reflexivity|]. destruct (Z.to_nat i); reflexivity. Qed.

Lemma zth_cons {A} (x : A) l i : 0 <= i -> zth (x :: l) i = if i =? 0 then Some x else zth l (i - 1).
Proof.
  intros Hi. unfold zth. replace (i <? 0) with false by lia.
  destruct (Z.eqb_spec i 0) as [->|N]; [reflexivity|].
  replace (i - 1 <? 0) with false by lia.
  replace (Z.to_nat i) with (S (Z.to_nat (i - 1))) by lia. reflexivity.
Qed.

Lemma zth_neg {A} (l : list A) i : i < 0 -> zth l i = None.
Proof. intros Hi. unfold zth. replace (i <? 0) with true by lia. reflexivity. Qed.

Lemma zth_some_range {A} (l : list A) i x : zth l i = Some x -> 0 <= i < zlen l.
Proof.
  unfold zth, zlen. destruct (Z.ltb_spec i 0) as [|P]; [discriminate|]. intros E.
  assert (Hn : (Z.to_nat i < List.length l)%nat) by (apply nth_error_Some; rewrite E; discriminate). lia.
Qed.

Lemma zth_in {A} (l : list A) i x : zth l i = Some x -> In x l.
Proof. unfold zth. destruct (i <? 0); intros E; [discriminate E|]. exact (nth_error_In _ _ E). Qed.

Lemma in_zth {A} (l : list A) x : In x l -> exists i, zth l i = Some x.
Proof.
  intros I. destruct (In_nth_error _ _ I) as (k & E). exists (Z.of_nat k). unfold zth.
  destruct (Z.ltb_spec (Z.of_nat k) 0) as [L|_]; [lia|]. rewrite Nat2Z.id. exact E.
Qed.

Lemma zth_map {A B} (f : A -> B) l i : zth (map f l) i = option_map f (zth l i).
Proof. unfold zth. destruct (i <? 0); [reflexivity|]. apply nth_error_map. Qed.

Lemma nth_error_zrange_nat lo n k : (k < n)%nat -> nth_error (zrange_nat lo n) k = Some (lo + Z.of_nat k).
Proof.
  revert lo k. induction n as [|n IH]; intros lo k Hk; [lia|]. destruct k as [|k]; cbn [zrange_nat nth_error].
  - f_equal. lia.
  - rewrite IH by lia. f_equal. lia.
Qed.

Lemma zth_zrange n i : 0 <= i < n -> zth (zrange 0 n) i = Some i.
Proof.
  intros Hi. unfold zth, zrange. replace (i <? 0) with false by lia.
  rewrite nth_error_zrange_nat by lia. f_equal. lia.
Qed.

Lemma zlen_zrange n : zlen (zrange 0 n) = Z.max 0 n.
Proof. unfold zlen, zrange. rewrite zrange_nat_length. lia. Qed.

Lemma zlen_map {A B} (f : A -> B) l : zlen (map f l) = zlen l.
Proof. unfold zlen. rewrite map_length. reflexivity. Qed.

Lemma zth_none_ge {A} (l : list A) i : zlen l <= i -> zth l i = None.
Proof.
  intros Hi. pose proof (zlen_nonneg l). unfold zth. replace (i <? 0) with false by lia.
  apply nth_error_None. unfold zlen in Hi. lia.
Qed.

Lemma py_get_nonneg {A} (l : list A) k : 0 <= k ->
  py_get l k = match zth l k with Some x => Return x | None => Raise IndexErr end.
Proof. intros Hk. unfold py_get. replace (k <? 0) with false by lia. reflexivity. Qed.

Lemma py_get_neg {A} (l : list A) k : k < 0 ->
  py_get l k = match zth l (k + zlen l) with Some x => Return x | None => Raise IndexErr end.
Proof. intros Hk. unfold py_get. replace (k <? 0) with true by lia. reflexivity. Qed.

Lemma py_get_raises {A} (l : list A) k e : py_get l k = Raise e -> e = IndexErr.
Proof. unfold py_get. destruct (zth l _); [discriminate|]. intros E. injection E as <-. reflexivity. Qed.

Lemma eval_subs_raises {A} (l : list A) ks e : eval_subs l ks = Raise e -> e = IndexErr.
Proof.
  induction ks as [|k r IH]; cbn [eval_subs]; [discriminate|]. destruct (py_get l k) eqn:E; cbn [bind].
  - exact IH. - intros E'. injection E' as <-. exact (py_get_raises _ _ _ E).
Qed.

(* ---------------------------------------------------------------------------------------------------------------- *)
(* np.where(...)[0][0] = the first position where the test holds *)
Fixpoint find_from {C} (test : C -> bool) (l : list C) (i : Z) : outcome Z :=
  match l with [] => Raise IndexErr | x :: r => if test x then Return i else find_from test r (i + 1) end.

Lemma where_first {C} (test : C -> bool) l i : py_get (where_from test l i) 0 = find_from test l i.
Proof.
  revert i. induction l as [|x r IH]; intros i; cbn [where_from find_from]; [reflexivity|].
  destruct (test x); [reflexivity | apply IH].
Qed.

Section Generic.
Context {C : Type} (O : coord_ops C).
Hypothesis EQ : eq_ops O.

Lemma eqb_refl c : c_eqb O c c = true.
Proof. apply EQ. reflexivity. Qed.

Lemma eqb_false x y : x <> y -> c_eqb O x y = false.
Proof. intros N. destruct (c_eqb O x y) eqn:E; [|reflexivity]. apply EQ in E. contradiction. Qed.

Lemma find_from_return c l i0 i :
  find_from (fun x => c_eqb O x c) l i0 = Return i <-> i0 <= i /\ first_at l (i - i0) c.
Proof.
  revert i0. induction l as [|x r IH]; intros i0; cbn [find_from].
  - split; [discriminate|]. intros (_ & Z1 & _). rewrite zth_nil in Z1. discriminate.
  - destruct (c_eqb O x c) eqn:E.
    + apply EQ in E. subst x. split.
      * intros R. injection R as <-. split; [lia|]. replace (i0 - i0) with 0 by lia. split; [reflexivity|]. intros j Hj. lia.
      * intros (Hi & Z1 & F). destruct (Z.eq_dec i i0) as [->|N]; [reflexivity|].
        exfalso. apply (F 0); [lia|]. reflexivity.
    + assert (N : x <> c) by (intros ->; rewrite eqb_refl in E; discriminate).
      rewrite IH. unfold first_at. split.
      * intros (Hi & Z1 & F). split; [lia|]. split.
        -- rewrite zth_cons by lia. replace (i - i0 =? 0) with false by lia. replace (i - i0 - 1) with (i - (i0 + 1)) by lia. exact Z1.
        -- intros j Hj. rewrite zth_cons by lia. destruct (Z.eqb_spec j 0) as [->|Nj].
           ++ intros E'. injection E' as E'. contradiction.
           ++ apply F. lia.
      * intros (Hi & Z1 & F). assert (Hne : i - i0 <> 0).
        { intros E0. rewrite E0 in Z1. cbn in Z1. injection Z1 as Z1. contradiction. }
        split; [lia|]. split.
        -- rewrite zth_cons in Z1 by lia. replace (i - i0 =? 0) with false in Z1 by lia.
           replace (i - (i0 + 1)) with (i - i0 - 1) by lia. exact Z1.
        -- intros j Hj. specialize (F (j + 1) ltac:(lia)). rewrite zth_cons in F by lia.
           replace (j + 1 =? 0) with false in F by lia. replace (j + 1 - 1) with j in F by lia. exact F.
Qed.

Lemma find_from_raise c l i0 : (exists i, find_from (fun x => c_eqb O x c) l i0 = Return i) \/
  (find_from (fun x => c_eqb O x c) l i0 = Raise IndexErr /\ ~ In c l).
Proof.
  revert i0. induction l as [|x r IH]; intros i0; cbn [find_from].
  - right. split; [reflexivity | intros []].
  - destruct (c_eqb O x c) eqn:E; [left; eexists; reflexivity|].
    destruct (IH (i0 + 1)) as [L | (R & NI)]; [left; exact L|]. right. split; [exact R|].
    intros [->|I]; [rewrite eqb_refl in E; discriminate | contradiction].
Qed.

Lemma find_from_in c l i0 i : find_from (fun x => c_eqb O x c) l i0 = Return i -> In c l.
Proof. intros R. apply find_from_return in R. destruct R as (_ & Z1 & _). exact (zth_in _ _ _ Z1). Qed.

(* the try-part of coord_to_index *)
Definition first_match (c : C) (l : list C) : outcome Z := find_from (fun x => c_eqb O x c) l 0.

Lemma cti_unfold c l b : cm_coord_to_index O c l b =
  match first_match c l with
  | Return i => Return i
  | Raise _ => if b then match stop_value O l with
                        | Some s => if c_eqb O c s then Return (zlen l) else Raise IndexErr
                        | None => Raise IndexErr end
               else Raise IndexErr
  end.
Proof.
  unfold cm_coord_to_index, first_match, cx_where_axis, cx_where_pick, cx_where_test, np_where.
  change (py_get [where_from (fun x => c_eqb O x c) l 0] 0) with (Return (where_from (fun x => c_eqb O x c) l 0)).
  cbn [bind]. rewrite where_first.
  destruct (find_from_raise c l 0) as [(i & R) | (R & _)]; rewrite R; [reflexivity|].
  change (exn_eqb IndexErr cx_caught) with true. cbv iota. destruct b; [|reflexivity].
  unfold cx_stop_subscripts, cx_stop_test, cx_stop_result, cx_miss, stop_value, py_get_or. cbn [eval_subs].
  destruct (py_get l (-1)) as [last|e1] eqn:E1; cbn [bind].
  - destruct (py_get l (-2)) as [prev|e2] eqn:E2; cbn [bind]; [reflexivity|].
    rewrite (py_get_raises _ _ _ E2). reflexivity.
  - rewrite (py_get_raises _ _ _ E1). reflexivity.
Qed.

(* coord_to_index(c, coords) returns i iff i is the first position holding c *)
Lemma cti_returns c l i : cm_coord_to_index O c l false = Return i <-> first_at l i c.
Proof.
  rewrite cti_unfold. unfold first_match. destruct (find_from (fun x => c_eqb O x c) l 0) as [k|e] eqn:R.
  - split.
    + intros E. injection E as <-. apply find_from_return in R. destruct R as (_ & F). replace (k - 0) with k in F by lia. exact F.
    + intros F. f_equal. assert (R' : find_from (fun x => c_eqb O x c) l 0 = Return i).
      { apply find_from_return. split; [|replace (i - 0) with i by lia; exact F]. destruct F as (Z1 & _). apply zth_some_range in Z1. lia. }
      rewrite R in R'. injection R' as ->. reflexivity.
  - split; [discriminate|]. intros F. exfalso.
    assert (R' : find_from (fun x => c_eqb O x c) l 0 = Return i).
    { apply find_from_return. split; [|replace (i - 0) with i by lia; exact F]. destruct F as (Z1 & _). apply zth_some_range in Z1. lia. }
    rewrite R in R'. discriminate.
Qed.

(* ... and raises IndexError iff c does not occur *)
Lemma cti_raises c l : cm_coord_to_index O c l false = Raise IndexErr <-> ~ In c l.
Proof.
  rewrite cti_unfold. unfold first_match. destruct (find_from_raise c l 0) as [(i & R) | (R & NI)]; rewrite R.
  - split; [discriminate|]. intros NI. exfalso. apply NI. exact (find_from_in _ _ _ _ R).
  - split; [intros _; exact NI | reflexivity].
Qed.

(* total: a position or IndexError, nothing else *)
Lemma cti_total c l b : (exists i, cm_coord_to_index O c l b = Return i) \/ cm_coord_to_index O c l b = Raise IndexErr.
Proof.
  rewrite cti_unfold. destruct (first_match c l); [left; eexists; reflexivity|].
  destruct b; [|right; reflexivity]. destruct (stop_value O l) as [s|]; [|right; reflexivity].
  destruct (c_eqb O c s); [left; eexists; reflexivity | right; reflexivity].
Qed.

Lemma cti_only_index_error c l b e : cm_coord_to_index O c l b = Raise e -> e = IndexErr.
Proof. intros E. destruct (cti_total c l b) as [(i & R) | R]; rewrite R in E; [discriminate | injection E as <-; reflexivity]. Qed.

(* duplicates: the first occurrence wins *)
Lemma cti_duplicates c pre post : ~ In c pre ->
  cm_coord_to_index O c (pre ++ c :: post) false = Return (zlen pre).
Proof.
  intros NI. apply cti_returns. unfold first_at, zth, zlen. pose proof (Nat2Z.is_nonneg (List.length pre)) as P. split.
  - replace (Z.of_nat (List.length pre) <? 0) with false by lia. rewrite Nat2Z.id.
    rewrite nth_error_app2 by lia. rewrite Nat.sub_diag. reflexivity.
  - intros j Hj. replace (j <? 0) with false by lia. rewrite nth_error_app1 by lia.
    intros E. apply NI. exact (nth_error_In _ _ E).
Qed.

(* include_stop = True: a coordinate of the axis is looked up as before *)
Lemma cti_stop_on_axis c l : In c l -> cm_coord_to_index O c l true = cm_coord_to_index O c l false.
Proof.
  intros I. rewrite !cti_unfold. unfold first_match.
  destruct (find_from_raise c l 0) as [(i & R) | (R & NI)]; [rewrite R; reflexivity | contradiction].
Qed.

(* ... and a coordinate that is not on the axis gives len(coords) iff it equals coords[-1] + (coords[-1] - coords[-2]);
   on an axis with fewer than two elements (no stop value) it is refused *)
Lemma cti_stop_off_axis c l : ~ In c l ->
  cm_coord_to_index O c l true =
  match stop_value O l with Some s => if c_eqb O c s then Return (zlen l) else Raise IndexErr | None => Raise IndexErr end.
Proof.
  intros NI. rewrite cti_unfold. unfold first_match.
  destruct (find_from_raise c l 0) as [(i & R) | (R & _)]; [exfalso; exact (NI (find_from_in _ _ _ _ R)) | rewrite R; reflexivity].
Qed.

Lemma stop_value_short l : zlen l < 2 -> stop_value O l = None.
Proof.
  intros L. unfold stop_value. rewrite (py_get_neg l (-2)) by lia. rewrite zth_neg by lia.
  destruct (py_get l (-1)); reflexivity.
Qed.

Lemma zth_app2 {A} (a b : list A) j : 0 <= j -> zth (a ++ b) (zlen a + j) = zth b j.
Proof.
  intros Hj. unfold zth, zlen. pose proof (Nat2Z.is_nonneg (List.length a)) as P.
  destruct (Z.ltb_spec (Z.of_nat (List.length a) + j) 0) as [L|_]; [lia|].
  destruct (Z.ltb_spec j 0) as [L|_]; [lia|].
  replace (Z.to_nat (Z.of_nat (List.length a) + j)) with (List.length a + Z.to_nat j)%nat by lia.
  rewrite nth_error_app2 by lia. f_equal. lia.
Qed.

Lemma zlen_app {A} (a b : list A) : zlen (a ++ b) = zlen a + zlen b.
Proof. unfold zlen. rewrite app_length. lia. Qed.

Lemma stop_value_two pre p q : stop_value O (pre ++ [p; q]) = Some (c_add O q (c_sub O q p)).
Proof.
  unfold stop_value. rewrite !py_get_neg by lia. rewrite zlen_app. change (zlen [p; q]) with 2.
  replace (-1 + (zlen pre + 2)) with (zlen pre + 1) by lia. replace (-2 + (zlen pre + 2)) with (zlen pre + 0) by lia.
  rewrite !zth_app2 by lia. reflexivity.
Qed.

(* ------------------------------------------------------------------------------------------------------------ *)
(* index methods and by-number readers *)
Lemma get_index_no_flag ix : cx_indexer_flag ix None = false.
Proof. destruct ix; reflexivity. Qed.

Lemma read_by_number_eq A H e v i : first_at (axis_of A (cx_indexer_axis (cx_entry_indexer e))) i v ->
  cm_read_by_number O A H e v = cx_entry_reader e H i.
Proof.
  intros F. unfold cm_read_by_number, cm_get_index.
  replace (cx_indexer_flag (cx_entry_indexer e) (cx_entry_flag e)) with false by (destruct e; reflexivity).
  apply cti_returns in F. rewrite F. reflexivity.
Qed.

Lemma read_by_number_refused A H e v : ~ In v (axis_of A (cx_indexer_axis (cx_entry_indexer e))) ->
  cm_read_by_number O A H e v = Raise IndexErr.
Proof.
  intros NI. unfold cm_read_by_number, cm_get_index.
  replace (cx_indexer_flag (cx_entry_indexer e) (cx_entry_flag e)) with false by (destruct e; reflexivity).
  apply cti_raises in NI. rewrite NI. reflexivity.
Qed.

Lemma get_index_returns A ix v i : cm_get_index O A ix v None = Return i <-> first_at (axis_of A (cx_indexer_axis ix)) i v.
Proof. unfold cm_get_index. rewrite (get_index_no_flag ix). apply cti_returns. Qed.

Lemma get_index_refused A ix v : cm_get_index O A ix v None = Raise IndexErr <-> ~ In v (axis_of A (cx_indexer_axis ix)).
Proof. unfold cm_get_index. rewrite (get_index_no_flag ix). apply cti_raises. Qed.

End Generic.

(* ---------------------------------------------------------------------------------------------------------------- *)
(* arithmetic axes, exact integer coordinates *)
Lemma Zops_eq : eq_ops Zops.
Proof. intros x y. apply Z.eqb_eq. Qed.

Lemma zth_arith s d n i : zth (arith s d n) i = if (0 <=? i) && (i <? n) then Some (s + d * i) else None.
Proof.
  unfold arith. rewrite zth_map. destruct (Z.leb_spec 0 i); destruct (Z.ltb_spec i n); cbn [andb].
  - rewrite zth_zrange by lia. reflexivity.
  - rewrite zth_none_ge; [reflexivity | rewrite zlen_zrange; lia].
  - rewrite zth_neg by lia. reflexivity.
  - rewrite zth_neg by lia. reflexivity.
Qed.

Lemma zlen_arith s d n : zlen (arith s d n) = Z.max 0 n.
Proof. unfold arith. rewrite zlen_map. apply zlen_zrange. Qed.

Lemma in_arith s d n v : In v (arith s d n) <-> exists i, 0 <= i < n /\ v = s + d * i.
Proof.
  unfold arith. rewrite in_map_iff. split.
  - intros (k & E & I). apply in_zrange in I. exists k. split; [lia | symmetry; exact E].
  - intros (k & Hk & E). exists k. split; [symmetry; exact E | apply in_zrange; lia].
Qed.

Lemma arith_inj s d i j : d <> 0 -> s + d * i = s + d * j -> i = j.
Proof. intros D E. assert (E' : d * i = d * j) by lia. exact (Z.mul_reg_l _ _ _ D E'). Qed.

Lemma first_at_arith s d n i v : d <> 0 -> first_at (arith s d n) i v <-> 0 <= i < n /\ v = s + d * i.
Proof.
  intros D. unfold first_at. split.
  - intros (Z1 & _). rewrite zth_arith in Z1. destruct ((0 <=? i) && (i <? n)) eqn:E; [|discriminate].
    injection Z1 as <-. split; [lia | reflexivity].
  - intros (Hi & ->). split.
    + rewrite zth_arith. replace ((0 <=? i) && (i <? n)) with true by lia. reflexivity.
    + intros j Hj. rewrite zth_arith. replace ((0 <=? j) && (j <? n)) with true by lia.
      intros E. injection E as E. apply (arith_inj s d j i D) in E. lia.
Qed.

(* on the axis s + d*k (k < n, d <> 0, any sign): coord_to_index returns i iff 0 <= i < n and the value is s + d*i *)
Lemma arith_index s d n v i : d <> 0 ->
  cm_coord_to_index Zops v (arith s d n) false = Return i <-> 0 <= i < n /\ v = s + d * i.
Proof. intros D. rewrite (cti_returns Zops Zops_eq). apply first_at_arith. exact D. Qed.

(* ... and raises IndexError for exactly the other values: never a neighbouring position *)
Lemma arith_refused s d n v :
  cm_coord_to_index Zops v (arith s d n) false = Raise IndexErr <-> ~ (exists i, 0 <= i < n /\ v = s + d * i).
Proof. rewrite (cti_raises Zops Zops_eq). rewrite in_arith. reflexivity. Qed.

Lemma arith_between s d n v : (v - s) mod d <> 0 -> ~ (exists i, 0 <= i < n /\ v = s + d * i).
Proof.
  intros M (i & _ & ->). apply M. replace (s + d * i - s) with (i * d) by ring. apply Z_mod_mult.
Qed.

Lemma arith_outside s d n i : d <> 0 -> i < 0 \/ n <= i -> ~ (exists j, 0 <= j < n /\ s + d * i = s + d * j).
Proof. intros D Hi (j & Hj & E). apply (arith_inj s d i j D) in E. lia. Qed.

Lemma stop_value_arith s d n : 2 <= n -> stop_value Zops (arith s d n) = Some (s + d * n).
Proof.
  intros N. unfold stop_value. rewrite !py_get_neg by lia. rewrite zlen_arith. replace (Z.max 0 n) with n by lia.
  rewrite !zth_arith.
  replace ((0 <=? -1 + n) && (-1 + n <? n)) with true by lia. replace ((0 <=? -2 + n) && (-2 + n <? n)) with true by lia.
  cbn [Zops c_add c_sub]. f_equal. ring.
Qed.

(* include_stop = True on an axis with at least two elements: additionally exactly s + d*n maps to n *)
Lemma arith_index_stop s d n v i : d <> 0 -> 2 <= n ->
  cm_coord_to_index Zops v (arith s d n) true = Return i <-> 0 <= i <= n /\ v = s + d * i.
Proof.
  intros D N. destruct (in_dec Z.eq_dec v (arith s d n)) as [I|NI].
  - rewrite (cti_stop_on_axis Zops Zops_eq) by exact I. rewrite arith_index by exact D.
    apply in_arith in I. destruct I as (k & Hk & ->). split.
    + intros (Hi & E). split; [lia | exact E].
    + intros (Hi & E). split; [|exact E]. apply (arith_inj s d k i D) in E. lia.
  - rewrite (cti_stop_off_axis Zops Zops_eq) by exact NI. rewrite stop_value_arith by exact N.
    rewrite zlen_arith. replace (Z.max 0 n) with n by lia. cbn [Zops c_eqb].
    destruct (Z.eqb_spec v (s + d * n)) as [->|Ne].
    + split.
      * intros E. injection E as <-. split; [lia | reflexivity].
      * intros (Hi & E). apply (arith_inj s d n i D) in E. subst i. reflexivity.
    + split; [discriminate|]. intros (Hi & ->). exfalso. destruct (Z.eq_dec i n) as [->|Nn]; [contradiction|].
      apply NI. apply in_arith. exists i. split; [lia | reflexivity].
Qed.

Lemma arith_stop_refused s d n v : d <> 0 -> 2 <= n ->
  cm_coord_to_index Zops v (arith s d n) true = Raise IndexErr <-> ~ (exists i, 0 <= i <= n /\ v = s + d * i).
Proof.
  intros D N. split.
  - intros R (i & Hi). apply (arith_index_stop s d n v i D N) in Hi. rewrite R in Hi. discriminate.
  - intros NE. destruct (cti_total Zops Zops_eq v (arith s d n) true) as [(i & R) | R]; [|exact R].
    exfalso. apply NE. exists i. apply (arith_index_stop s d n v i D N). exact R.
Qed.

(* a one-element axis: there is no coords[-2], so no stop coordinate is recognised *)
Lemma arith_stop_one s d v b :
  cm_coord_to_index Zops v (arith s d 1) b = if v =? s then Return 0 else Raise IndexErr.
Proof.
  rewrite (cti_unfold Zops Zops_eq). unfold first_match, arith. change (zrange 0 1) with [0]. cbn [map find_from Zops c_eqb].
  replace (s + d * 0) with s by ring. rewrite (Z.eqb_sym s v). destruct (v =? s); [reflexivity|].
  rewrite stop_value_short by (unfold zlen; cbn; lia). destruct b; reflexivity.
Qed.

(* an empty axis *)
Lemma arith_empty s d n v b : n <= 0 -> cm_coord_to_index Zops v (arith s d n) b = Raise IndexErr.
Proof.
  intros N. rewrite (cti_unfold Zops Zops_eq). unfold first_match, arith. rewrite zrange_empty by lia. cbn [map find_from].
  rewrite stop_value_short by (unfold zlen; cbn; lia). destruct b; reflexivity.
Qed.

(* increment 0 (every element equal): only position 0 can be reached *)
Lemma arith_zero_step s n b : 1 <= n -> cm_coord_to_index Zops s (arith s 0 n) b = Return 0.
Proof.
  intros N. assert (F : first_at (arith s 0 n) 0 s).
  { split; [|intros j Hj; lia]. rewrite zth_arith. replace ((0 <=? 0) && (0 <? n)) with true by lia. f_equal. ring. }
  destruct b; [rewrite (cti_stop_on_axis Zops Zops_eq) by exact (zth_in _ _ _ (proj1 F))|]; apply (cti_returns Zops Zops_eq); exact F.
Qed.

(* ---------------------------------------------------------------------------------------------------------------- *)
(* the line axes the reader builds from the header *)
Lemma wrap_signed_32 x y : (exists q, x = y + 4294967296 * q) -> - 2147483648 <= y < 2147483648 -> wrap_signed 32 x = y.
Proof.
  intros (q & ->) R. unfold wrap_signed. change (2 ^ (32 - 1)) with 2147483648. change (2 ^ 32) with 4294967296.
  replace (y + 4294967296 * q + 2147483648) with (y + 2147483648 + q * 4294967296) by ring.
  rewrite Z_mod_plus_full. rewrite Z.mod_small by lia. lia.
Qed.

(* start and step are read as UNSIGNED 32-bit fields; the cast to intc gives back the signed axis s + d*k as long as every
   element fits 32 bits *)
Lemma line_axis_arith start step n s d :
  start = s mod 4294967296 -> step = d mod 4294967296 ->
  (forall k, 0 <= k < n -> - 2147483648 <= s + d * k < 2147483648) ->
  line_axis start step n = arith s d n.
Proof.
  intros -> -> R. unfold line_axis, arith. apply map_ext_in. intros k Hk. apply in_zrange in Hk.
  unfold cx_line_cast_bits, cx_coord_elem. apply wrap_signed_32; [|apply R; lia].
  exists (- (s / 4294967296) - (d / 4294967296) * k).
  rewrite (Z.mod_eq s 4294967296) by lia. rewrite (Z.mod_eq d 4294967296) by lia. ring.
Qed.

Lemma zlen_line_axis start step n : zlen (line_axis start step n) = Z.max 0 n.
Proof. unfold line_axis. rewrite zlen_map. apply zlen_zrange. Qed.

Lemma header_axes_fit H X zs : 0 <= rd_n_ilines H -> 0 <= rd_n_xlines H -> zlen zs = rd_n_samples H ->
  axes_fit H (header_axes H X zs).
Proof.
  intros Hi Hx Hz. unfold axes_fit, header_axes. cbn [ax_il ax_xl ax_z]. rewrite !zlen_line_axis.
  unfold cx_ilines_count, cx_xlines_count. change (h_u32_12 H) with (rd_n_ilines H). change (h_u32_8 H) with (rd_n_xlines H).
  repeat split; [lia | lia | exact Hz].
Qed.

(* ---------------------------------------------------------------------------------------------------------------- *)
(* by-number readers composed with the theorems behind Props/C02.v, C02b.v *)
Section Composed.
Context {C : Type} (O : coord_ops C).
Hypothesis EQ : eq_ops O.
Variable A : axes C.
Variable H : hdr.
Hypothesis W : wf3 H = true.
Hypothesis FIT : axes_fit H A.

Lemma fit_il i v : first_at (ax_il A) i v -> 0 <= i < s_nil H.
Proof. intros (Z1 & _). apply zth_some_range in Z1. destruct FIT as (E & _ & _). rewrite E in Z1. exact Z1. Qed.
Lemma fit_xl i v : first_at (ax_xl A) i v -> 0 <= i < s_nxl H.
Proof. intros (Z1 & _). apply zth_some_range in Z1. destruct FIT as (_ & E & _). rewrite E in Z1. exact Z1. Qed.
Lemma fit_z i v : first_at (ax_z A) i v -> 0 <= i < s_ns H.
Proof. intros (Z1 & _). apply zth_some_range in Z1. destruct FIT as (_ & _ & E). rewrite E in Z1. exact Z1. Qed.

Lemma inline_number_default v i : default_layout H -> first_at (ax_il A) i v ->
  exists a, cm_read_by_number O A H EnInlineNumber v = Return a /\ av_shape a = [s_nxl H; s_ns H] /\
    (forall x z, 0 <= x < s_nxl H -> 0 <= z < s_ns H -> av_cell a [x; z] = spec_cell3 H i x z) /\
    av_reads a = [(s_ub3 H * unit_index3 H (i / 4) 0 0, s_ub3 H * ((s_PX H / 4) * (s_PZ H / 4)))].
Proof. intros D F. rewrite (read_by_number_eq O EQ A H EnInlineNumber v i F). exact (read_inline_default H W D i (fit_il i v F)). Qed.

Lemma inline_number_general v i : general_layout H -> first_at (ax_il A) i v ->
  exists a, cm_read_by_number O A H EnInlineNumber v = Return a /\ av_shape a = squeeze_shape [1; s_nxl H; s_ns H] /\
    (forall x z, 0 <= x < s_nxl H -> 0 <= z < s_ns H ->
       av_cell a (squeeze_index [1; s_nxl H; s_ns H] [0; x; z]) = spec_cell3 H i x z) /\
    av_reads a = box_reads H i (i + 1) 0 (s_nxl H) 0 (s_ns H).
Proof. intros G F. rewrite (read_by_number_eq O EQ A H EnInlineNumber v i F). exact (read_inline_general H W G i (fit_il i v F)). Qed.

Lemma crossline_number_default v i : default_layout H -> first_at (ax_xl A) i v ->
  exists a, cm_read_by_number O A H EnCrosslineNumber v = Return a /\ av_shape a = [s_nil H; s_ns H] /\
    (forall il z, 0 <= il < s_nil H -> 0 <= z < s_ns H -> av_cell a [il; z] = spec_cell3 H il i z) /\
    av_reads a = map (fun j => (s_ub3 H * unit_index3 H j (i / 4) 0, s_ub3 H * (s_PZ H / 4))) (zrange 0 (s_PI H / 4)).
Proof. intros D F. rewrite (read_by_number_eq O EQ A H EnCrosslineNumber v i F). exact (read_crossline_default H W D i (fit_xl i v F)). Qed.

Lemma crossline_number_general v i : general_layout H -> first_at (ax_xl A) i v ->
  exists a, cm_read_by_number O A H EnCrosslineNumber v = Return a /\ av_shape a = squeeze_shape [s_nil H; 1; s_ns H] /\
    (forall il z, 0 <= il < s_nil H -> 0 <= z < s_ns H ->
       av_cell a (squeeze_index [s_nil H; 1; s_ns H] [il; 0; z]) = spec_cell3 H il i z) /\
    av_reads a = box_reads H 0 (s_nil H) i (i + 1) 0 (s_ns H).
Proof. intros G F. rewrite (read_by_number_eq O EQ A H EnCrosslineNumber v i F). exact (read_crossline_general H W G i (fit_xl i v F)). Qed.

Lemma zslice_coord_default v i : default_layout H -> first_at (ax_z A) i v ->
  exists a, cm_read_by_number O A H EnZsliceCoord v = Return a /\ av_shape a = [s_nil H; s_nxl H] /\
    (forall il x, 0 <= il < s_nil H -> 0 <= x < s_nxl H -> av_cell a [il; x] = spec_cell3 H il x i) /\
    av_reads a = map (fun k => (s_ub3 H * (k * (s_PZ H / 4) + i / 4), s_ub3 H)) (zrange 0 ((s_PI H / 4) * (s_PX H / 4))).
Proof. intros D F. rewrite (read_by_number_eq O EQ A H EnZsliceCoord v i F). exact (read_zslice_default H W D i (fit_z i v F)). Qed.

Lemma zslice_coord_general v i : general_layout H -> s_bs2 H <> 4 -> first_at (ax_z A) i v ->
  exists a, cm_read_by_number O A H EnZsliceCoord v = Return a /\ av_shape a = squeeze_shape [s_nil H; s_nxl H; 1] /\
    (forall il x, 0 <= il < s_nil H -> 0 <= x < s_nxl H ->
       av_cell a (squeeze_index [s_nil H; s_nxl H; 1] [il; x; 0]) = spec_cell3 H il x i) /\
    av_reads a = box_reads H 0 (s_nil H) 0 (s_nxl H) i (i + 1).
Proof. intros G B F. rewrite (read_by_number_eq O EQ A H EnZsliceCoord v i F). exact (read_zslice_general H W G i B (fit_z i v F)). Qed.

Lemma zslice_coord_nn4 v i : general_layout H -> s_bs2 H = 4 -> first_at (ax_z A) i v ->
  exists a, cm_read_by_number O A H EnZsliceCoord v = Return a /\ av_shape a = [s_nil H; s_nxl H] /\
    (forall il x, 0 <= il < s_nil H -> 0 <= x < s_nxl H -> av_cell a [il; x] = spec_cell3 H il x i) /\
    av_reads a = zslice_adv_reads H i.
Proof. intros G B F. rewrite (read_by_number_eq O EQ A H EnZsliceCoord v i F). exact (read_zslice_nn4 H W G B i (fit_z i v F)). Qed.

End Composed.

(* ---------------------------------------------------------------------------------------------------------------- *)
(* get_trace_by_coord.  Two forms of the code are accepted by the generator (cx_gtbc_none_by_ordinal); every lemma is
   proved for the form that was generated: the branch for the other form is closed by its contradictory hypothesis. *)
Lemma none_coord_total {C} (O : coord_ops C) zs subs expr :
  (exists x, cm_none_coord O zs subs expr = Return x) \/ cm_none_coord O zs subs expr = Raise IndexErr.
Proof.
  unfold cm_none_coord. destruct (eval_subs zs subs) eqn:E; cbn [bind]; [left; eexists; reflexivity|].
  right. rewrite (eval_subs_raises _ _ _ E). reflexivity.
Qed.

Lemma get_index_total {C} (O : coord_ops C) (EQ : eq_ops O) A ix v g :
  (exists i, cm_get_index O A ix v g = Return i) \/ cm_get_index O A ix v g = Raise IndexErr.
Proof. unfold cm_get_index. apply (cti_total O EQ). Qed.

Section Window.
Context {C : Type} (O : coord_ops C).
Hypothesis EQ : eq_ops O.
Variable A : axes C.
Variable H : hdr.

(* a bound that was given is looked up on the sample axis: the lower one without, the upper one with include_stop *)
Lemma lo_lookup v : cm_get_index O A cx_gtbc_lo_indexer v cx_gtbc_lo_flag = cm_coord_to_index O v (ax_z A) false.
Proof. reflexivity. Qed.
Lemma hi_lookup v : cm_get_index O A cx_gtbc_hi_indexer v cx_gtbc_hi_flag = cm_coord_to_index O v (ax_z A) true.
Proof. reflexivity. Qed.

(* the window part raises nothing but IndexError *)
Lemma gtbc_window_total lo hi :
  (exists ab, cm_gtbc_window O A H lo hi = Return ab) \/ cm_gtbc_window O A H lo hi = Raise IndexErr.
Proof.
  unfold cm_gtbc_window. destruct cx_gtbc_none_by_ordinal.
  - destruct lo as [v|]; [destruct (get_index_total O EQ A cx_gtbc_lo_indexer v cx_gtbc_lo_flag) as [(a & R) | R]; rewrite R|];
      cbn [bind]; try (right; reflexivity);
      (destruct hi as [w|]; [destruct (get_index_total O EQ A cx_gtbc_hi_indexer w cx_gtbc_hi_flag) as [(b & R') | R']; rewrite R'|];
       cbn [bind]; try (right; reflexivity); left; eexists; reflexivity).
  - set (lo' := match lo with Some v => Return v | None => _ end).
    assert (TL : (exists x, lo' = Return x) \/ lo' = Raise IndexErr).
    { subst lo'. destruct lo; [left; eexists; reflexivity | apply none_coord_total]. }
    set (hi' := match hi with Some v => Return v | None => _ end).
    assert (TH : (exists x, hi' = Return x) \/ hi' = Raise IndexErr).
    { subst hi'. destruct hi; [left; eexists; reflexivity | apply none_coord_total]. }
    destruct TL as [(x & ->) | ->]; cbn [bind]; [|right; reflexivity].
    destruct TH as [(y & ->) | ->]; cbn [bind]; [|right; reflexivity].
    destruct (get_index_total O EQ A cx_gtbc_lo_indexer x cx_gtbc_lo_flag) as [(a & R) | R]; rewrite R; cbn [bind]; [|right; reflexivity].
    destruct (get_index_total O EQ A cx_gtbc_hi_indexer y cx_gtbc_hi_flag) as [(b & R') | R']; rewrite R'; cbn [bind]; [|right; reflexivity].
    left. eexists. reflexivity.
Qed.

(* a given lower bound that is not a coordinate of the axis is refused, whatever the upper bound *)
Lemma gtbc_lo_refused v hi : ~ In v (ax_z A) -> cm_gtbc_window O A H (Some v) hi = Raise IndexErr.
Proof.
  intros NI. apply (cti_raises O EQ) in NI. unfold cm_gtbc_window. destruct cx_gtbc_none_by_ordinal.
  - rewrite lo_lookup, NI. reflexivity.
  - cbn [bind]. set (hi' := match hi with Some w => Return w | None => _ end).
    assert (TH : (exists x, hi' = Return x) \/ hi' = Raise IndexErr).
    { subst hi'. destruct hi; [left; eexists; reflexivity | apply none_coord_total]. }
    destruct TH as [(y & ->) | ->]; cbn [bind]; [|reflexivity]. rewrite lo_lookup, NI. reflexivity.
Qed.

(* a given upper bound that is neither a coordinate of the axis nor the stop coordinate is refused, whatever the lower bound *)
Lemma gtbc_hi_refused lo w : ~ In w (ax_z A) -> (forall st, stop_value O (ax_z A) = Some st -> w <> st) ->
  cm_gtbc_window O A H lo (Some w) = Raise IndexErr.
Proof.
  intros NI NS.
  assert (R : cm_coord_to_index O w (ax_z A) true = Raise IndexErr).
  { rewrite (cti_stop_off_axis O EQ) by exact NI. destruct (stop_value O (ax_z A)) as [st|]; [|reflexivity].
    rewrite (eqb_false O EQ) by (apply NS; reflexivity). reflexivity. }
  unfold cm_gtbc_window. destruct cx_gtbc_none_by_ordinal.
  - destruct lo as [v|]; [destruct (get_index_total O EQ A cx_gtbc_lo_indexer v cx_gtbc_lo_flag) as [(a & R0) | R0]; rewrite R0|];
      cbn [bind]; try reflexivity; rewrite hi_lookup, R; reflexivity.
  - set (lo' := match lo with Some v => Return v | None => _ end).
    assert (TL : (exists x, lo' = Return x) \/ lo' = Raise IndexErr).
    { subst lo'. destruct lo; [left; eexists; reflexivity | apply none_coord_total]. }
    destruct TL as [(x & ->) | ->]; cbn [bind]; [|reflexivity].
    destruct (get_index_total O EQ A cx_gtbc_lo_indexer x cx_gtbc_lo_flag) as [(a & R0) | R0]; rewrite R0; cbn [bind]; [|reflexivity].
    rewrite hi_lookup, R. reflexivity.
Qed.

(* the present form of the code on a ONE-sample axis: the default of the upper bound evaluates zslices[1] *)
Lemma gtbc_one_sample lo : cx_gtbc_none_by_ordinal = false -> zlen (ax_z A) = 1 ->
  cm_gtbc_window O A H lo None = Raise IndexErr.
Proof.
  intros F L. first [discriminate F |
    unfold cm_gtbc_window; rewrite F;
    set (lo' := match lo with Some v => Return v | None => _ end);
    assert (TL : (exists x, lo' = Return x) \/ lo' = Raise IndexErr)
      by (subst lo'; destruct lo; [left; eexists; reflexivity | apply none_coord_total]);
    destruct TL as [(x & ->) | ->]; cbn [bind]; [|reflexivity];
    unfold cm_none_coord, cx_gtbc_hi_none_subscripts; cbn [eval_subs];
    destruct (py_get (ax_z A) (-1)) as [q|e] eqn:E1; cbn [bind];
    [ rewrite (py_get_nonneg (ax_z A) 1) by lia; rewrite zth_none_ge by lia; reflexivity
    | rewrite (py_get_raises _ _ _ E1); reflexivity ] ].
Qed.

End Window.

(* the window on an arithmetic sample axis with at least two samples: bounds given by their ordinals (cbound), None = from
   the first / to the last sample; the upper bound may be the coordinate one increment past the last sample (ordinal n) *)
Section WindowArith.
Variable A : axes Z.
Variable H : hdr.
Variables s d : Z.
Hypothesis AX : ax_z A = arith s d (rd_n_samples H).
Hypothesis D : d <> 0.
Hypothesis N : 2 <= rd_n_samples H.

Lemma idx_lo k : 0 <= k < rd_n_samples H -> cm_coord_to_index Zops (s + d * k) (ax_z A) false = Return k.
Proof. intros Hk. rewrite AX. apply arith_index; [exact D | split; [exact Hk | reflexivity]]. Qed.
Lemma idx_hi k : 0 <= k <= rd_n_samples H -> cm_coord_to_index Zops (s + d * k) (ax_z A) true = Return k.
Proof. intros Hk. rewrite AX. apply arith_index_stop; [exact D | exact N | split; [exact Hk | reflexivity]]. Qed.

Lemma gtbc_window_arith a b :
  (forall k, a = Some k -> 0 <= k < rd_n_samples H) -> (forall k, b = Some k -> 0 <= k <= rd_n_samples H) ->
  cm_gtbc_window Zops A H (cbound s d a) (cbound s d b) = Return (win_lo a, win_hi H b).
Proof.
  intros Ha Hb. unfold cm_gtbc_window.
  lazymatch eval cbv in cx_gtbc_none_by_ordinal with
  | true =>
      change cx_gtbc_none_by_ordinal with true; cbv iota;
      destruct a as [ka|]; cbn [cbound option_map win_lo];
      [rewrite lo_lookup, idx_lo by (apply Ha; reflexivity)|]; cbn [bind];
      (destruct b as [kb|]; cbn [cbound option_map win_hi];
       [rewrite hi_lookup, idx_hi by (apply Hb; reflexivity)|]; cbn [bind]; reflexivity)
  | false =>
      change cx_gtbc_none_by_ordinal with false; cbv iota;
      assert (G0 : py_get (ax_z A) 0 = Return (s + d * 0))
        by (rewrite AX, py_get_nonneg by lia; rewrite zth_arith; replace ((0 <=? 0) && (0 <? rd_n_samples H)) with true by lia; reflexivity);
      assert (G1 : py_get (ax_z A) 1 = Return (s + d * 1))
        by (rewrite AX, py_get_nonneg by lia; rewrite zth_arith; replace ((0 <=? 1) && (1 <? rd_n_samples H)) with true by lia; reflexivity);
      assert (GL : py_get (ax_z A) (-1) = Return (s + d * (-1 + rd_n_samples H)))
        by (rewrite AX, py_get_neg by lia; rewrite zlen_arith; replace (Z.max 0 (rd_n_samples H)) with (rd_n_samples H) by lia;
            rewrite zth_arith; replace ((0 <=? -1 + rd_n_samples H) && (-1 + rd_n_samples H <? rd_n_samples H)) with true by lia; reflexivity);
      assert (EL : match a with Some k => Return (s + d * k) | None => cm_none_coord Zops (ax_z A) cx_gtbc_lo_none_subscripts (cx_gtbc_lo_none_coord Zops) end
                   = Return (s + d * win_lo a))
        by (destruct a; cbn [win_lo]; [reflexivity|];
            unfold cm_none_coord, cx_gtbc_lo_none_subscripts, cx_gtbc_lo_none_coord, py_get_or; cbn [eval_subs]; rewrite G0; cbn [bind]; reflexivity);
      assert (EH : match b with Some k => Return (s + d * k) | None => cm_none_coord Zops (ax_z A) cx_gtbc_hi_none_subscripts (cx_gtbc_hi_none_coord Zops) end
                   = Return (s + d * win_hi H b))
        by (destruct b; cbn [win_hi]; [reflexivity|];
            unfold cm_none_coord, cx_gtbc_hi_none_subscripts, cx_gtbc_hi_none_coord, py_get_or; cbn [eval_subs]; rewrite GL, G1, G0; cbn [bind Zops c_add c_sub];
            f_equal; ring);
      replace (match cbound s d a with Some v => Return v | None => cm_none_coord Zops (ax_z A) cx_gtbc_lo_none_subscripts (cx_gtbc_lo_none_coord Zops) end)
        with (Return (A := Z) (s + d * win_lo a)) by (rewrite <- EL; destruct a; reflexivity);
      replace (match cbound s d b with Some v => Return v | None => cm_none_coord Zops (ax_z A) cx_gtbc_hi_none_subscripts (cx_gtbc_hi_none_coord Zops) end)
        with (Return (A := Z) (s + d * win_hi H b)) by (rewrite <- EH; destruct b; reflexivity);
      cbn [bind];
      rewrite lo_lookup, idx_lo by (destruct a; cbn [win_lo]; [apply Ha; reflexivity | lia]); cbn [bind];
      rewrite hi_lookup, idx_hi by (destruct b; cbn [win_hi]; [apply Hb; reflexivity | lia]); cbn [bind]; reflexivity
  end.
Qed.

End WindowArith.

(* ---------------------------------------------------------------------------------------------------------------- *)
(* get_trace_by_coord = get_trace on the window of ordinals; composed with Proofs/Traces.v *)
Lemma trace_by_coord_eq A H s d (mask_nth : Z -> outcome Z) t a b :
  ax_z A = arith s d (rd_n_samples H) -> d <> 0 -> 2 <= rd_n_samples H ->
  (forall k, a = Some k -> 0 <= k < rd_n_samples H) -> (forall k, b = Some k -> 0 <= k <= rd_n_samples H) ->
  cm_get_trace_by_coord Zops A mask_nth H t (cbound s d a) (cbound s d b) =
  rd_get_trace mask_nth H t (Some (win_lo a)) (Some (win_hi H b)) false.
Proof.
  intros AX D N Ha Hb. unfold cm_get_trace_by_coord. rewrite (gtbc_window_arith A H s d AX D N a b Ha Hb). reflexivity.
Qed.

Lemma trace_by_coord_arith A H s d (mask_nth : Z -> outcome Z) : wf3 H = true ->
  ax_z A = arith s d (s_ns H) -> d <> 0 -> 2 <= s_ns H -> rd_tracecount H = s_nil H * s_nxl H ->
  forall i x a b, 0 <= i < s_nil H -> 0 <= x < s_nxl H -> 0 <= win_lo a < win_hi H b -> win_hi H b <= s_ns H ->
  exists v, cm_get_trace_by_coord Zops A mask_nth H (i * s_nxl H + x) (cbound s d a) (cbound s d b) = Return v /\
    av_shape v = [win_hi H b - win_lo a] /\
    (forall z, 0 <= z < win_hi H b - win_lo a -> av_cell v [z] = spec_cell3 H i x (win_lo a + z)) /\
    av_reads v = trace_reads H i x (win_lo a) (win_hi H b).
Proof.
  intros W AX D N S i x a b Hi Hx Hw Hw1.
  rewrite (trace_by_coord_eq A H s d mask_nth (i * s_nxl H + x) a b AX D N).
  - exact (get_trace_at H mask_nth W i x (Some (win_lo a)) (Some (win_hi H b)) false (or_intror S) Hi Hx Hw Hw1).
  - intros k ->. cbn [win_lo] in Hw. change (rd_n_samples H) with (s_ns H). lia.
  - intros k ->. cbn [win_hi] in Hw, Hw1. change (rd_n_samples H) with (s_ns H). lia.
Qed.

Lemma trace_by_coord_lo_refused {C} (O : coord_ops C) (EQ : eq_ops O) A H (mask_nth : Z -> outcome Z) t v hi :
  ~ In v (ax_z A) -> cm_get_trace_by_coord O A mask_nth H t (Some v) hi = Raise IndexErr.
Proof. intros NI. unfold cm_get_trace_by_coord. rewrite (gtbc_lo_refused O EQ A H v hi NI). reflexivity. Qed.

Lemma trace_by_coord_hi_refused {C} (O : coord_ops C) (EQ : eq_ops O) A H (mask_nth : Z -> outcome Z) t lo w :
  ~ In w (ax_z A) -> (forall st, stop_value O (ax_z A) = Some st -> w <> st) ->
  cm_get_trace_by_coord O A mask_nth H t lo (Some w) = Raise IndexErr.
Proof. intros NI NS. unfold cm_get_trace_by_coord. rewrite (gtbc_hi_refused O EQ A H lo w NI NS). reflexivity. Qed.

Lemma trace_by_coord_lo_refused_arith A H s d n (mask_nth : Z -> outcome Z) t v hi : ax_z A = arith s d n ->
  ~ (exists i, 0 <= i < n /\ v = s + d * i) -> cm_get_trace_by_coord Zops A mask_nth H t (Some v) hi = Raise IndexErr.
Proof. intros AX NE. apply (trace_by_coord_lo_refused Zops Zops_eq). rewrite AX, in_arith. exact NE. Qed.

Lemma trace_by_coord_hi_refused_arith A H s d n (mask_nth : Z -> outcome Z) t lo w : ax_z A = arith s d n ->
  ~ (exists i, 0 <= i <= n /\ w = s + d * i) -> cm_get_trace_by_coord Zops A mask_nth H t lo (Some w) = Raise IndexErr.
Proof.
  intros AX NE. apply (trace_by_coord_hi_refused Zops Zops_eq); rewrite AX.
  - rewrite in_arith. intros (i & Hi & E). apply NE. exists i. split; [lia | exact E].
  - intros st E. destruct (Z_lt_le_dec n 2) as [L|G].
    + rewrite stop_value_short in E by (rewrite zlen_arith; lia). discriminate.
    + rewrite stop_value_arith in E by exact G. injection E as <-. intros ->. apply NE. exists n. split; [lia | reflexivity].
Qed.

(* by-number readers on arithmetic axes *)
Lemma by_number_arith A H e s d n i : axis_of A (cx_indexer_axis (cx_entry_indexer e)) = arith s d n -> d <> 0 ->
  0 <= i < n -> cm_read_by_number Zops A H e (s + d * i) = cx_entry_reader e H i.
Proof.
  intros AX D Hi. apply (read_by_number_eq Zops Zops_eq). rewrite AX. apply first_at_arith; [exact D | split; [exact Hi | reflexivity]].
Qed.

Lemma by_number_refused_arith A H e s d n v : axis_of A (cx_indexer_axis (cx_entry_indexer e)) = arith s d n ->
  ~ (exists i, 0 <= i < n /\ v = s + d * i) -> cm_read_by_number Zops A H e v = Raise IndexErr.
Proof. intros AX NE. apply (read_by_number_refused Zops Zops_eq). rewrite AX, in_arith. exact NE. Qed.

(* a raised outcome carries no array, hence no reads *)
Lemma raise_no_value {T} (m : outcome T) e : m = Raise e -> forall v, m <> Return v.
Proof. intros -> v. discriminate. Qed.

(* the refusal happens in the lookup: whatever would be done with the ordinal (any continuation f) is never reached *)
Lemma by_number_no_reader_call {C} (O : coord_ops C) (EQ : eq_ops O) A e v {T} (f : Z -> outcome T) :
  ~ In v (axis_of A (cx_indexer_axis (cx_entry_indexer e))) ->
  bind (cm_get_index O A (cx_entry_indexer e) v (cx_entry_flag e)) f = Raise IndexErr.
Proof.
  intros NI. unfold cm_get_index.
  replace (cx_indexer_flag (cx_entry_indexer e) (cx_entry_flag e)) with false by (destruct e; reflexivity).
  apply (cti_raises O EQ) in NI. rewrite NI. reflexivity.
Qed.

(* which ordinal reader and which axis each by-number method uses (a statement about the GENERATED tables) *)
Lemma entry_points :
  (forall H, cx_entry_reader EnInlineNumber H = rd_read_inline H) /\ cx_indexer_axis (cx_entry_indexer EnInlineNumber) = AxIlines /\
  (forall H, cx_entry_reader EnCrosslineNumber H = rd_read_crossline H) /\ cx_indexer_axis (cx_entry_indexer EnCrosslineNumber) = AxXlines /\
  (forall H, cx_entry_reader EnZsliceCoord H = rd_read_zslice H) /\ cx_indexer_axis (cx_entry_indexer EnZsliceCoord) = AxZslices.
Proof. repeat split. Qed.
