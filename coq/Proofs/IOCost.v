(* Proofs/IOCost.v -- C07c: opening, preload, trace-header regeneration, diagonal reads through the chunk LRU.
   Everything is proved for arbitrary headers / tables / sizes by induction and linear arithmetic. *)
From Coq Require Import ZArith List Bool Lia Sorted.
Import ListNotations.
From SZ Require Import Lib.Py Gen.Utils Gen.Reader Gen.Headers Gen.OpenIO Model.Headers Model.IOCost
  Proofs.PyLemmas Proofs.Headers.
From SZ Require Model.Caches.
Open Scope Z_scope.

(* ================================================================================================ (a) opening *)
Lemma open_header_reads_eq nhb :
  open_header_reads nhb = (0, 4096) :: (if nhb =? 1 then [] else [(0, 4096 * nhb)]).
Proof. unfold open_header_reads, ox_open_read1, ox_open_reread, ox_open_read2. destruct (nhb =? 1); reflexivity. Qed.

(* the two generators agree on where the data section starts *)
Lemma data_start_agree H : rd_data_start_bytes H = ox_data_start (rd_n_header_blocks H).
Proof. reflexivity. Qed.
Lemma data_start_eq H : rd_data_start_bytes H = 4096 * rd_n_header_blocks H.
Proof. rewrite data_start_agree. unfold ox_data_start. ring. Qed.

Lemma init_block_bytes H : rd_init H = Return tt -> rd_block_bytes H = ox_block_bytes_asserted.
Proof.
  unfold rd_init, rd_block_bytes, ox_block_bytes_asserted. intro Hi.
  repeat match type of Hi with (if ?c then _ else _) = _ => destruct c eqn:?; [discriminate Hi|] end.
  match goal with E : negb (_ =? 4096) = false |- _ => apply negb_false_iff, Z.eqb_eq in E; exact E end.
Qed.

Lemma filter_nil_all {A} (p : A -> bool) l : (forall x, In x l -> p x = false) -> filter p l = [].
Proof.
  induction l as [|a l IH]; intro Hf; [reflexivity|]. cbn [filter]. rewrite (Hf a (or_introl eq_refl)).
  apply IH. intros x Hx. apply Hf. right. exact Hx.
Qed.

Theorem open_only_header_blocks H : 1 <= rd_n_header_blocks H ->
  open_reader H false
    = ((0, 4096) :: (if rd_n_header_blocks H =? 1 then [] else [(0, 4096 * rd_n_header_blocks H)]), false) /\
  (forall o l, In (o, l) (fst (open_reader H false)) -> o = 0 /\ 0 < l /\ o + l <= rd_data_start_bytes H) /\
  rd_data_start_bytes H = 4096 * rd_n_header_blocks H /\
  data_requests H (fst (open_reader H false)) = [].
Proof.
  intro Hn.
  assert (E : open_reader H false
    = ((0, 4096) :: (if rd_n_header_blocks H =? 1 then [] else [(0, 4096 * rd_n_header_blocks H)]), false)).
  { unfold open_reader, loader_init. cbn [fst snd]. rewrite app_nil_r, open_header_reads_eq. reflexivity. }
  assert (B : forall o l, In (o, l) (fst (open_reader H false)) -> o = 0 /\ 0 < l /\ o + l <= rd_data_start_bytes H).
  { rewrite E, data_start_eq. cbn [fst]. intros o l [X|X].
    - apply pair_equal_spec in X. destruct X as [<- <-]. lia.
    - destruct (rd_n_header_blocks H =? 1); [destruct X|]. destruct X as [X|[]].
      apply pair_equal_spec in X. destruct X as [<- <-]. lia. }
  split; [exact E|]. split; [exact B|]. split; [apply data_start_eq|].
  unfold data_requests. apply filter_nil_all. intros [o l] Hx. destruct (B o l Hx) as (-> & Hl & Hle).
  unfold overlaps. cbn [fst snd]. apply andb_false_iff. right. apply Z.ltb_ge. lia.
Qed.

(* ================================================================================================ (c) preload *)
Lemma gcb_in_memory ds off len : gcb true ds off len = [].
Proof. reflexivity. Qed.
Lemma gcb_from_file ds off len : gcb false ds off len = [(ds + off, len)].
Proof. reflexivity. Qed.

Lemma flat_map_nil {A B} (f : A -> list B) l : (forall x, f x = []) -> flat_map f l = [].
Proof. intro Hf. induction l as [|a l IH]; [reflexivity|]. cbn [flat_map]. rewrite Hf, IH. reflexivity. Qed.

(* once the volume is in memory nothing reaches the file any more: neither sample reads nor a repeated load *)
Lemma run_events_preloaded ds ndb bb evs : run_events true ds ndb bb evs = [].
Proof.
  induction evs as [|e evs IH]; [reflexivity|]. destruct e as [rs|]; cbn [run_events].
  - rewrite IH, app_nil_r. apply flat_map_nil. intro r. apply gcb_in_memory.
  - cbn [load_volume ox_load_guard negb fst snd app]. exact IH.
Qed.

(* without preload every request of the choke point is one range read at data_start + offset *)
Lemma gcb_cold_map ds (rs : list (Z * Z)) :
  flat_map (fun r => gcb false ds (fst r) (snd r)) rs = map (fun r => (ds + fst r, snd r)) rs.
Proof. induction rs as [|r rs IHr]; [reflexivity|]. cbn [flat_map map]. rewrite gcb_from_file, IHr. reflexivity. Qed.
Lemma run_events_cold ds ndb bb (L : list (list (Z * Z))) :
  run_events false ds ndb bb (map Sample L) = flat_map (map (fun r => (ds + fst r, snd r))) L.
Proof.
  induction L as [|rs L IH]; [reflexivity|]. cbn [map run_events flat_map]. rewrite IH, gcb_cold_map. reflexivity.
Qed.

Theorem preload_once H evs :
  rd_init H = Return tt -> 1 <= rd_n_header_blocks H -> 1 <= rd_compressed_data_diskblocks H ->
  open_reader H true
    = (open_header_reads (rd_n_header_blocks H) ++ [(rd_data_start_bytes H, 4096 * rd_compressed_data_diskblocks H)], true) /\
  session H true evs = fst (open_reader H true) /\
  data_requests H (session H true evs) = [(rd_data_start_bytes H, 4096 * rd_compressed_data_diskblocks H)].
Proof.
  intros Hi Hn Hd.
  assert (E : open_reader H true
    = (open_header_reads (rd_n_header_blocks H) ++ [(rd_data_start_bytes H, 4096 * rd_compressed_data_diskblocks H)], true)).
  { unfold open_reader, loader_init, load_volume, ox_volume_at_init, ox_load_guard, ox_load_read. cbn [negb fst snd].
    rewrite (init_block_bytes H Hi). unfold ox_block_bytes_asserted.
    rewrite (Z.mul_comm (rd_compressed_data_diskblocks H) 4096). reflexivity. }
  assert (S : session H true evs = fst (open_reader H true)).
  { unfold session. rewrite E. cbn [fst snd]. rewrite run_events_preloaded, app_nil_r. reflexivity. }
  split; [exact E|]. split; [exact S|]. rewrite S, E. cbn [fst]. unfold data_requests. rewrite filter_app.
  destruct (open_only_header_blocks H Hn) as (E0 & B & Ds & _).
  assert (Z0 : filter (overlaps (rd_data_start_bytes H) (rd_data_start_bytes H + 4096 * rd_compressed_data_diskblocks H))
                      (open_header_reads (rd_n_header_blocks H)) = []).
  { apply filter_nil_all. intros [o l] Hx.
    assert (Hx' : In (o, l) (fst (open_reader H false))).
    { unfold open_reader, loader_init. cbn [fst snd]. rewrite app_nil_r. exact Hx. }
    destruct (B o l Hx') as (-> & Hl & Hle). unfold overlaps. cbn [fst snd]. apply andb_false_iff. right.
    apply Z.ltb_ge. lia. }
  rewrite Z0. cbn [app filter]. unfold overlaps. cbn [fst snd].
  replace (rd_data_start_bytes H <? rd_data_start_bytes H + 4096 * rd_compressed_data_diskblocks H) with true by lia.
  reflexivity.
Qed.

Theorem no_preload_session H (L : list (list (Z * Z))) :
  session H false (map Sample L)
  = open_header_reads (rd_n_header_blocks H) ++ flat_map (map (fun r => (rd_data_start_bytes H + fst r, snd r))) L.
Proof.
  unfold session, open_reader, loader_init, ox_volume_at_init. cbn [fst snd]. rewrite app_nil_r, run_events_cold. reflexivity.
Qed.

(* both backends issue the same single request for a range read *)
Lemma backends_agree o l : ox_request_file o l = (o, l) /\ ox_request_blob o l = (o, l).
Proof. split; reflexivity. Qed.

(* ================================================================================================ (b) trace headers *)
(* the two generators (genx_headers for C04, genx_openio here) extracted the same guard, path choice and word read *)
Lemma gen_agree index tracecount la st v :
  ox_hdr_index_ok index tracecount = hx_rd_index_ok index tracecount /\
  ox_hdr_via_arrays la st = hx_rd_via_arrays la st /\
  ox_hdr_word_read v index = (hx_rd_word_off v index, hx_rd_word_len).
Proof. repeat split; reflexivity. Qed.

Lemma tpl_offsets_app a b : tpl_offsets (a ++ b) = tpl_offsets a ++ tpl_offsets b.
Proof. unfold tpl_offsets. apply flat_map_app. Qed.
Lemma memo_offsets_snoc l o : memo_offsets (l ++ [o]) = memo_step (memo_offsets l) o.
Proof. unfold memo_offsets. rewrite fold_left_app. reflexivity. Qed.
Lemma memo_In l : forall x, In x (memo_offsets l) <-> In x l.
Proof.
  induction l as [|o l IH] using rev_ind; intro x; [reflexivity|]. rewrite memo_offsets_snoc. unfold memo_step.
  rewrite in_app_iff. cbn [In]. destruct (memZ o (memo_offsets l)) eqn:M.
  - apply memZ_In in M. rewrite IH in M. rewrite IH. split; [tauto|]. intros [X|[X|[]]]; [tauto|subst; tauto].
  - rewrite in_app_iff, IH. cbn [In]. tauto.
Qed.
Lemma memo_length_le l : (length (memo_offsets l) <= length l)%nat.
Proof.
  induction l as [|o l IH] using rev_ind; [apply Nat.le_refl|]. rewrite memo_offsets_snoc, app_length. unfold memo_step.
  cbn [length]. destruct (memZ o (memo_offsets l)); [lia|]. rewrite app_length. cbn [length]. lia.
Qed.
Lemma memo_id l : length (memo_offsets l) = length l -> memo_offsets l = l.
Proof.
  induction l as [|o l IH] using rev_ind; [reflexivity|]. rewrite memo_offsets_snoc, app_length. unfold memo_step.
  cbn [length]. pose proof (memo_length_le l) as Hle. destruct (memZ o (memo_offsets l)); [lia|].
  rewrite app_length. cbn [length]. intro E. rewrite IH by lia. reflexivity.
Qed.

Lemma assocZ_Some_In {A} k (l : list (Z * A)) v : assocZ k l = Some v -> exists k', In (k', v) l.
Proof.
  induction l as [|[k0 v0] l IH]; cbn [assocZ]; [discriminate|]. destruct (k =? k0).
  - intro E. inversion E; subst. exists k0. left. reflexivity.
  - intro E. destruct (IH E) as (k' & I). exists k'. right. exact I.
Qed.
Lemma In_tpl_offsets k o tpl : In (k, Off o) tpl -> In o (tpl_offsets tpl).
Proof. intro I. unfold tpl_offsets. apply in_flat_map. exists (k, Off o). split; [exact I|]. left. reflexivity. Qed.

Lemma zrange_snoc m : 0 <= m -> zrange 0 (m + 1) = zrange 0 m ++ [m].
Proof.
  intro Hm. rewrite <- (zrange_app 0 m (m + 1)) by lia. f_equal. unfold zrange. replace (m + 1 - m) with 1 by ring.
  reflexivity.
Qed.

Section Template.
  Variables nhb ndb padded : Z.
  Hypothesis Hp : padded <> 0.
  Local Notation off := (fun k => hx_tpl_offset nhb ndb k padded).

  Lemma off_inj j m : hx_tpl_offset nhb ndb j padded = hx_tpl_offset nhb ndb m padded -> j = m.
  Proof. unfold hx_tpl_offset. intro E. assert (E' : j * padded = m * padded) by lia. apply Z.mul_reg_r in E'; assumption. Qed.

  Definition ghd_inv (st : rstate) : Prop :=
    memo_offsets (tpl_offsets (rs_dict st)) = map off (zrange 0 (Z.of_nat (length (rs_stored st)))).

  Lemma ghd_step_inv st e : ghd_inv st -> ghd_inv (ghd_step nhb ndb padded st e).
  Proof.
    unfold ghd_inv. intro I. destruct e as [k [v0 v1]]. unfold ghd_step. destruct (hx_tpl_invariant v0 v1).
    - cbn [rs_dict rs_stored]. rewrite tpl_offsets_app. cbn. rewrite app_nil_r. exact I.
    - destruct (assocZ v1 (rs_dict st)) as [x|] eqn:A; cbn [rs_dict rs_stored].
      + rewrite tpl_offsets_app. destruct x as [c|o]; cbn; [rewrite app_nil_r; exact I|].
        rewrite memo_offsets_snoc. unfold memo_step.
        destruct (assocZ_Some_In _ _ _ A) as (k' & Hin). apply In_tpl_offsets in Hin.
        replace (memZ o (memo_offsets (tpl_offsets (rs_dict st)))) with true; [exact I|].
        symmetry. apply memZ_In. apply memo_In. exact Hin.
      + rewrite tpl_offsets_app. cbn. rewrite memo_offsets_snoc. unfold memo_step. rewrite I.
        set (m := Z.of_nat (length (rs_stored st))).
        replace (memZ (hx_tpl_offset nhb ndb m padded) (map off (zrange 0 m))) with false.
        * rewrite app_length. cbn [length]. rewrite Nat2Z.inj_add. change (Z.of_nat 1) with 1. fold m.
          rewrite zrange_snoc by (unfold m; lia). rewrite map_app. reflexivity.
        * symmetry. apply memZ_false. intro Hin. apply in_map_iff in Hin. destruct Hin as (j & Ej & Hj).
          apply in_zrange in Hj. apply off_inj in Ej. lia.
  Qed.

  Lemma ghd_fold_inv T : forall st, ghd_inv st -> ghd_inv (fold_left (ghd_step nhb ndb padded) T st).
  Proof. induction T as [|e T IH]; intros st I; [exact I|]. cbn [fold_left]. apply IH. apply ghd_step_inv. exact I. Qed.

  (* the template built by get_header_dict: its FileOffset entries, first occurrences in order, are the nha slots *)
  Lemma template_offsets T nha tpl : get_header_dict T nha nhb ndb padded = Return tpl ->
    0 <= nha /\ memo_offsets (tpl_offsets tpl) = map off (zrange 0 nha).
  Proof.
    unfold get_header_dict.
    set (st := fold_left (ghd_step nhb ndb padded) T {| rs_dict := []; rs_stored := [] |}).
    destruct (Z.of_nat (length (rs_stored st)) =? nha) eqn:E; [|discriminate]. intro R. inversion R; subst tpl.
    apply Z.eqb_eq in E. split; [lia|]. rewrite <- E. apply (ghd_fold_inv T). reflexivity.
  Qed.

  Lemma word_read_eq k index : ox_hdr_word_read (hx_tpl_offset nhb ndb k padded) index = word_of_array nhb ndb padded k index.
  Proof. unfold ox_hdr_word_read, word_of_array, footer_start, hx_tpl_offset. f_equal. Qed.

  (* gen_trace_header(index) on a structured file, load_all_headers=False: the exact list of requests *)
  Theorem header_word_reads T nha tpl tracecount index (memo : bool) :
    get_header_dict T nha nhb ndb padded = Return tpl -> ox_hdr_index_ok index tracecount = true ->
    exists R, gen_trace_header_io memo tracecount true false tpl index = WordReads R /\
      (* whatever the aliasing: the ranges requested are exactly one word per stored array *)
      (forall r, In r R <-> exists k, 0 <= k < nha /\ r = word_of_array nhb ndb padded k index) /\
      (* with the memo, or when no header word aliases another: ONE request per stored array, in footer order *)
      (memo = true \/ length (tpl_offsets tpl) = Z.to_nat nha ->
         R = map (fun k => word_of_array nhb ndb padded k index) (zrange 0 nha)) /\
      (* without the memo: one request per FileOffset header word *)
      (memo = false -> length R = length (tpl_offsets tpl)).
  Proof.
    intros G Hi. destruct (template_offsets T nha tpl G) as (Hn & M).
    unfold gen_trace_header_io. rewrite Hi. cbn [negb ox_hdr_via_arrays orb].
    eexists. split; [reflexivity|].
    assert (Mm : map (fun o => ox_hdr_word_read o index) (memo_offsets (tpl_offsets tpl))
                 = map (fun k => word_of_array nhb ndb padded k index) (zrange 0 nha)).
    { rewrite M, map_map. apply map_ext. intro k. apply word_read_eq. }
    split; [|split].
    - intro r. assert (X : In r (map (fun o => ox_hdr_word_read o index) (tpl_offsets tpl)) <->
                             In r (map (fun o => ox_hdr_word_read o index) (memo_offsets (tpl_offsets tpl)))).
      { rewrite !in_map_iff. split; intros (o & E & I); exists o; (split; [exact E|]); apply memo_In; exact I. }
      assert (Y : In r (map (fun k => word_of_array nhb ndb padded k index) (zrange 0 nha)) <->
                  exists k, 0 <= k < nha /\ r = word_of_array nhb ndb padded k index).
      { rewrite in_map_iff. split.
        - intros (k & E & I). apply in_zrange in I. exists k. split; [lia|]. symmetry. exact E.
        - intros (k & Hk & E). exists k. split; [symmetry; exact E|]. apply in_zrange. lia. }
      destruct memo; [rewrite Mm; exact Y|]. rewrite X, Mm. exact Y.
    - intros [->|Hlen]; [exact Mm|].
      assert (Id : memo_offsets (tpl_offsets tpl) = tpl_offsets tpl).
      { apply memo_id. rewrite M, map_length. unfold zrange. rewrite zrange_nat_length. rewrite Hlen. f_equal. ring. }
      destruct memo; [exact Mm|]. rewrite <- Id. exact Mm.
    - intros ->. apply map_length.
  Qed.
End Template.

(* slot containment, from C04's offset_in_slot: the word of trace `index` of array k lies inside array k (n words), which
   lies inside slot k (stride bytes) of the footer *)
Lemma word_in_slot nhb ndb n k index : 1 <= n -> 0 <= k -> 0 <= index < n ->
  let stride := hx_rd_padded (4 * n) in
  let r := word_of_array nhb ndb stride k index in
  snd r = 4 /\ footer_start nhb ndb + k * stride <= fst r /\ fst r + snd r <= footer_start nhb ndb + k * stride + 4 * n /\
  footer_start nhb ndb + k * stride + 4 * n <= footer_start nhb ndb + (k + 1) * stride /\ stride mod 512 = 0 /\ 0 < stride.
Proof.
  intros Hn Hk Hi. cbv zeta. destruct (offset_in_slot n k index Hn Hk Hi) as (S1 & S2 & S3 & S4 & S5).
  unfold word_of_array. cbn [fst snd]. repeat split; lia.
Qed.

(* D42: without the memo a header word that aliases another one makes gen_trace_header request the same 4 bytes again *)
Theorem header_alias_rereads :
  exists T tpl r, get_header_dict T 1 2 3 512 = Return tpl /\
    gen_trace_header_io false 100 true false tpl 7 = WordReads [r; r] /\
    gen_trace_header_io true 100 true false tpl 7 = WordReads [r].
Proof.
  exists [(1, (0, 1)); (5, (0, 1))]. eexists. eexists. split; [vm_compute; reflexivity|]. split; vm_compute; reflexivity.
Qed.

(* ================================================================================================ (d) diagonals *)
(* ---- contiguity, generically ---- *)
Lemma contiguous_tail {K} (x : K) l : contiguous (x :: l) -> contiguous l.
Proof. intros C l1 a l2 b l3 E Eab z Hz. apply (C (x :: l1) a l2 b l3); [rewrite E; reflexivity|exact Eab|exact Hz]. Qed.
Lemma contiguous_head_notin {K} (p k : K) r : contiguous (p :: k :: r) -> k <> p -> ~ In p r.
Proof.
  intros C Hk Hin. apply in_split in Hin. destruct Hin as (r1 & r2 & ->). apply Hk.
  apply (C [] p (k :: r1) p r2); [reflexivity|reflexivity|left; reflexivity].
Qed.

Lemma sorted_app_r (A B : list Z) : StronglySorted Z.lt (A ++ B) -> StronglySorted Z.lt B.
Proof. induction A as [|a A IH]; [tauto|]. cbn [app]. intro S. inversion S; subst. apply IH. assumption. Qed.
Lemma sorted_app_lt (B C : list Z) y : StronglySorted Z.lt (B ++ y :: C) -> forall z, In z B -> z < y.
Proof.
  induction B as [|b B IH]; [intros _ z []|]. cbn [app]. intros S z [<-|Hz].
  - inversion S as [|? ? _ F]; subst. rewrite Forall_forall in F. apply F. apply in_or_app. right. left. reflexivity.
  - inversion S; subst. apply IH; assumption.
Qed.

(* a key function that is "squeezed" along [lo, hi) gives a contiguous key list *)
Lemma squeeze_contiguous {K} (key : Z -> K) lo hi :
  (forall d1 d2 d3, lo <= d1 -> d1 <= d2 -> d2 <= d3 -> d3 < hi -> key d1 = key d3 -> key d2 = key d1) ->
  contiguous (map key (zrange lo hi)).
Proof.
  intros Sq l1 x l2 y l3 E Exy z Hz.
  apply map_eq_app in E. destruct E as (A & R1 & EA & _ & E).
  apply map_eq_cons in E. destruct E as (dx & R2 & -> & Ex & E).
  apply map_eq_app in E. destruct E as (B & R3 & -> & EB & E).
  apply map_eq_cons in E. destruct E as (dy & Cc & -> & Ey & _).
  subst x y l2. apply in_map_iff in Hz. destruct Hz as (dz & <- & Hdz).
  pose proof (asc_zrange lo hi) as S. unfold asc in S. rewrite EA in S. apply sorted_app_r in S.
  assert (Ix : In dx (zrange lo hi)) by (rewrite EA; apply in_or_app; right; left; reflexivity).
  assert (Iy : In dy (zrange lo hi)).
  { rewrite EA. apply in_or_app. right. right. apply in_or_app. right. left. reflexivity. }
  apply in_zrange in Ix. apply in_zrange in Iy.
  inversion S as [|? ? S' F]; subst. rewrite Forall_forall in F.
  assert (dx < dz) by (apply F; apply in_or_app; left; exact Hdz).
  assert (dz < dy) by (apply (sorted_app_lt B Cc dy S'); exact Hdz).
  apply (Sq dx dz dy); try lia. exact Exy.
Qed.

(* ---- the LRU never fetches a key twice when equal keys are adjacent ---- *)
Section LRUFacts.
  Variables (K V : Type) (keqb : K -> K -> bool) (compute : K -> V).
  Hypothesis keqb_eq : forall a b, keqb a b = true <-> a = b.
  Local Notation fetches := (lru_fetches keqb compute).

  Lemma keqb_refl a : keqb a a = true.
  Proof. apply keqb_eq. reflexivity. Qed.
  Lemma keqb_neq a b : a <> b -> keqb a b = false.
  Proof. intro N. destruct (keqb a b) eqn:E; [|reflexivity]. apply keqb_eq in E. contradiction. Qed.

  Lemma lru_find_keys k (cache : list (K * V)) v : Caches.lru_find keqb k cache = Some v -> In k (map fst cache).
  Proof.
    induction cache as [|[k0 v0] cache IH]; cbn [Caches.lru_find]; [discriminate|]. destruct (keqb k k0) eqn:E.
    - intros _. apply keqb_eq in E. left. symmetry. exact E.
    - intro F. right. apply IH. exact F.
  Qed.
  Lemma lru_remove_keys k (cache : list (K * V)) x : In x (map fst (Caches.lru_remove keqb k cache)) -> In x (map fst cache).
  Proof.
    induction cache as [|[k0 v0] cache IH]; cbn [Caches.lru_remove]; [tauto|]. destruct (keqb k k0).
    - intro I. right. apply IH. exact I.
    - cbn [map fst In]. intros [I|I]; [left; exact I|right; apply IH; exact I].
  Qed.
  Lemma firstn_In_le {A} (n : nat) (l : list A) x : In x (firstn n l) -> In x l.
  Proof. revert l. induction n as [|n IH]; intros [|a l]; cbn [firstn In]; try tauto. intros [E|I]; [left; exact E|right; apply IH; exact I]. Qed.

  Lemma firstn_keys (n : nat) (cache : list (K * V)) x : In x (map fst (firstn n cache)) -> In x (map fst cache).
  Proof.
    intro I. apply in_map_iff in I. destruct I as (e & <- & I). apply in_map. apply (firstn_In_le n). exact I.
  Qed.
  Lemma fetches_subset c : forall ks cache x, In x (fetches c cache ks) -> In x ks.
  Proof.
    induction ks as [|k r IH]; intros cache x; cbn [lru_fetches]; [tauto|].
    destruct (Caches.lru_find keqb k cache) as [v|].
    - intro I. right. apply (IH _ _ I).
    - intros [<-|I]; [left; reflexivity|right; apply (IH _ _ I)].
  Qed.

  (* the most recent entry is p and p is never needed again once left: p is not fetched, nothing is fetched twice *)
  Lemma fetches_after c : (1 <= c)%nat -> forall ks p v t, contiguous (p :: ks) ->
    ~ In p (fetches c ((p, v) :: t) ks) /\ NoDup (fetches c ((p, v) :: t) ks).
  Proof.
    intro Hc. induction ks as [|k r IH]; intros p v t C; cbn [lru_fetches]; [split; [tauto|constructor]|].
    destruct (keqb k p) eqn:Ekp.
    - apply keqb_eq in Ekp. subst k. cbn [Caches.lru_find]. rewrite keqb_refl. unfold Caches.lru_hit.
      apply IH. apply (contiguous_tail p). exact C.
    - assert (Nkp : k <> p) by (intro X; subst; rewrite keqb_refl in Ekp; discriminate).
      pose proof (contiguous_head_notin p k r C Nkp) as Np.
      pose proof (contiguous_tail p _ C) as Ck.
      cbn [Caches.lru_find]. rewrite Ekp.
      destruct (Caches.lru_find keqb k t) as [v'|].
      + unfold Caches.lru_hit. destruct (IH k v' (Caches.lru_remove keqb k ((p, v) :: t)) Ck) as (I1 & I2).
        split; [|exact I2]. intro I. apply Np. apply (fetches_subset _ _ _ _ I).
      + unfold Caches.lru_miss. destruct c as [|c']; [lia|]. cbn [firstn].
        destruct (IH k (compute k) (firstn c' ((p, v) :: t)) Ck) as (I1 & I2). split.
        * intros [X|I]; [apply Nkp; exact X|]. apply Np. apply (fetches_subset _ _ _ _ I).
        * constructor; assumption.
  Qed.

  (* from ANY state of the table: capacity >= 1 and adjacent equal keys => no key is fetched twice within the call *)
  Theorem contiguous_no_refetch c cache ks : (1 <= c)%nat -> contiguous ks ->
    NoDup (fetches c cache ks) /\ (forall k, In k (fetches c cache ks) -> In k ks).
  Proof.
    intros Hc C. split; [|intros k I; apply (fetches_subset _ _ _ _ I)].
    destruct ks as [|k r]; cbn [lru_fetches]; [constructor|].
    destruct (Caches.lru_find keqb k cache) as [v|].
    - unfold Caches.lru_hit. apply (fetches_after c Hc r k v _ C).
    - unfold Caches.lru_miss. destruct c as [|c']; [lia|]. cbn [firstn].
      destruct (fetches_after (S c') Hc r k (compute k) (firstn c' cache) C) as (I1 & I2). constructor; assumption.
  Qed.

  (* every key consulted is either already in the table or fetched *)
  Lemma fetches_cover c : forall ks cache x, In x ks -> In x (map fst cache) \/ In x (fetches c cache ks).
  Proof.
    induction ks as [|k r IH]; intros cache x; [intros []|]. cbn [lru_fetches]. intros [<-|I].
    - destruct (Caches.lru_find keqb k cache) as [v|] eqn:F; [left; apply (lru_find_keys _ _ _ F)|right; left; reflexivity].
    - destruct (Caches.lru_find keqb k cache) as [v|] eqn:F.
      + destruct (IH (Caches.lru_hit keqb k v cache) x I) as [J|J]; [|right; exact J].
        unfold Caches.lru_hit in J. cbn [map fst In] in J. destruct J as [<-|J].
        * left. apply (lru_find_keys _ _ _ F).
        * left. apply (lru_remove_keys _ _ _ J).
      + destruct (IH (Caches.lru_miss c k (compute k) cache) x I) as [J|J]; [|right; right; exact J].
        unfold Caches.lru_miss in J. apply firstn_keys in J. cbn [map fst In] in J. destruct J as [<-|J].
        * right. left. reflexivity.
        * left. exact J.
  Qed.
  (* on a cold table: each distinct key is fetched exactly once *)
  Theorem contiguous_cold_fetch_once c ks : (1 <= c)%nat -> contiguous ks ->
    NoDup (fetches c [] ks) /\ (forall k, In k (fetches c [] ks) <-> In k ks).
  Proof.
    intros Hc C. destruct (contiguous_no_refetch c [] ks Hc C) as (N & S). split; [exact N|]. intro k. split; [apply S|].
    intro I. destruct (fetches_cover c ks [] k I) as [[]|J]. exact J.
  Qed.
End LRUFacts.

Lemma zlist_eqb_eq : forall a b, Caches.zlist_eqb a b = true <-> a = b.
Proof.
  induction a as [|x a IH]; intros [|y b]; cbn [Caches.zlist_eqb]; split; try discriminate; try reflexivity.
  - intro E. apply andb_true_iff in E. destruct E as (E1 & E2). apply Z.eqb_eq in E1. apply IH in E2. subst. reflexivity.
  - intro E. inversion E; subst. rewrite Z.eqb_refl. apply IH. reflexivity.
Qed.

(* ---- the trace ordinals of the two diagonal readers ---- *)
Lemma cd_len_bounds cd n_il n_xl : 1 <= n_il -> 1 <= n_xl -> - n_xl < cd < n_il ->
  (0 <= cd -> get_correlated_diagonal_length cd n_il n_xl <= n_xl /\ get_correlated_diagonal_length cd n_il n_xl <= n_il - cd) /\
  (cd < 0 -> get_correlated_diagonal_length cd n_il n_xl <= n_xl + cd /\ get_correlated_diagonal_length cd n_il n_xl <= n_il).
Proof.
  intros H1 H2 H3. unfold get_correlated_diagonal_length.
  repeat match goal with |- context [if ?c then _ else _] => destruct c eqn:? end; lia.
Qed.
Lemma ad_len_bounds ad n_il n_xl : 1 <= n_il -> 1 <= n_xl -> 0 <= ad < n_il + n_xl - 1 ->
  (ad < n_xl -> get_anticorrelated_diagonal_length ad n_il n_xl <= ad + 1 /\ get_anticorrelated_diagonal_length ad n_il n_xl <= n_il) /\
  (n_xl <= ad -> get_anticorrelated_diagonal_length ad n_il n_xl <= n_xl /\
                 get_anticorrelated_diagonal_length ad n_il n_xl <= n_il + n_xl - ad - 1).
Proof.
  intros H1 H2 H3. unfold get_anticorrelated_diagonal_length.
  repeat match goal with |- context [if ?c then _ else _] => destruct c eqn:? end; lia.
Qed.

Lemma window_bounds (min_ok max_ok order_ok : Z -> Z -> bool) (lenf : Z -> Z -> Z) max_len mn mx a len :
  (forall x m, min_ok x m = true -> 0 <= x < m) -> (forall x m, max_ok x m = true -> 0 < x <= m) ->
  (forall x y, order_ok x y = true -> x < y) -> (forall x y, lenf x y = y - x) ->
  diag_window min_ok max_ok order_ok lenf max_len mn mx = Return (a, len) -> 0 <= a /\ len + a <= max_len.
Proof.
  intros A B C D. unfold diag_window. destruct mn as [x|]; [destruct mx as [y|]|].
  - destruct (min_ok x max_len) eqn:E1; cbn [negb]; [|discriminate]. destruct (max_ok y max_len) eqn:E2; cbn [negb]; [|discriminate].
    destruct (order_ok x y) eqn:E3; cbn [negb]; [|discriminate]. intro R. apply A in E1. apply B in E2. apply C in E3.
    injection R as <- <-. rewrite D. lia.
  - intro R. injection R as <- <-. lia.
  - intro R. injection R as <- <-. lia.
Qed.
Lemma cd_window_bounds max_len mn mx a len :
  diag_window ox_cd_min_ok ox_cd_max_ok ox_cd_order_ok ox_cd_len max_len mn mx = Return (a, len) -> 0 <= a /\ len + a <= max_len.
Proof.
  apply window_bounds; unfold ox_cd_min_ok, ox_cd_max_ok, ox_cd_order_ok, ox_cd_len; intros; lia.
Qed.
Lemma ad_window_bounds max_len mn mx a len :
  diag_window ox_ad_min_ok ox_ad_max_ok ox_ad_order_ok ox_ad_len max_len mn mx = Return (a, len) -> 0 <= a /\ len + a <= max_len.
Proof.
  apply window_bounds; unfold ox_ad_min_ok, ox_ad_max_ok, ox_ad_order_ok, ox_ad_len; intros; lia.
Qed.

(* a diagonal: grid position (il d, xl d) for d in [lo, hi), inside the grid, il non-decreasing, xl monotone *)
Definition diag_shape (n_il n_xl : Z) (ts : list Z) : Prop :=
  exists (il xl : Z -> Z) (lo hi : Z) (up : bool),
    ts = map (fun d => il d * n_xl + xl d) (zrange lo hi) /\
    (forall d, lo <= d < hi -> 0 <= il d < n_il /\ 0 <= xl d < n_xl) /\
    (forall d d', d <= d' -> il d <= il d') /\
    (forall d d', d <= d' -> if up then xl d <= xl d' else xl d' <= xl d).

Lemma cd_shape n_il n_xl cd mn mx ts : 1 <= n_il -> 1 <= n_xl ->
  cd_traces n_il n_xl cd mn mx = Return ts -> diag_shape n_il n_xl ts.
Proof.
  intros H1 H2. unfold cd_traces. destruct (ox_cd_id_ok cd n_il n_xl) eqn:Eid; cbn [negb]; [|discriminate].
  destruct (diag_window _ _ _ _ _ mn mx) as [[a len]|] eqn:W; cbn [bind]; [|discriminate].
  intro R. injection R as <-. cbn [fst snd]. apply cd_window_bounds in W.
  assert (Hid : - n_xl < cd < n_il) by (unfold ox_cd_id_ok in Eid; lia).
  destruct (cd_len_bounds cd n_il n_xl H1 H2 Hid) as (Ba & Bb).
  unfold cd_ordinals, ox_cd_branch, ox_cd_lo_a, ox_cd_hi_a, ox_cd_lo_b, ox_cd_hi_b. destruct (cd >=? 0) eqn:Eb.
  - exists (fun d => d + cd), (fun d => d), a, (len + a), true. split; [|split; [|split]].
    + apply map_ext. intro d. unfold ox_cd_ordinal_a. reflexivity.
    + intros d Hd. lia.
    + intros; lia.
    + intros; lia.
  - exists (fun d => d), (fun d => d - cd), a, (len + a), true. split; [|split; [|split]].
    + apply map_ext. intro d. unfold ox_cd_ordinal_b. ring.
    + intros d Hd. lia.
    + intros; lia.
    + intros; lia.
Qed.
Lemma ad_shape n_il n_xl ad mn mx ts : 1 <= n_il -> 1 <= n_xl ->
  ad_traces n_il n_xl ad mn mx = Return ts -> diag_shape n_il n_xl ts.
Proof.
  intros H1 H2. unfold ad_traces. destruct (ox_ad_id_ok ad n_il n_xl) eqn:Eid; cbn [negb]; [|discriminate].
  destruct (diag_window _ _ _ _ _ mn mx) as [[a len]|] eqn:W; cbn [bind]; [|discriminate].
  intro R. injection R as <-. cbn [fst snd]. apply ad_window_bounds in W.
  assert (Hid : 0 <= ad < n_il + n_xl - 1) by (unfold ox_ad_id_ok in Eid; lia).
  destruct (ad_len_bounds ad n_il n_xl H1 H2 Hid) as (Ba & Bb).
  unfold ad_ordinals, ox_ad_branch, ox_ad_lo_a, ox_ad_hi_a, ox_ad_lo_b, ox_ad_hi_b. destruct (ad <? n_xl) eqn:Eb.
  - exists (fun d => d), (fun d => ad - d), a, (len + a), false. split; [|split; [|split]].
    + apply map_ext. intro d. unfold ox_ad_ordinal_a. ring.
    + intros d Hd. lia.
    + intros; lia.
    + intros; lia.
  - exists (fun d => ad - n_xl + 1 + d), (fun d => n_xl - d - 1), a, (len + a), false. split; [|split; [|split]].
    + apply map_ext. intro d. unfold ox_ad_ordinal_b. ring.
    + intros d Hd. lia.
    + intros; lia.
    + intros; lia.
Qed.
Lemma diag_shape_of dg n_il n_xl id mn mx ts : 1 <= n_il -> 1 <= n_xl ->
  diag_traces dg n_il n_xl id mn mx = Return ts -> diag_shape n_il n_xl ts.
Proof. destruct dg; [apply cd_shape|apply ad_shape]. Qed.

Lemma ord_decompose il xl n : 0 <= xl < n -> ox_tr_il (il * n + xl) n = il /\ ox_tr_xl (il * n + xl) n = xl.
Proof.
  intro Hx. unfold ox_tr_il, ox_tr_xl. split; symmetry.
  - apply (Z.div_unique_pos (il * n + xl) n il xl); lia.
  - apply (Z.mod_unique_pos (il * n + xl) n il xl); lia.
Qed.
Lemma ord_in_range il xl n_il n_xl : 0 <= il < n_il -> 0 <= xl < n_xl -> ox_tr_index_ok (il * n_xl + xl) n_il n_xl = true.
Proof.
  intros Hi Hx. unfold ox_tr_index_ok.
  assert (0 <= il * n_xl) by (apply Z.mul_nonneg_nonneg; lia).
  assert (il * n_xl <= (n_il - 1) * n_xl) by (apply Z.mul_le_mono_nonneg_r; lia).
  apply andb_true_iff. split; [apply Z.leb_le|apply Z.ltb_lt]; lia.
Qed.
Lemma div_squeeze bs x1 x2 x3 : 1 <= bs -> x1 <= x2 -> x2 <= x3 -> bs * (x1 / bs) = bs * (x3 / bs) -> bs * (x2 / bs) = bs * (x1 / bs).
Proof.
  intros Hb H12 H23 E. apply Z.mul_reg_l in E; [|lia].
  pose proof (Z.div_le_mono x1 x2 bs ltac:(lia) H12). pose proof (Z.div_le_mono x2 x3 bs ltac:(lia) H23).
  f_equal. lia.
Qed.

(* every get_trace of a diagonal read is in range (no IndexError half way) *)
Theorem diagonal_traces_in_range dg n_il n_xl id mn mx ts : 1 <= n_il -> 1 <= n_xl ->
  diag_traces dg n_il n_xl id mn mx = Return ts -> forall t, In t ts -> ox_tr_index_ok t n_il n_xl = true.
Proof.
  intros H1 H2 D t Ht. destruct (diag_shape_of dg n_il n_xl id mn mx ts H1 H2 D) as (il & xl & lo & hi & up & -> & Hr & _ & _).
  apply in_map_iff in Ht. destruct Ht as (d & <- & Hd). apply in_zrange in Hd. destruct (Hr d Hd). apply ord_in_range; assumption.
Qed.

(* equal chunk keys are adjacent along a diagonal *)
Theorem diagonal_chunk_keys_contiguous dg n_il n_xl bs0 bs1 bs2 s0 s1 id mn mx ks :
  1 <= n_il -> 1 <= n_xl -> 1 <= bs0 -> 1 <= bs1 ->
  diag_keys dg n_il n_xl bs0 bs1 bs2 s0 s1 id mn mx = Return ks -> contiguous ks.
Proof.
  intros H1 H2 B0 B1. unfold diag_keys. destruct (diag_traces dg n_il n_xl id mn mx) as [ts|] eqn:D; cbn [bind]; [|discriminate].
  intro R. injection R as <-.
  destruct (diag_shape_of dg n_il n_xl id mn mx ts H1 H2 D) as (il & xl & lo & hi & up & -> & Hr & Mi & Mx).
  rewrite map_map. apply squeeze_contiguous. intros d1 d2 d3 L1 L12 L23 L3 E.
  unfold chunk_key in *.
  destruct (Hr d1 ltac:(lia)) as (_ & X1). destruct (Hr d2 ltac:(lia)) as (_ & X2). destruct (Hr d3 ltac:(lia)) as (_ & X3).
  destruct (ord_decompose (il d1) (xl d1) n_xl X1) as (A1 & C1). destruct (ord_decompose (il d2) (xl d2) n_xl X2) as (A2 & C2).
  destruct (ord_decompose (il d3) (xl d3) n_xl X3) as (A3 & C3).
  rewrite A1, C1, A3, C3 in E. rewrite A1, C1, A2, C2. injection E as Ei Ex.
  unfold ox_tr_min_il, ox_tr_min_xl in *. f_equal; [|f_equal].
  - apply (div_squeeze bs0 (il d1) (il d2) (il d3)); [lia|apply Mi; lia|apply Mi; lia|exact Ei].
  - destruct up.
    + apply (div_squeeze bs1 (xl d1) (xl d2) (xl d3)); [lia|apply (Mx d1 d2); lia|apply (Mx d2 d3); lia|exact Ex].
    + symmetry in Ex. pose proof (div_squeeze bs1 (xl d3) (xl d2) (xl d1) B1 (Mx d2 d3 L23) (Mx d1 d2 L12) Ex) as Q.
      rewrite Q. exact Ex.
Qed.

(* hence: the chunk LRU with any capacity >= 1, in any state, runs _read_containing_chunk at most once per distinct chunk
   during one diagonal read; from a cold cache exactly once per distinct chunk *)
Theorem diagonal_no_refetch dg n_il n_xl bs0 bs1 bs2 s0 s1 id mn mx ks (V : Type) (compute : list Z -> V) (c : nat)
                            (cache : list (list Z * V)) :
  1 <= n_il -> 1 <= n_xl -> 1 <= bs0 -> 1 <= bs1 -> (1 <= c)%nat ->
  diag_keys dg n_il n_xl bs0 bs1 bs2 s0 s1 id mn mx = Return ks ->
  NoDup (lru_fetches Caches.zlist_eqb compute c cache ks) /\
  (forall k, In k (lru_fetches Caches.zlist_eqb compute c cache ks) -> In k ks) /\
  (cache = [] -> forall k, In k ks -> In k (lru_fetches Caches.zlist_eqb compute c cache ks)).
Proof.
  intros H1 H2 B0 B1 Hc D.
  pose proof (diagonal_chunk_keys_contiguous dg n_il n_xl bs0 bs1 bs2 s0 s1 id mn mx ks H1 H2 B0 B1 D) as C.
  destruct (contiguous_no_refetch _ _ Caches.zlist_eqb compute zlist_eqb_eq c cache ks Hc C) as (N & S).
  split; [exact N|]. split; [exact S|]. intros -> k I.
  apply (contiguous_cold_fetch_once _ _ Caches.zlist_eqb compute zlist_eqb_eq c ks Hc C). exact I.
Qed.

(* ---- the default capacity: get_chunk_cache_size always returns, at least 2 and at least twice the smaller chunk count ---- *)
Lemma chunk_cache_loop_total m : forall (n : nat) cs, 0 < cs -> m <= cs * 2 ^ Z.of_nat n ->
  exists c, chunk_cache_loop (S n) cs m = Some c /\ cs <= c /\ m <= c.
Proof.
  induction n as [|n IH]; intros cs Hcs Hm; cbn [chunk_cache_loop].
  - change (2 ^ Z.of_nat 0) with 1 in Hm. destruct (cs <? m) eqn:E; [lia|]. exists cs. split; [reflexivity|lia].
  - destruct (cs <? m) eqn:E.
    + destruct (IH (cs * 2) ltac:(lia)) as (c & Ec & L1 & L2).
      * rewrite Nat2Z.inj_succ, Z.pow_succ_r in Hm by lia. lia.
      * exists c. split; [exact Ec|lia].
    + exists cs. split; [reflexivity|lia].
Qed.
Theorem chunk_cache_size_total a b : exists c, get_chunk_cache_size a b = Some c /\ 2 <= c /\ 2 * Z.min a b <= c.
Proof.
  unfold get_chunk_cache_size. cbv zeta. set (m := Z.min a b).
  replace (Z.to_nat (Z.log2_up (Z.max m 1)) + 2)%nat with (S (S (Z.to_nat (Z.log2_up (Z.max m 1))))) by lia.
  destruct (chunk_cache_loop_total m (S (Z.to_nat (Z.log2_up (Z.max m 1)))) 1 ltac:(lia)) as (c & Ec & L1 & L2).
  - rewrite Nat2Z.inj_succ, Z.pow_succ_r by lia. rewrite Z2Nat.id by apply Z.log2_up_nonneg.
    pose proof (Z.log2_up_spec (Z.max m 1)) as Sp. destruct (Z.eq_dec (Z.max m 1) 1) as [E1|N1].
    + rewrite E1. change (Z.log2_up 1) with 0. cbn. lia.
    + specialize (Sp ltac:(lia)). lia.
  - rewrite Ec. cbn [option_map]. exists (c * 2). split; [reflexivity|lia].
Qed.

(* ================================================================================================ (b) on a file *)
Theorem trace_header_cost fields F n index tpl :
  rd_template fields F = Return tpl -> rd_structured F = true ->
  1 <= n -> f_hel F = 4 * n -> 0 <= index < n -> index < f_tracecount F ->
  let stride := hx_rd_padded (f_hel F) in
  let foot := 4096 * f_nhb F + 4096 * f_ndb F in
  let word := fun k => (foot + k * stride + 4 * index, 4) in
  exists R, trace_header_io fields F false index = Return (WordReads R) /\
    (forall r, In r R <-> exists k, 0 <= k < f_count F /\ r = word k) /\
    (ox_hdr_memo = true \/ length (tpl_offsets tpl) = Z.to_nat (f_count F) -> R = map word (zrange 0 (f_count F))) /\
    (ox_hdr_memo = false -> length R = length (tpl_offsets tpl)) /\
    (forall k, 0 <= k < f_count F ->
       foot + k * stride <= fst (word k) /\ fst (word k) + 4 <= foot + k * stride + f_hel F /\
       foot + k * stride + f_hel F <= foot + (k + 1) * stride).
Proof.
  intros Ht Hs Hn Hh Hi Htc. cbv zeta.
  assert (Hpos : 0 < hx_rd_padded (f_hel F)).
  { rewrite Hh. destruct (word_in_slot 0 0 n 0 index Hn ltac:(lia) Hi) as (_ & _ & _ & _ & _ & P). exact P. }
  unfold rd_template in Ht. fold (rd_padded F) in Hpos.
  assert (Ok : ox_hdr_index_ok index (f_tracecount F) = true) by (unfold ox_hdr_index_ok; lia).
  destruct (header_word_reads (f_nhb F) (f_ndb F) (rd_padded F) ltac:(lia) _ _ tpl (f_tracecount F) index ox_hdr_memo Ht Ok)
    as (R & ER & In_R & Exact & Len).
  exists R. unfold trace_header_io, rd_template. rewrite Ht. cbn [bind]. rewrite Hs.
  split; [rewrite ER; reflexivity|]. unfold word_of_array, footer_start in *. fold (rd_padded F).
  split; [exact In_R|]. split; [exact Exact|]. split; [exact Len|].
  intros k Hk. unfold rd_padded. rewrite Hh.
  destruct (word_in_slot (f_nhb F) (f_ndb F) n k index Hn ltac:(lia) Hi) as (_ & S1 & S2 & S3 & _).
  unfold word_of_array, footer_start in *. cbn [fst snd] in *. repeat split; lia.
Qed.

(* D42 end to end: a regular 2 x 2 survey whose fields 1 and 5 both count the traces (1,2,3,4).  The 'heuristic' writer stores
   ONE array for the pair (3 stored arrays: fields 1, 189, 193); the un-memoised reader requests that array's word twice *)
Definition alias_example_file : sgzfile :=
  write_geo Heuristic segy_fields (geo_regular 2 2 4) 1
    (hdr_of_cols [(1, [1; 2; 3; 4]); (5, [1; 2; 3; 4]); (189, [10; 10; 11; 11]); (193, [20; 21; 20; 21])]).
Theorem header_alias_rereads_file :
  regular_or_2d (geo_regular 2 2 4) /\ f_count alias_example_file = 3 /\ rd_structured alias_example_file = true /\
  exists tpl, rd_template segy_fields alias_example_file = Return tpl /\
    gen_trace_header_io false 4 true false tpl 2 = WordReads [(12296, 4); (12296, 4); (12808, 4); (13320, 4)] /\
    gen_trace_header_io true 4 true false tpl 2 = WordReads [(12296, 4); (12808, 4); (13320, 4)].
Proof.
  split; [left; exists 2, 2, 4; repeat split; discriminate|]. split; [vm_compute; reflexivity|]. split; [vm_compute; reflexivity|].
  eexists. split; [vm_compute; reflexivity|]. split; vm_compute; reflexivity.
Qed.
