(* Generic lemmas about the Python/numpy semantics of Lib/Py.v *)
From Coq Require Import ZArith List Bool Lia.
Import ListNotations.
From SZ Require Import Lib.Py.
Open Scope Z_scope.

(* ---------- outcome monad ---------- *)
Lemma flat_mapM_Return {A B} (f : A -> outcome (list B)) (g : A -> list B) l :
  (forall x, In x l -> f x = Return (g x)) -> flat_mapM f l = Return (flat_map g l).
Proof.
  induction l as [|x xs IH]; intro Hf; cbn [flat_mapM flat_map]; [reflexivity|].
  rewrite (Hf x (or_introl eq_refl)). cbn [bind]. rewrite IH by (intros; apply Hf; right; assumption).
  reflexivity.
Qed.

Lemma flat_mapM_Raise {A B} (f : A -> outcome (list B)) l e :
  l <> [] -> (forall x, In x l -> f x = Raise e) -> flat_mapM f l = Raise e.
Proof.
  destruct l as [|x xs]; [congruence|]. intros _ Hf. cbn [flat_mapM]. rewrite (Hf x (or_introl eq_refl)). reflexivity.
Qed.

Lemma map_flat_map_single {A B C} (g : B -> C) (f : A -> B) l :
  map g (flat_map (fun j => [f j]) l) = map (fun j => g (f j)) l.
Proof. induction l as [|x xs IH]; cbn [flat_map map app]; [reflexivity | rewrite IH; reflexivity]. Qed.

(* ---------- zrange ---------- *)
Lemma in_zrange_nat lo n x : In x (zrange_nat lo n) <-> lo <= x < lo + Z.of_nat n.
Proof.
  revert lo; induction n as [|n IH]; intro lo; cbn [zrange_nat In].
  - lia.
  - rewrite IH. lia.
Qed.
Lemma in_zrange lo hi x : In x (zrange lo hi) <-> lo <= x < hi.
Proof. unfold zrange. rewrite in_zrange_nat. lia. Qed.

Lemma zrange_empty lo hi : hi <= lo -> zrange lo hi = [].
Proof. intro H. unfold zrange. replace (Z.to_nat (hi - lo)) with O by lia. reflexivity. Qed.
Lemma zrange_nonempty lo hi : lo < hi -> zrange lo hi <> [].
Proof.
  intro H. unfold zrange. destruct (Z.to_nat (hi - lo)) eqn:E; [lia|]. cbn. congruence.
Qed.
Lemma zrange_nat_length lo n : length (zrange_nat lo n) = n.
Proof. revert lo; induction n; intro; cbn; [reflexivity | rewrite IHn; reflexivity]. Qed.
Lemma zrange_nat_NoDup lo n : NoDup (zrange_nat lo n).
Proof.
  revert lo; induction n as [|n IH]; intro lo; cbn; constructor.
  - rewrite in_zrange_nat. lia.
  - apply IH.
Qed.
Lemma zrange_NoDup lo hi : NoDup (zrange lo hi).
Proof. apply zrange_nat_NoDup. Qed.

(* ---------- buffers assembled from range reads ---------- *)
Definition rd_lo (r : rd) : Z := match r with (_, _, pos) => pos end.
Definition rd_hi (r : rd) : Z := match r with (_, len, pos) => pos + len end.

(* placements are pairwise equal or disjoint: the slice assignments commute, no byte of the buffer is written
   by two different reads (used by C02 for provenance, by C07 "no byte twice" and by C17 order independence) *)
Definition compat (reads : list rd) : Prop :=
  forall r1 r2, In r1 reads -> In r2 reads -> r1 = r2 \/ rd_hi r1 <= rd_lo r2 \/ rd_hi r2 <= rd_lo r1.

Lemma rd_eq_dec (a b : rd) : {a = b} + {a <> b}.
Proof. repeat decide equality. Qed.

Lemma unit_src_miss reads lo hi :
  (forall r, In r reads -> rd_disjoint r lo hi = true) -> unit_src reads lo hi = SrcZero.
Proof.
  induction reads as [|r rs IH]; intro Hd; cbn [unit_src]; [reflexivity|].
  rewrite IH by (intros; apply Hd; right; assumption).
  rewrite (Hd r (or_introl eq_refl)). reflexivity.
Qed.

Lemma unit_src_hit reads r lo hi :
  compat reads -> In r reads -> rd_lo r <= lo -> hi <= rd_hi r -> lo < hi ->
  unit_src reads lo hi = SrcAt (rd_src r lo).
Proof.
  induction reads as [|r0 rs IH]; intros Hc Hin Hlo Hhi Hne; [destruct Hin|].
  assert (Hc' : compat rs) by (intros a b Ha Hb; apply Hc; right; assumption).
  cbn [unit_src].
  destruct (in_dec rd_eq_dec r rs) as [Hrs|Hnrs].
  - rewrite (IH Hc' Hrs Hlo Hhi Hne). reflexivity.
  - destruct Hin as [->|Hin]; [|contradiction].
    rewrite unit_src_miss.
    + destruct r as [[off len] pos]. cbn [rd_lo rd_hi] in *. unfold rd_disjoint, rd_covers.
      replace (hi <=? pos) with false by lia. replace (pos + len <=? lo) with false by lia.
      replace (pos <=? lo) with true by lia. replace (hi <=? pos + len) with true by lia. reflexivity.
    + intros r' Hr'.
      destruct (Hc r r' (or_introl eq_refl) (or_intror Hr')) as [E|D]; [subst; contradiction|].
      destruct r as [[off len] pos], r' as [[off' len'] pos']. cbn [rd_lo rd_hi] in *. unfold rd_disjoint. lia.
Qed.

Lemma compat_app_iff a b :
  compat (a ++ b) <-> compat a /\ compat b /\
    (forall r1 r2, In r1 a -> In r2 b -> r1 = r2 \/ rd_hi r1 <= rd_lo r2 \/ rd_hi r2 <= rd_lo r1).
Proof.
  unfold compat. split.
  - intro H. repeat split; intros; apply H; rewrite in_app_iff; auto.
  - intros (Ha & Hb & Hab) r1 r2 H1 H2. rewrite in_app_iff in H1, H2.
    destruct H1, H2; auto. destruct (Hab r2 r1) as [E|[D|D]]; auto.
Qed.

(* one read per index j, placed at j*L, all of length L: always compatible *)
Lemma compat_regular (off : Z -> Z) L lo hi :
  0 <= L -> compat (flat_map (fun j => [(off j, L, j * L)]) (zrange lo hi)).
Proof.
  intros HL r1 r2 H1 H2. rewrite in_flat_map in H1, H2.
  destruct H1 as (j1 & _ & [<-|[]]), H2 as (j2 & _ & [<-|[]]). cbn [rd_lo rd_hi].
  destruct (Z.eq_dec j1 j2) as [->|N]; [left; reflexivity | right; nia].
Qed.

(* ---------- shapes and indices ---------- *)
Lemma norm_bound_in b dim : 0 <= b <= dim -> norm_bound b dim = b.
Proof. intro H. unfold norm_bound. replace (b <? 0) with false by lia. lia. Qed.

Lemma cdiv_exact a : a mod 4 = 0 -> cdiv a 4 = a / 4.
Proof.
  intro H. unfold cdiv. pose proof (Z.div_mod a 4 ltac:(lia)) as D.
  replace (a + 4 - 1) with (3 + (a / 4) * 4) by lia. rewrite Z.div_add by lia. reflexivity.
Qed.

Lemma in_shape3 A B C a b c : 0 <= a < A -> 0 <= b < B -> 0 <= c < C -> in_shape [A; B; C] [a; b; c] = true.
Proof. intros. cbn [in_shape]. repeat (apply andb_true_intro; split); lia. Qed.
Lemma in_shape2 A B a b : 0 <= a < A -> 0 <= b < B -> in_shape [A; B] [a; b] = true.
Proof. intros. cbn [in_shape]. repeat (apply andb_true_intro; split); lia. Qed.
Lemma in_shape1 A a : 0 <= a < A -> in_shape [A] [a] = true.
Proof. intros. cbn [in_shape]. repeat (apply andb_true_intro; split); lia. Qed.

Ltac shape_inv_tac :=
  cbn [in_shape]; rewrite ?andb_false_r; try discriminate;
  rewrite ?andb_true_r, ?andb_true_iff, ?Z.leb_le, ?Z.ltb_lt.
Lemma in_shape_inv3 A B C idx : in_shape [A; B; C] idx = true ->
  exists a b c, idx = [a; b; c] /\ 0 <= a < A /\ 0 <= b < B /\ 0 <= c < C.
Proof.
  destruct idx as [|a [|b [|c [|? ?]]]]; shape_inv_tac.
  intro H. exists a, b, c. split; [reflexivity | lia].
Qed.
Lemma in_shape_inv2 A B idx : in_shape [A; B] idx = true ->
  exists a b, idx = [a; b] /\ 0 <= a < A /\ 0 <= b < B.
Proof.
  destruct idx as [|a [|b [|? ?]]]; shape_inv_tac.
  intro H. exists a, b. split; [reflexivity | lia].
Qed.
Lemma in_shape_inv1 A idx : in_shape [A] idx = true -> exists a, idx = [a] /\ 0 <= a < A.
Proof.
  destruct idx as [|a [|? ?]]; shape_inv_tac.
  intro H. exists a. split; [reflexivity | lia].
Qed.

(* ---------- the decoder on a buffer with compatible placements ---------- *)
Lemma decomp_cell_hit rn rdn reads base shape idx r ub k :
  in_shape shape idx = true ->
  unit_bytes_of rn rdn (length shape) = ub -> 0 < ub ->
  unit_no shape idx 0 = k ->
  compat reads -> In r reads -> rd_lo r <= base + k * ub -> base + (k + 1) * ub <= rd_hi r ->
  decomp_cell rn rdn reads base shape idx = PUnit (rd_src r (base + k * ub)) (cell_no idx 0).
Proof.
  intros Hin Hub Hpos Hk Hc Hr Hlo Hhi. unfold decomp_cell. rewrite Hin. cbn [negb]. rewrite Hub, Hk.
  rewrite (unit_src_hit reads r) by (try assumption; lia). reflexivity.
Qed.
