(* Proofs/RoutesAxis.v -- the reader's sample axis for files written by the ZGY route and by the other routes.
   The reader is Gen/Geometry.v's rd_axis_zslices (generated from SgzReader._parse_coordinates by genx_geometry.py) under
   the semantics of Model/Geometry.v; the branch condition and the two double formulas are ALSO extracted by genx_routes.py
   (Gen/Routes.v: rdz_cond_f64_at, rdz_dbl_start, rdz_dbl_step) and given meaning in Model/Routes.v: the theorems below
   state the agreement of the two.  Universally quantified over all binary64 values (Coq's primitive floats); no sweep. *)
From Coq Require Import ZArith List Bool Lia.
From Coq Require Import PrimFloat.
Import ListNotations.
From SZ Require Import Lib.Py Gen.Utils Gen.Version Gen.Reader Gen.Geometry Gen.Routes Model.Geometry.
From SZ Require Import Proofs.PyLemmas.
From SZ Require Model.Routes Proofs.Routes.
Open Scope Z_scope.

Lemma mapM_ret {A B} (f : A -> outcome B) (g : A -> B) l :
  (forall x, In x l -> f x = Return (g x)) -> mapM f l = Return (map g l).
Proof.
  induction l as [|x r IH]; intro H; [reflexivity|]. cbn [mapM map].
  rewrite (H x (or_introl eq_refl)). cbn [bind]. rewrite IH by (intros y Hy; apply H; right; exact Hy). reflexivity.
Qed.

Lemma thousand_nonzero : PrimFloat.eqb (f_of_Z 1000) f_zero = false.
Proof. vm_compute. reflexivity. Qed.

(* which branch: exactly the test on the double at rdz_cond_f64_at (= 92) *)
Theorem zs_start_by_branch E :
  eval E (ax_start rd_axis_zslices)
  = Return (if PrimFloat.eqb (e_f64 E rdz_cond_f64_at) f_zero then VZ (wrap32 (e_u32 E rdz_int_start_i32_at))
            else VF (Model.Routes.rdz_start (e_f64 E))).
Proof.
  unfold rd_axis_zslices. cbn [ax_start eval eval_cond bind]. unfold rdz_cond_f64_at.
  destruct (PrimFloat.eqb (e_f64 E 92) f_zero); reflexivity.
Qed.
Theorem zs_step_double_branch E : PrimFloat.eqb (e_f64 E rdz_cond_f64_at) f_zero = false ->
  eval E (ax_step rd_axis_zslices) = Return (VF (Model.Routes.rdz_step (e_f64 E))).
Proof.
  intro Hnz. unfold rd_axis_zslices. cbn [ax_step eval eval_cond bind]. unfold rdz_cond_f64_at in Hnz. rewrite Hnz.
  cbn [bind]. unfold truediv. cbn [to_f bind]. rewrite thousand_nonzero. reflexivity.
Qed.

(* THE DOUBLE BRANCH: element k = start + (interval / 1000) * k in binary64, start = double at 84, interval = double at 92 *)
Theorem zs_double_axis E :
  PrimFloat.eqb (e_f64 E rdz_cond_f64_at) f_zero = false -> 0 <= e_u32 E rdz_count_u32_at < two63 ->
  rd_axis E rd_axis_zslices
  = Return (map (fun k => VF (Model.Routes.rdz_elem (e_f64 E) k)) (zrange 0 (e_u32 E rdz_count_u32_at))).
Proof.
  intros Hnz Hn. unfold rd_axis. rewrite zs_start_by_branch, (zs_step_double_branch E Hnz), Hnz. cbn [bind].
  unfold rd_axis_zslices, gen_coord_list_body. cbn [ax_count ax_astype eval bind arange_args app call_env e_var].
  unfold rdz_count_u32_at in *.
  apply mapM_ret. intros k Hk. apply in_zrange in Hk.
  cbn [eval bind call_env e_var e_idx arith to_f].
  replace (Z.abs k <? two63) with true by (symmetry; apply Z.ltb_lt; rewrite Z.abs_eq by lia; lia).
  cbn [bind astype_elem to_f]. reflexivity.
Qed.

(* THE INTEGER BRANCH is taken exactly when that double is zero: then the axis is a function of the three integer fields
   (Proofs/Geometry.v: rd_zslices_char), and all C05 sample-axis theorems apply *)
Theorem zs_integer_branch E : PrimFloat.eqb (e_f64 E rdz_cond_f64_at) f_zero = true ->
  eval E (ax_start rd_axis_zslices) = Return (VZ (wrap32 (e_u32 E rdz_int_start_i32_at))).
Proof. intro Hz. rewrite zs_start_by_branch, Hz. reflexivity. Qed.

(* ---- files written by the routes: E is any reader environment whose doubles are what the route wrote for the source S *)
Definition reads_route (E : genv) (ft : Z) (S : Model.Routes.renv) : Prop :=
  forall off, e_f64 E off = Model.Routes.route_f64 ft S off.

(* SEG-Y, VDS, SGZ (and any file type other than ZGY): bytes 84:100 stay zero, the integer branch is taken *)
Theorem other_routes_integer_branch E ft S : ft <> ft_ZGY -> reads_route E ft S ->
  PrimFloat.eqb (e_f64 E rdz_cond_f64_at) f_zero = true.
Proof.
  intros N R. rewrite (R rdz_cond_f64_at), (Proofs.Routes.route_f64_other ft S _ N). vm_compute. reflexivity.
Qed.

(* ZGY: the double branch is taken exactly when zinc * 1000 is non-zero, and then the axis is
   samples[0] + ((zinc * 1000) / 1000) * k *)
Theorem zgy_route_branch E S : reads_route E ft_ZGY S ->
  PrimFloat.eqb (e_f64 E rdz_cond_f64_at) f_zero
  = PrimFloat.eqb (PrimFloat.mul (Model.Routes.re_zinc S) (f_of_Z 1000)) f_zero.
Proof. intro R. rewrite (R rdz_cond_f64_at). reflexivity. Qed.

Theorem zgy_route_zslices E S :
  reads_route E ft_ZGY S ->
  PrimFloat.eqb (PrimFloat.mul (Model.Routes.re_zinc S) (f_of_Z 1000)) f_zero = false ->
  0 <= e_u32 E rdz_count_u32_at < two63 ->
  rd_axis E rd_axis_zslices
  = Return (map (fun k => VF (PrimFloat.add (Model.Routes.re_samples0 S)
                                (PrimFloat.mul (PrimFloat.div (PrimFloat.mul (Model.Routes.re_zinc S) (f_of_Z 1000)) (f_of_Z 1000))
                                               (f_of_Z k))))
                (zrange 0 (e_u32 E rdz_count_u32_at))).
Proof.
  intros R Hnz Hn. rewrite zs_double_axis; [| rewrite (zgy_route_branch E S R); exact Hnz | exact Hn].
  f_equal. apply map_ext. intro k. unfold Model.Routes.rdz_elem, Model.Routes.rdz_start, Model.Routes.rdz_step.
  cbn [rdz_dbl_start rdz_dbl_step Model.Routes.reval Model.Routes.rv_f Model.Routes.rv_div Model.Routes.hdr_renv Model.Routes.re_f64].
  rewrite (R 84), (R 92). destruct (Proofs.Routes.route_f64_zgy S) as [-> ->]. reflexivity.
Qed.

(* non-vacuity of the hypothesis "zinc * 1000 is non-zero": dyadic and non-dyadic intervals, negative ones, and the smallest
   positive binary64 number *)
Definition zinc_sample_list : list PrimFloat.float :=
  [(0x1p-1)%float; (0x1.4p+1)%float; (0x1p+2)%float; (0x1.13cc28p+2)%float; (-0x1p+1)%float; (0x0.0000000000001p-1022)%float].
Lemma zinc_examples :
  forallb (fun z => negb (PrimFloat.eqb (PrimFloat.mul z (f_of_Z 1000)) f_zero)) zinc_sample_list = true.
Proof. vm_compute. reflexivity. Qed.

(* a concrete ZGY-sourced header: 7 samples from -12.5 at 2.5: the regenerated axis is -12.5, -10, ..., 2.5 exactly *)
Definition nv_src : Model.Routes.renv := Model.Routes.zgy_env (-0x1.9p+3)%float (0x1.4p+1)%float (fun _ _ => f_zero) 5 6.
Definition nv_zgy_env : genv :=
  {| e_var := fun _ => VZ 0; e_arr := fun _ => []; e_flag := fun _ => false; e_idx := None;
     e_u32 := fun off => if off =? 4 then 7 else 0; e_f64 := Model.Routes.route_f64 ft_ZGY nv_src; e_ver := 0 |}.
(* -12.5, -10, -7.5, -5, -2.5, 0, 2.5 *)
Definition nv_axis_expected : list val :=
  map VF [(-0x1.9p+3)%float; (-0x1.4p+3)%float; (-0x1.ep+2)%float; (-0x1.4p+2)%float; (-0x1.4p+1)%float; 0%float; (0x1.4p+1)%float].
Lemma zgy_axis_nonvacuous :
  reads_route nv_zgy_env ft_ZGY nv_src /\
  PrimFloat.eqb (PrimFloat.mul (Model.Routes.re_zinc nv_src) (f_of_Z 1000)) f_zero = false /\
  match rd_axis nv_zgy_env rd_axis_zslices with Return r => list_same r nv_axis_expected | Raise _ => false end = true.
Proof. split; [intro off; reflexivity|]. split; vm_compute; reflexivity. Qed.
