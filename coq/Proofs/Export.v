(* Proofs/Export.v -- C06: proofs about the export model (Model/Export.v interpreting Gen/Export.v). *)
From Coq Require Import ZArith List Bool Lia.
From SZ Require Import Lib.Py Gen.Export Model.Export Proofs.PyLemmas.
Import ListNotations.
Open Scope Z_scope.

(* ------------------------------------------------------------------ lists *)
Lemma upd_nth_app {A} (f : A -> A) a x b : upd_nth (length a) f (a ++ x :: b) = a ++ f x :: b.
Proof. induction a as [|y a IH]; cbn [length app upd_nth]; [reflexivity | rewrite IH; reflexivity]. Qed.

Lemma put_append {A} (zero : A) f l : put zero (length l) f l = l ++ [f zero].
Proof. unfold put. rewrite Nat.ltb_irrefl, Nat.sub_diag. reflexivity. Qed.

Lemma put_inside {A} (zero : A) f a x b : put zero (length a) f (a ++ x :: b) = a ++ f x :: b.
Proof.
  unfold put. replace (length a <? length (a ++ x :: b))%nat with true.
  - apply upd_nth_app.
  - symmetry. apply Nat.ltb_lt. rewrite app_length. cbn [length]. lia.
Qed.

Lemma bulk_put_fresh_gen {A X} (zero : A) (upd : X -> A -> A) xs : forall acc,
  fold_left (fun acc ix => put zero (fst ix) (upd (snd ix)) acc) (combine (seq (length acc) (length xs)) xs) acc
  = acc ++ map (fun x => upd x zero) xs.
Proof.
  induction xs as [|x xs IH]; intro acc; cbn [length seq combine fold_left map fst snd].
  - rewrite app_nil_r. reflexivity.
  - rewrite put_append.
    replace (Datatypes.S (length acc)) with (length (acc ++ [upd x zero])) by (rewrite app_length; cbn [length]; lia).
    rewrite IH, <- app_assoc. reflexivity.
Qed.

(* bulk write into an empty file: record i is item i, everything else of the record is zero *)
Lemma bulk_put_fresh {A X} (zero : A) (upd : X -> A -> A) xs : bulk_put zero upd xs [] = map (fun x => upd x zero) xs.
Proof. unfold bulk_put. exact (bulk_put_fresh_gen zero upd xs []). Qed.

Lemma bulk_put_over_gen {A X} (zero : A) (upd : X -> A -> A) xs : forall done rest, length xs = length rest ->
  fold_left (fun acc ix => put zero (fst ix) (upd (snd ix)) acc) (combine (seq (length done) (length xs)) xs) (done ++ rest)
  = done ++ map (fun xp => upd (fst xp) (snd xp)) (combine xs rest).
Proof.
  induction xs as [|x xs IH]; intros done rest Hlen; destruct rest as [|p rest]; cbn [length] in Hlen; try discriminate;
    cbn [length seq combine fold_left map fst snd].
  - reflexivity.
  - rewrite put_inside.
    replace (done ++ upd x p :: rest) with ((done ++ [upd x p]) ++ rest) by (rewrite <- app_assoc; reflexivity).
    replace (Datatypes.S (length done)) with (length (done ++ [upd x p])) by (rewrite app_length; cbn [length]; lia).
    rewrite IH by lia. rewrite <- app_assoc. reflexivity.
Qed.

(* bulk write over a file that already has exactly these records: record i is updated with item i *)
Lemma bulk_put_over {A X} (zero : A) (upd : X -> A -> A) xs l : length xs = length l ->
  bulk_put zero upd xs l = map (fun xp => upd (fst xp) (snd xp)) (combine xs l).
Proof. intro H. unfold bulk_put. exact (bulk_put_over_gen zero upd xs [] l H). Qed.

Lemma headers_over_samples {T} (tz : T) (HL : list thdr) : forall L : list T,
  map (fun xp => upd_header T (fst xp) (snd xp)) (combine HL (map (fun t => upd_samples T t (tr_zero T tz)) L)) = combine HL L.
Proof.
  induction HL as [|h HL IH]; intros [|t L]; cbn [map combine fst snd]; try reflexivity.
  rewrite IH. reflexivity.
Qed.

Lemma firstn_all_le {A} n (l : list A) : (length l <= n)%nat -> firstn n l = l.
Proof. intro H. apply firstn_all2. exact H. Qed.

(* the list-update lemma behind "the stored header is written last": whatever the region contained, after writing
   `data` at position 0 the first len(data) bytes are `data` and everything behind is untouched *)
Lemma overwrite_prefix {A} (data l : list A) : (length data <= length l)%nat ->
  firstn (length data) (overwrite 0 data l) = data /\ skipn (length data) (overwrite 0 data l) = skipn (length data) l
  /\ length (overwrite 0 data l) = length l.
Proof.
  intro H. unfold overwrite. cbn [Z.to_nat firstn app Nat.add].
  split; [|split].
  - rewrite firstn_app, Nat.sub_diag. cbn [firstn]. rewrite app_nil_r. apply firstn_all.
  - rewrite skipn_app, Nat.sub_diag. cbn [skipn]. rewrite skipn_all. reflexivity.
  - rewrite app_length, skipn_length. lia.
Qed.
Lemma overwrite_whole {A} (data l : list A) : length data = length l -> overwrite 0 data l = data.
Proof.
  intro H. unfold overwrite. cbn [Z.to_nat firstn app Nat.add]. rewrite skipn_all2 by lia. apply app_nil_r.
Qed.

Lemma firstn_skipn_two {A} (d : A) : forall n (l : list A), (Datatypes.S n < length l)%nat ->
  firstn 2 (skipn n l) = [nth n l d; nth (Datatypes.S n) l d].
Proof.
  induction n as [|n IH]; intros l H.
  - destruct l as [|a [|b l]]; cbn [length] in H; try lia. reflexivity.
  - destruct l as [|a l]; cbn [length] in H; try lia. cbn [skipn]. rewrite IH by lia. reflexivity.
Qed.

(* ------------------------------------------------------------------ outcome monad *)
Lemma mapM_length {A B} (f : A -> outcome B) : forall l ys, mapM f l = Return ys -> length ys = length l.
Proof.
  induction l as [|x l IH]; intros ys H; cbn [mapM] in H.
  - inversion H. reflexivity.
  - destruct (f x) as [y|e]; cbn [bind] in H; [|discriminate].
    destruct (mapM f l) as [ys'|e]; cbn [bind] in H; [|discriminate].
    inversion H. cbn [length]. rewrite (IH ys' eq_refl). reflexivity.
Qed.
Lemma mapM_nth {A B} (f : A -> outcome B) (da : A) (db : B) : forall l ys, mapM f l = Return ys ->
  forall n, (n < length l)%nat -> f (nth n l da) = Return (nth n ys db).
Proof.
  induction l as [|x l IH]; intros ys H n Hn; cbn [length] in Hn; [lia|].
  cbn [mapM] in H. destruct (f x) as [y|e] eqn:Ex; cbn [bind] in H; [|discriminate].
  destruct (mapM f l) as [ys'|e]; cbn [bind] in H; [|discriminate].
  inversion H. destruct n as [|n]; cbn [nth]; [exact Ex | apply (IH ys' eq_refl); lia].
Qed.
Lemma nth_zrange_nat lo m n d : (n < m)%nat -> nth n (zrange_nat lo m) d = lo + Z.of_nat n.
Proof.
  revert lo n; induction m as [|m IH]; intros lo n H; [lia|]. cbn [zrange_nat].
  destruct n as [|n]; cbn [nth]; [lia | rewrite IH by lia; lia].
Qed.
Lemma zrange_length lo hi : length (zrange lo hi) = Z.to_nat (hi - lo).
Proof.
  unfold zrange. generalize (Z.to_nat (hi - lo)) as n. intro n. revert lo.
  induction n as [|n IH]; intro lo; cbn [zrange_nat length]; [reflexivity | rewrite IH; reflexivity].
Qed.
Lemma nth_zrange0 tc i d : 0 <= i < tc -> nth (Z.to_nat i) (zrange 0 tc) d = i.
Proof. intro H. unfold zrange. rewrite nth_zrange_nat by lia. lia. Qed.

(* ------------------------------------------------------------------ format code *)
Lemma export_fmt_code_is_segy_format stored : 3600 <= zlen stored -> export_fmt_code stored = segy_format stored.
Proof.
  intro H. unfold zlen in H. unfold export_fmt_code, segy_format, py_slice, export_fmt_lo, export_fmt_hi, export_fmt_big_endian.
  change (Z.to_nat (3226 - 3224)) with 2%nat.
  rewrite (firstn_skipn_two 0 (Z.to_nat 3224) stored) by lia.
  cbn [be_int].
  replace (Datatypes.S (Z.to_nat 3224)) with (Z.to_nat 3225) by lia.
  change (Z.to_nat 3224) with 3224%nat. change (Z.to_nat 3225) with 3225%nat. lia.
Qed.

Lemma export_fmt_ok_iff stored : export_fmt_ok stored = true <-> export_fmt_code stored = 1 \/ export_fmt_code stored = 5.
Proof.
  unfold export_fmt_ok, export_fmt_accepted. cbn [existsb]. rewrite !orb_true_iff, !Z.eqb_eq. split.
  - intros [H | [H | H]]; [left | right | discriminate]; congruence.
  - intros [H | H]; [left | right; left]; congruence.
Qed.

Lemma slice_assign_length {A} lo hi (data l : list A) : 0 <= lo <= hi -> hi <= zlen l -> zlen data = hi - lo ->
  length (slice_assign lo hi data l) = length l.
Proof.
  unfold zlen, slice_assign. intros H1 H2 H3. rewrite !app_length, firstn_length, skipn_length. lia.
Qed.
Lemma nth_firstn_lt {A} (d : A) : forall m n (l : list A), (n < m)%nat -> nth n (firstn m l) d = nth n l d.
Proof.
  induction m as [|m IH]; intros n l H; [lia|]. destruct l as [|a l]; [destruct n; reflexivity|].
  cbn [firstn]. destruct n as [|n]; cbn [nth]; [reflexivity | apply IH; lia].
Qed.
Lemma nth_skipn_add {A} (d : A) : forall m n (l : list A), nth n (skipn m l) d = nth (m + n) l d.
Proof.
  induction m as [|m IH]; intros n l; [reflexivity|]. destruct l as [|a l]; [destruct n; reflexivity|].
  cbn [skipn Nat.add nth]. apply IH.
Qed.
Lemma slice_assign_nth {A} (d : A) lo hi (data l : list A) n : 0 <= lo <= hi -> hi <= zlen l -> zlen data = hi - lo ->
  nth n (slice_assign lo hi data l) d =
  if (n <? Z.to_nat lo)%nat then nth n l d else if (n <? Z.to_nat hi)%nat then nth (n - Z.to_nat lo) data d else nth n l d.
Proof.
  unfold zlen, slice_assign. intros H1 H2 H3.
  destruct (n <? Z.to_nat lo)%nat eqn:E1.
  - apply Nat.ltb_lt in E1. rewrite app_nth1 by (rewrite firstn_length; lia). apply nth_firstn_lt. exact E1.
  - apply Nat.ltb_ge in E1. rewrite app_nth2 by (rewrite firstn_length; lia). rewrite firstn_length.
    replace (Init.Nat.min (Z.to_nat lo) (length l)) with (Z.to_nat lo) by lia.
    destruct (n <? Z.to_nat hi)%nat eqn:E2.
    + apply Nat.ltb_lt in E2. rewrite app_nth1 by lia. reflexivity.
    + apply Nat.ltb_ge in E2. rewrite app_nth2 by lia. rewrite nth_skipn_add. f_equal. lia.
Qed.

(* format_code_choice: the code the exporter reads IS the data sample format code of the stored binary header; a
   stored IBM (1) or IEEE (5) code is used as it is and the stored header is left alone; any other code becomes IBM
   and exactly the two bytes of the format field of the stored header are rewritten to 0, 1 *)
Theorem format_code_choice_proof stored : 3600 <= zlen stored ->
  (export_format stored = 1 \/ export_format stored = 5) /\
  (segy_format stored = 1 \/ segy_format stored = 5 ->
     export_format stored = segy_format stored /\ export_stored stored = stored) /\
  (~ (segy_format stored = 1 \/ segy_format stored = 5) ->
     export_format stored = 1 /\ length (export_stored stored) = length stored /\
     segy_format (export_stored stored) = 1 /\
     forall n, n <> 3224%nat -> n <> 3225%nat -> nth n (export_stored stored) 0 = nth n stored 0).
Proof.
  intro H. pose proof (export_fmt_code_is_segy_format stored H) as Hc.
  pose proof (export_fmt_ok_iff stored) as Hok. rewrite Hc in Hok.
  unfold export_format, export_stored. rewrite Hc.
  destruct (export_fmt_ok stored) eqn:E.
  - pose proof (proj1 Hok eq_refl) as Hs. split; [exact Hs|]. split; [intros _; split; reflexivity|].
    intro Hn. contradiction.
  - assert (Hn : ~ (segy_format stored = 1 \/ segy_format stored = 5)).
    { intro Hs. apply Hok in Hs. discriminate. }
    unfold export_fmt_default. split; [left; reflexivity|]. split; [intro Hs; contradiction|]. intros _.
    assert (H1 : 0 <= export_fmt_patch_lo <= export_fmt_patch_hi) by (unfold export_fmt_patch_lo, export_fmt_patch_hi; lia).
    assert (H2 : export_fmt_patch_hi <= zlen stored) by (unfold export_fmt_patch_hi; lia).
    assert (H3 : zlen export_fmt_patch_bytes = export_fmt_patch_hi - export_fmt_patch_lo) by reflexivity.
    split; [reflexivity|]. split; [apply slice_assign_length; assumption|]. split.
    + unfold segy_format. rewrite !(slice_assign_nth 0 _ _ _ _ _ H1 H2 H3). reflexivity.
    + intros n N1 N2. rewrite (slice_assign_nth 0 _ _ _ _ _ H1 H2 H3).
      unfold export_fmt_patch_lo, export_fmt_patch_hi.
      change (Z.to_nat 3224) with 3224%nat. change (Z.to_nat 3226) with 3226%nat.
      destruct (n <? 3224)%nat eqn:E1; [reflexivity|]. destruct (n <? 3226)%nat eqn:E2; [|reflexivity].
      apply Nat.ltb_ge in E1. apply Nat.ltb_lt in E2. lia.
Qed.

Lemma export_stored_length stored : 3600 <= zlen stored -> zlen (export_stored stored) = zlen stored.
Proof.
  intro H. destruct (format_code_choice_proof stored H) as (_ & Ha & Hb).
  destruct (Z.eq_dec (segy_format stored) 1) as [E|E]; [rewrite (proj2 (Ha (or_introl E))); reflexivity|].
  destruct (Z.eq_dec (segy_format stored) 5) as [E5|E5]; [rewrite (proj2 (Ha (or_intror E5))); reflexivity|].
  unfold zlen. f_equal. apply Hb. intros [X|X]; contradiction.
Qed.

(* ------------------------------------------------------------------ unstructured ordinal map *)
Lemma positions_from_bounds mask : forall p x, In x (positions_from p mask) -> p <= x < p + zlen mask.
Proof.
  unfold zlen. induction mask as [|b m IH]; intros p x H; cbn [positions_from] in H; [contradiction|].
  cbn [length]. destruct b.
  - destruct H as [H|H]; [lia | apply IH in H; lia].
  - apply IH in H. lia.
Qed.
Lemma positions_from_present mask : forall p x, In x (positions_from p mask) -> nth (Z.to_nat (x - p)) mask false = true.
Proof.
  induction mask as [|b m IH]; intros p x H; cbn [positions_from] in H; [contradiction|].
  destruct b.
  - destruct H as [H|H].
    + subst x. replace (Z.to_nat (p - p)) with O by lia. reflexivity.
    + pose proof (positions_from_bounds m _ _ H) as Hb. apply IH in H.
      replace (Z.to_nat (x - p)) with (Datatypes.S (Z.to_nat (x - (p + 1)))) by lia. exact H.
  - pose proof (positions_from_bounds m _ _ H) as Hb. apply IH in H.
    replace (Z.to_nat (x - p)) with (Datatypes.S (Z.to_nat (x - (p + 1)))) by lia. exact H.
Qed.
Lemma positions_from_complete mask : forall p n, (n < length mask)%nat -> nth n mask false = true ->
  In (p + Z.of_nat n) (positions_from p mask).
Proof.
  induction mask as [|b m IH]; intros p n Hn Hb; cbn [length] in Hn; [lia|]. cbn [positions_from].
  destruct n as [|n]; cbn [nth] in Hb.
  - subst b. left. lia.
  - assert (Hi : In (p + 1 + Z.of_nat n) (positions_from (p + 1) m)) by (apply IH; [lia | exact Hb]).
    replace (p + Z.of_nat (Datatypes.S n)) with (p + 1 + Z.of_nat n) by lia.
    destruct b; [right|]; exact Hi.
Qed.
Lemma positions_from_sorted mask : forall p i j, (i < j)%nat -> (j < length (positions_from p mask))%nat ->
  nth i (positions_from p mask) 0 < nth j (positions_from p mask) 0.
Proof.
  induction mask as [|b m IH]; intros p i j Hij Hj; cbn [positions_from] in *; [cbn [length] in Hj; lia|].
  destruct b.
  - cbn [length] in Hj. destruct j as [|j]; [lia|]. destruct i as [|i]; cbn [nth].
    + assert (In (nth j (positions_from (p + 1) m) 0) (positions_from (p + 1) m)) as Hin by (apply nth_In; lia).
      apply positions_from_bounds in Hin. lia.
    + apply IH; lia.
  - apply IH; assumption.
Qed.
Lemma positions_from_count mask : forall p, length (positions_from p mask) = length (filter (fun b => b) mask).
Proof.
  induction mask as [|b m IH]; intro p; cbn [positions_from filter]; [reflexivity|].
  destruct b; cbn [length]; rewrite IH; reflexivity.
Qed.

(* the ordinal map of an unstructured file: for 0 <= i < number of populated cells, mask_nth_model i is a populated
   cell of the inline-major grid, the map is strictly increasing (so it preserves the order of the traces), and
   every populated cell is hit *)
Theorem mask_nth_model_spec mask :
  let n := zlen (filter (fun b => b) mask) in
  (forall i, 0 <= i < n -> exists p, mask_nth_model mask i = Return p /\ 0 <= p < zlen mask /\
                                     nth (Z.to_nat p) mask false = true) /\
  (forall i j p q, 0 <= i -> i < j -> j < n -> mask_nth_model mask i = Return p -> mask_nth_model mask j = Return q -> p < q) /\
  (forall p, 0 <= p < zlen mask -> nth (Z.to_nat p) mask false = true -> exists i, 0 <= i < n /\ mask_nth_model mask i = Return p) /\
  (forall i, n <= i -> mask_nth_model mask i = Raise IndexErr).
Proof.
  cbn zeta. unfold zlen. pose proof (positions_from_count mask 0) as Hc.
  assert (Hval : forall i, 0 <= i < Z.of_nat (length (filter (fun b => b) mask)) ->
                 mask_nth_model mask i = Return (nth (Z.to_nat i) (present_positions mask) 0)).
  { intros i Hi. unfold mask_nth_model. cbv zeta. change (length (present_positions mask)) with (length (positions_from 0 mask)).
    rewrite Hc. replace (i <? 0) with false by lia.
    replace ((0 <=? i) && (i <? Z.of_nat (length (filter (fun b => b) mask)))) with true by lia. reflexivity. }
  split; [|split; [|split]].
  - intros i Hi. eexists. split; [apply Hval; exact Hi|].
    assert (Hin : In (nth (Z.to_nat i) (present_positions mask) 0) (positions_from 0 mask)).
    { apply nth_In. unfold present_positions. rewrite Hc. lia. }
    pose proof (positions_from_bounds mask 0 _ Hin) as Hb. pose proof (positions_from_present mask 0 _ Hin) as Hp.
    unfold zlen in Hb. rewrite Z.sub_0_r in Hp. split; [lia | exact Hp].
  - intros i j p q Hi Hij Hj Ep Eq. rewrite Hval in Ep by lia. rewrite Hval in Eq by lia.
    inversion Ep. inversion Eq. unfold present_positions. apply positions_from_sorted; [lia | rewrite Hc; lia].
  - intros p Hp Hm.
    assert (Hin : In (0 + Z.of_nat (Z.to_nat p)) (positions_from 0 mask)) by (apply positions_from_complete; [lia | exact Hm]).
    replace (0 + Z.of_nat (Z.to_nat p)) with p in Hin by lia.
    destruct (In_nth _ _ 0 Hin) as (k & Hk & Ek). rewrite Hc in Hk.
    exists (Z.of_nat k). split; [lia|]. rewrite Hval by lia. rewrite Nat2Z.id. unfold present_positions. rewrite Ek. reflexivity.
  - intros i Hi. unfold mask_nth_model. cbv zeta. change (length (present_positions mask)) with (length (positions_from 0 mask)).
    rewrite Hc. replace (i <? 0) with false by lia.
    replace ((0 <=? i) && (i <? Z.of_nat (length (filter (fun b => b) mask)))) with false by lia. reflexivity.
Qed.

(* ------------------------------------------------------------------ the export *)
Section ExportProofs.
Variable AX : Type.
Variable T : Type.
Variable tzero : T.
Variable get_trace : Z -> bool -> outcome T.
Variable gen_trace_header : Z -> outcome thdr.
Variable init_head : spec AX -> list Z.
(* segyio.create without extended textual headers writes a 3600-byte header region, whatever its contents *)
Hypothesis init_head_len : forall sp, zlen (init_head sp) = 3600.

Notation reader := (reader AX).
Notation export := (export AX T tzero get_trace gen_trace_header init_head).
Notation build_spec := (build_spec AX).
Notation export_trace_list := (export_trace_list AX T get_trace).
Notation export_header_list := (export_header_list AX gen_trace_header).
Notation reader_ok := (reader_ok AX).

Definition spec_3d (r : reader) : spec AX :=
  {| sp_samples := Some (r_zslices r); sp_offsets := Some [0]; sp_xlines := Some (r_xlines r);
     sp_ilines := Some (r_ilines r); sp_sorting := Some 2; sp_tracecount := None;
     sp_format := export_format (r_stored r) |}.
Definition spec_flat (r : reader) : spec AX :=
  {| sp_samples := Some (r_zslices r); sp_offsets := Some [1]; sp_xlines := None; sp_ilines := None; sp_sorting := None;
     sp_tracecount := Some (r_tracecount r); sp_format := export_format (r_stored r) |}.

Lemma build_spec_3d r : r_is_3d r = true -> build_spec r = Return (spec_3d r).
Proof. intro H. unfold build_spec. cbn [flag_value export_branch_flag]. rewrite H. reflexivity. Qed.
Lemma build_spec_flat r : r_is_3d r = false -> build_spec r = Return (spec_flat r).
Proof. intro H. unfold build_spec. cbn [flag_value export_branch_flag]. rewrite H. reflexivity. Qed.

Definition the_spec (r : reader) : spec AX := if r_is_3d r then spec_3d r else spec_flat r.
Definition the_cap (r : reader) : Z := if r_is_3d r then zlen (r_ilines r) * zlen (r_xlines r) * 1 else r_tracecount r.

Lemma build_spec_the r : build_spec r = Return (the_spec r).
Proof. unfold the_spec. destruct (r_is_3d r) eqn:E; [apply build_spec_3d | apply build_spec_flat]; exact E. Qed.
Lemma the_cap_ok r : reader_ok r = true -> r_tracecount r <= the_cap r.
Proof.
  unfold Model.Export.reader_ok, the_cap. rewrite !andb_true_iff. intros [[H1 H2] H3]. destruct (r_is_3d r); [|lia].
  rewrite !andb_true_iff in H2. lia.
Qed.
Lemma capacity_the r : reader_ok r = true -> spec_capacity AX (the_spec r) = Return (the_cap r).
Proof.
  unfold Model.Export.reader_ok, the_spec, the_cap. rewrite !andb_true_iff. intros [[H1 H2] H3].
  destruct (r_is_3d r); [|reflexivity]. rewrite !andb_true_iff in H2. destruct H2 as [[_ Hi] Hx].
  unfold spec_capacity, spec_structured, spec_3d. cbn [sp_ilines sp_xlines sp_offsets]. rewrite Hi, Hx. reflexivity.
Qed.
Lemma ns_the r : spec_ns AX (the_spec r) = Return (zlen (r_zslices r)).
Proof. unfold the_spec. destruct (r_is_3d r); reflexivity. Qed.

(* the file the exporter leaves behind, in closed form *)
Definition exported (r : reader) (HL : list thdr) (L : list T) : sfile T :=
  {| f_open := false; f_cap := the_cap r; f_head := firstn 3600 (export_stored (r_stored r)); f_traces := combine HL L |}.

Lemma stored_slice_len r : reader_ok r = true -> length (py_slice 0 3600 (export_stored (r_stored r))) = 3600%nat.
Proof.
  unfold Model.Export.reader_ok. rewrite !andb_true_iff. intros [_ H3]. apply Z.leb_le in H3.
  pose proof (export_stored_length _ H3) as Hl. unfold zlen in *. unfold py_slice.
  change (Z.to_nat 0) with O. cbn [skipn]. rewrite firstn_length. lia.
Qed.

Lemma export_char r L HL : reader_ok r = true ->
  export_trace_list r = Return L -> export_header_list r = Return HL ->
  export r = Return (the_spec r, exported r HL L).
Proof.
  intros Hok HL1 HL2.
  pose proof (the_cap_ok r Hok) as Hcap.
  assert (Htc : 0 <= r_tracecount r).
  { revert Hok. unfold Model.Export.reader_ok. rewrite !andb_true_iff. intros [[H1 _] _]. lia. }
  pose proof (mapM_length _ _ _ HL1) as Hl1. pose proof (mapM_length _ _ _ HL2) as Hl2.
  rewrite zrange_length in Hl1, Hl2.
  unfold Model.Export.export. rewrite build_spec_the. cbn [bind]. unfold export_ops.
  cbn [run_ops run_op bind]. rewrite (capacity_the r Hok), ns_the. cbn [bind f_open f_cap f_head f_traces].
  fold export_trace_list. rewrite HL1. cbn [bind f_open f_cap f_head f_traces].
  fold export_header_list. rewrite HL2. cbn [bind f_open f_cap f_head f_traces negb andb].
  rewrite (firstn_all_le (Z.to_nat (the_cap r)) L) by lia.
  rewrite (firstn_all_le (Z.to_nat (the_cap r)) HL) by lia.
  rewrite bulk_put_fresh.
  rewrite bulk_put_over by (rewrite map_length; lia).
  rewrite headers_over_samples.
  pose proof (stored_slice_len r Hok) as Hs. pose proof (init_head_len (the_spec r)) as Hi.
  unfold zlen in *. unfold zlen.
  replace ((0 <=? 0) && (0 + Z.of_nat (length (py_slice 0 3600 (export_stored (r_stored r)))) <=? Z.of_nat (length (init_head (the_spec r)))))
    with true by (rewrite Hs, Hi; reflexivity).
  cbn [bind]. rewrite overwrite_whole by lia.
  unfold exported, py_slice. change (Z.to_nat 0) with O. change (Z.to_nat (3600 - 0)) with 3600%nat. cbn [skipn].
  reflexivity.
Qed.

Lemma export_inv r x : reader_ok r = true -> export r = Return x ->
  exists L HL, export_trace_list r = Return L /\ export_header_list r = Return HL.
Proof.
  intro Hok. unfold Model.Export.export. rewrite build_spec_the. cbn [bind]. unfold export_ops.
  cbn [run_ops run_op bind]. rewrite (capacity_the r Hok), ns_the. cbn [bind f_open f_cap f_head f_traces].
  fold export_trace_list. destruct (export_trace_list r) as [L|e]; cbn [bind]; [|discriminate].
  cbn [f_open f_cap f_head f_traces].
  fold export_header_list. destruct (export_header_list r) as [HL|e]; cbn [bind]; [|discriminate].
  intros _. exists L, HL. split; reflexivity.
Qed.

Lemma export_result r sp f : reader_ok r = true -> export r = Return (sp, f) ->
  exists L HL, export_trace_list r = Return L /\ export_header_list r = Return HL /\ sp = the_spec r /\ f = exported r HL L /\
               length L = Z.to_nat (r_tracecount r) /\ length HL = Z.to_nat (r_tracecount r).
Proof.
  intros Hok He. destruct (export_inv r _ Hok He) as (L & HL & H1 & H2). exists L, HL.
  rewrite (export_char r L HL Hok H1 H2) in He. inversion He.
  pose proof (mapM_length _ _ _ H1) as Hl1. pose proof (mapM_length _ _ _ H2) as Hl2. rewrite zrange_length in Hl1, Hl2.
  repeat split; try assumption; try reflexivity; rewrite ?Hl1, ?Hl2; f_equal; lia.
Qed.

(* the export succeeds exactly when every reader call succeeds *)
Theorem export_succeeds_iff r : reader_ok r = true ->
  ((exists x, export r = Return x) <->
   (forall i, 0 <= i < r_tracecount r -> (exists t, get_trace i false = Return t) /\ (exists h, gen_trace_header i = Return h))).
Proof.
  intro Hok. split.
  - intros [[sp f] He] i Hi. destruct (export_result r sp f Hok He) as (L & HL & H1 & H2 & _).
    split.
    + exists (nth (Z.to_nat i) L tzero).
      pose proof (mapM_nth _ 0 tzero _ _ H1 (Z.to_nat i)) as Hn. rewrite zrange_length in Hn.
      specialize (Hn ltac:(lia)). rewrite nth_zrange0 in Hn by lia. exact Hn.
    + pose proof (mapM_nth _ 0 hdr_zero _ _ H2 (Z.to_nat i)) as Hn. rewrite zrange_length in Hn.
      specialize (Hn ltac:(lia)). rewrite nth_zrange0 in Hn by lia.
      unfold regenerate_trace_header, export_header_index, export_regen_index in Hn.
      destruct (gen_trace_header i) as [h|e]; [exists h; reflexivity | discriminate].
  - intro Hall.
    assert (HA : forall (B : Type) (g : Z -> outcome B) l, (forall i, In i l -> exists y, g i = Return y) -> exists ys, mapM g l = Return ys).
    { intros B g l. induction l as [|a l IH]; intro Hg; cbn [mapM]; [eexists; reflexivity|].
      destruct (Hg a (or_introl eq_refl)) as [y Ey]. rewrite Ey. cbn [bind].
      destruct (IH (fun i Hi => Hg i (or_intror Hi))) as [ys Eys]. rewrite Eys. cbn [bind]. eexists; reflexivity. }
    destruct (HA T (fun i => get_trace (export_trace_index (r_tracecount r) i) export_trace_override) (zrange 0 (r_tracecount r))) as [L EL].
    { intros i Hi. apply in_zrange in Hi. exact (proj1 (Hall i Hi)). }
    destruct (HA thdr (fun i => regenerate_trace_header AX gen_trace_header r (export_header_index (r_tracecount r) i)) (zrange 0 (r_tracecount r))) as [HL EHL].
    { intros i Hi. apply in_zrange in Hi. destruct (proj2 (Hall i Hi)) as [h Eh].
      unfold regenerate_trace_header, export_header_index, export_regen_index. rewrite Eh. eexists; reflexivity. }
    eexists. apply (export_char r L HL Hok EL EHL).
Qed.

(* export_trace_order: the exported file has exactly tracecount traces and trace i holds what get_trace(i) returned
   (default ordinal mapping), for every geometry *)
Theorem export_trace_order_proof r sp f : reader_ok r = true -> export r = Return (sp, f) ->
  zlen (f_traces f) = r_tracecount r /\
  forall i, 0 <= i < r_tracecount r -> get_trace i false = Return (snd (nth (Z.to_nat i) (f_traces f) (tr_zero T tzero))).
Proof.
  intros Hok He. destruct (export_result r sp f Hok He) as (L & HL & H1 & H2 & _ & Ef & Hl1 & Hl2). subst f.
  cbn [exported f_traces]. split.
  - unfold zlen. rewrite combine_length, Hl1, Hl2.
    revert Hok. unfold Model.Export.reader_ok. rewrite !andb_true_iff. intros [[Ht _] _]. lia.
  - intros i Hi. unfold tr_zero. rewrite combine_nth by lia. cbn [snd].
    pose proof (mapM_nth _ 0 tzero _ _ H1 (Z.to_nat i)) as Hn. rewrite zrange_length in Hn.
    specialize (Hn ltac:(lia)). rewrite nth_zrange0 in Hn by lia. exact Hn.
Qed.

(* export_headers: header i of the exported file is the regenerated header i: gen_trace_header(i) with field 109
   (DelayRecordingTime) replaced by int(zslices[0]); hence it equals the source header on EVERY field whenever
   gen_trace_header(i) does (C04) and the source delay equals the first sample time (the property's hypothesis) *)
Theorem export_headers_proof r sp f : reader_ok r = true -> export r = Return (sp, f) ->
  forall i, 0 <= i < r_tracecount r ->
  exists h, gen_trace_header i = Return h /\
    let eh := fst (nth (Z.to_nat i) (f_traces f) (tr_zero T tzero)) in
    eh = apply_overrides AX r h /\
    (forall k, eh k = if k =? 109 then r_first_sample r else h k) /\
    (forall src : thdr, (forall k, h k = src k) -> src 109 = r_first_sample r -> forall k, eh k = src k).
Proof.
  intros Hok He i Hi. destruct (export_result r sp f Hok He) as (L & HL & H1 & H2 & _ & Ef & Hl1 & Hl2). subst f.
  cbn [exported f_traces].
  pose proof (mapM_nth _ 0 hdr_zero _ _ H2 (Z.to_nat i)) as Hn. rewrite zrange_length in Hn.
  specialize (Hn ltac:(lia)). rewrite nth_zrange0 in Hn by lia.
  unfold regenerate_trace_header, export_header_index, export_regen_index in Hn.
  destruct (gen_trace_header i) as [h|e]; [|discriminate]. cbn [bind] in Hn. inversion Hn as [Hn'].
  exists h. split; [reflexivity|]. cbv zeta. unfold tr_zero. rewrite combine_nth by lia. cbn [fst]. rewrite <- Hn'.
  split; [reflexivity|]. split.
  - intro k. reflexivity.
  - intros src Hs Hd k. unfold apply_overrides, export_header_overrides. cbn [fold_left fst snd eval_hsrc hupd].
    unfold hupd. destruct (k =? 109) eqn:E; [apply Z.eqb_eq in E; subst k; symmetry; exact Hd | apply Hs].
Qed.

(* export_file_header_verbatim: the header region of the exported file is the stored 3600 bytes, whatever
   segyio.create wrote there (init_head is arbitrary) *)
Theorem export_file_header_verbatim_proof r sp f : reader_ok r = true -> export r = Return (sp, f) ->
  f_head f = firstn 3600 (export_stored (r_stored r)) /\ length (f_head f) = 3600%nat /\
  (segy_format (r_stored r) = 1 \/ segy_format (r_stored r) = 5 -> f_head f = firstn 3600 (r_stored r)).
Proof.
  intros Hok He. destruct (export_result r sp f Hok He) as (L & HL & _ & _ & _ & Ef & _). subst f.
  cbn [exported f_head].
  assert (H3 : 3600 <= zlen (r_stored r)).
  { revert Hok. unfold Model.Export.reader_ok. rewrite !andb_true_iff. intros [_ H3]. lia. }
  split; [reflexivity|]. split.
  - pose proof (export_stored_length _ H3) as Hl. unfold zlen in *. rewrite firstn_length. lia.
  - intro Hf. destruct (format_code_choice_proof _ H3) as (_ & Ha & _). rewrite (proj2 (Ha Hf)). reflexivity.
Qed.

(* export_geometry: the spec handed to segyio.create carries the SGZ axes unchanged *)
Theorem export_geometry_proof r sp f : reader_ok r = true -> export r = Return (sp, f) ->
  sp_samples sp = Some (r_zslices r) /\ sp_format sp = export_format (r_stored r) /\
  (r_is_3d r = true -> sp_ilines sp = Some (r_ilines r) /\ sp_xlines sp = Some (r_xlines r) /\ sp_offsets sp = Some [0] /\
                       sp_sorting sp = Some 2 /\ f_cap f = zlen (r_ilines r) * zlen (r_xlines r)) /\
  (r_is_3d r = false -> sp_ilines sp = None /\ sp_xlines sp = None /\ sp_tracecount sp = Some (r_tracecount r) /\
                        f_cap f = r_tracecount r) /\
  r_tracecount r <= f_cap f.
Proof.
  intros Hok He. destruct (export_result r sp f Hok He) as (L & HL & _ & _ & Es & Ef & _). subst f sp.
  pose proof (the_cap_ok r Hok) as Hc. unfold the_spec, exported, the_cap in *. cbn [f_cap].
  destruct (r_is_3d r); cbn [spec_3d spec_flat sp_samples sp_format sp_ilines sp_xlines sp_offsets sp_sorting sp_tracecount];
    repeat split; try reflexivity; try discriminate; try lia; intro; discriminate.
Qed.
End ExportProofs.

(* ------------------------------------------------------------------ bytes of the exported file *)
Lemma skipn_add {A} : forall n m (l : list A), skipn (n + m) l = skipn m (skipn n l).
Proof. induction n as [|n IH]; intros m l; [reflexivity|]. destruct l as [|a l]; [rewrite !skipn_nil; reflexivity|]. cbn [Nat.add skipn]. apply IH. Qed.

Lemma firstn_exact {A} n (l r : list A) : length l = n -> firstn n (l ++ r) = l.
Proof. intro H. subst n. rewrite firstn_app, Nat.sub_diag, firstn_O, app_nil_r. apply firstn_all. Qed.
Lemma skipn_exact {A} n (l r : list A) : length l = n -> skipn n (l ++ r) = r.
Proof. intro H. subst n. rewrite skipn_app, Nat.sub_diag, skipn_all. reflexivity. Qed.

Lemma flat_map_skip {A B} (g : A -> list B) c : forall i (l : list A), (forall p, In p l -> length (g p) = c) ->
  skipn (i * c) (flat_map g l) = flat_map g (skipn i l).
Proof.
  induction i as [|i IH]; intros l Hl; [reflexivity|].
  destruct l as [|a l]; [cbn [flat_map skipn]; apply skipn_nil|].
  cbn [flat_map skipn]. replace (Datatypes.S i * c)%nat with (c + i * c)%nat by lia.
  pose proof (Hl a (or_introl eq_refl)) as Hga.
  rewrite skipn_add, skipn_app, Hga, Nat.sub_diag. rewrite (skipn_all2 (g a)) by lia.
  cbn [skipn app]. apply IH. intros p Hp. apply Hl. right. exact Hp.
Qed.
Lemma flat_map_const_length {A B} (g : A -> list B) c : forall l : list A, (forall p, In p l -> length (g p) = c) ->
  length (flat_map g l) = (length l * c)%nat.
Proof.
  induction l as [|a l IH]; intro Hl; [reflexivity|]. cbn [flat_map length]. rewrite app_length, (Hl a (or_introl eq_refl)).
  rewrite IH by (intros p Hp; apply Hl; right; exact Hp). lia.
Qed.

Section Layout.
Variable T : Type.
Variable tlen : T -> nat.
Variable enc_hdr : thdr -> list Z.
Variable enc_tr : Z -> T -> list Z.
(* segyio: a trace header is 240 bytes, a sample 4 bytes in both formats *)
Hypothesis enc_hdr_len : forall h, length (enc_hdr h) = 240%nat.
Hypothesis enc_tr_len : forall fmt t, length (enc_tr fmt t) = (4 * tlen t)%nat.

(* export_layout: in the bytes of a file whose header region has 3600 bytes and whose traces all have ns samples,
   trace header i sits at 3600 + i*(240 + 4 ns) and its samples 240 bytes further *)
Theorem export_layout_proof fmt (f : sfile T) (ns i : nat) (d : thdr * T) :
  length (f_head f) = 3600%nat -> (forall p, In p (f_traces f) -> tlen (snd p) = ns) -> (i < length (f_traces f))%nat ->
  let off := (3600 + i * (240 + 4 * ns))%nat in
  let bytes := layout T enc_hdr enc_tr fmt f in
  Z.of_nat off = trace_offset (Z.of_nat ns) (Z.of_nat i) /\
  firstn 240 (skipn off bytes) = enc_hdr (fst (nth i (f_traces f) d)) /\
  firstn (4 * ns) (skipn (off + 240) bytes) = enc_tr fmt (snd (nth i (f_traces f) d)) /\
  length bytes = (3600 + length (f_traces f) * (240 + 4 * ns))%nat.
Proof.
  intros Hh Hns Hi. cbv zeta.
  assert (Hc : forall p, In p (f_traces f) -> length (enc_trace T enc_hdr enc_tr fmt p) = (240 + 4 * ns)%nat).
  { intros p Hp. unfold enc_trace. rewrite app_length, enc_hdr_len, enc_tr_len, (Hns p Hp). reflexivity. }
  split; [unfold trace_offset, SEGY_FILE_HEADER_BYTES, SEGY_TRACE_HEADER_BYTES; lia|].
  unfold layout.
  assert (Hsk : skipn (3600 + i * (240 + 4 * ns)) (f_head f ++ flat_map (enc_trace T enc_hdr enc_tr fmt) (f_traces f))
                = flat_map (enc_trace T enc_hdr enc_tr fmt) (skipn i (f_traces f))).
  { rewrite skipn_add, skipn_app, Hh, Nat.sub_diag. rewrite (skipn_all2 (f_head f)) by lia. cbn [skipn app]. apply flat_map_skip. exact Hc. }
  assert (Hsplit : skipn i (f_traces f) = nth i (f_traces f) d :: skipn (Datatypes.S i) (f_traces f)).
  { clear -Hi. revert i Hi. induction (f_traces f) as [|a l IH]; intros i Hi; cbn [length] in Hi; [lia|].
    destruct i as [|i]; [reflexivity|]. cbn [skipn nth]. apply IH. lia. }
  split; [|split].
  - rewrite Hsk, Hsplit. cbn [flat_map]. unfold enc_trace at 1. rewrite <- app_assoc.
    apply firstn_exact. apply enc_hdr_len.
  - rewrite skipn_add, Hsk, Hsplit. cbn [flat_map]. unfold enc_trace at 1. rewrite <- app_assoc.
    rewrite skipn_exact by apply enc_hdr_len.
    assert (Hin : In (nth i (f_traces f) d) (f_traces f)) by (apply nth_In; exact Hi).
    apply firstn_exact. rewrite enc_tr_len, (Hns _ Hin). reflexivity.
  - rewrite app_length, Hh, (flat_map_const_length _ (240 + 4 * ns)%nat _ Hc). reflexivity.
Qed.
End Layout.

(* ------------------------------------------------------------------ re-opening: extended textual headers (D34) *)
Lemma head_byte_kept stored n : 3600 <= zlen stored -> (n < 3600)%nat -> n <> 3224%nat -> n <> 3225%nat ->
  nth n (firstn 3600 (export_stored stored)) 0 = nth n stored 0.
Proof.
  intros H Hn N1 N2. rewrite nth_firstn_lt by exact Hn.
  destruct (format_code_choice_proof stored H) as (_ & Ha & Hb).
  destruct (Z.eq_dec (segy_format stored) 1) as [E|E]; [rewrite (proj2 (Ha (or_introl E))); reflexivity|].
  destruct (Z.eq_dec (segy_format stored) 5) as [E5|E5]; [rewrite (proj2 (Ha (or_intror E5))); reflexivity|].
  apply Hb; [intros [X|X]; contradiction | exact N1 | exact N2].
Qed.
(* the number of extended textual headers announced by the exported header region is the stored one *)
Lemma exported_ext_headers stored : 3600 <= zlen stored ->
  segy_ext_headers (firstn 3600 (export_stored stored)) = segy_ext_headers stored.
Proof.
  intro H. unfold segy_ext_headers. rewrite !(head_byte_kept stored) by (assumption || lia). reflexivity.
Qed.

(* ------------------------------------------------------------------ trace_cell: the reader's index logic *)
Lemma trace_cell_2d st mask nc tc i ovr : 0 <= i < tc -> trace_cell false st mask nc tc i ovr = Return i.
Proof. intro H. unfold trace_cell. cbn [negb]. replace ((0 <=? i) && (i <? tc)) with true by lia. reflexivity. Qed.
Lemma trace_cell_regular mask nc tc i ovr : 0 <= i < nc -> trace_cell true true mask nc tc i ovr = Return i.
Proof. intro H. unfold trace_cell. cbn [negb andb bind]. replace ((0 <=? i) && (i <? nc)) with true by lia. reflexivity. Qed.
Lemma trace_cell_irregular mask tc i : zlen (filter (fun b => b) mask) = tc -> 0 <= i < tc ->
  exists p, trace_cell true false mask (zlen mask) tc i false = Return p /\ mask_nth_model mask i = Return p /\
            0 <= p < zlen mask /\ nth (Z.to_nat p) mask false = true.
Proof.
  intros Hc Hi. destruct (mask_nth_model_spec mask) as (H1 & _). cbv zeta in H1. rewrite Hc in H1.
  destruct (H1 i Hi) as (p & Ep & Hp & Hm). exists p. unfold trace_cell. cbn [negb andb]. rewrite Ep. cbn [bind].
  replace ((0 <=? p) && (p <? zlen mask)) with true by lia. repeat split; try assumption; lia.
Qed.

(* ------------------------------------------------------------------ re-opening the exported file (D34) *)
Section Reopen.
Variable AX : Type.
Variable T : Type.
Variable tzero : T.
Variable get_trace : Z -> bool -> outcome T.
Variable gen_trace_header : Z -> outcome thdr.
Variable init_head : spec AX -> list Z.
Hypothesis init_head_len : forall sp, zlen (init_head sp) = 3600.
Notation export := (export AX T tzero get_trace gen_trace_header init_head).

(* inside the guard "the source announces no extended textual headers" segyio looks for trace 0 where the exporter
   put it *)
Theorem export_reopen_partial_proof (r : reader AX) sp f ns : reader_ok AX r = true -> export r = Return (sp, f) ->
  segy_ext_headers (r_stored r) = 0 -> reopen_trace0 (f_head f) = trace_offset ns 0.
Proof.
  intros Hok He Hext.
  destruct (export_file_header_verbatim_proof AX T tzero get_trace gen_trace_header init_head init_head_len r sp f Hok He) as (Hh & _).
  assert (H3 : 3600 <= zlen (r_stored r)).
  { revert Hok. unfold reader_ok. rewrite !andb_true_iff. intros [_ H3]. lia. }
  unfold reopen_trace0. rewrite Hh, exported_ext_headers, Hext by exact H3. reflexivity.
Qed.

(* outside it the exported file cannot be read back: there is a stored header (IEEE, one extended textual header)
   for which every successful export leaves a file that segyio reads from byte 6800 on, while trace 0 is at 3600 *)
Theorem export_reopen_refuted_proof :
  exists stored, zlen stored = 4096 /\ segy_format stored = 5 /\ segy_ext_headers stored = 1 /\
    forall (r : reader AX) sp f ns, r_stored r = stored -> reader_ok AX r = true -> export r = Return (sp, f) ->
      reopen_trace0 (f_head f) = 6800 /\ trace_offset ns 0 = 3600.
Proof.
  exists (demo_stored 0 5 0 0 0 1). split; [reflexivity|]. split; [reflexivity|]. split; [reflexivity|].
  intros r sp f ns Hs Hok He.
  destruct (export_file_header_verbatim_proof AX T tzero get_trace gen_trace_header init_head init_head_len r sp f Hok He) as (Hh & _).
  split; [|reflexivity]. unfold reopen_trace0. rewrite Hh, Hs, exported_ext_headers by (vm_compute; discriminate). reflexivity.
Qed.

(* the repo-side clauses of the property in one statement: under header preservation (C04), the property's
   hypothesis on the delay, a stored IBM/IEEE code and no extended textual headers, the exported file consists of the
   stored 3600 bytes followed by exactly tracecount traces, trace i carrying the source's header i and get_trace(i) *)
Theorem export_round_trip_proof (r : reader AX) sp f (src : Z -> thdr) :
  reader_ok AX r = true -> export r = Return (sp, f) ->
  (segy_format (r_stored r) = 1 \/ segy_format (r_stored r) = 5) ->
  (forall i h, 0 <= i < r_tracecount r -> gen_trace_header i = Return h -> forall k, h k = src i k) ->
  (forall i, 0 <= i < r_tracecount r -> src i 109 = r_first_sample r) ->
  f_head f = firstn 3600 (r_stored r) /\ sp_format sp = segy_format (r_stored r) /\
  zlen (f_traces f) = r_tracecount r /\
  forall i, 0 <= i < r_tracecount r ->
    (forall k, fst (nth (Z.to_nat i) (f_traces f) (tr_zero T tzero)) k = src i k) /\
    get_trace i false = Return (snd (nth (Z.to_nat i) (f_traces f) (tr_zero T tzero))).
Proof.
  intros Hok He Hfmt Hc04 Hdelay.
  destruct (export_file_header_verbatim_proof AX T tzero get_trace gen_trace_header init_head init_head_len r sp f Hok He) as (_ & _ & Hh).
  destruct (export_trace_order_proof AX T tzero get_trace gen_trace_header init_head init_head_len r sp f Hok He) as (Hn & Ht).
  destruct (export_geometry_proof AX T tzero get_trace gen_trace_header init_head init_head_len r sp f Hok He) as (_ & Hf & _).
  assert (H3 : 3600 <= zlen (r_stored r)).
  { revert Hok. unfold reader_ok. rewrite !andb_true_iff. intros [_ H3]. lia. }
  destruct (format_code_choice_proof _ H3) as (_ & Ha & _).
  split; [exact (Hh Hfmt)|]. split; [rewrite Hf; exact (proj1 (Ha Hfmt))|]. split; [exact Hn|].
  intros i Hi. split; [|exact (Ht i Hi)].
  destruct (export_headers_proof AX T tzero get_trace gen_trace_header init_head init_head_len r sp f Hok He i Hi) as (h & Eh & _ & _ & Hsrc).
  cbv zeta in Hsrc. exact (Hsrc (src i) (Hc04 i h Hi Eh) (Hdelay i Hi)).
Qed.
End Reopen.

(* ------------------------------------------------------------------ non-vacuity: a concrete irregular export *)
Example export_demo_irregular :
  reader_ok Z (demo_reader true false 7 [10; 13] [20; 22; 24] 4 0 (demo_stored 0 5 1 0 0 0)) = true /\
  demo_plan true false [true; false; true; true; false; true] 7 [10; 13] [20; 22; 24] 4 (demo_stored 0 5 1 0 0 0)
  = Return (6, 5, 4, true, (3600, [], 3600), [(3600, 3840, 0); (3868, 4108, 2); (4136, 4376, 3); (4404, 4644, 5)]).
Proof. split; vm_compute; reflexivity. Qed.

(* D35: the regenerated delay is int(zslices[0]) whatever the stored header says; so when the source delay is NOT the
   first sample time (segyio scales the delay by |ScalarTraceHeader| when it derives the sample axis, and the writer
   truncates the start time to whole milliseconds) the exported header differs from the source on field 109 *)
Theorem export_delay_refuted_proof (AX T : Type) (tzero : T) (get_trace : Z -> bool -> outcome T)
  (gen_trace_header : Z -> outcome thdr) (init_head : spec AX -> list Z) :
  (forall sp, zlen (init_head sp) = 3600) ->
  forall (r : reader AX) sp f, reader_ok AX r = true ->
  export AX T tzero get_trace gen_trace_header init_head r = Return (sp, f) ->
  forall i, 0 <= i < r_tracecount r ->
    fst (nth (Z.to_nat i) (f_traces f) (tr_zero T tzero)) 109 = r_first_sample r /\
    forall src : thdr, src 109 <> r_first_sample r -> fst (nth (Z.to_nat i) (f_traces f) (tr_zero T tzero)) 109 <> src 109.
Proof.
  intros Hlen r sp f Hok He i Hi.
  destruct (export_headers_proof AX T tzero get_trace gen_trace_header init_head Hlen r sp f Hok He i Hi) as (h & _ & _ & Hk & _).
  cbv zeta in Hk. pose proof (Hk 109) as H109. cbn in H109. split; [exact H109|]. intros src Hs. rewrite H109. congruence.
Qed.
