(* Proofs/ContainerW.v -- C03: the header the converters write states the truth and describes exactly the bytes that
   follow it; the footer stride the writers use is the one a reader of the current format version derives. *)
From Coq Require Import ZArith List Bool Lia.
Import ListNotations.
From SZ Require Import Lib.Py Gen.Utils Gen.Version Gen.Reader Gen.Header Spec.Container Proofs.PyLemmas Proofs.Layout
  Proofs.Enum Model.Writer Proofs.Writer Model.HeaderW.
Open Scope Z_scope.

Lemma cfg3_unpack rn rd ns n_il n_xl bs0 bs1 bs2 : cfg3 rn rd ns n_il n_xl bs0 bs1 bs2 = true ->
  1 <= ns /\ 1 <= n_il /\ 1 <= n_xl /\ 4 <= bs0 /\ bs0 mod 4 = 0 /\ 4 <= bs1 /\ bs1 mod 4 = 0 /\ 4 <= bs2 /\ bs2 mod 4 = 0 /\
  ((rd = 1 /\ 1 <= rn) \/ (rn = 1 /\ 2 <= rd)) /\ (64 * rn) mod (8 * rd) = 0 /\
  (bs0 / 4) * (bs1 / 4) * (bs2 / 4) * ((64 * rn) / (8 * rd)) = 4096.
Proof.
  unfold cfg3. rewrite !andb_true_iff, orb_true_iff, !andb_true_iff, !Z.leb_le, !Z.eqb_eq. tauto.
Qed.

Section CONV.
Variables rn rd ns n_il n_xl bs0 bs1 bs2 n_arrays venc tc : Z.
Hypothesis CFG : cfg3 rn rd ns n_il n_xl bs0 bs1 bs2 = true.
Hypothesis FIT : fields_ok rn rd ns n_il n_xl 0 tc bs0 bs1 bs2 n_arrays venc false false = true.

Definition Hw : hdr :=
  {| h_u32_0 := 2; h_u32_4 := ns; h_u32_8 := n_xl; h_u32_12 := n_il;
     h_i32_40 := (if rn <? rd then - (rd / rn) else rn / rd); h_u32_44 := bs0; h_u32_48 := bs1; h_u32_52 := bs2;
     h_u32_56 := mh_field_56 rn rd ns n_il n_xl 0 tc bs0 bs1 bs2 n_arrays venc false false;
     h_u32_60 := n_xl * n_il * 32 / 8; h_u32_64 := n_arrays; h_u32_68 := n_il * n_xl; h_u32_72 := venc |}.

Lemma written_is_Hw : written_hdr rn rd ns n_il n_xl 0 tc bs0 bs1 bs2 n_arrays venc false false = Return Hw.
Proof. unfold written_hdr. rewrite FIT. reflexivity. Qed.

Lemma rate_back : s_rn Hw = rn /\ s_rd Hw = rd /\ s_rate_code Hw <> 0.
Proof.
  destruct (cfg3_unpack _ _ _ _ _ _ _ _ CFG) as (_ & _ & _ & _ & _ & _ & _ & _ & _ & R & _ & _).
  unfold s_rn, s_rd, s_rate_code, Hw. cbn [h_i32_40].
  destruct R as [[-> R1] | [-> R2]].
  - replace (rn <? 1) with false by lia. rewrite Z.div_1_r. replace (rn <? 0) with false by lia. lia.
  - replace (1 <? rd) with true by lia. rewrite Z.div_1_r. replace (- rd <? 0) with true by lia. lia.
Qed.

Lemma ub_back : s_ub3 Hw = (64 * rn) / (8 * rd).
Proof. unfold s_ub3. destruct rate_back as (-> & -> & _). reflexivity. Qed.

Theorem written_wf : wf3 Hw = true.
Proof.
  destruct (cfg3_unpack _ _ _ _ _ _ _ _ CFG) as (A1 & A2 & A3 & B0 & B0m & B1 & B1m & B2 & B2m & R & DV & BLK).
  destruct rate_back as (RN & RD & RC). pose proof ub_back as UB.
  assert (RDpos : 0 < rd) by (destruct R as [[-> _]|[_ ?]]; lia).
  assert (UBpos : 0 < s_ub3 Hw).
  { rewrite UB. assert (0 < bs0 / 4) by (apply Z.div_str_pos; lia). assert (0 < bs1 / 4) by (apply Z.div_str_pos; lia).
    assert (0 < bs2 / 4) by (apply Z.div_str_pos; lia). nia. }
  unfold wf3. rewrite RN, RD, UB.
  change (s_nil Hw) with n_il. change (s_nxl Hw) with n_xl. change (s_ns Hw) with ns.
  change (s_bs0 Hw) with bs0. change (s_bs1 Hw) with bs1. change (s_bs2 Hw) with bs2.
  rewrite UB in UBpos.
  pose proof (exact_div (64 * rn) (8 * rd) ltac:(lia) DV) as EX.
  repeat (apply andb_true_iff; split); try (apply Z.leb_le; lia); try (apply Z.eqb_eq; lia); try (apply Z.ltb_lt; lia).
  apply negb_true_iff. apply Z.eqb_neq. exact RC.
Qed.


(* the stated number of disk blocks is exactly the data section: padded voxels x bits / 8, a whole number of blocks *)
Theorem written_diskblocks : s_ndb Hw * 4096 = s_data_bytes3 Hw /\ s_data_bytes3 Hw = s_ub3 Hw * data_units Hw.
Proof.
  pose proof (wf3_facts Hw written_wf) as F.
  destruct (cfg3_unpack _ _ _ _ _ _ _ _ CFG) as (A1 & A2 & A3 & B0 & B0m & B1 & B1m & B2 & B2m & R & DV & BLK).
  assert (RDpos : 0 < rd) by (destruct R as [[-> _]|[_ ?]]; lia).
  split; [|symmetry; apply data_units_bytes].
  change (s_ndb Hw) with (mh_field_56 rn rd ns n_il n_xl 0 tc bs0 bs1 bs2 n_arrays venc false false). unfold mh_field_56.
  rewrite !pad_is_pad_to by lia.
  change (pad_to ns bs2) with (s_PZ Hw). change (pad_to n_xl bs1) with (s_PX Hw). change (pad_to n_il bs0) with (s_PI Hw).
  destruct (f_PI Hw F) as (_ & _ & PI4 & _). destruct (f_PX Hw F) as (_ & _ & PX4 & _). destruct (f_PZ Hw F) as (_ & _ & PZ4 & _).
  pose proof (exact_div (s_PI Hw) 4 ltac:(lia) PI4) as E0. pose proof (exact_div (s_PX Hw) 4 ltac:(lia) PX4) as E1.
  pose proof (exact_div (s_PZ Hw) 4 ltac:(lia) PZ4) as E2.
  pose proof (exact_div (64 * rn) (8 * rd) ltac:(lia) DV) as EX.
  set (A := s_PI Hw / 4) in *. set (B := s_PX Hw / 4) in *. set (C := s_PZ Hw / 4) in *. set (ub := 64 * rn / (8 * rd)) in *.
  assert (NUM : rn * (s_PZ Hw * s_PX Hw * s_PI Hw) = (ub * (A * B * C)) * (rd * 8)).
  { rewrite E0, E1, E2. replace (rn * (4 * C * (4 * B) * (4 * A))) with ((64 * rn) * (A * B * C)) by ring. rewrite EX. ring. }
  rewrite NUM. rewrite Z_div_mult by lia.
  (* ub * (A*B*C) is a whole number of 4096-byte blocks *)
  pose proof (total_units Hw written_wf) as TU. fold A B C in TU.
  pose proof (f_block Hw F) as BK. rewrite ub_back in BK. fold ub in BK.
  change (s_bs0 Hw) with bs0 in *. change (s_bs1 Hw) with bs1 in *. change (s_bs2 Hw) with bs2 in *.
  unfold s_data_bytes3. fold A B C. rewrite ub_back. fold ub.
  rewrite <- TU.
  set (n := s_PI Hw / bs0 * (s_PX Hw / bs1 * (s_PZ Hw / bs2))) in *.
  replace (ub * (s_PI Hw / bs0 * (s_PX Hw / bs1 * (s_PZ Hw / bs2) * (bs0 / 4 * (bs1 / 4) * (bs2 / 4)))))
    with ((s_PI Hw / bs0 * (s_PX Hw / bs1 * (s_PZ Hw / bs2))) * 4096) by (rewrite <- BK; ring).
  rewrite Z_div_mult by lia. rewrite <- BK. ring.
Qed.

Theorem written_states_truth :
  s_nhb Hw = 2 /\ s_nil Hw = n_il /\ s_nxl Hw = n_xl /\ s_ns Hw = ns /\ s_bs0 Hw = bs0 /\ s_bs1 Hw = bs1 /\ s_bs2 Hw = bs2 /\
  s_rn Hw = rn /\ s_rd Hw = rd /\ s_hel Hw = 4 * (n_il * n_xl) /\ s_nha Hw = n_arrays /\ s_ntr Hw = n_il * n_xl /\ s_ver Hw = venc.
Proof.
  destruct rate_back as (RN & RD & _). repeat split; try reflexivity; try assumption.
  unfold s_hel, Hw. cbn [h_u32_60]. replace (n_xl * n_il * 32) with (4 * (n_il * n_xl) * 8) by ring. apply Z_div_mult. lia.
Qed.
End CONV.

(* ---------- footer: what the writers append is what a reader of a post-0.2.1 file derives ---------- *)
Lemma footer_stride_round_up len : 1 <= len -> footer_stride_written len = 512 + 512 * ((len - 1) / 512).
Proof.
  intro Hl. unfold footer_stride_written, footer_pad_segy.
  pose proof (Z.div_mod (len - 1) 512 ltac:(lia)) as DM. pose proof (Z.mod_pos_bound (len - 1) 512 ltac:(lia)) as MB.
  set (q := (len - 1) / 512) in *. set (r := (len - 1) mod 512) in *.
  assert (E : (- len) mod 512 = 511 - r).
  { symmetry. apply (Z.mod_unique_pos (- len) 512 (- q - 1) (511 - r)); lia. }
  rewrite E. lia.
Qed.

Lemma footer_pads_agree len : footer_pad_numpy len = footer_pad_segy len.
Proof. reflexivity. Qed.

Theorem footer_stride_agrees H : version_to_encoding 0 2 1 false < rd_file_version_enc H -> 1 <= s_hel H ->
  rd_padded_header_entry_length_bytes H = footer_stride_written (s_hel H).
Proof.
  intros V Hl. rewrite footer_stride_round_up by exact Hl.
  unfold rd_padded_header_entry_length_bytes, rd_padded_header_entry_length_bytes_v1.
  replace (rd_file_version_enc_v1 H >? version_to_encoding 0 2 1 false) with true by (unfold rd_file_version_enc in V; lia).
  reflexivity.
Qed.

(* the position where the writers put array k is where the reader looks for it; the file ends after the last array *)
Fixpoint footer_positions (start len : Z) (n : nat) : list Z :=
  match n with O => [] | S k => start :: footer_positions (start + footer_stride_written len) len k end.
Lemma footer_positions_nth start len n k : (k < n)%nat ->
  nth k (footer_positions start len n) 0 = start + Z.of_nat k * footer_stride_written len.
Proof.
  revert start k; induction n as [|n IH]; intros start k Hk; [lia|].
  destruct k as [|k]; cbn [footer_positions nth]; [lia|]. rewrite IH by lia. lia.
Qed.
