(* Proofs/Geometry.v -- C05 geometry preservation: proofs about Model/Geometry.v over the GENERATED Gen/Geometry.v *)
From Coq Require Import ZArith List Bool String Lia.
From Coq Require PrimFloat Uint63 FloatClass.
From SZ Require Import Lib.Py Gen.Utils Gen.Version Gen.Reader Gen.Geometry Model.Geometry Proofs.PyLemmas.
Import ListNotations.
Open Scope Z_scope.

(* ================================================================== 1. 32-bit arithmetic (unbounded, lia + explicit mod) *)
Lemma two32_pos : 0 < two32. Proof. reflexivity. Qed.
Lemma two64_is : two64 = two32 * two32. Proof. reflexivity. Qed.
Lemma two32_is : two32 = 2 * two31. Proof. reflexivity. Qed.

Lemma int32_ok_iff x : int32_ok x = true <-> - two31 <= x < two31.
Proof. unfold int32_ok. rewrite andb_true_iff, Z.leb_le, Z.ltb_lt. tauto. Qed.

Lemma wrap32_id x : int32_ok x = true -> wrap32 x = x.
Proof.
  intros H. apply int32_ok_iff in H. unfold wrap32.
  rewrite Z.mod_small; [lia | rewrite two32_is; lia].
Qed.

Lemma wrap32_cong x y q : x = y + two32 * q -> wrap32 x = wrap32 y.
Proof.
  intros ->. unfold wrap32.
  replace (y + two32 * q + two31) with (y + two31 + q * two32) by ring.
  rewrite Z_mod_plus_full. reflexivity.
Qed.

Lemma mod_cong32 x m k : m = two32 * k -> 0 < m -> exists q, x mod m = x + two32 * q.
Proof.
  intros Hm Hpos. exists (- (k * (x / m))).
  pose proof (Z.div_mod x m ltac:(lia)) as Hd. rewrite Hm in Hd at 1. lia.
Qed.

Lemma u32_cong x : exists q, u32 x = x + two32 * q.
Proof. unfold u32. apply (mod_cong32 x two32 1); reflexivity. Qed.

Lemma wrap32_cong_ex x : exists q, wrap32 x = x + two32 * q.
Proof.
  unfold wrap32. destruct (mod_cong32 (x + two31) two32 1 eq_refl eq_refl) as [q Hq].
  exists q. lia.
Qed.

Lemma wrap64_cong_ex x : exists q, wrap64 x = x + two32 * q.
Proof.
  unfold wrap64. destruct (mod_cong32 (x + two63) two64 two32 eq_refl eq_refl) as [q Hq].
  exists q. lia.
Qed.

Lemma u32_range x : 0 <= u32 x < two32.
Proof. unfold u32. apply Z.mod_pos_bound. reflexivity. Qed.

Lemma u32_small x : 0 <= x < two32 -> u32 x = x.
Proof. intros H. unfold u32. apply Z.mod_small; assumption. Qed.

(* reading back as signed what was packed as signed: struct.unpack('<i', struct.pack('<i', x)) *)
Lemma wrap32_u32 x : int32_ok x = true -> wrap32 (u32 x) = x.
Proof.
  intros H. destruct (u32_cong x) as [q Hq].
  rewrite (wrap32_cong _ _ _ Hq). apply wrap32_id; assumption.
Qed.

(* THE axis lemma.  The reader computes, in int64 array arithmetic, S + T * k from the UNSIGNED header values S, T and
   converts to int32.  Whatever representatives S of the first line number a and T of the increment s the header holds
   (unsigned reading of a negative number; an increment that wrapped in np.int32 subtraction), element k is the source's
   a + s*k as soon as that is an int32.  No bound on k, a, s. *)
Theorem axis_roundtrip a s k S T :
  (exists q, S = a + two32 * q) -> (exists q, T = s + two32 * q) -> int32_ok (a + s * k) = true ->
  wrap32 (wrap64 (S + wrap64 (T * k))) = a + s * k.
Proof.
  intros [qa Ha] [qs Hs] Hok.
  destruct (wrap64_cong_ex (T * k)) as [q1 H1].
  destruct (wrap64_cong_ex (S + wrap64 (T * k))) as [q2 H2].
  rewrite <- (wrap32_id _ Hok).
  apply (wrap32_cong _ _ (qa + qs * k + q1 + q2)).
  rewrite H2, H1, Ha, Hs. ring.
Qed.

Corollary axis_roundtrip_u32 a s k :
  int32_ok (a + s * k) = true -> wrap32 (u32 a + u32 s * k) = a + s * k.
Proof.
  intros Hok. destruct (u32_cong a) as [qa Ha]. destruct (u32_cong s) as [qs Hs].
  rewrite <- (wrap32_id _ Hok). apply (wrap32_cong _ _ (qa + qs * k)). rewrite Ha, Hs. ring.
Qed.

(* every element of a regular axis whose two ends are int32 is an int32 *)
Lemma axis_elem_ok a s n k :
  int32_ok a = true -> int32_ok (a + s * (n - 1)) = true -> 0 <= k < n -> int32_ok (a + s * k) = true.
Proof.
  intros Ha Hb Hk. apply int32_ok_iff in Ha. apply int32_ok_iff in Hb. apply int32_ok_iff.
  destruct (Z_le_gt_dec 0 s) as [Hs | Hs].
  - assert (0 <= s * k) by (apply Z.mul_nonneg_nonneg; lia).
    assert (s * k <= s * (n - 1)) by (apply Z.mul_le_mono_nonneg_l; lia).
    lia.
  - assert (s * k <= 0) by (apply Z.mul_nonpos_nonneg; lia).
    assert (s * (n - 1) <= s * k) by (apply Z.mul_le_mono_nonpos_l; lia).
    lia.
Qed.

(* integer np.arange(a, a + s*n, s) has exactly n elements (both signs of s): on integers the old and the repaired form of
   gen_coord_list produce the same list.  len = max(0, ceil((stop - start) / step)) *)
Definition arange3_len (start stop step : Z) : Z :=
  Z.max 0 (if 0 <? step then (stop - start + step - 1) / step else (start - stop + (- step) - 1) / (- step)).
Theorem arange_count a s n : s <> 0 -> 0 <= n -> arange3_len a (a + s * n) s = n.
Proof.
  intros Hs Hn. unfold arange3_len. destruct (0 <? s) eqn:Hpos.
  - apply Z.ltb_lt in Hpos.
    replace (a + s * n - a + s - 1) with (s * n + (s - 1)) by ring.
    rewrite <- (Z.div_unique_pos (s * n + (s - 1)) s n (s - 1)); [lia | lia | ring].
  - apply Z.ltb_ge in Hpos.
    replace (a - (a + s * n) + - s - 1) with ((- s) * n + (- s - 1)) by ring.
    rewrite <- (Z.div_unique_pos ((- s) * n + (- s - 1)) (- s) n (- s - 1)); [lia | lia | ring].
Qed.

(* ================================================================== 2. generic list / monad lemmas *)
Lemma mapM_Return_map {A B} (f : A -> outcome B) (g : A -> B) l :
  (forall x, In x l -> f x = Return (g x)) -> mapM f l = Return (map g l).
Proof.
  induction l as [| x xs IH]; intros H; cbn [mapM map].
  - reflexivity.
  - rewrite (H x (or_introl eq_refl)). cbn [bind]. rewrite IH; [reflexivity |].
    intros y Hy. apply H. right. exact Hy.
Qed.

Lemma zrange_length lo hi : lo <= hi -> Z.of_nat (List.length (zrange lo hi)) = hi - lo.
Proof. intros H. unfold zrange. rewrite zrange_nat_length. lia. Qed.

Lemma zrange_nat_cons lo n : zrange_nat lo (S n) = lo :: zrange_nat (lo + 1) n.
Proof. reflexivity. Qed.

Lemma zrange_two lo hi : lo + 2 <= hi -> exists r, zrange lo hi = lo :: (lo + 1) :: r.
Proof.
  intros H. unfold zrange.
  destruct (Z.to_nat (hi - lo)) as [| [| m]] eqn:E; try lia.
  eexists. cbn [zrange_nat]. reflexivity.
Qed.

Lemma axis_length a s n : 0 <= n -> zlen (axis a s n) = n.
Proof. intros H. unfold zlen, axis. rewrite map_length. rewrite zrange_length; lia. Qed.

Lemma axis_two a s n : 2 <= n -> exists r, axis a s n = a :: (a + s) :: r.
Proof.
  intros H. destruct (zrange_two 0 n ltac:(lia)) as [r Hr]. unfold axis. rewrite Hr. cbn [map].
  eexists. f_equal; [ring | f_equal; ring].
Qed.

(* ================================================================== 3. what make_header writes for a regular 3-D source
   (symbolic evaluation of the GENERATED field expressions wr_field_<off>) *)
Lemma wrap32_range x : int32_ok (wrap32 x) = true.
Proof.
  apply int32_ok_iff. unfold wrap32.
  pose proof (Z.mod_pos_bound (x + two31) two32 two32_pos) as H. rewrite two32_is in *. lia.
Qed.

Lemma axis_ok_facts a s n i32 : axis_ok a s n i32 = true ->
  2 <= n /\ s <> 0 /\ int32_ok a = true /\ int32_ok (a + s * (n - 1)) = true /\ (i32 = true \/ int32_ok s = true).
Proof.
  unfold axis_ok. rewrite !andb_true_iff, negb_true_iff, orb_true_iff, Z.leb_le, Z.eqb_neq. tauto.
Qed.

Lemma window_ok_facts w0 wn n : window_ok w0 wn n = true -> 0 <= w0 /\ 1 <= wn /\ w0 + wn <= n.
Proof. unfold window_ok. rewrite !andb_true_iff, !Z.leb_le. tauto. Qed.

Lemma cube_ok_facts c : cube_ok c = true ->
  axis_ok (c_il0 c) (c_ils c) (c_iln c) (c_i32 c) = true /\ axis_ok (c_xl0 c) (c_xls c) (c_xln c) (c_i32 c) = true /\
  window_ok (c_wil0 c) (c_wiln c) (c_iln c) = true /\ window_ok (c_wxl0 c) (c_wxln c) (c_xln c) = true /\
  c_wiln c * c_wxln c < two32.
Proof. unfold cube_ok. rewrite !andb_true_iff, Z.ltb_lt. tauto. Qed.

Lemma count_fits n m : 1 <= n -> 1 <= m -> n * m < two32 -> 0 <= n < two32 /\ 0 <= m < two32 /\ 0 <= n * m.
Proof.
  intros Hn Hm H.
  assert (n * 1 <= n * m) by (apply Z.mul_le_mono_nonneg_l; lia).
  assert (1 * m <= n * m) by (apply Z.mul_le_mono_nonneg_r; lia).
  lia.
Qed.

Lemma pack_u_ok z : 0 <= z < two32 -> pack_u z = Return z.
Proof. intros H. unfold pack_u. replace (0 <=? z) with true by (symmetry; apply Z.leb_le; lia).
  replace (z <? two32) with true by (symmetry; apply Z.ltb_lt; lia). reflexivity. Qed.
Lemma pack_i_ok z : int32_ok z = true -> pack_i z = Return (u32 z).
Proof. intros H. unfold pack_i. rewrite H. reflexivity. Qed.

Lemma geom_len w0 wn : 0 <= wn -> Z.of_nat (Datatypes.length (map VZ (zrange w0 (w0 + wn)))) = wn.
Proof. intros H. rewrite map_length. rewrite zrange_length; lia. Qed.

Lemma nth_error_zrange_nat lo m i : (i < m)%nat -> nth_error (zrange_nat lo m) i = Some (lo + Z.of_nat i).
Proof.
  revert lo i. induction m as [| m IH]; intros lo i Hi; [lia |].
  destruct i as [| i]; cbn [zrange_nat nth_error].
  - f_equal. lia.
  - rewrite IH by lia. f_equal. lia.
Qed.

Lemma nth_error_zrange lo hi k : 0 <= k < hi - lo -> nth_error (zrange lo hi) (Z.to_nat k) = Some (lo + k).
Proof. intros H. unfold zrange. rewrite nth_error_zrange_nat by lia. f_equal. lia. Qed.

Lemma nth_error_axis a s n k : 0 <= k < n -> nth_error (axis a s n) (Z.to_nat k) = Some (a + s * k).
Proof.
  intros H. unfold axis. rewrite (map_nth_error _ _ _ (nth_error_zrange 0 n k ltac:(lia))). reflexivity.
Qed.

(* first line number: bytes 24:28 (inlines), 20:24 (crosslines) hold the two's complement of the source axis at the first
   ordinal of the converted window, `ilines[geom.ilines[0]]` *)
Lemma first_line_written i32 a s n w0 wn p :
  axis_ok a s n i32 = true -> window_ok w0 wn n = true ->
  bind (bind match nth_error (map VZ (zrange w0 (w0 + wn))) (Z.to_nat 0) with Some v => Return v | None => Raise IndexErr end
          (fun iv => match iv with
                     | VZ k | VI32 k =>
                         if k <? 0 then Raise OtherErr
                         else match nth_error (map (mk_line i32) (axis a s n)) (Z.to_nat k) with
                              | Some v => Return v | None => Raise IndexErr end
                     | VF _ => Raise IndexErr
                     end))
       (pack p) = pack p (mk_line i32 (a + s * w0)).
Proof.
  intros _ Hw. apply window_ok_facts in Hw. destruct Hw as (Hw0 & Hwn & Hwe).
  rewrite (map_nth_error _ _ _ (nth_error_zrange w0 (w0 + wn) 0 ltac:(lia))). cbn [bind].
  replace (w0 + 0) with w0 by ring.
  replace (w0 <? 0) with false by (symmetry; apply Z.ltb_ge; lia).
  rewrite (map_nth_error _ _ _ (nth_error_axis a s n w0 ltac:(lia))). reflexivity.
Qed.

Lemma window_first_ok a s n w0 wn i32 :
  axis_ok a s n i32 = true -> window_ok w0 wn n = true ->
  forall k, 0 <= k < wn -> int32_ok (a + s * w0 + s * k) = true.
Proof.
  intros Ha Hw k Hk. apply axis_ok_facts in Ha. destruct Ha as (_ & _ & Ha & Hb & _).
  apply window_ok_facts in Hw. replace (a + s * w0 + s * k) with (a + s * (w0 + k)) by ring.
  apply (axis_elem_ok a s n (w0 + k) Ha Hb). lia.
Qed.

Lemma wr_field_24_cube c : cube_ok c = true ->
  eval_fv (env_of_cube c) wr_field_24 = Return (u32 (c_il0 c + c_ils c * c_wil0 c)).
Proof.
  intros Hok. apply cube_ok_facts in Hok. destruct Hok as (Hil & _ & Hw & _ & _).
  unfold wr_field_24. cbn [eval_fv eval_cond eval bind env_of_cube e_flag e_arr e_idx e_var negb]. unfold c_src_ilines.
  rewrite (first_line_written _ _ _ _ _ _ _ Hil Hw).
  pose proof (window_first_ok _ _ _ _ _ _ Hil Hw 0 ltac:(apply window_ok_facts in Hw; lia)) as Ha.
  replace (c_il0 c + c_ils c * c_wil0 c + c_ils c * 0) with (c_il0 c + c_ils c * c_wil0 c) in Ha by ring.
  destruct (c_i32 c); cbn [mk_line pack astype_int bind]; apply pack_i_ok; exact Ha.
Qed.

Lemma wr_field_20_cube c : cube_ok c = true ->
  eval_fv (env_of_cube c) wr_field_20 = Return (u32 (c_xl0 c + c_xls c * c_wxl0 c)).
Proof.
  intros Hok. apply cube_ok_facts in Hok. destruct Hok as (_ & Hxl & _ & Hw & _).
  unfold wr_field_20. cbn [eval_fv eval_cond eval bind env_of_cube e_flag e_arr e_idx e_var negb]. unfold c_src_xlines.
  rewrite (first_line_written _ _ _ _ _ _ _ Hxl Hw).
  pose proof (window_first_ok _ _ _ _ _ _ Hxl Hw 0 ltac:(apply window_ok_facts in Hw; lia)) as Ha.
  replace (c_xl0 c + c_xls c * c_wxl0 c + c_xls c * 0) with (c_xl0 c + c_xls c * c_wxl0 c) in Ha by ring.
  destruct (c_i32 c); cbn [mk_line pack astype_int bind]; apply pack_i_ok; exact Ha.
Qed.

(* increment: second minus first element, computed in the element type; np.int32 subtraction may wrap, the stored value is
   then a different representative of the same residue mod 2^32 *)
Lemma step_written i32 a s n :
  axis_ok a s n i32 = true ->
  exists T,
    bind (bind match nth_error (map (mk_line i32) (axis a s n)) (Z.to_nat 1) with Some v => Return v | None => Raise IndexErr end
           (fun x => bind match nth_error (map (mk_line i32) (axis a s n)) (Z.to_nat 0) with
                          | Some v => Return v | None => Raise IndexErr end
                       (fun y => arith false Z.sub PrimFloat.sub x y)))
         (pack PackI32A) = Return T /\ exists q, T = s + two32 * q.
Proof.
  intros H. apply axis_ok_facts in H. destruct H as (Hn & _ & _ & _ & Hs).
  destruct (axis_two a s n Hn) as [r Hr]. rewrite Hr.
  change (Z.to_nat 1) with 1%nat. change (Z.to_nat 0) with 0%nat. cbn [map nth_error bind].
  destruct i32; cbn [mk_line arith bind pack astype_int].
  - exists (u32 (wrap32 (a + s - a))). split; [apply pack_i_ok, wrap32_range |].
    destruct (u32_cong (wrap32 (a + s - a))) as [q1 H1]. destruct (wrap32_cong_ex (a + s - a)) as [q2 H2].
    exists (q1 + q2). rewrite H1, H2. ring.
  - destruct Hs as [Hs | Hs]; [discriminate |]. cbv iota.
    replace (a + s - a) with s by ring.
    exists (u32 s). split; [apply pack_i_ok; exact Hs | apply u32_cong].
Qed.

Lemma wr_field_36_cube c : cube_ok c = true ->
  exists T, eval_fv (env_of_cube c) wr_field_36 = Return T /\ exists q, T = c_ils c + two32 * q.
Proof.
  intros Hok. apply cube_ok_facts in Hok. destruct Hok as (Hil & _).
  unfold wr_field_36. cbn [eval_fv eval_cond eval bind env_of_cube e_flag e_arr e_idx e_var negb]. unfold c_src_ilines.
  exact (step_written _ _ _ _ Hil).
Qed.

Lemma wr_field_32_cube c : cube_ok c = true ->
  exists T, eval_fv (env_of_cube c) wr_field_32 = Return T /\ exists q, T = c_xls c + two32 * q.
Proof.
  intros Hok. apply cube_ok_facts in Hok. destruct Hok as (_ & Hxl & _).
  unfold wr_field_32. cbn [eval_fv eval_cond eval bind env_of_cube e_flag e_arr e_idx e_var negb]. unfold c_src_xlines.
  exact (step_written _ _ _ _ Hxl).
Qed.

(* counts and trace count *)
Lemma cube_counts c : cube_ok c = true ->
  0 <= c_wiln c < two32 /\ 0 <= c_wxln c < two32 /\ 0 <= c_wiln c * c_wxln c < two32.
Proof.
  intros Hok. apply cube_ok_facts in Hok. destruct Hok as (_ & _ & Hwi & Hwx & Hn).
  apply window_ok_facts in Hwi. apply window_ok_facts in Hwx.
  pose proof (count_fits (c_wiln c) (c_wxln c) ltac:(tauto) ltac:(tauto) Hn). lia.
Qed.

Lemma wr_field_12_cube c : cube_ok c = true -> eval_fv (env_of_cube c) wr_field_12 = Return (c_wiln c).
Proof.
  intros Hok. pose proof (cube_counts c Hok) as (Hi & Hx & Ht).
  unfold wr_field_12. cbn [eval_fv eval_cond eval bind env_of_cube e_flag e_arr e_idx e_var negb pack].
  rewrite geom_len by lia. apply pack_u_ok; lia.
Qed.

Lemma wr_field_8_cube c : cube_ok c = true -> eval_fv (env_of_cube c) wr_field_8 = Return (c_wxln c).
Proof.
  intros Hok. pose proof (cube_counts c Hok) as (Hi & Hx & Ht).
  unfold wr_field_8. cbn [eval_fv eval_cond eval bind env_of_cube e_flag e_arr e_idx e_var negb pack].
  rewrite geom_len by lia. apply pack_u_ok; lia.
Qed.

Lemma wr_field_68_cube c : cube_ok c = true -> eval_fv (env_of_cube c) wr_field_68 = Return (c_wiln c * c_wxln c).
Proof.
  intros Hok. pose proof (cube_counts c Hok) as (Hi & Hx & Ht).
  unfold wr_field_68. cbn [eval_fv eval_cond eval bind env_of_cube e_flag e_arr e_idx e_var negb orb arith pack].
  rewrite !geom_len by lia. apply pack_u_ok; lia.
Qed.

(* `written` is functional: wr_fields has one entry per offset *)
Lemma written_fun c off f v : In (off, f) wr_fields ->
  (forall f', In (off, f') wr_fields -> f' = f) -> written c off v -> eval_fv (env_of_cube c) f = Return v.
Proof. intros _ Huniq (f' & Hin & Hev). rewrite <- (Huniq f' Hin). exact Hev. Qed.

Ltac field_unique :=
  let f' := fresh "f" in let H := fresh "H" in
  intros f' H; cbn [wr_fields In] in H;
  repeat (destruct H as [H | H]; [congruence |]); contradiction.

Lemma written_12 c v : written c 12 v -> eval_fv (env_of_cube c) wr_field_12 = Return v.
Proof. apply written_fun; [cbn; tauto | field_unique]. Qed.
Lemma written_8 c v : written c 8 v -> eval_fv (env_of_cube c) wr_field_8 = Return v.
Proof. apply written_fun; [cbn; tauto | field_unique]. Qed.
Lemma written_20 c v : written c 20 v -> eval_fv (env_of_cube c) wr_field_20 = Return v.
Proof. apply written_fun; [cbn; tauto | field_unique]. Qed.
Lemma written_24 c v : written c 24 v -> eval_fv (env_of_cube c) wr_field_24 = Return v.
Proof. apply written_fun; [cbn; tauto | field_unique]. Qed.
Lemma written_32 c v : written c 32 v -> eval_fv (env_of_cube c) wr_field_32 = Return v.
Proof. apply written_fun; [cbn; tauto | field_unique]. Qed.
Lemma written_36 c v : written c 36 v -> eval_fv (env_of_cube c) wr_field_36 = Return v.
Proof. apply written_fun; [cbn; tauto | field_unique]. Qed.
Lemma written_68 c v : written c 68 v -> eval_fv (env_of_cube c) wr_field_68 = Return v.
Proof. apply written_fun; [cbn; tauto | field_unique]. Qed.

(* the writer does not raise on the seven integer geometry fields of a well-formed cube *)
Theorem geometry_fields_written c : cube_ok c = true ->
  forall off, In off [8; 12; 20; 24; 32; 36; 68] -> exists v, written c off v.
Proof.
  intros Hok off Hin.
  destruct (wr_field_36_cube c Hok) as (T36 & H36 & _). destruct (wr_field_32_cube c Hok) as (T32 & H32 & _).
  cbn [In] in Hin.
  destruct Hin as [<- | [<- | [<- | [<- | [<- | [<- | [<- | []]]]]]]]; eexists; eexists; (split; [cbn [wr_fields In]; tauto |]).
  - apply (wr_field_8_cube c Hok).
  - apply (wr_field_12_cube c Hok).
  - apply (wr_field_20_cube c Hok).
  - apply (wr_field_24_cube c Hok).
  - exact H32.
  - exact H36.
  - apply (wr_field_68_cube c Hok).
Qed.

(* ================================================================== 4. what the reader regenerates (symbolic evaluation of
   the GENERATED rd_axis_ilines / rd_axis_xlines with the GENERATED gen_coord_list_body) *)
Lemma rd_axis_ilines_char E :
  rd_axis E rd_axis_ilines =
  mapM (fun k => Return (VI32 (wrap32 (wrap64 (e_u32 E 24 + wrap64 (e_u32 E 36 * k)))))) (zrange 0 (e_u32 E 12)).
Proof.
  unfold rd_axis, rd_axis_ilines, gen_coord_list_body.
  cbn [ax_start ax_step ax_count ax_astype eval bind arange_args app call_env e_var e_idx e_u32 astype_elem arith].
  reflexivity.
Qed.
Lemma rd_axis_xlines_char E :
  rd_axis E rd_axis_xlines =
  mapM (fun k => Return (VI32 (wrap32 (wrap64 (e_u32 E 20 + wrap64 (e_u32 E 32 * k)))))) (zrange 0 (e_u32 E 8)).
Proof.
  unfold rd_axis, rd_axis_xlines, gen_coord_list_body.
  cbn [ax_start ax_step ax_count ax_astype eval bind arange_args app call_env e_var e_idx e_u32 astype_elem arith].
  reflexivity.
Qed.

Lemma regen_axis a s n S T N :
  (forall k, 0 <= k < n -> int32_ok (a + s * k) = true) -> S = u32 a -> (exists q, T = s + two32 * q) -> N = n ->
  mapM (fun k => Return (VI32 (wrap32 (wrap64 (S + wrap64 (T * k)))))) (zrange 0 N) = Return (map VI32 (axis a s n)).
Proof.
  intros Hok -> HT ->.
  unfold axis. rewrite map_map. apply mapM_Return_map.
  intros k Hk. apply in_zrange in Hk. do 2 f_equal.
  apply axis_roundtrip; [apply u32_cong | exact HT |].
  apply Hok. lia.
Qed.

(* ================================================================== 5. inline and crossline axes are preserved *)
Theorem ilines_preserved c E :
  cube_ok c = true ->
  written c 12 (e_u32 E 12) -> written c 24 (e_u32 E 24) -> written c 36 (e_u32 E 36) ->
  rd_axis E rd_axis_ilines = Return (map VI32 (c_ilines c)).
Proof.
  intros Hok H12 H24 H36.
  apply written_12 in H12. apply written_24 in H24. apply written_36 in H36.
  rewrite (wr_field_12_cube c Hok) in H12. rewrite (wr_field_24_cube c Hok) in H24.
  destruct (wr_field_36_cube c Hok) as (T & HT & Hq). rewrite HT in H36.
  injection H12 as H12. injection H24 as H24. injection H36 as H36.
  rewrite rd_axis_ilines_char. apply cube_ok_facts in Hok. destruct Hok as (Hil & _ & Hw & _ & _).
  apply regen_axis; [exact (window_first_ok _ _ _ _ _ _ Hil Hw) | symmetry; exact H24 | rewrite <- H36; exact Hq
                    | symmetry; exact H12].
Qed.

Theorem xlines_preserved c E :
  cube_ok c = true ->
  written c 8 (e_u32 E 8) -> written c 20 (e_u32 E 20) -> written c 32 (e_u32 E 32) ->
  rd_axis E rd_axis_xlines = Return (map VI32 (c_xlines c)).
Proof.
  intros Hok H8 H20 H32.
  apply written_8 in H8. apply written_20 in H20. apply written_32 in H32.
  rewrite (wr_field_8_cube c Hok) in H8. rewrite (wr_field_20_cube c Hok) in H20.
  destruct (wr_field_32_cube c Hok) as (T & HT & Hq). rewrite HT in H32.
  injection H8 as H8. injection H20 as H20. injection H32 as H32.
  rewrite rd_axis_xlines_char. apply cube_ok_facts in Hok. destruct Hok as (_ & Hxl & _ & Hw & _).
  apply regen_axis; [exact (window_first_ok _ _ _ _ _ _ Hxl Hw) | symmetry; exact H20 | rewrite <- H32; exact Hq
                    | symmetry; exact H8].
Qed.

(* a whole-source conversion reports the source's axes themselves *)
Lemma whole_cube_axes il0 ils iln xl0 xls xln i32 l :
  c_ilines (whole_cube il0 ils iln xl0 xls xln i32 l) = axis il0 ils iln /\
  c_xlines (whole_cube il0 ils iln xl0 xls xln i32 l) = axis xl0 xls xln.
Proof. unfold c_ilines, c_xlines, whole_cube. cbn. split; f_equal; ring. Qed.

(* ================================================================== 6. trace count and structured flag
   (rd_tracecount, rd_n_ilines, rd_n_xlines are GENERATED in Gen/Reader.v, rd_structured in Gen/Geometry.v) *)
Theorem tracecount_preserved c H :
  cube_ok c = true ->
  written c 8 (h_u32_8 H) -> written c 12 (h_u32_12 H) -> written c 68 (h_u32_68 H) ->
  rd_n_ilines H = c_wiln c /\ rd_n_xlines H = c_wxln c /\ rd_tracecount H = c_wiln c * c_wxln c.
Proof.
  intros Hok H8 H12 H68.
  apply written_8 in H8. apply written_12 in H12. apply written_68 in H68.
  rewrite (wr_field_8_cube c Hok) in H8. rewrite (wr_field_12_cube c Hok) in H12. rewrite (wr_field_68_cube c Hok) in H68.
  injection H8 as H8. injection H12 as H12. injection H68 as H68.
  unfold rd_n_ilines, rd_n_xlines, rd_tracecount, rd_tracecount_v1, rd_n_ilines_v1, rd_n_xlines_v1.
  rewrite <- H8, <- H12, <- H68. repeat split.
  destruct (_ >? _); reflexivity.
Qed.

Theorem structured_iff H :
  rd_structured H = true <-> (rd_blockshape0_v1 H <> 1 /\ rd_tracecount H = rd_n_ilines H * rd_n_xlines H).
Proof.
  unfold rd_structured, rd_is_2d. destruct (rd_blockshape0_v1 H =? 1) eqn:E.
  - apply Z.eqb_eq in E. split; [discriminate | tauto].
  - apply Z.eqb_neq in E. rewrite Z.eqb_eq. tauto.
Qed.

Theorem structured_preserved c H :
  cube_ok c = true ->
  written c 8 (h_u32_8 H) -> written c 12 (h_u32_12 H) -> written c 68 (h_u32_68 H) ->
  rd_blockshape0_v1 H <> 1 -> rd_structured H = true.
Proof.
  intros Hok H8 H12 H68 H3d. destruct (tracecount_preserved c H Hok H8 H12 H68) as (Hi & Hx & Ht).
  apply structured_iff. split; [exact H3d | rewrite Ht, Hi, Hx; reflexivity].
Qed.

(* ================================================================== 7. the sample axis (binary64 through PrimFloat)
   Universal lemmas first (symbolic evaluation of the GENERATED expressions); the arithmetic facts about binary64 come from
   the finite sweeps in Proofs/GeometrySweep{A,B,C}.v. *)
From SZ Require Import Proofs.GeometrySweepA Proofs.GeometrySweepB Proofs.GeometrySweepC.

(* bytes 4:8, 16:20, 28:32 depend on nothing but the sample axis *)
Lemma samples_field_4_only E : eval_fv E wr_field_4 = stored_count (e_arr E A_samples).
Proof. reflexivity. Qed.
Lemma samples_field_16_only E : eval_fv E wr_field_16 = stored_start (e_arr E A_samples).
Proof. reflexivity. Qed.
Lemma samples_field_28_only E : e_idx E = None -> eval_fv E wr_field_28 = stored_interval (e_arr E A_samples).
Proof.
  intros H. unfold stored_interval, wr_field_28. cbn [eval_fv eval bind samples_env e_arr e_idx]. rewrite H. reflexivity.
Qed.

Lemma segy_samples_two d t0 n : 2 <= n ->
  exists r, segy_samples d t0 n = VF (segy_sample d t0 0) :: VF (segy_sample d t0 1) :: r.
Proof.
  intros H. destruct (zrange_two 0 n ltac:(lia)) as [r Hr]. unfold segy_samples. rewrite Hr. cbn [map]. eexists. reflexivity.
Qed.

(* ... and only on its first two elements *)
Lemma hdr_first_two d t0 n : 2 <= n ->
  stored_interval (segy_samples d t0 n) = stored_interval (segy_samples d t0 2) /\
  stored_start (segy_samples d t0 n) = stored_start (segy_samples d t0 2).
Proof.
  intros H. destruct (segy_samples_two d t0 n H) as [r Hr]. destruct (segy_samples_two d t0 2 ltac:(lia)) as [r2 Hr2].
  rewrite Hr, Hr2. unfold stored_interval, stored_start, wr_field_28, wr_field_16.
  cbn [eval_fv eval bind samples_env e_arr e_idx].
  change (Z.to_nat 1) with 1%nat. change (Z.to_nat 0) with 0%nat. cbn [nth_error]. split; reflexivity.
Qed.

Lemma stored_count_n d t0 n : 0 <= n < two32 -> stored_count (segy_samples d t0 n) = Return n.
Proof.
  intros H. unfold stored_count, wr_field_4. cbn [eval_fv eval bind samples_env e_arr pack].
  unfold segy_samples. rewrite map_length, zrange_length by lia. replace (n - 0) with n by ring. apply pack_u_ok. lia.
Qed.

(* the regenerated axis is, element by element, zs_elem of the two header fields *)
Lemma two53_bound x : 0 <= x < two32 -> (Z.abs x <? two53) = true.
Proof. intros H. apply Z.ltb_lt. rewrite Z.abs_eq by lia. unfold two32, two53 in *. lia. Qed.

Lemma rd_zslices_elems f4 f16 f28 : 0 <= f28 < two32 ->
  rd_axis (zs_env f4 f16 f28) rd_axis_zslices = mapM (zs_elem f16 f28) (zrange 0 f4).
Proof.
  intros H28. unfold zs_elem, rd_axis, rd_axis_zslices, gen_coord_list_body.
  cbn [ax_start ax_step ax_count ax_astype eval eval_cond bind arange_args app zs_env e_f64 e_ver e_u32 Z.eqb Pos.eqb].
  replace (PrimFloat.eqb f_zero f_zero) with true by (vm_compute; reflexivity).
  replace (version_to_encoding 0 1 6 false + 1 >? version_to_encoding 0 1 6 false) with true by (vm_compute; reflexivity).
  unfold truediv. change (1000 =? 0) with false. rewrite (two53_bound f28 H28).
  change (Z.abs 1000 <? two53) with true. cbn [andb bind call_env e_var e_idx]. reflexivity.
Qed.

(* for ANY reader environment of a non-ZGY file (double at 92:100 zero) written after version 0.1.6, the sample axis is a
   function of the three header fields alone *)
Lemma rd_zslices_char E :
  PrimFloat.eqb (e_f64 E 92) f_zero = true -> (e_ver E >? version_to_encoding 0 1 6 false) = true ->
  rd_axis E rd_axis_zslices = rd_axis (zs_env (e_u32 E 4) (e_u32 E 16) (e_u32 E 28)) rd_axis_zslices.
Proof.
  intros Hz Hv. unfold rd_axis, rd_axis_zslices, gen_coord_list_body.
  cbn [ax_start ax_step ax_count ax_astype eval eval_cond bind arange_args app zs_env e_f64 e_ver e_u32 Z.eqb Pos.eqb].
  rewrite Hz, Hv.
  replace (PrimFloat.eqb f_zero f_zero) with true by (vm_compute; reflexivity).
  replace (version_to_encoding 0 1 6 false + 1 >? version_to_encoding 0 1 6 false) with true by (vm_compute; reflexivity).
  cbn [bind call_env e_var e_idx]. reflexivity.
Qed.

Lemma mapM_same (f : Z -> outcome val) (h : Z -> val) l :
  (forall k, In k l -> exists v, f k = Return v /\ val_same v (h k) = true) ->
  exists r, mapM f l = Return r /\ list_same r (map h l) = true.
Proof.
  induction l as [| x xs IH]; intros H.
  - exists []. split; reflexivity.
  - destruct (H x (or_introl eq_refl)) as (v & Hv & Hs).
    destruct IH as (r & Hr & Hrs); [intros k Hk; apply H; right; exact Hk |].
    exists (v :: r). cbn [mapM map list_same]. rewrite Hv. cbn [bind]. rewrite Hr. cbn [bind].
    split; [reflexivity | rewrite Hs, Hrs; reflexivity].
Qed.

Lemma returns_eq o v : returns o v = true -> o = Return v.
Proof. destruct o as [x | e]; cbn [returns]; [intros H; apply Z.eqb_eq in H; subst; reflexivity | discriminate]. Qed.

(* from a successful finite check to the statement for every axis length n <= kmax *)
Theorem zslices_regenerated d t0 n kmax :
  zs_check d t0 kmax = true -> 2 <= n <= kmax -> n < two32 -> 0 <= d < two32 ->
  let l := segy_samples d t0 n in
  stored_count l = Return n /\ stored_start l = Return (u32 t0) /\ stored_interval l = Return d /\
  exists r, rd_axis (zs_env n (u32 t0) d) rd_axis_zslices = Return r /\ list_same r l = true.
Proof.
  intros Hc Hn Hn32 Hd l. unfold zs_check, zs_hdr_check in Hc. rewrite !andb_true_iff in Hc.
  destruct Hc as ((Hi & Hs) & He). apply returns_eq in Hi. apply returns_eq in Hs.
  destruct (hdr_first_two d t0 n ltac:(lia)) as (Hi2 & Hs2).
  split; [apply stored_count_n; lia |]. split; [unfold l; rewrite Hs2; exact Hs |].
  split; [unfold l; rewrite Hi2; exact Hi |].
  rewrite (rd_zslices_elems _ _ _ Hd). unfold l, segy_samples.
  apply (mapM_same (zs_elem (u32 t0) d) (fun i => VF (segy_sample d t0 i))).
  intros k Hk. apply in_zrange in Hk. rewrite forallb_forall in He.
  specialize (He k ltac:(apply in_zrange; lia)). unfold zs_elem_check in He.
  destruct (zs_elem (u32 t0) d k) as [v | e]; [exists v; split; [reflexivity | exact He] | discriminate].
Qed.

(* the finite domain on which the binary64 facts were computed (every clause states its bounds):
   A  every interval 1..65535 us, start 0 ms,                       2..8 samples
   B  every interval 1..65535 us, start -32768 ms or 32767 ms,      2..3 samples
   C  interval 1001 us, every start -32768..32767 ms,               2..3 samples
   D  intervals 1 3 1001 4000 65535 us, starts 0 -32768 32767 1500, 2..4096 samples *)
Definition in_list (x : Z) (l : list Z) : bool := existsb (Z.eqb x) l.
Definition zs_dom (d t0 n : Z) : bool :=
  (2 <=? n) &&
  (   ((1 <=? d) && (d <=? 65535) && (t0 =? 0) && (n <=? 8))
   || ((1 <=? d) && (d <=? 65535) && in_list t0 [-32768; 32767] && (n <=? 3))
   || ((d =? 1001) && (-32768 <=? t0) && (t0 <=? 32767) && (n <=? 3))
   || (in_list d [1; 3; 1001; 4000; 65535] && in_list t0 [0; -32768; 32767; 1500] && (n <=? 4096))).

Lemma in_list_In x l : in_list x l = true -> In x l.
Proof. unfold in_list. rewrite existsb_exists. intros (y & Hy & E). apply Z.eqb_eq in E. subst. exact Hy. Qed.

Lemma zs_dom_checked d t0 n : zs_dom d t0 n = true ->
  exists kmax, zs_check d t0 kmax = true /\ 2 <= n <= kmax /\ n < two32 /\ 0 <= d < two32.
Proof.
  unfold zs_dom. rewrite andb_true_iff, !orb_true_iff, !andb_true_iff, !Z.leb_le, !Z.eqb_eq.
  intros (Hn & [[[H | H] | H] | H]).
  - destruct H as (((Hd1 & Hd2) & Ht) & Hn8). subst t0. exists 8.
    pose proof sweep_all_intervals_t0_0 as S. rewrite forallb_forall in S.
    split; [apply S, in_zrange; lia | unfold two32; lia].
  - destruct H as (((Hd1 & Hd2) & Ht) & Hn3). apply in_list_In in Ht. exists 3. cbn [In] in Ht.
    destruct Ht as [<- | [<- | []]].
    + pose proof sweep_all_intervals_t0_min as S. rewrite forallb_forall in S.
      split; [apply S, in_zrange; lia | unfold two32; lia].
    + pose proof sweep_all_intervals_t0_max as S. rewrite forallb_forall in S.
      split; [apply S, in_zrange; lia | unfold two32; lia].
  - destruct H as (((Hd & Ht1) & Ht2) & Hn3). subst d. exists 3.
    pose proof sweep_all_starts_d_1001 as S. rewrite forallb_forall in S.
    split; [apply S, in_zrange; lia | unfold two32; lia].
  - destruct H as ((Hd & Ht) & Hn4). apply in_list_In in Hd. apply in_list_In in Ht. exists 4096.
    pose proof sweep_long_axes as S. rewrite forallb_forall in S. specialize (S d Hd).
    rewrite forallb_forall in S. specialize (S t0 Ht).
    split; [exact S |]. cbn [In] in Hd. unfold two32. lia.
Qed.

Lemma written_4 c v : written c 4 v -> eval_fv (env_of_cube c) wr_field_4 = Return v.
Proof. apply written_fun; [cbn; tauto | field_unique]. Qed.
Lemma written_16 c v : written c 16 v -> eval_fv (env_of_cube c) wr_field_16 = Return v.
Proof. apply written_fun; [cbn; tauto | field_unique]. Qed.
Lemma written_28 c v : written c 28 v -> eval_fv (env_of_cube c) wr_field_28 = Return v.
Proof. apply written_fun; [cbn; tauto | field_unique]. Qed.

(* the header of a source with segyio's sample axis holds the count, the start time and the interval exactly *)
Theorem sample_fields_written c d t0 n :
  zs_dom d t0 n = true -> c_samples c = segy_samples d t0 n ->
  written c 4 n /\ written c 16 (u32 t0) /\ written c 28 d.
Proof.
  intros Hdom Hs. destruct (zs_dom_checked d t0 n Hdom) as (kmax & Hc & Hn & Hn32 & Hd).
  destruct (zslices_regenerated d t0 n kmax Hc Hn Hn32 Hd) as (H4 & H16 & H28 & _).
  repeat split; eexists; (split; [cbn [wr_fields In]; tauto |]).
  - rewrite samples_field_4_only. cbn [env_of_cube e_arr]. rewrite Hs. exact H4.
  - rewrite samples_field_16_only. cbn [env_of_cube e_arr]. rewrite Hs. exact H16.
  - rewrite samples_field_28_only by reflexivity. cbn [env_of_cube e_arr]. rewrite Hs. exact H28.
Qed.

(* the sample axis is preserved bit for bit *)
Theorem zslices_preserved c E d t0 n :
  zs_dom d t0 n = true -> c_samples c = segy_samples d t0 n ->
  written c 4 (e_u32 E 4) -> written c 16 (e_u32 E 16) -> written c 28 (e_u32 E 28) ->
  PrimFloat.eqb (e_f64 E 92) f_zero = true -> (e_ver E >? version_to_encoding 0 1 6 false) = true ->
  exists r, rd_axis E rd_axis_zslices = Return r /\ list_same r (c_samples c) = true.
Proof.
  intros Hdom Hs W4 W16 W28 Hz Hv.
  destruct (sample_fields_written c d t0 n Hdom Hs) as (S4 & S16 & S28).
  apply written_4 in W4, S4. apply written_16 in W16, S16. apply written_28 in W28, S28.
  rewrite S4 in W4. rewrite S16 in W16. rewrite S28 in W28.
  injection W4 as W4. injection W16 as W16. injection W28 as W28.
  destruct (zs_dom_checked d t0 n Hdom) as (kmax & Hc & Hn & Hn32 & Hd).
  destruct (zslices_regenerated d t0 n kmax Hc Hn Hn32 Hd) as (_ & _ & _ & r & Hr & Hsame).
  exists r. rewrite (rd_zslices_char E Hz Hv), <- W4, <- W16, <- W28, Hs. split; assumption.
Qed.

(* ================================================================== 8. corollaries in the form quoted by Props/C05.v *)
Theorem interval_exact d : 1 <= d <= 65535 -> stored_interval (segy_samples d 0 2) = Return d.
Proof.
  intros H. pose proof sweep_all_intervals_t0_0 as S. rewrite forallb_forall in S.
  specialize (S d ltac:(apply in_zrange; lia)). unfold zs_check, zs_hdr_check in S. rewrite !andb_true_iff in S.
  destruct S as ((Hi & _) & _). apply returns_eq. exact Hi.
Qed.

(* non-vacuity: a concrete cube with a negative first inline, a descending crossline axis that starts at 2^31-1, the
   interval 1001 us and the start time -32768 ms satisfies every hypothesis of the theorems above *)
Definition nv_cube : cube :=
  whole_cube (-5) 3 4 2147483647 (-1000) 3 true (segy_samples 1001 (-32768) 3).
Definition nv_env : genv := reader_env (written_fields nv_cube) (version_to_encoding 0 2 9 false).
Theorem geometry_nonvacuous :
  cube_ok nv_cube = true /\ zs_dom 1001 (-32768) 3 = true /\ c_samples nv_cube = segy_samples 1001 (-32768) 3 /\
  (forall off, In off [4; 8; 12; 16; 20; 24; 28; 32; 36; 68] -> written nv_cube off (e_u32 nv_env off)) /\
  PrimFloat.eqb (e_f64 nv_env 92) f_zero = true /\ (e_ver nv_env >? version_to_encoding 0 1 6 false) = true /\
  rd_axis nv_env rd_axis_ilines = Return (map VI32 [-5; -2; 1; 4]) /\
  rd_axis nv_env rd_axis_xlines = Return (map VI32 [2147483647; 2147482647; 2147481647]).
Proof.
  split; [vm_compute; reflexivity |]. split; [vm_compute; reflexivity |]. split; [reflexivity |].
  split.
  - intros off Hin. cbn [In] in Hin.
    destruct Hin as [<- | [<- | [<- | [<- | [<- | [<- | [<- | [<- | [<- | [<- | []]]]]]]]]]];
      eexists; (split; [cbn [wr_fields In]; tauto | vm_compute; reflexivity]).
  - repeat split; vm_compute; reflexivity.
Qed.
