(* Proofs/ConfigHeader.v -- C19: every accepted configuration hands C01-C03 a well-formed header.
   The header fields 40-55 the writer makes of a resolved configuration (hdr_rate_code: hand model of three lines of
   conversion_utils.make_header, pinned) satisfy the configuration part of Spec.Container.wf3 / wf2 -- the
   hypotheses under which C01-C03 are proved (block = 4096 bytes, unit a positive whole number of bytes dividing the
   block, block dimensions multiples of 4) -- and the reader's rate (GENERATED rd_rate_n / rd_rate_d) is the
   configured rate. *)
From Coq Require Import ZArith QArith Qround List Bool Lia.
From SZ Require Import Lib.Py Lib.PyConfig Gen.Config Model.Config Proofs.Config Gen.Reader Spec.Container.
Import ListNotations.
Open Scope Z_scope.

Definition hdr_matches (H : hdr) (r : resolved) : Prop :=
  let '(q, (x, y, z)) := r in
  h_i32_40 H = hdr_rate_code q /\ h_u32_44 H = x /\ h_u32_48 H = y /\ h_u32_52 H = z.

Lemma hdr_rate_code_frac q (n : positive) : (q == 1 # n)%Q -> (1 < Z.pos n) -> hdr_rate_code q = - Z.pos n.
Proof.
  intros E Hn. unfold hdr_rate_code. rewrite (Qlt_bool_comp_l q (1 # n) _ E).
  replace (Qlt_bool (1 # n) (inject_Z 1)) with true.
  2:{ symmetry. apply Qlt_bool_iff. unfold Qlt. cbn. lia. }
  f_equal. apply q_int_of_Qeq. rewrite E. unfold Qeq, Qdiv, Qmult, Qinv. cbn. lia.
Qed.

Lemma hdr_rate_code_int q (n : positive) : (q == Z.pos n # 1)%Q -> hdr_rate_code q = Z.pos n.
Proof.
  intro E. unfold hdr_rate_code. rewrite (Qlt_bool_comp_l q (Z.pos n # 1) _ E).
  replace (Qlt_bool (Z.pos n # 1) (inject_Z 1)) with false.
  2:{ symmetry. apply Qlt_bool_false. unfold Qle. cbn. lia. }
  apply q_int_of_Qeq. exact E.
Qed.

(* the product equation over Z, for the rate written as a/b *)
Lemma product_Z q (a : Z) (b : positive) n :
  (q == a # b)%Q -> (q * inject_Z n == inject_Z 32768)%Q -> a * n = 32768 * Z.pos b.
Proof. intros E P. rewrite E in P. unfold Qeq in P. cbn in P. lia. Qed.

Lemma pow2_ge4_split n : pow2_ge4 n -> exists m, 1 <= m /\ n = 4 * m.
Proof.
  intros (k & Hk & ->). exists (2 ^ (k - 2)). split.
  - assert (0 < 2 ^ (k - 2)) by (apply Z.pow_pos_nonneg; lia). lia.
  - replace k with (2 + (k - 2)) at 1 by lia. rewrite Z.pow_add_r by lia. reflexivity.
Qed.

Lemma div4 m : 4 * m / 4 = m.
Proof. rewrite Z.mul_comm. apply Z.div_mul. discriminate. Qed.
Lemma mod4 m : (4 * m) mod 4 = 0.
Proof. rewrite Z.mul_comm. apply Z_mod_mult. Qed.

(* evaluate the closed quotients of a goal *)
Ltac closed_div :=
  repeat match goal with
         | |- context [?a / ?b] => let v := eval vm_compute in (a / b) in
                                   match v with Z0 => idtac | Zpos _ => idtac | Zneg _ => idtac end;
                                   change (a / b) with v
         end.

(* rate code, numerator and denominator for each of the eight rates *)
Lemma rate_code_cases q : is_rate q ->
  exists (a : Z) (b : positive) (code : Z), (q == a # b)%Q /\ hdr_rate_code q = code /\
    ((a, b, code) = (1, 4%positive, -4) \/ (a, b, code) = (1, 2%positive, -2) \/ (a, b, code) = (1, 1%positive, 1) \/
     (a, b, code) = (2, 1%positive, 2) \/ (a, b, code) = (4, 1%positive, 4) \/ (a, b, code) = (8, 1%positive, 8) \/
     (a, b, code) = (16, 1%positive, 16) \/ (a, b, code) = (32, 1%positive, 32)).
Proof.
  intro R. destruct (is_rate_cases q R) as [E|[E|[E|[E|[E|[E|[E|E]]]]]]].
  - exists 1, 4%positive, (-4). repeat split; [exact E|apply (hdr_rate_code_frac q 4 E); lia|tauto].
  - exists 1, 2%positive, (-2). repeat split; [exact E|apply (hdr_rate_code_frac q 2 E); lia|tauto].
  - exists 1, 1%positive, 1. repeat split; [exact E|apply (hdr_rate_code_int q 1 E)|tauto].
  - exists 2, 1%positive, 2. repeat split; [exact E|apply (hdr_rate_code_int q 2 E)|tauto].
  - exists 4, 1%positive, 4. repeat split; [exact E|apply (hdr_rate_code_int q 4 E)|tauto].
  - exists 8, 1%positive, 8. repeat split; [exact E|apply (hdr_rate_code_int q 8 E)|tauto].
  - exists 16, 1%positive, 16. repeat split; [exact E|apply (hdr_rate_code_int q 16 E)|tauto].
  - exists 32, 1%positive, 32. repeat split; [exact E|apply (hdr_rate_code_int q 32 E)|tauto].
Qed.

(* 3D: an accepted configuration gives a header that satisfies Spec.Container.wf3 (given a non-empty cube) *)
Theorem accepted_header_wf3 (H : hdr) r :
  wf false r -> hdr_matches H r -> 1 <= s_nil H -> 1 <= s_nxl H -> 1 <= s_ns H ->
  wf3 H = true /\ (inject_Z (s_rn H) / inject_Z (s_rd H) == fst r)%Q.
Proof.
  destruct r as (q & ((x & y) & z)). cbn [fst]. intros (R & Px & Py & Pz & P) (Hc & Hx & Hy & Hz) Nil Nxl Ns.
  destruct (pow2_ge4_split x Px) as (x1 & X1 & ->). destruct (pow2_ge4_split y Py) as (y1 & Y1 & ->).
  destruct (pow2_ge4_split z Pz) as (z1 & Z1 & ->).
  destruct (rate_code_cases q R) as (a & b & code & E & Ec & Cases).
  pose proof (product_Z q a b _ E P) as PZ.
  replace (4 * x1 * (4 * y1) * (4 * z1)) with (64 * (x1 * y1 * z1)) in PZ by ring.
  set (p := x1 * y1 * z1) in *.
  unfold wf3, s_ub3, s_rn, s_rd, s_rate_code, s_bs0, s_bs1, s_bs2 in *. rewrite Hc, Ec, Hx, Hy, Hz, !div4, !mod4.
  fold p.
  destruct Cases as [C|[C|[C|[C|[C|[C|[C|C]]]]]]]; inversion C; subst a b code; clear C;
    (split; [clearbody p; cbn [Z.ltb Z.compare Z.opp]; closed_div; repeat (apply andb_true_intro; split); lia | rewrite E; cbn; reflexivity]).
Qed.

(* 2D: the same for wf2, for the rates the (repaired) code accepts in 2D *)
Theorem accepted_header_wf2 (H : hdr) r :
  wf true r -> supported true (fst r) -> hdr_matches H r -> 1 <= s_ntr H -> 1 <= s_ns H ->
  wf2 H = true /\ (inject_Z (s_rn H) / inject_Z (s_rd H) == fst r)%Q.
Proof.
  destruct r as (q & ((x & y) & z)). cbn [fst]. intros (R & -> & Py & Pz & P) S (Hc & Hx & Hy & Hz) Ntr Ns.
  specialize (S eq_refl).
  destruct (pow2_ge4_split y Py) as (y1 & Y1 & ->). destruct (pow2_ge4_split z Pz) as (z1 & Z1 & ->).
  destruct (rate_code_cases q R) as (a & b & code & E & Ec & Cases).
  pose proof (product_Z q a b _ E P) as PZ.
  replace (1 * (4 * y1) * (4 * z1)) with (16 * (y1 * z1)) in PZ by ring.
  set (p := y1 * z1) in *.
  unfold wf2, s_ub2, s_rn, s_rd, s_rate_code, s_bs0, s_bs1, s_bs2 in *. rewrite Hc, Ec, Hx, Hy, Hz, !div4, !mod4.
  fold p. rewrite E in S.
  destruct Cases as [C|[C|[C|[C|[C|[C|[C|C]]]]]]]; inversion C; subst a b code; clear C;
    try (exfalso; unfold Qle in S; cbn in S; lia);
    (split; [clearbody p; cbn [Z.ltb Z.compare Z.opp]; closed_div; repeat (apply andb_true_intro; split); lia | rewrite E; cbn; reflexivity]).
Qed.
