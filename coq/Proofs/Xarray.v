(* Proofs/Xarray.v -- C02e / C07d: the xarray backend (seismic_zfp/sgz_xarray.py) and tools.cube.

   xa_raw (Model/Xarray.v: the loop of SeismicZfpBackendArray._raw_indexing_method over the GENERATED expressions of
   Gen/Xarray.v, the GENERATED rd_read_subvolume, and numpy basic indexing for the trailing [tuple(post)]) is, for EVERY
   well-formed 3D header and EVERY key (ints of either sign and any size, slices with any / no start and stop, any
   non-zero step),  numpy's V[key] of the specification's volume V = spec_cell3 H:
     - per axis (axis_total): the loop body either raises IndexError (int outside [-n, n)) or produces a pair of bounds and
       a post index such that: an empty slice gives lo = hi; otherwise [lo, hi) is the tight bounding box of the selected
       indices, lies inside the axis, and (box)[post] re-selects exactly the positions the key selects;
     - the three axes are composed with the sub-volume theorems of Proofs/Subvolume.v (default layout) and Proofs/General.v
       (general layout).
   All by arithmetic (lia / nia on small goals, explicit div lemmas): no enumeration. *)
From Coq Require Import ZArith List Bool Lia String.
Import ListNotations.
From SZ Require Import Lib.Py Model.Accessors Gen.Reader Gen.Xarray Spec.Container Model.Xarray
  Proofs.PyLemmas Proofs.Layout Proofs.Default Proofs.General Proofs.Accessors.
From SZ Require Proofs.Subvolume.
Open Scope Z_scope.

(* ================================================================ slices and ranges *)
Lemma slice_indices_ok s n : 0 <= n -> sl_step s <> Some 0 ->
  exists a b c, slice_indices s n = Return (a, b, c) /\ c <> 0 /\
    (0 < c -> 0 <= a <= n /\ 0 <= b <= n) /\ (c < 0 -> -1 <= a <= n - 1 /\ -1 <= b <= n - 1).
Proof.
  intros Hn Hz. unfold slice_indices.
  set (k := match sl_step s with None => 1 | Some k => k end).
  assert (k <> 0) as Hk by (subst k; destruct (sl_step s) as [k|]; [congruence | lia]).
  replace (k =? 0) with false by (symmetry; apply Z.eqb_neq; exact Hk).
  eexists _, _, _. split; [reflexivity |]. split; [exact Hk |]. split; intros Hs.
  - replace (k <? 0) with false by (symmetry; apply Z.ltb_ge; lia). split.
    + destruct (sl_start s) as [v|]; [apply (adjust_bound_range n k v Hn); exact Hs | lia].
    + destruct (sl_stop s) as [v|]; [apply (adjust_bound_range n k v Hn); exact Hs | lia].
  - replace (k <? 0) with true by (symmetry; apply Z.ltb_lt; lia). split.
    + destruct (sl_start s) as [v|]; [apply (adjust_bound_range n k v Hn); exact Hs | lia].
    + destruct (sl_stop s) as [v|]; [apply (adjust_bound_range n k v Hn); exact Hs | lia].
Qed.

(* a non-empty range starts and ends inside the axis *)
Lemma range_ends_inside a b c n : c <> 0 ->
  (0 < c -> 0 <= a <= n /\ 0 <= b <= n) -> (c < 0 -> -1 <= a <= n - 1 /\ -1 <= b <= n - 1) ->
  0 < range_len a b c -> 0 <= a < n /\ 0 <= a + (range_len a b c - 1) * c < n.
Proof.
  intros Hc Hp Hn HL. set (L := range_len a b c) in *.
  destruct (Z_lt_le_dec 0 c) as [Hpos | Hneg].
  - destruct (Hp Hpos) as [Ha Hb].
    assert (0 <= L - 1 < L) as HI by lia. apply (range_len_pos_spec a b c (L - 1) Hpos) in HI.
    destruct HI as [_ HI]. nia.
  - assert (c < 0) as Hneg' by lia. destruct (Hn Hneg') as [Ha Hb].
    assert (0 <= L - 1 < L) as HI by lia. apply (range_len_neg_spec a b c (L - 1) Hneg') in HI.
    destruct HI as [_ HI]. nia.
Qed.

Lemma range_len_unit_pos m c L : 0 < c -> 0 < L -> m = (L - 1) * c + 1 -> range_len 0 m c = L.
Proof.
  intros Hc HL ->. unfold range_len. replace (0 <? c) with true by (symmetry; apply Z.ltb_lt; lia).
  replace (0 <? (L - 1) * c + 1) with true by (symmetry; apply Z.ltb_lt; nia).
  replace ((L - 1) * c + 1 - 0 - 1) with ((L - 1) * c) by lia. rewrite Z.div_mul by lia. lia.
Qed.

Lemma range_len_unit_neg m c L : c < 0 -> 0 < L -> m = (L - 1) * (- c) + 1 -> range_len (m - 1) (-1) c = L.
Proof.
  intros Hc HL ->. unfold range_len. replace (0 <? c) with false by (symmetry; apply Z.ltb_ge; lia).
  replace (c <? 0) with true by (symmetry; apply Z.ltb_lt; lia).
  replace (-1 <? (L - 1) * (- c) + 1 - 1) with true by (symmetry; apply Z.ltb_lt; nia).
  replace ((L - 1) * - c + 1 - 1 - -1 - 1) with ((L - 1) * (- c)) by lia. rewrite Z.div_mul by lia. lia.
Qed.

(* ================================================================ one axis *)
(* positions of a result index that belong to this axis *)
Definition jok (k : key1) (n j : Z) : Prop := match k with KInt _ => True | KSlice _ => 0 <= j < np_count k n end.

(* what one loop iteration establishes *)
Definition axis_good (k : key1) (n : Z) : Prop :=
  exists lo hi pk, xa_axis k n = Return ((lo, hi), pk) /\ xa_zeros_dims k n = np_dims k n /\ 0 <= np_count k n /\
    ((np_count k n = 0 /\ lo = hi) \/
     (0 < np_count k n /\ 0 <= lo < hi /\ hi <= n /\ lo = np_lo k n /\ hi = np_hi k n /\
      np_check pk (hi - lo) = Return tt /\ np_dims pk (hi - lo) = np_dims k n /\
      (forall idx, take_idx pk idx = take_idx k idx) /\
      (forall j, lo + np_src pk (hi - lo) j = np_src k n j) /\
      (forall j, jok k n j -> lo <= np_src k n j < hi))).

Lemma axis_int_good k n : 0 < n -> int_in_range (KInt k) n = true -> axis_good (KInt k) n.
Proof.
  intros Hn Hr. cbn [int_in_range] in Hr. apply andb_true_iff in Hr. destruct Hr as [R1 R2].
  apply Z.leb_le in R1. apply Z.ltb_lt in R2.
  set (i := if k <? 0 then k + n else k).
  assert (0 <= i < n) as Hi by (subst i; destruct (k <? 0) eqn:E; [apply Z.ltb_lt in E | apply Z.ltb_ge in E]; lia).
  exists i, (i + 1), (KInt 0). unfold xa_axis, xa_int_norm, xa_int_ok, xa_bounds_int, xa_post_int. fold i.
  replace ((0 <=? i) && (i <? n)) with true by (symmetry; apply andb_true_iff; split; [apply Z.leb_le | apply Z.ltb_lt]; lia).
  cbn [negb]. split; [reflexivity |]. split; [reflexivity |]. cbn [np_count]. split; [lia |]. right.
  unfold np_lo, np_hi. cbn [np_count np_src np_dims np_check int_in_range take_idx jok]. fold i.
  replace (i + 1 - i) with 1 by lia. cbn.
  repeat split; try reflexivity; try lia.
Qed.

Lemma axis_int_bad k n : int_in_range (KInt k) n = false -> xa_axis (KInt k) n = Raise IndexErr.
Proof.
  intro Hr. cbn [int_in_range] in Hr. unfold xa_axis, xa_int_norm, xa_int_ok.
  replace ((0 <=? (if k <? 0 then k + n else k)) && ((if k <? 0 then k + n else k) <? n)) with false; [reflexivity |].
  symmetry. apply andb_false_iff in Hr. apply andb_false_iff.
  destruct (k <? 0) eqn:E; [apply Z.ltb_lt in E | apply Z.ltb_ge in E]; destruct Hr as [Hr | Hr].
  - apply Z.leb_gt in Hr. left. apply Z.leb_gt. lia.
  - apply Z.ltb_ge in Hr. left. apply Z.leb_gt. lia.
  - apply Z.leb_gt in Hr. right. apply Z.ltb_ge. lia.
  - apply Z.ltb_ge in Hr. right. apply Z.ltb_ge. lia.
Qed.

Lemma axis_slice_good s n : 0 < n -> sl_step s <> Some 0 -> axis_good (KSlice s) n.
Proof.
  intros Hn Hz.
  destruct (slice_indices_ok s n ltac:(lia) Hz) as (a & b & c & E & Hc & Hp & Hm).
  unfold axis_good, xa_axis, xa_zeros_dims, xa_indices, np_lo, np_hi.
  cbn [np_count np_dims np_src jok]. unfold np_indices. rewrite E. cbn [bind].
  unfold xa_slice_empty, xa_bounds_empty, xa_bounds_slice, xa_post_slice, xa_zeros_len.
  pose proof (range_len_nonneg a b c) as L0. set (L := range_len a b c) in *.
  destruct (L =? 0) eqn:EL.
  - apply Z.eqb_eq in EL. eexists _, _, _. split; [reflexivity |]. split; [reflexivity |]. split; [lia |].
    left. split; [exact EL | reflexivity].
  - apply Z.eqb_neq in EL. assert (0 < L) as HL by lia.
    destruct (range_ends_inside a b c n Hc Hp Hm HL) as [Ha Hlast]. fold L in Hlast.
    eexists _, _, _. split; [reflexivity |]. split; [reflexivity |]. split; [lia |]. right.
    replace (a + 0 * c) with a by lia.
    set (last := a + (L - 1) * c) in *.
    split; [exact HL |]. split; [lia |]. split; [lia |]. split; [reflexivity |]. split; [reflexivity |].
    set (m := Z.max a last + 1 - Z.min a last).
    destruct (Z_lt_le_dec 0 c) as [Hpos | Hneg].
    + assert (a <= last) as Hal by (subst last; nia).
      assert (m = (L - 1) * c + 1) as Em by (subst m last; lia).
      assert (slice_indices (mkslice None None (Some c)) m = Return (0, m, c)) as Ep.
      { unfold slice_indices. cbn [sl_step sl_start sl_stop].
        replace (c =? 0) with false by (symmetry; apply Z.eqb_neq; lia).
        replace (c <? 0) with false by (symmetry; apply Z.ltb_ge; lia). reflexivity. }
      cbn [np_check np_dims np_src take_idx]. unfold np_indices. rewrite Ep. cbn [bind].
      rewrite (range_len_unit_pos m c L Hpos HL Em).
      split; [reflexivity |]. split; [reflexivity |]. split; [reflexivity |].
      split; [intro j; lia |]. intros j Hj. subst last. nia.
    + assert (c < 0) as Hneg' by lia.
      assert (last <= a) as Hal by (subst last; nia).
      assert (m = (L - 1) * (- c) + 1) as Em by (subst m last; lia).
      assert (slice_indices (mkslice None None (Some c)) m = Return (m - 1, -1, c)) as Ep.
      { unfold slice_indices. cbn [sl_step sl_start sl_stop].
        replace (c =? 0) with false by (symmetry; apply Z.eqb_neq; lia).
        replace (c <? 0) with true by (symmetry; apply Z.ltb_lt; lia). reflexivity. }
      cbn [np_check np_dims np_src take_idx]. unfold np_indices. rewrite Ep. cbn [bind].
      rewrite (range_len_unit_neg m c L Hneg' HL Em).
      split; [reflexivity |]. split; [reflexivity |]. split; [reflexivity |].
      split; [intro j; subst last; nia |]. intros j Hj. subst last. nia.
Qed.

Lemma step_nonzero_slice s : step_nonzero (KSlice s) = true -> sl_step s <> Some 0.
Proof.
  cbn [step_nonzero]. destruct (sl_step s) as [k|]; [| intros _ ?; discriminate].
  destruct k; intros E1 E2; try discriminate; inversion E2.
Qed.

(* one loop iteration, every key with a non-zero step *)
Lemma axis_total k n : 0 < n -> step_nonzero k = true ->
  if int_in_range k n then axis_good k n else xa_axis k n = Raise IndexErr.
Proof.
  intros Hn Hs. destruct k as [k | s].
  - destruct (int_in_range (KInt k) n) eqn:E; [apply axis_int_good; assumption | apply axis_int_bad; exact E].
  - cbn [int_in_range]. apply axis_slice_good; [exact Hn | apply step_nonzero_slice; exact Hs].
Qed.

(* a zero step is refused with ValueError by the loop, as by numpy *)
Lemma axis_zero_step s n : sl_step s = Some 0 -> xa_axis (KSlice s) n = Raise ValueErr /\ np_check (KSlice s) n = Raise ValueErr.
Proof. intro E. unfold xa_axis, np_check, xa_indices, slice_indices. rewrite E. split; reflexivity. Qed.

(* ================================================================ result indices *)
Lemma in_shape_split k n rest idx : in_shape (np_dims k n ++ rest) idx = true ->
  jok k n (fst (take_idx k idx)) /\ in_shape rest (snd (take_idx k idx)) = true.
Proof.
  destruct k as [k | s]; cbn [np_dims take_idx jok fst snd app].
  - intro E. split; [exact I | exact E].
  - unfold np_count. destruct (np_indices s n) as [[a b] c]. cbn [app]. destruct idx as [| j r]; cbn [in_shape].
    + intro E. discriminate.
    + intro E. apply andb_true_iff in E. destruct E as [E1 E2]. apply andb_true_iff in E1. destruct E1 as [E0 E1].
      apply Z.leb_le in E0. apply Z.ltb_lt in E1. cbn [fst snd]. split; [lia | exact E2].
Qed.

(* ================================================================ read_subvolume, either layout *)
Definition sv_reads (H : hdr) (i0 i1 x0 x1 z0 z1 : Z) : list (Z * Z) :=
  if (s_bs0 H =? 4) && (s_bs1 H =? 4) then SZ.Proofs.Subvolume.sub_reads H i0 i1 x0 x1 z0 z1
  else box_reads H i0 i1 x0 x1 z0 z1.

Lemma subvolume_any H (W : wf3 H = true) (mt : bool) i0 i1 x0 x1 z0 z1 :
  0 <= i0 < i1 -> i1 <= s_nil H -> 0 <= x0 < x1 -> x1 <= s_nxl H -> 0 <= z0 < z1 -> z1 <= s_ns H ->
  exists v, rd_read_subvolume H i0 i1 x0 x1 z0 z1 false mt = Return v /\
    av_shape v = [i1 - i0; x1 - x0; z1 - z0] /\
    (forall i x z, 0 <= i < i1 - i0 -> 0 <= x < x1 - x0 -> 0 <= z < z1 - z0 ->
       av_cell v [i; x; z] = spec_cell3 H (i0 + i) (x0 + x) (z0 + z)) /\
    av_reads v = sv_reads H i0 i1 x0 x1 z0 z1.
Proof.
  intros Hi Hi1 Hx Hx1 Hz Hz1. unfold sv_reads. destruct ((s_bs0 H =? 4) && (s_bs1 H =? 4)) eqn:E.
  - apply andb_true_iff in E. destruct E as [E0 E1]. apply Z.eqb_eq in E0, E1.
    exact (SZ.Proofs.Subvolume.read_subvolume_default H W (conj E0 E1) mt i0 i1 x0 x1 z0 z1 Hi Hi1 Hx Hx1 Hz Hz1).
  - assert (general_layout H) as G.
    { intros [A B]. rewrite A, B in E. discriminate. }
    exact (read_subvolume_general H W G mt i0 i1 x0 x1 z0 z1 Hi Hi1 Hx Hx1 Hz Hz1).
Qed.

(* ================================================================ the raw indexing method *)
Section RAW.
Variable H : hdr.
Hypothesis W : wf3 H = true.
Let F := wf3_facts H W.
Local Notation n0 := (s_nil H).
Local Notation n1 := (s_nxl H).
Local Notation n2 := (s_ns H).

Lemma xa_shape_spec : xa_shape H = (n0, n1, n2).
Proof. reflexivity. Qed.

(* (a) an int outside its axis: IndexError.  The loop raises before the reader is called: nothing is read. *)
Lemma raw_int_out_of_range key : key_steps_ok key = true ->
  (let '(k0, k1, k2) := key in int_in_range k0 n0 && int_in_range k1 n1 && int_in_range k2 n2) = false ->
  xa_raw H key = Raise IndexErr.
Proof.
  destruct key as [[k0 k1] k2]. intros S R. unfold key_steps_ok in S.
  apply andb_true_iff in S. destruct S as [S S2]. apply andb_true_iff in S. destruct S as [S0 S1].
  pose proof (f_nil H F) as P0. pose proof (f_nxl H F) as P1. pose proof (f_ns H F) as P2.
  pose proof (axis_total k0 n0 ltac:(lia) S0) as A0. pose proof (axis_total k1 n1 ltac:(lia) S1) as A1.
  pose proof (axis_total k2 n2 ltac:(lia) S2) as A2.
  unfold xa_raw. rewrite xa_shape_spec.
  destruct (int_in_range k0 n0).
  - destruct A0 as (l0 & h0 & p0 & E0 & _). rewrite E0. cbn [bind].
    destruct (int_in_range k1 n1).
    + destruct A1 as (l1 & h1 & p1 & E1 & _). rewrite E1. cbn [bind].
      destruct (int_in_range k2 n2); [discriminate |]. rewrite A2. reflexivity.
    + rewrite A1. reflexivity.
  - rewrite A0. reflexivity.
Qed.

(* every axis good *)
Lemma axes_good key : key_steps_ok key = true ->
  (let '(k0, k1, k2) := key in int_in_range k0 n0 && int_in_range k1 n1 && int_in_range k2 n2) = true ->
  let '(k0, k1, k2) := key in axis_good k0 n0 /\ axis_good k1 n1 /\ axis_good k2 n2.
Proof.
  destruct key as [[k0 k1] k2]. intros S R. unfold key_steps_ok in S.
  apply andb_true_iff in S. destruct S as [S S2]. apply andb_true_iff in S. destruct S as [S0 S1].
  apply andb_true_iff in R. destruct R as [R R2]. apply andb_true_iff in R. destruct R as [R0 R1].
  pose proof (f_nil H F) as P0. pose proof (f_nxl H F) as P1. pose proof (f_ns H F) as P2.
  pose proof (axis_total k0 n0 ltac:(lia) S0) as A0. pose proof (axis_total k1 n1 ltac:(lia) S1) as A1.
  pose proof (axis_total k2 n2 ltac:(lia) S2) as A2. rewrite R0 in A0. rewrite R1 in A1. rewrite R2 in A2.
  repeat split; assumption.
Qed.

(* (b) an empty selection: zeros of numpy's shape, built without calling the reader *)
Lemma raw_empty key : key_steps_ok key = true ->
  (let '(k0, k1, k2) := key in int_in_range k0 n0 && int_in_range k1 n1 && int_in_range k2 n2) = true ->
  np_empty3 key n0 n1 n2 = true ->
  xa_raw H key = Return (a_zeros (np_shape3 key n0 n1 n2)).
Proof.
  intros S R. pose proof (axes_good key S R) as G. destruct key as [[k0 k1] k2].
  destruct G as ((l0 & h0 & p0 & E0 & Z0 & C0 & D0) & (l1 & h1 & p1 & E1 & Z1 & C1 & D1) & (l2 & h2 & p2 & E2 & Z2 & C2 & D2)).
  intro Em. unfold np_empty3 in Em. unfold xa_raw. rewrite xa_shape_spec, E0, E1, E2. cbn [bind fst snd].
  unfold xa_pair_empty, np_shape3. rewrite Z0, Z1, Z2.
  assert ((l0 =? h0) || (l1 =? h1) || (l2 =? h2) = true) as T.
  { apply orb_true_iff in Em. destruct Em as [Em | Em]; [apply orb_true_iff in Em; destruct Em as [Em | Em] |];
      apply Z.eqb_eq in Em.
    - destruct D0 as [[_ D0] | D0]; [| lia]. subst h0. rewrite Z.eqb_refl. reflexivity.
    - destruct D1 as [[_ D1] | D1]; [| lia]. subst h1. rewrite Z.eqb_refl. apply orb_true_iff. left. apply orb_true_r.
    - destruct D2 as [[_ D2] | D2]; [| lia]. subst h2. rewrite Z.eqb_refl. apply orb_true_r. }
  rewrite T. reflexivity.
Qed.

(* (c) a non-empty selection: numpy's V[key] of the specification's volume; the reads are those of read_subvolume on the
   bounding box *)
Lemma raw_nonempty key : key_steps_ok key = true ->
  (let '(k0, k1, k2) := key in int_in_range k0 n0 && int_in_range k1 n1 && int_in_range k2 n2) = true ->
  np_empty3 key n0 n1 n2 = false ->
  let '(k0, k1, k2) := key in
  0 <= np_lo k0 n0 < np_hi k0 n0 /\ np_hi k0 n0 <= n0 /\ 0 <= np_lo k1 n1 < np_hi k1 n1 /\ np_hi k1 n1 <= n1 /\
  0 <= np_lo k2 n2 < np_hi k2 n2 /\ np_hi k2 n2 <= n2 /\
  exists v w, xa_raw H key = Return v /\
    rd_read_subvolume H (np_lo k0 n0) (np_hi k0 n0) (np_lo k1 n1) (np_hi k1 n1) (np_lo k2 n2) (np_hi k2 n2) false true = Return w /\
    av_shape v = np_shape3 key n0 n1 n2 /\
    (forall idx, in_shape (np_shape3 key n0 n1 n2) idx = true ->
       av_cell v idx = let '(i, x, z) := np_src3 key n0 n1 n2 idx in spec_cell3 H i x z) /\
    av_reads v = av_reads w /\
    av_reads w = sv_reads H (np_lo k0 n0) (np_hi k0 n0) (np_lo k1 n1) (np_hi k1 n1) (np_lo k2 n2) (np_hi k2 n2).
Proof.
  intros S R. pose proof (axes_good key S R) as G. destruct key as [[k0 k1] k2].
  destruct G as ((l0 & h0 & p0 & E0 & Z0 & C0 & D0) & (l1 & h1 & p1 & E1 & Z1 & C1 & D1) & (l2 & h2 & p2 & E2 & Z2 & C2 & D2)).
  intro Em. unfold np_empty3 in Em. apply orb_false_iff in Em. destruct Em as [Em Em2].
  apply orb_false_iff in Em. destruct Em as [Em0 Em1]. apply Z.eqb_neq in Em0, Em1, Em2.
  destruct D0 as [[D0 _] | (_ & B0 & B0' & L0 & H0 & K0 & Dm0 & T0 & Sr0 & In0)]; [lia |].
  destruct D1 as [[D1 _] | (_ & B1 & B1' & L1 & H1 & K1 & Dm1 & T1 & Sr1 & In1)]; [lia |].
  destruct D2 as [[D2 _] | (_ & B2 & B2' & L2 & H2 & K2 & Dm2 & T2 & Sr2 & In2)]; [lia |].
  rewrite <- L0, <- H0, <- L1, <- H1, <- L2, <- H2.
  split; [exact B0 |]. split; [exact B0' |]. split; [exact B1 |]. split; [exact B1' |]. split; [exact B2 |]. split; [exact B2' |].
  destruct (subvolume_any H W true l0 h0 l1 h1 l2 h2 B0 B0' B1 B1' B2 B2') as (w & Ew & Sw & Cw & Rw).
  unfold xa_raw. rewrite xa_shape_spec, E0, E1, E2. cbn [bind fst snd].
  unfold xa_pair_empty.
  replace (l0 =? h0) with false by (symmetry; apply Z.eqb_neq; lia).
  replace (l1 =? h1) with false by (symmetry; apply Z.eqb_neq; lia).
  replace (l2 =? h2) with false by (symmetry; apply Z.eqb_neq; lia).
  cbn [orb]. unfold xa_subvolume_args, xa_access_padding, xa_multithreading. cbn [fst snd].
  rewrite Ew. cbn [bind]. unfold np_getitem3. rewrite Sw, K0, K1, K2. cbn [bind].
  eexists _, w. split; [reflexivity |]. split; [reflexivity |]. cbn [av_shape av_cell av_reads].
  assert (np_shape3 (p0, p1, p2) (h0 - l0) (h1 - l1) (h2 - l2) = np_shape3 (k0, k1, k2) n0 n1 n2) as ES.
  { unfold np_shape3. rewrite Dm0, Dm1, Dm2. reflexivity. }
  rewrite ES. split; [reflexivity |]. split; [| split; [reflexivity | exact Rw]].
  intros idx Hin. rewrite Hin. unfold np_src3. rewrite T0.
  unfold np_shape3 in Hin.
  destruct (in_shape_split k0 n0 _ idx Hin) as [J0 Hin1].
  destruct (take_idx k0 idx) as [j0 r0]. cbn [fst snd] in J0, Hin1. rewrite T1.
  destruct (in_shape_split k1 n1 _ r0 Hin1) as [J1 Hin2].
  destruct (take_idx k1 r0) as [j1 r1]. cbn [fst snd] in J1, Hin2. rewrite T2.
  rewrite <- (app_nil_r (np_dims k2 n2)) in Hin2.
  destruct (in_shape_split k2 n2 _ r1 Hin2) as [J2 _].
  destruct (take_idx k2 r1) as [j2 r2]. cbn [fst snd] in J2.
  pose proof (In0 j0 J0) as I0. pose proof (In1 j1 J1) as I1. pose proof (In2 j2 J2) as I2.
  pose proof (Sr0 j0) as Q0. pose proof (Sr1 j1) as Q1. pose proof (Sr2 j2) as Q2.
  rewrite Cw by lia. rewrite Q0, Q1, Q2. reflexivity.
Qed.

(* the selected voxels lie inside the volume and inside the bounding box; the box is tight (both ends are selected) *)
Lemma selection_inside k n j : 0 < n -> step_nonzero k = true -> int_in_range k n = true -> 0 < np_count k n ->
  jok k n j -> 0 <= np_lo k n <= np_src k n j /\ np_src k n j < np_hi k n <= n.
Proof.
  intros Hn S R C J. pose proof (axis_total k n Hn S) as A. rewrite R in A.
  destruct A as (lo & hi & pk & _ & _ & _ & [[D _] | (_ & B & B' & L & Hh & _ & _ & _ & _ & In)]); [lia |].
  pose proof (In j J). lia.
Qed.

Lemma box_tight k n : np_lo k n = np_src k n 0 \/ np_lo k n = np_src k n (np_count k n - 1).
Proof. unfold np_lo. lia. Qed.
Lemma box_tight_hi k n : np_hi k n = np_src k n 0 + 1 \/ np_hi k n = np_src k n (np_count k n - 1) + 1.
Proof. unfold np_hi. lia. Qed.
End RAW.

(* ================================================================ corollaries per layout (C07d) *)
Lemma zrange_one q : zrange q (q + 1) = [q].
Proof. unfold zrange. replace (q + 1 - q) with 1 by lia. reflexivity. Qed.

Lemma cdiv_succ i b : 0 < b -> (i + 1 + b - 1) / b = i / b + 1.
Proof.
  intro Hb. replace (i + 1 + b - 1) with (i + 1 * b) by lia. rewrite Z.div_add by lia. reflexivity.
Qed.

(* a one-voxel box: one block (general layout), one compression unit (default layout) *)
Lemma box_reads_voxel H i x z : 0 < s_bs0 H -> 0 < s_bs1 H -> 0 < s_bs2 H ->
  box_reads H i (i + 1) x (x + 1) z (z + 1) = [(4096 * blk_no H (i / s_bs0 H) (x / s_bs1 H) (z / s_bs2 H), 4096)].
Proof.
  intros B0 B1 B2. unfold box_reads, blo, bhi. rewrite !cdiv_succ by assumption. rewrite !zrange_one. reflexivity.
Qed.

Lemma sub_reads_voxel H i x z :
  SZ.Proofs.Subvolume.sub_reads H i (i + 1) x (x + 1) z (z + 1) = [(s_ub3 H * unit_index3 H (i / 4) (x / 4) (z / 4), s_ub3 H)].
Proof.
  unfold SZ.Proofs.Subvolume.sub_reads.
  replace ((i + 1 + 3) / 4) with (i / 4 + 1) by (rewrite <- (cdiv_succ i 4) by lia; f_equal; lia).
  replace ((x + 1 + 3) / 4) with (x / 4 + 1) by (rewrite <- (cdiv_succ x 4) by lia; f_equal; lia).
  replace ((z + 1 + 3) / 4) with (z / 4 + 1) by (rewrite <- (cdiv_succ z 4) by lia; f_equal; lia).
  rewrite !zrange_one. cbn [flat_map map app]. f_equal. f_equal. lia.
Qed.

Lemma sv_reads_general H : general_layout H -> forall i0 i1 x0 x1 z0 z1,
  sv_reads H i0 i1 x0 x1 z0 z1 = box_reads H i0 i1 x0 x1 z0 z1.
Proof.
  intros G i0 i1 x0 x1 z0 z1. unfold sv_reads. destruct ((s_bs0 H =? 4) && (s_bs1 H =? 4)) eqn:E; [| reflexivity].
  exfalso. apply andb_true_iff in E. destruct E as [E0 E1]. apply Z.eqb_eq in E0, E1. apply G. split; assumption.
Qed.

Lemma sv_reads_default H : default_layout H -> forall i0 i1 x0 x1 z0 z1,
  sv_reads H i0 i1 x0 x1 z0 z1 = SZ.Proofs.Subvolume.sub_reads H i0 i1 x0 x1 z0 z1.
Proof.
  intros [E0 E1] i0 i1 x0 x1 z0 z1. unfold sv_reads. rewrite E0, E1. reflexivity.
Qed.

(* ---- the statements used by Props/C02e.v and Props/C07d.v ---- *)
Definition key_accepted (H : hdr) (key : key3) : bool :=
  let '(k0, k1, k2) := key in int_in_range k0 (s_nil H) && int_in_range k1 (s_nxl H) && int_in_range k2 (s_ns H).

Theorem xarray_raw_value H : wf3 H = true -> forall key, key_steps_ok key = true -> key_accepted H key = true ->
  exists v, xa_raw H key = Return v /\
    av_shape v = np_shape3 key (s_nil H) (s_nxl H) (s_ns H) /\
    (forall idx, in_shape (np_shape3 key (s_nil H) (s_nxl H) (s_ns H)) idx = true ->
       av_cell v idx = let '(i, x, z) := np_src3 key (s_nil H) (s_nxl H) (s_ns H) idx in spec_cell3 H i x z).
Proof.
  intros W key S R. destruct (np_empty3 key (s_nil H) (s_nxl H) (s_ns H)) eqn:E.
  - exists (a_zeros (np_shape3 key (s_nil H) (s_nxl H) (s_ns H))).
    split; [apply (raw_empty H W key S R E) |]. split; [reflexivity |].
    (* no index lies in a shape with a zero extent *)
    intros idx Hin. exfalso. destruct key as [[k0 k1] k2]. unfold np_empty3 in E. unfold np_shape3 in Hin.
    destruct (in_shape_split k0 _ _ idx Hin) as [J0 Hin1].
    destruct (in_shape_split k1 _ _ _ Hin1) as [J1 Hin2].
    rewrite <- (app_nil_r (np_dims k2 _)) in Hin2. destruct (in_shape_split k2 _ _ _ Hin2) as [J2 _].
    apply orb_true_iff in E. destruct E as [E | E]; [apply orb_true_iff in E; destruct E as [E | E] |]; apply Z.eqb_eq in E.
    + destruct k0; cbn [jok np_count] in *; [discriminate | lia].
    + destruct k1; cbn [jok np_count] in *; [discriminate | lia].
    + destruct k2; cbn [jok np_count] in *; [discriminate | lia].
  - pose proof (raw_nonempty H W key S R E) as N. destruct key as [[k0 k1] k2].
    destruct N as (_ & _ & _ & _ & _ & _ & v & w & Ev & _ & Sv & Cv & _). exists v. repeat split; assumption.
Qed.

Theorem xarray_raw_index_error H : wf3 H = true -> forall key, key_steps_ok key = true -> key_accepted H key = false ->
  xa_raw H key = Raise IndexErr.
Proof. intros W key S R. destruct key as [[k0 k1] k2]. exact (raw_int_out_of_range H W (k0, k1, k2) S R). Qed.

Theorem xarray_raw_zero_step H : wf3 H = true -> forall k0 k1 k2,
  (match k0 with KSlice s => sl_step s = Some 0 | KInt _ => False end) ->
  xa_raw H (k0, k1, k2) = Raise ValueErr.
Proof.
  intros W k0 k1 k2 Z. destruct k0 as [k | s]; [contradiction |]. unfold xa_raw. rewrite xa_shape_spec.
  rewrite (proj1 (axis_zero_step s (s_nil H) Z)). reflexivity.
Qed.

Theorem xarray_raw_empty H : wf3 H = true -> forall key, key_steps_ok key = true -> key_accepted H key = true ->
  np_empty3 key (s_nil H) (s_nxl H) (s_ns H) = true ->
  xa_raw H key = Return (a_zeros (np_shape3 key (s_nil H) (s_nxl H) (s_ns H))).
Proof. intros W key S R E. exact (raw_empty H W key S R E). Qed.

Theorem xarray_raw_empty_reads H : wf3 H = true -> forall key, key_steps_ok key = true -> key_accepted H key = true ->
  np_empty3 key (s_nil H) (s_nxl H) (s_ns H) = true ->
  exists v, xa_raw H key = Return v /\ av_reads v = [].
Proof. intros W key S R E. eexists. split; [exact (raw_empty H W key S R E) | reflexivity]. Qed.

Theorem key_accepted_meaning H k0 k1 k2 :
  key_accepted H (k0, k1, k2) = int_in_range k0 (s_nil H) && int_in_range k1 (s_nxl H) && int_in_range k2 (s_ns H).
Proof. reflexivity. Qed.

Theorem a_zeros_meaning shape : av_shape (a_zeros shape) = shape /\ av_reads (a_zeros shape) = [] /\
  forall idx, in_shape shape idx = true -> av_cell (a_zeros shape) idx = PZero.
Proof. split; [reflexivity |]. split; [reflexivity |]. intros idx E. cbn [a_zeros av_cell]. rewrite E. reflexivity. Qed.

Theorem xarray_raw_reads H : wf3 H = true -> forall k0 k1 k2, key_steps_ok (k0, k1, k2) = true ->
  key_accepted H (k0, k1, k2) = true -> np_empty3 (k0, k1, k2) (s_nil H) (s_nxl H) (s_ns H) = false ->
  (0 <= np_lo k0 (s_nil H) < np_hi k0 (s_nil H) /\ np_hi k0 (s_nil H) <= s_nil H) /\
  (0 <= np_lo k1 (s_nxl H) < np_hi k1 (s_nxl H) /\ np_hi k1 (s_nxl H) <= s_nxl H) /\
  (0 <= np_lo k2 (s_ns H) < np_hi k2 (s_ns H) /\ np_hi k2 (s_ns H) <= s_ns H) /\
  exists v w, xa_raw H (k0, k1, k2) = Return v /\
    rd_read_subvolume H (np_lo k0 (s_nil H)) (np_hi k0 (s_nil H)) (np_lo k1 (s_nxl H)) (np_hi k1 (s_nxl H))
                        (np_lo k2 (s_ns H)) (np_hi k2 (s_ns H)) false true = Return w /\
    av_reads v = av_reads w.
Proof.
  intros W k0 k1 k2 S R E. pose proof (raw_nonempty H W (k0, k1, k2) S R E) as N. cbv beta iota in N.
  destruct N as (A0 & A0' & A1 & A1' & A2 & A2' & v & w & Ev & Ew & _ & _ & Rv & _).
  split; [split; assumption |]. split; [split; assumption |]. split; [split; assumption |].
  exists v, w. repeat split; assumption.
Qed.

Theorem xarray_raw_reads_general H : wf3 H = true -> general_layout H -> forall k0 k1 k2,
  key_steps_ok (k0, k1, k2) = true -> key_accepted H (k0, k1, k2) = true ->
  np_empty3 (k0, k1, k2) (s_nil H) (s_nxl H) (s_ns H) = false ->
  exists v, xa_raw H (k0, k1, k2) = Return v /\
    av_reads v = box_reads H (np_lo k0 (s_nil H)) (np_hi k0 (s_nil H)) (np_lo k1 (s_nxl H)) (np_hi k1 (s_nxl H))
                             (np_lo k2 (s_ns H)) (np_hi k2 (s_ns H)) /\
    proportional_reads H (np_lo k0 (s_nil H)) (np_hi k0 (s_nil H)) (np_lo k1 (s_nxl H)) (np_hi k1 (s_nxl H))
                         (np_lo k2 (s_ns H)) (np_hi k2 (s_ns H)) (av_reads v).
Proof.
  intros W G k0 k1 k2 S R E. pose proof (raw_nonempty H W (k0, k1, k2) S R E) as N. cbv beta iota in N.
  destruct N as (A0 & A0' & A1 & A1' & A2 & A2' & v & w & Ev & Ew & _ & _ & Rv & Rw).
  exists v. split; [exact Ev |]. rewrite Rv, Rw, (sv_reads_general H G). split; [reflexivity |].
  apply (box_reads_proportional_inrange H W); assumption.
Qed.

Theorem xarray_raw_reads_default H : wf3 H = true -> default_layout H -> forall k0 k1 k2,
  key_steps_ok (k0, k1, k2) = true -> key_accepted H (k0, k1, k2) = true ->
  np_empty3 (k0, k1, k2) (s_nil H) (s_nxl H) (s_ns H) = false ->
  exists v, xa_raw H (k0, k1, k2) = Return v /\
    av_reads v = SZ.Proofs.Subvolume.sub_reads H (np_lo k0 (s_nil H)) (np_hi k0 (s_nil H)) (np_lo k1 (s_nxl H))
                   (np_hi k1 (s_nxl H)) (np_lo k2 (s_ns H)) (np_hi k2 (s_ns H)).
Proof.
  intros W D k0 k1 k2 S R E. pose proof (raw_nonempty H W (k0, k1, k2) S R E) as N. cbv beta iota in N.
  destruct N as (_ & _ & _ & _ & _ & _ & v & w & Ev & Ew & _ & _ & Rv & Rw).
  exists v. split; [exact Ev |]. rewrite Rv, Rw. apply (sv_reads_default H D).
Qed.

(* an all-int key: one voxel *)
Lemma int_key_facts k n : 0 < n -> int_in_range (KInt k) n = true ->
  np_count (KInt k) n = 1 /\ np_lo (KInt k) n = np_src (KInt k) n 0 /\ np_hi (KInt k) n = np_src (KInt k) n 0 + 1 /\
  0 <= np_src (KInt k) n 0 < n.
Proof.
  intros Hn R. unfold np_lo, np_hi. cbn [np_count np_src]. cbn [int_in_range] in R.
  apply andb_true_iff in R. destruct R as [R1 R2]. apply Z.leb_le in R1. apply Z.ltb_lt in R2.
  destruct (k <? 0) eqn:E; [apply Z.ltb_lt in E | apply Z.ltb_ge in E]; lia.
Qed.

Theorem xarray_raw_voxel H : wf3 H = true -> forall a b c,
  key_accepted H (KInt a, KInt b, KInt c) = true ->
  let i := np_src (KInt a) (s_nil H) 0 in let x := np_src (KInt b) (s_nxl H) 0 in let z := np_src (KInt c) (s_ns H) 0 in
  (0 <= i < s_nil H /\ 0 <= x < s_nxl H /\ 0 <= z < s_ns H) /\
  exists v, xa_raw H (KInt a, KInt b, KInt c) = Return v /\ av_shape v = [] /\ av_cell v [] = spec_cell3 H i x z /\
    av_reads v = (if (s_bs0 H =? 4) && (s_bs1 H =? 4)
                  then [(s_ub3 H * unit_index3 H (i / 4) (x / 4) (z / 4), s_ub3 H)]
                  else [(4096 * blk_no H (i / s_bs0 H) (x / s_bs1 H) (z / s_bs2 H), 4096)]).
Proof.
  intros W a b c R. cbv zeta. pose proof (wf3_facts H W) as F.
  pose proof (f_nil H F) as P0. pose proof (f_nxl H F) as P1. pose proof (f_ns H F) as P2.
  pose proof R as R'. unfold key_accepted in R'. apply andb_true_iff in R'. destruct R' as [R' R2].
  apply andb_true_iff in R'. destruct R' as [R0 R1].
  destruct (int_key_facts a (s_nil H) ltac:(lia) R0) as (C0 & L0 & H0 & I0).
  destruct (int_key_facts b (s_nxl H) ltac:(lia) R1) as (C1 & L1 & H1 & I1).
  destruct (int_key_facts c (s_ns H) ltac:(lia) R2) as (C2 & L2 & H2 & I2).
  split; [repeat split; lia |].
  assert (np_empty3 (KInt a, KInt b, KInt c) (s_nil H) (s_nxl H) (s_ns H) = false) as E by reflexivity.
  pose proof (raw_nonempty H W (KInt a, KInt b, KInt c) eq_refl R E) as N. cbv beta iota in N.
  destruct N as (_ & _ & _ & _ & _ & _ & v & w & Ev & Ew & Sv & Cv & Rv & Rw).
  exists v. split; [exact Ev |]. split; [exact Sv |]. split; [exact (Cv [] eq_refl) |].
  rewrite Rv, Rw, L0, H0, L1, H1, L2, H2. unfold sv_reads.
  destruct ((s_bs0 H =? 4) && (s_bs1 H =? 4)).
  - apply sub_reads_voxel.
  - pose proof (f_bs0 H F). pose proof (f_bs1 H F). pose proof (f_bs2 H F). apply box_reads_voxel; lia.
Qed.

(* ================================================================ the specification side, spelled out *)
Theorem np_slice_meaning s n a b c : slice_indices s n = Return (a, b, c) ->
  np_dims (KSlice s) n = [range_len a b c] /\ np_count (KSlice s) n = range_len a b c /\
  (forall j, np_src (KSlice s) n j = a + j * c) /\
  np_lo (KSlice s) n = Z.min a (a + (range_len a b c - 1) * c) /\
  np_hi (KSlice s) n = Z.max a (a + (range_len a b c - 1) * c) + 1.
Proof.
  intro E. unfold np_lo, np_hi. cbn [np_dims np_count np_src]. unfold np_indices. rewrite E.
  repeat split; try reflexivity; f_equal; lia.
Qed.

Theorem np_int_meaning k n :
  np_dims (KInt k) n = [] /\ np_count (KInt k) n = 1 /\ (forall j, np_src (KInt k) n j = if k <? 0 then k + n else k) /\
  int_in_range (KInt k) n = (- n <=? k) && (k <? n).
Proof. repeat split. Qed.

Theorem np_selection_inside k n j : 0 < n -> step_nonzero k = true -> int_in_range k n = true -> 0 <= j < np_count k n ->
  0 <= np_lo k n <= np_src k n j /\ np_src k n j < np_hi k n <= n.
Proof.
  intros Hn S R J. apply selection_inside; try assumption; [lia |]. destruct k; cbn [jok]; [exact I | exact J].
Qed.

Theorem np_box_tight k n :
  (np_lo k n = np_src k n 0 \/ np_lo k n = np_src k n (np_count k n - 1)) /\
  (np_hi k n = np_src k n 0 + 1 \/ np_hi k n = np_src k n (np_count k n - 1) + 1).
Proof. split; [apply box_tight | apply box_tight_hi]. Qed.

(* ================================================================ wiring: open_dataset, __getitem__, tools.cube *)
Theorem xarray_wiring : forall H,
  xa_shape H = (rd_n_ilines H, rd_n_xlines H, rd_n_samples H) /\
  xa_dims = ["il"; "xl"; "z"]%string /\
  xa_coords = [("il", "ilines"); ("xl", "xlines"); ("z", "zslices")]%string /\
  xa_indexing_support = "BASIC"%string /\ xa_lazily_indexed = true /\
  xa_access_padding = false /\ xa_multithreading = true.
Proof. intro H. repeat split. Qed.

Theorem cube_is_read_volume : forall H, xa_cube H = rd_read_volume H.
Proof. reflexivity. Qed.

Theorem cube_value H : wf3 H = true ->
  exists v, xa_cube H = Return v /\ av_shape v = [s_nil H; s_nxl H; s_ns H] /\
    (forall i x z, 0 <= i < s_nil H -> 0 <= x < s_nxl H -> 0 <= z < s_ns H -> av_cell v [i; x; z] = spec_cell3 H i x z) /\
    av_reads v = sv_reads H 0 (s_nil H) 0 (s_nxl H) 0 (s_ns H).
Proof.
  intro W. pose proof (wf3_facts H W) as F.
  pose proof (f_nil H F) as P0. pose proof (f_nxl H F) as P1. pose proof (f_ns H F) as P2.
  unfold xa_cube, rd_read_volume. rewrite (r_nil H F), (r_nxl H F), (r_ns H F).
  destruct (subvolume_any H W true 0 (s_nil H) 0 (s_nxl H) 0 (s_ns H)) as (v & Ev & Sv & Cv & Rv); try lia.
  exists v. split; [exact Ev |]. rewrite !Z.sub_0_r in *. split; [exact Sv |]. split; [| exact Rv].
  intros i x z Hi Hx Hz. rewrite Cv by lia. f_equal; lia.
Qed.

(* the whole-volume key [:, :, :] through the backend equals tools.cube *)
Theorem xarray_full_is_cube H : wf3 H = true ->
  let full := KSlice (mkslice None None None) in
  exists v c, xa_raw H (full, full, full) = Return v /\ xa_cube H = Return c /\
    av_shape v = av_shape c /\ av_reads v = av_reads c /\
    (forall i x z, 0 <= i < s_nil H -> 0 <= x < s_nxl H -> 0 <= z < s_ns H -> av_cell v [i; x; z] = av_cell c [i; x; z]).
Proof.
  intros W full. pose proof (wf3_facts H W) as F.
  pose proof (f_nil H F) as P0. pose proof (f_nxl H F) as P1. pose proof (f_ns H F) as P2.
  destruct (cube_value H W) as (c & Ec & Sc & Cc & Rc).
  assert (forall n, 0 < n -> slice_indices (mkslice None None None) n = Return (0, n, 1)) as SI by (intros; reflexivity).
  assert (forall n, 0 < n -> range_len 0 n 1 = n) as RL.
  { intros n Hn. unfold range_len. cbn [Z.ltb Z.compare]. replace (0 <? n) with true by (symmetry; apply Z.ltb_lt; lia).
    rewrite Z.div_1_r. lia. }
  assert (forall n, 0 < n -> np_count full n = n /\ np_dims full n = [n] /\ np_lo full n = 0 /\ np_hi full n = n /\
                             forall j, np_src full n j = j) as FF.
  { intros n Hn. unfold full. destruct (np_slice_meaning _ n 0 n 1 (SI n Hn)) as (A & B & C & D & E). rewrite (RL n Hn) in *.
    split; [exact B |]. split; [exact A |]. split; [lia |]. split; [lia |]. intro j. rewrite C. lia. }
  destruct (FF (s_nil H) ltac:(lia)) as (C0 & D0 & L0 & H0 & S0).
  destruct (FF (s_nxl H) ltac:(lia)) as (C1 & D1 & L1 & H1 & S1).
  destruct (FF (s_ns H) ltac:(lia)) as (C2 & D2 & L2 & H2 & S2).
  assert (np_empty3 (full, full, full) (s_nil H) (s_nxl H) (s_ns H) = false) as E.
  { unfold np_empty3. rewrite C0, C1, C2. apply orb_false_iff. split; [apply orb_false_iff; split |]; apply Z.eqb_neq; lia. }
  pose proof (raw_nonempty H W (full, full, full) eq_refl eq_refl E) as N. cbv beta iota in N.
  destruct N as (_ & _ & _ & _ & _ & _ & v & w & Ev & Ew & Sv & Cv & Rv & Rw).
  exists v, c. split; [exact Ev |]. split; [exact Ec |].
  unfold np_shape3 in Sv. rewrite D0, D1, D2 in Sv. cbn [app] in Sv.
  split; [rewrite Sv, Sc; reflexivity |]. split; [rewrite Rv, Rw, Rc, L0, H0, L1, H1, L2, H2; reflexivity |].
  intros i x z Hi Hx Hz. rewrite Cc by assumption.
  assert (in_shape (np_shape3 (full, full, full) (s_nil H) (s_nxl H) (s_ns H)) [i; x; z] = true) as Hin.
  { unfold np_shape3. rewrite D0, D1, D2. cbn [app]. apply in_shape3; assumption. }
  rewrite (Cv _ Hin). unfold np_src3, full. cbn [take_idx]. fold full. rewrite S0, S1, S2. reflexivity.
Qed.
