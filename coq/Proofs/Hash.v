(* Proofs/Hash.v -- property C20.  The hashed byte stream of every producer equals the serialisation of the source
   samples in trace order, for every shape and every positive blockshape (induction over plane sets / trace groups:
   the rows hashed for set k are the half-open range [min(k*b, n), min((k+1)*b, n)) and these ranges telescope).
   Everything that comes from the source text is in Gen/Hash.v; the proofs unfold those definitions, so a changed
   slice bound or loop bound makes this file fail to compile. *)
From Coq Require Import ZArith List Bool Lia.
From Coq Require Import Init.Byte.
Import ListNotations.
From SZ Require Import Lib.Py Gen.Utils Gen.Hash Model.Hash Proofs.PyLemmas.
Open Scope Z_scope.

(* ---------- lists ---------- *)
Lemma flat_map_ext_in' {A B} (f g : A -> list B) l : (forall a, In a l -> f a = g a) -> flat_map f l = flat_map g l.
Proof.
  induction l as [|a l IH]; intro E; cbn [flat_map]; [reflexivity|].
  rewrite (E a (or_introl eq_refl)), IH; [reflexivity|]. intros b Hb. apply E. right. exact Hb.
Qed.

Lemma flat_map_flat_map {A B C} (f : B -> list C) (g : A -> list B) l :
  flat_map f (flat_map g l) = flat_map (fun a => flat_map f (g a)) l.
Proof. induction l as [|a l IH]; cbn [flat_map]; [reflexivity|]. rewrite flat_map_app, IH. reflexivity. Qed.

Lemma flat_map_map {A B C} (f : B -> list C) (g : A -> B) l : flat_map f (map g l) = flat_map (fun a => f (g a)) l.
Proof. induction l as [|a l IH]; cbn [flat_map map]; [reflexivity|]. rewrite IH. reflexivity. Qed.

Lemma concat_flat_map_map {A B C} (f : A -> B -> list C) (g : A -> list B) l :
  concat (flat_map (fun k => map (f k) (g k)) l) = flat_map (fun k => flat_map (f k) (g k)) l.
Proof.
  induction l as [|a l IH]; cbn [flat_map concat]; [reflexivity|].
  rewrite concat_app, IH, <- flat_map_concat_map. reflexivity.
Qed.

Lemma ser_concat (l : list (list sample)) : concat (map ser l) = ser (concat l).
Proof.
  unfold ser. induction l as [|a l IH]; cbn [map concat flat_map]; [reflexivity|].
  rewrite flat_map_app, IH. reflexivity.
Qed.

Lemma app_eq_len {A} (x y u v : list A) : length x = length y -> x ++ u = y ++ v -> x = y /\ u = v.
Proof.
  revert y; induction x as [|a x IH]; intros [|b y] L E; cbn in L; try discriminate.
  - split; [reflexivity|exact E].
  - cbn [app] in E. injection E as -> E. injection L as L. destruct (IH y L E) as [-> ->]. split; reflexivity.
Qed.

Lemma flat_map_pointwise {A B} (F G : A -> list B) l :
  (forall a, In a l -> length (F a) = length (G a)) -> flat_map F l = flat_map G l -> forall a, In a l -> F a = G a.
Proof.
  induction l as [|a l IH]; intros L E b Hb; [destruct Hb|].
  cbn [flat_map] in E. destruct (app_eq_len _ _ _ _ (L a (or_introl eq_refl)) E) as [E1 E2].
  destruct Hb as [<-|Hb]; [exact E1|]. apply IH; [|exact E2|exact Hb]. intros c Hc. apply L. right. exact Hc.
Qed.

(* ---------- zrange ---------- *)
Lemma zrange_nat_app lo a b : zrange_nat lo (a + b) = zrange_nat lo a ++ zrange_nat (lo + Z.of_nat a) b.
Proof.
  revert lo; induction a as [|a IH]; intro lo.
  - change (0 + b)%nat with b. cbn [zrange_nat app]. f_equal. change (Z.of_nat 0) with 0. lia.
  - change (S a + b)%nat with (S (a + b)). cbn [zrange_nat app]. rewrite IH. do 3 f_equal. lia.
Qed.

Lemma zrange_app lo mid hi : lo <= mid <= hi -> zrange lo hi = zrange lo mid ++ zrange mid hi.
Proof.
  intro Hm. unfold zrange. replace (Z.to_nat (hi - lo)) with (Z.to_nat (mid - lo) + Z.to_nat (hi - mid))%nat by lia.
  rewrite zrange_nat_app. do 2 f_equal. lia.
Qed.

Lemma zrange_snoc lo hi : lo <= hi -> zrange lo (hi + 1) = zrange lo hi ++ [hi].
Proof.
  intro Hm. rewrite (zrange_app lo hi (hi + 1)) by lia. f_equal. unfold zrange.
  replace (Z.to_nat (hi + 1 - hi)) with 1%nat by lia. reflexivity.
Qed.

Lemma map_shift_zrange_nat c a m : map (fun i => c + i) (zrange_nat a m) = zrange_nat (c + a) m.
Proof.
  revert a; induction m as [|m IH]; intro a; cbn [zrange_nat map]; [reflexivity|].
  rewrite IH. do 2 f_equal. lia.
Qed.

Lemma map_shift_zrange c n : map (fun i => c + i) (zrange 0 n) = zrange c (c + n).
Proof.
  unfold zrange. rewrite map_shift_zrange_nat. replace (c + n - c) with (n - 0) by lia. f_equal. lia.
Qed.

(* consecutive ranges between non-decreasing cut points concatenate to the whole range *)
Lemma telescope (c : Z -> Z) (m : nat) :
  (forall k, 0 <= k < Z.of_nat m -> c k <= c (k + 1)) ->
  c 0 <= c (Z.of_nat m) /\
  flat_map (fun k => zrange (c k) (c (k + 1))) (zrange 0 (Z.of_nat m)) = zrange (c 0) (c (Z.of_nat m)).
Proof.
  induction m as [|m IH]; intro Hm.
  - change (Z.of_nat 0) with 0. split; [lia|]. rewrite !zrange_empty by lia. reflexivity.
  - rewrite Nat2Z.inj_succ. unfold Z.succ.
    destruct IH as [Hle Heq]; [intros k Hk; apply Hm; lia|].
    assert (Hs : c (Z.of_nat m) <= c (Z.of_nat m + 1)) by (apply Hm; lia).
    split; [lia|]. rewrite zrange_snoc by lia. rewrite flat_map_app, Heq. cbn [flat_map]. rewrite app_nil_r.
    symmetry. apply zrange_app. split; assumption.
Qed.

(* ---------- the arithmetic of plane sets / trace groups ---------- *)
Section Sets.
Variables n b : Z.
Hypothesis Hn : 0 <= n.
Hypothesis Hb : 0 < b.

Definition nsets : Z := pad n b / b.                                   (* padded // blockshape *)
Definition ptr (k : Z) : Z := if (k + 1) * b >? n then n mod b else b. (* planes_to_read / traces_to_read *)
Definition cut (k : Z) : Z := Z.min (k * b) n.

Lemma pad_facts : pad n b = nsets * b /\ n <= pad n b < n + b.
Proof.
  unfold nsets, pad. pose proof (Z.div_mod n b ltac:(lia)) as E. pose proof (Z.mod_pos_bound n b Hb) as Bd.
  destruct (n mod b =? 0) eqn:C.
  - apply Z.eqb_eq in C. split; lia.
  - apply Z.eqb_neq in C.
    replace (b * (n / b + 1) / b) with (n / b + 1) by (rewrite Z.mul_comm, Z.div_mul; lia).
    split; lia.
Qed.

Lemma nsets_nonneg : 0 <= nsets.
Proof. unfold nsets. apply Z.div_pos; [|exact Hb]. destruct pad_facts as [_ [L _]]. lia. Qed.

Lemma set_facts k : 0 <= k < nsets ->
  k * b < n /\ 0 <= ptr k <= b /\ k * b + ptr k = cut (k + 1) /\ cut k = k * b /\ 0 <= k * b.
Proof.
  intro Hk. destruct pad_facts as [E [L Up]].
  assert (H1 : (k + 1) * b <= nsets * b) by (apply Z.mul_le_mono_nonneg_r; lia).
  assert (H0 : 0 <= k * b) by (apply Z.mul_nonneg_nonneg; lia).
  assert (H2 : k * b < n) by lia.
  pose proof (Z.mod_pos_bound n b Hb) as Bd.
  unfold ptr, cut. destruct (Z.gtb_spec ((k + 1) * b) n) as [C|C].
  - assert (Hq : k = n / b) by (apply (Z.div_unique n b k (n - b * k)); lia).
    rewrite (Z.mod_eq n b) by lia. rewrite <- Hq. repeat split; lia.
  - repeat split; lia.
Qed.

Lemma cut_ends : cut 0 = 0 /\ cut nsets = n.
Proof. unfold cut. destruct pad_facts as [E [L Up]]. rewrite Z.mul_0_l. split; lia. Qed.

(* the source rows hashed for set k, over all sets in order, are 0, 1, ..., n-1 *)
Lemma sets_cover : flat_map (fun k => map (fun i => k * b + i) (zrange 0 (ptr k))) (zrange 0 nsets) = zrange 0 n.
Proof.
  transitivity (flat_map (fun k => zrange (cut k) (cut (k + 1))) (zrange 0 nsets)).
  - apply flat_map_ext_in'. intros k Hk. apply in_zrange in Hk. rewrite map_shift_zrange.
    destruct (set_facts k Hk) as (_ & _ & E1 & E2 & _). rewrite E1, E2. reflexivity.
  - pose proof nsets_nonneg as Hs. destruct (telescope cut (Z.to_nat nsets)) as [_ E].
    + intros k Hk. rewrite Z2Nat.id in Hk by exact Hs.
      destruct (set_facts k Hk) as (_ & P & E1 & E2 & _). lia.
    + rewrite Z2Nat.id in E by exact Hs. rewrite E. destruct cut_ends as [-> ->]. reflexivity.
Qed.

Lemma stream_by_sets {B} (P : Z -> list B) :
  flat_map (fun k => flat_map (fun i => P (k * b + i)) (zrange 0 (ptr k))) (zrange 0 nsets) = flat_map P (zrange 0 n).
Proof.
  rewrite <- sets_cover. rewrite flat_map_flat_map. apply flat_map_ext. intro k. rewrite flat_map_map. reflexivity.
Qed.
End Sets.

(* ---------- deciding the boolean tests of the models ---------- *)
Ltac decide_tests :=
  repeat match goal with
         | |- context [?a <=? ?b] => destruct (Z.leb_spec a b); try lia
         | |- context [?a <? ?b] => destruct (Z.ltb_spec a b); try lia
         end; cbn [andb].

Lemma wf3_elim n_il n_xl n_s bs0 bs1 bs2 : wf3 n_il n_xl n_s bs0 bs1 bs2 = true ->
  1 <= n_il /\ 1 <= n_xl /\ 1 <= n_s /\ 0 < bs0 /\ 0 < bs1 /\ 0 < bs2.
Proof. unfold wf3. rewrite !andb_true_iff, !Z.leb_le. lia. Qed.

Lemma wf2_elim n_tr n_s bs0 bs1 bs2 : wf2 n_tr n_s bs0 bs1 bs2 = true -> 1 <= n_tr /\ 1 <= n_s /\ 0 < bs1 /\ 0 < bs2.
Proof. unfold wf2. rewrite !andb_true_iff, !Z.leb_le. lia. Qed.

(* ======================================================================================================== *)
Section Cube3d.
Variables n_il n_xl n_s bs0 bs1 bs2 : Z.
Hypothesis WF : wf3 n_il n_xl n_s bs0 bs1 bs2 = true.

(* the generated loop bound and row count are the nsets / ptr of the arithmetic section (by unfolding only) *)
Lemma np_gen_shape : np_n_plane_sets n_il n_xl n_s bs0 bs1 bs2 = nsets n_il bs0 /\
  forall k, np_hash_count n_il n_xl n_s bs0 bs1 bs2 k = ptr n_il bs0 k.
Proof. split; reflexivity. Qed.

Lemma np_update_real (c : cube) k i : 0 <= k < nsets n_il bs0 -> 0 <= i < ptr n_il bs0 k ->
  np_update n_il n_xl n_s bs0 bs1 bs2 c k i = plane_samples (c (k * bs0 + i)) 0 n_xl 0 n_s.
Proof.
  intros Hk Hi. destruct (wf3_elim _ _ _ _ _ _ WF) as (W1 & W2 & W3 & W4 & W5 & W6).
  destruct (set_facts n_il bs0 W4 k Hk) as (F1 & F2 & F3 & F4 & F5).
  destruct (pad_facts n_xl bs1 W5) as (_ & PX & _).
  destruct (pad_facts n_s bs2 W6) as (_ & PZ & _).
  unfold cut in F3.
  unfold np_update, np_shape1, np_shape2, np_hash_row, np_hash_x_lo, np_hash_x_hi, np_hash_z_lo, np_hash_z_hi,
    np_buf_before1, np_buf_after1, np_buf_before2, np_buf_after2, clip.
  replace (Z.min n_xl (0 + n_xl + (pad n_xl bs1 - n_xl))) with n_xl by lia.
  replace (Z.min n_s (0 + n_s + (pad n_s bs2 - n_s))) with n_s by lia.
  unfold plane_samples. apply flat_map_ext_in'. intros x Hx. apply map_ext_in. intros z Hz.
  apply in_zrange in Hx. apply in_zrange in Hz.
  unfold np_buffer, np_rows_in_slice, np_buf_lo, np_buf_hi, np_buf_before0, np_buf_before1, np_buf_before2, clip, edge_idx.
  f_equal; lia.
Qed.

Theorem np_stream (c : cube) : concat (np_updates n_il n_xl n_s bs0 bs1 bs2 c) = cube_stream c n_il n_xl n_s.
Proof.
  destruct (wf3_elim _ _ _ _ _ _ WF) as (W1 & W2 & W3 & W4 & W5 & W6).
  unfold np_updates. rewrite concat_flat_map_map. destruct np_gen_shape as [-> Hc].
  unfold cube_stream. rewrite <- (stream_by_sets n_il bs0 ltac:(lia) W4).
  apply flat_map_ext_in'. intros k Hk. apply in_zrange in Hk. rewrite Hc.
  apply flat_map_ext_in'. intros i Hi. apply in_zrange in Hi. apply np_update_real; assumption.
Qed.

Theorem np_hashed_is_source (c : cube) : np_hashed n_il n_xl n_s bs0 bs1 bs2 c = ser (cube_stream c n_il n_xl n_s).
Proof. unfold np_hashed. rewrite ser_concat, np_stream. reflexivity. Qed.

(* every hashed buffer row is a real source plane (never a replicated one): rows < planes_to_read <= rows in the slice *)
Lemma np_hashed_rows_real k i : 0 <= k < nsets n_il bs0 -> 0 <= i < np_hash_count n_il n_xl n_s bs0 bs1 bs2 k ->
  0 <= np_hash_row n_il n_xl n_s bs0 bs1 bs2 k i < np_rows_in_slice n_il n_xl n_s bs0 bs1 bs2 k.
Proof.
  intros Hk Hi. destruct (wf3_elim _ _ _ _ _ _ WF) as (W1 & W2 & W3 & W4 & W5 & W6).
  destruct (set_facts n_il bs0 W4 k Hk) as (F1 & F2 & F3 & F4 & F5). unfold cut in F3.
  destruct np_gen_shape as [_ Hc]. rewrite Hc in Hi.
  unfold np_hash_row, np_rows_in_slice, np_buf_hi, np_buf_lo, clip. lia.
Qed.

(* ---------- SEG-Y route ---------- *)
Variables il0 xl0 : Z.

Lemma sf_gen_shape : sf_n_plane_sets n_il n_xl n_s bs0 bs1 bs2 = nsets n_il bs0 /\
  (forall k, sf_hash_count n_il n_xl n_s bs0 bs1 bs2 k = ptr n_il bs0 k) /\
  (forall k, sf_planes_to_read n_il n_xl n_s bs0 bs1 bs2 k = ptr n_il bs0 k) /\
  (forall k p i, io_dst_row n_il n_xl n_s bs0 bs1 bs2 il0 xl0 k p i = i).
Proof. repeat split; reflexivity. Qed.

Lemma sf_update_real (r : reader) (file : cube) k i : reader_ok r il0 xl0 = true ->
  0 <= k < nsets n_il bs0 -> 0 <= i < ptr n_il bs0 k ->
  sf_update n_il n_xl n_s bs0 bs1 bs2 il0 xl0 r file k i = plane_samples (window file il0 xl0 (k * bs0 + i)) 0 n_xl 0 n_s.
Proof.
  intros Hr Hk Hi. destruct (wf3_elim _ _ _ _ _ _ WF) as (W1 & W2 & W3 & W4 & W5 & W6).
  destruct (set_facts n_il bs0 W4 k Hk) as (F1 & F2 & F3 & F4 & F5).
  destruct (pad_facts n_xl bs1 W5) as (_ & PX & _).
  destruct (pad_facts n_s bs2 W6) as (_ & PZ & _).
  unfold sf_update, sf_hash_row, sf_hash_x_lo, sf_hash_x_hi, sf_hash_z_lo, sf_hash_z_hi, sf_buf_shape1, sf_buf_shape2, clip.
  replace (Z.min n_xl (pad n_xl bs1)) with n_xl by lia.
  replace (Z.min n_s (pad n_s bs2)) with n_s by lia.
  unfold plane_samples. apply flat_map_ext_in'. intros x Hx. apply map_ext_in. intros z Hz.
  apply in_zrange in Hx. apply in_zrange in Hz.
  unfold sf_buffer, io_loop_hi. decide_tests.
  unfold sf_row, io_zpad_from, io_zpad_src, io_xpad_from, io_xpad_src, io_dst_x_lo, io_dst_x_hi, io_dst_z_lo, io_dst_z_hi.
  decide_tests.
  unfold io_line, io_real_cond. destruct sf_gen_shape as (_ & _ & -> & _). decide_tests.
  unfold window. destruct r; cbn [line_data reader_ok] in *.
  - unfold io_line_segyio, io_src_x_lo. f_equal; lia.
  - apply andb_true_iff in Hr. destruct Hr as [R1 R2]. apply Z.eqb_eq in R1. apply Z.eqb_eq in R2.
    unfold io_line_minimal. f_equal; lia.
Qed.

Theorem sf_stream (r : reader) (file : cube) : reader_ok r il0 xl0 = true ->
  concat (sf_updates n_il n_xl n_s bs0 bs1 bs2 il0 xl0 r file) = cube_stream (window file il0 xl0) n_il n_xl n_s.
Proof.
  intro Hr. destruct (wf3_elim _ _ _ _ _ _ WF) as (W1 & W2 & W3 & W4 & W5 & W6).
  unfold sf_updates. rewrite concat_flat_map_map. destruct sf_gen_shape as (-> & Hc & _).
  unfold cube_stream. rewrite <- (stream_by_sets n_il bs0 ltac:(lia) W4).
  apply flat_map_ext_in'. intros k Hk. apply in_zrange in Hk. rewrite Hc.
  apply flat_map_ext_in'. intros i Hi. apply in_zrange in Hi. apply sf_update_real; assumption.
Qed.

Theorem sf_hashed_is_source (r : reader) (file : cube) : reader_ok r il0 xl0 = true ->
  sf_hashed n_il n_xl n_s bs0 bs1 bs2 il0 xl0 r file = ser (cube_stream (window file il0 xl0) n_il n_xl n_s).
Proof. intro Hr. unfold sf_hashed. rewrite ser_concat, sf_stream by exact Hr. reflexivity. Qed.
End Cube3d.

(* ======================================================================================================== *)
Section Section2d.
Variables n_tr n_s bs0 bs1 bs2 : Z.
Hypothesis WF : wf2 n_tr n_s bs0 bs1 bs2 = true.

Lemma s2_gen_shape : s2_n_trace_groups n_tr n_s bs0 bs1 bs2 = nsets n_tr bs1 /\
  (forall g, s2_traces_to_read n_tr n_s bs0 bs1 bs2 g = ptr n_tr bs1 g) /\
  (forall g, s2_hash_row_hi n_tr n_s bs0 bs1 bs2 g = ptr n_tr bs1 g) /\
  (forall g p i, io2_dst_row n_tr n_s bs0 bs1 bs2 g p i = i).
Proof. repeat split; reflexivity. Qed.

Lemma s2_update_real (s : section2) g : 0 <= g < nsets n_tr bs1 ->
  s2_update n_tr n_s bs0 bs1 bs2 s g =
  flat_map (fun i => map (s (g * bs1 + i)) (zrange 0 n_s)) (zrange 0 (ptr n_tr bs1 g)).
Proof.
  intro Hg. destruct (wf2_elim _ _ _ _ _ WF) as (W1 & W2 & W3 & W4).
  destruct (set_facts n_tr bs1 W3 g Hg) as (F1 & F2 & F3 & F4 & F5).
  destruct (pad_facts n_s bs2 W4) as (_ & PZ & _).
  destruct s2_gen_shape as (_ & Ht & Hh & _).
  unfold s2_update, clip. rewrite Hh. unfold s2_hash_row_lo, s2_hash_z_lo, s2_hash_z_hi, s2_buf_shape0, s2_buf_shape1.
  replace (Z.min (ptr n_tr bs1 g) bs1) with (ptr n_tr bs1 g) by lia.
  replace (Z.min n_s (pad n_s bs2)) with n_s by lia.
  unfold plane_samples. apply flat_map_ext_in'. intros i Hi. apply map_ext_in. intros z Hz.
  apply in_zrange in Hi. apply in_zrange in Hz.
  unfold s2_buffer, io2_loop_hi. decide_tests.
  unfold s2_row, io2_zpad_from, io2_zpad_src, io2_dst_z_lo, io2_dst_z_hi. decide_tests.
  unfold io2_trace, io2_real_cond. rewrite Ht. decide_tests.
  unfold io2_trace_id. f_equal; lia.
Qed.

Theorem s2_stream (s : section2) : concat (s2_updates n_tr n_s bs0 bs1 bs2 s) = section_stream s n_tr n_s.
Proof.
  destruct (wf2_elim _ _ _ _ _ WF) as (W1 & W2 & W3 & W4).
  unfold s2_updates. rewrite <- flat_map_concat_map. destruct s2_gen_shape as (-> & _).
  unfold section_stream. rewrite <- (stream_by_sets n_tr bs1 ltac:(lia) W3).
  apply flat_map_ext_in'. intros g Hg. apply in_zrange in Hg. apply s2_update_real. exact Hg.
Qed.

Theorem s2_hashed_is_source (s : section2) : s2_hashed n_tr n_s bs0 bs1 bs2 s = ser (section_stream s n_tr n_s).
Proof. unfold s2_hashed. rewrite ser_concat, s2_stream. reflexivity. Qed.
End Section2d.

(* ======================================================================================================== *)
(* ---------- the serialisation is injective: different samples, different hashed bytes ---------- *)
Lemma ser_inj l1 l2 : ser l1 = ser l2 -> l1 = l2.
Proof.
  unfold ser. revert l2; induction l1 as [|[[[a b] c] d] l1 IH]; intros [|[[[a' b'] c'] d'] l2] E;
    cbn [flat_map ser1 app] in E; try discriminate; [reflexivity|].
  injection E as -> -> -> -> E. rewrite (IH l2 E). reflexivity.
Qed.

Lemma plane_samples_length (f g : Z -> Z -> sample) xlo xhi zlo zhi :
  length (plane_samples f xlo xhi zlo zhi) = length (plane_samples g xlo xhi zlo zhi).
Proof.
  unfold plane_samples. induction (zrange xlo xhi) as [|x l IH]; cbn [flat_map]; [reflexivity|].
  rewrite !app_length, !map_length, IH. reflexivity.
Qed.

Lemma plane_samples_pointwise (f g : Z -> Z -> sample) n_xl n_s :
  plane_samples f 0 n_xl 0 n_s = plane_samples g 0 n_xl 0 n_s ->
  forall x z, 0 <= x < n_xl -> 0 <= z < n_s -> f x z = g x z.
Proof.
  unfold plane_samples. intros E x z Hx Hz.
  assert (E1 : map (f x) (zrange 0 n_s) = map (g x) (zrange 0 n_s)).
  { apply (flat_map_pointwise _ _ _ (fun a _ => eq_trans (map_length _ _) (eq_sym (map_length _ _))) E).
    apply in_zrange. exact Hx. }
  apply (proj1 map_ext_in_iff E1). apply in_zrange. exact Hz.
Qed.

Theorem cube_stream_inj (c1 c2 : cube) n_il n_xl n_s :
  cube_stream c1 n_il n_xl n_s = cube_stream c2 n_il n_xl n_s ->
  forall i x z, 0 <= i < n_il -> 0 <= x < n_xl -> 0 <= z < n_s -> c1 i x z = c2 i x z.
Proof.
  unfold cube_stream. intros E i x z Hi Hx Hz.
  apply (plane_samples_pointwise (c1 i) (c2 i) n_xl n_s); [|exact Hx|exact Hz].
  apply (flat_map_pointwise _ _ _ (fun a _ => plane_samples_length _ _ _ _ _ _) E). apply in_zrange. exact Hi.
Qed.

Theorem section_stream_inj (s1 s2 : section2) n_tr n_s :
  section_stream s1 n_tr n_s = section_stream s2 n_tr n_s ->
  forall t z, 0 <= t < n_tr -> 0 <= z < n_s -> s1 t z = s2 t z.
Proof.
  unfold section_stream. intros E t z Ht Hz.
  assert (E1 : map (s1 t) (zrange 0 n_s) = map (s2 t) (zrange 0 n_s)).
  { apply (flat_map_pointwise _ _ _ (fun a _ => eq_trans (map_length _ _) (eq_sym (map_length _ _))) E).
    apply in_zrange. exact Ht. }
  apply (proj1 map_ext_in_iff E1). apply in_zrange. exact Hz.
Qed.

(* ======================================================================================================== *)
Section Digest.
Variable digest : Type.
Variable H : list byte -> digest.

(* one digest for every route, blockshape and reader (the bit rate does not occur in the producers at all) *)
Theorem digest_is_sha1_of_source n_il n_xl n_s bs0 bs1 bs2 (c : cube) :
  wf3 n_il n_xl n_s bs0 bs1 bs2 = true ->
  np_digest digest H n_il n_xl n_s bs0 bs1 bs2 c = H (ser (cube_stream c n_il n_xl n_s)) /\
  forall r il0 xl0 (file : cube), reader_ok r il0 xl0 = true ->
    sf_digest digest H n_il n_xl n_s bs0 bs1 bs2 il0 xl0 r file = H (ser (cube_stream (window file il0 xl0) n_il n_xl n_s)).
Proof.
  intro WF. split.
  - unfold np_digest. rewrite np_hashed_is_source by exact WF. reflexivity.
  - intros r il0 xl0 file Hr. unfold sf_digest. rewrite sf_hashed_is_source by assumption. reflexivity.
Qed.

Lemma window_00 (c : cube) n_il n_xl n_s : cube_stream (window c 0 0) n_il n_xl n_s = cube_stream c n_il n_xl n_s.
Proof.
  unfold cube_stream, plane_samples, window. apply flat_map_ext. intro i. apply flat_map_ext. intro x.
  apply map_ext. intro z. reflexivity.
Qed.

Theorem digest_independent_of_settings n_il n_xl n_s (c : cube) bs0 bs1 bs2 bs0' bs1' bs2' r r' :
  wf3 n_il n_xl n_s bs0 bs1 bs2 = true -> wf3 n_il n_xl n_s bs0' bs1' bs2' = true ->
  np_digest digest H n_il n_xl n_s bs0 bs1 bs2 c = np_digest digest H n_il n_xl n_s bs0' bs1' bs2' c /\
  np_digest digest H n_il n_xl n_s bs0 bs1 bs2 c = sf_digest digest H n_il n_xl n_s bs0' bs1' bs2' 0 0 r c /\
  sf_digest digest H n_il n_xl n_s bs0 bs1 bs2 0 0 r c = sf_digest digest H n_il n_xl n_s bs0' bs1' bs2' 0 0 r' c.
Proof.
  intros W W'.
  destruct (digest_is_sha1_of_source n_il n_xl n_s bs0 bs1 bs2 c W) as [N S].
  destruct (digest_is_sha1_of_source n_il n_xl n_s bs0' bs1' bs2' c W') as [N' S'].
  assert (Rr : reader_ok r 0 0 = true) by (destruct r; reflexivity).
  assert (Rr' : reader_ok r' 0 0 = true) by (destruct r'; reflexivity).
  rewrite N, N', (S r 0 0 c Rr), (S' r 0 0 c Rr), (S' r' 0 0 c Rr'), window_00. repeat split; reflexivity.
Qed.

Theorem digest_2d_is_sha1_of_source n_tr n_s bs0 bs1 bs2 (s : section2) :
  wf2 n_tr n_s bs0 bs1 bs2 = true -> s2_digest digest H n_tr n_s bs0 bs1 bs2 s = H (ser (section_stream s n_tr n_s)).
Proof. intro WF. unfold s2_digest. rewrite s2_hashed_is_source by exact WF. reflexivity. Qed.

(* sensitivity: a differing sample changes the hashed bytes; equal digests are then a SHA-1 collision *)
Theorem hash_sensitive_3d n_il n_xl n_s bs0 bs1 bs2 (c1 c2 : cube) i x z :
  wf3 n_il n_xl n_s bs0 bs1 bs2 = true -> 0 <= i < n_il -> 0 <= x < n_xl -> 0 <= z < n_s -> c1 i x z <> c2 i x z ->
  np_hashed n_il n_xl n_s bs0 bs1 bs2 c1 <> np_hashed n_il n_xl n_s bs0 bs1 bs2 c2 /\
  (np_digest digest H n_il n_xl n_s bs0 bs1 bs2 c1 = np_digest digest H n_il n_xl n_s bs0 bs1 bs2 c2 -> collision digest H).
Proof.
  intros WF Hi Hx Hz Hd.
  assert (Hne : np_hashed n_il n_xl n_s bs0 bs1 bs2 c1 <> np_hashed n_il n_xl n_s bs0 bs1 bs2 c2).
  { rewrite !np_hashed_is_source by exact WF. intro E. apply ser_inj in E.
    apply Hd. exact (cube_stream_inj c1 c2 n_il n_xl n_s E i x z Hi Hx Hz). }
  split; [exact Hne|]. intro E. exists (np_hashed n_il n_xl n_s bs0 bs1 bs2 c1), (np_hashed n_il n_xl n_s bs0 bs1 bs2 c2).
  split; [exact Hne|exact E].
Qed.

Theorem hash_sensitive_segy n_il n_xl n_s bs0 bs1 bs2 il0 xl0 r (f1 f2 : cube) i x z :
  wf3 n_il n_xl n_s bs0 bs1 bs2 = true -> reader_ok r il0 xl0 = true ->
  0 <= i < n_il -> 0 <= x < n_xl -> 0 <= z < n_s -> f1 (il0 + i) (xl0 + x) z <> f2 (il0 + i) (xl0 + x) z ->
  sf_hashed n_il n_xl n_s bs0 bs1 bs2 il0 xl0 r f1 <> sf_hashed n_il n_xl n_s bs0 bs1 bs2 il0 xl0 r f2 /\
  (sf_digest digest H n_il n_xl n_s bs0 bs1 bs2 il0 xl0 r f1 = sf_digest digest H n_il n_xl n_s bs0 bs1 bs2 il0 xl0 r f2 ->
   collision digest H).
Proof.
  intros WF Hr Hi Hx Hz Hd.
  assert (Hne : sf_hashed n_il n_xl n_s bs0 bs1 bs2 il0 xl0 r f1 <> sf_hashed n_il n_xl n_s bs0 bs1 bs2 il0 xl0 r f2).
  { rewrite !sf_hashed_is_source by assumption. intro E. apply ser_inj in E.
    apply Hd. exact (cube_stream_inj _ _ n_il n_xl n_s E i x z Hi Hx Hz). }
  split; [exact Hne|]. intro E. eexists _, _. split; [exact Hne|exact E].
Qed.

Theorem hash_sensitive_2d n_tr n_s bs0 bs1 bs2 (s1 s2 : section2) t z :
  wf2 n_tr n_s bs0 bs1 bs2 = true -> 0 <= t < n_tr -> 0 <= z < n_s -> s1 t z <> s2 t z ->
  s2_hashed n_tr n_s bs0 bs1 bs2 s1 <> s2_hashed n_tr n_s bs0 bs1 bs2 s2 /\
  (s2_digest digest H n_tr n_s bs0 bs1 bs2 s1 = s2_digest digest H n_tr n_s bs0 bs1 bs2 s2 -> collision digest H).
Proof.
  intros WF Ht Hz Hd.
  assert (Hne : s2_hashed n_tr n_s bs0 bs1 bs2 s1 <> s2_hashed n_tr n_s bs0 bs1 bs2 s2).
  { rewrite !s2_hashed_is_source by exact WF. intro E. apply ser_inj in E.
    apply Hd. exact (section_stream_inj s1 s2 n_tr n_s E t z Ht Hz). }
  split; [exact Hne|]. intro E. eexists _, _. split; [exact Hne|exact E].
Qed.
End Digest.

(* ======================================================================================================== *)
(* ---------- the stored digest: written at 960, read back from [960, 980), untouched by the re-blocker ---------- *)
Lemma mslice_patch_same (m : memory) off (v : list byte) :
  mslice (patch m off v) off (off + Z.of_nat (length v)) = v.
Proof.
  unfold mslice, zrange. replace (Z.to_nat (off + Z.of_nat (length v) - off)) with (length v) by lia.
  revert m off; induction v as [|a v IH]; intros m off; [reflexivity|].
  cbn [length zrange_nat map]. f_equal.
  - unfold patch. replace (off - off) with 0 by lia. cbn [length]. decide_tests. reflexivity.
  - transitivity (map (patch m (off + 1) v) (zrange_nat (off + 1) (length v))); [|apply IH]. apply map_ext_in. intros o Ho. apply in_zrange_nat in Ho.
    unfold patch. cbn [length]. rewrite Nat2Z.inj_succ. unfold Z.succ.
    destruct (Z.leb_spec off o); destruct (Z.leb_spec (off + 1) o); try lia.
    destruct (Z.ltb_spec o (off + (Z.of_nat (length v) + 1))); destruct (Z.ltb_spec o (off + 1 + Z.of_nat (length v))); try lia.
    cbn [andb]. replace (Z.to_nat (o - off)) with (S (Z.to_nat (o - (off + 1)))) by lia. reflexivity.
Qed.

Lemma mslice_patch_disjoint (m : memory) off (v : list byte) lo hi :
  off + Z.of_nat (length v) <= lo \/ hi <= off -> mslice (patch m off v) lo hi = mslice m lo hi.
Proof.
  intro Hd. unfold mslice. apply map_ext_in. intros o Ho. apply in_zrange in Ho. unfold patch.
  destruct (Z.leb_spec off o); destruct (Z.ltb_spec o (off + Z.of_nat (length v))); cbn [andb]; try reflexivity; lia.
Qed.

Theorem stored_hash_roundtrip (m : memory) (d : list byte) : length d = 20%nat ->
  mslice (patch m hash_write_offset_segy d) hash_read_lo hash_read_hi = d /\
  mslice (patch m hash_write_offset_numpy d) hash_read_lo hash_read_hi = d.
Proof.
  intro L. split.
  - rewrite <- (mslice_patch_same m hash_write_offset_segy d) at 2. rewrite L. reflexivity.
  - rewrite <- (mslice_patch_same m hash_write_offset_numpy d) at 2. rewrite L. reflexivity.
Qed.

(* every generated re-blocker patch lies outside the digest field *)
Definition patches_clear (ranges : list (Z * Z)) (lo hi : Z) : bool :=
  forallb (fun p => (snd p <=? lo) || (hi <=? fst p)) ranges.

Lemma apply_patches_clear (ps : list (Z * list byte)) : forall (m : memory) lo hi,
  forallb (fun p => (fst p + Z.of_nat (length (snd p)) <=? lo) || (hi <=? fst p)) ps = true ->
  mslice (apply_patches m ps) lo hi = mslice m lo hi.
Proof.
  induction ps as [|[a v] ps IH]; intros m lo hi Hc; [reflexivity|].
  cbn [apply_patches forallb fst snd] in *. apply andb_true_iff in Hc. destruct Hc as [C1 C2].
  rewrite (IH _ lo hi C2). apply mslice_patch_disjoint.
  apply orb_true_iff in C1. destruct C1 as [C1|C1]; [left; apply Z.leb_le; exact C1|right; apply Z.leb_le; exact C1].
Qed.

Lemma patches_match_clear ranges ps lo hi : patches_match ranges ps -> patches_clear ranges lo hi = true ->
  forallb (fun p => (fst p + Z.of_nat (length (snd p)) <=? lo) || (hi <=? fst p)) ps = true.
Proof.
  unfold patches_match, patches_clear. revert ranges; induction ps as [|[a v] ps IH]; intros [|[ra rb] ranges] [M1 M2] C;
    cbn [map fst snd forallb] in *; try discriminate; [reflexivity|].
  injection M1 as -> M1. injection M2 as <- M2. apply andb_true_iff in C. destruct C as [C1 C2].
  rewrite C1. cbn [andb]. apply (IH ranges); [split; assumption|exact C2].
Qed.

Theorem reblock_keeps_hash (m : memory) (ps : list (Z * list byte)) : patches_match reblock_patches ps ->
  mslice (apply_patches m ps) hash_read_lo hash_read_hi = mslice m hash_read_lo hash_read_hi.
Proof.
  intro M. apply apply_patches_clear. apply (patches_match_clear reblock_patches); [exact M|].
  vm_compute. reflexivity.
Qed.
