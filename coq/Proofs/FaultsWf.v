(* Proofs/FaultsWf.v -- C17: the two arithmetic side conditions of the (N, N, 4) z-slice fan-out
   (Proofs/Faults.v: zslice_set_adv_tasks_ok) discharged from well-formedness of the header.  r1 and r2 are the byte
   counts the GENERATED loader computes from the bit rate (Gen/Reader.v: ld_read_and_decompress_zslice_set_adv),
   int(4*4*blockshape[1]*rate) and int(shape_pad[1]*4*4*rate); Proofs/General.v shows that for every header with wf3
   and blockshape[2] = 4 they are 8 * (bytes of one 4 x bs1 x 4 sub-block) and nbx times that.  So the slot theorem
   (every slice assignment of every task inside the buffer, slots pairwise distinct and covering it) holds for every
   well-formed z-slice-layout file, not only for the files a run happens to evaluate. *)
From Coq Require Import ZArith List Bool Lia.
Import ListNotations.
From SZ Require Import Lib.Py Gen.Utils Gen.Version Gen.Reader Gen.Faults Model.Faults Spec.Container
  Proofs.PyLemmas Proofs.Layout Proofs.General Proofs.Faults.
Open Scope Z_scope.

Definition adv_r1 (H : hdr) : Z := Z.quot (4 * 4 * rd_blockshape1 H * rd_rate_n H) (rd_rate_d H).
Definition adv_r2 (H : hdr) : Z := Z.quot (rd_shape_pad1 H * 4 * 4 * rd_rate_n H) (rd_rate_d H).

Lemma zslice_set_adv_tasks_ok_wf (H : hdr) (zf : Z) :
  wf3 H = true -> s_bs2 H = 4 ->
  tasks_okb (Z.to_nat (zslice_set_adv_buflen (rd_block_bytes H) (nbi3 H) (nbx3 H)))
            (adv_tasks (rd_block_bytes H) (nbi3 H) (nbx3 H) (nbz3 H) (rd_blockshape0 H) (adv_r1 H) (adv_r2 H) zf) = true.
Proof.
  intros W Z4. pose proof (wf3_facts H W) as F.
  pose proof (adv_r1_eq H W) as E1. pose proof (adv_r2_eq H W) as E2. pose proof (adv_block H W Z4) as AB.
  destruct (nb_pos3 H W) as (NI & NX & NZ).
  pose proof (f_bs0 H F) as B0. pose proof (f_bs1 H F) as B1. pose proof (f_ub H F) as Ub.
  assert (L0 : 0 <= adv_sub_len H). { unfold adv_sub_len. apply Z.mul_nonneg_nonneg; [apply Z.div_pos; lia | lia]. }
  apply zslice_set_adv_tasks_ok; fold (adv_r1 H) (adv_r2 H); unfold adv_r1, adv_r2.
  - rewrite E1. exact L0.
  - rewrite (r_bs0 H F). apply Z.div_pos; lia.
  - lia.
  - lia.
  - rewrite E1, (r_bb H F), (r_bs0 H F). symmetry. exact AB.
  - rewrite E1, E2. reflexivity.
Qed.
