(* Proofs/Caches.v -- C15: the caches never change a result.
   1. LRU tables: entries come from the old table or are the new one (soundness transfer); no duplicate keys and at
      most `capacity` entries, for every capacity (the functools.lru_cache discipline of Model/Caches.v).
   2. seek-then-read: the result of read_range_file does not depend on the handle's position;
      preload: a slice of the preloaded volume equals the range read, for requests inside the data section.
   3. invariant cache_sound, preserved by every primitive / read method / operation; each returns the pure value.
   4. history_independent: by induction over the operation list. *)
From Coq Require Import ZArith List Bool String Arith Lia.
From SZ Require Import Lib.Py Gen.Caches Model.Caches.
Import ListNotations.
Local Open Scope nat_scope.

(* ------------------------------------------------------------------------------------------------ 1. LRU *)
Section LRUFacts.
  Variables (K V : Type) (keqb : K -> K -> bool).
  Hypothesis keqb_eq : forall a b, keqb a b = true <-> a = b.

  Lemma lru_find_In : forall k (l : list (K * V)) v, lru_find keqb k l = Some v -> In (k, v) l.
  Proof.
    intros k l; induction l as [|[k' v'] t IH]; cbn; intros v H; [discriminate|].
    destruct (keqb k k') eqn:E.
    - apply keqb_eq in E; subst. inversion H; subst. now left.
    - right; auto.
  Qed.
  Lemma lru_find_None : forall k (l : list (K * V)), lru_find keqb k l = None -> ~ In k (map fst l).
  Proof.
    intros k l; induction l as [|[k' v'] t IH]; cbn; intros H; [tauto|].
    destruct (keqb k k') eqn:E; [discriminate|].
    intros [A|A]; [subst; assert (keqb k k = true) by (apply keqb_eq; reflexivity); congruence | now apply IH].
  Qed.
  Lemma lru_remove_In : forall k (l : list (K * V)) x, In x (lru_remove keqb k l) -> In x l.
  Proof.
    intros k l; induction l as [|[k' v'] t IH]; cbn; intros x H; [tauto|].
    destruct (keqb k k'); [right; auto | destruct H; [now left | right; auto]].
  Qed.
  Lemma lru_remove_notin : forall k (l : list (K * V)), ~ In k (map fst (lru_remove keqb k l)).
  Proof.
    intros k l; induction l as [|[k' v'] t IH]; cbn; [tauto|].
    destruct (keqb k k') eqn:E; [exact IH|]. cbn. intros [A|A]; [|tauto].
    subst. assert (keqb k k = true) by (apply keqb_eq; reflexivity). congruence.
  Qed.
  Lemma lru_remove_keys_In : forall k (l : list (K * V)) x, In x (map fst (lru_remove keqb k l)) -> In x (map fst l).
  Proof.
    intros k l x H. apply in_map_iff in H. destruct H as [[a b] [E H]]. apply lru_remove_In in H.
    apply in_map_iff. now exists (a, b).
  Qed.
  Lemma lru_remove_NoDup : forall k (l : list (K * V)), NoDup (map fst l) -> NoDup (map fst (lru_remove keqb k l)).
  Proof.
    intros k l; induction l as [|[k' v'] t IH]; cbn; intros H; [constructor|].
    inversion H as [|a b Hn Hd]; subst. destruct (keqb k k'); [auto|].
    cbn. constructor; [|auto]. intro A. apply Hn. eapply lru_remove_keys_In; eauto.
  Qed.
  Lemma lru_remove_length_le : forall k (l : list (K * V)), List.length (lru_remove keqb k l) <= List.length l.
  Proof. intros k l; induction l as [|[k' v'] t IH]; cbn; [lia|]. destruct (keqb k k'); cbn; lia. Qed.
  Lemma lru_remove_length_lt : forall k (l : list (K * V)) v, lru_find keqb k l = Some v -> List.length (lru_remove keqb k l) < List.length l.
  Proof.
    intros k l; induction l as [|[k' v'] t IH]; cbn; intros v H; [discriminate|].
    destruct (keqb k k'); cbn; [pose proof (lru_remove_length_le k t); lia | specialize (IH _ H); lia].
  Qed.

  (* where the entries of the new table come from *)
  Lemma lru_hit_In : forall k v (l : list (K * V)) x, In x (lru_hit keqb k v l) -> x = (k, v) \/ In x l.
  Proof. intros k v l x [H|H]; [left; auto | right; eapply lru_remove_In; eauto]. Qed.
  Lemma In_firstn : forall (A : Type) n (l : list A) x, In x (firstn n l) -> In x l.
  Proof. intros A n; induction n; intros [|a l] x H; cbn in *; try tauto. destruct H; [now left | right; auto]. Qed.
  Lemma lru_miss_In : forall c k v (l : list (K * V)) x, In x (lru_miss c k v l) -> x = (k, v) \/ In x l.
  Proof. intros c k v l x H. apply In_firstn in H. destruct H; [left; auto | right; auto]. Qed.

  (* shape: no duplicate keys, never more than the capacity *)
  Definition lru_shape (c : nat) (l : list (K * V)) : Prop := NoDup (map fst l) /\ List.length l <= c.
  Lemma NoDup_firstn : forall (A : Type) n (l : list A), NoDup l -> NoDup (firstn n l).
  Proof.
    intros A n; induction n; intros [|a l] H; cbn; try constructor.
    - inversion H; subst. intro X. apply In_firstn in X. tauto.
    - inversion H; auto.
  Qed.
  Lemma lru_hit_shape : forall c k v l, lru_shape c l -> lru_find keqb k l = Some v -> lru_shape c (lru_hit keqb k v l).
  Proof.
    intros c k v l [Hn Hl] Hf. split.
    - cbn. constructor; [apply lru_remove_notin | now apply lru_remove_NoDup].
    - cbn. pose proof (lru_remove_length_lt _ _ _ Hf). lia.
  Qed.
  Lemma lru_miss_shape : forall c k v l, lru_shape c l -> lru_find keqb k l = None -> lru_shape c (lru_miss c k v l).
  Proof.
    intros c k v l [Hn Hl] Hf. unfold lru_miss. split.
    - rewrite <- firstn_map. apply NoDup_firstn. cbn. constructor; [now apply lru_find_None | exact Hn].
    - rewrite firstn_length. lia.
  Qed.
  (* a hit returns the stored value and keeps the same set of keys; a miss makes the key the most recent entry *)
  Lemma lru_hit_keeps : forall k v (l : list (K * V)) k', In k' (map fst l) -> In k' (map fst (lru_hit keqb k v l)) \/ k' = k.
  Proof.
    intros k v l k' H. cbn. induction l as [|[a b] t IH]; cbn in *; [tauto|].
    destruct (keqb k a) eqn:E.
    - destruct H as [H|H]; [apply keqb_eq in E; subst; right; reflexivity | auto].
    - cbn. destruct H as [H|H]; [left; right; left; exact H|]. destruct (IH H) as [[X|X]|X]; auto.
  Qed.
End LRUFacts.

Lemma zlist_eqb_eq : forall a b, zlist_eqb a b = true <-> a = b.
Proof.
  induction a as [|x a IH]; destruct b as [|y b]; cbn; split; intro H; try discriminate; auto.
  - apply andb_true_iff in H. destruct H as [H1 H2]. apply Z.eqb_eq in H1. apply IH in H2. congruence.
  - inversion H; subst. apply andb_true_iff. split; [apply Z.eqb_refl | now apply IH].
Qed.
Lemma skey_eqb_eq : forall a b, skey_eqb a b = true <-> a = b.
Proof.
  intros [a1 a2] [b1 b2]; unfold skey_eqb; cbn; split; intro H.
  - apply andb_true_iff in H. destruct H as [H1 H2]. apply Nat.eqb_eq in H1. apply zlist_eqb_eq in H2. congruence.
  - inversion H; subst. apply andb_true_iff. split; [apply Nat.eqb_refl | now apply zlist_eqb_eq].
Qed.

(* ------------------------------------------------------------------------------------------------ 2. bytes *)
Lemma skipn_skipn' : forall (A : Type) (x y : nat) (l : list A), skipn x (skipn y l) = skipn (y + x) l.
Proof. intros A x y; induction y; intros l; cbn; [reflexivity|]. destruct l; [now rewrite skipn_nil | apply IHy]. Qed.
Lemma slice_slice : forall (l : list Z) ds dl off len,
  List.length (slice l ds dl) = dl -> off + len <= dl ->
  slice (slice l ds dl) off len = slice l (ds + off) len /\ List.length (slice l (ds + off) len) = len.
Proof.
  intros l ds dl off len HL Hle. unfold slice in *.
  rewrite skipn_firstn_comm, firstn_firstn, skipn_skipn'.
  replace (Nat.min len (dl - off)) with len by lia. split; [reflexivity|].
  rewrite firstn_length, skipn_length in *. lia.
Qed.

(* ------------------------------------------------------------------------------------------------ the world *)
Section WorldFacts.
  Variable value : Type.
  Variable file_bytes : nat -> list Z.
  Variable data_start data_len : nat -> nat.
  Variable is2d structured : nat -> bool.
  Variable template : nat -> list (Z * option nat).
  Variable hel : nat -> nat.
  Variable mask_off : nat -> nat.
  Variable default_cap : nat -> nat.
  Variable decode_hdr : list Z -> value.
  Variable decode_mask : list Z -> value.
  Variable apply_mask : value -> value -> value.
  Variable lbody : nat -> string -> list Z -> lprog value.
  Variable chunk_body : nat -> list Z -> cprog value.
  Variable query : Type.
  Variable method_prog : nat -> query -> rprog value.

  Notation RR := (read_range file_bytes).
  Notation RRF := (read_range_file file_bytes).
  Notation GB := (get_bytes file_bytes data_start).
  Notation XL := (exec_l value file_bytes data_start).
  Notation PL := (pure_l value file_bytes data_start).
  Notation IND := (in_data value file_bytes data_start data_len).
  Notation PLD := (pure_loader value file_bytes data_start lbody).
  Notation RAW := (raw_read value file_bytes).
  Notation PRL := (prim_loader value file_bytes data_start lbody).
  Notation XC := (exec_c value file_bytes data_start lbody).
  Notation PC := (pure_c value file_bytes data_start lbody).
  Notation PCH := (pure_chunk value file_bytes data_start lbody chunk_body).
  Notation PRC := (prim_chunk value file_bytes data_start lbody chunk_body).
  Notation PM := (pure_mask value file_bytes hel mask_off decode_mask).
  Notation PRM := (prim_mask value file_bytes hel mask_off decode_mask).
  Notation UM := (use_mask is2d structured).
  Notation HV := (hdr_value value file_bytes is2d structured template hel mask_off decode_hdr decode_mask apply_mask).
  Notation RH := (read_hdr value file_bytes hel decode_hdr).
  Notation LF := (load_field value file_bytes is2d structured template hel mask_off decode_hdr decode_mask apply_mask).
  Notation LFS := (load_fields value file_bytes is2d structured template hel mask_off decode_hdr decode_mask apply_mask).
  Notation FL := (field_list template).
  Notation RVH := (rvh value file_bytes is2d structured template hel mask_off decode_hdr decode_mask apply_mask).
  Notation FO := (field_outcome value file_bytes is2d structured template hel mask_off decode_hdr decode_mask apply_mask).
  Notation FOS := (fields_outcome value file_bytes is2d structured template hel mask_off decode_hdr decode_mask apply_mask).
  Notation PHD := (pure_header value file_bytes is2d structured template hel mask_off decode_hdr decode_mask apply_mask).
  Notation PR := (pure_r value file_bytes data_start is2d structured template hel mask_off decode_hdr decode_mask apply_mask
                         lbody chunk_body).

  (* a cached loader body requests bytes inside the data section (C07); used for the preloaded volume only *)
  Hypothesis bodies_in_data : forall f m args, IND f (lbody f m args).

  (* ---------------------------------------------------------------------------------------------- 2. bytes *)
  Lemma rrf_spec : forall h off len, h_open h = true ->
    exists h', RRF h off len = (RR (h_file h) off len, h') /\ h_file h' = h_file h /\ h_open h' = true.
  Proof.
    intros h off len Ho. unfold read_range_file. rewrite Ho. cbn.
    eexists; split; [reflexivity|]. cbn. auto.
  Qed.
  (* seek-then-read: the result is the same on every open handle of the file, whatever its position *)
  Lemma position_irrelevant : forall h1 h2 off len, h_file h1 = h_file h2 -> h_open h1 = true -> h_open h2 = true ->
    fst (RRF h1 off len) = fst (RRF h2 off len).
  Proof.
    intros h1 h2 off len Hf H1 H2. destruct (rrf_spec h1 off len H1) as [a [E1 _]].
    destruct (rrf_spec h2 off len H2) as [b [E2 _]]. rewrite E1, E2, Hf. reflexivity.
  Qed.

  Definition vol_ok (f : nat) (vol : option (list Z)) : Prop :=
    forall v, vol = Some v -> RR f (data_start f) (data_len f) = Return v.
  (* preload: the slice of the in-memory volume is what the file would have returned *)
  Lemma get_bytes_spec : forall vol h off len, h_open h = true -> vol_ok (h_file h) vol -> off + len <= data_len (h_file h) ->
    exists h', GB vol h off len = (RR (h_file h) (data_start (h_file h) + off) len, h') /\ h_file h' = h_file h /\ h_open h' = true.
  Proof.
    intros vol h off len Ho Hv Hle. unfold get_bytes. destruct vol as [v|].
    - exists h. split; [|auto]. specialize (Hv v eq_refl). unfold read_range, check_len in Hv.
      destruct (Nat.eqb (List.length (slice (file_bytes (h_file h)) (data_start (h_file h)) (data_len (h_file h)))) (data_len (h_file h))) eqn:E;
        [|discriminate].
      apply Nat.eqb_eq in E. inversion Hv; subst v.
      destruct (slice_slice (file_bytes (h_file h)) _ _ off len E Hle) as [S1 S2].
      rewrite S1. unfold read_range, check_len. rewrite S2, Nat.eqb_refl. reflexivity.
    - apply rrf_spec; assumption.
  Qed.
  Lemma exec_l_spec : forall p vol h, h_open h = true -> vol_ok (h_file h) vol -> IND (h_file h) p ->
    exists h', XL vol h p = (PL (h_file h) p, h') /\ h_file h' = h_file h /\ h_open h' = true.
  Proof.
    induction p as [r|off len k IH]; intros vol h Ho Hv Hin; cbn.
    - exists h; auto.
    - cbn in Hin. destruct Hin as [Hle Hin].
      destruct (get_bytes_spec vol h off len Ho Hv Hle) as [h1 [E [F O]]]. rewrite E.
      assert (Hv1 : vol_ok (h_file h1) vol) by (rewrite F; exact Hv).
      assert (Hin1 : IND (h_file h1) (k (RR (h_file h) (data_start (h_file h) + off) len))) by (rewrite F; exact Hin).
      destruct (IH _ vol h1 O Hv1 Hin1) as [h2 [E2 [F2 O2]]].
      exists h2. rewrite E2, F. split; [reflexivity|]. split; [congruence | assumption].
  Qed.

  (* ---------------------------------------------------------------------------------------------- 3. invariant *)
  Definition hstat (h : handle) : nat * bool := (h_file h, h_open h).
  Definition same_static (a b : rstate value) : Prop :=
    nreaders a = nreaders b /\ nhandles a = nhandles b /\ (forall i, readers b i = readers a i) /\
    (forall i, option_map hstat (handles b i) = option_map hstat (handles a i)).
  Lemma same_static_refl : forall a, same_static a a.
  Proof. intros a; repeat split; auto. Qed.
  Lemma same_static_trans : forall a b c, same_static a b -> same_static b c -> same_static a c.
  Proof.
    intros a b c [A1 [A2 [A3 A4]]] [B1 [B2 [B3 B4]]]. repeat split; try congruence;
      intros i; first [rewrite B3; apply A3 | rewrite B4; apply A4].
  Qed.

  (* every cached value equals the pure function of its key *)
  Definition slot_ok (st : rstate value) : Prop :=
    forall m key v, In (key, v) (slots st m) ->
      exists r, readers st (fst key) = Some r /\ PLD (r_file r) m (snd key) = Return v.
  Definition dyn_ok (st : rstate value) : Prop :=
    forall rid r, readers st rid = Some r ->
      (forall key v, In (key, v) (d_chunks (dyn st rid)) -> PCH (r_file r) key = Return v) /\
      (forall m, d_mask (dyn st rid) = Some m -> PM (r_file r) = Return m) /\
      (forall k v, In (k, v) (d_vh (dyn st rid)) -> exists b, d_ipad (dyn st rid) = Some b /\ HV (r_file r) b k = Return v).
  Definition static_ok (st : rstate value) : Prop :=
    (forall rid r, readers st rid = Some r ->
       (exists h, handles st (r_handle r) = Some h /\ h_file h = r_file r) /\ vol_ok (r_file r) (r_vol r)) /\
    (forall i, nreaders st <= i -> readers st i = None) /\ (forall i, nhandles st <= i -> handles st i = None).
  (* LRU shape: no duplicate keys, capacity never exceeded *)
  Definition shape_ok (st : rstate value) : Prop :=
    (forall m, lru_shape skey value (maxsize_of m) (slots st m)) /\
    (forall rid r, readers st rid = Some r -> lru_shape (list Z) value (r_cap r) (d_chunks (dyn st rid))).
  Definition cache_sound (st : rstate value) : Prop := slot_ok st /\ dyn_ok st /\ static_ok st /\ shape_ok st.

  Definition opened (st : rstate value) (rid : nat) (r : reader) : Prop :=
    readers st rid = Some r /\ exists h, handles st (r_handle r) = Some h /\ h_open h = true.
  Lemma opened_static : forall a b rid r, opened a rid r -> same_static a b -> opened b rid r.
  Proof.
    intros a b rid r [Hr [h [Hh Ho]]] [_ [_ [S3 S4]]]. split; [rewrite S3; exact Hr|].
    specialize (S4 (r_handle r)). rewrite Hh in S4. destruct (handles b (r_handle r)) as [h'|]; [|discriminate].
    exists h'. split; [reflexivity|]. cbn in S4. unfold hstat in S4. inversion S4. congruence.
  Qed.
  Lemma opened_handle : forall st rid r, cache_sound st -> opened st rid r ->
    exists h, handles st (r_handle r) = Some h /\ h_open h = true /\ h_file h = r_file r /\ vol_ok (r_file r) (r_vol r).
  Proof.
    intros st rid r [_ [_ [[S _] _]]] [Hr [h [Hh Ho]]]. destruct (S _ _ Hr) as [[h' [Hh' Hf]] Hv].
    exists h. rewrite Hh in Hh'. inversion Hh'; subst h'. auto.
  Qed.

  (* frames: each part of the invariant depends on a few components only *)
  Lemma slot_ok_frame : forall a b, (forall i, readers b i = readers a i) -> (forall m, slots b m = slots a m) -> slot_ok a -> slot_ok b.
  Proof. intros a b R S H m key v I. rewrite S in I. destruct (H _ _ _ I) as [r [X Y]]. exists r. rewrite R. auto. Qed.
  Lemma dyn_ok_frame : forall a b, (forall i, readers b i = readers a i) -> (forall i, dyn b i = dyn a i) -> dyn_ok a -> dyn_ok b.
  Proof. intros a b R D H rid r Hr. rewrite R in Hr. rewrite D. exact (H _ _ Hr). Qed.
  Lemma static_ok_frame : forall a b, same_static a b -> static_ok a -> static_ok b.
  Proof.
    intros a b [S1 [S2 [S3 S4]]] [H1 [H2 H3]]. split; [|split].
    - intros rid r Hr. rewrite S3 in Hr. destruct (H1 _ _ Hr) as [[h [Hh Hf]] Hv]. split; [|exact Hv].
      specialize (S4 (r_handle r)). rewrite Hh in S4. destruct (handles b (r_handle r)) as [h'|]; [|discriminate].
      exists h'. split; [reflexivity|]. cbn in S4. unfold hstat in S4. inversion S4. congruence.
    - intros i Hi. rewrite S3. apply H2. lia.
    - intros i Hi. specialize (S4 i). rewrite (H3 i) in S4 by lia. destruct (handles b i); [discriminate | reflexivity].
  Qed.
  Lemma shape_ok_frame : forall a b, (forall i, readers b i = readers a i) -> (forall m, slots b m = slots a m) ->
    (forall i, dyn b i = dyn a i) -> shape_ok a -> shape_ok b.
  Proof.
    intros a b R S D [H1 H2]. split; [intros m; rewrite S; apply H1 | intros rid r Hr; rewrite R in Hr; rewrite D; eapply H2; eauto].
  Qed.

  (* changing only a handle (same file, same open flag) and the log *)
  Definition only_handles (a b : rstate value) : Prop :=
    same_static a b /\ (forall m, slots b m = slots a m) /\ (forall i, dyn b i = dyn a i).
  Lemma only_handles_sound : forall a b, only_handles a b -> cache_sound a -> cache_sound b.
  Proof.
    intros a b [S [Sl D]] [H1 [H2 [H3 H4]]]. pose proof S as [_ [_ [R _]]]. split; [|split; [|split]].
    - eapply slot_ok_frame; eauto. - eapply dyn_ok_frame; eauto. - eapply static_ok_frame; eauto.
    - eapply shape_ok_frame; eauto.
  Qed.
  Lemma only_handles_refl : forall a, only_handles a a.
  Proof. intros a; split; [apply same_static_refl | split; auto]. Qed.
  Lemma only_handles_trans : forall a b c, only_handles a b -> only_handles b c -> only_handles a c.
  Proof.
    intros a b c [A1 [A2 A3]] [B1 [B2 B3]]. split; [eapply same_static_trans; eauto|]. split; intros; [rewrite B2; apply A2 | rewrite B3; apply A3].
  Qed.
  Lemma only_handles_log : forall a e, only_handles a (add_log a e).
  Proof. intros a e; split; [repeat split; auto | split; auto]. Qed.
  Lemma only_handles_set : forall a i h h', handles a i = Some h -> h_file h' = h_file h -> h_open h' = h_open h ->
    only_handles a (set_handle a i h').
  Proof.
    intros a i h h' Hh Hf Ho. split; [|split; auto]. repeat split; auto. intros j. cbn.
    destruct (Nat.eqb i j) eqn:E; [|reflexivity]. apply Nat.eqb_eq in E; subst j. rewrite Hh. cbn. unfold hstat. congruence.
  Qed.

  Lemma raw_read_ok : forall st rid r off len st' b, cache_sound st -> opened st rid r -> RAW st rid off len = (st', b) ->
    b = RR (r_file r) off len /\ only_handles st st'.
  Proof.
    intros st rid r off len st' b CS Op E. destruct (opened_handle _ _ _ CS Op) as [h [Hh [Ho [Hf _]]]].
    destruct Op as [Hr _]. unfold raw_read in E. rewrite Hr, Hh in E.
    destruct (rrf_spec h off len Ho) as [h' [E1 [F1 O1]]]. rewrite E1 in E. inversion E; subst. split; [congruence|].
    eapply only_handles_set; eauto; congruence.
  Qed.

  Lemma same_static_set_slot : forall st m l, same_static st (set_slot st m l).
  Proof. intros; repeat split; auto. Qed.
  Lemma same_static_set_dyn : forall st i d, same_static st (set_dyn st i d).
  Proof. intros; repeat split; auto. Qed.
  Lemma sound_set_slot : forall st m l, cache_sound st ->
    (forall key v, In (key, v) l -> exists r, readers st (fst key) = Some r /\ PLD (r_file r) m (snd key) = Return v) ->
    lru_shape skey value (maxsize_of m) l -> cache_sound (set_slot st m l).
  Proof.
    intros st m l [H1 [H2 [H3 [H4 H5]]]] Hl Hs. split; [|split; [|split]].
    - intros m' key v I. cbn in I. destruct (String.eqb m m') eqn:E; [apply String.eqb_eq in E; subst m'; exact (Hl _ _ I) | exact (H1 _ _ _ I)].
    - eapply dyn_ok_frame; [| |exact H2]; auto.
    - eapply static_ok_frame; [apply same_static_set_slot | exact H3].
    - split; [|exact H5]. intros m'. cbn. destruct (String.eqb m m') eqn:E; [apply String.eqb_eq in E; subst m'; exact Hs | apply H4].
  Qed.

  (* ---- a class-level cached loader method *)
  Lemma prim_loader_ok : forall st rid r m args st' res, cache_sound st -> opened st rid r -> PRL st rid m args = (st', res) ->
    res = PLD (r_file r) m args /\ cache_sound st' /\ same_static st st' /\ (forall i, dyn st' i = dyn st i).
  Proof.
    intros st rid r m args st' res CS Op E. destruct (opened_handle _ _ _ CS Op) as [h [Hh [Ho [Hf Hv]]]].
    pose proof Op as [Hr _]. unfold prim_loader in E. rewrite Hr in E.
    destruct (lru_find skey_eqb (rid, args) (slots st m)) as [v|] eqn:F.
    - inversion E; subst st' res; clear E.
      pose proof (lru_find_In _ _ _ skey_eqb_eq _ _ _ F) as I.
      pose proof CS as [S1 [_ [_ [S4 _]]]]. pose proof (S1 _ _ _ I) as [r0 [R0 P0]]. cbn in R0, P0.
      rewrite Hr in R0; inversion R0; subst r0.
      split; [auto|]. split; [|split; [repeat split; auto | auto]].
      apply (only_handles_sound (set_slot st m (lru_hit skey_eqb (rid, args) v (slots st m)))); [apply only_handles_log|].
      apply sound_set_slot; [exact CS| |].
      + intros key v0 I0. apply (lru_hit_In _ _ skey_eqb) in I0. destruct I0 as [X|X]; [inversion X; subst; exists r; auto | eapply S1; eauto].
      + apply lru_hit_shape; [apply skey_eqb_eq | apply S4 | exact F].
    - rewrite Hh in E.
      assert (Hv' : vol_ok (h_file h) (r_vol r)) by (rewrite Hf; exact Hv).
      assert (B : IND (h_file h) (lbody (r_file r) m args)) by (rewrite Hf; apply bodies_in_data).
      destruct (exec_l_spec _ _ h Ho Hv' B) as [h' [E1 [F1 O1]]]. rewrite E1 in E. rewrite Hf in E.
      fold (PLD (r_file r) m args) in E.
      set (st1 := add_log (set_handle st (r_handle r) h') (L_loader, false)) in *.
      assert (OH : only_handles st st1).
      { eapply only_handles_trans; [eapply only_handles_set; eauto; congruence | apply only_handles_log]. }
      pose proof (only_handles_sound _ _ OH CS) as CS1. pose proof OH as [SS1 [SL1 D1]].
      destruct (PLD (r_file r) m args) as [v|e] eqn:P; inversion E; subst st' res; clear E.
      + split; [reflexivity|]. split; [|split; [eapply same_static_trans; [exact SS1 | apply same_static_set_slot] | exact D1]].
        pose proof CS1 as [S1 [_ [_ [S4 _]]]].
        apply sound_set_slot; [exact CS1| |].
        * intros key v0 I0. apply lru_miss_In in I0. destruct I0 as [X|X]; [|eapply S1; eauto].
          inversion X; subst. exists r. cbn. split; [exact Hr | exact P].
        * apply (lru_miss_shape _ _ skey_eqb skey_eqb_eq); [apply S4 | first [exact F | rewrite SL1; exact F]].
      + split; [reflexivity|]. split; [exact CS1|]. split; [exact SS1 | exact D1].
  Qed.

  Lemma exec_c_ok : forall p st rid r st' res, cache_sound st -> opened st rid r -> XC st rid p = (st', res) ->
    res = PC (r_file r) p /\ cache_sound st' /\ same_static st st' /\ (forall i, dyn st' i = dyn st i).
  Proof.
    induction p as [r0|m args k IH]; intros st rid r st' res CS Op E; cbn in E |- *.
    - inversion E; subst. split; [reflexivity|]. split; [assumption|]. split; [apply same_static_refl | auto].
    - destruct (PRL st rid m args) as [st1 v] eqn:E1.
      destruct (prim_loader_ok _ _ _ _ _ _ _ CS Op E1) as [Rv [CS1 [SS1 D1]]]. subst v.
      destruct (IH _ _ _ _ _ _ CS1 (opened_static _ _ _ _ Op SS1) E) as [R2 [CS2 [SS2 D2]]].
      split; [exact R2|]. split; [exact CS2|]. split; [eapply same_static_trans; eauto | intros i; rewrite D2; apply D1].
  Qed.

  (* ---- the per-reader state *)
  Definition dyn_good (f cap : nat) (d : rdyn value) : Prop :=
    (forall key v, In (key, v) (d_chunks d) -> PCH f key = Return v) /\
    (forall m, d_mask d = Some m -> PM f = Return m) /\
    (forall k v, In (k, v) (d_vh d) -> exists b, d_ipad d = Some b /\ HV f b k = Return v) /\
    lru_shape (list Z) value cap (d_chunks d).
  Lemma sound_dyn_good : forall st rid r, cache_sound st -> readers st rid = Some r -> dyn_good (r_file r) (r_cap r) (dyn st rid).
  Proof.
    intros st rid r [_ [H2 [_ [_ H5]]]] Hr. destruct (H2 _ _ Hr) as [A [B C]]. repeat split; auto; apply (H5 _ _ Hr).
  Qed.
  Lemma sound_set_dyn : forall st rid r d, cache_sound st -> readers st rid = Some r -> dyn_good (r_file r) (r_cap r) d ->
    cache_sound (set_dyn st rid d).
  Proof.
    intros st rid r d [H1 [H2 [H3 [H4 H5]]]] Hr [G1 [G2 [G3 G4]]]. split; [|split; [|split]].
    - eapply slot_ok_frame; [| |exact H1]; auto.
    - intros rid' r' Hr'. cbn in Hr' |- *. destruct (Nat.eqb rid rid') eqn:E.
      + apply Nat.eqb_eq in E; subst rid'. rewrite Hr in Hr'; inversion Hr'; subst r'. auto.
      + exact (H2 _ _ Hr').
    - eapply static_ok_frame; [apply same_static_set_dyn | exact H3].
    - split; [exact H4|]. intros rid' r' Hr'. cbn in Hr' |- *. destruct (Nat.eqb rid rid') eqn:E.
      + apply Nat.eqb_eq in E; subst rid'. rewrite Hr in Hr'; inversion Hr'; subst r'. exact G4.
      + exact (H5 _ _ Hr').
  Qed.

  (* ---- the reader's own chunk cache *)
  Lemma prim_chunk_ok : forall st rid r key st' res, cache_sound st -> opened st rid r -> PRC st rid key = (st', res) ->
    res = PCH (r_file r) key /\ cache_sound st' /\ same_static st st'.
  Proof.
    intros st rid r key st' res CS Op E. pose proof Op as [Hr _]. unfold prim_chunk in E. rewrite Hr in E.
    pose proof (sound_dyn_good _ _ _ CS Hr) as [G1 [G2 [G3 G4]]].
    destruct (lru_find zlist_eqb key (d_chunks (dyn st rid))) as [v|] eqn:F.
    - inversion E; subst st' res; clear E.
      pose proof (lru_find_In _ _ _ zlist_eqb_eq _ _ _ F) as I. split; [symmetry; exact (G1 _ _ I)|].
      split; [|repeat split; auto].
      eapply only_handles_sound; [apply only_handles_log|]. eapply sound_set_dyn; [exact CS | exact Hr|].
      split; [|split; [exact G2 | split; [exact G3|]]]; cbn.
      + intros k0 v0 I0. apply (lru_hit_In _ _ zlist_eqb) in I0. destruct I0 as [X|X]; [inversion X; subst; auto | eauto].
      + apply lru_hit_shape; [apply zlist_eqb_eq | exact G4 | exact F].
    - destruct (XC (add_log st (L_chunk, false)) rid (chunk_body (r_file r) key)) as [st1 res1] eqn:E1.
      pose proof (only_handles_log st (L_chunk, false)) as OH. pose proof OH as [SS0 [_ D0]].
      destruct (exec_c_ok _ _ _ _ _ _ (only_handles_sound _ _ OH CS) (opened_static _ _ _ _ Op SS0) E1) as [R1 [CS1 [SS1 D1]]].
      fold (PCH (r_file r) key) in R1. subst res1.
      assert (SS : same_static st st1) by exact (same_static_trans _ _ _ SS0 SS1).
      assert (Hr1 : readers st1 rid = Some r) by (destruct SS as [_ [_ [X _]]]; rewrite X; exact Hr).
      assert (Dr : dyn st1 rid = dyn st rid) by (rewrite D1; apply D0).
      destruct (PCH (r_file r) key) as [v|e] eqn:P; inversion E; subst st' res; clear E.
      + split; [reflexivity|]. split; [|eapply same_static_trans; [exact SS | apply same_static_set_dyn]].
        eapply sound_set_dyn; [exact CS1 | exact Hr1|]. rewrite Dr.
        split; [|split; [exact G2 | split; [exact G3|]]]; cbn.
        * intros k0 v0 I0. apply lru_miss_In in I0. destruct I0 as [X|X]; [inversion X; subst; auto | eauto].
        * apply (lru_miss_shape _ _ zlist_eqb zlist_eqb_eq); [exact G4 | exact F].
      + split; [reflexivity|]. split; [exact CS1 | exact SS].
  Qed.

  (* ---- the lazy mask *)
  Lemma prim_mask_ok : forall st rid r st' res, cache_sound st -> opened st rid r -> PRM st rid = (st', res) ->
    res = PM (r_file r) /\ cache_sound st' /\ same_static st st' /\
    (forall i, d_vh (dyn st' i) = d_vh (dyn st i) /\ d_ipad (dyn st' i) = d_ipad (dyn st i)).
  Proof.
    intros st rid r st' res CS Op E. pose proof Op as [Hr _]. unfold prim_mask in E. rewrite Hr in E.
    pose proof (sound_dyn_good _ _ _ CS Hr) as [G1 [G2 [G3 G4]]].
    destruct (d_mask (dyn st rid)) as [m|] eqn:F.
    - inversion E; subst st' res; clear E. split; [symmetry; auto|]. split; [|split; [repeat split; auto | auto]].
      eapply only_handles_sound; [apply only_handles_log | exact CS].
    - destruct (RAW (add_log st (L_mask, false)) rid (mask_off (r_file r)) (hel (r_file r))) as [st1 b] eqn:E1.
      pose proof (only_handles_log st (L_mask, false)) as OH. pose proof OH as [SS0 [_ D0]].
      destruct (raw_read_ok _ _ _ _ _ _ _ (only_handles_sound _ _ OH CS) (opened_static _ _ _ _ Op SS0) E1) as [R1 OH1].
      pose proof (only_handles_trans _ _ _ OH OH1) as OH2. pose proof OH2 as [SS [_ D]].
      pose proof (only_handles_sound _ _ OH2 CS) as CS1.
      assert (Hr1 : readers st1 rid = Some r) by (destruct SS as [_ [_ [X _]]]; rewrite X; exact Hr).
      unfold pure_mask. rewrite <- R1.
      destruct b as [bytes|e]; inversion E; subst st' res; clear E; cbn.
      + split; [reflexivity|]. split; [|split; [eapply same_static_trans; [exact SS | apply same_static_set_dyn]|]].
        * eapply sound_set_dyn; [exact CS1 | exact Hr1|]. rewrite D.
          split; [exact G1 | split; [|split; [exact G3 | exact G4]]]; cbn.
          intros m Hm. inversion Hm; subst m. unfold pure_mask. rewrite <- R1. reflexivity.
        * intros i. destruct (Nat.eqb rid i) eqn:Ei; [apply Nat.eqb_eq in Ei; subst i|]; cbn; rewrite D; auto.
      + split; [reflexivity|]. split; [exact CS1|]. split; [exact SS | intros i; rewrite D; auto].
  Qed.

  (* ---- footer arrays *)
  Lemma vh_find_In : forall k (l : list (Z * value)) v, vh_find k l = Some v -> In (k, v) l.
  Proof.
    intros k l; induction l as [|[k' v'] t IH]; cbn; intros v H; [discriminate|].
    destruct (Z.eqb k k') eqn:E; [apply Z.eqb_eq in E; subst; inversion H; now left | right; auto].
  Qed.
  Lemma tlookup_In : forall t k o, tlookup t k = Some o -> In k (map fst t).
  Proof.
    induction t as [|[k' o'] t IH]; cbn; intros k o H; [discriminate|].
    destruct (Z.eqb k k') eqn:E; [apply Z.eqb_eq in E; left; auto | right; eauto].
  Qed.

  Lemma read_hdr_ok : forall st rid r k off post b0 st' res, cache_sound st -> opened st rid r ->
    d_ipad (dyn st rid) = Some b0 ->
    (forall bytes, RR (r_file r) off (hel (r_file r)) = Return bytes -> HV (r_file r) b0 k = Return (post (decode_hdr bytes))) ->
    RH st rid k off post = (st', res) ->
    res = bind (RR (r_file r) off (hel (r_file r))) (fun _ => Return tt) /\ cache_sound st' /\ same_static st st' /\
    d_ipad (dyn st' rid) = Some b0 /\
    (res = Return tt -> vh_find k (d_vh (dyn st' rid)) <> None) /\
    (forall k', vh_find k' (d_vh (dyn st rid)) <> None -> vh_find k' (d_vh (dyn st' rid)) <> None).
  Proof.
    intros st rid r k off post b0 st' res CS Op Hip Hpost E. pose proof Op as [Hr _]. unfold read_hdr in E. rewrite Hr in E.
    destruct (RAW (add_log st (L_hdr, false)) rid off (hel (r_file r))) as [st1 b] eqn:E1.
    pose proof (only_handles_log st (L_hdr, false)) as OH. pose proof OH as [SS0 [_ D0]].
    destruct (raw_read_ok _ _ _ _ _ _ _ (only_handles_sound _ _ OH CS) (opened_static _ _ _ _ Op SS0) E1) as [R1 OH1].
    pose proof (only_handles_trans _ _ _ OH OH1) as OH2. pose proof OH2 as [SS [_ D]].
    pose proof (only_handles_sound _ _ OH2 CS) as CS1.
    assert (Hr1 : readers st1 rid = Some r) by (destruct SS as [_ [_ [X _]]]; rewrite X; exact Hr).
    pose proof (sound_dyn_good _ _ _ CS Hr) as [G1 [G2 [G3 G4]]].
    rewrite <- R1.
    destruct b as [bytes|e]; inversion E; subst st' res; clear E; cbn.
    - split; [reflexivity|]. split; [|split; [eapply same_static_trans; [exact SS | apply same_static_set_dyn]|]].
      + eapply sound_set_dyn; [exact CS1 | exact Hr1|]. rewrite D.
        split; [exact G1 | split; [exact G2 | split; [|exact G4]]]; cbn.
        intros k0 v0 [X|X].
        * inversion X; subst. exists b0. split; [exact Hip | apply Hpost; symmetry; exact R1].
        * exact (G3 _ _ X).
      + rewrite Nat.eqb_refl. cbn. rewrite D. split; [exact Hip|]. split.
        * intros _. rewrite Z.eqb_refl. discriminate.
        * intros k' Hk. destruct (Z.eqb k' k); [discriminate | exact Hk].
    - split; [reflexivity|]. split; [exact CS1|]. split; [exact SS|]. rewrite D. split; [exact Hip|]. split; [discriminate | auto].
  Qed.

  Lemma HV_stored : forall f b k v, HV f b k = Return v -> exists off, tlookup (template f) k = Some (Some off).
  Proof.
    intros f b k v H. unfold hdr_value in H. destruct (tlookup (template f) k) as [[off|]|]; try discriminate. eauto.
  Qed.

  Lemma load_field_ok : forall st rid r b k st' res, cache_sound st -> opened st rid r -> d_ipad (dyn st rid) = Some b ->
    LF st rid b k = (st', res) ->
    res = FO (r_file r) b k /\ cache_sound st' /\ same_static st st' /\ d_ipad (dyn st' rid) = Some b /\
    (res = Return tt -> forall off, tlookup (template (r_file r)) k = Some (Some off) -> vh_find k (d_vh (dyn st' rid)) <> None) /\
    (forall k', vh_find k' (d_vh (dyn st rid)) <> None -> vh_find k' (d_vh (dyn st' rid)) <> None).
  Proof.
    intros st rid r b k st' res CS Op Hip E. pose proof Op as [Hr _]. unfold load_field in E. rewrite Hr in E.
    pose proof (sound_dyn_good _ _ _ CS Hr) as [G1 [G2 [G3 G4]]].
    unfold field_outcome.
    destruct (vh_find k (d_vh (dyn st rid))) as [v|] eqn:F.
    - inversion E; subst st' res; clear E. pose proof (vh_find_In _ _ _ F) as FI. destruct (G3 _ _ FI) as [b' [Hb' Hv]].
      rewrite Hip in Hb'; inversion Hb'; subst b'. destruct (HV_stored _ _ _ _ Hv) as [off Ht]. rewrite Ht, Hv. cbn.
      split; [reflexivity|]. split; [exact CS|]. split; [apply same_static_refl|]. split; [exact Hip|]. split; [|auto].
      intros _ off' _. rewrite F. discriminate.
    - destruct (tlookup (template (r_file r)) k) as [[off|]|] eqn:T.
      + unfold hdr_value. rewrite T. destruct (UM (r_file r) b) eqn:U.
        * destruct (PRM st rid) as [st1 mres] eqn:E1.
          destruct (prim_mask_ok _ _ _ _ _ CS Op E1) as [R1 [CS1 [SS1 D1]]]. rewrite <- R1.
          destruct mres as [m|e].
          -- assert (Hip1 : d_ipad (dyn st1 rid) = Some b) by (rewrite (proj2 (D1 rid)); exact Hip).
             assert (Hpost : forall bytes, RR (r_file r) off (hel (r_file r)) = Return bytes ->
                       HV (r_file r) b k = Return (apply_mask m (decode_hdr bytes))).
             { intros bytes Hb. unfold hdr_value. rewrite T, U, <- R1. cbn. rewrite Hb. reflexivity. }
             destruct (read_hdr_ok _ _ _ _ _ _ _ _ _ CS1 (opened_static _ _ _ _ Op SS1) Hip1 Hpost E) as [R2 [CS2 [SS2 [I2 [F2 M2]]]]].
             split; [rewrite R2; cbn; destruct (RR (r_file r) off (hel (r_file r))); reflexivity|].
             split; [exact CS2|]. split; [exact (same_static_trans _ _ _ SS1 SS2)|]. split; [exact I2|]. split; [intros X _ _; exact (F2 X)|].
             intros k' Hk. apply M2. rewrite (proj1 (D1 rid)). exact Hk.
          -- inversion E; subst st' res; clear E. cbn. split; [reflexivity|]. split; [exact CS1|]. split; [exact SS1|].
             split; [rewrite (proj2 (D1 rid)); exact Hip|]. split; [discriminate|]. intros k' Hk. rewrite (proj1 (D1 rid)). exact Hk.
        * assert (Hpost : forall bytes, RR (r_file r) off (hel (r_file r)) = Return bytes ->
                    HV (r_file r) b k = Return ((fun v => v) (decode_hdr bytes))).
          { intros bytes Hb. unfold hdr_value. rewrite T, U. cbn. rewrite Hb. reflexivity. }
          destruct (read_hdr_ok _ _ _ _ _ _ _ _ _ CS Op Hip Hpost E) as [R2 [CS2 [SS2 [I2 [F2 M2]]]]].
          split; [rewrite R2; cbn; destruct (RR (r_file r) off (hel (r_file r))); reflexivity|].
          split; [exact CS2|]. split; [exact SS2|]. split; [exact I2|]. split; [intros X _ _; exact (F2 X) | exact M2].
      + inversion E; subst st' res; clear E. split; [reflexivity|]. split; [exact CS|]. split; [apply same_static_refl|].
        split; [exact Hip|]. split; [intros _ off X; discriminate | auto].
      + inversion E; subst st' res; clear E. split; [reflexivity|]. split; [exact CS|]. split; [apply same_static_refl|].
        split; [exact Hip|]. split; [discriminate | auto].
  Qed.

  Lemma load_fields_ok : forall ks st rid r b st' res, cache_sound st -> opened st rid r -> d_ipad (dyn st rid) = Some b ->
    LFS st rid b ks = (st', res) ->
    res = FOS (r_file r) b ks /\ cache_sound st' /\ same_static st st' /\ d_ipad (dyn st' rid) = Some b /\
    (res = Return tt -> forall k off, In k ks -> tlookup (template (r_file r)) k = Some (Some off) ->
       vh_find k (d_vh (dyn st' rid)) <> None) /\
    (forall k', vh_find k' (d_vh (dyn st rid)) <> None -> vh_find k' (d_vh (dyn st' rid)) <> None).
  Proof.
    induction ks as [|k t IH]; intros st rid r b st' res CS Op Hip E; cbn in E |- *.
    - inversion E; subst. split; [reflexivity|]. split; [exact CS|]. split; [apply same_static_refl|]. split; [exact Hip|].
      split; [intros _ k off []|auto].
    - destruct (LF st rid b k) as [st1 r1] eqn:E1.
      destruct (load_field_ok _ _ _ _ _ _ _ CS Op Hip E1) as [R1 [CS1 [SS1 [I1 [F1 M1]]]]]. rewrite <- R1.
      destruct r1 as [u|e].
      + destruct u. destruct (IH _ _ _ _ _ _ CS1 (opened_static _ _ _ _ Op SS1) I1 E) as [R2 [CS2 [SS2 [I2 [F2 M2]]]]].
        cbn. split; [exact R2|]. split; [exact CS2|]. split; [exact (same_static_trans _ _ _ SS1 SS2)|]. split; [exact I2|].
        split; [|intros k' Hk; apply M2, M1, Hk].
        intros X k' off [Hk|Hk] T; [subst k'; apply M2; exact (F1 eq_refl _ T) | exact (F2 X _ _ Hk T)].
      + inversion E; subst st' res; clear E. cbn. split; [reflexivity|]. split; [exact CS1|]. split; [exact SS1|]. split; [exact I1|].
        split; [discriminate | exact M1].
  Qed.

  (* the two padding modes give the same array on structured files (no mask is applied) *)
  Definition meq (f : nat) (b pad : bool) : Prop := structured f = true \/ b = pad.
  Lemma HV_meq : forall f b pad k, meq f b pad -> HV f b k = HV f pad k.
  Proof.
    intros f b pad k [H|H]; [|subst; reflexivity]. unfold hdr_value, use_mask. rewrite H. cbn.
    rewrite !andb_false_r. reflexivity.
  Qed.
  Lemma FOS_meq : forall f b pad ks, meq f b pad -> FOS f b ks = FOS f pad ks.
  Proof.
    intros f b pad ks H. induction ks as [|k t IH]; cbn; [reflexivity|]. unfold field_outcome.
    rewrite (HV_meq f b pad k H), IH. reflexivity.
  Qed.

  Lemma rvh_ok : forall st rid r pad fields st' res, cache_sound st -> opened st rid r -> RVH st rid pad fields = (st', res) ->
    cache_sound st' /\ same_static st st' /\
    ((structured (r_file r) = true \/ d_ipad (dyn st rid) = None \/ d_ipad (dyn st rid) = Some pad) ->
      res = FOS (r_file r) pad (FL (r_file r) fields) /\
      exists b, d_ipad (dyn st' rid) = Some b /\ meq (r_file r) b pad /\
        (res = Return tt -> forall k off, In k (FL (r_file r) fields) -> tlookup (template (r_file r)) k = Some (Some off) ->
           vh_find k (d_vh (dyn st' rid)) <> None)).
  Proof.
    intros st rid r pad fields st' res CS Op E. pose proof Op as [Hr _]. unfold rvh in E. rewrite Hr in E.
    pose proof (sound_dyn_good _ _ _ CS Hr) as [G1 [G2 [G3 G4]]].
    set (b := match d_ipad (dyn st rid) with Some b => b | None => pad end) in *.
    set (st0 := set_dyn st rid (set_vh (dyn st rid) (d_vh (dyn st rid)) (Some b))) in *.
    assert (CS0 : cache_sound st0).
    { eapply sound_set_dyn; [exact CS | exact Hr|]. split; [exact G1 | split; [exact G2 | split; [|exact G4]]]; cbn.
      intros k v I. destruct (G3 _ _ I) as [b' [Hb' Hv]]. exists b. split; [reflexivity|]. unfold b. rewrite Hb'. exact Hv. }
    pose proof (same_static_set_dyn st rid (set_vh (dyn st rid) (d_vh (dyn st rid)) (Some b))) as SS0. fold st0 in SS0.
    assert (Hip0 : d_ipad (dyn st0 rid) = Some b) by (cbn; rewrite Nat.eqb_refl; reflexivity).
    destruct (negb (structured (r_file r)) && negb (Bool.eqb b pad)) eqn:C.
    - inversion E; subst st' res; clear E. split; [exact CS0|]. split; [exact SS0|]. intros Compat. exfalso.
      apply andb_true_iff in C. destruct C as [C1 C2]. apply negb_true_iff in C1, C2.
      destruct Compat as [X|[X|X]]; [congruence | |]; unfold b in C2; rewrite X in C2; rewrite eqb_reflx in C2; discriminate.
    - destruct (load_fields_ok _ _ _ _ _ _ _ CS0 (opened_static _ _ _ _ Op SS0) Hip0 E) as [R1 [CS1 [SS1 [I1 [F1 M1]]]]].
      assert (ME : meq (r_file r) b pad).
      { apply andb_false_iff in C. destruct C as [C|C]; apply negb_false_iff in C; [left; exact C | right; apply eqb_prop; exact C]. }
      split; [exact CS1|]. split; [exact (same_static_trans _ _ _ SS0 SS1)|]. intros _.
      split; [rewrite R1; apply FOS_meq; exact ME|]. exists b. split; [exact I1|]. split; [exact ME | exact F1].
  Qed.

  (* ---- the D18 repair *)
  Notation LVH := (load_vh value file_bytes is2d structured template hel mask_off decode_hdr decode_mask apply_mask true).
  Notation PH := (prim_header value file_bytes is2d structured template hel mask_off decode_hdr decode_mask apply_mask true).
  Lemma load_vh_ok : forall st rid r pad fields st' res, cache_sound st -> opened st rid r -> LVH st rid pad fields = (st', res) ->
    cache_sound st' /\ same_static st st' /\ res = FOS (r_file r) pad (FL (r_file r) fields) /\
    exists b, d_ipad (dyn st' rid) = Some b /\ meq (r_file r) b pad /\
      (res = Return tt -> forall k off, In k (FL (r_file r) fields) -> tlookup (template (r_file r)) k = Some (Some off) ->
         vh_find k (d_vh (dyn st' rid)) <> None).
  Proof.
    intros st rid r pad fields st' res CS Op E. pose proof Op as [Hr _]. unfold load_vh in E. rewrite Hr in E. cbn in E.
    pose proof (sound_dyn_good _ _ _ CS Hr) as [G1 [G2 [G3 G4]]].
    destruct (structured (r_file r)) eqn:S; cbn in E.
    - destruct (rvh_ok _ _ _ _ _ _ _ CS Op E) as [CS1 [SS1 K]]. destruct (K (or_introl S)) as [R [b X]]. eauto 10.
    - destruct (d_ipad (dyn st rid)) as [b0|] eqn:I.
      + destruct (Bool.eqb b0 pad) eqn:Q; cbn in E.
        * apply eqb_prop in Q; subst b0.
          destruct (rvh_ok _ _ _ _ _ _ _ CS Op E) as [CS1 [SS1 K]]. destruct (K (or_intror (or_intror I))) as [R [b X]]. eauto 10.
        * set (st0 := set_dyn st rid (set_vh (dyn st rid) [] None)) in *.
          assert (CS0 : cache_sound st0).
          { eapply sound_set_dyn; [exact CS | exact Hr|]. split; [exact G1 | split; [exact G2 | split; [|exact G4]]]; cbn. intros k v []. }
          pose proof (same_static_set_dyn st rid (set_vh (dyn st rid) [] None)) as SS0. fold st0 in SS0.
          assert (Hip0 : d_ipad (dyn st0 rid) = None) by (cbn; rewrite Nat.eqb_refl; reflexivity).
          destruct (rvh_ok _ _ _ _ _ _ _ CS0 (opened_static _ _ _ _ Op SS0) E) as [CS1 [SS1 K]].
          destruct (K (or_intror (or_introl Hip0))) as [R [b X]].
          split; [exact CS1|]. split; [exact (same_static_trans _ _ _ SS0 SS1)|]. eauto.
      + cbn in E. destruct (rvh_ok _ _ _ _ _ _ _ CS Op E) as [CS1 [SS1 K]]. destruct (K (or_intror (or_introl I))) as [R [b X]]. eauto 10.
  Qed.

  Lemma prim_header_ok : forall st rid r pad fields field st' res, cache_sound st -> opened st rid r ->
    (forall off, tlookup (template (r_file r)) field = Some (Some off) -> In field (FL (r_file r) fields)) ->
    PH st rid pad fields field = (st', res) ->
    res = PHD (r_file r) pad fields field /\ cache_sound st' /\ same_static st st'.
  Proof.
    intros st rid r pad fields field st' res CS Op Hin E. pose proof Op as [Hr _]. unfold prim_header in E.
    destruct (LVH st rid pad fields) as [st1 r1] eqn:E1.
    destruct (load_vh_ok _ _ _ _ _ _ _ CS Op E1) as [CS1 [SS1 [R1 [b [I1 [ME F1]]]]]].
    unfold pure_header. rewrite <- R1.
    destruct r1 as [u|e]; inversion E; subst st' res; clear E; cbn; (split; [|split; [exact CS1 | exact SS1]]); [|reflexivity].
    destruct u.
    assert (Hr1 : readers st1 rid = Some r) by (destruct SS1 as [_ [_ [X _]]]; rewrite X; exact Hr).
    pose proof (sound_dyn_good _ _ _ CS1 Hr1) as [_ [_ [G3 _]]].
    destruct (vh_find field (d_vh (dyn st1 rid))) as [v|] eqn:F.
    - apply vh_find_In in F. destruct (G3 _ _ F) as [b' [Hb' Hv]]. rewrite I1 in Hb'; inversion Hb'; subst b'.
      rewrite <- (HV_meq _ _ _ _ ME). symmetry; exact Hv.
    - unfold hdr_value. destruct (tlookup (template (r_file r)) field) as [[off|]|] eqn:T; try reflexivity.
      exfalso. exact (F1 eq_refl _ _ (Hin _ eq_refl) T F).
  Qed.

  (* ---- every public read method: the cached execution returns what the memory-less execution returns *)
  Notation XR := (exec_r value file_bytes data_start is2d structured template hel mask_off decode_hdr decode_mask apply_mask true
                         lbody chunk_body).
  Lemma exec_r_ok : forall p st rid r st' res, cache_sound st -> opened st rid r -> XR st rid p = (st', res) ->
    res = PR (r_file r) p /\ cache_sound st' /\ same_static st st'.
  Proof.
    induction p as [r0|m args k IH|key k IH|k IH|pad fld k IH|pad fld k IH|off len k IH];
      intros st rid r st' res CS Op E; cbn in E |- *.
    - inversion E; subst. split; [reflexivity|]. split; [assumption | apply same_static_refl].
    - destruct (PRL st rid m args) as [st1 v] eqn:E1.
      destruct (prim_loader_ok _ _ _ _ _ _ _ CS Op E1) as [Rv [CS1 [SS1 _]]]. subst v.
      destruct (IH _ _ _ _ _ _ CS1 (opened_static _ _ _ _ Op SS1) E) as [R2 [CS2 SS2]].
      split; [exact R2|]. split; [exact CS2 | exact (same_static_trans _ _ _ SS1 SS2)].
    - destruct (PRC st rid key) as [st1 v] eqn:E1.
      destruct (prim_chunk_ok _ _ _ _ _ _ CS Op E1) as [Rv [CS1 SS1]]. subst v.
      destruct (IH _ _ _ _ _ _ CS1 (opened_static _ _ _ _ Op SS1) E) as [R2 [CS2 SS2]].
      split; [exact R2|]. split; [exact CS2 | exact (same_static_trans _ _ _ SS1 SS2)].
    - destruct (PRM st rid) as [st1 v] eqn:E1.
      destruct (prim_mask_ok _ _ _ _ _ CS Op E1) as [Rv [CS1 [SS1 _]]]. subst v.
      destruct (IH _ _ _ _ _ _ CS1 (opened_static _ _ _ _ Op SS1) E) as [R2 [CS2 SS2]].
      split; [exact R2|]. split; [exact CS2 | exact (same_static_trans _ _ _ SS1 SS2)].
    - destruct (PH st rid pad (Some [fld]) fld) as [st1 v] eqn:E1.
      assert (Hin : forall off, tlookup (template (r_file r)) fld = Some (Some off) -> In fld (FL (r_file r) (Some [fld])))
        by (intros; cbn; auto).
      destruct (prim_header_ok _ _ _ _ _ _ _ _ CS Op Hin E1) as [Rv [CS1 SS1]]. subst v.
      destruct (IH _ _ _ _ _ _ CS1 (opened_static _ _ _ _ Op SS1) E) as [R2 [CS2 SS2]].
      split; [exact R2|]. split; [exact CS2 | exact (same_static_trans _ _ _ SS1 SS2)].
    - destruct (PH st rid pad None fld) as [st1 v] eqn:E1.
      assert (Hin : forall off, tlookup (template (r_file r)) fld = Some (Some off) -> In fld (FL (r_file r) None))
        by (intros off T; cbn; eapply tlookup_In; eauto).
      destruct (prim_header_ok _ _ _ _ _ _ _ _ CS Op Hin E1) as [Rv [CS1 SS1]]. subst v.
      destruct (IH _ _ _ _ _ _ CS1 (opened_static _ _ _ _ Op SS1) E) as [R2 [CS2 SS2]].
      split; [exact R2|]. split; [exact CS2 | exact (same_static_trans _ _ _ SS1 SS2)].
    - destruct (RAW (add_log st (L_raw, false)) rid off len) as [st1 b] eqn:E1.
      pose proof (only_handles_log st (L_raw, false)) as OH. pose proof OH as [SS0 _].
      destruct (raw_read_ok _ _ _ _ _ _ _ (only_handles_sound _ _ OH CS) (opened_static _ _ _ _ Op SS0) E1) as [Rb OH1].
      pose proof (only_handles_trans _ _ _ OH OH1) as OH2. pose proof OH2 as [SS1 _]. subst b.
      destruct (IH _ _ _ _ _ _ (only_handles_sound _ _ OH2 CS) (opened_static _ _ _ _ Op SS1) E) as [R2 [CS2 SS2]].
      split; [exact R2|]. split; [exact CS2 | exact (same_static_trans _ _ _ SS1 SS2)].
  Qed.

  (* ---------------------------------------------------------------------------------------------- 4. the machine *)
  Notation STEP := (step value file_bytes data_start data_len is2d structured template hel mask_off default_cap decode_hdr
                         decode_mask apply_mask true lbody chunk_body query method_prog).
  Notation RUN := (run value file_bytes data_start data_len is2d structured template hel mask_off default_cap decode_hdr
                       decode_mask apply_mask true lbody chunk_body query method_prog).
  Notation SSTEP := (spec_step value file_bytes data_start data_len is2d structured template hel mask_off decode_hdr
                               decode_mask apply_mask lbody chunk_body query method_prog).
  Notation SRUN := (spec_run value file_bytes data_start data_len is2d structured template hel mask_off decode_hdr
                             decode_mask apply_mask lbody chunk_body query method_prog).

  Definition sim (st : rstate value) (s : sstate) : Prop :=
    nreaders st = s_n s /\ nhandles st = s_nh s /\
    (forall i, option_map (fun r => (r_file r, r_handle r)) (readers st i) = s_reader s i) /\
    (forall i, option_map h_open (handles st i) = s_open s i).
  Lemma sim_static : forall a b s, sim a s -> same_static a b -> sim b s.
  Proof.
    intros a b s [A1 [A2 [A3 A4]]] [S1 [S2 [S3 S4]]]. split; [congruence|]. split; [congruence|]. split.
    - intros i. rewrite S3. apply A3.
    - intros i. rewrite <- A4. specialize (S4 i). destruct (handles b i), (handles a i); cbn in *; try discriminate; auto.
      unfold hstat in S4. inversion S4. congruence.
  Qed.
  Lemma sim_is_open : forall st s rid, sim st s ->
    match is_open st rid with
    | Some r => s_is_open s rid = Some (r_file r) /\ opened st rid r /\ s_reader s rid = Some (r_file r, r_handle r)
    | None => s_is_open s rid = None
    end.
  Proof.
    intros st s rid [_ [_ [A3 A4]]]. unfold is_open, s_is_open. rewrite <- A3.
    destruct (readers st rid) as [r|] eqn:Hr; cbn; [|reflexivity]. rewrite <- A4.
    destruct (handles st (r_handle r)) as [h|] eqn:Hh; cbn; [|reflexivity].
    destruct (h_open h) eqn:Ho; [|reflexivity]. split; [reflexivity|]. split; [|reflexivity].
    split; [exact Hr|]. exists h. auto.
  Qed.

  Lemma empty_shape : forall (K V : Type) c, lru_shape K V c [].
  Proof. intros; split; [constructor | cbn; lia]. Qed.

  Lemma sound_add_handle : forall st h, cache_sound st -> cache_sound (add_handle st h).
  Proof.
    intros st h [H1 [H2 [[H3 [H3b H3c]] H4]]]. split; [|split; [|split]].
    - eapply slot_ok_frame; [| |exact H1]; auto.
    - eapply dyn_ok_frame; [| |exact H2]; auto.
    - split; [|split].
      + intros rid r Hr. destruct (H3 _ _ Hr) as [[h0 [Hh0 Hf]] Hv]. split; [|exact Hv]. exists h0. split; [|exact Hf]. cbn.
        destruct (Nat.eqb (nhandles st) (r_handle r)) eqn:E; [|exact Hh0].
        apply Nat.eqb_eq in E. rewrite (H3c (r_handle r)) in Hh0 by lia. discriminate.
      + exact H3b.
      + intros i Hi. cbn in Hi |- *. destruct (Nat.eqb (nhandles st) i) eqn:E; [apply Nat.eqb_eq in E; lia | apply H3c; lia].
    - eapply shape_ok_frame; [| | |exact H4]; auto.
  Qed.
  Lemma sound_add_reader : forall st f hid vol cap h, cache_sound st -> handles st hid = Some h -> h_file h = f -> vol_ok f vol ->
    cache_sound (add_reader st (mkR f hid vol cap)).
  Proof.
    intros st f hid vol cap h [H1 [H2 [[H3 [H3b H3c]] [H4 H5]]]] Hh Hf Hv.
    assert (Old : forall i r, readers st i = Some r -> Nat.eqb (nreaders st) i = false).
    { intros i r Hr. destruct (Nat.eqb (nreaders st) i) eqn:E; [|reflexivity]. apply Nat.eqb_eq in E.
      rewrite (H3b i) in Hr by lia. discriminate. }
    split; [|split; [|split]].
    - intros m key v I. destruct (H1 _ _ _ I) as [r [Hr P]]. exists r. split; [|exact P]. cbn. rewrite (Old _ _ Hr). exact Hr.
    - intros rid r Hr. cbn in Hr |- *. destruct (Nat.eqb (nreaders st) rid) eqn:E.
      + cbn. repeat split; intros; try tauto; discriminate.
      + exact (H2 _ _ Hr).
    - split; [|split].
      + intros rid r Hr. cbn in Hr |- *. destruct (Nat.eqb (nreaders st) rid) eqn:E; [|exact (H3 _ _ Hr)].
        inversion Hr; subst r; cbn. split; [exists h; auto | exact Hv].
      + intros i Hi. cbn in Hi |- *. destruct (Nat.eqb (nreaders st) i) eqn:E; [apply Nat.eqb_eq in E; lia | apply H3b; lia].
      + exact H3c.
    - split; [exact H4|]. intros rid r Hr. cbn in Hr |- *. destruct (Nat.eqb (nreaders st) rid) eqn:E; [|exact (H5 _ _ Hr)].
      cbn. apply empty_shape.
  Qed.
  Lemma sim_add_handle : forall st s h, sim st s -> sim (add_handle st h) (s_add_handle s (h_open h)).
  Proof.
    intros st s h [A1 [A2 [A3 A4]]]. split; [exact A1|]. split; [cbn; congruence|]. split; [exact A3|].
    intros i. cbn. rewrite <- A2. destruct (Nat.eqb (nhandles st) i); [reflexivity | apply A4].
  Qed.
  Lemma sim_add_reader : forall st s f hid vol cap, sim st s -> sim (add_reader st (mkR f hid vol cap)) (s_add_reader s f hid).
  Proof.
    intros st s f hid vol cap [A1 [A2 [A3 A4]]]. split; [cbn; congruence|]. split; [exact A2|]. split; [|exact A4].
    intros i. cbn. rewrite <- A1. destruct (Nat.eqb (nreaders st) i); [reflexivity | apply A3].
  Qed.
  Lemma add_readers_ok : forall n st s f hid c h, cache_sound st -> sim st s -> handles st hid = Some h -> h_file h = f ->
    cache_sound (add_readers st n (mkR f hid None c)) /\ sim (add_readers st n (mkR f hid None c)) (s_add_readers s n f hid).
  Proof.
    induction n as [|n IH]; intros st s f hid c h CS SI Hh Hf; cbn; [auto|].
    apply (IH _ _ _ _ _ h); [eapply sound_add_reader; eauto; intros v X; discriminate | apply sim_add_reader; exact SI | exact Hh | exact Hf].
  Qed.

  Lemma same_static_clear : forall st names, same_static st (clear_slots st names).
  Proof. intros; repeat split; auto. Qed.
  Lemma sound_clear : forall st names, cache_sound st -> cache_sound (clear_slots st names).
  Proof.
    intros st names [H1 [H2 [H3 [H4 H5]]]]. split; [|split; [|split]].
    - intros m key v I. cbn in I. destruct (str_mem m names); [destruct I | exact (H1 _ _ _ I)].
    - eapply dyn_ok_frame; [| |exact H2]; auto.
    - eapply static_ok_frame; [apply same_static_clear | exact H3].
    - split; [|exact H5]. intros m. cbn. destruct (str_mem m names); [apply empty_shape | apply H4].
  Qed.
  (* closing the handle of reader r: every reader on that handle is on the same file *)
  Lemma sound_close : forall st rid r, cache_sound st -> opened st rid r ->
    cache_sound (set_handle st (r_handle r) (mkH (r_file r) 0 false)).
  Proof.
    intros st rid r CS Op. destruct (opened_handle _ _ _ CS Op) as [h [Hh [Ho [Hf _]]]].
    destruct CS as [H1 [H2 [[H3 [H3b H3c]] H4]]]. split; [|split; [|split]].
    - eapply slot_ok_frame; [| |exact H1]; auto.
    - eapply dyn_ok_frame; [| |exact H2]; auto.
    - split; [|split].
      + intros rid2 r2 Hr2. destruct (H3 _ _ Hr2) as [[h2 [Hh2 Hf2]] Hv2]. split; [|exact Hv2]. cbn.
        destruct (Nat.eqb (r_handle r) (r_handle r2)) eqn:E; [|exists h2; auto].
        apply Nat.eqb_eq in E. rewrite <- E, Hh in Hh2. inversion Hh2; subst h2. eexists; split; [reflexivity|]. cbn. congruence.
      + exact H3b.
      + intros i Hi. cbn. destruct (Nat.eqb (r_handle r) i) eqn:E; [|apply H3c; exact Hi].
        apply Nat.eqb_eq in E; subst i. rewrite (H3c _ Hi) in Hh. discriminate.
    - eapply shape_ok_frame; [| | |exact H4]; auto.
  Qed.

  Lemma step_ok : forall st s o st' res s' sres, cache_sound st -> sim st s -> STEP st o = (st', res) -> SSTEP s o = (s', sres) ->
    cache_sound st' /\ sim st' s' /\ agrees sres res.
  Proof.
    intros st0 s o st' res s' sres CS0 SI0 E ES. unfold step in E.
    pose proof (only_handles_log st0 (L_op, false)) as OH. pose proof OH as [SS0 _].
    pose proof (only_handles_sound _ _ OH CS0) as CS. pose proof (sim_static _ _ _ SI0 SS0) as SI.
    set (st := add_log st0 (L_op, false)) in *. clearbody st. clear OH SS0 CS0 SI0 st0.
    pose proof SI as [A1 [A2 [A3 A4]]].
    destruct o as [f preload cap|f cap|rid|rid q|rid c]; cbn in ES.
    - (* Open *)
      destruct preload.
      + destruct (rrf_spec (mkH f 0 true) (data_start f) (data_len f) eq_refl) as [h' [E1 [F1 O1]]]. cbn in F1.
        rewrite E1 in E. cbn [h_file] in E. rewrite <- A2 in ES.
        destruct (RR f (data_start f) (data_len f)) as [v|e] eqn:P; inversion E; subst st' res; clear E;
          inversion ES; subst s' sres; clear ES.
        * split; [|split; [|reflexivity]].
          -- eapply (sound_add_reader _ _ _ _ _ h'); [apply sound_add_handle; exact CS | cbn; rewrite Nat.eqb_refl; reflexivity | exact F1|].
             intros v0 X. inversion X; subst v0. exact P.
          -- apply sim_add_reader. rewrite <- O1. apply sim_add_handle. exact SI.
        * split; [|split; [|reflexivity]].
          -- eapply (sound_add_reader _ _ _ _ _ (mkH f 0 false)); [apply sound_add_handle; exact CS | cbn; rewrite Nat.eqb_refl; reflexivity | reflexivity|].
             intros v0 X; discriminate.
          -- apply sim_add_reader. apply (sim_add_handle _ _ (mkH f 0 false)). exact SI.
      + inversion E; subst st' res; clear E. rewrite <- A2 in ES. inversion ES; subst s' sres; clear ES.
        split; [|split; [|reflexivity]].
        * eapply (sound_add_reader _ _ _ _ _ (mkH f 0 true)); [apply sound_add_handle; exact CS | cbn; rewrite Nat.eqb_refl; reflexivity | reflexivity|].
          intros v0 X; discriminate.
        * apply sim_add_reader. apply (sim_add_handle _ _ (mkH f 0 true)). exact SI.
    - (* OpenEmu *)
      inversion E; subst st' res; clear E. rewrite <- A2 in ES. inversion ES; subst s' sres; clear ES.
      assert (CS1 : cache_sound (add_reader (add_handle st (mkH f 0 true)) (mkR f (nhandles st) None (cap_of default_cap f cap)))).
      { eapply (sound_add_reader _ _ _ _ _ (mkH f 0 true)); [apply sound_add_handle; exact CS | cbn; rewrite Nat.eqb_refl; reflexivity | reflexivity|].
        intros v0 X; discriminate. }
      assert (SI1 : sim (add_reader (add_handle st (mkH f 0 true)) (mkR f (nhandles st) None (cap_of default_cap f cap)))
                        (s_add_reader (s_add_handle s true) f (nhandles st))).
      { apply sim_add_reader. apply (sim_add_handle _ _ (mkH f 0 true)). exact SI. }
      destruct (add_readers_ok (emu_accessors is2d f) _ _ f (nhandles st) (default_cap f) (mkH f 0 true) CS1 SI1) as [CS2 SI2];
        [cbn; rewrite Nat.eqb_refl; reflexivity | reflexivity|].
      split; [exact CS2|]. split; [exact SI2 | reflexivity].
    - (* Close *)
      pose proof (sim_is_open st s rid SI) as IO. destruct (is_open st rid) as [r|] eqn:Io.
      + destruct IO as [SO [Op SR]]. rewrite SO, SR in ES. inversion E; subst st' res; clear E. inversion ES; subst s' sres; clear ES.
        pose proof (same_static_clear st (clear_list is2d (r_file r))) as SSc.
        split; [|split; [|reflexivity]].
        * apply (sound_close _ rid); [apply sound_clear; exact CS | exact (opened_static _ _ _ _ Op SSc)].
        * split; [exact A1|]. split; [exact A2|]. split; [exact A3|]. intros i. cbn.
          destruct (Nat.eqb (r_handle r) i); [reflexivity | apply A4].
      + rewrite IO in ES. inversion E; subst. inversion ES; subst. split; [exact CS|]. split; [exact SI | reflexivity].
    - (* Query *)
      pose proof (sim_is_open st s rid SI) as IO. destruct (is_open st rid) as [r|] eqn:Io.
      + destruct IO as [SO [Op SR]]. rewrite SO in ES. inversion ES; subst s' sres; clear ES.
        destruct (XR st rid (method_prog (r_file r) q)) as [st1 v] eqn:E1. inversion E; subst st' res; clear E.
        destruct (exec_r_ok _ _ _ _ _ _ CS Op E1) as [R [CS1 SS1]].
        split; [exact CS1|]. split; [exact (sim_static _ _ _ SI SS1) | cbn; congruence].
      + rewrite IO in ES. inversion E; subst. inversion ES; subst. split; [exact CS|]. split; [exact SI | reflexivity].
    - (* Cmd *)
      pose proof (sim_is_open st s rid SI) as IO. destruct (is_open st rid) as [r|] eqn:Io.
      + destruct IO as [SO [Op SR]]. rewrite SO in ES. pose proof Op as [Hr _].
        destruct c as [| |pad fields].
        * inversion E; subst st' res; clear E. inversion ES; subst s' sres; clear ES.
          split; [apply sound_clear; exact CS|]. split; [exact (sim_static _ _ _ SI (same_static_clear _ _)) | reflexivity].
        * inversion E; subst st' res; clear E. inversion ES; subst s' sres; clear ES.
          pose proof (sound_dyn_good _ _ _ CS Hr) as [G1 [G2 [G3 G4]]].
          split; [|split; [exact (sim_static _ _ _ SI (same_static_set_dyn _ _ _)) | reflexivity]].
          eapply sound_set_dyn; [exact CS | exact Hr|]. split; [exact G1 | split; [exact G2 | split; [|exact G4]]]; cbn. intros k v [].
        * destruct (RVH st rid pad fields) as [st1 u] eqn:E1. inversion E; subst st' res; clear E.
          inversion ES; subst s' sres; clear ES.
          destruct (rvh_ok _ _ _ _ _ _ _ CS Op E1) as [CS1 [SS1 K]].
          split; [exact CS1|]. split; [exact (sim_static _ _ _ SI SS1)|].
          destruct (structured (r_file r)) eqn:S; cbn; [|exact I]. destruct (K (or_introl eq_refl)) as [R _]. congruence.
      + rewrite IO in ES. inversion E; subst. inversion ES; subst. split; [exact CS|]. split; [exact SI | reflexivity].
  Qed.

  Lemma init_sound : cache_sound (@init value) /\ sim (@init value) sinit.
  Proof.
    split; [|repeat split; auto]. split; [|split; [|split]].
    - intros m key v [].
    - intros rid r X; discriminate.
    - split; [intros rid r X; discriminate | split; auto].
    - split; [intros m; apply empty_shape | intros rid r X; discriminate].
  Qed.

  Lemma run_ok : forall ops st s st' rs, cache_sound st -> sim st s -> RUN st ops = (st', rs) ->
    cache_sound st' /\ Forall2 agrees (SRUN s ops) rs.
  Proof.
    induction ops as [|o t IH]; intros st s st' rs CS SI E; cbn in E |- *.
    - inversion E; subst. split; [exact CS | constructor].
    - destruct (STEP st o) as [st1 r] eqn:E1. destruct (RUN st1 t) as [st2 rs2] eqn:E2. inversion E; subst st' rs; clear E.
      destruct (SSTEP s o) as [s1 sr] eqn:ES.
      destruct (step_ok _ _ _ _ _ _ _ CS SI E1 ES) as [CS1 [SI1 AG]].
      destruct (IH _ _ _ _ CS1 SI1 E2) as [CS2 F]. split; [exact CS2 | constructor; assumption].
  Qed.

  (* the results of ANY history are those of the memory-less specification machine *)
  Theorem history_independent : forall ops, Forall2 agrees (SRUN sinit ops) (snd (RUN init ops)).
  Proof.
    intros ops. destruct (RUN init ops) as [st' rs] eqn:E. destruct init_sound as [CS SI].
    exact (proj2 (run_ok _ _ _ _ _ CS SI E)).
  Qed.
  (* ... and the invariant, including the LRU shape, holds in every reachable state *)
  Theorem reachable_sound : forall ops, cache_sound (fst (RUN init ops)).
  Proof.
    intros ops. destruct (RUN init ops) as [st' rs] eqn:E. destruct init_sound as [CS SI].
    exact (proj1 (run_ok _ _ _ _ _ CS SI E)).
  Qed.

  Lemma agrees_total : forall (ss : list (option (result value))) rs, Forall2 agrees ss rs ->
    (forall x, In x ss -> x <> None) -> map Some rs = ss.
  Proof.
    intros ss rs F. induction F as [|x r ss rs A F IH]; intros H; cbn; [reflexivity|]. f_equal.
    - destruct x as [x|]; [cbn in A; congruence | exfalso; exact (H None (or_introl eq_refl) eq_refl)].
    - apply IH. intros y Y. apply H. right; exact Y.
  Qed.
  (* when the specification makes a claim for every operation (no direct read_variant_headers on an unstructured
     file) the two result lists are EQUAL *)
  Theorem history_independent_total : forall ops, (forall x, In x (SRUN sinit ops) -> x <> None) ->
    map Some (snd (RUN init ops)) = SRUN sinit ops.
  Proof. intros ops H. exact (agrees_total _ _ (history_independent ops) H). Qed.

  (* preload: a cached loader body computes the same value from the in-memory volume as from the file *)
  Theorem preload_irrelevant : forall p h v, h_open h = true ->
    RR (h_file h) (data_start (h_file h)) (data_len (h_file h)) = Return v -> IND (h_file h) p ->
    fst (XL (Some v) h p) = fst (XL None h p).
  Proof.
    intros p h v Ho Hv Hin.
    destruct (exec_l_spec p (Some v) h Ho) as [h1 [E1 _]]; [intros v0 X; inversion X; subst; exact Hv | exact Hin|].
    destruct (exec_l_spec p None h Ho) as [h2 [E2 _]]; [intros v0 X; discriminate | exact Hin|].
    rewrite E1, E2. reflexivity.
  Qed.

  (* LRU shape in every reachable state: no duplicate keys, capacity never exceeded (class-level tables: the
     generated maxsize; chunk tables: the reader's chunk_cache_size, whatever it is) *)
  Theorem lru_capacity : forall ops,
    (forall m, NoDup (map fst (slots (fst (RUN init ops)) m)) /\ List.length (slots (fst (RUN init ops)) m) <= maxsize_of m) /\
    (forall rid r, readers (fst (RUN init ops)) rid = Some r ->
       NoDup (map fst (d_chunks (dyn (fst (RUN init ops)) rid))) /\
       List.length (d_chunks (dyn (fst (RUN init ops)) rid)) <= r_cap r).
  Proof. intros ops. destruct (reachable_sound ops) as [_ [_ [_ [A B]]]]. split; [exact A | exact B]. Qed.
End WorldFacts.

(* ------------------------------------------------------------------------------------------------ generated tables
   The part of Gen/Caches.v that the model consumes (capacities, clear lists, accessor counts), and the structural
   facts the abstraction relies on.  All by computation: a change of the source changes the generated file and
   breaks this lemma. *)
Local Open Scope string_scope.
Definition method_name (x : string * nat * list string) : string := fst (fst x).
Definition key_starts_with_self (x : string * nat * list string) : bool :=
  match snd x with "self" :: _ => true | _ => false end.
Lemma gen_tie_tables :
  cached_methods_base = [] /\
  cached_methods_2d =
    [("read_and_decompress_trace_range", 1%nat, ["self"; "min_id"; "max_id"]);
     ("read_unshuffle_and_decompress_chunk_range_2d", 1%nat, ["self"; "max_id"; "max_z"; "min_id"; "min_z"])] /\
  cached_methods_3d =
    [("read_and_decompress_il_set", 1%nat, ["self"; "i"]);
     ("read_and_decompress_xl_set", 1%nat, ["self"; "x"]);
     ("read_and_decompress_zslice_set", 1%nat, ["self"; "blocks_per_dim"; "zslice_first_block_offset"; "zslice_id"]);
     ("read_and_decompress_zslice_set_adv", 1%nat, ["self"; "blocks_per_dim"; "zslice_first_block_offset"]);
     ("read_and_decompress_chunk_range", 1%nat,
        ["self"; "max_il"; "max_xl"; "max_z"; "min_il"; "min_xl"; "min_z"; "multithreading"]);
     ("read_unshuffle_and_decompress_chunk_range", 1%nat, ["self"; "max_il"; "max_xl"; "max_z"; "min_il"; "min_xl"; "min_z"])] /\
  (* every key identifies the loader object *)
  forallb key_starts_with_self cached_methods = true /\
  (* close() empties exactly the tables of the reader's loader class *)
  clear_cache_2d = map method_name cached_methods_2d /\ clear_cache_3d = map method_name cached_methods_3d /\
  (* the only mutable input of a cached loader function is the preloaded volume (Model: get_bytes) *)
  cached_reads_mutable = ["compressed_volume"] /\ loader_mutable = ["compressed_volume"] /\
  (* the chunk cache: key = all parameters of the wrapped method; it depends on no mutable reader attribute; a miss
     calls these class-level cached methods (Toy.chunk_body) *)
  chunk_cached_method = "_read_containing_chunk" /\ chunk_key_params = ["ref_il"; "ref_xl"; "min_z"; "max_z"] /\
  chunk_call_args = ["min_il"; "min_xl"; "min_z"; "max_z"] /\ chunk_reads_mutable = [] /\
  chunk_loader_calls = ["read_and_decompress_chunk_range"; "read_unshuffle_and_decompress_chunk_range"] /\
  (* the reader's lazy caches (Model: d_mask, d_vh, d_ipad) *)
  reader_mutable = ["hw_info"; "include_padding"; "mask"; "variant_headers"] /\
  users_mask = ["__init__"; "get_trace"; "get_tracefield_1d"; "get_unstructured_mask"; "read_variant_headers"] /\
  users_variant_headers = ["__init__"; "clear_variant_headers"; "gen_trace_header"; "get_tracefield_1d"; "read_variant_headers"] /\
  (* seismic_zfp.open: 1 + 2 (+ 4 on 3D files) readers on one handle *)
  emu_accessors_always = [("trace", "TraceAccessor"); ("header", "HeaderAccessor")] /\
  emu_accessors_3d = [("iline", "InlineAccessor"); ("xline", "CrosslineAccessor"); ("depth_slice", "ZsliceAccessor");
                      ("subvolume", "SubvolumeAccessor")].
Proof. repeat split; reflexivity. Qed.
