(* Proofs/Cropper.v -- C10: the cropper (Model/Cropper.v over Gen/Cropping.v and Gen/Reader.v) against the container
   specification (Spec/Container.v).  All statements for arbitrary sizes; no enumeration. *)
From Coq Require Import ZArith List Bool Lia.
Import ListNotations.
From SZ Require Import Lib.Py Gen.Utils Gen.Version Gen.Reader Gen.Cropping Spec.Container Model.Cropper
  Proofs.PyLemmas Proofs.Layout Proofs.Default.
Open Scope Z_scope.

(* ---------------- the specification of the box ---------------- *)
(* a requested range [lo, hi) widened outward to multiples of the block length m and clipped to the axis [0, n) *)
Definition widen (lo hi m n : Z) : Z * Z := (m * (lo / m), Z.min n (pad_to hi m)).

Lemma mul_div_le lo m : 0 < m -> m * (lo / m) = lo - lo mod m.
Proof. intro Hm. pose proof (Z.div_mod lo m ltac:(lia)). lia. Qed.

Lemma correct_bounds_widen H r0 r1 n k : 0 < crp_blockshape H k -> 0 <= r0 ->
  crp_correct_bounds H r0 r1 n k = widen r0 r1 (crp_blockshape H k) n.
Proof.
  intros Hm H0. unfold crp_correct_bounds, widen. set (m := crp_blockshape H k) in *. cbv zeta.
  pose proof (Z.div_mod r0 m ltac:(lia)) as D0. pose proof (Z.mod_pos_bound r0 m Hm) as B0.
  assert (Q0 : 0 <= r0 / m) by (apply Z.div_pos; lia).
  f_equal.
  - destruct (r0 mod m =? 0) eqn:E; cbn [negb]; [apply Z.eqb_eq in E | apply Z.eqb_neq in E]; nia.
  - rewrite <- (pad_is_pad_to r1 m Hm). unfold pad. rewrite Z.min_comm.
    pose proof (Z.div_mod r1 m ltac:(lia)) as D1.
    destruct (r1 mod m =? 0) eqn:E; cbn [negb]; [reflexivity|]. f_equal. lia.
Qed.

Lemma widen_facts lo hi m n : 0 < m -> 0 <= lo -> lo < hi -> hi <= n ->
  let b := widen lo hi m n in
  fst b mod m = 0 /\ 0 <= fst b <= lo /\ hi <= snd b <= n /\ lo - fst b < m /\
  (snd b = n \/ snd b mod m = 0) /\ snd b < hi + m.
Proof.
  intros Hm H0 Hlt Hn. cbn [widen fst snd].
  pose proof (mul_div_le lo m Hm) as E0. pose proof (Z.mod_pos_bound lo m Hm) as B0.
  destruct (pad_to_spec hi m Hm) as (P1 & P2 & _). pose proof (Z.mod_le lo m H0 Hm) as L0.
  assert (M0 : (m * (lo / m)) mod m = 0) by (rewrite Z.mul_comm; apply Z_mod_mult).
  destruct (Z.min_spec n (pad_to hi m)) as [[Hc ->]|[Hc ->]].
  - repeat split; lia.
  - repeat split; lia.
Qed.

Lemma pad_to_shift hi lo m : 0 < m -> lo mod m = 0 -> pad_to hi m - lo = pad_to (hi - lo) m.
Proof.
  intros Hm Hl. unfold pad_to. rewrite (exact_div lo m Hm Hl) at 1 2.
  replace (hi - m * (lo / m) + m - 1) with ((hi + m - 1) + (- (lo / m)) * m) by ring.
  rewrite Z.div_add by lia. ring.
Qed.

Lemma pad_to_id p m : 0 < m -> p mod m = 0 -> pad_to p m = p.
Proof.
  intros Hm Hp. unfold pad_to. rewrite (exact_div p m Hm Hp) at 1.
  replace (m * (p / m) + m - 1) with ((m - 1) + (p / m) * m) by ring.
  rewrite Z.div_add by lia. rewrite (Z.div_small (m - 1) m) by lia. rewrite (exact_div p m Hm Hp) at 2. ring.
Qed.

Lemma pad_to_mono a b m : 0 < m -> a <= b -> pad_to a m <= pad_to b m.
Proof.
  intros Hm Hab. unfold pad_to. apply Z.mul_le_mono_nonneg_l; [lia|]. apply Z.div_le_mono; lia.
Qed.

(* ---------------- the regenerated header, as generated ---------------- *)
(* pins the exact list the generator produced from regenerate_header: a change of any byte range, packer or
   expression in the source breaks this lemma (and is then either re-proved or reported) *)
Lemma header_fields_shape H A i0 i1 x0 x1 z0 z1 :
  crp_header_fields H A i0 i1 x0 x1 z0 z1 =
  [(true, 4, 8, PkU32, z1 - z0); (true, 8, 12, PkU32, x1 - x0); (true, 12, 16, PkU32, i1 - i0);
   (true, 16, 20, PkI32, crp_zslices_at_int32 A z0); (true, 20, 24, PkI32, crp_xlines_at A x0);
   (true, 24, 28, PkI32, crp_ilines_at A i0);
   (true, 56, 60, PkU32, (rd_rate_n H * pad (z1 - z0) (rd_blockshape2 H) * pad (x1 - x0) (rd_blockshape1 H)
                          * pad (i1 - i0) (rd_blockshape0 H)) / (rd_rate_d H * 8) / 4096);
   (true, 60, 64, PkU32, (x1 - x0) * (i1 - i0) * 32 / 8); (true, 68, 72, PkU32, (x1 - x0) * (i1 - i0));
   (rd_n_header_blocks H >? 1, 7316, 7318, PkBE16, z1 - z0)].
Proof. reflexivity. Qed.

Lemma skeleton_holds : skeleton_ok = true.
Proof. reflexivity. Qed.

(* ---------------- loader.read_chunk_range (GENERATED) evaluated ---------------- *)
Definition chunk_rd (H : hdr) (a b c XU ZU i x : Z) : rd :=
  (s_ub3 H * (((a / 4 + i) * (s_PX H / 4)) * (s_PZ H / 4) + (b / 4 + x) * (s_PZ H / 4) + c / 4),
   s_ub3 H * ZU, ((i * XU) * ZU + x * ZU) * s_ub3 H).

Lemma chunk_reads H (F : facts3 H) a b c IU XU ZU :
  ld_read_chunk_range H a b c IU XU ZU =
  Return (flat_map (fun i => flat_map (fun x => [chunk_rd H a b c XU ZU i x]) (zrange 0 XU)) (zrange 0 IU)).
Proof.
  unfold ld_read_chunk_range. rewrite (r_fl_p2 H F), (r_ub H F), (r_P1 H F), (r_P2 H F). cbv iota.
  apply flat_mapM_Return. intros i _.
  rewrite (flat_mapM_Return _ (fun x => [chunk_rd H a b c XU ZU i x])) by (intros; reflexivity).
  reflexivity.
Qed.

Lemma in_chunk_reads H a b c IU XU ZU r :
  In r (flat_map (fun i => flat_map (fun x => [chunk_rd H a b c XU ZU i x]) (zrange 0 XU)) (zrange 0 IU)) <->
  exists i x, 0 <= i < IU /\ 0 <= x < XU /\ r = chunk_rd H a b c XU ZU i x.
Proof.
  rewrite in_flat_map. split.
  - intros (i & Hi & Hr). rewrite in_flat_map in Hr. destruct Hr as (x & Hx & [E|[]]).
    rewrite in_zrange in Hi, Hx. exists i, x. repeat split; try lia. symmetry; exact E.
  - intros (i & x & Hi & Hx & ->). exists i. split; [apply in_zrange; lia|].
    rewrite in_flat_map. exists x. split; [apply in_zrange; lia | left; reflexivity].
Qed.

(* placements of distinct (i, x) are disjoint: the buffer is the concatenation of the runs in (i, x) order *)
Lemma chunk_reads_compat H a b c IU XU ZU : 0 <= s_ub3 H -> 0 <= ZU ->
  compat (flat_map (fun i => flat_map (fun x => [chunk_rd H a b c XU ZU i x]) (zrange 0 XU)) (zrange 0 IU)).
Proof.
  intros Hub HZ r1 r2 H1 H2. rewrite in_chunk_reads in H1, H2.
  destruct H1 as (i & x & Hi & Hx & ->), H2 as (i' & x' & Hi' & Hx' & ->).
  unfold chunk_rd. cbn [rd_lo rd_hi].
  set (L := s_ub3 H * ZU). assert (HL : 0 <= L) by (subst L; nia).
  replace ((i * XU * ZU + x * ZU) * s_ub3 H) with ((i * XU + x) * L) by (subst L; ring).
  replace ((i' * XU * ZU + x' * ZU) * s_ub3 H) with ((i' * XU + x') * L) by (subst L; ring).
  destruct (Z.eq_dec i i') as [->|Ni].
  - destruct (Z.eq_dec x x') as [->|Nx]; [left; reflexivity | right; nia].
  - right. assert (i < i' \/ i' < i) as [Lt|Lt] by lia.
    + assert (i * XU + x + 1 <= i' * XU + x') by nia. nia.
    + assert (i' * XU + x' + 1 <= i * XU + x) by nia. nia.
Qed.

(* ---------------- a block-aligned box inside the cube ---------------- *)
Definition axis_ok (lo hi n m : Z) : Prop := 0 <= lo /\ lo < hi /\ hi <= n /\ lo mod m = 0 /\ (hi = n \/ hi mod m = 0).

Lemma widen_axis_ok lo hi m n : 0 < m -> 0 <= lo -> lo < hi -> hi <= n ->
  axis_ok (fst (widen lo hi m n)) (snd (widen lo hi m n)) n m.
Proof. intros Hm H0 Hl Hn. pose proof (widen_facts lo hi m n Hm H0 Hl Hn) as W. cbv zeta in W. unfold axis_ok. lia. Qed.

Lemma wf3_same_layout H H' :
  s_rate_code H' = s_rate_code H -> s_bs0 H' = s_bs0 H -> s_bs1 H' = s_bs1 H -> s_bs2 H' = s_bs2 H ->
  1 <= s_nil H' -> 1 <= s_nxl H' -> 1 <= s_ns H' -> wf3 H = true -> wf3 H' = true.
Proof.
  intros Er E0 E1 E2 Hi Hx Hz W.
  destruct (wf3_unpack H W) as (_ & _ & _ & B0 & B0m & B1 & B1m & B2 & B2m & Rc & Ub & Uex & Blk).
  assert (Eub : s_ub3 H' = s_ub3 H) by (unfold s_ub3, s_rn, s_rd; rewrite Er; reflexivity).
  assert (Ern : s_rn H' = s_rn H) by (unfold s_rn; rewrite Er; reflexivity).
  assert (Erd : s_rd H' = s_rd H) by (unfold s_rd; rewrite Er; reflexivity).
  unfold wf3. rewrite Eub, Ern, Erd, Er, E0, E1, E2.
  rewrite !andb_true_iff, negb_true_iff, !Z.leb_le, !Z.eqb_eq, Z.ltb_lt, Z.eqb_neq. tauto.
Qed.

Section BOX.
Variables (H : hdr) (A : axes).
Hypothesis W : wf3 H = true.
Let F := wf3_facts H W.
Variables i0 i1 x0 x1 z0 z1 : Z.
Hypothesis Bi : axis_ok i0 i1 (s_nil H) (s_bs0 H).
Hypothesis Bx : axis_ok x0 x1 (s_nxl H) (s_bs1 H).
Hypothesis Bz : axis_ok z0 z1 (s_ns H) (s_bs2 H).
Let fs := crp_header_fields H A i0 i1 x0 x1 z0 z1.
Let H' := out_hdr H fs.

Lemma o_ns : s_ns H' = z1 - z0. Proof. reflexivity. Qed.
Lemma o_nxl : s_nxl H' = x1 - x0. Proof. reflexivity. Qed.
Lemma o_nil : s_nil H' = i1 - i0. Proof. reflexivity. Qed.
Lemma o_rate : s_rate_code H' = s_rate_code H. Proof. reflexivity. Qed.
Lemma o_bs0 : s_bs0 H' = s_bs0 H. Proof. reflexivity. Qed.
Lemma o_bs1 : s_bs1 H' = s_bs1 H. Proof. reflexivity. Qed.
Lemma o_bs2 : s_bs2 H' = s_bs2 H. Proof. reflexivity. Qed.
Lemma o_nhb : s_nhb H' = s_nhb H. Proof. reflexivity. Qed.
Lemma o_nha : s_nha H' = s_nha H. Proof. reflexivity. Qed.
Lemma o_ver : s_ver H' = s_ver H. Proof. reflexivity. Qed.
Lemma o_ntr : s_ntr H' = (x1 - x0) * (i1 - i0). Proof. reflexivity. Qed.
Lemma o_hel : s_hel H' = 4 * ((x1 - x0) * (i1 - i0)).
Proof.
  change (s_hel H') with ((x1 - x0) * (i1 - i0) * 32 / 8).
  replace ((x1 - x0) * (i1 - i0) * 32) with (4 * ((x1 - x0) * (i1 - i0)) * 8) by ring. apply Z_div_mult. lia.
Qed.
Lemma o_ub : s_ub3 H' = s_ub3 H. Proof. reflexivity. Qed.

Lemma o_wf : wf3 H' = true.
Proof.
  apply (wf3_same_layout H H'); try reflexivity; try exact W.
  - rewrite o_nil. unfold axis_ok in Bi. lia.
  - rewrite o_nxl. unfold axis_ok in Bx. lia.
  - rewrite o_ns. unfold axis_ok in Bz. lia.
Qed.

(* padded extents of the output = padded end of the box minus its origin *)
Lemma o_PI : s_PI H' = pad_to i1 (s_bs0 H) - i0.
Proof. unfold s_PI. rewrite o_nil, o_bs0. symmetry. apply pad_to_shift; [pose proof (f_bs0 H F); lia | unfold axis_ok in Bi; tauto]. Qed.
Lemma o_PX : s_PX H' = pad_to x1 (s_bs1 H) - x0.
Proof. unfold s_PX. rewrite o_nxl, o_bs1. symmetry. apply pad_to_shift; [pose proof (f_bs1 H F); lia | unfold axis_ok in Bx; tauto]. Qed.
Lemma o_PZ : s_PZ H' = pad_to z1 (s_bs2 H) - z0.
Proof. unfold s_PZ. rewrite o_ns, o_bs2. symmetry. apply pad_to_shift; [pose proof (f_bs2 H F); lia | unfold axis_ok in Bz; tauto]. Qed.

(* the padded end of the box stays inside the padded cube *)
Lemma pad_end_le hi n m : 0 < m -> (hi <= n) -> pad_to hi m <= pad_to n m.
Proof. intros. apply pad_to_mono; assumption. Qed.

Lemma o_PI_le : i0 + s_PI H' <= s_PI H.
Proof. rewrite o_PI. unfold s_PI, axis_ok in *. pose proof (f_bs0 H F). pose proof (pad_end_le i1 (s_nil H) (s_bs0 H)). lia. Qed.
Lemma o_PX_le : x0 + s_PX H' <= s_PX H.
Proof. rewrite o_PX. unfold s_PX, axis_ok in *. pose proof (f_bs1 H F). pose proof (pad_end_le x1 (s_nxl H) (s_bs1 H)). lia. Qed.
Lemma o_PZ_le : z0 + s_PZ H' <= s_PZ H.
Proof. rewrite o_PZ. unfold s_PZ, axis_ok in *. pose proof (f_bs2 H F). pose proof (pad_end_le z1 (s_ns H) (s_bs2 H)). lia. Qed.

(* the unit counts the cropper computes are the padded extents of the output in units *)
Lemma units_il : crp_il_units H i0 i1 x0 x1 z0 z1 = s_PI H' / 4.
Proof. unfold crp_il_units. cbv zeta. rewrite (r_bs0 H F), pad_is_pad_to by (pose proof (f_bs0 H F); lia). rewrite o_PI. reflexivity. Qed.
Lemma units_xl : crp_xl_units H i0 i1 x0 x1 z0 z1 = s_PX H' / 4.
Proof. unfold crp_xl_units. cbv zeta. rewrite (r_bs1 H F), pad_is_pad_to by (pose proof (f_bs1 H F); lia). rewrite o_PX. reflexivity. Qed.
Lemma units_z : crp_z_units H i0 i1 x0 x1 z0 z1 = s_PZ H' / 4.
Proof. unfold crp_z_units. cbv zeta. rewrite (r_bs2 H F), pad_is_pad_to by (pose proof (f_bs2 H F); lia). rewrite o_PZ. reflexivity. Qed.

Lemma chunk_args_eq : crp_chunk_args H i0 i1 x0 x1 z0 z1 = (i0, x0, z0, s_PI H' / 4, s_PX H' / 4, s_PZ H' / 4).
Proof.
  pose proof units_il as Ei. pose proof units_xl as Ex. pose proof units_z as Ez.
  unfold crp_il_units, crp_xl_units, crp_z_units in *. unfold crp_chunk_args. cbv zeta in *. rewrite Ei, Ex, Ez. reflexivity.
Qed.

(* stated number of disk blocks = the data section of the output, exactly *)
Lemma o_ndb : 4096 * s_ndb H' = s_data_bytes3 H'.
Proof.
  pose proof o_wf as W'. pose proof (wf3_facts H' W') as F'.
  destruct (wf3_unpack H W) as (_ & _ & _ & B0 & B0m & B1 & B1m & B2 & B2m & Rc & Ub & Uex & Blk).
  change (s_ndb H') with ((rd_rate_n H * pad (z1 - z0) (rd_blockshape2 H) * pad (x1 - x0) (rd_blockshape1 H)
                    * pad (i1 - i0) (rd_blockshape0 H)) / (rd_rate_d H * 8) / 4096).
  rewrite (r_rn H F), (r_rd H F), (r_bs0 H F), (r_bs1 H F), (r_bs2 H F), !pad_is_pad_to by lia.
  change (pad_to (z1 - z0) (s_bs2 H)) with (s_PZ H'). change (pad_to (x1 - x0) (s_bs1 H)) with (s_PX H').
  change (pad_to (i1 - i0) (s_bs0 H)) with (s_PI H').
  destruct (f_PI H' F') as (_ & PIm & PI4 & _). destruct (f_PX H' F') as (_ & PXm & PX4 & _).
  destruct (f_PZ H' F') as (_ & PZm & PZ4 & _).
  rewrite o_bs0 in PIm. rewrite o_bs1 in PXm. rewrite o_bs2 in PZm.
  unfold s_data_bytes3. rewrite o_ub.
  rewrite (div4_split (s_PI H') (s_bs0 H)), (div4_split (s_PX H') (s_bs1 H)), (div4_split (s_PZ H') (s_bs2 H)) by (lia || assumption).
  pose proof (exact_div (s_PI H') (s_bs0 H) ltac:(lia) PIm) as EI. pose proof (exact_div (s_PX H') (s_bs1 H) ltac:(lia) PXm) as EX.
  pose proof (exact_div (s_PZ H') (s_bs2 H) ltac:(lia) PZm) as EZ.
  pose proof (exact_div (s_bs0 H) 4 ltac:(lia) B0m) as E0. pose proof (exact_div (s_bs1 H) 4 ltac:(lia) B1m) as E1.
  pose proof (exact_div (s_bs2 H) 4 ltac:(lia) B2m) as E2.
  set (a := s_PI H' / s_bs0 H) in *. set (b := s_PX H' / s_bs1 H) in *. set (c := s_PZ H' / s_bs2 H) in *.
  set (u0 := s_bs0 H / 4) in *. set (u1 := s_bs1 H / 4) in *. set (u2 := s_bs2 H / 4) in *.
  set (ub := s_ub3 H) in *. set (rn := s_rn H) in *. set (rdn := s_rd H) in *.
  assert (Rdpos : 0 < rdn). { subst rdn. unfold s_rd. destruct (s_rate_code H <? 0) eqn:Q; lia. }
  rewrite EI, EX, EZ, E0, E1, E2.
  replace (rn * (4 * u2 * c) * (4 * u1 * b) * (4 * u0 * a)) with ((64 * rn) * (u0 * u1 * u2) * (a * b * c)) by ring.
  rewrite <- Uex.
  replace (8 * rdn * ub * (u0 * u1 * u2) * (a * b * c)) with ((u0 * u1 * u2 * ub) * (a * b * c) * (rdn * 8)) by ring.
  rewrite Blk. rewrite Z_div_mult by lia.
  replace (4096 * (a * b * c)) with ((a * b * c) * 4096) by ring. rewrite Z_div_mult by lia.
  replace (a * u0 * (b * u1) * (c * u2) * ub) with ((u0 * u1 * u2 * ub) * (a * b * c)) by ring. rewrite Blk. ring.
Qed.

Lemma o_data_len :
  crp_z_units H i0 i1 x0 x1 z0 z1 * crp_xl_units H i0 i1 x0 x1 z0 z1 * crp_il_units H i0 i1 x0 x1 z0 z1 * rd_unit_bytes H
  = s_data_bytes3 H'.
Proof. rewrite units_il, units_xl, units_z, (r_ub H F). unfold s_data_bytes3. rewrite o_ub. ring. Qed.

End BOX.

(* the output's data section is described by (reads, length); unit at byte o' of it holds the source bytes at o *)
Definition prov_moved (reads : list rd) (ub : Z) (p' p : prov) : Prop :=
  match p', p with
  | PUnit o' c', PUnit o c => c' = c /\ unit_src reads o' (o' + ub) = SrcAt o
  | _, _ => False
  end.

Lemma div4_add a b : b mod 4 = 0 -> (a + b) / 4 = a / 4 + b / 4.
Proof. intro Hb. rewrite (exact_div b 4 ltac:(lia) Hb) at 1. rewrite Z.mul_comm, Z.div_add by lia. reflexivity. Qed.
Lemma mod4_add a b : b mod 4 = 0 -> (a + b) mod 4 = a mod 4.
Proof. intro Hb. rewrite (exact_div b 4 ltac:(lia) Hb) at 1. rewrite Z.mul_comm, Z_mod_plus_full. reflexivity. Qed.

(* ---------------- default layout: any aligned box ---------------- *)
Section BOX_DEFAULT.
Variables (H : hdr) (A : axes).
Hypothesis W : wf3 H = true.
Hypothesis D : default_layout H.
Let F := wf3_facts H W.
Variables i0 i1 x0 x1 z0 z1 : Z.
Hypothesis Bi : axis_ok i0 i1 (s_nil H) (s_bs0 H).
Hypothesis Bx : axis_ok x0 x1 (s_nxl H) (s_bs1 H).
Hypothesis Bz : axis_ok z0 z1 (s_ns H) (s_bs2 H).
Let fs := crp_header_fields H A i0 i1 x0 x1 z0 z1.
Let H' := out_hdr H fs.
Let reads := flat_map (fun i => flat_map (fun x => [chunk_rd H i0 x0 z0 (s_PX H' / 4) (s_PZ H' / 4) i x])
                                         (zrange 0 (s_PX H' / 4))) (zrange 0 (s_PI H' / 4)).

Lemma default_units i x z : 0 <= i < s_PI H' -> 0 <= x < s_PX H' -> 0 <= z < s_PZ H' ->
  prov_moved reads (s_ub3 H') (spec_cell3 H' i x z) (spec_cell3 H (i + i0) (x + x0) (z + z0)).
Proof.
  intros Hi Hx Hz.
  pose proof (o_wf H A W i0 i1 x0 x1 z0 z1 Bi Bx Bz) as W'. fold fs in W'. fold H' in W'.
  pose proof (wf3_facts H' W') as F'.
  assert (D' : default_layout H') by exact D.
  destruct (f_PI H' F') as (_ & _ & PI4 & _). destruct (f_PX H' F') as (_ & _ & PX4 & _).
  destruct (f_PZ H' F') as (_ & _ & PZ4 & _).
  pose proof (div4_lt i _ Hi PI4) as Hi4. pose proof (div4_lt x _ Hx PX4) as Hx4. pose proof (div4_lt z _ Hz PZ4) as Hz4.
  destruct D as [D0 D1]. unfold axis_ok in Bi, Bx, Bz. rewrite D0 in Bi. rewrite D1 in Bx.
  assert (Z04 : z0 mod 4 = 0).
  { apply (mod4_of_mod (s_bs2 H)); [pose proof (f_bs2 H F); lia | apply (f_bs2m H F) | tauto]. }
  assert (I04 : i0 mod 4 = 0) by tauto. assert (X04 : x0 mod 4 = 0) by tauto.
  assert (Hi04 : 0 <= i0 / 4) by (apply Z.div_pos; lia). assert (Hx04 : 0 <= x0 / 4) by (apply Z.div_pos; lia).
  assert (Hz04 : 0 <= z0 / 4) by (apply Z.div_pos; lia).
  pose proof (f_ub H F) as Ub.
  unfold prov_moved, spec_cell3. change (s_ub3 H') with (s_ub3 H).
  split.
  - rewrite !mod4_add by assumption. reflexivity.
  - rewrite (unit_index3_default H' W' D') by lia.
    rewrite (unit_index3_default H W (conj D0 D1)) by (rewrite div4_add by assumption; lia).
    rewrite !div4_add by assumption.
    set (XU := s_PX H' / 4) in *. set (ZU := s_PZ H' / 4) in *. set (IU := s_PI H' / 4) in *. set (ub := s_ub3 H) in *.
    set (iu := i / 4) in *. set (xu := x / 4) in *. set (zu := z / 4) in *.
    rewrite (unit_src_hit reads (chunk_rd H i0 x0 z0 XU ZU iu xu)).
    + unfold chunk_rd. cbn [rd_src]. fold ub. f_equal. ring.
    + apply chunk_reads_compat; lia.
    + apply in_chunk_reads. exists iu, xu. repeat split; lia.
    + unfold chunk_rd. cbn [rd_lo]. fold ub. nia.
    + unfold chunk_rd. cbn [rd_hi]. fold ub. nia.
    + lia.
Qed.

End BOX_DEFAULT.

(* ---------------- any layout: whole inline blocks with the full crossline and sample extent ---------------- *)
Lemma unit_index3_shift H (F : facts3 H) iu xu zu q :
  unit_index3 H (iu + (s_bs0 H / 4) * q) xu zu = unit_index3 H iu xu zu + ((s_bs0 H / 4) * q) * (s_PX H / 4) * (s_PZ H / 4).
Proof.
  unfold unit_index3. cbv zeta.
  pose proof (f_bs0 H F) as B0. pose proof (f_bs0m H F) as B0m. pose proof (f_bs1 H F) as B1. pose proof (f_bs1m H F) as B1m.
  pose proof (f_bs2 H F) as B2. pose proof (f_bs2m H F) as B2m.
  destruct (f_PX H F) as (_ & PXm & _ & _). destruct (f_PZ H F) as (_ & PZm & _ & _).
  rewrite (div4_split (s_PX H) (s_bs1 H)), (div4_split (s_PZ H) (s_bs2 H)) by (lia || assumption).
  assert (U0 : 0 < s_bs0 H / 4) by (apply Z.div_str_pos; lia).
  set (u0 := s_bs0 H / 4) in *. set (u1 := s_bs1 H / 4). set (u2 := s_bs2 H / 4).
  set (nbx := s_PX H / s_bs1 H). set (nbz := s_PZ H / s_bs2 H).
  replace (iu + u0 * q) with (iu + q * u0) by ring.
  rewrite Z.div_add, Z_mod_plus_full by lia. ring.
Qed.

Lemma unit_index3_range H (F : facts3 H) iu xu zu :
  0 <= iu < s_PI H / 4 -> 0 <= xu < s_PX H / 4 -> 0 <= zu < s_PZ H / 4 ->
  0 <= unit_index3 H iu xu zu < (s_PI H / 4) * (s_PX H / 4) * (s_PZ H / 4).
Proof.
  intros Hi Hx Hz. unfold unit_index3. cbv zeta.
  pose proof (f_bs0 H F) as B0. pose proof (f_bs0m H F) as B0m. pose proof (f_bs1 H F) as B1. pose proof (f_bs1m H F) as B1m.
  pose proof (f_bs2 H F) as B2. pose proof (f_bs2m H F) as B2m.
  destruct (f_PI H F) as (_ & PIm & _ & _). destruct (f_PX H F) as (_ & PXm & _ & _). destruct (f_PZ H F) as (_ & PZm & _ & _).
  rewrite (div4_split (s_PI H) (s_bs0 H)), (div4_split (s_PX H) (s_bs1 H)), (div4_split (s_PZ H) (s_bs2 H)) in * by (lia || assumption).
  assert (U0 : 0 < s_bs0 H / 4) by (apply Z.div_str_pos; lia). assert (U1 : 0 < s_bs1 H / 4) by (apply Z.div_str_pos; lia).
  assert (U2 : 0 < s_bs2 H / 4) by (apply Z.div_str_pos; lia).
  set (u0 := s_bs0 H / 4) in *. set (u1 := s_bs1 H / 4) in *. set (u2 := s_bs2 H / 4) in *.
  set (nbi := s_PI H / s_bs0 H) in *. set (nbx := s_PX H / s_bs1 H) in *. set (nbz := s_PZ H / s_bs2 H) in *.
  pose proof (Z.div_mod iu u0 ltac:(lia)) as Di. pose proof (Z.mod_pos_bound iu u0 U0) as Mi.
  pose proof (Z.div_mod xu u1 ltac:(lia)) as Dx. pose proof (Z.mod_pos_bound xu u1 U1) as Mx.
  pose proof (Z.div_mod zu u2 ltac:(lia)) as Dz. pose proof (Z.mod_pos_bound zu u2 U2) as Mz.
  set (qi := iu / u0) in *. set (ri := iu mod u0) in *. set (qx := xu / u1) in *. set (rx := xu mod u1) in *.
  set (qz := zu / u2) in *. set (rz := zu mod u2) in *.
  assert (Qi : 0 <= qi < nbi) by nia. assert (Qx : 0 <= qx < nbx) by nia. assert (Qz : 0 <= qz < nbz) by nia.
  assert (Blk : 0 <= (qi * nbx + qx) * nbz + qz <= nbi * nbx * nbz - 1).
  { assert (0 <= qi * nbx + qx <= nbi * nbx - 1) by nia. nia. }
  assert (Inb : 0 <= (ri * u1 + rx) * u2 + rz <= u0 * u1 * u2 - 1).
  { assert (0 <= ri * u1 + rx <= u0 * u1 - 1) by nia. nia. }
  set (blk := (qi * nbx + qx) * nbz + qz) in *. set (inb := (ri * u1 + rx) * u2 + rz) in *.
  set (U := u0 * u1 * u2) in *. set (NB := nbi * nbx * nbz) in *.
  assert (0 < U) by (subst U; nia).
  replace (nbi * u0 * (nbx * u1) * (nbz * u2)) with (NB * U) by (subst NB U; ring).
  split; [nia|]. assert (blk * U + inb <= (NB - 1) * U + (U - 1)) by nia. lia.
Qed.

Section BOX_ROWS.
Variables (H : hdr) (A : axes).
Hypothesis W : wf3 H = true.
Let F := wf3_facts H W.
Variables i0 i1 : Z.
Hypothesis Bi : axis_ok i0 i1 (s_nil H) (s_bs0 H).
Let fs := crp_header_fields H A i0 i1 0 (s_nxl H) 0 (s_ns H).
Let H' := out_hdr H fs.
Let reads := flat_map (fun i => flat_map (fun x => [chunk_rd H i0 0 0 (s_PX H' / 4) (s_PZ H' / 4) i x])
                                         (zrange 0 (s_PX H' / 4))) (zrange 0 (s_PI H' / 4)).

Lemma rows_PX : s_PX H' = s_PX H. Proof. unfold s_PX. change (s_nxl H') with (s_nxl H - 0). rewrite Z.sub_0_r. reflexivity. Qed.
Lemma rows_PZ : s_PZ H' = s_PZ H. Proof. unfold s_PZ. change (s_ns H') with (s_ns H - 0). rewrite Z.sub_0_r. reflexivity. Qed.

Lemma rows_units i x z : 0 <= i < s_PI H' -> 0 <= x < s_PX H' -> 0 <= z < s_PZ H' ->
  prov_moved reads (s_ub3 H') (spec_cell3 H' i x z) (spec_cell3 H (i + i0) (x + 0) (z + 0)).
Proof.
  intros Hi Hx Hz.
  assert (Bx : axis_ok 0 (s_nxl H) (s_nxl H) (s_bs1 H)).
  { unfold axis_ok. pose proof (f_nxl H F). pose proof (f_bs1 H F). repeat split; try lia. all: apply Z.mod_0_l; lia. }
  assert (Bz : axis_ok 0 (s_ns H) (s_ns H) (s_bs2 H)).
  { unfold axis_ok. pose proof (f_ns H F). pose proof (f_bs2 H F). repeat split; try lia. all: apply Z.mod_0_l; lia. }
  pose proof (o_wf H A W i0 i1 0 (s_nxl H) 0 (s_ns H) Bi Bx Bz) as W'. fold fs in W'. fold H' in W'.
  pose proof (wf3_facts H' W') as F'.
  destruct (f_PI H' F') as (_ & _ & PI4 & _). destruct (f_PX H' F') as (_ & _ & PX4 & _).
  destruct (f_PZ H' F') as (_ & _ & PZ4 & _).
  pose proof (div4_lt i _ Hi PI4) as Hi4. pose proof (div4_lt x _ Hx PX4) as Hx4. pose proof (div4_lt z _ Hz PZ4) as Hz4.
  pose proof (unit_index3_range H' F' (i / 4) (x / 4) (z / 4) Hi4 Hx4 Hz4) as Rk.
  pose proof (f_bs0 H F) as B0. pose proof (f_bs0m H F) as B0m. pose proof (f_ub H F) as Ub.
  unfold axis_ok in Bi. destruct Bi as (I0 & I01 & I1 & I0m & _).
  assert (I04 : i0 mod 4 = 0) by (apply (mod4_of_mod (s_bs0 H)); lia || assumption).
  (* the output's unit addressing is the source's (same blockshape, same padded crossline / sample extents) *)
  assert (EQ : unit_index3 H' (i / 4) (x / 4) (z / 4) = unit_index3 H (i / 4) (x / 4) (z / 4)).
  { unfold unit_index3. rewrite rows_PX, rows_PZ. reflexivity. }
  assert (SH : unit_index3 H ((i + i0) / 4) (x / 4) (z / 4)
               = unit_index3 H (i / 4) (x / 4) (z / 4) + (i0 / 4) * (s_PX H / 4) * (s_PZ H / 4)).
  { rewrite div4_add by assumption. rewrite (div4_split i0 (s_bs0 H)) by (lia || assumption).
    replace (i0 / s_bs0 H * (s_bs0 H / 4)) with ((s_bs0 H / 4) * (i0 / s_bs0 H)) by ring.
    apply (unit_index3_shift H F). }
  unfold prov_moved, spec_cell3. change (s_ub3 H') with (s_ub3 H). rewrite !Z.add_0_r.
  split; [rewrite mod4_add by assumption; reflexivity|].
  rewrite SH, EQ. clear SH.
  assert (EXU : s_PX H / 4 = s_PX H' / 4) by (rewrite rows_PX; reflexivity).
  assert (EZU : s_PZ H / 4 = s_PZ H' / 4) by (rewrite rows_PZ; reflexivity).
  rewrite EQ in Rk. unfold chunk_rd in reads. rewrite EXU, EZU. subst reads. rewrite EXU, EZU.
  set (k := unit_index3 H (i / 4) (x / 4) (z / 4)) in *.
  set (XU := s_PX H' / 4) in *. set (ZU := s_PZ H' / 4) in *. set (IU := s_PI H' / 4) in *. set (ub := s_ub3 H) in *.
  assert (ZUpos : 0 < ZU) by lia. assert (XUpos : 0 < XU) by lia.
  pose proof (Z.div_mod k ZU ltac:(lia)) as Dk. pose proof (Z.mod_pos_bound k ZU ZUpos) as Mk.
  set (m := k / ZU) in *. set (zq := k mod ZU) in *.
  pose proof (Z.div_mod m XU ltac:(lia)) as Dm. pose proof (Z.mod_pos_bound m XU XUpos) as Mm.
  set (iq := m / XU) in *. set (xq := m mod XU) in *.
  assert (Mr : 0 <= m < IU * XU) by nia.
  assert (Iq : 0 <= iq < IU) by nia.
  pose proof (chunk_reads_compat H i0 0 0 IU XU ZU ltac:(lia) ltac:(lia)) as CP.
  pose proof (proj2 (in_chunk_reads H i0 0 0 IU XU ZU (chunk_rd H i0 0 0 XU ZU iq xq))
                (ex_intro _ iq (ex_intro _ xq (conj Iq (conj Mm eq_refl))))) as IN.
  unfold chunk_rd in CP, IN. rewrite EXU, EZU in CP, IN. fold XU ZU in CP, IN.
  rewrite (unit_src_hit _ _ _ _ CP IN).
  - cbn [rd_src]. change (0 / 4) with 0. f_equal.
    replace (ub * k - (iq * XU * ZU + xq * ZU) * ub) with (ub * zq) by nia. nia.
  - cbn [rd_lo]. nia.
  - cbn [rd_hi]. nia.
  - lia.
Qed.

End BOX_ROWS.

(* ---------------- the whole cropper in normal form ---------------- *)
Definition all_none (il xl zs : option (Z * Z)) : bool := crp_is_none il && crp_is_none xl && crp_is_none zs.
Definition range_okb (n : Z) (r : Z * Z) : bool := (0 <=? fst r) && (fst r <? snd r) && (snd r <=? n).
(* a request the property wants served: some range given, every (given or default) range non-empty and inside *)
Definition request_okb (H : hdr) (il xl zs : option (Z * Z)) : bool :=
  negb (all_none il xl zs) && range_okb (s_nil H) (resolve (0, s_nil H) il) &&
  range_okb (s_nxl H) (resolve (0, s_nxl H) xl) && range_okb (s_ns H) (resolve (0, s_ns H) zs).
(* THE SPECIFICATION of the box: the request widened outward to block boundaries, clipped to the cube *)
Definition spec_il (H : hdr) (il : option (Z * Z)) : Z * Z :=
  let r := resolve (0, s_nil H) il in widen (fst r) (snd r) (s_bs0 H) (s_nil H).
Definition spec_xl (H : hdr) (xl : option (Z * Z)) : Z * Z :=
  let r := resolve (0, s_nxl H) xl in widen (fst r) (snd r) (s_bs1 H) (s_nxl H).
Definition spec_zs (H : hdr) (zs : option (Z * Z)) : Z * Z :=
  let r := resolve (0, s_ns H) zs in widen (fst r) (snd r) (s_bs2 H) (s_ns H).
Definition default_b (H : hdr) : bool := (s_bs0 H =? 4) && (s_bs1 H =? 4).
Definition full_b (r : Z * Z) (n : Z) : bool := (fst r =? 0) && (snd r =? n).
(* what the cropper can re-address: the default layout, or whole inline blocks of any layout *)
Definition layout_okb (H : hdr) (xl zs : option (Z * Z)) : bool :=
  default_b H || (full_b (spec_xl H xl) (s_nxl H) && full_b (spec_zs H zs) (s_ns H)).

Definition grid_reads (H : hdr) (a b c IU XU ZU : Z) : list rd :=
  flat_map (fun i => flat_map (fun x => [chunk_rd H a b c XU ZU i x]) (zrange 0 XU)) (zrange 0 IU).

Definition crop_norm (H : hdr) (A : axes) (il xl zs : option (Z * Z)) : outcome crop_out :=
  if negb (crp_structured H) then Raise IndexErr else
  if negb (request_okb H il xl zs) then Raise IndexErr else
  let bi := spec_il H il in let bx := spec_xl H xl in let bz := spec_zs H zs in
  if negb (layout_okb H xl zs) then Raise IndexErr else
  let fields := crp_header_fields H A (fst bi) (snd bi) (fst bx) (snd bx) (fst bz) (snd bz) in
  if negb (forallb pack_ok fields) then Raise OtherErr else
  let H' := out_hdr H fields in
  Return {| co_i0 := fst bi; co_i1 := snd bi; co_x0 := fst bx; co_x1 := snd bx; co_z0 := fst bz; co_z1 := snd bz;
            co_fields := fields;
            co_reads := grid_reads H (fst bi) (fst bx) (fst bz) (s_PI H' / 4) (s_PX H' / 4) (s_PZ H' / 4);
            co_data_len := s_data_bytes3 H';
            co_foot_shape := (s_nil H, s_nxl H);
            co_foot_win := (fst bi, snd bi, fst bx, snd bx);
            co_foot_pad := crp_footer_pad H (4 * ((snd bi - fst bi) * (snd bx - fst bx)));
            co_foot_reshape_ok := (s_nha H <=? 0) || (s_hel H =? 4 * (s_nil H * s_nxl H)) |}.

Lemma range_okb_spec n r : range_okb n r = true <-> 0 <= fst r < snd r /\ snd r <= n.
Proof. unfold range_okb. rewrite !andb_true_iff, !Z.leb_le, Z.ltb_lt. lia. Qed.

Lemma spec_axis_ok n m r : 0 < m -> range_okb n r = true ->
  axis_ok (fst (widen (fst r) (snd r) m n)) (snd (widen (fst r) (snd r) m n)) n m.
Proof. intros Hm Hr. apply range_okb_spec in Hr. apply widen_axis_ok; lia. Qed.

Theorem crop_normal_form H A il xl zs : wf3 H = true -> crop_by_indexes H A il xl zs = crop_norm H A il xl zs.
Proof.
  intro W. pose proof (wf3_facts H W) as F.
  pose proof (f_bs0 H F) as B0. pose proof (f_bs1 H F) as B1. pose proof (f_bs2 H F) as B2.
  unfold crop_by_indexes, crop_check, crop_norm.
  change (crp_source_refused H) with (negb (crp_structured H)). change crp_source_refused_exn with IndexErr.
  destruct (crp_structured H); cbn [negb bind]; [|reflexivity].
  change (crp_default_il H) with (0, s_nil H). change (crp_default_xl H) with (0, s_nxl H).
  change (crp_default_zs H) with (0, s_ns H). change crp_invalid_exn with IndexErr.
  set (ri := resolve (0, s_nil H) il). set (rx := resolve (0, s_nxl H) xl). set (rz := resolve (0, s_ns H) zs).
  change (crp_no_range il xl zs) with (all_none il xl zs).
  change (crp_bad_il H (fst ri) (snd ri)) with (negb (range_okb (s_nil H) ri)).
  change (crp_bad_xl H (fst rx) (snd rx)) with (negb (range_okb (s_nxl H) rx)).
  change (crp_bad_zs H (fst rz) (snd rz)) with (negb (range_okb (s_ns H) rz)).
  rewrite !negb_involutive. unfold request_okb. fold ri rx rz.
  destruct (negb (all_none il xl zs) && range_okb (s_nil H) ri && range_okb (s_nxl H) rx && range_okb (s_ns H) rz) eqn:V;
    cbn [negb bind]; [|reflexivity].
  rewrite !andb_true_iff in V. destruct V as (((_ & Vi) & Vx) & Vz).
  pose proof (proj1 (range_okb_spec _ _) Vi) as Ri. pose proof (proj1 (range_okb_spec _ _) Vx) as Rx.
  pose proof (proj1 (range_okb_spec _ _) Vz) as Rz.
  (* the corrections are the specification's widening *)
  assert (K0 : crp_blockshape H 0 = s_bs0 H) by (change (crp_blockshape H 0) with (rd_blockshape0 H); apply (r_bs0 H F)).
  assert (K1 : crp_blockshape H 1 = s_bs1 H) by (change (crp_blockshape H 1) with (rd_blockshape1 H); apply (r_bs1 H F)).
  assert (K2 : crp_blockshape H 2 = s_bs2 H) by (change (crp_blockshape H 2) with (rd_blockshape2 H); apply (r_bs2 H F)).
  assert (Ci : crp_corrected_il H (fst ri) (snd ri) = spec_il H il).
  { unfold crp_corrected_il, spec_il. fold ri. change (rd_n_ilines H) with (s_nil H).
    rewrite correct_bounds_widen by (rewrite ?K0; lia). rewrite K0. reflexivity. }
  assert (Cx : crp_corrected_xl H (fst rx) (snd rx) = spec_xl H xl).
  { unfold crp_corrected_xl, spec_xl. fold rx. change (rd_n_xlines H) with (s_nxl H).
    rewrite correct_bounds_widen by (rewrite ?K1; lia). rewrite K1. reflexivity. }
  assert (Cz : crp_corrected_zs H (fst rz) (snd rz) = spec_zs H zs).
  { unfold crp_corrected_zs, spec_zs. fold rz. change (rd_n_samples H) with (s_ns H).
    rewrite correct_bounds_widen by (rewrite ?K2; lia). rewrite K2. reflexivity. }
  rewrite Ci, Cx, Cz.
  pose proof (spec_axis_ok (s_nil H) (s_bs0 H) ri ltac:(lia) Vi) as Ai. fold (spec_il H il) in Ai.
  pose proof (spec_axis_ok (s_nxl H) (s_bs1 H) rx ltac:(lia) Vx) as Ax. fold (spec_xl H xl) in Ax.
  pose proof (spec_axis_ok (s_ns H) (s_bs2 H) rz ltac:(lia) Vz) as Az. fold (spec_zs H zs) in Az.
  unfold spec_il in Ai. unfold spec_xl in Ax. unfold spec_zs in Az. fold ri in Ai. fold rx in Ax. fold rz in Az.
  cbv zeta in Ai, Ax, Az.
  destruct (spec_il H il) as [i0 i1] eqn:Ei. destruct (spec_xl H xl) as [x0 x1] eqn:Ex. destruct (spec_zs H zs) as [z0 z1] eqn:Ez.
  unfold spec_il in Ei. unfold spec_xl in Ex. unfold spec_zs in Ez. fold ri in Ei. fold rx in Ex. fold rz in Ez. cbv zeta in Ei, Ex, Ez.
  rewrite Ei in Ai. rewrite Ex in Ax. rewrite Ez in Az.
  cbn [fst snd] in *.
  (* layout refusal *)
  assert (L : crp_layout_refused H i0 i1 x0 x1 z0 z1 = negb (layout_okb H xl zs)).
  { unfold crp_layout_refused, layout_okb, default_b, full_b, spec_xl, spec_zs. fold rx rz. cbv zeta. rewrite Ex, Ez. cbn [fst snd].
    rewrite (r_bs0 H F), (r_bs1 H F). change (rd_n_xlines H) with (s_nxl H). change (rd_n_samples H) with (s_ns H).
    rewrite negb_orb. reflexivity. }
  rewrite L. change crp_layout_refused_exn with IndexErr.
  destruct (negb (layout_okb H xl zs)); [reflexivity|].
  destruct (negb (forallb pack_ok (crp_header_fields H A i0 i1 x0 x1 z0 z1))); [reflexivity|].
  rewrite (chunk_args_eq H A W i0 i1 x0 x1 z0 z1 Ai Ax Az).
  rewrite (chunk_reads H F). cbn [bind]. f_equal.
  pose proof (o_data_len H A W i0 i1 x0 x1 z0 z1 Ai Ax Az) as DL.
  rewrite (units_il H A W i0 i1 x0 x1 z0 z1 Ai), (units_xl H A W i0 i1 x0 x1 z0 z1 Ax),
    (units_z H A W i0 i1 x0 x1 z0 z1 Az) in DL.
  rewrite DL. reflexivity.
Qed.

Definition norm_out (H : hdr) (A : axes) (il xl zs : option (Z * Z)) : crop_out :=
  let bi := spec_il H il in let bx := spec_xl H xl in let bz := spec_zs H zs in
  let fields := crp_header_fields H A (fst bi) (snd bi) (fst bx) (snd bx) (fst bz) (snd bz) in
  let H' := out_hdr H fields in
  {| co_i0 := fst bi; co_i1 := snd bi; co_x0 := fst bx; co_x1 := snd bx; co_z0 := fst bz; co_z1 := snd bz;
     co_fields := fields;
     co_reads := grid_reads H (fst bi) (fst bx) (fst bz) (s_PI H' / 4) (s_PX H' / 4) (s_PZ H' / 4);
     co_data_len := s_data_bytes3 H';
     co_foot_shape := (s_nil H, s_nxl H);
     co_foot_win := (fst bi, snd bi, fst bx, snd bx);
     co_foot_pad := crp_footer_pad H (4 * ((snd bi - fst bi) * (snd bx - fst bx)));
     co_foot_reshape_ok := (s_nha H <=? 0) || (s_hel H =? 4 * (s_nil H * s_nxl H)) |}.

Lemma crop_inv H A il xl zs R : wf3 H = true -> crop_by_indexes H A il xl zs = Return R ->
  crp_structured H = true /\ request_okb H il xl zs = true /\ layout_okb H xl zs = true /\
  forallb pack_ok (co_fields R) = true /\ R = norm_out H A il xl zs.
Proof.
  intros W E. rewrite (crop_normal_form H A il xl zs W) in E. unfold crop_norm in E.
  destruct (crp_structured H); cbn [negb] in E; [|discriminate].
  destruct (request_okb H il xl zs); cbn [negb] in E; [|discriminate].
  cbv zeta in E. destruct (layout_okb H xl zs); cbn [negb] in E; [|discriminate].
  destruct (forallb pack_ok _) eqn:P; cbn [negb] in E; [|discriminate].
  injection E as <-. repeat split; try reflexivity. exact P.
Qed.

Lemma crop_succeeds H A il xl zs : wf3 H = true -> crp_structured H = true -> request_okb H il xl zs = true ->
  layout_okb H xl zs = true -> forallb pack_ok (co_fields (norm_out H A il xl zs)) = true ->
  crop_by_indexes H A il xl zs = Return (norm_out H A il xl zs).
Proof.
  intros W S Q L P. rewrite (crop_normal_form H A il xl zs W). unfold crop_norm. rewrite S, Q, L. cbn [negb]. cbv zeta.
  unfold norm_out in P. cbn [co_fields] in P. rewrite P. reflexivity.
Qed.

(* the three axes of an accepted request are block-aligned boxes inside the cube *)
Lemma request_axes H il xl zs : wf3 H = true -> request_okb H il xl zs = true ->
  axis_ok (fst (spec_il H il)) (snd (spec_il H il)) (s_nil H) (s_bs0 H) /\
  axis_ok (fst (spec_xl H xl)) (snd (spec_xl H xl)) (s_nxl H) (s_bs1 H) /\
  axis_ok (fst (spec_zs H zs)) (snd (spec_zs H zs)) (s_ns H) (s_bs2 H).
Proof.
  intros W Q. pose proof (wf3_facts H W) as F. unfold request_okb in Q. rewrite !andb_true_iff in Q.
  destruct Q as (((_ & Vi) & Vx) & Vz).
  pose proof (f_bs0 H F). pose proof (f_bs1 H F). pose proof (f_bs2 H F).
  repeat split; apply spec_axis_ok; (lia || assumption).
Qed.

(* ---------------- refusals (every header: no well-formedness needed) ---------------- *)
Lemma refuse_unstructured H A il xl zs : crp_structured H = false -> crop_by_indexes H A il xl zs = Raise IndexErr.
Proof.
  intro S. unfold crop_by_indexes, crop_check. change (crp_source_refused H) with (negb (crp_structured H)).
  rewrite S. reflexivity.
Qed.

Lemma refuse_bad_request H A il xl zs : request_okb H il xl zs = false -> crop_by_indexes H A il xl zs = Raise IndexErr.
Proof.
  intro Q. unfold crop_by_indexes, crop_check. change crp_source_refused_exn with IndexErr.
  destruct (crp_source_refused H); [reflexivity|].
  change (crp_default_il H) with (0, s_nil H). change (crp_default_xl H) with (0, s_nxl H).
  change (crp_default_zs H) with (0, s_ns H). change crp_invalid_exn with IndexErr.
  change (crp_no_range il xl zs) with (all_none il xl zs).
  change (crp_bad_il H (fst (resolve (0, s_nil H) il)) (snd (resolve (0, s_nil H) il)))
    with (negb (range_okb (s_nil H) (resolve (0, s_nil H) il))).
  change (crp_bad_xl H (fst (resolve (0, s_nxl H) xl)) (snd (resolve (0, s_nxl H) xl)))
    with (negb (range_okb (s_nxl H) (resolve (0, s_nxl H) xl))).
  change (crp_bad_zs H (fst (resolve (0, s_ns H) zs)) (snd (resolve (0, s_ns H) zs)))
    with (negb (range_okb (s_ns H) (resolve (0, s_ns H) zs))).
  rewrite !negb_involutive. unfold request_okb in Q. rewrite Q. reflexivity.
Qed.

Lemma refuse_layout H A il xl zs : wf3 H = true -> layout_okb H xl zs = false ->
  exists e, crop_by_indexes H A il xl zs = Raise e /\ e = IndexErr.
Proof.
  intros W L. rewrite (crop_normal_form H A il xl zs W). unfold crop_norm.
  destruct (negb (crp_structured H)); [eexists; split; reflexivity|].
  destruct (negb (request_okb H il xl zs)); [eexists; split; reflexivity|].
  cbv zeta. rewrite L. eexists; split; reflexivity.
Qed.

(* ---------------- units ---------------- *)
Theorem crop_units_thm H A il xl zs R : wf3 H = true -> crop_by_indexes H A il xl zs = Return R ->
  let H' := out_hdr H (co_fields R) in
  (co_i0 R, co_i1 R) = spec_il H il /\ (co_x0 R, co_x1 R) = spec_xl H xl /\ (co_z0 R, co_z1 R) = spec_zs H zs /\
  co_data_len R = s_data_bytes3 H' /\
  forall i x z, 0 <= i < s_PI H' -> 0 <= x < s_PX H' -> 0 <= z < s_PZ H' ->
    prov_moved (co_reads R) (s_ub3 H') (spec_cell3 H' i x z) (spec_cell3 H (i + co_i0 R) (x + co_x0 R) (z + co_z0 R)).
Proof.
  intros W E. destruct (crop_inv H A il xl zs R W E) as (S & Q & L & P & ->).
  destruct (request_axes H il xl zs W Q) as (Ai & Ax & Az).
  unfold norm_out. cbv zeta. cbn [co_i0 co_i1 co_x0 co_x1 co_z0 co_z1 co_fields co_reads co_data_len].
  split; [symmetry; apply surjective_pairing|]. split; [symmetry; apply surjective_pairing|].
  split; [symmetry; apply surjective_pairing|]. split; [reflexivity|].
  intros i x z Hi Hx Hz. unfold layout_okb in L. apply orb_true_iff in L. destruct L as [L|L].
  - unfold default_b in L. apply andb_true_iff in L. destruct L as [L0 L1]. apply Z.eqb_eq in L0, L1.
    exact (default_units H A W (conj L0 L1) _ _ _ _ _ _ Ai Ax Az i x z Hi Hx Hz).
  - apply andb_true_iff in L. destruct L as [Lx Lz]. unfold full_b in Lx, Lz.
    apply andb_true_iff in Lx, Lz. destruct Lx as [Lx0 Lx1], Lz as [Lz0 Lz1]. apply Z.eqb_eq in Lx0, Lx1, Lz0, Lz1.
    revert Hi Hx Hz. rewrite Lx0, Lx1, Lz0, Lz1. intros Hi Hx Hz.
    exact (rows_units H A W _ _ Ai i x z Hi Hx Hz).
Qed.

(* ---------------- the regenerated header ---------------- *)
(* first sample of the box a whole number of milliseconds: the header stores the start time as an integer *)
Definition good_z (A : axes) (z0 : Z) : bool := (ax_z0_sub_us A + z0 * ax_dt_us A) mod 1000 =? 0.

Theorem crop_header_thm H A il xl zs R : wf3 H = true -> crop_by_indexes H A il xl zs = Return R ->
  let H' := out_hdr H (co_fields R) in let A' := out_axes A (co_fields R) in
  (* dimensions, trace count, structured, sizes *)
  s_nil H' = co_i1 R - co_i0 R /\ s_nxl H' = co_x1 R - co_x0 R /\ s_ns H' = co_z1 R - co_z0 R /\
  s_ntr H' = s_nil H' * s_nxl H' /\ crp_structured H' = true /\ s_hel H' = 4 * s_ntr H' /\
  wf3 H' = true /\ 4096 * s_ndb H' = s_data_bytes3 H' /\ co_data_len R = s_data_bytes3 H' /\
  (* everything else is the source's *)
  s_nhb H' = s_nhb H /\ s_rate_code H' = s_rate_code H /\ s_bs0 H' = s_bs0 H /\ s_bs1 H' = s_bs1 H /\ s_bs2 H' = s_bs2 H /\
  s_nha H' = s_nha H /\ s_ver H' = s_ver H /\ ax_dt_us A' = ax_dt_us A /\ ax_xl_step A' = ax_xl_step A /\
  ax_il_step A' = ax_il_step A /\
  (* the patches are whole, correctly typed words and fit their packers *)
  forallb field_typed (co_fields R) = true /\ forallb pack_ok (co_fields R) = true /\
  (* axes: sub-ranges of the source axes *)
  (forall k, crp_ilines_at A' k = crp_ilines_at A (k + co_i0 R)) /\
  (forall k, crp_xlines_at A' k = crp_xlines_at A (k + co_x0 R)) /\
  (good_z A (co_z0 R) = true -> forall k, z_us A' k = z_us A (k + co_z0 R)).
Proof.
  intros W E. destruct (crop_inv H A il xl zs R W E) as (S & Q & L & P & ->).
  destruct (request_axes H il xl zs W Q) as (Ai & Ax & Az).
  unfold norm_out in *. cbv zeta in *. cbn [co_i0 co_i1 co_x0 co_x1 co_z0 co_z1 co_fields co_reads co_data_len] in *.
  destruct (spec_il H il) as [i0 i1]. destruct (spec_xl H xl) as [x0 x1]. destruct (spec_zs H zs) as [z0 z1].
  cbn [fst snd] in *.
  pose proof (wf3_facts H W) as F.
  pose proof (o_wf H A W i0 i1 x0 x1 z0 z1 Ai Ax Az) as W'.
  pose proof (o_ndb H A W i0 i1 x0 x1 z0 z1 Ai Ax Az) as NDB.
  pose proof (o_hel H A i0 i1 x0 x1 z0 z1) as HEL.
  set (H' := out_hdr H (crp_header_fields H A i0 i1 x0 x1 z0 z1)) in *.
  assert (NTR : s_ntr H' = s_nil H' * s_nxl H') by (change (s_ntr H') with ((x1 - x0) * (i1 - i0)); change (s_nil H') with (i1 - i0); change (s_nxl H') with (x1 - x0); ring).
  split; [reflexivity|]. split; [reflexivity|]. split; [reflexivity|]. split; [exact NTR|].
  split.
  { (* structured *)
    unfold crp_structured. change (rd_blockshape0_v1 H') with (s_bs0 H). pose proof (f_bs0 H F).
    replace (s_bs0 H =? 1) with false by lia.
    unfold rd_tracecount, rd_tracecount_v1. change (h_u32_68 H') with (s_ntr H').
    change (rd_n_ilines_v1 H') with (s_nil H'). change (rd_n_xlines_v1 H') with (s_nxl H').
    change (rd_n_ilines H') with (s_nil H'). change (rd_n_xlines H') with (s_nxl H').
    rewrite NTR. destruct (_ >? _); apply Z.eqb_refl. }
  split; [rewrite HEL; change (s_ntr H') with ((x1 - x0) * (i1 - i0)); reflexivity|].
  split; [exact W'|]. split; [exact NDB|]. split; [reflexivity|].
  do 10 (split; [reflexivity|]).
  split; [reflexivity|]. split; [exact P|].
  split.
  { intro k. unfold crp_ilines_at at 1. change (ax_il0 (out_axes A _)) with (crp_ilines_at A i0).
    change (ax_il_step (out_axes A _)) with (ax_il_step A). unfold crp_ilines_at. ring. }
  split.
  { intro k. unfold crp_xlines_at at 1. change (ax_xl0 (out_axes A _)) with (crp_xlines_at A x0).
    change (ax_xl_step (out_axes A _)) with (ax_xl_step A). unfold crp_xlines_at. ring. }
  intros G k. unfold good_z in G. apply Z.eqb_eq in G.
  unfold z_us, z_start_us. change (ax_dt_us (out_axes A _)) with (ax_dt_us A).
  change (ax_z0_sub_us (out_axes A _)) with 0.
  change (ax_z0_ms (out_axes A _)) with (crp_zslices_at_int32 A z0). unfold crp_zslices_at_int32.
  assert (M : (1000 * ax_z0_ms A + ax_z0_sub_us A + z0 * ax_dt_us A) mod 1000 = 0).
  { replace (1000 * ax_z0_ms A + ax_z0_sub_us A + z0 * ax_dt_us A)
      with (ax_z0_sub_us A + z0 * ax_dt_us A + ax_z0_ms A * 1000) by ring.
    rewrite Z_mod_plus_full. exact G. }
  rewrite (exact_div _ 1000 ltac:(lia) M) at 1.
  rewrite (Z.mul_comm 1000 (_ / 1000)), Z.quot_mul by lia.
  pose proof (exact_div _ 1000 ltac:(lia) M) as EE. lia.
Qed.

(* the integer start time is a real limitation: a 333 us file cropped at sample 128 gets a z axis that is not the
   sub-range of the source's *)
Theorem crop_z_axis_refuted : exists A z0 k, good_z A z0 = false /\
  z_us {| ax_z0_ms := crp_zslices_at_int32 A z0; ax_dt_us := ax_dt_us A; ax_xl0 := 0; ax_xl_step := 1; ax_il0 := 0; ax_il_step := 1;
          ax_z0_sub_us := 0 |} k
  <> z_us A (k + z0).
Proof.
  exists {| ax_z0_ms := 0; ax_dt_us := 333; ax_xl0 := 0; ax_xl_step := 1; ax_il0 := 0; ax_il_step := 1; ax_z0_sub_us := 0 |}, 128, 0.
  split; [reflexivity | vm_compute; discriminate].
Qed.

(* ---------------- the footer ---------------- *)
Lemma stride_512 L : 1 <= L -> L + (- L) mod 512 = 512 + 512 * ((L - 1) / 512).
Proof.
  intro HL. pose proof (Z.div_mod (L - 1) 512 ltac:(lia)) as D. pose proof (Z.mod_pos_bound (L - 1) 512 ltac:(lia)) as B.
  set (q := (L - 1) / 512) in *. set (r := (L - 1) mod 512) in *.
  assert (M : (- L) mod 512 = 511 - r).
  { symmetry. apply (Z.mod_unique (- L) 512 (- q - 1)); [left; lia | lia]. }
  lia.
Qed.

Theorem crop_footer_thm H A il xl zs R : wf3 H = true -> crop_by_indexes H A il xl zs = Return R ->
  s_hel H = 4 * (s_nil H * s_nxl H) ->
  let H' := out_hdr H (co_fields R) in
  co_foot_reshape_ok R = true /\
  footer_count (co_foot_shape R) (co_foot_win R) = s_nil H' * s_nxl H' /\
  (forall i x, 0 <= i < s_nil H' -> 0 <= x < s_nxl H' ->
     footer_src_index (co_foot_shape R) (co_foot_win R) (i * s_nxl H' + x) = (i + co_i0 R) * s_nxl H + (x + co_x0 R)) /\
  (* every array occupies exactly the stride at which a reader of the output looks for the next one *)
  4 * footer_count (co_foot_shape R) (co_foot_win R) + co_foot_pad R = rd_padded_header_entry_length_bytes H'.
Proof.
  intros W E HEL0. destruct (crop_inv H A il xl zs R W E) as (S & Q & L & P & ->).
  destruct (request_axes H il xl zs W Q) as (Ai & Ax & Az).
  unfold norm_out in *. cbv zeta in *.
  cbn [co_i0 co_i1 co_x0 co_x1 co_z0 co_z1 co_fields co_foot_shape co_foot_win co_foot_pad co_foot_reshape_ok] in *.
  pose proof (o_hel H A (fst (spec_il H il)) (snd (spec_il H il)) (fst (spec_xl H xl)) (snd (spec_xl H xl))
                (fst (spec_zs H zs)) (snd (spec_zs H zs))) as HEL.
  destruct (spec_il H il) as [i0 i1]. destruct (spec_xl H xl) as [x0 x1]. destruct (spec_zs H zs) as [z0 z1].
  cbn [fst snd] in *. unfold axis_ok in Ai, Ax.
  set (H' := out_hdr H (crp_header_fields H A i0 i1 x0 x1 z0 z1)) in *.
  change (s_nil H') with (i1 - i0). change (s_nxl H') with (x1 - x0).
  assert (CNT : footer_count (s_nil H, s_nxl H) (i0, i1, x0, x1) = (i1 - i0) * (x1 - x0)).
  { unfold footer_count. rewrite !norm_bound_in by lia. lia. }
  split; [apply orb_true_iff; right; apply Z.eqb_eq; exact HEL0|]. split; [exact CNT|]. split.
  - intros i x Hi Hx. unfold footer_src_index. rewrite !norm_bound_in by lia.
    replace (i * (x1 - x0) + x) with (x + i * (x1 - x0)) by ring.
    rewrite Z.div_add, Z_mod_plus_full by lia. rewrite Z.div_small, Z.mod_small by lia. ring.
  - rewrite CNT. unfold rd_padded_header_entry_length_bytes, rd_padded_header_entry_length_bytes_v1, crp_footer_pad.
    change (rd_file_version_enc_v1 H') with (rd_file_version_enc H).
    change (rd_header_entry_length_bytes_v1 H') with (s_hel H'). rewrite HEL.
    replace (4 * ((x1 - x0) * (i1 - i0))) with (4 * ((i1 - i0) * (x1 - x0))) by ring.
    destruct (_ >? _); [apply stride_512; nia | lia].
Qed.

(* ---------------- by coordinates ---------------- *)
Lemma coord_to_index_sound s st n b c k : coord_to_index s st n b c = Return k -> c = s + k * st /\ 0 <= k <= n.
Proof.
  unfold coord_to_index, axis_find.
  destruct (st =? 0) eqn:Z0.
  - apply Z.eqb_eq in Z0. subst st. destruct ((c =? s) && (0 <? n)) eqn:T.
    + intro E; injection E as <-. apply andb_true_iff in T. lia.
    + destruct (b && (2 <=? n) && (c =? s + n * 0)) eqn:T2; [|discriminate]. intro E; injection E as <-.
      rewrite !andb_true_iff in T2. lia.
  - apply Z.eqb_neq in Z0.
    destruct (((c - s) mod st =? 0) && (0 <=? (c - s) / st) && ((c - s) / st <? n)) eqn:T.
    + intro E; injection E as <-. rewrite !andb_true_iff in T. destruct T as ((T1 & T2) & T3). apply Z.eqb_eq in T1.
      pose proof (Z.div_mod (c - s) st Z0). lia.
    + destruct (b && (2 <=? n) && (c =? s + n * st)) eqn:T2; [|discriminate]. intro E; injection E as <-.
      rewrite !andb_true_iff in T2. lia.
Qed.

Lemma coord_to_index_on_axis s st n b k : st <> 0 -> 0 <= k < n -> coord_to_index s st n b (s + k * st) = Return k.
Proof.
  intros Hst Hk. unfold coord_to_index, axis_find. replace (st =? 0) with false by lia.
  replace (s + k * st - s) with (k * st) by ring. rewrite Z_mod_mult, Z_div_mult_full by assumption.
  replace ((0 =? 0) && (0 <=? k) && (k <? n)) with true by lia. reflexivity.
Qed.

Lemma coord_to_index_stop s st n : st <> 0 -> 2 <= n -> coord_to_index s st n true (s + n * st) = Return n.
Proof.
  intros Hst Hn. unfold coord_to_index, axis_find. replace (st =? 0) with false by lia.
  replace (s + n * st - s) with (n * st) by ring. rewrite Z_mod_mult, Z_div_mult_full by assumption.
  replace ((0 =? 0) && (0 <=? n) && (n <? n)) with false by lia.
  replace (true && (2 <=? n) && (s + n * st =? s + n * st)) with true by lia. reflexivity.
Qed.

Definition on_axis (s st n : Z) (c : option (Z * Z)) (r : option (Z * Z)) : Prop :=
  match c, r with
  | None, None => True
  | Some (ca, cb), Some (a, b) => ca = s + a * st /\ cb = s + b * st /\ 0 <= a <= n /\ 0 <= b <= n
  | _, _ => False
  end.

Lemma coord_range_sound s st n c r : coord_range s st n c = Return r -> on_axis s st n c r.
Proof.
  unfold coord_range. destruct c as [[ca cb]|]; [|intro E; injection E as <-; exact I].
  destruct (coord_to_index s st n crp_coords_include_stop ca) as [a|] eqn:Ea; [|discriminate]. cbn [bind].
  destruct (coord_to_index s st n crp_coords_include_stop cb) as [b|] eqn:Eb; [|discriminate]. cbn [bind].
  intro E; injection E as <-. apply coord_to_index_sound in Ea, Eb. cbn. lia.
Qed.

(* a crop by coordinates that is served is the crop by the indexes of those coordinates; anything else is refused *)
Theorem crop_coords_thm H A ilc xlc zc R : crop_by_coords H A ilc xlc zc = Return R ->
  exists il xl zs,
    on_axis (ax_il0 A) (ax_il_step A) (rd_n_ilines H) ilc il /\ on_axis (ax_xl0 A) (ax_xl_step A) (rd_n_xlines H) xlc xl /\
    on_axis (z_start_us A) (ax_dt_us A) (rd_n_samples H) zc zs /\ crop_by_indexes H A il xl zs = Return R.
Proof.
  unfold crop_by_coords.
  destruct (coord_range (ax_il0 A) _ _ ilc) as [il|] eqn:Ei; [|discriminate]. cbn [bind].
  destruct (coord_range (ax_xl0 A) _ _ xlc) as [xl|] eqn:Ex; [|discriminate]. cbn [bind].
  destruct (coord_range (z_start_us A) _ _ zc) as [zs|] eqn:Ez; [|discriminate]. cbn [bind].
  intro E. exists il, xl, zs. repeat split; try (apply coord_range_sound; assumption). exact E.
Qed.

Lemma coord_range_raise s st n c e : coord_range s st n c = Raise e -> e = IndexErr.
Proof.
  unfold coord_range. destruct c as [[ca cb]|]; [|discriminate].
  assert (K : forall c0 e0, coord_to_index s st n crp_coords_include_stop c0 = Raise e0 -> e0 = IndexErr).
  { intros c0 e0. unfold coord_to_index. destruct (axis_find s st n c0); [discriminate|].
    destruct (_ && _ && _); [discriminate|]. intro E; injection E as <-; reflexivity. }
  destruct (coord_to_index s st n crp_coords_include_stop ca) eqn:Ea; cbn [bind]; [|intro E; injection E as <-; exact (K _ _ Ea)].
  destruct (coord_to_index s st n crp_coords_include_stop cb) eqn:Eb; cbn [bind]; [discriminate|intro E; injection E as <-; exact (K _ _ Eb)].
Qed.

Theorem crop_coords_on_axis H A (il xl zs : option (Z * Z)) :
  let conv s st n (r : option (Z * Z)) := match r with None => None | Some (a, b) => Some (s + a * st, s + b * st) end in
  let okr st n (r : option (Z * Z)) := match r with None => True | Some (a, b) => st <> 0 /\ 0 <= a < n /\ 0 <= b /\ (b < n \/ (b = n /\ 2 <= n)) end in
  okr (ax_il_step A) (rd_n_ilines H) il -> okr (ax_xl_step A) (rd_n_xlines H) xl -> okr (ax_dt_us A) (rd_n_samples H) zs ->
  crop_by_coords H A (conv (ax_il0 A) (ax_il_step A) (rd_n_ilines H) il) (conv (ax_xl0 A) (ax_xl_step A) (rd_n_xlines H) xl)
                     (conv (z_start_us A) (ax_dt_us A) (rd_n_samples H) zs) = crop_by_indexes H A il xl zs.
Proof.
  intros conv okr Oi Ox Oz.
  assert (K : forall s st n r, okr st n r -> coord_range s st n (conv s st n r) = Return r).
  { intros s st n r O. destruct r as [[a b]|]; [|reflexivity]. cbn in O. destruct O as (Hst & Ha & Hb & Hbn).
    unfold conv, coord_range. rewrite coord_to_index_on_axis by assumption. cbn [bind].
    destruct Hbn as [Hbn|[-> Hn]].
    - rewrite coord_to_index_on_axis by (assumption || lia). reflexivity.
    - change crp_coords_include_stop with true. rewrite coord_to_index_stop by assumption. reflexivity. }
  unfold crop_by_coords. rewrite !K by assumption. reflexivity.
Qed.

(* the copied header keeps its length: every executed patch lies inside the header blocks of the source *)
Theorem crop_header_inside H A il xl zs R : wf3 H = true -> 1 <= s_nhb H -> crop_by_indexes H A il xl zs = Return R ->
  forallb (field_inside H) (co_fields R) = true.
Proof.
  intros W N E. destruct (crop_inv H A il xl zs R W E) as (_ & _ & _ & _ & ->).
  unfold norm_out. cbv zeta. cbn [co_fields]. rewrite header_fields_shape.
  cbn [forallb field_inside negb orb]. change (rd_n_header_blocks H) with (s_nhb H).
  replace (72 <=? 4096 * s_nhb H) with true by lia. replace (64 <=? 4096 * s_nhb H) with true by lia.
  replace (60 <=? 4096 * s_nhb H) with true by lia. replace (28 <=? 4096 * s_nhb H) with true by lia.
  replace (24 <=? 4096 * s_nhb H) with true by lia. replace (20 <=? 4096 * s_nhb H) with true by lia.
  replace (16 <=? 4096 * s_nhb H) with true by lia. replace (12 <=? 4096 * s_nhb H) with true by lia.
  replace (8 <=? 4096 * s_nhb H) with true by lia.
  destruct (s_nhb H >? 1) eqn:G; cbn [negb orb andb Z.leb Z.compare Pos.compare Pos.compare_cont]; [|reflexivity].
  replace (7318 <=? 4096 * s_nhb H) with true by lia. reflexivity.
Qed.

(* ---------------- which stored arrays are written (duplicate header words) ---------------- *)
(* a well-formed list of stored keys: distinct words; every entry is an owner (ref = k) or refers to an EARLIER owner *)
Fixpoint table_ok_from (seen : list Z) (T : list (Z * Z)) : bool :=
  match T with
  | [] => true
  | (k, r) :: t =>
    negb (existsb (Z.eqb k) (map fst t)) &&
    ((r =? k) || existsb (Z.eqb r) seen) && table_ok_from (if r =? k then k :: seen else seen) t
  end.
Definition table_ok (T : list (Z * Z)) : bool := table_ok_from [] T.
Definition owners (T : list (Z * Z)) : list (Z * Z) := filter is_owner T.

Lemma footer_filter_owners T : filter (fun e => negb (crp_footer_skip (fst e) (snd e))) T = owners T.
Proof.
  unfold owners. apply filter_ext. intros [k r]. unfold crp_footer_skip, is_owner. cbn [fst snd]. apply negb_involutive.
Qed.

Lemma owner_rank_app P L r acc : ~ In r (map fst P) ->
  owner_rank (P ++ L) r acc = owner_rank L r (acc + Z.of_nat (length (owners P))).
Proof.
  revert acc. induction P as [|e P IH]; intros acc Hn; cbn [app owner_rank owners filter length map In] in *.
  - f_equal. lia.
  - replace (fst e =? r) with false by (symmetry; apply Z.eqb_neq; intro E; apply Hn; left; exact E).
    rewrite IH by (intro I; apply Hn; right; exact I). unfold owners.
    destruct (is_owner e); cbn [length]; f_equal; lia.
Qed.

Lemma distinct_tail k (T : list (Z * Z)) : existsb (Z.eqb k) (map fst T) = false -> ~ In k (map fst T).
Proof.
  intros E I. assert (existsb (Z.eqb k) (map fst T) = true); [|congruence].
  apply existsb_exists. exists k. split; [exact I | apply Z.eqb_refl].
Qed.

(* the arrays written are the source's stored arrays 0, 1, ..., (number of owners) - 1, each once, in order *)
Lemma footer_arrays_from P S seen : table_ok_from seen S = true -> (forall k, In k (map fst S) -> ~ In k (map fst P)) ->
  map (fun e => owner_rank (P ++ S) (snd e) 0) (owners S)
  = zrange_nat (Z.of_nat (length (owners P))) (length (owners S)).
Proof.
  revert P seen. induction S as [|[k r] S IH]; intros P seen Hok Hd; [reflexivity|].
  cbn [table_ok_from] in Hok. rewrite !andb_true_iff in Hok. destruct Hok as ((Hk & Hr) & Hrest).
  apply negb_true_iff in Hk.
  assert (HdS : forall k', In k' (map fst S) -> ~ In k' (map fst (P ++ [(k, r)]))).
  { intros k' I J. rewrite map_app, in_app_iff in J. destruct J as [J|[J|[]]].
    - apply (Hd k'); [right; exact I | exact J].
    - cbn in J. subst k'. exact (distinct_tail k S Hk I). }
  specialize (IH (P ++ [(k, r)]) _ Hrest HdS). rewrite <- app_assoc in IH. cbn [app] in IH.
  unfold owners in *. cbn [filter]. change (is_owner (k, r)) with (r =? k).
  destruct (r =? k) eqn:E.
  - apply Z.eqb_eq in E. subst r. cbn [map length zrange_nat]. f_equal.
    + rewrite owner_rank_app by (apply Hd; left; reflexivity). cbn [owner_rank fst]. rewrite Z.eqb_refl. unfold owners. lia.
    + rewrite IH. rewrite filter_app, app_length. cbn [filter]. unfold is_owner. cbn [fst snd]. rewrite Z.eqb_refl.
      cbn [length]. f_equal. lia.
  - rewrite IH. rewrite filter_app, app_length. cbn [filter]. unfold is_owner. cbn [fst snd]. rewrite E. cbn [length].
    f_equal. lia.
Qed.

Theorem crop_footer_arrays_thm T : table_ok T = true ->
  footer_arrays T = zrange 0 (Z.of_nat (length (owners T))).
Proof.
  intro Hok. unfold footer_arrays. rewrite footer_filter_owners.
  pose proof (footer_arrays_from [] T [] Hok (fun _ _ I => I)) as E. cbn [app owners filter length] in E.
  rewrite E. unfold zrange. rewrite Z.sub_0_r, Nat2Z.id. reflexivity.
Qed.

Corollary crop_footer_arrays_nha H T : table_ok T = true -> Z.of_nat (length (owners T)) = s_nha H ->
  footer_arrays T = zrange 0 (s_nha H) /\ Z.of_nat (length (footer_arrays T)) = s_nha H.
Proof.
  intros Hok Hn. rewrite (crop_footer_arrays_thm T Hok), Hn. split; [reflexivity|].
  unfold zrange. rewrite zrange_nat_length. rewrite <- Hn. lia.
Qed.
