(* C02a / C07a: read_subvolume, read_volume and get_trace of the default layout (blockshape (4, 4, N)).
   The GENERATED loader method ld_read_and_decompress_chunk_range (both values of `multithreading`) followed by the
   reader's final crop returns exactly the specification decoder's cells of the requested box, and issues exactly
   one range read per (inline unit row, crossline unit column) of the box.  Everything is proved for every
   well-formed header and every in-range box by arithmetic: no enumeration. *)
From Coq Require Import ZArith List Bool Lia.
Import ListNotations.
From SZ Require Import Lib.Py Gen.Utils Gen.Version Gen.Reader Spec.Container
  Proofs.PyLemmas Proofs.Layout Proofs.Default Proofs.Enum Proofs.TwoD.
Open Scope Z_scope.

(* ---------------- generic arithmetic ---------------- *)
(* floor and ceiling of a division by 4, as linear facts *)
Lemma fl4 a : 4 * (a / 4) <= a < 4 * (a / 4) + 4.
Proof. pose proof (Z.div_mod a 4 ltac:(lia)). pose proof (Z.mod_pos_bound a 4 ltac:(lia)). lia. Qed.
Lemma cl4 a : a <= 4 * ((a + 3) / 4) < a + 4.
Proof. pose proof (Z.div_mod (a + 3) 4 ltac:(lia)). pose proof (Z.mod_pos_bound (a + 3) 4 ltac:(lia)). lia. Qed.
Lemma mod4_eq a : a mod 4 = a - 4 * (a / 4).
Proof. pose proof (Z.div_mod a 4 ltac:(lia)). lia. Qed.

Lemma div4_add q r : 0 <= r < 4 -> (4 * q + r) / 4 = q.
Proof. intro Hr. symmetry. apply (Z.div_unique_pos (4 * q + r) 4 q r); lia. Qed.
Lemma mod4_add q r : 0 <= r < 4 -> (4 * q + r) mod 4 = r.
Proof. intro Hr. symmetry. apply (Z.mod_unique_pos (4 * q + r) 4 q r); lia. Qed.

(* (q0 * 4 + a) : unit and cell of a voxel addressed relative to a 4-aligned origin *)
Lemma div4_rel o a : (4 * (o / 4) + a) / 4 = o / 4 + a / 4.
Proof.
  pose proof (fl4 a) as Fa. rewrite <- (div4_add (o / 4 + a / 4) (a - 4 * (a / 4))) by lia. f_equal. lia.
Qed.
Lemma mod4_rel o a : (4 * (o / 4) + a) mod 4 = a mod 4.
Proof.
  pose proof (fl4 a) as Fa. rewrite (mod4_eq a). rewrite <- (mod4_add (o / 4 + a / 4) (a - 4 * (a / 4))) by lia.
  f_equal. lia.
Qed.

(* products of bounded non-negative numbers, without nia *)
Lemma mul_le_l a b c : 0 <= a -> b <= c -> a * b <= a * c.
Proof. intros. apply Z.mul_le_mono_nonneg_l; assumption. Qed.
Lemma mul_nonneg a b : 0 <= a -> 0 <= b -> 0 <= a * b.
Proof. intros. apply Z.mul_nonneg_nonneg; assumption. Qed.

(* mixed radix: (i, x) with 0 <= x < N is ordered by i * N + x *)
Lemma radix_lt i x i' x' N : 0 <= x < N -> 0 <= x' < N -> i < i' -> i * N + x + 1 <= i' * N + x'.
Proof.
  intros Hx Hx' Hi. assert (E : (i + 1) * N <= i' * N) by (apply Z.mul_le_mono_nonneg_r; lia). lia.
Qed.

(* a unit lies inside one disk block: unit size ub, m units per block *)
Lemma unit_in_block ub m idx p b : 0 < ub -> 0 < m -> ub * m = 4096 ->
  ub * idx <= p < ub * idx + ub -> 4096 * b <= p < 4096 * b + 4096 ->
  4096 * b <= ub * idx /\ ub * idx + ub <= 4096 * b + 4096.
Proof.
  intros Hub Hm E Hp Hb.
  pose proof (Z.div_mod idx m ltac:(lia)) as DM. pose proof (Z.mod_pos_bound idx m Hm) as MB.
  set (q := idx / m) in *. set (r := idx mod m) in *.
  assert (E1 : ub * idx = 4096 * q + ub * r) by (rewrite DM, <- E; ring).
  assert (E2 : 0 <= ub * r) by (apply mul_nonneg; lia).
  assert (E3 : ub * (r + 1) <= ub * m) by (apply mul_le_l; lia).
  assert (E4 : ub * (r + 1) = ub * r + ub) by ring.
  assert (b = q) by lia. subst b. lia.
Qed.

(* ---------------- ordered, non-overlapping lists of ranges ---------------- *)
(* r ends before r' starts *)
Definition range_before (r r' : Z * Z) : Prop := fst r + snd r <= fst r'.

Lemma fop_app {A} (R : A -> A -> Prop) a b :
  ForallOrdPairs R a -> ForallOrdPairs R b -> (forall x y, In x a -> In y b -> R x y) -> ForallOrdPairs R (a ++ b).
Proof.
  induction a as [|x xs IH]; intros Ha Hb Hab; cbn [app]; [exact Hb|].
  inversion Ha as [|? ? Hx Hxs]; subst. constructor.
  - apply Forall_forall. intros y Hy. apply in_app_iff in Hy. destruct Hy as [Hy|Hy].
    + rewrite Forall_forall in Hx. apply Hx; exact Hy.
    + apply Hab; [left; reflexivity | exact Hy].
  - apply IH; [exact Hxs | exact Hb | intros; apply Hab; [right|]; assumption].
Qed.

Lemma fop_map_zrange_nat {A} (R : A -> A -> Prop) (g : Z -> A) lo n :
  (forall i j, lo <= i < j -> j < lo + Z.of_nat n -> R (g i) (g j)) -> ForallOrdPairs R (map g (zrange_nat lo n)).
Proof.
  revert lo; induction n as [|n IH]; intros lo Hg; cbn [zrange_nat map]; constructor.
  - apply Forall_forall. intros y Hy. apply in_map_iff in Hy. destruct Hy as (j & <- & Hj).
    apply in_zrange_nat in Hj. apply Hg; lia.
  - apply IH. intros i j Hi Hj. apply Hg; lia.
Qed.

Lemma fop_flat_map_zrange_nat {A} (R : A -> A -> Prop) (f : Z -> list A) lo n :
  (forall i, lo <= i < lo + Z.of_nat n -> ForallOrdPairs R (f i)) ->
  (forall i j a b, lo <= i < j -> j < lo + Z.of_nat n -> In a (f i) -> In b (f j) -> R a b) ->
  ForallOrdPairs R (flat_map f (zrange_nat lo n)).
Proof.
  revert lo; induction n as [|n IH]; intros lo Hf Hff; cbn [zrange_nat flat_map]; [constructor|].
  apply fop_app.
  - apply Hf; lia.
  - apply IH; [intros; apply Hf; lia | intros i j a b Hi Hj; apply Hff; lia].
  - intros x y Hx Hy. apply in_flat_map in Hy. destruct Hy as (j & Hj & Hy). apply in_zrange_nat in Hj.
    apply (Hff lo j); try assumption; lia.
Qed.

Lemma fop_grid {A} (R : A -> A -> Prop) (g : Z -> Z -> A) ilo ihi xlo xhi :
  (forall i x i' x', ilo <= i < ihi -> ilo <= i' < ihi -> xlo <= x < xhi -> xlo <= x' < xhi ->
     i < i' \/ (i = i' /\ x < x') -> R (g i x) (g i' x')) ->
  ForallOrdPairs R (flat_map (fun i => map (g i) (zrange xlo xhi)) (zrange ilo ihi)).
Proof.
  intro Hg. unfold zrange at 2. apply fop_flat_map_zrange_nat.
  - intros i Hi. unfold zrange. apply fop_map_zrange_nat. intros x x' Hx Hx'. apply Hg; lia.
  - intros i j a b Hi Hj Ha Hb. apply in_map_iff in Ha, Hb. destruct Ha as (x & <- & Hx), Hb as (x' & <- & Hx').
    apply in_zrange in Hx, Hx'. apply Hg; lia.
Qed.

(* shifting a loop variable: for c in range(n): f(base + c)  ==  for j in range(base, base + n): f(j) *)
Lemma flat_map_shift {B} (f : Z -> list B) base n : 0 <= n ->
  flat_map (fun c => f (base + c)) (zrange 0 n) = flat_map f (zrange base (base + n)).
Proof. intro Hn. rewrite <- (map_add_zrange base n Hn), flat_map_map. reflexivity. Qed.
Lemma map_shift {B} (f : Z -> B) base n : 0 <= n ->
  map (fun c => f (base + c)) (zrange 0 n) = map f (zrange base (base + n)).
Proof. intro Hn. rewrite <- (map_add_zrange base n Hn), map_map. reflexivity. Qed.

Lemma forallb_flat_map_single {A B} (p : B -> bool) (f : A -> B) l :
  (forall x, In x l -> p (f x) = true) -> forallb p (flat_map (fun x => [f x]) l) = true.
Proof.
  intro Hp. apply forallb_forall. intros y Hy. apply in_flat_map in Hy. destruct Hy as (x & Hx & [<-|[]]).
  apply Hp; exact Hx.
Qed.

(* ---------------- the buffer of the chunk-range loader ---------------- *)
(* the placements of loader.read_chunk_range: for i in range(NI): for x in range(NX): one read of NZ units, put at
   position ((i * NX) * NZ + x * NZ) * ub *)
Definition chunk_reads (off : Z -> Z -> Z) (ub NI NX NZ : Z) : list rd :=
  flat_map (fun i => flat_map (fun x => [(off i x, ub * NZ, ((i * NX) * NZ + x * NZ) * ub)]) (zrange 0 NX)) (zrange 0 NI).

Lemma in_chunk_reads off ub NI NX NZ r :
  In r (chunk_reads off ub NI NX NZ) <->
  exists i x, 0 <= i < NI /\ 0 <= x < NX /\ r = (off i x, ub * NZ, ((i * NX) * NZ + x * NZ) * ub).
Proof.
  unfold chunk_reads. rewrite in_flat_map. split.
  - intros (i & Hi & Hr). apply in_flat_map in Hr. destruct Hr as (x & Hx & [<-|[]]).
    apply in_zrange in Hi, Hx. exists i, x. repeat split; lia.
  - intros (i & x & Hi & Hx & ->). exists i. split; [apply in_zrange; lia|].
    apply in_flat_map. exists x. split; [apply in_zrange; lia | left; reflexivity].
Qed.

Lemma chunk_reads_compat off ub NI NX NZ : 0 < ub -> 0 < NZ -> 0 <= NX -> compat (chunk_reads off ub NI NX NZ).
Proof.
  intros Hub HNZ HNX r1 r2 H1 H2. apply in_chunk_reads in H1, H2.
  destruct H1 as (i & x & Hi & Hx & ->), H2 as (i' & x' & Hi' & Hx' & ->). cbn [rd_lo rd_hi].
  set (L := ub * NZ). assert (HL : 0 < L) by (apply Z.mul_pos_pos; assumption).
  replace ((i * NX * NZ + x * NZ) * ub) with ((i * NX + x) * L) by (unfold L; ring).
  replace ((i' * NX * NZ + x' * NZ) * ub) with ((i' * NX + x') * L) by (unfold L; ring).
  assert (K : forall j j', j + 1 <= j' -> j * L + L <= j' * L).
  { intros j j' Hj. replace (j * L + L) with ((j + 1) * L) by ring. apply Z.mul_le_mono_nonneg_r; lia. }
  destruct (Z.lt_trichotomy i i') as [Lt|[Eq|Gt]].
  - right; left. apply K. apply radix_lt; lia.
  - subst i'. destruct (Z.lt_trichotomy x x') as [Lt|[Eq|Gt]].
    + right; left. apply K. lia.
    + subst x'. left. reflexivity.
    + right; right. apply K. lia.
  - right; right. apply K. apply radix_lt; lia.
Qed.

(* where the code of unit ((i * NX + x) * NZ + c) of the buffer comes from *)
Lemma chunk_reads_src off ub NI NX NZ i x c : 0 < ub -> 0 <= NX ->
  0 <= i < NI -> 0 <= x < NX -> 0 <= c < NZ ->
  unit_src (chunk_reads off ub NI NX NZ) (((i * NX + x) * NZ + c) * ub) (((i * NX + x) * NZ + c + 1) * ub)
  = SrcAt (off i x + c * ub).
Proof.
  intros Hub HNX Hi Hx Hc.
  rewrite (unit_src_hit _ (off i x, ub * NZ, ((i * NX) * NZ + x * NZ) * ub)).
  - cbn [rd_src]. f_equal. ring.
  - apply chunk_reads_compat; lia.
  - apply in_chunk_reads. exists i, x. repeat split; lia.
  - cbn [rd_lo]. assert (0 <= c * ub) by (apply mul_nonneg; lia). lia.
  - cbn [rd_hi]. assert ((c + 1) * ub <= NZ * ub) by (apply Z.mul_le_mono_nonneg_r; lia). lia.
  - lia.
Qed.

Lemma chunk_reads_of off ub NI NX NZ :
  reads_of (chunk_reads off ub NI NX NZ) =
  flat_map (fun i => map (fun x => (off i x, ub * NZ)) (zrange 0 NX)) (zrange 0 NI).
Proof.
  unfold reads_of, chunk_reads. rewrite map_flat_map. apply flat_map_ext_in. intros i _.
  rewrite map_flat_map_single. reflexivity.
Qed.

Lemma chunk_mapM (off : Z -> Z -> Z) ub NI NX NZ :
  flat_mapM (fun i => bind (flat_mapM (fun x => Return [(off i x, ub * NZ, ((i * NX) * NZ + x * NZ) * ub)]) (zrange 0 NX))
                           (fun fs1 => Return fs1)) (zrange 0 NI)
  = Return (chunk_reads off ub NI NX NZ).
Proof.
  unfold chunk_reads. apply flat_mapM_Return. intros i _.
  rewrite (flat_mapM_Return _ (fun x => [(off i x, ub * NZ, ((i * NX) * NZ + x * NZ) * ub)])) by (intros; reflexivity).
  reflexivity.
Qed.

Lemma cdiv_mul4 n : cdiv (n * 4) 4 = n.
Proof. unfold cdiv. replace (n * 4 + 4 - 1) with (4 * n + 3) by ring. apply div4_add. lia. Qed.

Lemma list_eqb_refl l : list_eqb l l = true.
Proof.
  unfold list_eqb. rewrite Nat.eqb_refl. cbn [andb].
  induction l as [|a l IH]; cbn [combine forallb fst snd]; [reflexivity|]. rewrite Z.eqb_refl, IH. reflexivity.
Qed.

(* ---------------- the chunk-range loader of the default layout ---------------- *)
Section SUBVOL.
Variable H : hdr.
Hypothesis W : wf3 H = true.
Hypothesis D : default_layout H.
Let F := wf3_facts H W.

(* offset of the read the loader issues for unit row i0/4 + i, unit column x0/4 + x of the box *)
Definition chunk_off (H : hdr) (i0 x0 z0 i x : Z) : Z :=
  s_ub3 H * ((((i0 / 4 + i) * (s_PX H / 4)) * (s_PZ H / 4) + (x0 / 4 + x) * (s_PZ H / 4)) + z0 / 4).

Lemma chunk_off_spec i0 x0 z0 i x c : 0 <= z0 -> 0 <= c ->
  chunk_off H i0 x0 z0 i x + c * s_ub3 H = s_ub3 H * unit_index3 H (i0 / 4 + i) (x0 / 4 + x) (z0 / 4 + c).
Proof.
  intros Hz Hc. unfold chunk_off. rewrite (unit_index3_default H W D).
  - ring.
  - assert (0 <= z0 / 4) by (apply Z.div_pos; lia). lia.
Qed.

(* a cell of the decompressed buffer *)
Lemma chunk_decomp i0 x0 z0 NI NX NZ base shape idx i x cz :
  in_shape shape idx = true -> length shape = 3%nat -> 0 <= NX ->
  0 <= i < NI -> 0 <= x < NX -> 0 <= cz < NZ ->
  base + unit_no shape idx 0 * s_ub3 H = ((i * NX + x) * NZ + cz) * s_ub3 H ->
  decomp_cell (rd_rate_n H) (rd_rate_d H) (chunk_reads (chunk_off H i0 x0 z0) (s_ub3 H) NI NX NZ) base shape idx
  = PUnit (chunk_off H i0 x0 z0 i x + cz * s_ub3 H) (cell_no idx 0).
Proof.
  intros Hin Hlen HNX Hi Hx Hc Hk. unfold decomp_cell. rewrite Hin, Hlen, (r_ubof H F). cbn [negb]. cbv iota.
  replace (base + (unit_no shape idx 0 + 1) * s_ub3 H) with (base + unit_no shape idx 0 * s_ub3 H + s_ub3 H) by ring.
  rewrite Hk.
  replace (((i * NX + x) * NZ + cz) * s_ub3 H + s_ub3 H) with (((i * NX + x) * NZ + cz + 1) * s_ub3 H) by ring.
  rewrite chunk_reads_src; [reflexivity | apply (f_ub H F) | lia | lia | lia | lia].
Qed.

Lemma chunk_range_ok i0 i1 x0 x1 z0 z1 (mt : bool) :
  0 <= i0 < i1 -> 0 <= x0 < x1 -> 0 <= z0 < z1 ->
  exists v, ld_read_and_decompress_chunk_range H i1 x1 z1 i0 x0 z0 mt = Return v /\
    av_shape v = [((i1 + 3) / 4 - i0 / 4) * 4; ((x1 + 3) / 4 - x0 / 4) * 4; ((z1 + 3) / 4 - z0 / 4) * 4] /\
    (forall a b c, 0 <= a < ((i1 + 3) / 4 - i0 / 4) * 4 -> 0 <= b < ((x1 + 3) / 4 - x0 / 4) * 4 ->
                   0 <= c < ((z1 + 3) / 4 - z0 / 4) * 4 ->
       av_cell v [a; b; c] = spec_cell3 H (4 * (i0 / 4) + a) (4 * (x0 / 4) + b) (4 * (z0 / 4) + c)) /\
    av_reads v = flat_map (fun iu => map (fun xu => (s_ub3 H * unit_index3 H iu xu (z0 / 4),
                                                    s_ub3 H * ((z1 + 3) / 4 - z0 / 4)))
                                        (zrange (x0 / 4) ((x1 + 3) / 4)))
                          (zrange (i0 / 4) ((i1 + 3) / 4)).
Proof.
  intros Hi Hx Hz. unfold ld_read_and_decompress_chunk_range.
  rewrite (r_fl_p2 H F), (r_ub H F), (r_P1 H F), (r_P2 H F). cbv iota.
  pose proof (fl4 i0) as Fi. pose proof (cl4 i1) as Ci. pose proof (fl4 x0) as Fx. pose proof (cl4 x1) as Cx.
  pose proof (fl4 z0) as Fz. pose proof (cl4 z1) as Cz.
  set (NI := (i1 + 3) / 4 - i0 / 4) in *. set (NX := (x1 + 3) / 4 - x0 / 4) in *. set (NZ := (z1 + 3) / 4 - z0 / 4) in *.
  assert (ENI : i0 / 4 + NI = (i1 + 3) / 4) by (unfold NI; ring).
  assert (ENX : x0 / 4 + NX = (x1 + 3) / 4) by (unfold NX; ring).
  assert (HNI : 0 < NI) by lia. assert (HNX : 0 < NX) by lia. assert (HNZ : 0 < NZ) by lia.
  pose proof (f_ub H F) as Ub.
  match goal with |- context [bind (flat_mapM ?f (zrange 0 NI)) _] =>
    replace (flat_mapM f (zrange 0 NI)) with (Return (chunk_reads (chunk_off H i0 x0 z0) (s_ub3 H) NI NX NZ))
      by (symmetry; apply (chunk_mapM (chunk_off H i0 x0 z0) (s_ub3 H) NI NX NZ)) end.
  cbn [bind].
  set (fs := chunk_reads (chunk_off H i0 x0 z0) (s_ub3 H) NI NX NZ).
  assert (RD : reads_of fs =
    flat_map (fun iu => map (fun xu => ((s_ub3 H) * unit_index3 H iu xu (z0 / 4), (s_ub3 H) * NZ)) (zrange (x0 / 4) (x0 / 4 + NX)))
             (zrange (i0 / 4) (i0 / 4 + NI))).
  { unfold fs. rewrite chunk_reads_of.
    rewrite <- (flat_map_shift (fun iu => map (fun xu => ((s_ub3 H) * unit_index3 H iu xu (z0 / 4), (s_ub3 H) * NZ))
                                             (zrange (x0 / 4) (x0 / 4 + NX))) (i0 / 4) NI) by lia.
    apply flat_map_ext_in. intros i _.
    rewrite <- (map_shift (fun xu => ((s_ub3 H) * unit_index3 H (i0 / 4 + i) xu (z0 / 4), (s_ub3 H) * NZ)) (x0 / 4) NX) by lia.
    apply map_ext. intro x. f_equal.
    pose proof (chunk_off_spec i0 x0 z0 i x 0 ltac:(lia) ltac:(lia)) as E.
    replace (z0 / 4 + 0) with (z0 / 4) in E by ring. rewrite <- E. ring. }
  rewrite ENI, ENX in RD.
  (* the provenance of a cell, common to both branches *)
  assert (SPEC : forall a b c, 0 <= a < NI * 4 -> 0 <= b < NX * 4 -> 0 <= c < NZ * 4 ->
    PUnit (chunk_off H i0 x0 z0 (a / 4) (b / 4) + c / 4 * (s_ub3 H)) (((a mod 4) * 4 + b mod 4) * 4 + c mod 4)
    = spec_cell3 H (4 * (i0 / 4) + a) (4 * (x0 / 4) + b) (4 * (z0 / 4) + c)).
  { intros a b c Ha Hb Hc. unfold spec_cell3. rewrite !div4_rel, !mod4_rel.
    pose proof (fl4 c) as Fc. rewrite (chunk_off_spec i0 x0 z0 (a / 4) (b / 4) (c / 4)) by lia. reflexivity. }
  destruct mt.
  - (* multithreading: one decompress per unit row, assembled into np.zeros *)
    replace (NZ * NX * NI * (s_ub3 H) / NI) with (NZ * NX * (s_ub3 H)).
    2:{ replace (NZ * NX * NI * (s_ub3 H)) with ((NZ * NX * (s_ub3 H)) * NI) by ring. symmetry. apply Z_div_mult. lia. }
    match goal with |- context [a_zeros_fill ?s ?f] => set (shape := s); set (fills := f) end.
    unfold a_zeros_fill.
    assert (OK : forallb (fill_ok shape) fills = true).
    { unfold fills. apply forallb_flat_map_single. intros u Hu. apply in_zrange in Hu.
      unfold fill_ok, shape. cbn [fst snd subs_ok slice_shape a_decomp_part av_shape].
      rewrite !norm_bound_in by lia. replace (Z.max 0 (u * 4 + 4 - u * 4)) with 4 by lia.
      rewrite list_eqb_refl. reflexivity. }
    rewrite OK. cbn [negb bind]. cbv iota. cbn [bind].
    eexists. split; [reflexivity|]. cbn [a_with_reads av_shape av_cell av_reads].
    split; [reflexivity|]. split; [|exact RD].
    intros a b c Ha Hb Hc. unfold shape at 1. rewrite in_shape3 by lia. unfold fill_cell.
    pose proof (fl4 a) as Fa. pose proof (fl4 b) as Fb. pose proof (fl4 c) as Fc.
    set (u := a / 4) in *.
    assert (HIT : forall u', 0 <= u' < NI ->
      fill_hit shape [SRng (u' * 4) (u' * 4 + 4); SFull; SFull] [a; b; c] =
      if (u' * 4 <=? a) && (a <? u' * 4 + 4) then Some [a - u' * 4; b; c] else None).
    { intros u' Hu'. unfold shape. cbn [fill_hit]. rewrite !norm_bound_in by lia.
      destruct ((u' * 4 <=? a) && (a <? u' * 4 + 4)); reflexivity. }
    rewrite (fill_lookup_unique shape fills [a; b; c] [SRng (u * 4) (u * 4 + 4); SFull; SFull]
               (a_decomp_part (rd_rate_n H) (rd_rate_d H) fs (u * (NZ * NX * (s_ub3 H))) ((u + 1) * (NZ * NX * (s_ub3 H)))
                  [4; NX * 4; NZ * 4]) [a - u * 4; b; c]).
    + cbn [a_decomp_part av_shape av_cell length Nat.eqb]. unfold fs.
      rewrite (chunk_decomp i0 x0 z0 NI NX NZ _ _ _ u (b / 4) (c / 4)).
      * rewrite <- SPEC by lia. fold u. cbn [cell_no]. f_equal.
        rewrite (Z.mod_small (a - u * 4) 4) by lia. rewrite (mod4_eq a). fold u. ring.
      * apply in_shape3; lia.
      * reflexivity.
      * lia.
      * lia.
      * lia.
      * lia.
      * cbn [unit_no]. rewrite !cdiv_mul4. rewrite (Z.div_small (a - u * 4) 4) by lia. ring.
    + unfold fills. apply in_flat_map. exists u. split; [apply in_zrange; lia | left; reflexivity].
    + rewrite HIT by lia. replace ((u * 4 <=? a) && (a <? u * 4 + 4)) with true by lia. reflexivity.
    + intros s' v' j' Hin Hh. unfold fills in Hin. apply in_flat_map in Hin. destruct Hin as (u' & Hu' & [E|[]]).
      apply in_zrange in Hu'. injection E as <- <-. rewrite HIT in Hh by lia.
      destruct ((u' * 4 <=? a) && (a <? u' * 4 + 4)) eqn:Q; [|discriminate].
      assert (u' = u) by lia. subst u'. injection Hh as <-. reflexivity.
  - (* one decompress of the whole buffer *)
    eexists. split; [reflexivity|]. cbn [a_decomp av_shape av_cell av_reads].
    split; [reflexivity|]. split; [|exact RD].
    intros a b c Ha Hb Hc.
    pose proof (fl4 a) as Fa. pose proof (fl4 b) as Fb. pose proof (fl4 c) as Fc.
    unfold fs. rewrite (chunk_decomp i0 x0 z0 NI NX NZ _ _ _ (a / 4) (b / 4) (c / 4)).
    + rewrite <- SPEC by lia. cbn [cell_no]. f_equal; ring.
    + apply in_shape3; lia.
    + reflexivity.
    + lia.
    + lia.
    + lia.
    + lia.
    + cbn [unit_no]. rewrite !cdiv_mul4. ring.
Qed.
End SUBVOL.

(* ---------------- read_subvolume / read_volume ---------------- *)
(* the range reads of a box, in the order the loader issues them: one per (inline unit row, crossline unit column),
   each covering the z units z0/4 .. (z1+3)/4 - 1 of that column *)
Definition sub_reads (H : hdr) (i0 i1 x0 x1 z0 z1 : Z) : list (Z * Z) :=
  flat_map (fun iu => map (fun xu => (s_ub3 H * unit_index3 H iu xu (z0 / 4), s_ub3 H * ((z1 + 3) / 4 - z0 / 4)))
                          (zrange (x0 / 4) ((x1 + 3) / 4)))
           (zrange (i0 / 4) ((i1 + 3) / 4)).

Section SUBVOL2.
Variable H : hdr.
Hypothesis W : wf3 H = true.
Hypothesis D : default_layout H.
Let F := wf3_facts H W.

(* access_padding = true: bounds against the padded extents (internal callers); false: the public entry *)
Lemma subvolume_gen (ap mt : bool) i0 i1 x0 x1 z0 z1 :
  0 <= i0 < i1 -> i1 <= (if ap then s_PI H else s_nil H) ->
  0 <= x0 < x1 -> x1 <= (if ap then s_PX H else s_nxl H) ->
  0 <= z0 < z1 -> z1 <= (if ap then s_PZ H else s_ns H) ->
  exists v, rd_read_subvolume H i0 i1 x0 x1 z0 z1 ap mt = Return v /\
    av_shape v = [i1 - i0; x1 - x0; z1 - z0] /\
    (forall i x z, 0 <= i < i1 - i0 -> 0 <= x < x1 - x0 -> 0 <= z < z1 - z0 ->
       av_cell v [i; x; z] = spec_cell3 H (i0 + i) (x0 + x) (z0 + z)) /\
    av_reads v = sub_reads H i0 i1 x0 x1 z0 z1.
Proof.
  intros Hi Hi1 Hx Hx1 Hz Hz1. unfold rd_read_subvolume.
  rewrite (r_not2d H F), (r_P0 H F), (r_P1 H F), (r_P2 H F), (r_nil H F), (r_nxl H F), (r_ns H F),
    (r_bs0 H F), (r_bs1 H F).
  pose proof D as [D0 D1]. rewrite D0, D1. cbv iota.
  set (L0 := if ap then s_PI H else s_nil H) in *. set (L1 := if ap then s_PX H else s_nxl H) in *.
  set (L2 := if ap then s_PZ H else s_ns H) in *.
  replace ((0 <=? i0) && (i0 <? L0) && ((0 <? i1) && (i1 <=? L0)) && (i1 >? i0)) with true by lia.
  replace ((0 <=? x0) && (x0 <? L1) && ((0 <? x1) && (x1 <=? L1)) && (x1 >? x0)) with true by lia.
  replace ((0 <=? z0) && (z0 <? L2) && ((0 <? z1) && (z1 <=? L2)) && (z1 >? z0)) with true by lia.
  cbn [negb]. cbv iota. change ((4 =? 4) && (4 =? 4)) with true. cbv iota.
  destruct (chunk_range_ok H W D i0 i1 x0 x1 z0 z1 mt Hi Hx Hz) as (r & Er & Sr & Cr & Rr).
  rewrite Er. cbn [bind]. unfold a_slice. rewrite Sr. cbn [subs_ok slice_shape negb]. cbv iota.
  pose proof (fl4 i0) as Fi. pose proof (cl4 i1) as Ci. pose proof (fl4 x0) as Fx. pose proof (cl4 x1) as Cx.
  pose proof (fl4 z0) as Fz. pose proof (cl4 z1) as Cz.
  pose proof (mod4_eq i0) as Mi. pose proof (mod4_eq x0) as Mx. pose proof (mod4_eq z0) as Mz.
  rewrite !norm_bound_in by lia.
  replace (Z.max 0 (i0 mod 4 + i1 - i0 - i0 mod 4)) with (i1 - i0) by lia.
  replace (Z.max 0 (x0 mod 4 + x1 - x0 - x0 mod 4)) with (x1 - x0) by lia.
  replace (Z.max 0 (z0 mod 4 + z1 - z0 - z0 mod 4)) with (z1 - z0) by lia.
  eexists. split; [reflexivity|]. cbn [av_shape av_cell av_reads]. split; [reflexivity|]. split.
  - intros i x z Hi' Hx' Hz'. rewrite in_shape3 by lia. cbn [slice_index]. rewrite !norm_bound_in by lia.
    rewrite Cr by lia. f_equal; lia.
  - exact Rr.
Qed.

(* the public entry, both values of the multithreading flag *)
Lemma read_subvolume_default (mt : bool) i0 i1 x0 x1 z0 z1 :
  0 <= i0 < i1 -> i1 <= s_nil H -> 0 <= x0 < x1 -> x1 <= s_nxl H -> 0 <= z0 < z1 -> z1 <= s_ns H ->
  exists v, rd_read_subvolume H i0 i1 x0 x1 z0 z1 false mt = Return v /\
    av_shape v = [i1 - i0; x1 - x0; z1 - z0] /\
    (forall i x z, 0 <= i < i1 - i0 -> 0 <= x < x1 - x0 -> 0 <= z < z1 - z0 ->
       av_cell v [i; x; z] = spec_cell3 H (i0 + i) (x0 + x) (z0 + z)) /\
    av_reads v = sub_reads H i0 i1 x0 x1 z0 z1.
Proof. exact (subvolume_gen false mt i0 i1 x0 x1 z0 z1). Qed.

Lemma read_subvolume_padded (mt : bool) i0 i1 x0 x1 z0 z1 :
  0 <= i0 < i1 -> i1 <= s_PI H -> 0 <= x0 < x1 -> x1 <= s_PX H -> 0 <= z0 < z1 -> z1 <= s_PZ H ->
  exists v, rd_read_subvolume H i0 i1 x0 x1 z0 z1 true mt = Return v /\
    av_shape v = [i1 - i0; x1 - x0; z1 - z0] /\
    (forall i x z, 0 <= i < i1 - i0 -> 0 <= x < x1 - x0 -> 0 <= z < z1 - z0 ->
       av_cell v [i; x; z] = spec_cell3 H (i0 + i) (x0 + x) (z0 + z)) /\
    av_reads v = sub_reads H i0 i1 x0 x1 z0 z1.
Proof. exact (subvolume_gen true mt i0 i1 x0 x1 z0 z1). Qed.

Lemma read_volume_default :
  exists v, rd_read_volume H = Return v /\ av_shape v = [s_nil H; s_nxl H; s_ns H] /\
    (forall i x z, 0 <= i < s_nil H -> 0 <= x < s_nxl H -> 0 <= z < s_ns H -> av_cell v [i; x; z] = spec_cell3 H i x z) /\
    av_reads v = sub_reads H 0 (s_nil H) 0 (s_nxl H) 0 (s_ns H).
Proof.
  unfold rd_read_volume. rewrite (r_nil H F), (r_nxl H F), (r_ns H F).
  pose proof (f_nil H F). pose proof (f_nxl H F). pose proof (f_ns H F).
  destruct (read_subvolume_default true 0 (s_nil H) 0 (s_nxl H) 0 (s_ns H)) as (v & Ev & Sv & Cv & Rv); try lia.
  exists v. split; [exact Ev|]. rewrite !Z.sub_0_r in *. split; [exact Sv|]. split; [|exact Rv].
  intros i x z Hi Hx Hz. rewrite Cv by lia. f_equal; lia.
Qed.
End SUBVOL2.

(* ---------------- get_trace on a 3D file ---------------- *)
(* the structured-3D branch of get_trace, common to the four (min_sample_id, max_sample_id) shapes *)
Definition gt3_body (H : hdr) (index lo hi : Z) : outcome arrv :=
  if (negb ((0 <=? index) && (index <? ((rd_n_ilines H) * (rd_n_xlines H))))) then Raise IndexErr
  else if (negb ((0 <=? lo) && (lo <? hi) && (hi <=? (rd_n_samples H)))) then Raise IndexErr
  else if (rd_blockshape2_isfloat H) then Raise TypeErr
  else bind (rd_read_containing_chunk H
               ((rd_blockshape0 H) * ((index / (rd_n_xlines H)) / (rd_blockshape0 H)))
               ((rd_blockshape1 H) * ((index mod (rd_n_xlines H)) / (rd_blockshape1 H)))
               ((rd_blockshape2 H) * (lo / (rd_blockshape2 H)))
               ((rd_blockshape2 H) * (((hi + (rd_blockshape2 H)) - 1) / (rd_blockshape2 H))))
            (fun r10 => a_slice r10 [SIdx ((index / (rd_n_xlines H)) mod (rd_blockshape0 H));
                                     SIdx ((index mod (rd_n_xlines H)) mod (rd_blockshape1 H));
                                     SRng (lo - ((rd_blockshape2 H) * (lo / (rd_blockshape2 H))))
                                          (hi - ((rd_blockshape2 H) * (lo / (rd_blockshape2 H))))]).

Lemma mul_mod_0 m q : (m * q) mod m = 0.
Proof. rewrite Z.mul_comm. apply Z_mod_mult. Qed.
Lemma mul_div_l m q : 0 < m -> m * q / m = q.
Proof. intro. rewrite Z.mul_comm. apply Z_div_mult. lia. Qed.

Lemma fl_m a m : 0 < m -> m * (a / m) <= a < m * (a / m) + m.
Proof. intro Hm. pose proof (Z.div_mod a m ltac:(lia)). pose proof (Z.mod_pos_bound a m Hm). lia. Qed.

(* a number in [lo, hi) whose quotient by m is u, for every u between the floor of lo and the ceiling of hi *)
Lemma pick_in m lo hi u : 0 < m -> lo < hi -> lo / m <= u < (hi + m - 1) / m ->
  exists v, lo <= v < hi /\ v / m = u.
Proof.
  intros Hm Hlh Hu. pose proof (fl_m lo m Hm) as Fl. pose proof (cdiv_bounds hi m Hm) as Ch.
  exists (Z.max lo (m * u)).
  assert (U1 : lo / m = u \/ m * (lo / m) + m <= m * u).
  { destruct (Z.eq_dec (lo / m) u) as [E|N]; [left; exact E | right].
    replace (m * (lo / m) + m) with (m * (lo / m + 1)) by ring. apply mul_le_l; lia. }
  assert (U2 : m * u + m <= m * ((hi + m - 1) / m)).
  { replace (m * u + m) with (m * (u + 1)) by ring. apply mul_le_l; lia. }
  split; [lia|].
  symmetry. apply (Z.div_unique_pos _ m u (Z.max lo (m * u) - m * u)); lia.
Qed.
Lemma pick_in4 lo hi u : lo < hi -> lo / 4 <= u < (hi + 3) / 4 -> exists v, lo <= v < hi /\ v / 4 = u.
Proof. intros Hlh Hu. apply (pick_in 4 lo hi u); [lia | exact Hlh|]. replace (hi + 4 - 1) with (hi + 3) by ring. exact Hu. Qed.

Section TRACE3.
Variable H : hdr.
Variable mask_nth : Z -> outcome Z.
Hypothesis W : wf3 H = true.
Hypothesis D : default_layout H.
Let F := wf3_facts H W.

(* a structured file (every grid position holds a trace), or the caller overrides the unstructured mapping
   (this is how the diagonals call get_trace) *)
Lemma get_trace_3d_unfold t lo hi ov :
  ov = true \/ rd_tracecount H = s_nil H * s_nxl H ->
  rd_get_trace mask_nth H t lo hi ov = gt3_body H t (win_lo lo) (win_hi H hi).
Proof.
  intro S. unfold rd_get_trace, gt3_body, win_lo, win_hi. rewrite (r_not2d H F).
  assert (G : negb (rd_tracecount H =? rd_n_ilines H * rd_n_xlines H) && negb ov = false).
  { destruct S as [->|E]; [apply andb_false_r|]. rewrite (r_nil H F), (r_nxl H F), E, Z.eqb_refl. reflexivity. }
  destruct lo, hi; cbv iota; rewrite G; reflexivity.
Qed.

(* first unit of a block column: the offset is block aligned *)
Lemma block_offset3 iu xu zb : 0 <= zb ->
  s_ub3 H * unit_index3 H iu xu ((s_bs2 H / 4) * zb) = 4096 * ((iu * (s_PX H / 4) + xu) * (s_PZ H / s_bs2 H) + zb).
Proof.
  intro Hzb. pose proof (f_bs2 H F) as B2.
  assert (U2 : 0 < s_bs2 H / 4) by (apply Z.div_str_pos; lia).
  rewrite (unit_index3_default H W D) by (apply mul_nonneg; lia).
  rewrite (PZ4 H W), <- (ub_u2 H W D). ring.
Qed.

Lemma gt3_body_ok t a b :
  0 <= t < s_nil H * s_nxl H -> 0 <= a < b -> b <= s_ns H ->
  exists v, gt3_body H t a b = Return v /\ av_shape v = [b - a] /\
    (forall z, 0 <= z < b - a -> av_cell v [z] = spec_cell3 H (t / s_nxl H) (t mod s_nxl H) (a + z)) /\
    av_reads v = [(s_ub3 H * unit_index3 H (t / s_nxl H / 4) (t mod s_nxl H / 4) ((s_bs2 H / 4) * (a / s_bs2 H)),
                   4096 * ((b + s_bs2 H - 1) / s_bs2 H - a / s_bs2 H))].
Proof.
  intros Ht Ha Hb. unfold gt3_body, rd_read_containing_chunk.
  rewrite (r_nil H F), (r_nxl H F), (r_ns H F), (r_bs0 H F), (r_bs1 H F), (r_bs2 H F), (r_fl_bs2 H F).
  pose proof D as [D0 D1]. rewrite D0, D1.
  replace ((0 <=? t) && (t <? s_nil H * s_nxl H)) with true by lia. cbn [negb]. cbv iota.
  replace ((0 <=? a) && (a <? b) && (b <=? s_ns H)) with true by lia. cbn [negb]. cbv iota.
  rewrite !mul_mod_0. change (0 =? 0) with true. cbn [negb]. cbv iota.
  pose proof (f_nil H F) as NIL. pose proof (f_nxl H F) as NXL. pose proof (f_ns H F) as NS.
  pose proof (f_bs2 H F) as B2. pose proof (f_bs2m H F) as B2m.
  destruct (f_PI H F) as (PI1 & _ & PI4 & _). destruct (f_PX H F) as (PX1 & _ & PX4 & _).
  destruct (f_PZ H F) as (PZ1 & _ & PZ4' & _).
  pose proof (exact_div (s_PI H) 4 ltac:(lia) PI4) as PIe. pose proof (exact_div (s_PX H) 4 ltac:(lia) PX4) as PXe.
  pose proof (exact_div (s_bs2 H) 4 ltac:(lia) B2m) as B2e.
  assert (Til : 0 <= t / s_nxl H < s_nil H).
  { split; [apply Z.div_pos; lia | apply Z.div_lt_upper_bound; lia]. }
  pose proof (Z.mod_pos_bound t (s_nxl H) ltac:(lia)) as Txl.
  set (il := t / s_nxl H) in *. set (xl := t mod s_nxl H) in *.
  pose proof (fl4 il) as Fil. pose proof (fl4 xl) as Fxl. pose proof (mod4_eq il) as Mil. pose proof (mod4_eq xl) as Mxl.
  pose proof (fl_m a (s_bs2 H) ltac:(lia)) as Fa. pose proof (cdiv_bounds b (s_bs2 H) ltac:(lia)) as Cb.
  assert (Zb0 : 0 <= a / s_bs2 H) by (apply Z.div_pos; lia).
  assert (PZle : s_bs2 H * ((b + s_bs2 H - 1) / s_bs2 H) <= s_PZ H).
  { unfold s_PZ, pad_to. apply mul_le_l; [lia|]. apply Z.div_le_mono; lia. }
  set (zb0 := a / s_bs2 H) in *. set (zb1 := (b + s_bs2 H - 1) / s_bs2 H) in *.
  destruct (subvolume_gen H W D true false (4 * (il / 4)) (4 * (il / 4) + 4) (4 * (xl / 4)) (4 * (xl / 4) + 4)
              (s_bs2 H * zb0) (s_bs2 H * zb1)) as (r & Er & Sr & Cr & Rr); try lia.
  rewrite Er. cbn [bind]. unfold a_slice. rewrite Sr.
  replace (4 * (il / 4) + 4 - 4 * (il / 4)) with 4 in * by ring.
  replace (4 * (xl / 4) + 4 - 4 * (xl / 4)) with 4 in * by ring.
  cbn [subs_ok slice_shape].
  match goal with |- context [if negb ?c then _ else _] => replace c with true by lia end.
  cbn [negb]. cbv iota.
  rewrite !norm_bound_in by lia.
  replace (Z.max 0 (b - s_bs2 H * zb0 - (a - s_bs2 H * zb0))) with (b - a) by lia.
  eexists. split; [reflexivity|]. cbn [av_shape av_cell av_reads]. split; [reflexivity|]. split.
  - intros z Hz. rewrite in_shape1 by lia. cbn [slice_index].
    replace (il mod 4 <? 0) with false by lia. replace (xl mod 4 <? 0) with false by lia.
    rewrite !norm_bound_in by lia. rewrite Cr by lia. f_equal; lia.
  - rewrite Rr. unfold sub_reads.
    rewrite !mul_div_l by lia.
    replace ((4 * (il / 4) + 4 + 3) / 4) with (il / 4 + 1) by (apply Z.div_unique_pos with (r := 3); lia).
    replace ((4 * (xl / 4) + 4 + 3) / 4) with (xl / 4 + 1) by (apply Z.div_unique_pos with (r := 3); lia).
    rewrite !zrange_single. cbn [flat_map map app].
    assert (E0 : s_bs2 H * zb0 / 4 = s_bs2 H / 4 * zb0).
    { rewrite B2e at 1. replace (4 * (s_bs2 H / 4) * zb0) with (4 * (s_bs2 H / 4 * zb0)) by ring. apply mul_div_l. lia. }
    assert (E1 : (s_bs2 H * zb1 + 3) / 4 = s_bs2 H / 4 * zb1).
    { rewrite B2e at 1. replace (4 * (s_bs2 H / 4) * zb1 + 3) with (4 * (s_bs2 H / 4 * zb1) + 3) by ring.
      apply div4_add. lia. }
    rewrite E0, E1. f_equal. f_equal. rewrite <- (ub_u2 H W D). ring.
Qed.

(* get_trace(index, min_sample_id, max_sample_id): None = from the first / to the last sample *)
Lemma get_trace_default t lo hi ov :
  ov = true \/ rd_tracecount H = s_nil H * s_nxl H ->
  0 <= t < s_nil H * s_nxl H -> 0 <= win_lo lo < win_hi H hi -> win_hi H hi <= s_ns H ->
  exists v, rd_get_trace mask_nth H t lo hi ov = Return v /\ av_shape v = [win_hi H hi - win_lo lo] /\
    (forall z, 0 <= z < win_hi H hi - win_lo lo ->
       av_cell v [z] = spec_cell3 H (t / s_nxl H) (t mod s_nxl H) (win_lo lo + z)) /\
    av_reads v = [(s_ub3 H * unit_index3 H (t / s_nxl H / 4) (t mod s_nxl H / 4)
                                          ((s_bs2 H / 4) * (win_lo lo / s_bs2 H)),
                   4096 * ((win_hi H hi + s_bs2 H - 1) / s_bs2 H - win_lo lo / s_bs2 H))].
Proof. intros S Ht Hw Hw1. rewrite (get_trace_3d_unfold t lo hi ov S). apply gt3_body_ok; assumption. Qed.

Lemma win_none3 : win_lo None = 0 /\ win_hi H None = s_ns H.
Proof. split; [reflexivity | apply (r_ns H F)]. Qed.
End TRACE3.

(* ---------------- C07: what the range reads of a box touch ---------------- *)
Lemma length_grid {A} (g : Z -> Z -> A) (l1 l2 : list Z) :
  length (flat_map (fun i => map (g i) l2) l1) = (length l1 * length l2)%nat.
Proof.
  induction l1 as [|i l1 IH]; cbn [flat_map length]; [reflexivity|].
  rewrite app_length, map_length, IH. reflexivity.
Qed.

Section IO.
Variable H : hdr.
Hypothesis W : wf3 H = true.
Hypothesis D : default_layout H.
Let F := wf3_facts H W.

Lemma in_sub_reads i0 i1 x0 x1 z0 z1 r :
  In r (sub_reads H i0 i1 x0 x1 z0 z1) <->
  exists iu xu, i0 / 4 <= iu < (i1 + 3) / 4 /\ x0 / 4 <= xu < (x1 + 3) / 4 /\
    r = (s_ub3 H * unit_index3 H iu xu (z0 / 4), s_ub3 H * ((z1 + 3) / 4 - z0 / 4)).
Proof.
  unfold sub_reads. rewrite in_flat_map. split.
  - intros (iu & Hiu & Hr). apply in_map_iff in Hr. destruct Hr as (xu & <- & Hxu). apply in_zrange in Hiu, Hxu.
    exists iu, xu. repeat split; lia.
  - intros (iu & xu & Hiu & Hxu & ->). exists iu. split; [apply in_zrange; lia|].
    apply in_map_iff. exists xu. split; [reflexivity | apply in_zrange; lia].
Qed.

(* exactly one read per (inline unit row, crossline unit column) of the box *)
Lemma sub_reads_length i0 i1 x0 x1 z0 z1 :
  length (sub_reads H i0 i1 x0 x1 z0 z1) =
  (Z.to_nat ((i1 + 3) / 4 - i0 / 4) * Z.to_nat ((x1 + 3) / 4 - x0 / 4))%nat.
Proof. unfold sub_reads. rewrite length_grid, !zrange_length. reflexivity. Qed.

Section BOX.
Variables i0 i1 x0 x1 z0 z1 : Z.
Hypothesis Hi : 0 <= i0 < i1. Hypothesis Hi1 : i1 <= s_PI H.
Hypothesis Hx : 0 <= x0 < x1. Hypothesis Hx1 : x1 <= s_PX H.
Hypothesis Hz : 0 <= z0 < z1. Hypothesis Hz1 : z1 <= s_PZ H.

(* the unit rows / columns / z units of the box lie inside the padded grid *)
Lemma box_units iu xu :
  i0 / 4 <= iu < (i1 + 3) / 4 -> x0 / 4 <= xu < (x1 + 3) / 4 ->
  0 <= iu < s_PI H / 4 /\ 0 <= xu < s_PX H / 4 /\ 0 <= z0 / 4 /\ z0 / 4 < (z1 + 3) / 4 /\ (z1 + 3) / 4 <= s_PZ H / 4.
Proof.
  intros Hiu Hxu.
  destruct (f_PI H F) as (_ & _ & PI4 & _). destruct (f_PX H F) as (_ & _ & PX4 & _).
  destruct (f_PZ H F) as (_ & _ & PZ4' & _).
  pose proof (exact_div (s_PI H) 4 ltac:(lia) PI4). pose proof (exact_div (s_PX H) 4 ltac:(lia) PX4).
  pose proof (exact_div (s_PZ H) 4 ltac:(lia) PZ4').
  pose proof (fl4 i0). pose proof (cl4 i1). pose proof (fl4 x0). pose proof (cl4 x1). pose proof (fl4 z0). pose proof (cl4 z1).
  lia.
Qed.

Lemma unit_index3_z iu xu zu k : 0 <= zu -> 0 <= k -> unit_index3 H iu xu (zu + k) = unit_index3 H iu xu zu + k.
Proof. intros. rewrite !(unit_index3_default H W D) by lia. ring. Qed.

(* every read lies inside the data section *)
Lemma sub_reads_in_data o l : In (o, l) (sub_reads H i0 i1 x0 x1 z0 z1) -> 0 <= o /\ 0 < l /\ o + l <= s_data_bytes3 H.
Proof.
  intro Hin. apply in_sub_reads in Hin. destruct Hin as (iu & xu & Hiu & Hxu & E). injection E as -> ->.
  destruct (box_units iu xu Hiu Hxu) as (Iu & Xu & Z0 & Z01 & Z1).
  pose proof (f_ub H F) as Ub. unfold s_data_bytes3. rewrite (unit_index3_default H W D) by lia.
  set (I4 := s_PI H / 4) in *. set (X4 := s_PX H / 4) in *. set (Z4 := s_PZ H / 4) in *. set (ub := s_ub3 H) in *.
  assert (J0 : 0 <= iu * X4 + xu) by (assert (0 <= iu * X4) by (apply mul_nonneg; lia); lia).
  assert (J1 : iu * X4 + xu + 1 <= I4 * X4).
  { assert ((iu + 1) * X4 <= I4 * X4) by (apply Z.mul_le_mono_nonneg_r; lia). lia. }
  set (j := iu * X4 + xu) in *.
  assert (K0 : 0 <= j * Z4) by (apply mul_nonneg; lia).
  assert (K1 : (j + 1) * Z4 <= I4 * X4 * Z4) by (apply Z.mul_le_mono_nonneg_r; lia).
  split; [apply mul_nonneg; lia|]. split; [apply Z.mul_pos_pos; lia|].
  replace (ub * (j * Z4 + z0 / 4) + ub * ((z1 + 3) / 4 - z0 / 4)) with (ub * (j * Z4 + (z1 + 3) / 4)) by ring.
  replace (I4 * X4 * Z4 * ub) with (ub * (I4 * X4 * Z4)) by ring. apply mul_le_l; lia.
Qed.

(* the reads are issued in ascending file order and never overlap: no byte is fetched twice *)
Lemma sub_reads_ordered : ForallOrdPairs range_before (sub_reads H i0 i1 x0 x1 z0 z1).
Proof.
  unfold sub_reads. apply fop_grid. intros iu xu iu' xu' Hiu Hiu' Hxu Hxu' Lt.
  destruct (box_units iu xu Hiu Hxu) as (Iu & Xu & Z0 & Z01 & Z1).
  destruct (box_units iu' xu' Hiu' Hxu') as (Iu' & Xu' & _).
  pose proof (f_ub H F) as Ub. unfold range_before. cbn [fst snd].
  rewrite !(unit_index3_default H W D) by lia.
  set (X4 := s_PX H / 4) in *. set (Z4 := s_PZ H / 4) in *. set (ub := s_ub3 H) in *.
  assert (J : iu * X4 + xu + 1 <= iu' * X4 + xu').
  { destruct Lt as [Lt|[-> Lt]]; [apply radix_lt; lia | lia]. }
  set (j := iu * X4 + xu) in *. set (j' := iu' * X4 + xu') in *.
  assert (K : (j + 1) * Z4 <= j' * Z4) by (apply Z.mul_le_mono_nonneg_r; lia).
  replace (ub * (j * Z4 + z0 / 4) + ub * ((z1 + 3) / 4 - z0 / 4)) with (ub * (j * Z4 + (z1 + 3) / 4)) by ring.
  apply mul_le_l; lia.
Qed.

(* every byte fetched belongs to the code of a compression unit that holds a requested sample *)
Lemma sub_reads_bytes_needed o l p : In (o, l) (sub_reads H i0 i1 x0 x1 z0 z1) -> o <= p < o + l ->
  exists i x z, i0 <= i < i1 /\ x0 <= x < x1 /\ z0 <= z < z1 /\
    s_ub3 H * unit_index3 H (i / 4) (x / 4) (z / 4) <= p < s_ub3 H * unit_index3 H (i / 4) (x / 4) (z / 4) + s_ub3 H.
Proof.
  intros Hin Hp. apply in_sub_reads in Hin. destruct Hin as (iu & xu & Hiu & Hxu & E). injection E as -> ->.
  destruct (box_units iu xu Hiu Hxu) as (Iu & Xu & Z0 & Z01 & Z1).
  pose proof (f_ub H F) as Ub.
  destruct (pick_in4 i0 i1 iu ltac:(lia) Hiu) as (i & Hi' & Ei).
  destruct (pick_in4 x0 x1 xu ltac:(lia) Hxu) as (x & Hx' & Ex).
  set (U := unit_index3 H iu xu (z0 / 4)) in *. set (ub := s_ub3 H) in *.
  pose proof (Z.div_mod (p - ub * U) ub ltac:(lia)) as DM. pose proof (Z.mod_pos_bound (p - ub * U) ub Ub) as MB.
  set (k := (p - ub * U) / ub) in *.
  assert (K0 : 0 <= k) by (apply Z.div_pos; lia).
  assert (K1 : k < (z1 + 3) / 4 - z0 / 4).
  { apply Z.div_lt_upper_bound; lia. }
  destruct (pick_in4 z0 z1 (z0 / 4 + k) ltac:(lia) ltac:(lia)) as (z & Hz' & Ez).
  exists i, x, z. rewrite Ei, Ex, Ez. repeat split; try lia.
  - rewrite unit_index3_z by lia. fold U. lia.
  - rewrite unit_index3_z by lia. fold U. lia.
Qed.

(* every 4096-byte block of the data section that a read touches contains a whole unit holding a requested sample *)
Lemma sub_reads_blocks_needed o l blk p : In (o, l) (sub_reads H i0 i1 x0 x1 z0 z1) ->
  o <= p < o + l -> 4096 * blk <= p < 4096 * blk + 4096 ->
  exists i x z, i0 <= i < i1 /\ x0 <= x < x1 /\ z0 <= z < z1 /\
    4096 * blk <= s_ub3 H * unit_index3 H (i / 4) (x / 4) (z / 4) /\
    s_ub3 H * unit_index3 H (i / 4) (x / 4) (z / 4) + s_ub3 H <= 4096 * blk + 4096.
Proof.
  intros Hin Hp Hb. destruct (sub_reads_bytes_needed o l p Hin Hp) as (i & x & z & Hi' & Hx' & Hz' & Hs).
  exists i, x, z. repeat split; try lia;
    apply (unit_in_block (s_ub3 H) (s_bs2 H / 4) (unit_index3 H (i / 4) (x / 4) (z / 4)) p blk);
    try assumption; try apply (f_ub H F);
    try (apply Z.div_str_pos; pose proof (f_bs2 H F); lia);
    rewrite Z.mul_comm; apply (ub_u2 H W D).
Qed.
End BOX.

(* read_subvolume: result + I/O facts in one statement (ap = access_padding) *)
Lemma subvolume_io (ap mt : bool) i0 i1 x0 x1 z0 z1 :
  0 <= i0 < i1 -> i1 <= (if ap then s_PI H else s_nil H) ->
  0 <= x0 < x1 -> x1 <= (if ap then s_PX H else s_nxl H) ->
  0 <= z0 < z1 -> z1 <= (if ap then s_PZ H else s_ns H) ->
  exists v, rd_read_subvolume H i0 i1 x0 x1 z0 z1 ap mt = Return v /\
    length (av_reads v) = (Z.to_nat ((i1 + 3) / 4 - i0 / 4) * Z.to_nat ((x1 + 3) / 4 - x0 / 4))%nat /\
    (forall o l, In (o, l) (av_reads v) -> 0 <= o /\ 0 < l /\ o + l <= s_data_bytes3 H) /\
    ForallOrdPairs range_before (av_reads v) /\
    (forall o l p, In (o, l) (av_reads v) -> o <= p < o + l ->
       exists i x z, i0 <= i < i1 /\ x0 <= x < x1 /\ z0 <= z < z1 /\
         s_ub3 H * unit_index3 H (i / 4) (x / 4) (z / 4) <= p < s_ub3 H * unit_index3 H (i / 4) (x / 4) (z / 4) + s_ub3 H) /\
    (forall o l blk p, In (o, l) (av_reads v) -> o <= p < o + l -> 4096 * blk <= p < 4096 * blk + 4096 ->
       exists i x z, i0 <= i < i1 /\ x0 <= x < x1 /\ z0 <= z < z1 /\
         4096 * blk <= s_ub3 H * unit_index3 H (i / 4) (x / 4) (z / 4) /\
         s_ub3 H * unit_index3 H (i / 4) (x / 4) (z / 4) + s_ub3 H <= 4096 * blk + 4096).
Proof.
  intros Hi Hi1 Hx Hx1 Hz Hz1.
  destruct (subvolume_gen H W D ap mt i0 i1 x0 x1 z0 z1 Hi Hi1 Hx Hx1 Hz Hz1) as (v & Ev & _ & _ & Rv).
  destruct (f_PI H F) as (PI1 & _). destruct (f_PX H F) as (PX1 & _). destruct (f_PZ H F) as (PZ1 & _).
  assert (Bi : i1 <= s_PI H) by (destruct ap; lia). assert (Bx : x1 <= s_PX H) by (destruct ap; lia).
  assert (Bz : z1 <= s_PZ H) by (destruct ap; lia).
  exists v. split; [exact Ev|]. rewrite Rv. split; [apply sub_reads_length|]. split; [|split; [|split]].
  - intros o l. apply sub_reads_in_data; assumption.
  - apply sub_reads_ordered; assumption.
  - intros o l p. apply sub_reads_bytes_needed; assumption.
  - intros o l blk p. apply sub_reads_blocks_needed; assumption.
Qed.

Lemma read_subvolume_io (mt : bool) i0 i1 x0 x1 z0 z1 :
  0 <= i0 < i1 -> i1 <= s_nil H -> 0 <= x0 < x1 -> x1 <= s_nxl H -> 0 <= z0 < z1 -> z1 <= s_ns H ->
  exists v, rd_read_subvolume H i0 i1 x0 x1 z0 z1 false mt = Return v /\
    length (av_reads v) = (Z.to_nat ((i1 + 3) / 4 - i0 / 4) * Z.to_nat ((x1 + 3) / 4 - x0 / 4))%nat /\
    (forall o l, In (o, l) (av_reads v) -> 0 <= o /\ 0 < l /\ o + l <= s_data_bytes3 H) /\
    ForallOrdPairs range_before (av_reads v) /\
    (forall o l p, In (o, l) (av_reads v) -> o <= p < o + l ->
       exists i x z, i0 <= i < i1 /\ x0 <= x < x1 /\ z0 <= z < z1 /\
         s_ub3 H * unit_index3 H (i / 4) (x / 4) (z / 4) <= p < s_ub3 H * unit_index3 H (i / 4) (x / 4) (z / 4) + s_ub3 H) /\
    (forall o l blk p, In (o, l) (av_reads v) -> o <= p < o + l -> 4096 * blk <= p < 4096 * blk + 4096 ->
       exists i x z, i0 <= i < i1 /\ x0 <= x < x1 /\ z0 <= z < z1 /\
         4096 * blk <= s_ub3 H * unit_index3 H (i / 4) (x / 4) (z / 4) /\
         s_ub3 H * unit_index3 H (i / 4) (x / 4) (z / 4) + s_ub3 H <= 4096 * blk + 4096).
Proof. exact (subvolume_io false mt i0 i1 x0 x1 z0 z1). Qed.

(* read_volume fetches the data section: one read per 4x4 trace column, each the whole column *)
Lemma read_volume_io :
  exists v, rd_read_volume H = Return v /\
    length (av_reads v) = (Z.to_nat ((s_nil H + 3) / 4) * Z.to_nat ((s_nxl H + 3) / 4))%nat /\
    (forall o l, In (o, l) (av_reads v) -> 0 <= o /\ 0 < l /\ o + l <= s_data_bytes3 H) /\
    ForallOrdPairs range_before (av_reads v).
Proof.
  pose proof (f_nil H F). pose proof (f_nxl H F). pose proof (f_ns H F).
  destruct (read_subvolume_io true 0 (s_nil H) 0 (s_nxl H) 0 (s_ns H)) as (v & Ev & Lv & Dv & Ov & _); try lia.
  exists v. unfold rd_read_volume. rewrite (r_nil H F), (r_nxl H F), (r_ns H F). split; [exact Ev|].
  change (0 / 4) with 0 in Lv. rewrite !Z.sub_0_r in Lv. split; [exact Lv|]. split; assumption.
Qed.
End IO.

(* ---------------- C07: what get_trace touches ---------------- *)
Section TRACEIO.
Variable H : hdr.
Variable mask_nth : Z -> outcome Z.
Hypothesis W : wf3 H = true.
Hypothesis D : default_layout H.
Let F := wf3_facts H W.

(* get_trace issues ONE range read: whole 4096-byte blocks of the trace's 4x4 column, from the block holding the
   first requested sample to the block holding the last; every one of those blocks contains a unit holding a
   requested sample of that trace *)
Lemma get_trace_io t lo hi ov :
  ov = true \/ rd_tracecount H = s_nil H * s_nxl H ->
  0 <= t < s_nil H * s_nxl H -> 0 <= win_lo lo < win_hi H hi -> win_hi H hi <= s_ns H ->
  exists v, rd_get_trace mask_nth H t lo hi ov = Return v /\
    length (av_reads v) = 1%nat /\
    (forall o l, In (o, l) (av_reads v) ->
       0 <= o /\ 0 < l /\ o + l <= s_data_bytes3 H /\ o mod 4096 = 0 /\ l mod 4096 = 0) /\
    ForallOrdPairs range_before (av_reads v) /\
    (forall o l blk p, In (o, l) (av_reads v) -> o <= p < o + l -> 4096 * blk <= p < 4096 * blk + 4096 ->
       exists z, win_lo lo <= z < win_hi H hi /\
         4096 * blk <= s_ub3 H * unit_index3 H (t / s_nxl H / 4) (t mod s_nxl H / 4) (z / 4) /\
         s_ub3 H * unit_index3 H (t / s_nxl H / 4) (t mod s_nxl H / 4) (z / 4) + s_ub3 H <= 4096 * blk + 4096).
Proof.
  intros S Ht Hw Hw1.
  destruct (get_trace_default H mask_nth W D t lo hi ov S Ht Hw Hw1) as (v & Ev & _ & _ & Rv).
  exists v. split; [exact Ev|]. rewrite Rv. clear Ev Rv v.
  set (a := win_lo lo) in *. set (b := win_hi H hi) in *.
  pose proof (f_nil H F) as NIL. pose proof (f_nxl H F) as NXL. pose proof (f_ns H F) as NS.
  pose proof (f_bs2 H F) as B2. pose proof (f_bs2m H F) as B2m. pose proof (f_ub H F) as Ub.
  destruct (f_PI H F) as (PI1 & _ & PI4 & _). destruct (f_PX H F) as (PX1 & _ & PX4 & _).
  pose proof (exact_div (s_PI H) 4 ltac:(lia) PI4) as PIe. pose proof (exact_div (s_PX H) 4 ltac:(lia) PX4) as PXe.
  pose proof (exact_div (s_bs2 H) 4 ltac:(lia) B2m) as B2e.
  pose proof (ub_u2 H W D) as UB. pose proof (PZ4 H W) as PZ4e.
  assert (U2 : 0 < s_bs2 H / 4) by (apply Z.div_str_pos; lia).
  assert (Til : 0 <= t / s_nxl H < s_nil H).
  { split; [apply Z.div_pos; lia | apply Z.div_lt_upper_bound; lia]. }
  pose proof (Z.mod_pos_bound t (s_nxl H) ltac:(lia)) as Txl.
  set (il := t / s_nxl H) in *. set (xl := t mod s_nxl H) in *.
  pose proof (fl4 il) as Fil. pose proof (fl4 xl) as Fxl.
  pose proof (fl_m a (s_bs2 H) ltac:(lia)) as Fa. pose proof (cdiv_bounds b (s_bs2 H) ltac:(lia)) as Cb.
  assert (Zb0 : 0 <= a / s_bs2 H) by (apply Z.div_pos; lia).
  destruct (pad_to_spec (s_ns H) (s_bs2 H) ltac:(lia)) as (_ & _ & NBZ). fold (s_PZ H) in NBZ.
  assert (Zb1 : (b + s_bs2 H - 1) / s_bs2 H <= s_PZ H / s_bs2 H).
  { rewrite NBZ. apply Z.div_le_mono; lia. }
  assert (Zb01 : a / s_bs2 H < (b + s_bs2 H - 1) / s_bs2 H).
  { apply Z.mul_lt_mono_pos_l with (p := s_bs2 H); lia. }
  rewrite block_offset3 by assumption.
  set (zb0 := a / s_bs2 H) in *. set (zb1 := (b + s_bs2 H - 1) / s_bs2 H) in *.
  set (nbz := s_PZ H / s_bs2 H) in *. set (u2 := s_bs2 H / 4) in *. set (ub := s_ub3 H) in *.
  set (I4 := s_PI H / 4) in *. set (X4 := s_PX H / 4) in *.
  set (J := il / 4 * X4 + xl / 4).
  assert (J0 : 0 <= J) by (unfold J; assert (0 <= il / 4 * X4) by (apply mul_nonneg; lia); lia).
  assert (J1 : J + 1 <= I4 * X4).
  { unfold J. assert ((il / 4 + 1) * X4 <= I4 * X4) by (apply Z.mul_le_mono_nonneg_r; lia). lia. }
  assert (K0 : 0 <= J * nbz) by (apply mul_nonneg; lia).
  assert (K1 : (J + 1) * nbz <= I4 * X4 * nbz) by (apply Z.mul_le_mono_nonneg_r; lia).
  assert (DB : s_data_bytes3 H = 4096 * (I4 * X4 * nbz)).
  { unfold s_data_bytes3. fold I4 X4 ub. rewrite PZ4e, <- UB. ring. }
  split; [reflexivity|]. split; [|split].
  - intros o l [E|[]]. pose proof (f_equal fst E) as Eo. pose proof (f_equal snd E) as El. cbn [fst snd] in Eo, El. subst o l. clear E. rewrite DB.
    split; [lia|]. split; [lia|]. split; [lia|].
    split; rewrite Z.mul_comm; apply Z_mod_mult.
  - constructor; constructor.
  - intros o l blk p [E|[]] Hp Hb. pose proof (f_equal fst E) as Eo. pose proof (f_equal snd E) as El. cbn [fst snd] in Eo, El. subst o l. clear E.
    assert (Hblk : J * nbz + zb0 <= blk < J * nbz + zb1) by lia.
    destruct (pick_in (s_bs2 H) a b (blk - J * nbz) ltac:(lia) ltac:(lia) ltac:(lia)) as (z & Hz & Ez).
    exists z. split; [exact Hz|].
    assert (Z0 : 0 <= z / 4) by (apply Z.div_pos; lia).
    rewrite (unit_index3_default H W D) by exact Z0. fold X4 J. rewrite PZ4e. fold nbz u2.
    rewrite (zsplit z (s_bs2 H)) by lia. rewrite Ez. fold u2.
    pose proof (Z.mod_pos_bound z (s_bs2 H) ltac:(lia)) as MB. pose proof (fl4 (z mod s_bs2 H)) as Fr.
    set (r := z mod s_bs2 H / 4) in *.
    assert (R0 : 0 <= ub * r) by (apply mul_nonneg; lia).
    assert (R1 : ub * (r + 1) <= ub * u2) by (apply mul_le_l; lia).
    replace (ub * (J * (nbz * u2) + ((blk - J * nbz) * u2 + r))) with (u2 * ub * blk + ub * r) by ring.
    rewrite UB. lia.
Qed.
End TRACEIO.

(* ---------------- the two common call shapes of get_trace, spelled out ---------------- *)
Section TRACE3_SHAPES.
Variable H : hdr.
Variable mask_nth : Z -> outcome Z.
Hypothesis W : wf3 H = true.
Hypothesis D : default_layout H.
Let F := wf3_facts H W.

(* structured file, explicit sample window *)
Lemma get_trace_window_default t lo hi :
  rd_tracecount H = s_nil H * s_nxl H ->
  0 <= t < s_nil H * s_nxl H -> 0 <= lo < hi -> hi <= s_ns H ->
  exists v, rd_get_trace mask_nth H t (Some lo) (Some hi) false = Return v /\ av_shape v = [hi - lo] /\
    (forall z, 0 <= z < hi - lo -> av_cell v [z] = spec_cell3 H (t / s_nxl H) (t mod s_nxl H) (lo + z)) /\
    av_reads v = [(s_ub3 H * unit_index3 H (t / s_nxl H / 4) (t mod s_nxl H / 4) ((s_bs2 H / 4) * (lo / s_bs2 H)),
                   4096 * ((hi + s_bs2 H - 1) / s_bs2 H - lo / s_bs2 H))].
Proof. intro S. exact (get_trace_default H mask_nth W D t (Some lo) (Some hi) false (or_intror S)). Qed.

(* structured file, whole trace: the whole 4x4 trace column (one chunk) is fetched *)
Lemma get_trace_whole_default t :
  rd_tracecount H = s_nil H * s_nxl H -> 0 <= t < s_nil H * s_nxl H ->
  exists v, rd_get_trace mask_nth H t None None false = Return v /\ av_shape v = [s_ns H] /\
    (forall z, 0 <= z < s_ns H -> av_cell v [z] = spec_cell3 H (t / s_nxl H) (t mod s_nxl H) z) /\
    av_reads v = [(s_ub3 H * unit_index3 H (t / s_nxl H / 4) (t mod s_nxl H / 4) 0, 4096 * (s_PZ H / s_bs2 H))].
Proof.
  intros S Ht. pose proof (f_ns H F) as NS. pose proof (f_bs2 H F) as B2.
  destruct (get_trace_default H mask_nth W D t None None false (or_intror S) Ht) as (v & Ev & Sv & Cv & Rv).
  { cbn [win_lo win_hi]. rewrite (r_ns H F). lia. }
  { cbn [win_lo win_hi]. rewrite (r_ns H F). lia. }
  cbn [win_lo win_hi] in Sv, Cv, Rv. rewrite (r_ns H F) in Sv, Cv, Rv. rewrite Z.sub_0_r in Sv, Cv.
  exists v. split; [exact Ev|]. split; [exact Sv|]. split.
  - intros z Hz. rewrite Cv by lia. f_equal.
  - rewrite Rv. change (0 / s_bs2 H) with 0. rewrite Z.mul_0_r, Z.sub_0_r.
    destruct (pad_to_spec (s_ns H) (s_bs2 H) ltac:(lia)) as (_ & _ & NBZ). fold (s_PZ H) in NBZ. rewrite NBZ. reflexivity.
Qed.
End TRACE3_SHAPES.
