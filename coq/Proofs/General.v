(* C02 / C07, GENERAL layout (any blockshape that is not (4,4,N)): read_subvolume, read_inline, read_crossline,
   read_zslice and read_volume of the GENERATED reader go through ld_read_unshuffle_and_decompress_chunk_range
   (one 4096-byte block read per block the box intersects; each block decompressed as a (bs0,bs1,bs2) array and
   placed into a zero array; the result cropped), or, for blockshape (N,N,4), the z-slice through
   ld_read_and_decompress_zslice_set_adv.  Every cell of the result is the SPECIFICATION decoder's (spec_cell3) and
   the range reads are exactly the intersected blocks.  For every header with wf3 and every in-range box -- by
   arithmetic (lia + explicit div/mod lemmas), no enumeration.  Same pattern as Proofs/TwoD.v with one more axis. *)
From Coq Require Import ZArith List Bool Lia.
Import ListNotations.
From SZ Require Import Lib.Py Gen.Utils Gen.Version Gen.Reader Spec.Container Proofs.PyLemmas Proofs.Layout
  Proofs.Enum Proofs.Tiling Proofs.Default Proofs.TwoD.
Open Scope Z_scope.

(* ---------------- the blocks of a box ---------------- *)
Definition nbi3 (H : hdr) : Z := s_PI H / s_bs0 H.   (* blocks per axis of the padded volume *)
Definition nbx3 (H : hdr) : Z := s_PX H / s_bs1 H.
Definition nbz3 (H : hdr) : Z := s_PZ H / s_bs2 H.
(* number of the 4096-byte disk block holding block (bi, bx, bz): inline-major, z fastest *)
Definition blk_no (H : hdr) (bi bx bz : Z) : Z := (bi * nbx3 H + bx) * nbz3 H + bz.

(* first block index and one-past-last block index touched by [lo, hi) on an axis with block length bs *)
Definition blo (lo bs : Z) : Z := lo / bs.
Definition bhi (hi bs : Z) : Z := (hi + bs - 1) / bs.

(* one read (offset 4096 * block number, length 4096) per block intersecting the box, in loader order *)
Definition box_reads (H : hdr) (i0 i1 x0 x1 z0 z1 : Z) : list (Z * Z) :=
  flat_map (fun bi => flat_map (fun bx => map (fun bz => (4096 * blk_no H bi bx bz, 4096))
                                              (zrange (blo z0 (s_bs2 H)) (bhi z1 (s_bs2 H))))
                               (zrange (blo x0 (s_bs1 H)) (bhi x1 (s_bs1 H))))
           (zrange (blo i0 (s_bs0 H)) (bhi i1 (s_bs0 H))).

Definition general_layout (H : hdr) : Prop := ~ default_layout H.

(* ---------------- generic list lemmas ---------------- *)
Lemma nodup_app {A} (a b : list A) : NoDup a -> NoDup b -> (forall x, In x a -> ~ In x b) -> NoDup (a ++ b).
Proof.
  induction a as [|x xs IH]; intros Ha Hb Hd; cbn [app]; [exact Hb|].
  inversion Ha as [|? ? Hnx Hxs]; subst. constructor.
  - rewrite in_app_iff. intros [I|I]; [contradiction | exact (Hd x (or_introl eq_refl) I)].
  - apply IH; [exact Hxs | exact Hb | intros y Hy; apply Hd; right; exact Hy].
Qed.

Lemma nodup_flat_map {A B} (f : A -> list B) l :
  NoDup l -> (forall a, In a l -> NoDup (f a)) ->
  (forall a a' b, In a l -> In a' l -> In b (f a) -> In b (f a') -> a = a') -> NoDup (flat_map f l).
Proof.
  induction l as [|x xs IH]; intros Hl Hf Hd; cbn [flat_map]; [constructor|].
  inversion Hl as [|? ? Hnx Hxs]; subst. apply nodup_app.
  - apply Hf. left; reflexivity.
  - apply IH; [exact Hxs | intros; apply Hf; right; assumption | intros a a' b Ha Ha'; apply Hd; right; assumption].
  - intros b Hb Hb'. apply in_flat_map in Hb'. destruct Hb' as (a' & Ha' & Hba').
    assert (E : x = a') by (apply (Hd x a' b); [left; reflexivity | right; exact Ha' | exact Hb | exact Hba']).
    subst a'. contradiction.
Qed.

Lemma nodup_map_in {A B} (f : A -> B) l :
  (forall a a', In a l -> In a' l -> f a = f a' -> a = a') -> NoDup l -> NoDup (map f l).
Proof.
  induction l as [|x xs IH]; intros Hi Hl; cbn [map]; [constructor|].
  inversion Hl as [|? ? Hnx Hxs]; subst. constructor.
  - rewrite in_map_iff. intros (y & Ey & Hy).
    assert (y = x) by (apply Hi; [right; exact Hy | left; reflexivity | exact Ey]). subst y. contradiction.
  - apply IH; [intros a a' Ha Ha'; apply Hi; right; assumption | exact Hxs].
Qed.

Lemma length_flat_map_const {A B} (f : A -> list B) l n :
  (forall a, In a l -> length (f a) = n) -> length (flat_map f l) = (length l * n)%nat.
Proof.
  induction l as [|x xs IH]; intro Hf; cbn [flat_map length]; [reflexivity|].
  rewrite app_length, IH by (intros; apply Hf; right; assumption). rewrite (Hf x (or_introl eq_refl)). lia.
Qed.

(* ---------------- disjoint range reads ---------------- *)
(* two range reads (offset, length) share no byte *)
Definition rd_apart (r1 r2 : Z * Z) : Prop := fst r1 + snd r1 <= fst r2 \/ fst r2 + snd r2 <= fst r1.
(* no byte is fetched twice by the reads of a list: every two of them (at different positions) are apart *)
Definition reads_disjoint (l : list (Z * Z)) : Prop := ForallOrdPairs rd_apart l.

Lemma reads_disjoint_blocks (ks : list Z) L : 0 <= L -> NoDup ks -> reads_disjoint (map (fun k => (L * k, L)) ks).
Proof.
  intros HL. induction ks as [|k ks IH]; intro Hn; cbn [map]; [constructor|].
  inversion Hn as [|? ? Hnk Hks]; subst. constructor; [|apply IH; exact Hks].
  apply Forall_forall. intros r Hr. apply in_map_iff in Hr. destruct Hr as (k' & <- & Hk').
  assert (k <> k') by (intro; subst; contradiction).
  unfold rd_apart. cbn [fst snd]. nia.
Qed.

(* ---------------- axes ---------------- *)
(* block k of an axis with block length bs contains index a  iff  k = a / bs *)
Lemma axis_hit a bs k : 0 < bs -> ((k * bs <=? a) && (a <? (k + 1) * bs)) = (k =? a / bs).
Proof.
  intro Hb. pose proof (Z.div_mod a bs ltac:(lia)) as DM. pose proof (Z.mod_pos_bound a bs Hb) as MB.
  destruct (k =? a / bs) eqn:E.
  - apply Z.eqb_eq in E. subst k. apply andb_true_intro. split; [apply Z.leb_le | apply Z.ltb_lt]; lia.
  - apply Z.eqb_neq in E. apply not_true_is_false. intro T. apply andb_true_iff in T. destruct T as [T1 T2].
    apply Z.leb_le in T1. apply Z.ltb_lt in T2. apply E.
    apply (Z.div_unique a bs k (a - k * bs)); lia.
Qed.

(* the blocks [blo lo bs, bhi hi bs) are exactly the blocks holding an index of [lo, hi) *)
Lemma block_touched_iff lo hi bs k : 0 < bs -> lo < hi ->
  (blo lo bs <= k < bhi hi bs) <-> (exists a, lo <= a < hi /\ a / bs = k).
Proof.
  intros Hb Hlh. unfold blo, bhi.
  pose proof (Z.div_mod lo bs ltac:(lia)) as DMl. pose proof (Z.mod_pos_bound lo bs Hb) as MBl.
  pose proof (Z.div_mod (hi + bs - 1) bs ltac:(lia)) as DMh. pose proof (Z.mod_pos_bound (hi + bs - 1) bs Hb) as MBh.
  split.
  - intros [K1 K2].
    (* the largest of lo and the first index of block k *)
    exists (Z.max lo (bs * k)).
    assert (K3 : bs * (lo / bs) <= bs * k) by (apply Z.mul_le_mono_nonneg_l; lia).
    assert (K4 : bs * (k + 1) <= bs * ((hi + bs - 1) / bs)) by (apply Z.mul_le_mono_nonneg_l; lia).
    split; [lia|].
    symmetry. apply (Z.div_unique _ bs k (Z.max lo (bs * k) - bs * k)); lia.
  - intros (a & Ha & <-).
    pose proof (Z.div_mod a bs ltac:(lia)) as DMa. pose proof (Z.mod_pos_bound a bs Hb) as MBa.
    split.
    + apply Z.div_le_mono; lia.
    + apply Z.div_lt_upper_bound; [lia|].
      assert (bs * (a / bs) <= a) by lia.
      assert (a + 1 <= hi) by lia. nia.
Qed.

Lemma blo_bhi lo hi bs : 0 < bs -> 0 <= lo < hi -> 0 <= blo lo bs < bhi hi bs.
Proof.
  intros Hb Hl. unfold blo, bhi. split; [apply Z.div_pos; lia|].
  pose proof (Z.div_mod lo bs ltac:(lia)) as DMl. pose proof (Z.mod_pos_bound lo bs Hb) as MBl.
  pose proof (cdiv_bounds hi bs Hb) as CB. nia.
Qed.

Lemma bhi_le hi bs n : 0 < bs -> hi <= bs * n -> bhi hi bs <= n.
Proof.
  intros Hb Hh. unfold bhi.
  assert ((hi + bs - 1) / bs < n + 1); [|lia].
  apply Z.div_lt_upper_bound; [lia|]. nia.
Qed.

(* ---------------- numpy: target[a0:a1, b0:b1, c0:c1] = value ---------------- *)
Lemma fill_hit3 S1 S2 S3 l1 h1 l2 h2 l3 h3 a b c :
  0 <= l1 <= S1 -> 0 <= h1 <= S1 -> 0 <= l2 <= S2 -> 0 <= h2 <= S2 -> 0 <= l3 <= S3 -> 0 <= h3 <= S3 ->
  fill_hit [S1; S2; S3] [SRng l1 h1; SRng l2 h2; SRng l3 h3] [a; b; c] =
    if ((l1 <=? a) && (a <? h1)) && (((l2 <=? b) && (b <? h2)) && ((l3 <=? c) && (c <? h3)))
    then Some [a - l1; b - l2; c - l3] else None.
Proof.
  intros H1 H2 H3 H4 H5 H6. cbn [fill_hit]. rewrite !norm_bound_in by lia.
  destruct ((l1 <=? a) && (a <? h1)); cbn [andb]; [|reflexivity].
  destruct ((l2 <=? b) && (b <? h2)); cbn [andb]; [|reflexivity].
  destruct ((l3 <=? c) && (c <? h3)); reflexivity.
Qed.

(* ---------------- np.squeeze ---------------- *)
(* index into the squeezed array for an index into the source: drop the coordinates of the axes of length 1 *)
Fixpoint squeeze_index (shape idx : list Z) : list Z :=
  match shape, idx with
  | s :: ss, j :: js => if s =? 1 then squeeze_index ss js else j :: squeeze_index ss js
  | _, _ => []
  end.

Lemma squeeze_roundtrip shape : forall idx, in_shape shape idx = true ->
  in_shape (squeeze_shape shape) (squeeze_index shape idx) = true /\
  unsqueeze_index shape (squeeze_index shape idx) = idx.
Proof.
  induction shape as [|s ss IH]; intros [|j js]; cbn [in_shape squeeze_shape squeeze_index unsqueeze_index];
    try discriminate; [split; reflexivity|].
  intro Hin. apply andb_true_iff in Hin. destruct Hin as [Hj Hjs]. apply andb_true_iff in Hj. destruct Hj as [J1 J2].
  apply Z.leb_le in J1. apply Z.ltb_lt in J2. destruct (IH js Hjs) as [I1 I2].
  destruct (s =? 1) eqn:E.
  - apply Z.eqb_eq in E. split; [exact I1|]. rewrite I2. f_equal. lia.
  - cbn [in_shape]. rewrite I1, I2. split; [|reflexivity].
    apply andb_true_intro. split; [apply andb_true_intro; split; [apply Z.leb_le | apply Z.ltb_lt]; lia | reflexivity].
Qed.

Lemma a_squeeze_cell a idx : in_shape (av_shape a) idx = true ->
  av_cell (a_squeeze a) (squeeze_index (av_shape a) idx) = av_cell a idx.
Proof.
  intro Hin. destruct (squeeze_roundtrip _ _ Hin) as [I1 I2]. unfold a_squeeze. cbn [av_cell]. rewrite I1, I2. reflexivity.
Qed.

(* ================================================================================================== *)
Section GENERAL.
Variable H : hdr.
Hypothesis W : wf3 H = true.
Let F := wf3_facts H W.

Lemma g_u0pos : 0 < s_bs0 H / 4. Proof. apply Z.div_str_pos. pose proof (f_bs0 H F). lia. Qed.
Lemma g_u1pos : 0 < s_bs1 H / 4. Proof. apply Z.div_str_pos. pose proof (f_bs1 H F). lia. Qed.
Lemma g_u2pos : 0 < s_bs2 H / 4. Proof. apply Z.div_str_pos. pose proof (f_bs2 H F). lia. Qed.
Lemma g_bs0_u0 : s_bs0 H = 4 * (s_bs0 H / 4). Proof. apply exact_div; [lia | apply (f_bs0m H F)]. Qed.
Lemma g_bs1_u1 : s_bs1 H = 4 * (s_bs1 H / 4). Proof. apply exact_div; [lia | apply (f_bs1m H F)]. Qed.
Lemma g_bs2_u2 : s_bs2 H = 4 * (s_bs2 H / 4). Proof. apply exact_div; [lia | apply (f_bs2m H F)]. Qed.

Lemma nb_pos3 : 0 < nbi3 H /\ 0 < nbx3 H /\ 0 < nbz3 H.
Proof.
  destruct (f_PI H F) as (_ & _ & _ & A). destruct (f_PX H F) as (_ & _ & _ & B). destruct (f_PZ H F) as (_ & _ & _ & C).
  pose proof (f_bs0 H F). pose proof (f_bs1 H F). pose proof (f_bs2 H F).
  unfold nbi3, nbx3, nbz3. repeat split; apply Z.div_str_pos; lia.
Qed.
Lemma P_nb3 : s_PI H = s_bs0 H * nbi3 H /\ s_PX H = s_bs1 H * nbx3 H /\ s_PZ H = s_bs2 H * nbz3 H.
Proof.
  destruct (f_PI H F) as (_ & A & _ & _). destruct (f_PX H F) as (_ & B & _ & _). destruct (f_PZ H F) as (_ & C & _ & _).
  pose proof (f_bs0 H F). pose proof (f_bs1 H F). pose proof (f_bs2 H F).
  unfold nbi3, nbx3, nbz3. repeat split; apply exact_div; lia.
Qed.

Lemma divmod_blk P u a : 0 < u -> 0 <= a < u -> (P * u + a) / u = P /\ (P * u + a) mod u = a.
Proof.
  intros Hu Ha. split.
  - rewrite Z.div_add_l by lia. rewrite Z.div_small by lia. lia.
  - rewrite Z.add_comm, Z_mod_plus_full. apply Z.mod_small; lia.
Qed.

(* a cell of block (i, x, z), local coordinates (a, b, c): which unit of the data section *)
Lemma unit_index3_block i x z a b c : 0 <= a < s_bs0 H -> 0 <= b < s_bs1 H -> 0 <= c < s_bs2 H ->
  s_ub3 H * unit_index3 H ((s_bs0 H * i + a) / 4) ((s_bs1 H * x + b) / 4) ((s_bs2 H * z + c) / 4) =
  4096 * blk_no H i x z + ((a / 4 * (s_bs1 H / 4) + b / 4) * (s_bs2 H / 4) + c / 4) * s_ub3 H.
Proof.
  intros Ha Hb Hc. unfold unit_index3, blk_no. fold (nbx3 H) (nbz3 H).
  pose proof g_u0pos as U0. pose proof g_u1pos as U1. pose proof g_u2pos as U2.
  pose proof g_bs0_u0 as E0. pose proof g_bs1_u1 as E1. pose proof g_bs2_u2 as E2.
  pose proof (f_block H F) as Blk.
  set (u0 := s_bs0 H / 4) in *. set (u1 := s_bs1 H / 4) in *. set (u2 := s_bs2 H / 4) in *. set (ub := s_ub3 H) in *.
  assert (A4 : 0 <= a / 4 < u0) by (split; [apply Z.div_pos; lia | apply Z.div_lt_upper_bound; lia]).
  assert (B4 : 0 <= b / 4 < u1) by (split; [apply Z.div_pos; lia | apply Z.div_lt_upper_bound; lia]).
  assert (C4 : 0 <= c / 4 < u2) by (split; [apply Z.div_pos; lia | apply Z.div_lt_upper_bound; lia]).
  assert (Iu : (s_bs0 H * i + a) / 4 = i * u0 + a / 4).
  { rewrite E0. replace (4 * u0 * i + a) with (a + (i * u0) * 4) by ring. rewrite Z.div_add by lia. ring. }
  assert (Xu : (s_bs1 H * x + b) / 4 = x * u1 + b / 4).
  { rewrite E1. replace (4 * u1 * x + b) with (b + (x * u1) * 4) by ring. rewrite Z.div_add by lia. ring. }
  assert (Zu : (s_bs2 H * z + c) / 4 = z * u2 + c / 4).
  { rewrite E2. replace (4 * u2 * z + c) with (c + (z * u2) * 4) by ring. rewrite Z.div_add by lia. ring. }
  rewrite Iu, Xu, Zu.
  destruct (divmod_blk i u0 (a / 4) U0 A4) as [-> ->]. destruct (divmod_blk x u1 (b / 4) U1 B4) as [-> ->].
  destruct (divmod_blk z u2 (c / 4) U2 C4) as [-> ->].
  rewrite <- Blk. ring.
Qed.

(* ---------------- one block, decompressed ---------------- *)
Definition blk3 (H : hdr) (I0 X0 Z0 i x z : Z) : list sub * arrv :=
  ([SRng ((i - I0) * s_bs0 H) ((i - I0 + 1) * s_bs0 H); SRng ((x - X0) * s_bs1 H) ((x - X0 + 1) * s_bs1 H);
    SRng ((z - Z0) * s_bs2 H) ((z - Z0 + 1) * s_bs2 H)],
   a_decomp (rd_rate_n H) (rd_rate_d H) [(4096 * (s_PZ H / s_bs2 H * (s_PX H / s_bs1 H * i + x) + z), 4096, 0)]
     [s_bs0 H; s_bs1 H; s_bs2 H]).

Definition blocks3 (H : hdr) (I0 I1 X0 X1 Z0 Z1 : Z) : list (list sub * arrv) :=
  flat_map (fun i => flat_map (fun x => flat_map (fun z => [blk3 H I0 X0 Z0 i x z]) (zrange Z0 Z1)) (zrange X0 X1))
           (zrange I0 I1).

Lemma in_blocks3 I0 I1 X0 X1 Z0 Z1 f :
  In f (blocks3 H I0 I1 X0 X1 Z0 Z1) <->
  exists i x z, I0 <= i < I1 /\ X0 <= x < X1 /\ Z0 <= z < Z1 /\ f = blk3 H I0 X0 Z0 i x z.
Proof.
  unfold blocks3. rewrite in_flat_map. split.
  - intros (i & Hi & Hin). rewrite in_flat_map in Hin. destruct Hin as (x & Hx & Hin).
    rewrite in_flat_map in Hin. destruct Hin as (z & Hz & [<-|[]]).
    rewrite in_zrange in Hi, Hx, Hz. exists i, x, z. auto.
  - intros (i & x & z & Hi & Hx & Hz & ->). exists i. rewrite in_zrange. split; [exact Hi|].
    rewrite in_flat_map. exists x. rewrite in_zrange. split; [exact Hx|].
    rewrite in_flat_map. exists z. rewrite in_zrange. split; [exact Hz | left; reflexivity].
Qed.

Lemma reads_blocks3 I0 X0 Z0 li lx lz :
  flat_map (fun f : list sub * arrv => av_reads (snd f))
    (flat_map (fun i => flat_map (fun x => flat_map (fun z => [blk3 H I0 X0 Z0 i x z]) lz) lx) li) =
  flat_map (fun i => flat_map (fun x => map (fun z => (4096 * blk_no H i x z, 4096)) lz) lx) li.
Proof.
  rewrite flat_map_flat_map. apply flat_map_ext. intro i.
  rewrite flat_map_flat_map. apply flat_map_ext. intro x.
  rewrite flat_map_flat_map.
  rewrite (flat_map_ext _ (fun z => [(4096 * blk_no H i x z, 4096)])).
  - induction lz as [|z zs IHz]; cbn [flat_map map app]; [reflexivity | rewrite IHz; reflexivity].
  - intro z. cbn [flat_map blk3 snd a_decomp av_reads reads_of map app]. f_equal. f_equal.
    unfold blk_no, nbx3, nbz3. ring.
Qed.

Lemma block_cell3 I0 X0 Z0 i x z a b c : 0 <= a < s_bs0 H -> 0 <= b < s_bs1 H -> 0 <= c < s_bs2 H ->
  av_cell (snd (blk3 H I0 X0 Z0 i x z)) [a; b; c] = spec_cell3 H (s_bs0 H * i + a) (s_bs1 H * x + b) (s_bs2 H * z + c).
Proof.
  intros Ha Hb Hc. cbn [blk3 snd a_decomp av_cell].
  pose proof (f_ub H F) as Ub. pose proof (f_block H F) as Blk.
  pose proof (f_bs0m H F) as B0m. pose proof (f_bs1m H F) as B1m. pose proof (f_bs2m H F) as B2m.
  pose proof (div4_lt2 a _ Ha B0m) as Ha4. pose proof (div4_lt2 b _ Hb B1m) as Hb4. pose proof (div4_lt2 c _ Hc B2m) as Hc4.
  assert (K : unit_no [s_bs0 H; s_bs1 H; s_bs2 H] [a; b; c] 0 = (a / 4 * (s_bs1 H / 4) + b / 4) * (s_bs2 H / 4) + c / 4).
  { cbn [unit_no]. rewrite !cdiv_exact by assumption. ring. }
  pose proof (unit_index3_block i x z a b c Ha Hb Hc) as UI.
  set (u0 := s_bs0 H / 4) in *. set (u1 := s_bs1 H / 4) in *. set (u2 := s_bs2 H / 4) in *. set (ub := s_ub3 H) in *.
  set (k := (a / 4 * u1 + b / 4) * u2 + c / 4) in *.
  assert (K0 : 0 <= k < u0 * u1 * u2) by (subst k; apply mixed_bound; lia).
  assert (K1 : 0 <= k * ub) by nia.
  assert (K2 : (k + 1) * ub <= 4096) by nia.
  erewrite decomp_cell_hit with (ub := ub) (k := k);
    [ | apply in_shape3; lia | apply (r_ubof H F) | exact Ub | exact K
      | intros r1 r2 [<-|[]] [<-|[]]; left; reflexivity | left; reflexivity | cbn [rd_lo]; lia | cbn [rd_hi]; lia ].
  unfold spec_cell3. cbn [rd_src cell_no]. f_equal.
  - fold ub. rewrite UI. unfold blk_no, nbx3, nbz3. ring.
  - rewrite (cell_mod a _ i B0m), (cell_mod b _ x B1m), (cell_mod c _ z B2m). ring.
Qed.

(* ---------------- the loader: block by block into a zero array ---------------- *)
Lemma chunk_range_ok i0 i1 x0 x1 z0 z1 : 0 <= i0 < i1 -> 0 <= x0 < x1 -> 0 <= z0 < z1 ->
  exists v, ld_read_unshuffle_and_decompress_chunk_range H i1 x1 z1 i0 x0 z0 = Return v /\
    av_shape v = [(bhi i1 (s_bs0 H) - blo i0 (s_bs0 H)) * s_bs0 H; (bhi x1 (s_bs1 H) - blo x0 (s_bs1 H)) * s_bs1 H;
                  (bhi z1 (s_bs2 H) - blo z0 (s_bs2 H)) * s_bs2 H] /\
    (forall a b c, 0 <= a < (bhi i1 (s_bs0 H) - blo i0 (s_bs0 H)) * s_bs0 H ->
                   0 <= b < (bhi x1 (s_bs1 H) - blo x0 (s_bs1 H)) * s_bs1 H ->
                   0 <= c < (bhi z1 (s_bs2 H) - blo z0 (s_bs2 H)) * s_bs2 H ->
       av_cell v [a; b; c] = spec_cell3 H (s_bs0 H * blo i0 (s_bs0 H) + a) (s_bs1 H * blo x0 (s_bs1 H) + b)
                                          (s_bs2 H * blo z0 (s_bs2 H) + c)) /\
    av_reads v = box_reads H i0 i1 x0 x1 z0 z1.
Proof.
  intros Hi Hx Hz. unfold ld_read_unshuffle_and_decompress_chunk_range.
  rewrite (r_fl_bs2 H F), (r_fl_p2 H F). cbn [orb]. cbv iota.
  rewrite (r_bs0 H F), (r_bs1 H F), (r_bs2 H F), (r_P1 H F), (r_P2 H F), (r_bb H F).
  pose proof (f_bs0 H F) as B0. pose proof (f_bs1 H F) as B1. pose proof (f_bs2 H F) as B2.
  pose proof (blo_bhi i0 i1 (s_bs0 H) ltac:(lia) Hi) as HI.
  pose proof (blo_bhi x0 x1 (s_bs1 H) ltac:(lia) Hx) as HX.
  pose proof (blo_bhi z0 z1 (s_bs2 H) ltac:(lia) Hz) as HZ.
  unfold box_reads.
  fold (blo i0 (s_bs0 H)) (blo x0 (s_bs1 H)) (blo z0 (s_bs2 H)).
  change ((i1 + s_bs0 H - 1) / s_bs0 H) with (bhi i1 (s_bs0 H)).
  change ((x1 + s_bs1 H - 1) / s_bs1 H) with (bhi x1 (s_bs1 H)).
  change ((z1 + s_bs2 H - 1) / s_bs2 H) with (bhi z1 (s_bs2 H)).
  set (I0 := blo i0 (s_bs0 H)) in *. set (I1 := bhi i1 (s_bs0 H)) in *.
  set (X0 := blo x0 (s_bs1 H)) in *. set (X1 := bhi x1 (s_bs1 H)) in *.
  set (Z0 := blo z0 (s_bs2 H)) in *. set (Z1 := bhi z1 (s_bs2 H)) in *.
  replace (I0 + (I1 - I0)) with I1 by lia. replace (X0 + (X1 - X0)) with X1 by lia.
  replace (Z0 + (Z1 - Z0)) with Z1 by lia.
  rewrite (flat_mapM_Return _ (fun i => flat_map (fun x => flat_map (fun z => [blk3 H I0 X0 Z0 i x z]) (zrange Z0 Z1))
                                                 (zrange X0 X1))).
  2:{ intros i _.
      rewrite (flat_mapM_Return _ (fun x => flat_map (fun z => [blk3 H I0 X0 Z0 i x z]) (zrange Z0 Z1))).
      2:{ intros x _. rewrite (flat_mapM_Return _ (fun z => [blk3 H I0 X0 Z0 i x z])) by (intros; reflexivity).
          reflexivity. }
      reflexivity. }
  cbn [bind]. fold (blocks3 H I0 I1 X0 X1 Z0 Z1).
  set (S1 := (I1 - I0) * s_bs0 H). set (S2 := (X1 - X0) * s_bs1 H). set (S3 := (Z1 - Z0) * s_bs2 H).
  (* sub-array bounds of block (i, x, z) *)
  assert (BND : forall i x z, I0 <= i < I1 -> X0 <= x < X1 -> Z0 <= z < Z1 ->
            (0 <= (i - I0) * s_bs0 H <= S1 /\ 0 <= (i - I0 + 1) * s_bs0 H <= S1) /\
            (0 <= (x - X0) * s_bs1 H <= S2 /\ 0 <= (x - X0 + 1) * s_bs1 H <= S2) /\
            (0 <= (z - Z0) * s_bs2 H <= S3 /\ 0 <= (z - Z0 + 1) * s_bs2 H <= S3)).
  { intros i x z Hi' Hx' Hz'. subst S1 S2 S3. repeat split; nia. }
  assert (OK : forallb (fill_ok [S1; S2; S3]) (blocks3 H I0 I1 X0 X1 Z0 Z1) = true).
  { apply forallb_forall. intros f Hf. apply in_blocks3 in Hf. destruct Hf as (i & x & z & Hi' & Hx' & Hz' & ->).
    destruct (BND i x z Hi' Hx' Hz') as ((A1 & A2) & (A3 & A4) & (A5 & A6)).
    unfold fill_ok, blk3. cbn [fst snd subs_ok slice_shape a_decomp av_shape andb].
    rewrite !norm_bound_in by lia.
    replace (Z.max 0 ((i - I0 + 1) * s_bs0 H - (i - I0) * s_bs0 H)) with (s_bs0 H) by lia.
    replace (Z.max 0 ((x - X0 + 1) * s_bs1 H - (x - X0) * s_bs1 H)) with (s_bs1 H) by lia.
    replace (Z.max 0 ((z - Z0 + 1) * s_bs2 H - (z - Z0) * s_bs2 H)) with (s_bs2 H) by lia.
    unfold list_eqb. cbn [length Nat.eqb combine forallb fst snd andb]. rewrite !Z.eqb_refl. reflexivity. }
  unfold a_zeros_fill. rewrite OK. cbn [negb]. cbv iota. cbn [bind].
  eexists. split; [reflexivity|]. cbn [av_shape av_cell av_reads]. split; [reflexivity|]. split.
  - intros a b c Ha Hb Hc. rewrite in_shape3 by assumption. unfold fill_cell.
    pose proof (Z.div_mod a (s_bs0 H) ltac:(lia)) as DMa. pose proof (Z.mod_pos_bound a (s_bs0 H) ltac:(lia)) as MBa.
    pose proof (Z.div_mod b (s_bs1 H) ltac:(lia)) as DMb. pose proof (Z.mod_pos_bound b (s_bs1 H) ltac:(lia)) as MBb.
    pose proof (Z.div_mod c (s_bs2 H) ltac:(lia)) as DMc. pose proof (Z.mod_pos_bound c (s_bs2 H) ltac:(lia)) as MBc.
    set (di := a / s_bs0 H) in *. set (dx := b / s_bs1 H) in *. set (dz := c / s_bs2 H) in *.
    assert (DI : 0 <= di < I1 - I0).
    { split; [apply Z.div_pos; lia | apply Z.div_lt_upper_bound; [lia|]; subst S1; lia]. }
    assert (DX : 0 <= dx < X1 - X0).
    { split; [apply Z.div_pos; lia | apply Z.div_lt_upper_bound; [lia|]; subst S2; lia]. }
    assert (DZ : 0 <= dz < Z1 - Z0).
    { split; [apply Z.div_pos; lia | apply Z.div_lt_upper_bound; [lia|]; subst S3; lia]. }
    (* which blocks contain [a; b; c] *)
    assert (HIT : forall i x z, I0 <= i < I1 -> X0 <= x < X1 -> Z0 <= z < Z1 ->
              fill_hit [S1; S2; S3] (fst (blk3 H I0 X0 Z0 i x z)) [a; b; c] =
              if (i - I0 =? di) && ((x - X0 =? dx) && (z - Z0 =? dz))
              then Some [a - (i - I0) * s_bs0 H; b - (x - X0) * s_bs1 H; c - (z - Z0) * s_bs2 H] else None).
    { intros i x z Hi' Hx' Hz'. destruct (BND i x z Hi' Hx' Hz') as ((A1 & A2) & (A3 & A4) & (A5 & A6)).
      cbn [blk3 fst]. rewrite fill_hit3 by assumption.
      rewrite !axis_hit by lia. reflexivity. }
    erewrite (fill_lookup_unique [S1; S2; S3] (blocks3 H I0 I1 X0 X1 Z0 Z1) [a; b; c]
               (fst (blk3 H I0 X0 Z0 (I0 + di) (X0 + dx) (Z0 + dz))) (snd (blk3 H I0 X0 Z0 (I0 + di) (X0 + dx) (Z0 + dz)))
               [a mod s_bs0 H; b mod s_bs1 H; c mod s_bs2 H]).
    + cbn [blk3 snd a_decomp av_shape length Nat.eqb]. cbv iota.
      pose proof (block_cell3 I0 X0 Z0 (I0 + di) (X0 + dx) (Z0 + dz) (a mod s_bs0 H) (b mod s_bs1 H) (c mod s_bs2 H)
                    MBa MBb MBc) as BC.
      etransitivity; [exact BC | f_equal; lia].
    + rewrite <- surjective_pairing. apply in_blocks3. exists (I0 + di), (X0 + dx), (Z0 + dz). repeat split; lia.
    + rewrite HIT by lia.
      replace (I0 + di - I0 =? di) with true by lia. replace (X0 + dx - X0 =? dx) with true by lia.
      replace (Z0 + dz - Z0 =? dz) with true by lia. cbn [andb]. f_equal. f_equal; [lia | f_equal; [lia | f_equal; lia]].
    + intros s' v' j' Hin' Hh'. apply in_blocks3 in Hin'. destruct Hin' as (i & x & z & Hi' & Hx' & Hz' & E').
      assert (Es : s' = fst (blk3 H I0 X0 Z0 i x z)) by (rewrite <- E'; reflexivity).
      assert (Ev : v' = snd (blk3 H I0 X0 Z0 i x z)) by (rewrite <- E'; reflexivity).
      rewrite Es in Hh'. rewrite (HIT i x z Hi' Hx' Hz') in Hh'.
      destruct ((i - I0 =? di) && ((x - X0 =? dx) && (z - Z0 =? dz))) eqn:E; [|discriminate].
      apply andb_true_iff in E. destruct E as [E1 E23]. apply andb_true_iff in E23. destruct E23 as [E2 E3].
      apply Z.eqb_eq in E1, E2, E3.
      assert (i = I0 + di) by lia. assert (x = X0 + dx) by lia. assert (z = Z0 + dz) by lia. subst i x z.
      injection Hh' as <-. rewrite Ev.
      replace (a - (I0 + di - I0) * s_bs0 H) with (a mod s_bs0 H) by lia.
      replace (b - (X0 + dx - X0) * s_bs1 H) with (b mod s_bs1 H) by lia.
      replace (c - (Z0 + dz - Z0) * s_bs2 H) with (c mod s_bs2 H) by lia.
      reflexivity.
  - apply reads_blocks3.
Qed.

End GENERAL.

(* ================================================================================================== *)
(* the reader's methods, general layout *)
Section GENERAL_READS.
Variable H : hdr.
Hypothesis W : wf3 H = true.
Hypothesis G : general_layout H.
Let F := wf3_facts H W.

Lemma not_default_test : ((s_bs0 H =? 4) && (s_bs1 H =? 4)) = false.
Proof.
  apply not_true_is_false. intro T. apply andb_true_iff in T. destruct T as [A B]. apply Z.eqb_eq in A, B.
  apply G. split; assumption.
Qed.

(* read_subvolume, with or without access to the padding, both values of the multithreading flag *)
Lemma subvolume_gen (ap mt : bool) i0 i1 x0 x1 z0 z1 :
  0 <= i0 < i1 -> i1 <= (if ap then s_PI H else s_nil H) ->
  0 <= x0 < x1 -> x1 <= (if ap then s_PX H else s_nxl H) ->
  0 <= z0 < z1 -> z1 <= (if ap then s_PZ H else s_ns H) ->
  exists v, rd_read_subvolume H i0 i1 x0 x1 z0 z1 ap mt = Return v /\
    av_shape v = [i1 - i0; x1 - x0; z1 - z0] /\
    (forall i x z, 0 <= i < i1 - i0 -> 0 <= x < x1 - x0 -> 0 <= z < z1 - z0 ->
       av_cell v [i; x; z] = spec_cell3 H (i0 + i) (x0 + x) (z0 + z)) /\
    av_reads v = box_reads H i0 i1 x0 x1 z0 z1.
Proof.
  intros Hi Hi1 Hx Hx1 Hz Hz1. unfold rd_read_subvolume. rewrite (r_not2d H F). cbv iota.
  rewrite (r_P0 H F), (r_P1 H F), (r_P2 H F), (r_nil H F), (r_nxl H F), (r_ns H F), (r_fl_bs2 H F),
    (r_bs0 H F), (r_bs1 H F), (r_bs2 H F).
  set (L0 := if ap then s_PI H else s_nil H) in *. set (L1 := if ap then s_PX H else s_nxl H) in *.
  set (L2 := if ap then s_PZ H else s_ns H) in *.
  replace ((0 <=? i0) && (i0 <? L0) && ((0 <? i1) && (i1 <=? L0)) && (i1 >? i0)) with true by lia.
  replace ((0 <=? x0) && (x0 <? L1) && ((0 <? x1) && (x1 <=? L1)) && (x1 >? x0)) with true by lia.
  replace ((0 <=? z0) && (z0 <? L2) && ((0 <? z1) && (z1 <=? L2)) && (z1 >? z0)) with true by lia.
  cbn [negb]. cbv iota. rewrite not_default_test. cbv iota.
  pose proof (f_bs0 H F) as B0. pose proof (f_bs1 H F) as B1. pose proof (f_bs2 H F) as B2.
  destruct (chunk_range_ok H W i0 i1 x0 x1 z0 z1 Hi Hx Hz) as (r & Er & Sr & Cr & Rr).
  rewrite Er. cbn [bind]. unfold a_slice. rewrite Sr. cbn [subs_ok slice_shape negb]. cbv iota.
  unfold blo, bhi in *.
  pose proof (Z.div_mod i0 (s_bs0 H) ltac:(lia)) as DMi. pose proof (Z.mod_pos_bound i0 (s_bs0 H) ltac:(lia)) as MBi.
  pose proof (Z.div_mod x0 (s_bs1 H) ltac:(lia)) as DMx. pose proof (Z.mod_pos_bound x0 (s_bs1 H) ltac:(lia)) as MBx.
  pose proof (Z.div_mod z0 (s_bs2 H) ltac:(lia)) as DMz. pose proof (Z.mod_pos_bound z0 (s_bs2 H) ltac:(lia)) as MBz.
  pose proof (cdiv_bounds i1 (s_bs0 H) ltac:(lia)) as CBi. pose proof (cdiv_bounds x1 (s_bs1 H) ltac:(lia)) as CBx.
  pose proof (cdiv_bounds z1 (s_bs2 H) ltac:(lia)) as CBz.
  set (I0 := i0 / s_bs0 H) in *. set (I1 := (i1 + s_bs0 H - 1) / s_bs0 H) in *.
  set (X0 := x0 / s_bs1 H) in *. set (X1 := (x1 + s_bs1 H - 1) / s_bs1 H) in *.
  set (Z0 := z0 / s_bs2 H) in *. set (Z1 := (z1 + s_bs2 H - 1) / s_bs2 H) in *.
  rewrite !norm_bound_in by lia.
  replace (Z.max 0 (i0 mod s_bs0 H + i1 - i0 - i0 mod s_bs0 H)) with (i1 - i0) by lia.
  replace (Z.max 0 (x0 mod s_bs1 H + x1 - x0 - x0 mod s_bs1 H)) with (x1 - x0) by lia.
  replace (Z.max 0 (z0 mod s_bs2 H + z1 - z0 - z0 mod s_bs2 H)) with (z1 - z0) by lia.
  eexists. split; [reflexivity|]. cbn [av_shape av_cell av_reads]. split; [reflexivity|]. split.
  - intros i x z Hi' Hx' Hz'. rewrite in_shape3 by lia. cbn [slice_index]. rewrite !norm_bound_in by lia.
    rewrite Cr by lia. f_equal; lia.
  - exact Rr.
Qed.

(* public entry: access_padding = False *)
Lemma read_subvolume_general (mt : bool) i0 i1 x0 x1 z0 z1 :
  0 <= i0 < i1 -> i1 <= s_nil H -> 0 <= x0 < x1 -> x1 <= s_nxl H -> 0 <= z0 < z1 -> z1 <= s_ns H ->
  exists v, rd_read_subvolume H i0 i1 x0 x1 z0 z1 false mt = Return v /\
    av_shape v = [i1 - i0; x1 - x0; z1 - z0] /\
    (forall i x z, 0 <= i < i1 - i0 -> 0 <= x < x1 - x0 -> 0 <= z < z1 - z0 ->
       av_cell v [i; x; z] = spec_cell3 H (i0 + i) (x0 + x) (z0 + z)) /\
    av_reads v = box_reads H i0 i1 x0 x1 z0 z1.
Proof. exact (subvolume_gen false mt i0 i1 x0 x1 z0 z1). Qed.

Lemma read_volume_general :
  exists v, rd_read_volume H = Return v /\ av_shape v = [s_nil H; s_nxl H; s_ns H] /\
    (forall i x z, 0 <= i < s_nil H -> 0 <= x < s_nxl H -> 0 <= z < s_ns H -> av_cell v [i; x; z] = spec_cell3 H i x z) /\
    av_reads v = box_reads H 0 (s_nil H) 0 (s_nxl H) 0 (s_ns H).
Proof.
  unfold rd_read_volume. rewrite (r_nil H F), (r_nxl H F), (r_ns H F).
  pose proof (f_nil H F). pose proof (f_nxl H F). pose proof (f_ns H F).
  destruct (subvolume_gen false true 0 (s_nil H) 0 (s_nxl H) 0 (s_ns H)) as (v & Ev & Sv & Cv & Rv); try lia.
  exists v. rewrite !Z.sub_0_r in *. split; [exact Ev | split; [exact Sv | split; [|exact Rv]]].
  intros i x z Hi Hx Hz. rewrite Cv by assumption. reflexivity.
Qed.

(* ---------------- read_inline / read_crossline / read_zslice: np.squeeze of a one-line sub-volume ---------------- *)
(* np.squeeze drops EVERY axis of length 1, so the shape is stated through squeeze_shape and the cells through
   squeeze_index; the _plain corollaries give the familiar 2-D form when the other two extents are at least 2 *)
Lemma read_inline_general il : 0 <= il < s_nil H ->
  exists v, rd_read_inline H il = Return v /\ av_shape v = squeeze_shape [1; s_nxl H; s_ns H] /\
    (forall x z, 0 <= x < s_nxl H -> 0 <= z < s_ns H ->
       av_cell v (squeeze_index [1; s_nxl H; s_ns H] [0; x; z]) = spec_cell3 H il x z) /\
    av_reads v = box_reads H il (il + 1) 0 (s_nxl H) 0 (s_ns H).
Proof.
  intro Hil. unfold rd_read_inline.
  rewrite (r_not2d H F), (r_bs0 H F), (r_bs1 H F), (r_nil H F), (r_nxl H F), (r_ns H F). cbv iota.
  replace ((0 <=? il) && (il <? s_nil H)) with true by lia. cbn [negb]. cbv iota.
  rewrite not_default_test. cbv iota.
  pose proof (f_nxl H F). pose proof (f_ns H F).
  destruct (subvolume_gen false true il (il + 1) 0 (s_nxl H) 0 (s_ns H)) as (r & Er & Sr & Cr & Rr); try lia.
  rewrite Er. cbn [bind]. replace (il + 1 - il) with 1 in * by lia. rewrite !Z.sub_0_r in *.
  eexists. split; [reflexivity|]. split; [cbn [a_squeeze av_shape]; rewrite Sr; reflexivity|]. split.
  - intros x z Hx Hz. rewrite <- Sr. rewrite a_squeeze_cell by (rewrite Sr; apply in_shape3; lia).
    rewrite Cr by lia. f_equal; lia.
  - cbn [a_squeeze av_reads]. exact Rr.
Qed.

Lemma read_crossline_general xl : 0 <= xl < s_nxl H ->
  exists v, rd_read_crossline H xl = Return v /\ av_shape v = squeeze_shape [s_nil H; 1; s_ns H] /\
    (forall i z, 0 <= i < s_nil H -> 0 <= z < s_ns H ->
       av_cell v (squeeze_index [s_nil H; 1; s_ns H] [i; 0; z]) = spec_cell3 H i xl z) /\
    av_reads v = box_reads H 0 (s_nil H) xl (xl + 1) 0 (s_ns H).
Proof.
  intro Hxl. unfold rd_read_crossline.
  rewrite (r_not2d H F), (r_bs0 H F), (r_bs1 H F), (r_nil H F), (r_nxl H F), (r_ns H F). cbv iota.
  replace ((0 <=? xl) && (xl <? s_nxl H)) with true by lia. cbn [negb]. cbv iota.
  rewrite not_default_test. cbv iota.
  pose proof (f_nil H F). pose proof (f_ns H F).
  destruct (subvolume_gen false true 0 (s_nil H) xl (xl + 1) 0 (s_ns H)) as (r & Er & Sr & Cr & Rr); try lia.
  rewrite Er. cbn [bind]. replace (xl + 1 - xl) with 1 in * by lia. rewrite !Z.sub_0_r in *.
  eexists. split; [reflexivity|]. split; [cbn [a_squeeze av_shape]; rewrite Sr; reflexivity|]. split.
  - intros i z Hi Hz. rewrite <- Sr. rewrite a_squeeze_cell by (rewrite Sr; apply in_shape3; lia).
    rewrite Cr by lia. f_equal; lia.
  - cbn [a_squeeze av_reads]. exact Rr.
Qed.

(* blockshape with bs2 <> 4: the z-slice is a one-sample sub-volume *)
Lemma read_zslice_general z : s_bs2 H <> 4 -> 0 <= z < s_ns H ->
  exists v, rd_read_zslice H z = Return v /\ av_shape v = squeeze_shape [s_nil H; s_nxl H; 1] /\
    (forall i x, 0 <= i < s_nil H -> 0 <= x < s_nxl H ->
       av_cell v (squeeze_index [s_nil H; s_nxl H; 1] [i; x; 0]) = spec_cell3 H i x z) /\
    av_reads v = box_reads H 0 (s_nil H) 0 (s_nxl H) z (z + 1).
Proof.
  intros N4 Hz. unfold rd_read_zslice.
  rewrite (r_not2d H F), (r_bs0 H F), (r_bs1 H F), (r_bs2 H F), (r_nil H F), (r_nxl H F), (r_ns H F). cbv iota.
  replace ((0 <=? z) && (z <? s_ns H)) with true by lia. cbn [negb]. cbv iota.
  rewrite not_default_test. cbv iota. replace (s_bs2 H =? 4) with false by lia. cbv iota.
  pose proof (f_nil H F). pose proof (f_nxl H F).
  destruct (subvolume_gen false true 0 (s_nil H) 0 (s_nxl H) z (z + 1)) as (r & Er & Sr & Cr & Rr); try lia.
  rewrite Er. cbn [bind]. replace (z + 1 - z) with 1 in * by lia. rewrite !Z.sub_0_r in *.
  eexists. split; [reflexivity|]. split; [cbn [a_squeeze av_shape]; rewrite Sr; reflexivity|]. split.
  - intros i x Hi Hx. rewrite <- Sr. rewrite a_squeeze_cell by (rewrite Sr; apply in_shape3; lia).
    rewrite Cr by lia. f_equal; lia.
  - cbn [a_squeeze av_reads]. exact Rr.
Qed.

(* the familiar 2-D forms *)
Lemma read_inline_general_plain il : 0 <= il < s_nil H -> 2 <= s_nxl H -> 2 <= s_ns H ->
  exists v, rd_read_inline H il = Return v /\ av_shape v = [s_nxl H; s_ns H] /\
    (forall x z, 0 <= x < s_nxl H -> 0 <= z < s_ns H -> av_cell v [x; z] = spec_cell3 H il x z) /\
    av_reads v = box_reads H il (il + 1) 0 (s_nxl H) 0 (s_ns H).
Proof.
  intros Hil N1 N2. destruct (read_inline_general il Hil) as (v & Ev & Sv & Cv & Rv).
  cbn [squeeze_shape squeeze_index] in Sv, Cv. change (1 =? 1) with true in Sv, Cv.
  replace (s_nxl H =? 1) with false in Sv, Cv by lia. replace (s_ns H =? 1) with false in Sv, Cv by lia.
  cbv iota in Sv, Cv. exists v. auto.
Qed.

Lemma read_crossline_general_plain xl : 0 <= xl < s_nxl H -> 2 <= s_nil H -> 2 <= s_ns H ->
  exists v, rd_read_crossline H xl = Return v /\ av_shape v = [s_nil H; s_ns H] /\
    (forall i z, 0 <= i < s_nil H -> 0 <= z < s_ns H -> av_cell v [i; z] = spec_cell3 H i xl z) /\
    av_reads v = box_reads H 0 (s_nil H) xl (xl + 1) 0 (s_ns H).
Proof.
  intros Hxl N1 N2. destruct (read_crossline_general xl Hxl) as (v & Ev & Sv & Cv & Rv).
  cbn [squeeze_shape squeeze_index] in Sv, Cv. change (1 =? 1) with true in Sv, Cv.
  replace (s_nil H =? 1) with false in Sv, Cv by lia. replace (s_ns H =? 1) with false in Sv, Cv by lia.
  cbv iota in Sv, Cv. exists v. auto.
Qed.

Lemma read_zslice_general_plain z : s_bs2 H <> 4 -> 0 <= z < s_ns H -> 2 <= s_nil H -> 2 <= s_nxl H ->
  exists v, rd_read_zslice H z = Return v /\ av_shape v = [s_nil H; s_nxl H] /\
    (forall i x, 0 <= i < s_nil H -> 0 <= x < s_nxl H -> av_cell v [i; x] = spec_cell3 H i x z) /\
    av_reads v = box_reads H 0 (s_nil H) 0 (s_nxl H) z (z + 1).
Proof.
  intros N4 Hz N1 N2. destruct (read_zslice_general z N4 Hz) as (v & Ev & Sv & Cv & Rv).
  cbn [squeeze_shape squeeze_index] in Sv, Cv. change (1 =? 1) with true in Sv, Cv.
  replace (s_nil H =? 1) with false in Sv, Cv by lia. replace (s_nxl H =? 1) with false in Sv, Cv by lia.
  cbv iota in Sv, Cv. exists v. auto.
Qed.

End GENERAL_READS.

(* ================================================================================================== *)
(* C07: the reads of a box are exactly the blocks holding a requested voxel, inside the data section, pairwise
   disjoint, and as many as the product of the per-axis block counts *)
Definition box_blocks (H : hdr) (i0 i1 x0 x1 z0 z1 : Z) : list Z :=
  flat_map (fun bi => flat_map (fun bx => map (fun bz => blk_no H bi bx bz)
                                              (zrange (blo z0 (s_bs2 H)) (bhi z1 (s_bs2 H))))
                               (zrange (blo x0 (s_bs1 H)) (bhi x1 (s_bs1 H))))
           (zrange (blo i0 (s_bs0 H)) (bhi i1 (s_bs0 H))).

Lemma box_reads_blocks H i0 i1 x0 x1 z0 z1 :
  box_reads H i0 i1 x0 x1 z0 z1 = map (fun k => (4096 * k, 4096)) (box_blocks H i0 i1 x0 x1 z0 z1).
Proof.
  unfold box_reads, box_blocks. rewrite map_flat_map. apply flat_map_ext. intro bi.
  rewrite map_flat_map. apply flat_map_ext. intro bx. rewrite map_map. reflexivity.
Qed.

Lemma in_box_blocks H i0 i1 x0 x1 z0 z1 k :
  In k (box_blocks H i0 i1 x0 x1 z0 z1) <->
  exists bi bx bz, blo i0 (s_bs0 H) <= bi < bhi i1 (s_bs0 H) /\ blo x0 (s_bs1 H) <= bx < bhi x1 (s_bs1 H) /\
                   blo z0 (s_bs2 H) <= bz < bhi z1 (s_bs2 H) /\ k = blk_no H bi bx bz.
Proof.
  unfold box_blocks. rewrite in_flat_map. split.
  - intros (bi & Hi & Hin). rewrite in_flat_map in Hin. destruct Hin as (bx & Hx & Hin).
    rewrite in_map_iff in Hin. destruct Hin as (bz & <- & Hz).
    rewrite in_zrange in Hi, Hx, Hz. exists bi, bx, bz. auto.
  - intros (bi & bx & bz & Hi & Hx & Hz & ->). exists bi. rewrite in_zrange. split; [exact Hi|].
    rewrite in_flat_map. exists bx. rewrite in_zrange. split; [exact Hx|].
    rewrite in_map_iff. exists bz. rewrite in_zrange. split; [reflexivity | exact Hz].
Qed.

(* what "I/O proportional" means for a box: R is the list of range reads (offset, length) of one call *)
Definition proportional_reads (H : hdr) (i0 i1 x0 x1 z0 z1 : Z) (R : list (Z * Z)) : Prop :=
  (* exactly the 4096-byte blocks that hold a requested voxel *)
  (forall r, In r R <-> exists i x z, i0 <= i < i1 /\ x0 <= x < x1 /\ z0 <= z < z1 /\
                          r = (4096 * blk_no H (i / s_bs0 H) (x / s_bs1 H) (z / s_bs2 H), 4096)) /\
  (* inside the data section *)
  (forall o l, In (o, l) R -> 0 <= o /\ o + l <= s_data_bytes3 H) /\
  (* no byte is fetched twice *)
  reads_disjoint R /\
  (* as many reads as blocks: the product of the per-axis block counts *)
  length R = Z.to_nat ((bhi i1 (s_bs0 H) - blo i0 (s_bs0 H)) * (bhi x1 (s_bs1 H) - blo x0 (s_bs1 H)) *
                       (bhi z1 (s_bs2 H) - blo z0 (s_bs2 H))).

Section IO.
Variable H : hdr.
Hypothesis W : wf3 H = true.
Let F := wf3_facts H W.

Lemma data_bytes_blocks : s_data_bytes3 H = 4096 * (nbi3 H * nbx3 H * nbz3 H).
Proof.
  unfold s_data_bytes3, nbi3, nbx3, nbz3.
  destruct (f_PI H F) as (_ & A & _ & _). destruct (f_PX H F) as (_ & B & _ & _). destruct (f_PZ H F) as (_ & C & _ & _).
  pose proof (f_bs0 H F). pose proof (f_bs1 H F). pose proof (f_bs2 H F).
  rewrite (div4_split (s_PI H) (s_bs0 H)) by (lia || apply (f_bs0m H F) || assumption).
  rewrite (div4_split (s_PX H) (s_bs1 H)) by (lia || apply (f_bs1m H F) || assumption).
  rewrite (div4_split (s_PZ H) (s_bs2 H)) by (lia || apply (f_bs2m H F) || assumption).
  rewrite <- (f_block H F). ring.
Qed.

Lemma blk_no_inj bi bx bz bi' bx' bz' :
  0 <= bx < nbx3 H -> 0 <= bz < nbz3 H -> 0 <= bx' < nbx3 H -> 0 <= bz' < nbz3 H ->
  blk_no H bi bx bz = blk_no H bi' bx' bz' -> bi = bi' /\ bx = bx' /\ bz = bz'.
Proof. unfold blk_no. apply mixed_inj. Qed.

(* the compressed unit holding voxel (i, x, z) lies inside the 4096-byte block (i/bs0, x/bs1, z/bs2) *)
Lemma spec_unit_in_block i x z :
  4096 * blk_no H (i / s_bs0 H) (x / s_bs1 H) (z / s_bs2 H) <= s_ub3 H * unit_index3 H (i / 4) (x / 4) (z / 4) /\
  s_ub3 H * unit_index3 H (i / 4) (x / 4) (z / 4) + s_ub3 H <= 4096 * (blk_no H (i / s_bs0 H) (x / s_bs1 H) (z / s_bs2 H) + 1).
Proof.
  pose proof (f_bs0 H F) as B0. pose proof (f_bs1 H F) as B1. pose proof (f_bs2 H F) as B2.
  pose proof (Z.mod_pos_bound i (s_bs0 H) ltac:(lia)) as Ma. pose proof (Z.mod_pos_bound x (s_bs1 H) ltac:(lia)) as Mb.
  pose proof (Z.mod_pos_bound z (s_bs2 H) ltac:(lia)) as Mc.
  pose proof (unit_index3_block H W (i / s_bs0 H) (x / s_bs1 H) (z / s_bs2 H) _ _ _ Ma Mb Mc) as UI.
  rewrite <- (Z.div_mod i (s_bs0 H)) in UI by lia. rewrite <- (Z.div_mod x (s_bs1 H)) in UI by lia.
  rewrite <- (Z.div_mod z (s_bs2 H)) in UI by lia. rewrite UI.
  pose proof (div4_lt2 _ _ Ma (f_bs0m H F)) as A4. pose proof (div4_lt2 _ _ Mb (f_bs1m H F)) as B4.
  pose proof (div4_lt2 _ _ Mc (f_bs2m H F)) as C4.
  pose proof (f_block H F) as Blk. pose proof (f_ub H F) as Ub.
  set (u0 := s_bs0 H / 4) in *. set (u1 := s_bs1 H / 4) in *. set (u2 := s_bs2 H / 4) in *. set (ub := s_ub3 H) in *.
  pose proof (mixed_bound u0 u1 u2 _ _ _ A4 B4 C4) as K0.
  set (k := (i mod s_bs0 H / 4 * u1 + x mod s_bs1 H / 4) * u2 + z mod s_bs2 H / 4) in *.
  nia.
Qed.

(* the byte offset of block (bi, bx, bz) is where the specification puts its first unit *)
Lemma block_offset_spec3 bi bx bz :
  4096 * blk_no H bi bx bz = s_ub3 H * unit_index3 H (s_bs0 H * bi / 4) (s_bs1 H * bx / 4) (s_bs2 H * bz / 4).
Proof.
  pose proof (f_bs0 H F). pose proof (f_bs1 H F). pose proof (f_bs2 H F).
  pose proof (unit_index3_block H W bi bx bz 0 0 0 ltac:(lia) ltac:(lia) ltac:(lia)) as E.
  rewrite !Z.add_0_r in E. rewrite E. change (0 / 4) with 0. ring.
Qed.

Lemma box_blocks_nodup i0 i1 x0 x1 z0 z1 :
  0 <= x0 < x1 -> x1 <= s_PX H -> 0 <= z0 < z1 -> z1 <= s_PZ H -> NoDup (box_blocks H i0 i1 x0 x1 z0 z1).
Proof.
  intros Hx Hx1 Hz Hz1.
  pose proof (f_bs1 H F) as B1. pose proof (f_bs2 H F) as B2. destruct (P_nb3 H W) as (_ & EX & EZ).
  pose proof (blo_bhi x0 x1 (s_bs1 H) ltac:(lia) Hx) as HX. pose proof (blo_bhi z0 z1 (s_bs2 H) ltac:(lia) Hz) as HZ.
  pose proof (bhi_le x1 (s_bs1 H) (nbx3 H) ltac:(lia) ltac:(lia)) as HX1.
  pose proof (bhi_le z1 (s_bs2 H) (nbz3 H) ltac:(lia) ltac:(lia)) as HZ1.
  unfold box_blocks. apply nodup_flat_map; [apply zrange_NoDup | |].
  - intros bi _. apply nodup_flat_map; [apply zrange_NoDup | |].
    + intros bx _. apply nodup_map_in; [|apply zrange_NoDup]. intros bz bz' _ _ E. unfold blk_no in E. lia.
    + intros bx bx' k Hbx Hbx' Hk Hk'. rewrite in_zrange in Hbx, Hbx'. rewrite in_map_iff in Hk, Hk'.
      destruct Hk as (bz & <- & Hbz), Hk' as (bz' & E & Hbz'). rewrite in_zrange in Hbz, Hbz'.
      symmetry in E. apply blk_no_inj in E; lia.
  - intros bi bi' k _ _ Hk Hk'. rewrite in_flat_map in Hk, Hk'.
    destruct Hk as (bx & Hbx & Hk), Hk' as (bx' & Hbx' & Hk'). rewrite in_zrange in Hbx, Hbx'.
    rewrite in_map_iff in Hk, Hk'.
    destruct Hk as (bz & <- & Hbz), Hk' as (bz' & E & Hbz'). rewrite in_zrange in Hbz, Hbz'.
    symmetry in E. apply blk_no_inj in E; lia.
Qed.

Lemma box_blocks_length i0 i1 x0 x1 z0 z1 : 0 <= i0 < i1 -> 0 <= x0 < x1 -> 0 <= z0 < z1 ->
  length (box_blocks H i0 i1 x0 x1 z0 z1) =
  Z.to_nat ((bhi i1 (s_bs0 H) - blo i0 (s_bs0 H)) * (bhi x1 (s_bs1 H) - blo x0 (s_bs1 H)) *
            (bhi z1 (s_bs2 H) - blo z0 (s_bs2 H))).
Proof.
  intros Hi Hx Hz.
  pose proof (f_bs0 H F) as B0. pose proof (f_bs1 H F) as B1. pose proof (f_bs2 H F) as B2.
  pose proof (blo_bhi i0 i1 (s_bs0 H) ltac:(lia) Hi) as HI.
  pose proof (blo_bhi x0 x1 (s_bs1 H) ltac:(lia) Hx) as HX. pose proof (blo_bhi z0 z1 (s_bs2 H) ltac:(lia) Hz) as HZ.
  unfold box_blocks.
  rewrite (length_flat_map_const _ _ (Z.to_nat (bhi x1 (s_bs1 H) - blo x0 (s_bs1 H)) *
                                       Z.to_nat (bhi z1 (s_bs2 H) - blo z0 (s_bs2 H)))%nat).
  - rewrite zrange_length.
    set (A := bhi i1 (s_bs0 H) - blo i0 (s_bs0 H)) in *. set (B := bhi x1 (s_bs1 H) - blo x0 (s_bs1 H)) in *.
    set (C := bhi z1 (s_bs2 H) - blo z0 (s_bs2 H)) in *.
    assert (0 <= A * B) by (apply Z.mul_nonneg_nonneg; lia).
    rewrite (Z2Nat.inj_mul (A * B) C) by lia. rewrite (Z2Nat.inj_mul A B) by lia. lia.
  - intros bi _. rewrite (length_flat_map_const _ _ (Z.to_nat (bhi z1 (s_bs2 H) - blo z0 (s_bs2 H)))).
    + rewrite zrange_length. reflexivity.
    + intros bx _. rewrite map_length, zrange_length. reflexivity.
Qed.

Lemma box_reads_proportional i0 i1 x0 x1 z0 z1 :
  0 <= i0 < i1 -> i1 <= s_PI H -> 0 <= x0 < x1 -> x1 <= s_PX H -> 0 <= z0 < z1 -> z1 <= s_PZ H ->
  proportional_reads H i0 i1 x0 x1 z0 z1 (box_reads H i0 i1 x0 x1 z0 z1).
Proof.
  intros Hi Hi1 Hx Hx1 Hz Hz1.
  pose proof (f_bs0 H F) as B0. pose proof (f_bs1 H F) as B1. pose proof (f_bs2 H F) as B2.
  destruct (P_nb3 H W) as (EI & EX & EZ). destruct (nb_pos3 H W) as (NI & NX & NZ).
  pose proof (blo_bhi i0 i1 (s_bs0 H) ltac:(lia) Hi) as HI.
  pose proof (blo_bhi x0 x1 (s_bs1 H) ltac:(lia) Hx) as HX. pose proof (blo_bhi z0 z1 (s_bs2 H) ltac:(lia) Hz) as HZ.
  pose proof (bhi_le i1 (s_bs0 H) (nbi3 H) ltac:(lia) ltac:(lia)) as HI1.
  pose proof (bhi_le x1 (s_bs1 H) (nbx3 H) ltac:(lia) ltac:(lia)) as HX1.
  pose proof (bhi_le z1 (s_bs2 H) (nbz3 H) ltac:(lia) ltac:(lia)) as HZ1.
  unfold proportional_reads. rewrite box_reads_blocks. split; [|split; [|split]].
  - intro r. split.
    + intro Hr. apply in_map_iff in Hr. destruct Hr as (k & <- & Hk). apply in_box_blocks in Hk.
      destruct Hk as (bi & bx & bz & Hbi & Hbx & Hbz & ->).
      apply (block_touched_iff i0 i1 (s_bs0 H) bi ltac:(lia) ltac:(lia)) in Hbi. destruct Hbi as (i & Hi' & <-).
      apply (block_touched_iff x0 x1 (s_bs1 H) bx ltac:(lia) ltac:(lia)) in Hbx. destruct Hbx as (x & Hx' & <-).
      apply (block_touched_iff z0 z1 (s_bs2 H) bz ltac:(lia) ltac:(lia)) in Hbz. destruct Hbz as (z & Hz' & <-).
      exists i, x, z. auto.
    + intros (i & x & z & Hi' & Hx' & Hz' & ->). apply in_map_iff.
      exists (blk_no H (i / s_bs0 H) (x / s_bs1 H) (z / s_bs2 H)). split; [reflexivity|].
      apply in_box_blocks. exists (i / s_bs0 H), (x / s_bs1 H), (z / s_bs2 H).
      split; [|split; [|split; [|reflexivity]]].
      * apply (block_touched_iff i0 i1 (s_bs0 H) _ ltac:(lia) ltac:(lia)). exists i. split; [exact Hi' | reflexivity].
      * apply (block_touched_iff x0 x1 (s_bs1 H) _ ltac:(lia) ltac:(lia)). exists x. split; [exact Hx' | reflexivity].
      * apply (block_touched_iff z0 z1 (s_bs2 H) _ ltac:(lia) ltac:(lia)). exists z. split; [exact Hz' | reflexivity].
  - intros o l Hin. apply in_map_iff in Hin. destruct Hin as (k & E & Hk).
    pose proof (f_equal fst E) as Eo. pose proof (f_equal snd E) as El. cbn [fst snd] in Eo, El. subst o l.
    apply in_box_blocks in Hk.
    destruct Hk as (bi & bx & bz & Hbi & Hbx & Hbz & ->).
    pose proof (mixed_bound (nbi3 H) (nbx3 H) (nbz3 H) bi bx bz ltac:(lia) ltac:(lia) ltac:(lia)) as MB.
    rewrite data_bytes_blocks. unfold blk_no. lia.
  - apply reads_disjoint_blocks; [lia | apply box_blocks_nodup; assumption].
  - rewrite map_length. apply box_blocks_length; assumption.
Qed.

(* the in-range (unpadded) box is in particular inside the padded volume *)
Lemma box_reads_proportional_inrange i0 i1 x0 x1 z0 z1 :
  0 <= i0 < i1 -> i1 <= s_nil H -> 0 <= x0 < x1 -> x1 <= s_nxl H -> 0 <= z0 < z1 -> z1 <= s_ns H ->
  proportional_reads H i0 i1 x0 x1 z0 z1 (box_reads H i0 i1 x0 x1 z0 z1).
Proof.
  intros. destruct (f_PI H F) as (A & _). destruct (f_PX H F) as (B & _). destruct (f_PZ H F) as (C & _).
  apply box_reads_proportional; lia.
Qed.

(* the whole volume: every block of the data section, once, in file order *)
Lemma box_blocks_volume : box_blocks H 0 (s_nil H) 0 (s_nxl H) 0 (s_ns H) = zrange 0 (nbi3 H * nbx3 H * nbz3 H).
Proof.
  pose proof (f_bs0 H F) as B0. pose proof (f_bs1 H F) as B1. pose proof (f_bs2 H F) as B2.
  destruct (nb_pos3 H W) as (NI & NX & NZ).
  destruct (pad_to_spec (s_nil H) (s_bs0 H) ltac:(lia)) as (_ & _ & EI).
  destruct (pad_to_spec (s_nxl H) (s_bs1 H) ltac:(lia)) as (_ & _ & EX).
  destruct (pad_to_spec (s_ns H) (s_bs2 H) ltac:(lia)) as (_ & _ & EZ).
  unfold box_blocks, blo, bhi. rewrite <- EI, <- EX, <- EZ. fold (s_PI H) (s_PX H) (s_PZ H).
  fold (nbi3 H) (nbx3 H) (nbz3 H). rewrite !Z.div_0_l by lia.
  replace (nbi3 H * nbx3 H * nbz3 H) with (0 + nbi3 H * (nbx3 H * nbz3 H)) by ring.
  apply flat_map_enum; [lia | nia |]. intros bi Hbi.
  replace (0 + (bi + 1) * (nbx3 H * nbz3 H)) with (0 + bi * (nbx3 H * nbz3 H) + nbx3 H * nbz3 H) by ring.
  apply flat_map_enum; [lia | lia |]. intros bx Hbx.
  rewrite (map_ext _ (fun bz => (0 + bi * (nbx3 H * nbz3 H) + bx * nbz3 H) + bz)) by (intro; unfold blk_no; ring).
  rewrite map_add_zrange by lia. f_equal. ring.
Qed.

End IO.

(* ================================================================================================== *)
(* blockshape (N, N, 4), not (4,4,4): read_zslice goes through ld_read_and_decompress_zslice_set_adv.  Of every block
   (bi, bx, z/4) -- one per tile of the z-slice -- it reads the bs0/4 sub-blocks (4 x bs1 x 4 voxels each), which
   tile the 4096 bytes of that block, and places them so that the buffer decodes as a (PI, PX, 4) array. *)
Definition adv_sub_len (H : hdr) : Z := (s_bs1 H / 4) * s_ub3 H.      (* bytes of one 4 x bs1 x 4 sub-block *)
Definition zslice_adv_reads (H : hdr) (z : Z) : list (Z * Z) :=
  flat_map (fun id => map (fun s => (4096 * (id * nbz3 H + z / 4) + s * adv_sub_len H, adv_sub_len H))
                          (zrange 0 (s_bs0 H / 4)))
           (zrange 0 (nbi3 H * nbx3 H)).

Section ZSLICE_ADV.
Variable H : hdr.
Hypothesis W : wf3 H = true.
Hypothesis Z4 : s_bs2 H = 4.
Let F := wf3_facts H W.

Lemma adv_block : (s_bs0 H / 4) * adv_sub_len H = 4096.
Proof. pose proof (f_block H F) as B. rewrite Z4 in B. change (4 / 4) with 1 in B. unfold adv_sub_len. lia. Qed.

(* the placements of the loader, normalised: read (id, s) goes to position j * L with j mixed-radix in (bi, s, bx) *)
Definition adv_rd (H : hdr) (z id s : Z) : rd :=
  (4096 * (id * nbz3 H + z / 4) + s * adv_sub_len H, adv_sub_len H,
   ((id / nbx3 H * (s_bs0 H / 4) + s) * nbx3 H + id mod nbx3 H) * adv_sub_len H).
Definition adv_rds (H : hdr) (z : Z) : list rd :=
  flat_map (fun id => flat_map (fun s => [adv_rd H z id s]) (zrange 0 (s_bs0 H / 4))) (zrange 0 (nbi3 H * nbx3 H)).

Lemma in_adv_rds z r : In r (adv_rds H z) <->
  exists id s, 0 <= id < nbi3 H * nbx3 H /\ 0 <= s < s_bs0 H / 4 /\ r = adv_rd H z id s.
Proof.
  unfold adv_rds. rewrite in_flat_map. split.
  - intros (id & Hid & Hin). rewrite in_flat_map in Hin. destruct Hin as (s & Hs & [<-|[]]).
    rewrite in_zrange in Hid, Hs. exists id, s. auto.
  - intros (id & s & Hid & Hs & ->). exists id. rewrite in_zrange. split; [exact Hid|].
    rewrite in_flat_map. exists s. rewrite in_zrange. split; [exact Hs | left; reflexivity].
Qed.

Lemma adv_compat z : compat (adv_rds H z).
Proof.
  destruct (nb_pos3 H W) as (NI & NX & NZ). pose proof (g_u0pos H W) as U0.
  assert (Lpos : 0 < adv_sub_len H) by (unfold adv_sub_len; pose proof (g_u1pos H W); pose proof (f_ub H F); nia).
  intros r1 r2 H1 H2. apply in_adv_rds in H1, H2.
  destruct H1 as (id1 & s1 & Hid1 & Hs1 & ->), H2 as (id2 & s2 & Hid2 & Hs2 & ->).
  unfold adv_rd. cbn [rd_lo rd_hi].
  pose proof (Z.mod_pos_bound id1 (nbx3 H) NX) as M1. pose proof (Z.mod_pos_bound id2 (nbx3 H) NX) as M2.
  set (j1 := (id1 / nbx3 H * (s_bs0 H / 4) + s1) * nbx3 H + id1 mod nbx3 H).
  set (j2 := (id2 / nbx3 H * (s_bs0 H / 4) + s2) * nbx3 H + id2 mod nbx3 H).
  destruct (Z.eq_dec j1 j2) as [E|N].
  - left. subst j1 j2. apply mixed_inj in E; try lia. destruct E as (E1 & E2 & E3).
    assert (id1 = id2) by (apply (divmod_eq (nbx3 H)); assumption). subst. reflexivity.
  - right. set (L := adv_sub_len H) in *. nia.
Qed.

Lemma zslice_adv_ok z : 0 <= z < s_PZ H ->
  exists v, ld_read_and_decompress_zslice_set_adv H (nbi3 H) (nbx3 H) (nbz3 H) (z / s_bs2 H) = Return v /\
    av_shape v = [s_PI H; s_PX H; 4] /\
    (forall a b c, 0 <= a < s_PI H -> 0 <= b < s_PX H -> 0 <= c < 4 ->
       av_cell v [a; b; c] = spec_cell3 H a b (4 * (z / 4) + c)) /\
    av_reads v = zslice_adv_reads H z.
Proof.
  intro Hz. unfold ld_read_and_decompress_zslice_set_adv.
  destruct (wf3_unpack H W) as (_ & _ & _ & _ & _ & _ & _ & _ & _ & Rc & _ & Uex & _).
  assert (Rdpos : 0 < s_rd H). { unfold s_rd. destruct (s_rate_code H <? 0) eqn:Q; lia. }
  pose proof (f_bs0 H F) as B0. pose proof (f_bs1 H F) as B1. pose proof (f_ub H F) as Ub.
  pose proof (g_u0pos H W) as U0. pose proof (g_u1pos H W) as U1.
  pose proof (g_bs0_u0 H W) as E0. pose proof (g_bs1_u1 H W) as E1.
  destruct (nb_pos3 H W) as (NI & NX & NZ). destruct (P_nb3 H W) as (EI & EX & EZ).
  destruct (f_PI H F) as (_ & _ & PI4 & _). destruct (f_PX H F) as (_ & PXm & PX4 & _).
  pose proof adv_block as AB.
  assert (X4 : s_PX H / 4 = nbx3 H * (s_bs1 H / 4)).
  { unfold nbx3. apply div4_split; [lia | apply (f_bs1m H F) | exact PXm]. }
  rewrite (r_bb H F), (r_bs0 H F), (r_bs1 H F), (r_P0 H F), (r_P1 H F), Z4.
  (* the two byte counts the loader computes *)
  assert (ES : Z.quot (4 * 4 * s_bs1 H * rd_rate_n H) (rd_rate_d H) / 8 = adv_sub_len H).
  { rewrite (r_rn H F), (r_rd H F). unfold adv_sub_len.
    rewrite (quot_exact _ _ (8 * (s_bs1 H / 4 * s_ub3 H))); [rewrite Z.mul_comm; apply Z_div_mult; lia | lia | nia |].
    rewrite E1 at 1. set (u1 := s_bs1 H / 4) in *.
    replace (4 * 4 * (4 * u1) * s_rn H) with (u1 * (64 * s_rn H)) by ring. rewrite <- Uex. ring. }
  assert (ET : Z.quot (s_PX H * 4 * 4 * rd_rate_n H) (rd_rate_d H) / 8 = nbx3 H * adv_sub_len H).
  { rewrite (r_rn H F), (r_rd H F). unfold adv_sub_len.
    rewrite (quot_exact _ _ (8 * (nbx3 H * (s_bs1 H / 4 * s_ub3 H)))); [rewrite Z.mul_comm; apply Z_div_mult; lia | lia | nia |].
    rewrite (exact_div (s_PX H) 4 ltac:(lia) PX4) at 1. rewrite X4. set (u1 := s_bs1 H / 4) in *.
    replace (4 * (nbx3 H * u1) * 4 * 4 * s_rn H) with (nbx3 H * u1 * (64 * s_rn H)) by ring. rewrite <- Uex. ring. }
  rewrite ES, ET.
  match goal with |- context [a_decomp _ _ ?l _] => assert (EQL : l = adv_rds H z) end.
  { unfold adv_rds. apply flat_map_ext. intro id. apply flat_map_ext. intro s. unfold adv_rd.
    assert (Eid : id / nbx3 H * nbx3 H + id mod nbx3 H = id) by (pose proof (Z.div_mod id (nbx3 H) ltac:(lia)); lia).
    rewrite Eid. set (L := adv_sub_len H) in *. set (q := id / nbx3 H) in *. set (m := id mod nbx3 H) in *.
    f_equal. f_equal; [f_equal|]; [ring | ring |].
    rewrite <- AB. ring. }
  rewrite EQL. eexists. split; [reflexivity|]. cbn [a_decomp av_shape av_cell av_reads]. split; [reflexivity|]. split.
  - intros a b c Ha Hb Hc.
    pose proof (div4_lt2 a _ Ha PI4) as Ha4. pose proof (div4_lt2 b _ Hb PX4) as Hb4.
    assert (K : unit_no [s_PI H; s_PX H; 4] [a; b; c] 0 = a / 4 * (s_PX H / 4) + b / 4).
    { cbn [unit_no]. rewrite !cdiv_exact by (assumption || reflexivity). change (4 / 4) with 1.
      rewrite (Z.div_small c 4) by lia. ring. }
    (* block and sub-block of (a, b) *)
    pose proof (Z.div_mod a (s_bs0 H) ltac:(lia)) as DMa. pose proof (Z.mod_pos_bound a (s_bs0 H) ltac:(lia)) as MBa.
    pose proof (Z.div_mod b (s_bs1 H) ltac:(lia)) as DMb. pose proof (Z.mod_pos_bound b (s_bs1 H) ltac:(lia)) as MBb.
    pose proof (zsplit a (s_bs0 H) ltac:(lia) (f_bs0m H F)) as SA. pose proof (zsplit b (s_bs1 H) ltac:(lia) (f_bs1m H F)) as SB.
    pose proof (div4_lt2 _ _ MBa (f_bs0m H F)) as S4. pose proof (div4_lt2 _ _ MBb (f_bs1m H F)) as T4.
    assert (BI : 0 <= a / s_bs0 H < nbi3 H).
    { split; [apply Z.div_pos; lia | apply Z.div_lt_upper_bound; lia]. }
    assert (BX : 0 <= b / s_bs1 H < nbx3 H).
    { split; [apply Z.div_pos; lia | apply Z.div_lt_upper_bound; lia]. }
    pose proof (unit_index3_block H W (a / s_bs0 H) (b / s_bs1 H) (z / 4) _ _ c MBa MBb ltac:(lia)) as UI.
    rewrite <- (Z.div_mod a (s_bs0 H)) in UI by lia. rewrite <- (Z.div_mod b (s_bs1 H)) in UI by lia.
    rewrite Z4 in UI. change (4 / 4) with 1 in UI. rewrite (Z.div_small c 4) in UI by lia.
    assert (ZQ : (4 * (z / 4) + c) / 4 = z / 4).
    { rewrite Z.mul_comm, Z.div_add_l by lia. rewrite (Z.div_small c 4) by lia. lia. }
    rewrite ZQ in UI.
    set (bi := a / s_bs0 H) in *. set (bx := b / s_bs1 H) in *.
    set (s := a mod s_bs0 H / 4) in *. set (t := b mod s_bs1 H / 4) in *.
    set (u0 := s_bs0 H / 4) in *. set (u1 := s_bs1 H / 4) in *. set (ub := s_ub3 H) in *.
    destruct (divmod_blk bi (nbx3 H) bx NX BX) as [DQ DM].
    assert (IDr : 0 <= bi * nbx3 H + bx < nbi3 H * nbx3 H) by nia.
    set (k := a / 4 * (s_PX H / 4) + b / 4) in *.
    assert (Lu : adv_sub_len H = u1 * ub) by reflexivity.
    assert (KP : k * ub = ((bi * u0 + s) * nbx3 H + bx) * adv_sub_len H + t * ub).
    { subst k. rewrite SA, SB, X4, Lu. fold u0 u1. ring. }
    erewrite decomp_cell_hit with (ub := ub) (k := k) (r := adv_rd H z (bi * nbx3 H + bx) s);
      [ | apply in_shape3; lia | apply (r_ubof H F) | exact Ub | exact K
        | apply adv_compat | apply in_adv_rds; exists (bi * nbx3 H + bx), s; repeat split; lia
        | unfold adv_rd; cbn [rd_lo]; rewrite DQ, DM; fold u0; nia
        | unfold adv_rd; cbn [rd_hi]; rewrite DQ, DM; fold u0; nia ].
    unfold spec_cell3. cbn [cell_no]. f_equal.
    + fold ub. rewrite ZQ, UI. unfold adv_rd, rd_src. rewrite DQ, DM. fold u0. unfold blk_no. rewrite KP, Lu. ring.
    + rewrite (cell_mod c 4 (z / 4)) by reflexivity. ring.
  - unfold reads_of, adv_rds, zslice_adv_reads. rewrite map_flat_map. apply flat_map_ext. intro id.
    rewrite map_flat_map_single. reflexivity.
Qed.

Lemma read_zslice_adv z : general_layout H -> 0 <= z < s_ns H ->
  exists v, rd_read_zslice H z = Return v /\ av_shape v = [s_nil H; s_nxl H] /\
    (forall i x, 0 <= i < s_nil H -> 0 <= x < s_nxl H -> av_cell v [i; x] = spec_cell3 H i x z) /\
    av_reads v = zslice_adv_reads H z.
Proof.
  intros G Hz. unfold rd_read_zslice.
  rewrite (r_not2d H F), (r_fl_p2 H F), (r_fl_bs2 H F), (r_bs0 H F), (r_bs1 H F), (r_bs2 H F), (r_nil H F),
    (r_nxl H F), (r_ns H F), (r_P0 H F), (r_P1 H F), (r_P2 H F).
  cbn [orb]. cbv iota.
  replace ((0 <=? z) && (z <? s_ns H)) with true by lia. cbn [negb]. cbv iota.
  rewrite (not_default_test H G). cbv iota. replace (s_bs2 H =? 4) with true by lia. cbv iota.
  destruct (f_PI H F) as (PI1 & _ & _ & _). destruct (f_PX H F) as (PX1 & _ & _ & _).
  destruct (f_PZ H F) as (PZ1 & _ & _ & _).
  destruct (zslice_adv_ok z ltac:(lia)) as (v & Ev & Sv & Cv & Rv). unfold nbi3, nbx3, nbz3 in Ev.
  rewrite Ev. cbn [bind].
  pose proof (f_nil H F). pose proof (f_nxl H F).
  pose proof (Z.div_mod z 4 ltac:(lia)) as DM. pose proof (Z.mod_pos_bound z 4 ltac:(lia)) as MB.
  unfold a_slice. rewrite Sv. cbn [subs_ok slice_shape].
  replace ((- (4) <=? z mod 4) && (z mod 4 <? 4) && true) with true by lia. cbn [negb bind].
  rewrite !norm_bound_in by lia. rewrite !Z.sub_0_r.
  replace (Z.max 0 (s_nil H)) with (s_nil H) by lia. replace (Z.max 0 (s_nxl H)) with (s_nxl H) by lia.
  eexists. split; [reflexivity|]. cbn [av_shape av_cell av_reads]. split; [reflexivity|]. split.
  - intros i x Hi Hx. rewrite in_shape2 by lia. cbn [slice_index].
    replace (z mod 4 <? 0) with false by lia. rewrite !norm_bound_in by lia. rewrite !Z.add_0_l.
    rewrite Cv by lia. f_equal. lia.
  - exact Rv.
Qed.

(* the two byte counts the loader computes from the (fractional) bit rate, for every well-formed (N, N, 4) header:
   int(4*4*blockshape[1]*rate) // 8 and int(shape_pad[1]*4*4*rate) // 8 (used by Proofs/FaultsWf.v for C17) *)
Lemma adv_r1_eq : Z.quot (4 * 4 * rd_blockshape1 H * rd_rate_n H) (rd_rate_d H) / 8 = adv_sub_len H.
Proof.
  destruct (wf3_unpack H W) as (_ & _ & _ & _ & _ & _ & _ & _ & _ & Rc & _ & Uex & _).
  assert (Rdpos : 0 < s_rd H). { unfold s_rd. destruct (s_rate_code H <? 0) eqn:Q; lia. }
  pose proof (f_bs1 H F) as B1. pose proof (f_ub H F) as Ub. pose proof (g_u1pos H W) as U1. pose proof (g_bs1_u1 H W) as E1.
  rewrite (r_bs1 H F), (r_rn H F), (r_rd H F). unfold adv_sub_len.
  rewrite (quot_exact _ _ (8 * (s_bs1 H / 4 * s_ub3 H))); [rewrite Z.mul_comm; apply Z_div_mult; lia | lia | nia |].
  rewrite E1 at 1. set (u1 := s_bs1 H / 4) in *.
  replace (4 * 4 * (4 * u1) * s_rn H) with (u1 * (64 * s_rn H)) by ring. rewrite <- Uex. ring.
Qed.

Lemma adv_r2_eq : Z.quot (rd_shape_pad1 H * 4 * 4 * rd_rate_n H) (rd_rate_d H) / 8 = nbx3 H * adv_sub_len H.
Proof.
  destruct (wf3_unpack H W) as (_ & _ & _ & _ & _ & _ & _ & _ & _ & Rc & _ & Uex & _).
  assert (Rdpos : 0 < s_rd H). { unfold s_rd. destruct (s_rate_code H <? 0) eqn:Q; lia. }
  pose proof (f_bs1 H F) as B1. pose proof (f_ub H F) as Ub. pose proof (g_u1pos H W) as U1.
  destruct (nb_pos3 H W) as (NI & NX & NZ). destruct (f_PX H F) as (_ & PXm & PX4 & _).
  assert (X4 : s_PX H / 4 = nbx3 H * (s_bs1 H / 4)).
  { unfold nbx3. apply div4_split; [lia | apply (f_bs1m H F) | exact PXm]. }
  rewrite (r_P1 H F), (r_rn H F), (r_rd H F). unfold adv_sub_len.
  rewrite (quot_exact _ _ (8 * (nbx3 H * (s_bs1 H / 4 * s_ub3 H)))); [rewrite Z.mul_comm; apply Z_div_mult; lia | lia | nia |].
  rewrite (exact_div (s_PX H) 4 ltac:(lia) PX4) at 1. rewrite X4. set (u1 := s_bs1 H / 4) in *.
  replace (4 * (nbx3 H * u1) * 4 * 4 * s_rn H) with (nbx3 H * u1 * (64 * s_rn H)) by ring. rewrite <- Uex. ring.
Qed.

End ZSLICE_ADV.

(* what "I/O proportional" means for the z-slice of a (N, N, 4) file: per tile (bi, bx) of the slice the bs0/4
   consecutive sub-block reads that tile the 4096-byte block (bi, bx, z/4) -- nothing else, nothing twice *)
Definition adv_proportional_reads (H : hdr) (z : Z) (R : list (Z * Z)) : Prop :=
  (s_bs0 H / 4) * adv_sub_len H = 4096 /\
  (forall r, In r R <-> exists bi bx s, 0 <= bi < nbi3 H /\ 0 <= bx < nbx3 H /\ 0 <= s < s_bs0 H / 4 /\
                          r = (4096 * blk_no H bi bx (z / s_bs2 H) + s * adv_sub_len H, adv_sub_len H)) /\
  (forall o l, In (o, l) R -> 0 <= o /\ o + l <= s_data_bytes3 H) /\
  reads_disjoint R /\
  length R = Z.to_nat (nbi3 H * nbx3 H * (s_bs0 H / 4)).

Section ZSLICE_ADV_IO.
Variable H : hdr.
Hypothesis W : wf3 H = true.
Hypothesis Z4 : s_bs2 H = 4.
Let F := wf3_facts H W.

Lemma zslice_adv_reads_proportional z : 0 <= z < s_PZ H -> adv_proportional_reads H z (zslice_adv_reads H z).
Proof.
  intro Hz. pose proof (adv_block H W Z4) as AB.
  destruct (nb_pos3 H W) as (NI & NX & NZ). destruct (P_nb3 H W) as (EI & EX & EZ). pose proof (g_u0pos H W) as U0.
  assert (Lpos : 0 < adv_sub_len H) by (unfold adv_sub_len; pose proof (g_u1pos H W); pose proof (f_ub H F); nia).
  assert (ZQ : 0 <= z / 4 < nbz3 H).
  { rewrite Z4 in EZ. split; [apply Z.div_pos; lia | apply Z.div_lt_upper_bound; lia]. }
  unfold adv_proportional_reads. rewrite Z4.
  set (L := adv_sub_len H) in *. set (u0 := s_bs0 H / 4) in *. set (zq := z / 4) in *.
  split; [exact AB|]. split; [|split; [|split]].
  - intro r. unfold zslice_adv_reads. fold L u0 zq. rewrite in_flat_map. split.
    + intros (id & Hid & Hin). rewrite in_map_iff in Hin. destruct Hin as (s & <- & Hs). rewrite in_zrange in Hid, Hs.
      pose proof (Z.div_mod id (nbx3 H) ltac:(lia)) as DM. pose proof (Z.mod_pos_bound id (nbx3 H) NX) as MB.
      exists (id / nbx3 H), (id mod nbx3 H), s.
      split; [split; [apply Z.div_pos; lia | apply Z.div_lt_upper_bound; lia]|]. split; [exact MB|]. split; [exact Hs|].
      unfold blk_no. f_equal. f_equal. f_equal. f_equal. lia.
    + intros (bi & bx & s & Hbi & Hbx & Hs & ->). exists (bi * nbx3 H + bx). rewrite in_zrange. split; [nia|].
      rewrite in_map_iff. exists s. rewrite in_zrange. split; [reflexivity | exact Hs].
  - intros o l Hin. unfold zslice_adv_reads in Hin. fold L u0 zq in Hin. rewrite in_flat_map in Hin.
    destruct Hin as (id & Hid & Hin). rewrite in_map_iff in Hin. destruct Hin as (s & E & Hs). rewrite in_zrange in Hid, Hs.
    pose proof (f_equal fst E) as Eo. pose proof (f_equal snd E) as El. cbn [fst snd] in Eo, El. subst o l.
    rewrite (data_bytes_blocks H W).
    assert (B0 : 0 <= id * nbz3 H + zq) by nia.
    assert (B1 : id * nbz3 H + zq + 1 <= nbi3 H * nbx3 H * nbz3 H) by nia.
    assert (S1 : s * L + L <= u0 * L) by nia.
    assert (S0 : 0 <= s * L) by nia.
    lia.
  - assert (E : zslice_adv_reads H z =
                map (fun j => (L * j, L))
                    (flat_map (fun id => map (fun s => (id * nbz3 H + zq) * u0 + s) (zrange 0 u0)) (zrange 0 (nbi3 H * nbx3 H)))).
    { unfold zslice_adv_reads. fold L u0 zq. rewrite map_flat_map. apply flat_map_ext. intro id. rewrite map_map.
      apply map_ext. intro s. f_equal. rewrite <- AB. ring. }
    rewrite E. apply reads_disjoint_blocks; [lia|].
    apply nodup_flat_map; [apply zrange_NoDup | |].
    + intros id _. apply nodup_map_in; [|apply zrange_NoDup]. intros s s' _ _ Es. lia.
    + intros id id' k _ _ Hk Hk'. rewrite in_map_iff in Hk, Hk'.
      destruct Hk as (s & <- & Hs), Hk' as (s' & Es & Hs'). rewrite in_zrange in Hs, Hs'.
      assert (Q : id' * nbz3 H + zq = id * nbz3 H + zq /\ s' = s).
      { apply (Z.div_mod_unique u0); [left; lia | left; lia | lia]. }
      destruct Q as [Q _]. nia.
  - unfold zslice_adv_reads. fold L u0 zq.
    rewrite (length_flat_map_const _ _ (Z.to_nat u0)) by (intros; rewrite map_length, zrange_length; f_equal; lia).
    rewrite zrange_length, Z.sub_0_r.
    assert (0 <= nbi3 H * nbx3 H) by nia.
    rewrite (Z2Nat.inj_mul (nbi3 H * nbx3 H) u0) by lia. reflexivity.
Qed.

End ZSLICE_ADV_IO.

(* ================================================================================================== *)
(* C07 for the reader's methods, general layout *)
Lemma proportional_reads_unfold H i0 i1 x0 x1 z0 z1 R :
  proportional_reads H i0 i1 x0 x1 z0 z1 R <->
  ((forall r, In r R <-> exists i x z, i0 <= i < i1 /\ x0 <= x < x1 /\ z0 <= z < z1 /\
                          r = (4096 * ((i / s_bs0 H * (s_PX H / s_bs1 H) + x / s_bs1 H) * (s_PZ H / s_bs2 H) + z / s_bs2 H), 4096)) /\
   (forall o l, In (o, l) R -> 0 <= o /\ o + l <= s_data_bytes3 H) /\
   ForallOrdPairs (fun r1 r2 => fst r1 + snd r1 <= fst r2 \/ fst r2 + snd r2 <= fst r1) R /\
   length R = Z.to_nat (((i1 + s_bs0 H - 1) / s_bs0 H - i0 / s_bs0 H) * ((x1 + s_bs1 H - 1) / s_bs1 H - x0 / s_bs1 H) *
                        ((z1 + s_bs2 H - 1) / s_bs2 H - z0 / s_bs2 H))).
Proof. split; intro P; exact P. Qed.

Lemma adv_proportional_reads_unfold H z R :
  adv_proportional_reads H z R <->
  ((s_bs0 H / 4) * ((s_bs1 H / 4) * s_ub3 H) = 4096 /\
   (forall r, In r R <-> exists bi bx s, 0 <= bi < s_PI H / s_bs0 H /\ 0 <= bx < s_PX H / s_bs1 H /\ 0 <= s < s_bs0 H / 4 /\
        r = (4096 * ((bi * (s_PX H / s_bs1 H) + bx) * (s_PZ H / s_bs2 H) + z / s_bs2 H) + s * ((s_bs1 H / 4) * s_ub3 H),
             (s_bs1 H / 4) * s_ub3 H)) /\
   (forall o l, In (o, l) R -> 0 <= o /\ o + l <= s_data_bytes3 H) /\
   ForallOrdPairs (fun r1 r2 => fst r1 + snd r1 <= fst r2 \/ fst r2 + snd r2 <= fst r1) R /\
   length R = Z.to_nat ((s_PI H / s_bs0 H) * (s_PX H / s_bs1 H) * (s_bs0 H / 4))).
Proof. split; intro P; exact P. Qed.

Lemma box_reads_unfold H i0 i1 x0 x1 z0 z1 :
  box_reads H i0 i1 x0 x1 z0 z1 =
  flat_map (fun bi => flat_map (fun bx => map (fun bz => (4096 * ((bi * (s_PX H / s_bs1 H) + bx) * (s_PZ H / s_bs2 H) + bz), 4096))
                                              (zrange (z0 / s_bs2 H) ((z1 + s_bs2 H - 1) / s_bs2 H)))
                               (zrange (x0 / s_bs1 H) ((x1 + s_bs1 H - 1) / s_bs1 H)))
           (zrange (i0 / s_bs0 H) ((i1 + s_bs0 H - 1) / s_bs0 H)).
Proof. reflexivity. Qed.

Lemma zslice_adv_reads_unfold H z :
  zslice_adv_reads H z =
  flat_map (fun id => map (fun s => (4096 * (id * (s_PZ H / s_bs2 H) + z / 4) + s * ((s_bs1 H / 4) * s_ub3 H), (s_bs1 H / 4) * s_ub3 H))
                          (zrange 0 (s_bs0 H / 4)))
           (zrange 0 (s_PI H / s_bs0 H * (s_PX H / s_bs1 H))).
Proof. reflexivity. Qed.

Section IO_READS.
Variable H : hdr.
Hypothesis W : wf3 H = true.
Hypothesis G : general_layout H.
Let F := wf3_facts H W.

Lemma subvolume_io (mt : bool) i0 i1 x0 x1 z0 z1 :
  0 <= i0 < i1 -> i1 <= s_nil H -> 0 <= x0 < x1 -> x1 <= s_nxl H -> 0 <= z0 < z1 -> z1 <= s_ns H ->
  exists v, rd_read_subvolume H i0 i1 x0 x1 z0 z1 false mt = Return v /\
    proportional_reads H i0 i1 x0 x1 z0 z1 (av_reads v).
Proof.
  intros Hi Hi1 Hx Hx1 Hz Hz1.
  destruct (read_subvolume_general H W G mt i0 i1 x0 x1 z0 z1 Hi Hi1 Hx Hx1 Hz Hz1) as (v & Ev & _ & _ & Rv).
  exists v. split; [exact Ev|]. rewrite Rv. apply box_reads_proportional_inrange; assumption.
Qed.

(* with access to the padding (used by the trace reads through read_containing_chunk) *)
Lemma subvolume_padded_io (mt : bool) i0 i1 x0 x1 z0 z1 :
  0 <= i0 < i1 -> i1 <= s_PI H -> 0 <= x0 < x1 -> x1 <= s_PX H -> 0 <= z0 < z1 -> z1 <= s_PZ H ->
  exists v, rd_read_subvolume H i0 i1 x0 x1 z0 z1 true mt = Return v /\
    proportional_reads H i0 i1 x0 x1 z0 z1 (av_reads v).
Proof.
  intros Hi Hi1 Hx Hx1 Hz Hz1.
  destruct (subvolume_gen H W G true mt i0 i1 x0 x1 z0 z1 Hi Hi1 Hx Hx1 Hz Hz1) as (v & Ev & _ & _ & Rv).
  exists v. split; [exact Ev|]. rewrite Rv. apply box_reads_proportional; assumption.
Qed.

Lemma inline_io il : 0 <= il < s_nil H ->
  exists v, rd_read_inline H il = Return v /\ proportional_reads H il (il + 1) 0 (s_nxl H) 0 (s_ns H) (av_reads v).
Proof.
  intro Hil. destruct (read_inline_general H W G il Hil) as (v & Ev & _ & _ & Rv).
  pose proof (f_nxl H F). pose proof (f_ns H F).
  exists v. split; [exact Ev|]. rewrite Rv. apply box_reads_proportional_inrange; first [assumption | lia].
Qed.

Lemma crossline_io xl : 0 <= xl < s_nxl H ->
  exists v, rd_read_crossline H xl = Return v /\ proportional_reads H 0 (s_nil H) xl (xl + 1) 0 (s_ns H) (av_reads v).
Proof.
  intro Hxl. destruct (read_crossline_general H W G xl Hxl) as (v & Ev & _ & _ & Rv).
  pose proof (f_nil H F). pose proof (f_ns H F).
  exists v. split; [exact Ev|]. rewrite Rv. apply box_reads_proportional_inrange; first [assumption | lia].
Qed.

Lemma zslice_io z : s_bs2 H <> 4 -> 0 <= z < s_ns H ->
  exists v, rd_read_zslice H z = Return v /\ proportional_reads H 0 (s_nil H) 0 (s_nxl H) z (z + 1) (av_reads v).
Proof.
  intros N4 Hz. destruct (read_zslice_general H W G z N4 Hz) as (v & Ev & _ & _ & Rv).
  pose proof (f_nil H F). pose proof (f_nxl H F).
  exists v. split; [exact Ev|]. rewrite Rv. apply box_reads_proportional_inrange; first [assumption | lia].
Qed.

Lemma zslice_adv_io z : s_bs2 H = 4 -> 0 <= z < s_ns H ->
  exists v, rd_read_zslice H z = Return v /\ adv_proportional_reads H z (av_reads v).
Proof.
  intros E4 Hz. destruct (read_zslice_adv H W E4 z G Hz) as (v & Ev & _ & _ & Rv).
  destruct (f_PZ H F) as (PZ1 & _).
  exists v. split; [exact Ev|]. rewrite Rv. apply zslice_adv_reads_proportional; [assumption | assumption | lia].
Qed.

(* the whole volume: every block of the data section exactly once, in file order *)
Lemma volume_io :
  exists v, rd_read_volume H = Return v /\
    proportional_reads H 0 (s_nil H) 0 (s_nxl H) 0 (s_ns H) (av_reads v) /\
    av_reads v = map (fun k => (4096 * k, 4096)) (zrange 0 (nbi3 H * nbx3 H * nbz3 H)) /\
    4096 * (nbi3 H * nbx3 H * nbz3 H) = s_data_bytes3 H.
Proof.
  destruct (read_volume_general H W G) as (v & Ev & _ & _ & Rv).
  pose proof (f_nil H F). pose proof (f_nxl H F). pose proof (f_ns H F).
  exists v. split; [exact Ev|]. rewrite Rv. split; [apply box_reads_proportional_inrange; first [assumption | lia]|]. split.
  - rewrite box_reads_blocks, (box_blocks_volume H W). reflexivity.
  - symmetry. apply data_bytes_blocks. exact W.
Qed.

End IO_READS.

(* argument order for the property statements *)
Lemma read_zslice_nn4 H : wf3 H = true -> general_layout H -> s_bs2 H = 4 -> forall z, 0 <= z < s_ns H ->
  exists v, rd_read_zslice H z = Return v /\ av_shape v = [s_nil H; s_nxl H] /\
    (forall i x, 0 <= i < s_nil H -> 0 <= x < s_nxl H -> av_cell v [i; x] = spec_cell3 H i x z) /\
    av_reads v = zslice_adv_reads H z.
Proof. intros W G E4 z Hz. exact (read_zslice_adv H W E4 z G Hz). Qed.

Lemma zslice_nn4_io H : wf3 H = true -> general_layout H -> s_bs2 H = 4 -> forall z, 0 <= z < s_ns H ->
  exists v, rd_read_zslice H z = Return v /\ adv_proportional_reads H z (av_reads v).
Proof. intros W G E4 z Hz. exact (zslice_adv_io H W G z E4 Hz). Qed.
