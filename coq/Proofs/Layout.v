(* Facts that follow from well-formedness of the header: the reader's derived quantities (GENERATED from
   SgzReader.__init__) equal the specification's. *)
From Coq Require Import ZArith List Bool Lia.
Import ListNotations.
From SZ Require Import Lib.Py Gen.Utils Gen.Version Gen.Reader Spec.Container Proofs.PyLemmas.
Open Scope Z_scope.

Lemma exact_div a b : 0 < b -> a mod b = 0 -> a = b * (a / b).
Proof. intros. apply Z_div_exact_full_2; lia. Qed.

Lemma pad_is_pad_to o m : 0 < m -> pad o m = pad_to o m.
Proof.
  intro Hm. unfold pad, pad_to. pose proof (Z.div_mod o m ltac:(lia)) as D. pose proof (Z.mod_pos_bound o m Hm) as B.
  destruct (o mod m =? 0) eqn:E.
  - apply Z.eqb_eq in E. replace (o + m - 1) with ((m - 1) + (o / m) * m) by lia.
    rewrite Z.div_add by lia. rewrite (Z.div_small (m - 1) m) by lia. lia.
  - apply Z.eqb_neq in E. replace (o + m - 1) with ((o mod m - 1) + (o / m + 1) * m) by lia.
    rewrite Z.div_add by lia. rewrite (Z.div_small (o mod m - 1) m) by lia. lia.
Qed.

Lemma pad_to_spec o m : 0 < m -> o <= pad_to o m < o + m /\ pad_to o m mod m = 0 /\ pad_to o m / m = (o + m - 1) / m.
Proof.
  intro Hm. unfold pad_to. pose proof (Z.div_mod (o + m - 1) m ltac:(lia)) as D.
  pose proof (Z.mod_pos_bound (o + m - 1) m Hm) as B.
  repeat split; try lia.
  - rewrite Z.mul_comm. apply Z_mod_mult.
  - rewrite Z.mul_comm. apply Z_div_mult. lia.
Qed.

Lemma pad_to_pos o m : 0 < m -> 1 <= o -> m <= pad_to o m.
Proof.
  intros Hm Ho. unfold pad_to. assert (1 <= (o + m - 1) / m) by (apply Z.div_le_lower_bound; lia). nia.
Qed.

Lemma mod4_of_mod m p : 0 < m -> m mod 4 = 0 -> p mod m = 0 -> p mod 4 = 0.
Proof.
  intros Hm H4 Hp. pose proof (exact_div p m Hm Hp) as E1. pose proof (exact_div m 4 ltac:(lia) H4) as E2.
  set (q := p / m) in *. set (r := m / 4) in *.
  replace p with ((r * q) * 4) by lia. apply Z_mod_mult.
Qed.

Lemma div4_split p m : 0 < m -> m mod 4 = 0 -> p mod m = 0 -> p / 4 = (p / m) * (m / 4).
Proof.
  intros Hm H4 Hp. pose proof (exact_div p m Hm Hp) as E1. pose proof (exact_div m 4 ltac:(lia) H4) as E2.
  set (q := p / m) in *. set (r := m / 4) in *.
  replace p with ((q * r) * 4) by lia. apply Z_div_mult. lia.
Qed.

(* ---------------- 3D ---------------- *)
Record facts3 (H : hdr) : Prop := {
  f_nil : 1 <= s_nil H; f_nxl : 1 <= s_nxl H; f_ns : 1 <= s_ns H;
  f_bs0 : 4 <= s_bs0 H; f_bs0m : s_bs0 H mod 4 = 0;
  f_bs1 : 4 <= s_bs1 H; f_bs1m : s_bs1 H mod 4 = 0;
  f_bs2 : 4 <= s_bs2 H; f_bs2m : s_bs2 H mod 4 = 0;
  f_ub : 0 < s_ub3 H;
  f_block : (s_bs0 H / 4) * (s_bs1 H / 4) * (s_bs2 H / 4) * s_ub3 H = 4096;
  f_PI : s_nil H <= s_PI H /\ s_PI H mod s_bs0 H = 0 /\ s_PI H mod 4 = 0 /\ s_bs0 H <= s_PI H;
  f_PX : s_nxl H <= s_PX H /\ s_PX H mod s_bs1 H = 0 /\ s_PX H mod 4 = 0 /\ s_bs1 H <= s_PX H;
  f_PZ : s_ns H <= s_PZ H /\ s_PZ H mod s_bs2 H = 0 /\ s_PZ H mod 4 = 0 /\ s_bs2 H <= s_PZ H;
  (* the reader's derived quantities *)
  r_not2d : (rd_blockshape0_v1 H =? 1) = false;
  r_nil : rd_n_ilines H = s_nil H; r_nxl : rd_n_xlines H = s_nxl H; r_ns : rd_n_samples H = s_ns H;
  r_bs0 : rd_blockshape0 H = s_bs0 H; r_bs1 : rd_blockshape1 H = s_bs1 H; r_bs2 : rd_blockshape2 H = s_bs2 H;
  r_rn : rd_rate_n H = s_rn H; r_rd : rd_rate_d H = s_rd H;
  r_P0 : rd_shape_pad0 H = s_PI H; r_P1 : rd_shape_pad1 H = s_PX H; r_P2 : rd_shape_pad2 H = s_PZ H;
  r_ub : rd_unit_bytes H = s_ub3 H; r_bb : rd_block_bytes H = 4096;
  r_cb : rd_chunk_bytes H = 4096 * (s_PZ H / s_bs2 H);
  r_fl_bs2 : rd_blockshape2_isfloat H = false; r_fl_p2 : rd_shape_pad2_isfloat H = false;
  r_fl_cb : rd_chunk_bytes_isfloat H = false;
  r_ubof : unit_bytes_of (rd_rate_n H) (rd_rate_d H) 3 = s_ub3 H;
  r_init : rd_init H = Return tt
}.

Lemma wf3_unpack H : wf3 H = true ->
  1 <= s_nil H /\ 1 <= s_nxl H /\ 1 <= s_ns H /\ 4 <= s_bs0 H /\ s_bs0 H mod 4 = 0 /\ 4 <= s_bs1 H /\
  s_bs1 H mod 4 = 0 /\ 4 <= s_bs2 H /\ s_bs2 H mod 4 = 0 /\ s_rate_code H <> 0 /\ 0 < s_ub3 H /\
  8 * s_rd H * s_ub3 H = 64 * s_rn H /\ (s_bs0 H / 4) * (s_bs1 H / 4) * (s_bs2 H / 4) * s_ub3 H = 4096.
Proof.
  unfold wf3. rewrite !andb_true_iff, negb_true_iff, !Z.leb_le, !Z.eqb_eq, Z.ltb_lt, Z.eqb_neq. tauto.
Qed.

Lemma quot_exact a b q : 0 < b -> 0 <= q -> a = b * q -> Z.quot a b = q.
Proof. intros Hb Hq ->. rewrite Z.mul_comm. apply Z.quot_mul. lia. Qed.

Lemma wf3_facts H : wf3 H = true -> facts3 H.
Proof.
  intro W. destruct (wf3_unpack H W) as (Hil & Hxl & Hns & B0 & B0m & B1 & B1m & B2 & B2m & Rc & Ub & Uex & Blk).
  (* the legacy test is false because the blockshape fields are non-zero *)
  assert (Leg : ((((rd_blockshape0_v1 H) =? 0) || ((rd_blockshape1_v1 H) =? 0)) && ((rd_blockshape2_v1 H) =? 0)) = false).
  { unfold rd_blockshape0_v1, rd_blockshape1_v1, rd_blockshape2_v1. unfold s_bs0, s_bs1, s_bs2 in *.
    replace (h_u32_52 H =? 0) with false by lia. apply andb_false_r. }
  assert (E0 : rd_blockshape0 H = s_bs0 H).
  { unfold rd_blockshape0, rd_blockshape0_v2. rewrite Leg. reflexivity. }
  assert (E1 : rd_blockshape1 H = s_bs1 H).
  { unfold rd_blockshape1, rd_blockshape1_v2. rewrite Leg. reflexivity. }
  assert (E2 : rd_blockshape2 H = s_bs2 H).
  { unfold rd_blockshape2, rd_blockshape2_v2. rewrite Leg. reflexivity. }
  assert (F2 : rd_blockshape2_isfloat H = false).
  { unfold rd_blockshape2_isfloat, rd_blockshape2_v2_isfloat. rewrite Leg. reflexivity. }
  assert (N2d : (rd_blockshape0_v1 H =? 1) = false).
  { unfold rd_blockshape0_v1. unfold s_bs0 in *. lia. }
  assert (Rn : rd_rate_n H = s_rn H) by reflexivity.
  assert (Rd : rd_rate_d H = s_rd H) by reflexivity.
  assert (Rdpos : 0 < s_rd H). { unfold s_rd. destruct (s_rate_code H <? 0) eqn:Q; lia. }
  assert (Rnpos : 0 < s_rn H). { unfold s_rn. destruct (s_rate_code H <? 0) eqn:Q; lia. }
  pose proof (pad_to_spec (s_nil H) (s_bs0 H) ltac:(lia)) as (PI1 & PI2 & _).
  pose proof (pad_to_spec (s_nxl H) (s_bs1 H) ltac:(lia)) as (PX1 & PX2 & _).
  pose proof (pad_to_spec (s_ns H) (s_bs2 H) ltac:(lia)) as (PZ1 & PZ2 & _).
  pose proof (pad_to_pos (s_nil H) (s_bs0 H) ltac:(lia) Hil) as PI3.
  pose proof (pad_to_pos (s_nxl H) (s_bs1 H) ltac:(lia) Hxl) as PX3.
  pose proof (pad_to_pos (s_ns H) (s_bs2 H) ltac:(lia) Hns) as PZ3.
  fold (s_PI H) in PI1, PI2, PI3. fold (s_PX H) in PX1, PX2, PX3. fold (s_PZ H) in PZ1, PZ2, PZ3.
  assert (P0 : rd_shape_pad0 H = s_PI H).
  { unfold rd_shape_pad0, rd_shape_pad0_v1. rewrite N2d. fold (rd_blockshape0 H). rewrite E0.
    unfold rd_n_ilines_v1. fold (s_nil H). rewrite pad_is_pad_to by lia. reflexivity. }
  assert (P1 : rd_shape_pad1 H = s_PX H).
  { unfold rd_shape_pad1, rd_shape_pad1_v1. rewrite N2d. fold (rd_blockshape1 H). rewrite E1.
    unfold rd_n_xlines_v1. fold (s_nxl H). rewrite pad_is_pad_to by lia. reflexivity. }
  assert (P2 : rd_shape_pad2 H = s_PZ H).
  { unfold rd_shape_pad2, rd_shape_pad2_v1. fold (rd_blockshape2 H). rewrite E2.
    unfold rd_n_samples_v1. fold (s_ns H). rewrite pad_is_pad_to by lia. reflexivity. }
  assert (Q64 : Z.quot (64 * s_rn H) (s_rd H) = 8 * s_ub3 H).
  { apply quot_exact; lia. }
  assert (UB : rd_unit_bytes H = s_ub3 H).
  { unfold rd_unit_bytes, rd_unit_bytes_v1. rewrite N2d. fold (rd_rate_n H) (rd_rate_d H). rewrite Rn, Rd.
    replace (4 * 4 * 4 * s_rn H) with (64 * s_rn H) by ring. rewrite Q64.
    rewrite Z.mul_comm. apply Z_div_mult. lia. }
  assert (UBof : unit_bytes_of (rd_rate_n H) (rd_rate_d H) 3 = s_ub3 H).
  { unfold unit_bytes_of. rewrite Rn, Rd. change (4 ^ Z.of_nat 3) with 64. rewrite Q64.
    rewrite Z.mul_comm. apply Z_div_mult. lia. }
  assert (BB : rd_block_bytes H = 4096).
  { unfold rd_block_bytes, rd_block_bytes_v1. fold (rd_blockshape0 H) (rd_blockshape1 H) (rd_blockshape2 H).
    fold (rd_rate_n H) (rd_rate_d H). rewrite E0, E1, E2, Rn, Rd.
    rewrite (quot_exact _ _ (8 * 4096)); try lia; [reflexivity|].
    rewrite (exact_div (s_bs0 H) 4 ltac:(lia) B0m) at 1. rewrite (exact_div (s_bs1 H) 4 ltac:(lia) B1m) at 1.
    rewrite (exact_div (s_bs2 H) 4 ltac:(lia) B2m) at 1. nia. }
  assert (CB : rd_chunk_bytes H = 4096 * (s_PZ H / s_bs2 H)).
  { unfold rd_chunk_bytes, rd_chunk_bytes_v1. fold (rd_block_bytes H) (rd_shape_pad2 H) (rd_blockshape2 H).
    rewrite BB, P2, E2. reflexivity. }
  assert (FP2 : rd_shape_pad2_isfloat H = false).
  { unfold rd_shape_pad2_isfloat, rd_shape_pad2_v1_isfloat. fold (rd_blockshape2_isfloat H). exact F2. }
  assert (FCB : rd_chunk_bytes_isfloat H = false).
  { unfold rd_chunk_bytes_isfloat, rd_chunk_bytes_v1_isfloat. fold (rd_shape_pad2_isfloat H) (rd_blockshape2_isfloat H).
    rewrite FP2, F2. reflexivity. }
  assert (INIT : rd_init H = Return tt).
  { unfold rd_init. fold (rd_block_bytes H) (rd_unit_bytes H) (rd_chunk_bytes H). rewrite BB, UB, CB.
    assert (M1 : 4096 mod s_ub3 H = 0).
    { rewrite <- Blk. apply Z_mod_mult. }
    rewrite M1. cbn [Z.eqb negb].
    rewrite (Z.mul_comm 4096), Z_mod_mult. reflexivity. }
  constructor; try assumption; try reflexivity.
  - repeat split; try lia. apply (mod4_of_mod (s_bs0 H)); lia.
  - repeat split; try lia. apply (mod4_of_mod (s_bs1 H)); lia.
  - repeat split; try lia. apply (mod4_of_mod (s_bs2 H)); lia.
Qed.
