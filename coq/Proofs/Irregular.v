(* Proofs/Irregular.v -- C08: lemmas about Model/Irregular.v (hand model) and Gen/Irregular.v (generated). *)
From Coq Require Import ZArith List Bool Lia Sorting.Sorted FinFun.
Import ListNotations.
From SZ Require Import Lib.Py Gen.Utils Gen.Irregular Model.Irregular Proofs.PyLemmas.
Open Scope Z_scope.

(* ================================================================ generic list facts *)
Lemma fold_min_le x l y : In y (x :: l) -> fold_right Z.min x l <= y.
Proof.
  induction l as [|h r IH]; cbn [fold_right In]; intros Hin.
  - destruct Hin as [E|[]]; lia.
  - destruct Hin as [E|[E|Hin]].
    + specialize (IH (or_introl E)). lia.
    + lia.
    + specialize (IH (or_intror Hin)). lia.
Qed.
Lemma fold_min_in x l : In (fold_right Z.min x l) (x :: l).
Proof.
  induction l as [|h r IH]; cbn [fold_right]; [left; reflexivity|].
  destruct (Z.min_spec h (fold_right Z.min x r)) as [[_ E]|[_ E]]; rewrite E.
  - right; left; reflexivity.
  - destruct IH as [E'|Hin]; [left; exact E'|right; right; exact Hin].
Qed.
Lemma fold_max_ge x l y : In y (x :: l) -> y <= fold_right Z.max x l.
Proof.
  induction l as [|h r IH]; cbn [fold_right In]; intros Hin.
  - destruct Hin as [E|[]]; lia.
  - destruct Hin as [E|[E|Hin]].
    + specialize (IH (or_introl E)). lia.
    + lia.
    + specialize (IH (or_intror Hin)). lia.
Qed.
Lemma fold_max_in x l : In (fold_right Z.max x l) (x :: l).
Proof.
  induction l as [|h r IH]; cbn [fold_right]; [left; reflexivity|].
  destruct (Z.max_spec h (fold_right Z.max x r)) as [[_ E]|[_ E]]; rewrite E.
  - destruct IH as [E'|Hin]; [left; exact E'|right; right; exact Hin].
  - right; left; reflexivity.
Qed.

(* two duplicate-free lists with the same elements have the same length *)
Lemma NoDup_same_length (l1 l2 : list Z) :
  NoDup l1 -> NoDup l2 -> (forall x, In x l1 <-> In x l2) -> length l1 = length l2.
Proof.
  intros N1 N2 E. apply Nat.le_antisymm.
  - apply NoDup_incl_length; [exact N1|]. intros x Hx. apply E, Hx.
  - apply NoDup_incl_length; [exact N2|]. intros x Hx. apply E, Hx.
Qed.

(* two strictly increasing lists with the same elements are equal *)
Lemma ssorted_head_min (h : Z) r x : StronglySorted Z.lt (h :: r) -> In x (h :: r) -> h <= x.
Proof.
  intros S Hin. inversion S as [|? ? S' F]; subst. destruct Hin as [E|Hin]; [lia|].
  rewrite Forall_forall in F. specialize (F _ Hin). lia.
Qed.
Lemma ssorted_ext_eq (l1 l2 : list Z) :
  StronglySorted Z.lt l1 -> StronglySorted Z.lt l2 -> (forall x, In x l1 <-> In x l2) -> l1 = l2.
Proof.
  revert l2. induction l1 as [|h1 r1 IH]; intros l2 S1 S2 E.
  - destruct l2 as [|h2 r2]; [reflexivity|]. exfalso. apply (proj2 (E h2)). left; reflexivity.
  - destruct l2 as [|h2 r2]; [exfalso; apply (proj1 (E h1)); left; reflexivity|].
    assert (Hh : h1 = h2).
    { pose proof (ssorted_head_min _ _ _ S2 (proj1 (E h1) (or_introl eq_refl))).
      pose proof (ssorted_head_min _ _ _ S1 (proj2 (E h2) (or_introl eq_refl))). lia. }
    subst h2. f_equal.
    inversion S1 as [|? ? S1' F1]; subst. inversion S2 as [|? ? S2' F2]; subst.
    rewrite Forall_forall in F1, F2.
    apply IH; [exact S1'|exact S2'|].
    intros x; split; intros Hx.
    + destruct (proj1 (E x) (or_intror Hx)) as [E'|Hin]; [|exact Hin]. specialize (F1 _ Hx). lia.
    + destruct (proj2 (E x) (or_intror Hx)) as [E'|Hin]; [|exact Hin]. specialize (F2 _ Hx). lia.
Qed.
Lemma ssorted_NoDup (l : list Z) : StronglySorted Z.lt l -> NoDup l.
Proof.
  induction 1 as [|h r S IH F]; constructor; [|exact IH].
  intros Hin. rewrite Forall_forall in F. specialize (F _ Hin). lia.
Qed.

Lemma nth_zrange lo hi k : 0 <= k < hi - lo -> nth (Z.to_nat k) (zrange lo hi) 0 = lo + k.
Proof.
  unfold zrange. intros Hk.
  assert (G : forall n lo k, (k < n)%nat -> nth k (zrange_nat lo n) 0 = lo + Z.of_nat k).
  { induction n as [|n IH]; intros lo' k' Hlt; [lia|]. destruct k' as [|k']; cbn [zrange_nat nth]; [lia|].
    rewrite IH by lia. lia. }
  rewrite G by lia. lia.
Qed.
Lemma nth_map_in {A B} (f : A -> B) l i d d' : (i < length l)%nat -> nth i (map f l) d = f (nth i l d').
Proof. intros Hi. rewrite (nth_indep _ d (f d')) by (rewrite map_length; exact Hi). apply map_nth. Qed.
Lemma length_zrange lo hi : length (zrange lo hi) = Z.to_nat (hi - lo).
Proof. unfold zrange. apply zrange_nat_length. Qed.

(* ================================================================ true_positions / select / np_index *)
Lemma true_positions_in m : forall b c,
  In c (true_positions m b) <-> b <= c < b + Z.of_nat (length m) /\ nth (Z.to_nat (c - b)) m false = true.
Proof.
  induction m as [|x r IH]; intros b c; cbn [true_positions length].
  - split; [intros []|intros [Hr _]; lia].
  - destruct x; cbn [In]; rewrite ?IH; split.
    + intros [E|[Hr Hn]].
      * subst c. split; [lia|]. replace (b - b) with 0 by lia. reflexivity.
      * split; [lia|]. replace (Z.to_nat (c - b)) with (S (Z.to_nat (c - (b + 1)))) by lia. exact Hn.
    + intros [Hr Hn]. destruct (Z.eq_dec b c) as [E|NE]; [left; exact E|right].
      split; [lia|]. replace (Z.to_nat (c - b)) with (S (Z.to_nat (c - (b + 1)))) in Hn by lia. exact Hn.
    + intros [Hr Hn]. split; [lia|]. replace (Z.to_nat (c - b)) with (S (Z.to_nat (c - (b + 1)))) by lia. exact Hn.
    + intros [Hr Hn]. destruct (Z.eq_dec b c) as [E|NE].
      * subst c. replace (b - b) with 0 in Hn by lia. discriminate Hn.
      * split; [lia|]. replace (Z.to_nat (c - b)) with (S (Z.to_nat (c - (b + 1)))) in Hn by lia. exact Hn.
Qed.
Lemma true_positions_sorted m : forall b, StronglySorted Z.lt (true_positions m b).
Proof.
  induction m as [|x r IH]; intros b; cbn [true_positions]; [constructor|].
  destruct x; [|apply IH]. constructor; [apply IH|].
  rewrite Forall_forall. intros c Hc. apply true_positions_in in Hc. lia.
Qed.
(* values[mask] = [values[c] for c in positions of True] *)
Lemma select_true_positions m : forall v b, length v = length m ->
  select m v = map (fun c => nth (Z.to_nat (c - b)) v 0) (true_positions m b).
Proof.
  induction m as [|x r IH]; intros v b L; destruct v as [|y vr]; cbn [length] in L; try discriminate L;
    cbn [select true_positions map]; [reflexivity|].
  injection L as L.
  assert (T : map (fun c => nth (Z.to_nat (c - b)) (y :: vr) 0) (true_positions r (b + 1))
              = map (fun c => nth (Z.to_nat (c - (b + 1))) vr 0) (true_positions r (b + 1))).
  { apply map_ext_in. intros c Hc. apply true_positions_in in Hc.
    replace (Z.to_nat (c - b)) with (S (Z.to_nat (c - (b + 1)))) by lia. reflexivity. }
  destruct x; cbn [map].
  - rewrite T. replace (b - b) with 0 by lia. cbn [Z.to_nat nth]. f_equal. apply IH, L.
  - rewrite T. apply IH, L.
Qed.

Lemma np_index_in_range l i : 0 <= i < Z.of_nat (length l) -> np_index l i = Return (nth (Z.to_nat i) l 0).
Proof.
  intros Hi. unfold np_index.
  replace ((- Z.of_nat (length l) <=? i) && (i <? Z.of_nat (length l))) with true by lia.
  replace (i <? 0) with false by lia. reflexivity.
Qed.

(* ================================================================ get_range on an axis whose every line carries a trace *)
Lemma distinct_count_full ids a st n :
  1 <= st -> 0 <= n ->
  (forall x, In x ids -> exists k, 0 <= k < n /\ x = a + k * st) ->
  (forall k, 0 <= k < n -> In (a + k * st) ids) ->
  distinct_count ids = n.
Proof.
  intros Hst Hn Hall Hevery. unfold distinct_count.
  rewrite (NoDup_same_length (nodup Z.eq_dec ids) (map (fun k => a + k * st) (zrange 0 n))).
  - rewrite map_length, length_zrange. lia.
  - apply NoDup_nodup.
  - apply Injective_map_NoDup; [|apply zrange_NoDup].
    intros x y E. apply Z.mul_reg_r with st; lia.
  - intros x. rewrite nodup_In, in_map_iff. split.
    + intros Hx. destruct (Hall _ Hx) as [k [Hk E]]. exists k. split; [lia|]. apply in_zrange. lia.
    + intros [k [E Hk]]. apply in_zrange in Hk. subst x. apply Hevery. lia.
Qed.

Lemma get_range_full ids a st n :
  1 <= st -> 2 <= n ->
  (forall x, In x ids -> exists k, 0 <= k < n /\ x = a + k * st) ->
  (forall k, 0 <= k < n -> In (a + k * st) ids) ->
  get_range ids = Return (a, a + (n - 1) * st, st).
Proof.
  intros Hst Hn Hall Hevery.
  pose proof (distinct_count_full ids a st n Hst ltac:(lia) Hall Hevery) as Hcnt.
  destruct ids as [|x r]; [exfalso; apply (Hevery 0); lia|].
  unfold get_range. rewrite Hcnt.
  assert (Hmin : fold_right Z.min x r = a).
  { destruct (Hall _ (fold_min_in x r)) as [k [Hk E]].
    pose proof (fold_min_le x r (a + 0 * st) (Hevery 0 ltac:(lia))) as Hle.
    assert (0 <= k * st) by (apply Z.mul_nonneg_nonneg; lia). lia. }
  assert (Hmax : fold_right Z.max x r = a + (n - 1) * st).
  { destruct (Hall _ (fold_max_in x r)) as [k [Hk E]].
    pose proof (fold_max_ge x r (a + (n - 1) * st) (Hevery (n - 1) ltac:(lia))) as Hge.
    assert (k * st <= (n - 1) * st) by (apply Z.mul_le_mono_nonneg_r; lia). lia. }
  rewrite Hmin, Hmax. unfold ig_get_range.
  replace (n - 1 =? 0) with false by lia.
  replace (a + (n - 1) * st - a) with (st * (n - 1)) by lia.
  rewrite Z.div_mul by lia. reflexivity.
Qed.

(* the increment get_range computes is never below 1 (distinct integers are at least 1 apart), so range() never sees step 0;
   when some line of the true grid carries no trace the quotient is NOT the grid increment in general: see
   get_range_needs_every_line below *)
Example get_range_needs_every_line : get_range [0; 4; 6] = Return (0, 6, 3).
Proof. reflexivity. Qed.

(* ================================================================ traces_ref *)
Lemma key_eqb_eq a b : key_eqb a b = true <-> a = b.
Proof.
  unfold key_eqb. destruct a as [a1 a2], b as [b1 b2]; cbn [fst snd]. rewrite andb_true_iff, !Z.eqb_eq.
  split; [intros [-> ->]; reflexivity|intros E; injection E; auto].
Qed.
Lemma tr_lookup_some s : forall i k j, tr_lookup_from s i k = Some j ->
  i <= j < i + Z.of_nat (length s) /\ nth (Z.to_nat (j - i)) s (0, 0) = k.
Proof.
  induction s as [|t r IH]; intros i k j; cbn [tr_lookup_from length]; [discriminate|].
  destruct (tr_lookup_from r (i + 1) k) as [j'|] eqn:E.
  - intros [= <-]. apply IH in E. destruct E as [Hr Hn]. split; [lia|].
    replace (Z.to_nat (j' - i)) with (S (Z.to_nat (j' - (i + 1)))) by lia. exact Hn.
  - destruct (key_eqb t k) eqn:K; [|discriminate]. intros [= <-]. apply key_eqb_eq in K.
    split; [lia|]. replace (i - i) with 0 by lia. exact K.
Qed.
Lemma tr_lookup_none s : forall i k, tr_lookup_from s i k = None -> ~ In k s.
Proof.
  induction s as [|t r IH]; intros i k; cbn [tr_lookup_from In]; [tauto|].
  destruct (tr_lookup_from r (i + 1) k) eqn:E; [discriminate|].
  destruct (key_eqb t k) eqn:K; [discriminate|]. intros _ [Ht|Hin].
  - apply key_eqb_eq in Ht. congruence.
  - exact (IH _ _ E Hin).
Qed.
(* without duplicate keys the dictionary maps the key of trace t to t *)
Lemma traces_ref_nth s t : NoDup s -> 0 <= t < Z.of_nat (length s) -> traces_ref s (nth (Z.to_nat t) s (0, 0)) = Some t.
Proof.
  intros ND Ht. unfold traces_ref. destruct (tr_lookup_from s 0 (nth (Z.to_nat t) s (0, 0))) as [j|] eqn:E.
  - apply tr_lookup_some in E. destruct E as [Hr Hn]. replace (j - 0) with j in Hn by lia.
    f_equal. rewrite NoDup_nth in ND. specialize (ND (Z.to_nat j) (Z.to_nat t) ltac:(lia) ltac:(lia) Hn). lia.
  - exfalso. apply (tr_lookup_none _ _ _ E). apply nth_In. lia.
Qed.
Lemma traces_ref_some s k t : traces_ref s k = Some t -> 0 <= t < Z.of_nat (length s) /\ nth (Z.to_nat t) s (0, 0) = k.
Proof. unfold traces_ref. intros E. apply tr_lookup_some in E. replace (t - 0) with t in E by lia. split; [lia|tauto]. Qed.
Lemma traces_ref_none s k : traces_ref s k = None -> ~ In k s.
Proof. apply tr_lookup_none. Qed.

(* ================================================================ facts about the true grid *)
Lemma on_grid_spec G t : on_grid G t = true ->
  fst t = ga_il G + il_idx G t * gs_il G /\ 0 <= il_idx G t < gn_il G /\
  snd t = ga_xl G + xl_idx G t * gs_xl G /\ 0 <= xl_idx G t < gn_xl G.
Proof. unfold on_grid. rewrite !andb_true_iff, !Z.eqb_eq, !Z.leb_le, !Z.ltb_lt. tauto. Qed.

Lemma idx_of_line a st k : 1 <= st -> (a + k * st - a) / st = k.
Proof. intros Hst. replace (a + k * st - a) with (k * st) by lia. apply Z.div_mul. lia. Qed.

Lemma mul_lt_cancel k1 k2 st : 1 <= st -> k1 * st < k2 * st -> k1 < k2.
Proof.
  intros Hst Hlt. destruct (Z_lt_le_dec k1 k2) as [L|L]; [exact L|].
  assert (k2 * st <= k1 * st) by (apply Z.mul_le_mono_nonneg_r; lia). lia.
Qed.

Lemma cell_lt n k1 j1 k2 j2 : 0 <= j1 < n -> 0 <= j2 < n -> (k1 < k2 \/ (k1 = k2 /\ j1 < j2)) -> k1 * n + j1 < k2 * n + j2.
Proof.
  intros H1 H2 [L|[E L]]; [|subst; lia].
  assert (Hm : (k1 + 1) * n <= k2 * n) by (apply Z.mul_le_mono_nonneg_r; lia).
  rewrite Z.mul_add_distr_r in Hm. lia.
Qed.
Lemma cell_div n k j : 0 <= j < n -> (k * n + j) / n = k.
Proof. intros Hj. rewrite Z.div_add_l by lia. rewrite Z.div_small by lia. lia. Qed.
Lemma cell_mod n k j : 0 <= j < n -> (k * n + j) mod n = j.
Proof. intros Hj. rewrite Z.add_comm, Z.mod_add by lia. apply Z.mod_small; lia. Qed.
Lemma cell_inj n k1 j1 k2 j2 : 0 <= j1 < n -> 0 <= j2 < n -> k1 * n + j1 = k2 * n + j2 -> k1 = k2 /\ j1 = j2.
Proof.
  intros H1 H2 E. pose proof (cell_div n k1 j1 H1) as D1. pose proof (cell_div n k2 j2 H2) as D2.
  rewrite E in D1. split; [lia|]. assert (k1 = k2) by lia. subst. lia.
Qed.

Section GRID.
Variable G : grid.
Variable s : survey.
Hypothesis OK : survey_ok G s = true.

Let a_il := ga_il G. Let s_il := gs_il G. Let nI := gn_il G.
Let a_xl := ga_xl G. Let s_xl := gs_xl G. Let nX := gn_xl G.

Lemma ok_dims : 2 <= nI /\ 2 <= nX /\ 1 <= s_il /\ 1 <= s_xl.
Proof.
  unfold survey_ok in OK. rewrite !andb_true_iff in OK. subst nI nX s_il s_xl. lia.
Qed.
Lemma ok_on_grid t : In t s -> on_grid G t = true.
Proof.
  unfold survey_ok in OK. rewrite !andb_true_iff in OK. destruct OK as [[[[_ F] _] _] _].
  rewrite forallb_forall in F. apply F.
Qed.
Lemma ok_sorted : sorted_lex s = true.
Proof. unfold survey_ok in OK. rewrite !andb_true_iff in OK. tauto. Qed.
Lemma ok_every_il k : 0 <= k < nI -> exists t, In t s /\ fst t = a_il + k * s_il.
Proof.
  intros Hk. unfold survey_ok in OK. rewrite !andb_true_iff in OK. destruct OK as [[_ F] _].
  rewrite forallb_forall in F. specialize (F k ltac:(apply in_zrange; subst nI; lia)).
  apply existsb_exists in F. destruct F as [t [Hin E]]. exists t. split; [exact Hin|]. apply Z.eqb_eq in E. exact E.
Qed.
Lemma ok_every_xl k : 0 <= k < nX -> exists t, In t s /\ snd t = a_xl + k * s_xl.
Proof.
  intros Hk. unfold survey_ok in OK. rewrite !andb_true_iff in OK. destruct OK as [_ F].
  rewrite forallb_forall in F. specialize (F k ltac:(apply in_zrange; subst nX; lia)).
  apply existsb_exists in F. destruct F as [t [Hin E]]. exists t. split; [exact Hin|]. apply Z.eqb_eq in E. exact E.
Qed.

(* ---- the inferred geometry is the true grid ---- *)
Lemma inferred_is_grid : infer_geometry s = Return (geom_of_grid G).
Proof.
  destruct ok_dims as [HnI [HnX [HsI HsX]]].
  assert (R0 : get_range (map fst s) = Return (a_il, a_il + (nI - 1) * s_il, s_il)).
  { apply get_range_full; [exact HsI|exact HnI| |].
    - intros x Hx. apply in_map_iff in Hx. destruct Hx as [t [E Hin]]. subst x.
      destruct (on_grid_spec G t (ok_on_grid t Hin)) as [E1 [R1 _]]. exists (il_idx G t). split; [exact R1|exact E1].
    - intros k Hk. destruct (ok_every_il k Hk) as [t [Hin E]]. rewrite <- E. apply in_map, Hin. }
  assert (R1 : get_range (map snd s) = Return (a_xl, a_xl + (nX - 1) * s_xl, s_xl)).
  { apply get_range_full; [exact HsX|exact HnX| |].
    - intros x Hx. apply in_map_iff in Hx. destruct Hx as [t [E Hin]]. subst x.
      destruct (on_grid_spec G t (ok_on_grid t Hin)) as [_ [_ [E1 R1]]]. exists (xl_idx G t). split; [exact R1|exact E1].
    - intros k Hk. destruct (ok_every_xl k Hk) as [t [Hin E]]. rewrite <- E. apply in_map, Hin. }
  unfold infer_geometry. rewrite R0, R1. cbn [bind].
  unfold ig_ilines_range, ig_xlines_range, ig_min_il, ig_max_il, ig_il_step, ig_min_xl, ig_max_xl, ig_xl_step. cbn [snd].
  replace (s_il =? 0) with false by lia. replace (s_xl =? 0) with false by lia. cbn [orb].
  reflexivity.
Qed.

Lemma n_il_grid : n_il (geom_of_grid G) = nI.
Proof.
  destruct ok_dims as [HnI [HnX [HsI HsX]]]. unfold n_il, geom_of_grid, range_len. cbn [g_ilines].
  fold a_il s_il nI. replace (0 <? s_il) with true by lia.
  assert (0 <= (nI - 1) * s_il) by (apply Z.mul_nonneg_nonneg; lia).
  replace (a_il <? a_il + (nI - 1) * s_il + 1) with true by lia.
  replace (a_il + (nI - 1) * s_il + 1 - a_il - 1) with ((nI - 1) * s_il) by lia.
  rewrite Z.div_mul by lia. lia.
Qed.
Lemma n_xl_grid : n_xl (geom_of_grid G) = nX.
Proof.
  destruct ok_dims as [HnI [HnX [HsI HsX]]]. unfold n_xl, geom_of_grid, range_len. cbn [g_xlines].
  fold a_xl s_xl nX. replace (0 <? s_xl) with true by lia.
  assert (0 <= (nX - 1) * s_xl) by (apply Z.mul_nonneg_nonneg; lia).
  replace (a_xl <? a_xl + (nX - 1) * s_xl + 1) with true by lia.
  replace (a_xl + (nX - 1) * s_xl + 1 - a_xl - 1) with ((nX - 1) * s_xl) by lia.
  rewrite Z.div_mul by lia. lia.
Qed.

(* ---- file order = row-major grid order ---- *)
Lemma lex_cell_lt t1 t2 : on_grid G t1 = true -> on_grid G t2 = true -> lex_ltb t1 t2 = true -> cell_of G t1 < cell_of G t2.
Proof.
  intros O1 O2 L. destruct ok_dims as [HnI [HnX [HsI HsX]]].
  destruct (on_grid_spec _ _ O1) as [E1 [R1 [F1 S1]]]. destruct (on_grid_spec _ _ O2) as [E2 [R2 [F2 S2]]].
  unfold cell_of. apply cell_lt; [exact S1|exact S2|].
  unfold lex_ltb in L. rewrite orb_true_iff, andb_true_iff, Z.eqb_eq, !Z.ltb_lt in L.
  destruct L as [L|[E L]].
  - left. apply mul_lt_cancel with (gs_il G); [exact HsI|]. lia.
  - right. split.
    + apply Z.mul_reg_r with (gs_il G); [subst s_il; lia|]. lia.
    + apply mul_lt_cancel with (gs_xl G); [exact HsX|]. lia.
Qed.

Lemma cells_Sorted : forall l, forallb (on_grid G) l = true -> sorted_lex l = true -> Sorted Z.lt (map (cell_of G) l).
Proof.
  induction l as [|t1 r IH]; intros F S; cbn [map]; [constructor|].
  cbn [forallb] in F. apply andb_true_iff in F. destruct F as [O1 F].
  destruct r as [|t2 r']; [constructor; constructor|].
  cbn [sorted_lex] in S. apply andb_true_iff in S. destruct S as [L S].
  constructor; [apply IH; [exact F|exact S]|].
  cbn [map]. constructor. cbn [forallb] in F. apply andb_true_iff in F. apply lex_cell_lt; tauto.
Qed.
Lemma ok_forall_on_grid : forallb (on_grid G) s = true.
Proof. apply forallb_forall. exact ok_on_grid. Qed.
Lemma cells_sorted : StronglySorted Z.lt (map (cell_of G) s).
Proof.
  apply Sorted_StronglySorted; [intros x y z; apply Z.lt_trans|].
  apply cells_Sorted; [exact ok_forall_on_grid|exact ok_sorted].
Qed.
Lemma survey_NoDup : NoDup s.
Proof. apply (NoDup_map_inv (cell_of G)). apply ssorted_NoDup, cells_sorted. Qed.

Definition tr (t : Z) : trace := nth (Z.to_nat t) s (0, 0).
Definition len : Z := Z.of_nat (length s).

Lemma tr_in t : 0 <= t < len -> In (tr t) s.
Proof. intros Ht. apply nth_In. unfold len in Ht. lia. Qed.
Lemma cell_tr_inj t u : 0 <= t < len -> 0 <= u < len -> cell_of G (tr t) = cell_of G (tr u) -> t = u.
Proof.
  intros Ht Hu E. pose proof (ssorted_NoDup _ cells_sorted) as ND. rewrite NoDup_nth in ND.
  unfold len in *. specialize (ND (Z.to_nat t) (Z.to_nat u)). rewrite map_length in ND.
  specialize (ND ltac:(lia) ltac:(lia)).
  assert (Hn : forall d, nth d (map (cell_of G) s) 0 = cell_of G (nth d s (0, 0)) \/ (length s <= d)%nat).
  { intros d. destruct (Nat.lt_ge_cases d (length s)) as [L|L]; [left|right; exact L].
    rewrite (nth_indep _ 0 (cell_of G (0, 0))) by (rewrite map_length; exact L). apply map_nth. }
  destruct (Hn (Z.to_nat t)) as [E1|]; [|lia]. destruct (Hn (Z.to_nat u)) as [E2|]; [|lia].
  rewrite E1, E2 in ND. specialize (ND E). lia.
Qed.

(* the key of grid position (k, j) *)
Definition gkey (k j : Z) : trace := (a_il + k * s_il, a_xl + j * s_xl).

Lemma gkey_of_trace t : In t s -> t = gkey (il_idx G t) (xl_idx G t).
Proof.
  intros Hin. destruct (on_grid_spec _ _ (ok_on_grid t Hin)) as [E1 [_ [E2 _]]].
  destruct t as [x y]. unfold gkey. cbn [fst snd] in *. f_equal; assumption.
Qed.
Lemma idx_of_gkey k j : il_idx G (gkey k j) = k /\ xl_idx G (gkey k j) = j.
Proof.
  destruct ok_dims as [_ [_ [HsI HsX]]]. unfold il_idx, xl_idx, gkey. cbn [fst snd].
  split; apply idx_of_line; assumption.
Qed.

(* dictionary lookups on the grid: Some t exactly when source trace t carries the line numbers of position (k, j) *)
Lemma lookup_hit k j t : traces_ref s (gkey k j) = Some t ->
  0 <= t < len /\ tr t = gkey k j /\ 0 <= k < nI /\ 0 <= j < nX /\ cell_of G (tr t) = k * nX + j.
Proof.
  intros E. apply traces_ref_some in E. destruct E as [Ht Hn]. fold len in Ht. fold (tr t) in Hn.
  pose proof (ok_on_grid _ (tr_in t Ht)) as O. destruct (on_grid_spec _ _ O) as [_ [R1 [_ R2]]].
  destruct (idx_of_gkey k j) as [I1 I2].
  split; [exact Ht|]. split; [exact Hn|]. unfold cell_of. rewrite Hn in *. rewrite I1, I2 in *. fold nI nX in R1, R2. lia.
Qed.
Lemma lookup_of_trace t : 0 <= t < len -> traces_ref s (tr t) = Some t.
Proof. intros Ht. apply traces_ref_nth; [exact survey_NoDup|exact Ht]. Qed.
Lemma lookup_miss k j : traces_ref s (gkey k j) = None -> forall t, 0 <= t < len -> tr t <> gkey k j.
Proof. intros E t Ht Eq. apply (traces_ref_none _ _ E). rewrite <- Eq. apply tr_in, Ht. Qed.

(* the generated lookup key, on the true geometry *)
Lemma lookup_key_grid bs0 ps i xl_id : lookup_key (geom_of_grid G) bs0 ps i xl_id = gkey (ps * bs0 + i) xl_id.
Proof.
  unfold lookup_key, ig_index_il, ig_index_xl, gkey, geom_of_grid, range_nth. cbn [g_xlines g_il_step g_min_il].
  fold a_il s_il a_xl s_xl. f_equal; lia.
Qed.
End GRID.

(* ================================================================ the writes of unstructured_io_thread_func *)
Lemma plane_writes_in s g bs0 ps w :
  In w (plane_writes s g bs0 ps) <->
  exists i xl_id t, 0 <= i < bs0 /\ 0 <= xl_id < n_xl g /\ traces_ref s (lookup_key g bs0 ps i xl_id) = Some t /\ w = (i, xl_id, t).
Proof.
  unfold plane_writes, ig_buf_i, ig_buf_x. rewrite in_flat_map. split.
  - intros [i [Hi Hw]]. apply in_flat_map in Hw. destruct Hw as [x [Hx Hw]].
    apply in_zrange in Hi, Hx. destruct (traces_ref s (lookup_key g bs0 ps i x)) as [t|] eqn:E; [|destruct Hw].
    destruct Hw as [Hw|[]]. exists i, x, t. repeat split; try lia; [exact E|symmetry; exact Hw].
  - intros [i [x [t [Hi [Hx [E Hw]]]]]]. exists i. split; [apply in_zrange; lia|].
    apply in_flat_map. exists x. split; [apply in_zrange; lia|]. rewrite E. left. symmetry; exact Hw.
Qed.
Lemma footer_writes_in s g bs0 w :
  In w (footer_writes s g bs0) <->
  exists ps i xl_id t, 0 <= ps < n_plane_sets g bs0 /\ 0 <= i < bs0 /\ 0 <= xl_id < n_xl g /\
    traces_ref s (lookup_key g bs0 ps i xl_id) = Some t /\ w = (xl_id + (ps * bs0 + i) * n_xl g, t).
Proof.
  unfold footer_writes, ig_t_store. rewrite in_flat_map. split.
  - intros [ps [Hps Hw]]. apply in_flat_map in Hw. destruct Hw as [i [Hi Hw]].
    apply in_flat_map in Hw. destruct Hw as [x [Hx Hw]]. apply in_zrange in Hps, Hi, Hx.
    destruct (traces_ref s (lookup_key g bs0 ps i x)) as [t|] eqn:E; [|destruct Hw].
    destruct Hw as [Hw|[]]. exists ps, i, x, t. repeat split; try lia; [exact E|symmetry; exact Hw].
  - intros [ps [i [x [t [Hps [Hi [Hx [E Hw]]]]]]]]. exists ps. split; [apply in_zrange; lia|].
    apply in_flat_map. exists i. split; [apply in_zrange; lia|].
    apply in_flat_map. exists x. split; [apply in_zrange; lia|]. rewrite E. left. symmetry; exact Hw.
Qed.

Lemma pad_sets n b k : 1 <= b -> 0 <= k < n -> k / b < pad n b / b.
Proof.
  intros Hb Hk. unfold pad. destruct (n mod b =? 0) eqn:E.
  - apply Z.eqb_eq in E. apply Z.div_exact in E; [|lia]. apply Z.div_lt_upper_bound; [lia|].
    rewrite <- E. lia.
  - rewrite (Z.mul_comm b), Z.div_mul by lia.
    assert (k / b <= n / b) by (apply Z.div_le_mono; lia). lia.
Qed.
Lemma cell_bound nI nX k j : 0 <= k < nI -> 0 <= j < nX -> 0 <= k * nX + j < nI * nX.
Proof.
  intros Hk Hj. assert (0 <= k * nX) by (apply Z.mul_nonneg_nonneg; lia).
  assert (Hm : (k + 1) * nX <= nI * nX) by (apply Z.mul_le_mono_nonneg_r; lia).
  rewrite Z.mul_add_distr_r in Hm. lia.
Qed.
Lemma nth_map_zrange (f : Z -> Z) L c d : 0 <= c < L -> nth (Z.to_nat c) (map f (zrange 0 L)) d = f c.
Proof.
  intros Hc. rewrite (nth_indep _ d (f 0)) by (rewrite map_length, length_zrange; lia).
  rewrite map_nth. rewrite nth_zrange by lia. f_equal; lia.
Qed.

Section CONVERT.
Variable G : grid.
Variable s : survey.
Hypothesis OK : survey_ok G s = true.
Variable bs0 : Z.
Hypothesis BS : 1 <= bs0.

Let g := geom_of_grid G.
Let nI := gn_il G.
Let nX := gn_xl G.
Notation tr := (tr s).
Notation len := (len s).
Notation gkey := (gkey G).

(* ---- placement: what each cell of a plane-set buffer holds when it goes to the compressor ---- *)
Lemma placement_hit ns ps bi bx bz t :
  0 <= bi < bs0 -> 0 <= bx < nX -> 0 <= bz < ns -> 0 <= t < len -> tr t = gkey (ps * bs0 + bi) bx ->
  buffer_cell s g bs0 ns ps bi bx bz = CSample t bz.
Proof.
  intros Hbi Hbx Hbz Ht Ek. unfold buffer_cell, ig_buf_zlo, ig_buf_zhi.
  replace ((0 <=? bz) && (bz <? ns)) with true by lia.
  destruct (find _ (rev (plane_writes s g bs0 ps))) as [w|] eqn:F.
  - apply find_some in F. destruct F as [Hin P]. apply in_rev, plane_writes_in in Hin.
    destruct Hin as [i [x [u [Hi [Hx [E Hw]]]]]]. subst w. cbn [fst snd] in *.
    apply andb_true_iff in P. rewrite !Z.eqb_eq in P. destruct P as [-> ->].
    unfold g in E. rewrite (lookup_key_grid G) in E. rewrite <- Ek, (lookup_of_trace G s OK t Ht) in E.
    injection E as <-. f_equal. lia.
  - exfalso. pose proof (find_none _ _ F (bi, bx, t)) as N. cbn [fst snd] in N. rewrite !Z.eqb_refl in N.
    discriminate N. apply -> in_rev. apply plane_writes_in. exists bi, bx, t.
    repeat split; try lia; [unfold g; rewrite (n_xl_grid G s OK); lia|].
    unfold g. rewrite (lookup_key_grid G), <- Ek. apply (lookup_of_trace G s OK t Ht).
Qed.
(* any cell for which no source trace qualifies -- a hole of the grid, the crossline or sample padding, a plane
   beyond the last inline -- keeps the zero of np.zeros *)
Lemma placement_zero ns ps bi bx bz :
  (forall t, 0 <= t < len -> tr t = gkey (ps * bs0 + bi) bx -> ~ (0 <= bi < bs0 /\ 0 <= bx < nX /\ 0 <= bz < ns)) ->
  buffer_cell s g bs0 ns ps bi bx bz = CZero.
Proof.
  intros Hno. unfold buffer_cell, ig_buf_zlo, ig_buf_zhi.
  destruct ((0 <=? bz) && (bz <? ns)) eqn:Z; [|reflexivity].
  destruct (find _ (rev (plane_writes s g bs0 ps))) as [w|] eqn:F; [|reflexivity].
  exfalso. apply find_some in F. destruct F as [Hin P]. apply in_rev, plane_writes_in in Hin.
  destruct Hin as [i [x [u [Hi [Hx [E Hw]]]]]]. subst w. cbn [fst snd] in *.
  apply andb_true_iff in P. rewrite !Z.eqb_eq in P. destruct P as [-> ->].
  unfold g in E, Hx. rewrite (lookup_key_grid G) in E. rewrite (n_xl_grid G s OK) in Hx.
  destruct (lookup_hit G s OK _ _ _ E) as [Hu [Eu _]].
  apply (Hno u Hu Eu). fold nX. lia.
Qed.

(* ---- header capture ---- *)
Lemma footer_writes_grid p t : In (p, t) (footer_writes s g bs0) <-> 0 <= t < len /\ p = cell_of G (tr t).
Proof.
  rewrite footer_writes_in. unfold g. rewrite (n_xl_grid G s OK). fold nX. split.
  - intros [ps [i [x [u [Hps [Hi [Hx [E Hw]]]]]]]]. injection Hw as -> ->.
    rewrite (lookup_key_grid G) in E. destruct (lookup_hit G s OK _ _ _ E) as [Hu [_ [_ [_ Ec]]]].
    split; [exact Hu|]. rewrite Ec. fold nX. lia.
  - intros [Ht ->]. pose proof (ok_on_grid G s OK _ (tr_in G s t Ht)) as O.
    destruct (on_grid_spec _ _ O) as [_ [R1 [_ R2]]].
    set (k := il_idx G (tr t)) in *. set (j := xl_idx G (tr t)) in *.
    exists (k / bs0), (k mod bs0), j, t.
    pose proof (Z.div_mod k bs0 ltac:(lia)) as DM. pose proof (Z.mod_pos_bound k bs0 ltac:(lia)) as MB.
    assert (0 <= k / bs0) by (apply Z.div_pos; lia).
    repeat split; try lia.
    + unfold n_plane_sets. rewrite (n_il_grid G s OK). apply pad_sets; [exact BS|exact R1].
    + rewrite (lookup_key_grid G). replace (k / bs0 * bs0 + k mod bs0) with k by lia.
      pose proof (gkey_of_trace G s OK _ (tr_in G s t Ht)) as GK. fold k j in GK. rewrite <- GK.
      apply (lookup_of_trace G s OK t Ht).
    + unfold cell_of. fold k j nX. f_equal. replace (k / bs0 * bs0 + k mod bs0) with k by lia. lia.
Qed.
Lemma cell_of_bound t : 0 <= t < len -> 0 <= cell_of G (tr t) < nI * nX.
Proof.
  intros Ht. destruct (on_grid_spec _ _ (ok_on_grid G s OK _ (tr_in G s t Ht))) as [_ [R1 [_ R2]]].
  unfold cell_of. apply cell_bound; assumption.
Qed.

Definition footer_ok (hv : Z -> Z) (F : list Z) : Prop :=
  Z.of_nat (length F) = nI * nX /\
  (forall t, 0 <= t < len -> nth (Z.to_nat (cell_of G (tr t))) F 0 = hv t) /\
  (forall c, 0 <= c < nI * nX -> (forall t, 0 <= t < len -> cell_of G (tr t) <> c) -> nth (Z.to_nat c) F 0 = 0).

Lemma footer_spec hv : exists F, footer s g bs0 hv = Return F /\ footer_ok hv F.
Proof.
  unfold footer.
  assert (HL : footer_len g = nI * nX).
  { unfold footer_len, ig_footer_len, g. rewrite (n_il_grid G s OK), (n_xl_grid G s OK). reflexivity. }
  rewrite HL.
  assert (HB : forallb (fun w => (- (nI * nX) <=? fst w) && (fst w <? nI * nX)) (footer_writes s g bs0) = true).
  { apply forallb_forall. intros [p t] Hin. apply footer_writes_grid in Hin. destruct Hin as [Ht ->].
    pose proof (cell_of_bound t Ht). cbn [fst]. lia. }
  rewrite HB. cbn [negb]. eexists. split; [reflexivity|].
  pose proof (ok_dims G s OK) as [HnI [HnX _]]. fold nI nX in HnI, HnX.
  assert (0 <= nI * nX) by (apply Z.mul_nonneg_nonneg; lia).
  split; [rewrite map_length, length_zrange; lia|]. split.
  - intros t Ht. pose proof (cell_of_bound t Ht) as Hc. rewrite nth_map_zrange by exact Hc.
    destruct (find _ (rev (footer_writes s g bs0))) as [[p u]|] eqn:F.
    + apply find_some in F. destruct F as [Hin P]. apply in_rev, footer_writes_grid in Hin.
      destruct Hin as [Hu ->]. cbn [fst snd] in *. pose proof (cell_of_bound u Hu).
      replace (cell_of G (tr u) <? 0) with false in P by lia. apply Z.eqb_eq in P.
      f_equal. apply (cell_tr_inj G s OK); assumption.
    + exfalso. pose proof (find_none _ _ F (cell_of G (tr t), t)) as N. cbn [fst] in N.
      replace (cell_of G (tr t) <? 0) with false in N by lia. rewrite Z.eqb_refl in N. discriminate N.
      apply -> in_rev. apply footer_writes_grid. split; [exact Ht|reflexivity].
  - intros c Hc Hno. rewrite nth_map_zrange by exact Hc.
    destruct (find _ (rev (footer_writes s g bs0))) as [[p u]|] eqn:F; [|reflexivity].
    exfalso. apply find_some in F. destruct F as [Hin P]. apply in_rev, footer_writes_grid in Hin.
    destruct Hin as [Hu ->]. cbn [fst snd] in *. pose proof (cell_of_bound u Hu).
    replace (cell_of G (tr u) <? 0) with false in P by lia. apply Z.eqb_eq in P. exact (Hno u Hu P).
Qed.

(* ---- the population mask and the ordinal map ---- *)
Lemma cells_nth t : 0 <= t < len -> nth (Z.to_nat t) (map (cell_of G) s) 0 = cell_of G (tr t).
Proof.
  intros Ht. unfold Irregular.len in Ht.
  rewrite (nth_indep _ 0 (cell_of G (0, 0))) by (rewrite map_length; lia). apply map_nth.
Qed.
Lemma in_cells c : In c (map (cell_of G) s) <-> exists t, 0 <= t < len /\ cell_of G (tr t) = c.
Proof.
  rewrite in_map_iff. split.
  - intros [x [E Hin]]. destruct (@In_nth trace s x (0, 0) Hin) as [d [Hd En]]. exists (Z.of_nat d).
    unfold Irregular.len, Irregular.tr. rewrite Nat2Z.id. split; [lia|]. rewrite <- E. f_equal. exact En.
  - intros [t [Ht E]]. exists (tr t). split; [exact E|apply (tr_in G), Ht].
Qed.

Lemma mask_positions F :
  no_zero_inline s = true -> footer_ok (fun t => fst (tr t)) F ->
  true_positions (mask_of F) 0 = map (cell_of G) s.
Proof.
  intros NZ [HL [Hhit Hmiss]].
  apply ssorted_ext_eq; [apply true_positions_sorted|apply (cells_sorted G s OK)|].
  intros c. rewrite true_positions_in. unfold mask_of. rewrite map_length, HL.
  replace (c - 0) with c by lia.
  assert (Hn : 0 <= c < nI * nX -> nth (Z.to_nat c) (map ig_mask_populated F) false = ig_mask_populated (nth (Z.to_nat c) F 0)).
  { intros Hc. rewrite (nth_indep _ false (ig_mask_populated 0)) by (rewrite map_length; lia). apply map_nth. }
  split.
  - intros [Hc P]. rewrite Hn in P by lia.
    destruct (in_dec Z.eq_dec c (map (cell_of G) s)) as [I|NI]; [exact I|].
    exfalso. rewrite Hmiss in P; [discriminate P|lia|].
    intros t Ht E. apply NI. apply in_cells. exists t. split; assumption.
  - intros I. apply in_cells in I. destruct I as [t [Ht <-]]. pose proof (cell_of_bound t Ht) as Hc.
    split; [lia|]. rewrite Hn by exact Hc. rewrite Hhit by exact Ht.
    unfold no_zero_inline in NZ. rewrite forallb_forall in NZ. apply NZ, (tr_in G), Ht.
Qed.

Lemma mask_ordinal F i :
  no_zero_inline s = true -> footer_ok (fun t => fst (tr t)) F -> 0 <= i < len ->
  mask_nth (mask_of F) i = Return (cell_of G (tr i)).
Proof.
  intros NZ FO Hi. unfold mask_nth. rewrite (mask_positions F NZ FO).
  rewrite np_index_in_range by (rewrite map_length; exact Hi). rewrite cells_nth by exact Hi. reflexivity.
Qed.

Lemma header_ordinal F hv Fv i :
  no_zero_inline s = true -> footer_ok (fun t => fst (tr t)) F -> footer_ok hv Fv -> 0 <= i < len ->
  gen_header_field len (mask_of F) Fv i = Return (hv i).
Proof.
  intros NZ FO [HLv [Hhit _]] Hi. unfold gen_header_field.
  replace ((0 <=? i) && (i <? len)) with true by lia. cbn [negb].
  rewrite (select_true_positions _ _ 0) by (unfold mask_of; rewrite map_length; destruct FO as [HL _]; lia).
  rewrite (mask_positions F NZ FO).
  rewrite np_index_in_range by (rewrite !map_length; exact Hi).
  rewrite (nth_map_in _ _ _ 0 0) by (rewrite !map_length; unfold Irregular.len in Hi; lia).
  rewrite cells_nth by exact Hi. replace (cell_of G (tr i) - 0) with (cell_of G (tr i)) by lia.
  rewrite Hhit by exact Hi. reflexivity.
Qed.
End CONVERT.

(* ================================================================ statements in terms of the source headers *)
Lemma footer_ok_ext G s hv hv' F : (forall t, 0 <= t < len s -> hv t = hv' t) -> footer_ok G s hv F -> footer_ok G s hv' F.
Proof.
  intros E [HL [Hhit Hmiss]]. split; [exact HL|]. split; [|exact Hmiss].
  intros t Ht. rewrite <- E by exact Ht. apply Hhit, Ht.
Qed.

Lemma len_survey_of n H : 0 <= n -> len (survey_of n H) = n.
Proof. intros Hn. unfold len, survey_of. rewrite map_length, length_zrange. lia. Qed.
Lemma tr_survey_of n H t : 0 <= t < n -> tr (survey_of n H) t = (H t ig_key_field0, H t ig_key_field1).
Proof.
  intros Ht. unfold tr, survey_of. rewrite (nth_map_in _ _ _ _ 0) by (rewrite length_zrange; lia).
  rewrite nth_zrange by lia. replace (0 + t) with t by lia. reflexivity.
Qed.

(* the mask is computed from the array of the FIRST key component (the inline number) *)
Lemma mask_field_is_inline : ig_mask_field = ig_key_field0.
Proof. reflexivity. Qed.

Section TOP.
Variable G : grid.
Variable s : survey.
Hypothesis OK : survey_ok G s = true.
Variable bs0 : Z.
Hypothesis BS : 1 <= bs0.
Variable g : geom.
Hypothesis IG : infer_geometry s = Return g.

Lemma g_is_grid : g = geom_of_grid G.
Proof. rewrite (inferred_is_grid G s OK) in IG. injection IG as <-. reflexivity. Qed.

Lemma top_placement ns ps bi bx bz :
  (forall t, 0 <= bi < bs0 -> 0 <= bx < gn_xl G -> 0 <= bz < ns -> 0 <= t < len s ->
     tr s t = gkey G (ps * bs0 + bi) bx -> buffer_cell s g bs0 ns ps bi bx bz = CSample t bz) /\
  ((forall t, 0 <= t < len s -> tr s t = gkey G (ps * bs0 + bi) bx -> ~ (0 <= bi < bs0 /\ 0 <= bx < gn_xl G /\ 0 <= bz < ns)) ->
     buffer_cell s g bs0 ns ps bi bx bz = CZero).
Proof.
  rewrite g_is_grid. split.
  - intros t; apply (placement_hit G s OK bs0).
  - apply (placement_zero G s OK bs0).
Qed.

Lemma top_footer hv F : footer s g bs0 hv = Return F -> footer_ok G s hv F.
Proof.
  rewrite g_is_grid. intros E. destruct (footer_spec G s OK bs0 BS hv) as [F' [E' FO]].
  rewrite E in E'. injection E' as <-. exact FO.
Qed.

Lemma top_tracefield hv F a b :
  footer s g bs0 hv = Return F -> 0 <= a < gn_il G -> 0 <= b < gn_xl G ->
  (forall t, 0 <= t < len s -> tr s t = gkey G a b -> tracefield_cell F (n_xl g) a b = hv t) /\
  ((forall t, 0 <= t < len s -> tr s t <> gkey G a b) -> tracefield_cell F (n_xl g) a b = 0).
Proof.
  intros E Ha Hb. destruct (top_footer hv F E) as [HL [Hhit Hmiss]].
  rewrite g_is_grid, (n_xl_grid G s OK). unfold tracefield_cell. split.
  - intros t Ht Ek. rewrite <- (Hhit t Ht). do 2 f_equal. unfold cell_of. rewrite Ek.
    destruct (idx_of_gkey G s OK a b) as [-> ->]. reflexivity.
  - intros Hno. apply Hmiss; [apply cell_bound; assumption|].
    intros t Ht Ec. apply (Hno t Ht).
    destruct (on_grid_spec _ _ (ok_on_grid G s OK _ (tr_in G s t Ht))) as [_ [_ [_ R2]]].
    unfold cell_of in Ec. apply cell_inj in Ec; [|exact R2|exact Hb]. destruct Ec as [E1 E2].
    rewrite (gkey_of_trace G s OK _ (tr_in G s t Ht)), E1, E2. reflexivity.
Qed.
End TOP.

(* the grid cell of source trace i is cell (k, j) with k = cell / n_xl, j = cell mod n_xl, and the plane-set buffer holds it there *)
Lemma ordinal_cell_holds_trace G s bs0 g ns i z :
  survey_ok G s = true -> 1 <= bs0 -> infer_geometry s = Return g -> 0 <= i < len s -> 0 <= z < ns ->
  let c := cell_of G (tr s i) in
  let k := c / n_xl g in let j := c mod n_xl g in
  0 <= k < n_il g /\ 0 <= j < n_xl g /\ buffer_cell s g bs0 ns (k / bs0) (k mod bs0) j z = CSample i z.
Proof.
  intros OK BS IG Hi Hz. rewrite (g_is_grid G s OK g IG), (n_xl_grid G s OK), (n_il_grid G s OK).
  destruct (on_grid_spec _ _ (ok_on_grid G s OK _ (tr_in G s i Hi))) as [_ [R1 [_ R2]]].
  cbv zeta. unfold cell_of. rewrite cell_div, cell_mod by exact R2.
  split; [exact R1|]. split; [exact R2|].
  set (k := il_idx G (tr s i)) in *.
  pose proof (Z.div_mod k bs0 ltac:(lia)) as DM. pose proof (Z.mod_pos_bound k bs0 ltac:(lia)) as MB.
  apply (placement_hit G s OK bs0); try lia.
  replace (k / bs0 * bs0 + k mod bs0) with k by lia. apply (gkey_of_trace G s OK), (tr_in G), Hi.
Qed.

(* ================================================================ header fields written and axes reported *)
Lemma wrap32_elem a st k : - two31 <= a + k * st < two31 -> 0 <= st < two32 ->
  wrap32 (ig_coord_elem (a mod two32) st k) = a + k * st.
Proof.
  intros Hr Hs. unfold wrap32, ig_coord_elem.
  replace (a mod two32 + st * k + two31) with (a mod two32 + (st * k + two31)) by lia.
  rewrite Zplus_mod_idemp_l. rewrite Z.mod_small by (unfold two31, two32 in *; lia). lia.
Qed.

Lemma reported_axes G s :
  survey_ok G s = true -> int32_ok G = true -> len s < two32 ->
  let h := header_of (geom_of_grid G) (len s) in
  reported_axis h ig_rd_ilines_fields = Return (map (fun k => ga_il G + k * gs_il G) (zrange 0 (gn_il G))) /\
  reported_axis h ig_rd_xlines_fields = Return (map (fun k => ga_xl G + k * gs_xl G) (zrange 0 (gn_xl G))).
Proof.
  intros OK I32 HL. pose proof (ok_dims G s OK) as [HnI [HnX [HsI HsX]]].
  unfold int32_ok in I32. rewrite !andb_true_iff, !Z.leb_le, !Z.ltb_lt in I32.
  destruct I32 as [[[[[[[B1 B2] B3] B4] B5] B6] B7] B8].
  cbv zeta. unfold header_of, ig_header_fields. rewrite (n_il_grid G s OK), (n_xl_grid G s OK).
  unfold geom_of_grid; cbn [g_min_il g_min_xl g_il_step g_xl_step].
  unfold ig_rd_ilines_fields, ig_rd_xlines_fields, reported_axis.
  cbn [field_at Z.eqb Pos.eqb]. unfold written_u32.
  replace ((- two31 <=? ga_il G) && (ga_il G <? two31)) with true
    by (assert (0 <= (gn_il G - 1) * gs_il G) by (apply Z.mul_nonneg_nonneg; lia); lia).
  replace ((- two31 <=? ga_xl G) && (ga_xl G <? two31)) with true
    by (assert (0 <= (gn_xl G - 1) * gs_xl G) by (apply Z.mul_nonneg_nonneg; lia); lia).
  replace ((- two31 <=? gs_il G) && (gs_il G <? two31)) with true by (unfold two31 in *; lia).
  replace ((- two31 <=? gs_xl G) && (gs_xl G <? two31)) with true by (unfold two31 in *; lia).
  replace ((0 <=? gn_il G) && (gn_il G <? two32)) with true by lia.
  replace ((0 <=? gn_xl G) && (gn_xl G <? two32)) with true by lia.
  cbn [bind].
  rewrite (Z.mod_small (gs_il G)) by (unfold two31, two32 in *; lia).
  rewrite (Z.mod_small (gs_xl G)) by (unfold two31, two32 in *; lia).
  split; f_equal; apply map_ext_in; intros k Hk; apply in_zrange in Hk; apply wrap32_elem.
  - assert (0 <= k * gs_il G) by (apply Z.mul_nonneg_nonneg; lia).
    assert (k * gs_il G <= (gn_il G - 1) * gs_il G) by (apply Z.mul_le_mono_nonneg_r; lia). lia.
  - unfold two31, two32 in *; lia.
  - assert (0 <= k * gs_xl G) by (apply Z.mul_nonneg_nonneg; lia).
    assert (k * gs_xl G <= (gn_xl G - 1) * gs_xl G) by (apply Z.mul_le_mono_nonneg_r; lia). lia.
  - unfold two31, two32 in *; lia.
Qed.

(* the other unstructured header fields: grid extents, footer length, SOURCE trace count *)
Lemma header_counts G s :
  survey_ok G s = true ->
  let h := header_of (geom_of_grid G) (len s) in
  0 <= len s < two32 -> gn_il G * gn_xl G * 4 < two32 ->
  field_at h 12 = Return (gn_il G) /\ field_at h 8 = Return (gn_xl G) /\ field_at h 68 = Return (len s) /\
  field_at h 60 = Return (4 * (gn_il G * gn_xl G)).
Proof.
  intros OK. pose proof (ok_dims G s OK) as [HnI [HnX _]].
  cbv zeta. unfold header_of, ig_header_fields. rewrite (n_il_grid G s OK), (n_xl_grid G s OK). intros HL HB.
  assert (0 <= gn_il G * gn_xl G) by (apply Z.mul_nonneg_nonneg; lia).
  cbn [field_at Z.eqb Pos.eqb]. unfold written_u32.
  replace (gn_xl G * gn_il G * 32 / 8) with (4 * (gn_il G * gn_xl G))
    by (replace (gn_xl G * gn_il G * 32) with (4 * (gn_il G * gn_xl G) * 8) by lia; rewrite Z.div_mul by lia; reflexivity).
  replace ((0 <=? gn_il G) && (gn_il G <? two32)) with true by (unfold two32 in *; nia).
  replace ((0 <=? gn_xl G) && (gn_xl G <? two32)) with true by (unfold two32 in *; nia).
  replace ((0 <=? len s) && (len s <? two32)) with true by lia.
  replace ((0 <=? 4 * (gn_il G * gn_xl G)) && (4 * (gn_il G * gn_xl G) <? two32)) with true by lia.
  repeat split; reflexivity.
Qed.

(* ================================================================ the generated reader (Gen/Reader.v) on such a file *)
From SZ Require Import Gen.Version Gen.Reader.

(* a header carrying the SOURCE trace count of a proper subset of the grid makes the reader's `structured` false *)
Lemma unstructured_flag (Hd : hdr) n nI nX :
  h_u32_68 Hd = n -> h_u32_12 Hd = nI -> h_u32_8 Hd = nX ->
  (rd_file_version_enc Hd >? version_to_encoding 0 2 1 false) = true -> n < nI * nX ->
  rd_n_ilines Hd = nI /\ rd_n_xlines Hd = nX /\ rd_tracecount Hd = n /\
  (rd_tracecount Hd =? rd_n_ilines Hd * rd_n_xlines Hd) = false.
Proof.
  intros E68 E12 E8 V Hlt.
  unfold rd_tracecount, rd_tracecount_v1, rd_n_ilines, rd_n_ilines_v1, rd_n_xlines, rd_n_xlines_v1 in *.
  unfold rd_file_version_enc in V. rewrite V, E68, E12, E8.
  repeat split; try reflexivity. apply Z.eqb_neq. lia.
Qed.

(* get_trace(i) on an unstructured 3D file is the read of grid position mask_nth(i): every outcome (data, guards,
   reads) is that of get_trace(position, override_unstructured_mapping=True) *)
Lemma get_trace_through_mask (Hd : hdr) (mn : Z -> outcome Z) i c lo hi :
  (rd_blockshape0_v1 Hd =? 1) = false ->
  (rd_tracecount Hd =? rd_n_ilines Hd * rd_n_xlines Hd) = false ->
  0 <= i < rd_tracecount Hd ->
  mn i = Return c ->
  rd_get_trace mn Hd i lo hi false = rd_get_trace mn Hd c lo hi true.
Proof.
  intros N2 US Hi M. unfold rd_get_trace. rewrite N2.
  replace ((0 <=? i) && (i <? rd_tracecount Hd)) with true by lia.
  destruct lo, hi; cbv iota; rewrite US; cbn [negb andb]; cbv iota; rewrite M; cbn [bind]; reflexivity.
Qed.

(* an ordinal outside [0, tracecount) is refused before the mask is consulted (D37 repair) *)
Lemma get_trace_ordinal_oob (Hd : hdr) (mn : Z -> outcome Z) i lo hi :
  (rd_blockshape0_v1 Hd =? 1) = false ->
  (rd_tracecount Hd =? rd_n_ilines Hd * rd_n_xlines Hd) = false ->
  ~ (0 <= i < rd_tracecount Hd) ->
  rd_get_trace mn Hd i lo hi false = Raise IndexErr.
Proof.
  intros N2 US Hi. unfold rd_get_trace. rewrite N2.
  replace ((0 <=? i) && (i <? rd_tracecount Hd)) with false by lia.
  destruct lo, hi; cbv iota; rewrite US; cbn [negb andb]; cbv iota; reflexivity.
Qed.

(* ================================================================ D20: a survey containing inline 0 *)
Definition d20_grid : grid := {| ga_il := 0; gs_il := 1; gn_il := 2; ga_xl := 1; gs_xl := 1; gn_xl := 2 |}.
Definition d20_survey : survey := [(0, 1); (1, 1); (1, 2)].

Lemma d20_witness :
  survey_ok d20_grid d20_survey = true /\ no_zero_inline d20_survey = false /\
  exists g F, infer_geometry d20_survey = Return g /\
    footer d20_survey g 4 (fun t => fst (tr d20_survey t)) = Return F /\
    mask_nth (mask_of F) 0 = Return 2 /\ cell_of d20_grid (tr d20_survey 0) = 0 /\
    mask_nth (mask_of F) 2 = Raise IndexErr /\
    gen_header_field 3 (mask_of F) F 0 = Return 1.
Proof.
  split; [vm_compute; reflexivity|]. split; [vm_compute; reflexivity|].
  eexists. eexists. split; [vm_compute; reflexivity|]. split; [vm_compute; reflexivity|].
  repeat split; vm_compute; reflexivity.
Qed.

(* ================================================================ the ordinal maps in terms of the source headers *)
Lemma mask_ordinal_map G n H bs0 g F :
  0 <= n -> survey_ok G (survey_of n H) = true -> no_zero_inline (survey_of n H) = true -> 1 <= bs0 ->
  infer_geometry (survey_of n H) = Return g ->
  footer (survey_of n H) g bs0 (fun t => H t ig_mask_field) = Return F ->
  forall i, 0 <= i < n -> mask_nth (mask_of F) i = Return (cell_of G (H i ig_key_field0, H i ig_key_field1)).
Proof.
  intros Hn OK NZ BS IG EF i Hi. set (s := survey_of n H) in *.
  pose proof (top_footer G s OK bs0 BS g IG _ F EF) as FO.
  assert (FO' : footer_ok G s (fun t => fst (tr s t)) F).
  { apply (footer_ok_ext G s (fun t => H t ig_mask_field)); [|exact FO].
    intros t Ht. unfold s in *. rewrite len_survey_of in Ht by exact Hn. rewrite tr_survey_of by exact Ht. reflexivity. }
  rewrite <- (tr_survey_of n H i Hi). fold s. apply (mask_ordinal G s OK F i NZ FO').
  unfold s. rewrite len_survey_of; lia.
Qed.

Lemma header_ordinal_map G n H bs0 g F f Fv :
  0 <= n -> survey_ok G (survey_of n H) = true -> no_zero_inline (survey_of n H) = true -> 1 <= bs0 ->
  infer_geometry (survey_of n H) = Return g ->
  footer (survey_of n H) g bs0 (fun t => H t ig_mask_field) = Return F ->
  footer (survey_of n H) g bs0 (fun t => H t f) = Return Fv ->
  forall i, 0 <= i < n -> gen_header_field n (mask_of F) Fv i = Return (H i f).
Proof.
  intros Hn OK NZ BS IG EF EV i Hi. set (s := survey_of n H) in *.
  pose proof (top_footer G s OK bs0 BS g IG _ F EF) as FO.
  pose proof (top_footer G s OK bs0 BS g IG _ Fv EV) as FV.
  assert (FO' : footer_ok G s (fun t => fst (tr s t)) F).
  { apply (footer_ok_ext G s (fun t => H t ig_mask_field)); [|exact FO].
    intros t Ht. unfold s in *. rewrite len_survey_of in Ht by exact Hn. rewrite tr_survey_of by exact Ht. reflexivity. }
  rewrite <- (len_survey_of n H Hn). fold s.
  apply (header_ordinal G s OK F (fun t => H t f) Fv i NZ FO' FV).
  unfold s. rewrite len_survey_of; lia.
Qed.

(* ================================================================ which route the converter takes (D27) *)
Lemma ok_two_traces G s : survey_ok G s = true -> (2 <= length s)%nat.
Proof.
  intros OK. pose proof (ok_dims G s OK) as [HnI [_ [HsI _]]].
  destruct (ok_every_il G s OK 0 ltac:(lia)) as [t0 [I0 E0]].
  destruct (ok_every_il G s OK 1 ltac:(lia)) as [t1 [I1 E1]].
  assert (NE : t0 <> t1) by (intros ->; lia).
  destruct s as [|a [|b r]]; cbn [length]; try lia.
  - destruct I0.
  - destruct I0 as [<-|[]]. destruct I1 as [<-|[]]. congruence.
Qed.

(* the hypotheses of C08 exclude the 2D test of detect_geometry: when segyio reports the file unstructured the
   irregular route is taken *)
Lemma route_irregular G s : survey_ok G s = true -> segyio_unstructured s = true -> detect_route s = RIrregular.
Proof.
  intros OK U. unfold detect_route. unfold segyio_unstructured in U.
  destruct (segyio_geometry s) as [[ic xc]|]; [discriminate U|].
  destruct ((fst (hd (0, 0) s) =? 0) && (snd (hd (0, 0) s) =? 0) && (fst (last s (0, 0)) =? 0) && (snd (last s (0, 0)) =? 0)) eqn:Z;
    [|reflexivity].
  exfalso. rewrite !andb_true_iff, !Z.eqb_eq in Z. destruct Z as [[[A B] C] D].
  pose proof (ok_two_traces G s OK) as L2. pose proof (survey_NoDup G s OK) as ND.
  assert (E : hd (0, 0) s = last s (0, 0)).
  { destruct (hd (0, 0) s) as [p q], (last s (0, 0)) as [p' q']. cbn [fst snd] in *. congruence. }
  destruct s as [|a r]; [cbn in L2; lia|]. cbn [hd] in E.
  destruct r as [|b r']; [cbn in L2; lia|].
  inversion ND as [|? ? NI _]; subst. apply NI. rewrite E.
  change (last (a :: b :: r') (0, 0)) with (last (b :: r') (0, 0)).
  destruct (exists_last (l := b :: r') ltac:(discriminate)) as [l' [x Ex]]. rewrite Ex, last_last.
  apply in_or_app. right. left. reflexivity.
Qed.

(* D27: surveys satisfying every hypothesis of C08 that segyio nevertheless reports as structured *)
Definition d27_grid : grid := {| ga_il := 1; gs_il := 1; gn_il := 4; ga_xl := 1; gs_xl := 1; gn_xl := 5 |}.
Definition d27_survey : survey := [(1, 1); (1, 3); (1, 5); (2, 2); (2, 4); (3, 1); (3, 3); (3, 5); (4, 2); (4, 4)].
Definition d27_grid_2d : grid := {| ga_il := 1; gs_il := 1; gn_il := 3; ga_xl := 5; gs_xl := 2; gn_xl := 2 |}.
Definition d27_survey_2d : survey := [(1, 5); (2, 5); (3, 7)].
Lemma d27_witness :
  survey_ok d27_grid d27_survey = true /\ no_zero_inline d27_survey = true /\
  segyio_geometry d27_survey = Some (2, 5) /\ detect_route d27_survey = RRegular /\
  survey_ok d27_grid_2d d27_survey_2d = true /\ no_zero_inline d27_survey_2d = true /\
  detect_route d27_survey_2d = R2D.
Proof. vm_compute. repeat split; reflexivity. Qed.

(* ================================================================ get_tracefield_values of a constant field (D30) *)
Lemma tracefield_constant G s bs0 g F v a b :
  survey_ok G s = true -> no_zero_inline s = true -> 1 <= bs0 -> infer_geometry s = Return g ->
  footer s g bs0 (fun t => fst (tr s t)) = Return F -> 0 <= a < gn_il G -> 0 <= b < gn_xl G ->
  ((exists t, 0 <= t < len s /\ tr s t = gkey G a b) -> tracefield_cell (tracefield_const (mask_of F) v) (n_xl g) a b = v) /\
  ((forall t, 0 <= t < len s -> tr s t <> gkey G a b) -> tracefield_cell (tracefield_const (mask_of F) v) (n_xl g) a b = 0).
Proof.
  intros OK NZ BS IG EF Ha Hb.
  destruct (top_tracefield G s OK bs0 BS g IG _ F a b EF Ha Hb) as [Hhit Hmiss].
  destruct (top_footer G s OK bs0 BS g IG _ F EF) as [HL _].
  rewrite (g_is_grid G s OK g IG), (n_xl_grid G s OK) in *.
  pose proof (cell_bound _ _ _ _ Ha Hb) as Hc.
  assert (E : tracefield_cell (tracefield_const (mask_of F) v) (gn_xl G) a b
              = if ig_mask_populated (tracefield_cell F (gn_xl G) a b) then v else 0).
  { unfold tracefield_cell, tracefield_const, mask_of.
    rewrite (nth_map_in _ _ _ 0 false) by (rewrite map_length; lia).
    rewrite (nth_map_in _ _ _ false 0) by lia. reflexivity. }
  rewrite E. split.
  - intros [t [Ht Ek]]. rewrite (Hhit t Ht Ek).
    unfold no_zero_inline in NZ. rewrite forallb_forall in NZ. rewrite (NZ _ (tr_in G s t Ht)). reflexivity.
  - intros Hno. rewrite (Hmiss Hno). reflexivity.
Qed.
