(* Proofs/GeometryAll.v -- C05, the sample-axis theorems on the WHOLE SEG-Y domain (no finite sweep).

   Every sample interval d = 1..65535 us, every start time t0 = -32768..32767 ms (the ranges of the two 16-bit SEG-Y fields),
   every axis length 2 <= n < 2^32: the header written by make_header stores d, t0 and n exactly, and the axis the reader
   regenerates has the same 64 bits per element as segyio's  (arange(n) * (d / 1000.0)) + t0.

   ROUTE: real analysis (R1 of the task), no enumeration at all.  The statements are about the EXISTING definitions of
   Model/Geometry.v (binary64 = Coq's primitive floats).  Primitive float operations are related to Flocq's binary64
   (Flocq.IEEE754.PrimFloat: Prim2B and the *_equiv lemmas, which rest on the standard library's Coq.Floats.FloatAxioms), and
   Flocq's *_correct theorems give each result as round-to-nearest-even of the exact real result:
     q   = fl(d / 1000)                         |q - d/1000|          <= 2^-36   (one coarse bound serves all roundings:
     s_0 = fl(fl(0 * q) + t0) = t0   exactly                                      every quantity is below 2^17 in magnitude)
     s_1 = fl(fl(1 * q) + t0)                   |s_1 - (d/1000 + t0)| <= 3e-10
     y   = fl(1000 * fl(s_1 - s_0))             |y - d|               <= 1/4
   np.rint (model f_rint: frshiftexp / normfr_mantissa, integer rounding rne_Z) of a float within 1/4 of a positive integer
   d is the float d; .astype(int) (f_trunc_Z) of an integer-valued float is that integer; struct.pack accepts it.
   The regenerated axis: the reader computes  t0 + (d / 1000) * k  where segyio computed  k * (d / 1000.0) + t0 : the same
   binary64 operations on the same operands with the operands of * and + exchanged, and both are commutative on bit
   patterns (prim_mul_comm, prim_add_comm, for ALL floats); no sample overflows below 2^32 samples, hence none is a NaN.

   AXIOMS (Print Assumptions in Props/C05b.v): the standard library's specification of the primitive floats
   (Coq.Floats.FloatAxioms) and of Uint63, and the axioms of the standard library's real numbers (ClassicalDedekindReals,
   functional extensionality, classic), through Flocq.  Nothing is assumed by this file itself. *)
From Coq Require Import ZArith List Bool String Lia Reals Lra.
From Coq Require PrimFloat Uint63 FloatClass.
From Coq Require Import Floats.
From Flocq Require Import Core.Core IEEE754.BinarySingleNaN IEEE754.PrimFloat.
From SZ Require Import Lib.Py Gen.Utils Gen.Version Gen.Reader Gen.Geometry Model.Geometry Proofs.PyLemmas Proofs.Geometry.
Import ListNotations.
Open Scope Z_scope.

(* ================================================================== 1. rounding to binary64, on reals *)
Local Instance Hprec64 : FLX.Prec_gt_0 prec := eq_refl _.
Local Instance Hmax64 : Prec_lt_emax prec emax := eq_refl _.
Notation fexp64 := (SpecFloat.fexp prec emax).
Definition rnd (x : R) : R := round radix2 fexp64 ZnearestE x.

Local Instance fexp64_valid : Valid_exp fexp64 := fexp_correct prec emax Hprec64.
Local Instance fexp64_mono : Monotone_exp fexp64 := fexp_monotone prec emax.

Lemma fexp64_eq e : -1021 <= e -> fexp64 e = e - 53.
Proof. intros H. unfold SpecFloat.fexp, SpecFloat.emin, prec, emax. lia. Qed.

Lemma rnd_err e x : -1022 <= e -> (Rabs x <= bpow radix2 e)%R -> (Rabs (rnd x - x) <= bpow radix2 (e - 53))%R.
Proof.
  intros He Hx. unfold rnd.
  eapply Rle_trans; [apply error_le_half_ulp; exact fexp64_valid |].
  assert (Hu : (ulp radix2 fexp64 x <= bpow radix2 (e - 52))%R).
  { eapply Rle_trans; [apply (ulp_le radix2 fexp64 x (bpow radix2 e)) |].
    - rewrite (Rabs_pos_eq (bpow radix2 e)) by apply bpow_ge_0. exact Hx.
    - rewrite ulp_bpow. rewrite fexp64_eq by lia. apply Req_le. f_equal. lia. }
  replace (e - 53) with (-1 + (e - 52)) by lia. rewrite bpow_plus.
  change (bpow radix2 (-1)) with (/ 2)%R.
  apply Rmult_le_compat_l; [lra | exact Hu].
Qed.

Lemma rnd_bound e x : -1022 <= e -> (Rabs x <= bpow radix2 e)%R -> (Rabs (rnd x) <= bpow radix2 e)%R.
Proof.
  intros He Hx. unfold rnd. apply abs_round_le_generic; [exact fexp64_valid | apply valid_rnd_N | | exact Hx].
  apply generic_format_bpow. rewrite fexp64_eq by lia. lia.
Qed.

Lemma rnd_lt_emax e x : -1022 <= e <= 1023 -> (Rabs x <= bpow radix2 e)%R ->
  Rlt_bool (Rabs (round radix2 fexp64 (round_mode mode_NE) x)) (bpow radix2 emax) = true.
Proof.
  intros He Hx. apply Rlt_bool_true. change (round_mode mode_NE) with ZnearestE.
  eapply Rle_lt_trans; [apply (rnd_bound e x); [lia | exact Hx] |]. apply bpow_lt. unfold emax. lia.
Qed.

Lemma rnd_IZR z : Z.abs z < 2 ^ 53 -> rnd (IZR z) = IZR z.
Proof.
  intros H. unfold rnd. apply round_generic; [apply valid_rnd_N |].
  apply (generic_format_FLT radix2 (SpecFloat.emin prec emax) prec).
  apply (FLT_spec radix2 _ _ (IZR z) (Float radix2 z 0)).
  - unfold F2R. cbn. lra.
  - exact H.
  - cbn. unfold SpecFloat.emin, prec, emax. lia.
Qed.
(* ================================================================== 2. primitive float operations as rounded real operations *)
(* value and finiteness of a primitive float, through Flocq *)
Definition FR (x : float) : R := B2R (Prim2B x).
Definition fin (x : float) : Prop := is_finite (Prim2B x) = true.

Lemma add_FR e x y : fin x -> fin y -> -1022 <= e <= 1023 -> (Rabs (FR x + FR y) <= bpow radix2 e)%R ->
  fin (PrimFloat.add x y) /\ FR (PrimFloat.add x y) = rnd (FR x + FR y).
Proof.
  intros Hx Hy He Hb. unfold fin, FR in *. rewrite add_equiv.
  generalize (Bplus_correct prec emax Hprec Hmax mode_NE _ _ Hx Hy).
  rewrite (rnd_lt_emax e _ He Hb). intros (H1 & H2 & _). split; [exact H2 | exact H1].
Qed.

Lemma sub_FR e x y : fin x -> fin y -> -1022 <= e <= 1023 -> (Rabs (FR x - FR y) <= bpow radix2 e)%R ->
  fin (PrimFloat.sub x y) /\ FR (PrimFloat.sub x y) = rnd (FR x - FR y).
Proof.
  intros Hx Hy He Hb. unfold fin, FR in *. rewrite sub_equiv.
  generalize (Bminus_correct prec emax Hprec Hmax mode_NE _ _ Hx Hy).
  rewrite (rnd_lt_emax e _ He Hb). intros (H1 & H2 & _). split; [exact H2 | exact H1].
Qed.

Lemma mul_FR e x y : fin x -> fin y -> -1022 <= e <= 1023 -> (Rabs (FR x * FR y) <= bpow radix2 e)%R ->
  fin (PrimFloat.mul x y) /\ FR (PrimFloat.mul x y) = rnd (FR x * FR y).
Proof.
  intros Hx Hy He Hb. unfold fin, FR in *. rewrite mul_equiv.
  generalize (Bmult_correct prec emax Hprec Hmax mode_NE (Prim2B x) (Prim2B y)).
  rewrite (rnd_lt_emax e _ He Hb). intros (H1 & H2 & _). split; [| exact H1].
  rewrite H2. unfold fin in Hx, Hy. rewrite Hx, Hy. reflexivity.
Qed.

Lemma div_FR e x y : fin x -> FR y <> 0%R -> -1022 <= e <= 1023 -> (Rabs (FR x / FR y) <= bpow radix2 e)%R ->
  fin (PrimFloat.div x y) /\ FR (PrimFloat.div x y) = rnd (FR x / FR y).
Proof.
  intros Hx Hy He Hb. unfold fin, FR in *. rewrite div_equiv.
  generalize (Bdiv_correct prec emax Hprec Hmax mode_NE (Prim2B x) (Prim2B y) Hy).
  rewrite (rnd_lt_emax e _ He Hb). intros (H1 & H2 & _). split; [| exact H1].
  rewrite H2. exact Hx.
Qed.

Lemma f_of_pos_FR z : 0 <= z < 2 ^ 53 -> fin (f_of_pos z) /\ FR (f_of_pos z) = IZR z.
Proof.
  intros Hz. unfold fin, FR, f_of_pos. rewrite of_int63_equiv. rewrite Uint63.of_Z_spec.
  rewrite Z.mod_small by (change Uint63.wB with (2 ^ 63); lia).
  generalize (binary_normalize_correct prec emax Hprec Hmax mode_NE z 0 false).
  cbv zeta. replace (F2R {| Fnum := z; Fexp := 0 |}) with (IZR z) by (unfold F2R; cbn; lra).
  assert (Hr : round radix2 fexp64 (round_mode mode_NE) (IZR z) = IZR z) by (apply rnd_IZR; lia).
  rewrite Hr. rewrite Rlt_bool_true.
  - intros (H1 & H2 & _). split; assumption.
  - rewrite Rabs_pos_eq by (apply IZR_le; lia). change (bpow radix2 emax) with (IZR (2 ^ 1024)).
    apply IZR_lt. eapply Z.lt_trans; [apply Hz |]. apply Z.pow_lt_mono_r; lia.
Qed.

Lemma f_of_Z_FR z : Z.abs z < 2 ^ 53 -> fin (f_of_Z z) /\ FR (f_of_Z z) = IZR z.
Proof.
  intros Hz. unfold f_of_Z. destruct (z <? 0) eqn:E.
  - apply Z.ltb_lt in E. destruct (f_of_pos_FR (- z) ltac:(lia)) as (H1 & H2).
    unfold fin, FR in *. rewrite opp_equiv, is_finite_Bopp, B2R_Bopp, H2, opp_IZR.
    split; [exact H1 | ring].
  - apply Z.ltb_ge in E. apply f_of_pos_FR. lia.
Qed.

(* ================================================================== 3. classify, decomposition, truncation, np.rint *)
(* ---- classification *)
Lemma classify_B x : PrimFloat.classify x = SFclassify prec (B2SF (Prim2B x)).
Proof. rewrite classify_spec, B2SF_Prim2B. reflexivity. Qed.

Lemma f_is_finite_fin x : fin x -> f_is_finite x = true.
Proof.
  unfold fin, f_is_finite. rewrite classify_B. destruct (Prim2B x) as [s | s | | s m e H]; cbn; try discriminate.
  - destruct s; reflexivity.
  - destruct s; match goal with |- context [if ?c then _ else _] => destruct c end; reflexivity.
Qed.

Lemma f_signbit_B x : fin x -> f_signbit x = Bsign (Prim2B x).
Proof.
  unfold fin, f_signbit. rewrite classify_B. destruct (Prim2B x) as [s | s | | s m e H]; cbn; try discriminate.
  - destruct s; reflexivity.
  - destruct s; match goal with |- context [if ?c then _ else _] => destruct c end; reflexivity.
Qed.

Lemma Bsign_pos (b : binary_float prec emax) : is_finite b = true -> (0 < B2R b)%R -> Bsign b = false.
Proof.
  destruct b as [s | s | | s m e H]; cbn; intros Hf Hp; try discriminate; try lra.
  destruct s; [| reflexivity]. exfalso.
  assert (F2R (Float radix2 (Z.neg m) e) < 0)%R by (apply F2R_lt_0; reflexivity). cbn in Hp. lra.
Qed.
Lemma Bsign_neg (b : binary_float prec emax) : is_finite b = true -> (B2R b < 0)%R -> Bsign b = true.
Proof.
  destruct b as [s | s | | s m e H]; cbn; intros Hf Hp; try discriminate; try lra.
  destruct s; [reflexivity |]. exfalso.
  assert (0 < F2R (Float radix2 (Z.pos m) e))%R by (apply F2R_gt_0; reflexivity). cbn in Hp. lra.
Qed.

(* ---- decomposition of a finite non-zero float *)
Lemma f_decomp_nz x : fin x -> FR x <> 0%R ->
  exists m e, f_decomp x = (Z.pos m, e) /\ Rabs (FR x) = (IZR (Z.pos m) * bpow radix2 e)%R /\ 2 ^ 52 <= Z.pos m < 2 ^ 53.
Proof.
  intros Hf Hnz. unfold f_decomp.
  generalize (frshiftexp_equiv (PrimFloat.abs x)). destruct (PrimFloat.frshiftexp (PrimFloat.abs x)) as [fr ex].
  rewrite abs_equiv. intros Heq.
  assert (Hs : is_finite_strict (Babs (Prim2B x)) = true).
  { unfold fin, FR in *. destruct (Prim2B x) as [s | s | | s m e H]; cbn in *; try discriminate; try reflexivity.
    exfalso. apply Hnz. reflexivity. }
  generalize (Bfrexp_correct prec emax Hprec _ Hs). rewrite <- Heq.
  intros (H1 & H2). destruct (H2 eq_refl) as (H3 & _). clear H2.
  generalize (Bnormfr_mantissa_correct prec emax Hmax _ H3).
  generalize (normfr_mantissa_equiv fr).
  destruct (Prim2B fr) as [s | s | | s m e H]; try contradiction.
  intros Hm (Hn & Hd & He). rewrite Hn in Hm. cbn [Z.of_N] in Hm.
  exists m, (Uint63.to_Z ex - 2101 - 53). split; [rewrite Hm; reflexivity |]. split.
  - rewrite B2R_Babs in H1. fold (FR x) in H1. rewrite <- (Rabs_Rabsolu (FR x)), H1.
    rewrite Rabs_mult. rewrite (Rabs_pos_eq (bpow _ _)) by apply bpow_ge_0.
    subst e. cbn [B2R]. rewrite <- F2R_Zabs, abs_cond_Zopp. unfold F2R. cbn [Fnum Fexp Z.abs].
    change shift with 2101. change (- prec) with (-53).
    rewrite Rmult_assoc, <- bpow_plus. f_equal. f_equal. lia.
  - rewrite Zpos_digits2_pos in Hd. pose proof (Zdigits_correct radix2 (Z.pos m)) as Hc. rewrite Hd in Hc.
    change (Z.abs (Z.pos m)) with (Z.pos m) in Hc. exact Hc.
Qed.

(* ---- a float whose value is zero decomposes to mantissa 0 *)
Lemma f_decomp_zero x : fin x -> FR x = 0%R -> exists e, f_decomp x = (0, e).
Proof.
  intros Hf Hz. unfold f_decomp.
  generalize (frshiftexp_equiv (PrimFloat.abs x)). destruct (PrimFloat.frshiftexp (PrimFloat.abs x)) as [fr ex].
  rewrite abs_equiv. intros Heq.
  assert (Hb : Babs (Prim2B x) = B754_zero false).
  { unfold fin, FR in *. destruct (Prim2B x) as [s | s | | s m e H]; cbn in *; try discriminate; try reflexivity.
    exfalso. destruct s; cbn in Hz.
    - assert (F2R (Float radix2 (Z.neg m) e) < 0)%R by (apply F2R_lt_0; reflexivity). lra.
    - assert (0 < F2R (Float radix2 (Z.pos m) e))%R by (apply F2R_gt_0; reflexivity). lra. }
  rewrite Hb in Heq. cbn in Heq. injection Heq as Hfr _.
  generalize (normfr_mantissa_equiv fr). rewrite Hfr. cbn. intros ->. eexists. reflexivity.
Qed.

Lemma bpow_IZR e : 0 <= e -> bpow radix2 e = IZR (2 ^ e).
Proof. intros H. rewrite <- (IZR_Zpower radix2) by exact H. reflexivity. Qed.

(* ---- truncation of an integer-valued float is that integer *)
Lemma f_trunc_Z_int x z : fin x -> FR x = IZR z -> f_trunc_Z x = z.
Proof.
  intros Hf Hv. unfold f_trunc_Z. destruct (Z.eq_dec z 0) as [-> | Hnz].
  - destruct (f_decomp_zero x Hf Hv) as (e & ->).
    rewrite Z.shiftl_0_l, Z.shiftr_0_l. destruct (0 <=? e), (f_signbit x); reflexivity.
  - assert (Hr : FR x <> 0%R) by (rewrite Hv; apply not_0_IZR; exact Hnz).
    destruct (f_decomp_nz x Hf Hr) as (m & e & -> & Hm & Hb).
    rewrite Hv, <- abs_IZR in Hm.
    assert (Ha : (if 0 <=? e then Z.shiftl (Z.pos m) e else Z.shiftr (Z.pos m) (- e)) = Z.abs z).
    { destruct (0 <=? e) eqn:E.
      - apply Z.leb_le in E. rewrite Z.shiftl_mul_pow2 by exact E.
        apply eq_IZR. rewrite mult_IZR, <- bpow_IZR by exact E. symmetry. exact Hm.
      - apply Z.leb_gt in E. rewrite Z.shiftr_div_pow2 by lia.
        assert (Hp : Z.pos m = Z.abs z * 2 ^ (- e)).
        { apply eq_IZR. rewrite mult_IZR, <- bpow_IZR by lia. rewrite Hm, Rmult_assoc, <- bpow_plus.
          replace (e + - e) with 0 by lia. cbn. ring. }
        rewrite Hp. apply Z.div_mul. apply Z.pow_nonzero; lia. }
    rewrite Ha. rewrite (f_signbit_B x Hf).
    destruct (Z_lt_le_dec z 0) as [Hneg | Hpos].
    + rewrite Bsign_neg; [lia | exact Hf | fold (FR x); rewrite Hv; apply IZR_lt; exact Hneg].
    + rewrite Bsign_pos; [lia | exact Hf | fold (FR x); rewrite Hv; apply IZR_lt; lia].
Qed.

Lemma astype_int_int x z : fin x -> FR x = IZR z -> Z.abs z < two63 -> astype_int (VF x) = Return z.
Proof.
  intros Hf Hv Hz. unfold astype_int. rewrite (f_is_finite_fin x Hf), (f_trunc_Z_int x z Hf Hv).
  replace (Z.abs z <? two63) with true by (symmetry; apply Z.ltb_lt; exact Hz). reflexivity.
Qed.

(* ---- np.rint of a float within 1/4 of a positive integer d is exactly the float d *)
Lemma rne_Z_near m e d : e < 0 -> 0 < m -> 1 <= d ->
  4 * (m - d * 2 ^ (- e)) <= 2 ^ (- e) -> 4 * (d * 2 ^ (- e) - m) <= 2 ^ (- e) -> rne_Z m e = d.
Proof.
  intros He Hm Hd H1 H2. unfold rne_Z. replace (0 <=? e) with false by (symmetry; apply Z.leb_gt; exact He).
  rewrite Z.shiftr_div_pow2, Z.shiftl_mul_pow2 by lia. rewrite Z.shiftl_1_l.
  assert (HP : 2 ^ (- e) = 2 * 2 ^ (- e - 1)).
  { replace (- e) with (1 + (- e - 1)) at 1 by lia. rewrite Z.pow_add_r by lia. reflexivity. }
  assert (Hh : 0 < 2 ^ (- e - 1)) by (apply Z.pow_pos_nonneg; lia).
  set (h := 2 ^ (- e - 1)) in *. set (P := 2 ^ (- e)) in *. set (dP := d * P) in *.
  destruct (Z_le_gt_dec dP m) as [Hge | Hlt].
  - assert (Hq : m / P = d).
    { symmetry. apply (Z.div_unique_pos m P d (m - dP)); [lia | unfold dP; ring]. }
    rewrite Hq. fold dP. replace (m - dP <? h) with true by (symmetry; apply Z.ltb_lt; lia). reflexivity.
  - assert (Hq : m / P = d - 1).
    { symmetry. apply (Z.div_unique_pos m P (d - 1) (m - dP + P)); [lia | unfold dP; ring]. }
    rewrite Hq. replace ((d - 1) * P) with (dP - P) by (unfold dP; ring).
    replace (m - (dP - P) <? h) with false by (symmetry; apply Z.ltb_ge; lia).
    replace (h <? m - (dP - P)) with true by (symmetry; apply Z.ltb_lt; lia). lia.
Qed.

Lemma f_rint_near x d : fin x -> 1 <= d < 2 ^ 52 -> (Rabs (FR x - IZR d) <= / 4)%R -> f_rint x = f_of_pos d.
Proof.
  intros Hf Hd Hn. apply Rabs_le_inv in Hn.
  assert (H1 : (1 <= IZR d)%R) by (apply IZR_le; lia).
  assert (Hpos : (0 < FR x)%R) by lra.
  unfold f_rint. rewrite (f_is_finite_fin x Hf). cbn [negb].
  destruct (f_decomp_nz x Hf ltac:(lra)) as (m & e & -> & Hm & Hb).
  rewrite Rabs_pos_eq in Hm by lra.
  assert (He : e < 0).
  { destruct (Z_lt_le_dec e 0) as [Hlt | Hge]; [exact Hlt | exfalso].
    assert (IZR (2 ^ 52) <= FR x)%R.
    { rewrite Hm, bpow_IZR, <- mult_IZR by exact Hge. apply IZR_le.
      assert (1 <= 2 ^ e) by (apply Z.pow_le_mono_r with (b := 0) (c := e) (a := 2) ; lia). nia. }
    assert (IZR d + 1 <= IZR (2 ^ 52))%R by (rewrite <- plus_IZR; apply IZR_le; lia). lra. }
  replace (0 <=? e) with false by (symmetry; apply Z.leb_gt; exact He).
  rewrite (f_signbit_B x Hf), (Bsign_pos _ Hf Hpos).
  f_equal. apply rne_Z_near; [exact He | lia | lia | |].
  - assert (Hx : (IZR (Z.pos m) = FR x * IZR (2 ^ (- e)))%R).
    { rewrite Hm, <- bpow_IZR by lia. rewrite Rmult_assoc, <- bpow_plus. replace (e + - e) with 0 by lia. cbn. ring. }
    assert (HP : (0 < IZR (2 ^ (- e)))%R) by (apply IZR_lt, Z.pow_pos_nonneg; lia).
    apply le_IZR. rewrite mult_IZR, minus_IZR, mult_IZR, Hx. nra.
  - assert (Hx : (IZR (Z.pos m) = FR x * IZR (2 ^ (- e)))%R).
    { rewrite Hm, <- bpow_IZR by lia. rewrite Rmult_assoc, <- bpow_plus. replace (e + - e) with 0 by lia. cbn. ring. }
    assert (HP : (0 < IZR (2 ^ (- e)))%R) by (apply IZR_lt, Z.pow_pos_nonneg; lia).
    apply le_IZR. rewrite mult_IZR, minus_IZR, mult_IZR, Hx. nra.
Qed.

(* ================================================================== 4. the first two samples and the stored fields *)
(* ---- every quantity below has magnitude at most 2^17; one coarse absolute error bound serves all roundings *)
Lemma rnd_err17 x : (Rabs x <= 131072)%R -> (Rabs (rnd x - x) <= / 10000000000)%R.
Proof.
  intros H. eapply Rle_trans; [apply (rnd_err 17 x); [lia | exact H] |].
  change (bpow radix2 (17 - 53)) with (/ 68719476736)%R. lra.
Qed.
Lemma e17 : -1022 <= 17 <= 1023. Proof. lia. Qed.

Section SampleAxis.
Variables d t0 : Z.
Hypothesis Hd : 1 <= d <= 65535.
Hypothesis Ht : -32768 <= t0 <= 32767.
Let D := IZR d.
Let T := IZR t0.
Let q := PrimFloat.div (f_of_Z d) f_thousand.

Lemma D_bounds : (1 <= D <= 65535)%R.
Proof. unfold D. split; apply IZR_le; lia. Qed.
Lemma T_bounds : (-32768 <= T <= 32767)%R.
Proof. unfold T. split; apply IZR_le; lia. Qed.

Lemma q_FR : fin q /\ (Rabs (FR q - D / 1000) <= / 10000000000)%R.
Proof.
  destruct (f_of_Z_FR d ltac:(lia)) as (Hf1 & Hv1). destruct (f_of_Z_FR 1000 ltac:(lia)) as (Hf2 & Hv2).
  pose proof D_bounds as HD. fold D in Hv1.
  assert (Hb : (Rabs (FR (f_of_Z d) / FR f_thousand) <= 131072)%R).
  { unfold f_thousand. rewrite Hv1, Hv2. apply Rabs_le. lra. }
  destruct (div_FR 17 (f_of_Z d) f_thousand Hf1 ltac:(unfold f_thousand; rewrite Hv2; lra) e17 Hb) as (Hf & Hv).
  split; [exact Hf |]. fold q in Hv. rewrite Hv. unfold f_thousand in *. rewrite Hv1, Hv2 in *. apply rnd_err17. exact Hb.
Qed.

(* sample 0 is the start time exactly *)
Lemma sample0_FR : fin (segy_sample d t0 0) /\ FR (segy_sample d t0 0) = T.
Proof.
  destruct q_FR as (Hfq & Hq). apply Rabs_le_inv in Hq. pose proof D_bounds as HD. pose proof T_bounds as HT.
  destruct (f_of_Z_FR 0 ltac:(lia)) as (Hf0 & Hv0). destruct (f_of_Z_FR t0 ltac:(lia)) as (Hft & Hvt). fold T in Hvt.
  assert (Hb : (Rabs (FR (f_of_Z 0) * FR q) <= 131072)%R) by (rewrite Hv0, Rmult_0_l, Rabs_R0; lra).
  destruct (mul_FR 17 (f_of_Z 0) q Hf0 Hfq e17 Hb) as (Hfm & Hvm).
  rewrite Hv0, Rmult_0_l in Hvm. rewrite (rnd_IZR 0 ltac:(lia)) in Hvm.
  assert (Hb2 : (Rabs (FR (PrimFloat.mul (f_of_Z 0) q) + FR (f_of_Z t0)) <= 131072)%R).
  { rewrite Hvm, Hvt, Rplus_0_l. apply Rabs_le. lra. }
  destruct (add_FR 17 _ _ Hfm Hft e17 Hb2) as (Hfa & Hva).
  unfold segy_sample. fold q. split; [exact Hfa |]. rewrite Hva, Hvm, Hvt, Rplus_0_l. apply rnd_IZR. lia.
Qed.

(* sample 1 is within 2e-10 of q + t0 *)
Lemma sample1_FR : fin (segy_sample d t0 1) /\ (Rabs (FR (segy_sample d t0 1) - (D / 1000 + T)) <= 3 / 10000000000)%R.
Proof.
  destruct q_FR as (Hfq & Hq). apply Rabs_le_inv in Hq. pose proof D_bounds as HD. pose proof T_bounds as HT.
  destruct (f_of_Z_FR 1 ltac:(lia)) as (Hf1 & Hv1). destruct (f_of_Z_FR t0 ltac:(lia)) as (Hft & Hvt). fold T in Hvt.
  assert (Hb : (Rabs (FR (f_of_Z 1) * FR q) <= 131072)%R) by (rewrite Hv1, Rmult_1_l; apply Rabs_le; lra).
  destruct (mul_FR 17 (f_of_Z 1) q Hf1 Hfq e17 Hb) as (Hfm & Hvm).
  pose proof (rnd_err17 _ Hb) as Hem. rewrite <- Hvm, Hv1, Rmult_1_l in Hem. apply Rabs_le_inv in Hem.
  assert (Hb2 : (Rabs (FR (PrimFloat.mul (f_of_Z 1) q) + FR (f_of_Z t0)) <= 131072)%R) by (rewrite Hvt; apply Rabs_le; lra).
  destruct (add_FR 17 _ _ Hfm Hft e17 Hb2) as (Hfa & Hva).
  pose proof (rnd_err17 _ Hb2) as Hea. rewrite <- Hva, Hvt in Hea. apply Rabs_le_inv in Hea.
  unfold segy_sample. fold q. split; [exact Hfa |]. apply Rabs_le. lra.
Qed.

(* 1000.0 * (samples[1] - samples[0]) is within 1/4 of d *)
Lemma scaled_diff_FR :
  let y := PrimFloat.mul (f_of_Z 1000) (PrimFloat.sub (segy_sample d t0 1) (segy_sample d t0 0)) in
  fin y /\ (Rabs (FR y - D) <= / 4)%R.
Proof.
  destruct sample0_FR as (Hf0 & Hv0). destruct sample1_FR as (Hf1 & Hv1). apply Rabs_le_inv in Hv1.
  pose proof D_bounds as HD. pose proof T_bounds as HT.
  destruct (f_of_Z_FR 1000 ltac:(lia)) as (Hfk & Hvk).
  assert (Hb : (Rabs (FR (segy_sample d t0 1) - FR (segy_sample d t0 0)) <= 131072)%R) by (rewrite Hv0; apply Rabs_le; lra).
  destruct (sub_FR 17 _ _ Hf1 Hf0 e17 Hb) as (Hfs & Hvs).
  pose proof (rnd_err17 _ Hb) as Hes. rewrite <- Hvs, Hv0 in Hes. apply Rabs_le_inv in Hes.
  set (df := PrimFloat.sub (segy_sample d t0 1) (segy_sample d t0 0)) in *.
  assert (Hb2 : (Rabs (FR (f_of_Z 1000) * FR df) <= 131072)%R) by (rewrite Hvk; apply Rabs_le; lra).
  destruct (mul_FR 17 _ _ Hfk Hfs e17 Hb2) as (Hfm & Hvm).
  pose proof (rnd_err17 _ Hb2) as Hem. rewrite <- Hvm, Hvk in Hem. apply Rabs_le_inv in Hem.
  cbv zeta. split; [exact Hfm |]. apply Rabs_le. lra.
Qed.

Lemma stored_interval_unfold :
  stored_interval (segy_samples d t0 2) =
  bind (astype_int (VF (f_rint (PrimFloat.mul (f_of_Z 1000) (PrimFloat.sub (segy_sample d t0 1) (segy_sample d t0 0))))))
       pack_i.
Proof.
  destruct (segy_samples_two d t0 2 ltac:(lia)) as [r Hr]. rewrite Hr.
  unfold stored_interval, wr_field_28. cbn [eval_fv eval bind samples_env e_arr e_idx].
  change (Z.to_nat 1) with 1%nat. change (Z.to_nat 0) with 0%nat. cbn [nth_error bind arith to_f pack]. reflexivity.
Qed.

Lemma stored_start_unfold :
  stored_start (segy_samples d t0 2) = bind (astype_int (VF (segy_sample d t0 0))) pack_i.
Proof.
  destruct (segy_samples_two d t0 2 ltac:(lia)) as [r Hr]. rewrite Hr.
  unfold stored_start, wr_field_16. cbn [eval_fv eval bind samples_env e_arr e_idx].
  change (Z.to_nat 0) with 0%nat. cbn [nth_error bind pack]. reflexivity.
Qed.

Theorem interval_exact_sec : stored_interval (segy_samples d t0 2) = Return d.
Proof.
  rewrite stored_interval_unfold. destruct scaled_diff_FR as (Hf & Hn).
  rewrite (f_rint_near _ d Hf ltac:(lia) Hn).
  destruct (f_of_pos_FR d ltac:(lia)) as (Hfd & Hvd).
  rewrite (astype_int_int _ d Hfd Hvd ltac:(unfold two63; lia)). cbn [bind].
  rewrite pack_i_ok by (apply int32_ok_iff; unfold two31; lia). rewrite u32_small by (unfold two32; lia). reflexivity.
Qed.

Theorem start_exact_sec : stored_start (segy_samples d t0 2) = Return (u32 t0).
Proof.
  rewrite stored_start_unfold. destruct sample0_FR as (Hf & Hv).
  rewrite (astype_int_int _ t0 Hf Hv ltac:(unfold two63; lia)). cbn [bind].
  apply pack_i_ok. apply int32_ok_iff. unfold two31. lia.
Qed.
End SampleAxis.

Theorem interval_exact_all d t0 : 1 <= d <= 65535 -> -32768 <= t0 <= 32767 ->
  stored_interval (segy_samples d t0 2) = Return d.
Proof. exact (interval_exact_sec d t0). Qed.
Theorem start_exact_all d t0 : 1 <= d <= 65535 -> -32768 <= t0 <= 32767 ->
  stored_start (segy_samples d t0 2) = Return (u32 t0).
Proof. exact (start_exact_sec d t0). Qed.

(* ================================================================== 5. the regenerated sample axis, whole domain *)
(* binary64 multiplication and addition are commutative (as operations on bit patterns; one NaN) *)
Lemma prim_mul_comm x y : PrimFloat.mul x y = PrimFloat.mul y x.
Proof.
  apply Prim2SF_inj. rewrite !mul_spec. unfold SF64mul, SFmul.
  destruct (Prim2SF x) as [[]|[]| |sx mx ex], (Prim2SF y) as [[]|[]| |sy my ey]; try reflexivity.
  rewrite xorb_comm, Pos.mul_comm, Z.add_comm. reflexivity.
Qed.
Lemma prim_add_comm x y : PrimFloat.add x y = PrimFloat.add y x.
Proof.
  apply Prim2SF_inj. rewrite !add_spec. unfold SF64add, SFadd.
  destruct (Prim2SF x) as [[]|[]| |sx mx ex], (Prim2SF y) as [[]|[]| |sy my ey]; try reflexivity.
  rewrite Z.min_comm, Z.add_comm. reflexivity.
Qed.

Lemma f_same_refl x : fin x -> f_same x x = true.
Proof.
  intros Hf. unfold f_same. rewrite eqb_equiv, Beqb_refl, classify_B.
  unfold fin in Hf. destruct (Prim2B x) as [s | s | | s m e H]; try discriminate; cbn.
  - destruct s; reflexivity.
  - destruct s; match goal with |- context [if ?c then _ else _] => destruct c end; reflexivity.
Qed.

(* element k of the reader's axis, symbolically, for any header fields *)
Lemma zs_elem_char f16 f28 k : 0 <= f28 < two32 -> Z.abs k < two63 ->
  zs_elem f16 f28 k =
  Return (VF (PrimFloat.add (f_of_Z (wrap32 f16)) (PrimFloat.mul (PrimFloat.div (f_of_Z f28) (f_of_Z 1000)) (f_of_Z k)))).
Proof.
  intros H28 Hk. unfold zs_elem, rd_axis_zslices, gen_coord_list_body.
  cbn [ax_start ax_step ax_count ax_astype eval eval_cond bind zs_env e_f64 e_ver e_u32 Z.eqb Pos.eqb].
  replace (PrimFloat.eqb f_zero f_zero) with true by (vm_compute; reflexivity).
  replace (version_to_encoding 0 1 6 false + 1 >? version_to_encoding 0 1 6 false) with true by (vm_compute; reflexivity).
  unfold truediv. change (1000 =? 0) with false. rewrite (two53_bound f28 H28).
  change (Z.abs 1000 <? two53) with true. cbn [andb bind call_env e_var e_idx eval arith to_f].
  replace (Z.abs k <? two63) with true by (symmetry; apply Z.ltb_lt; exact Hk). cbn [bind].
  assert (Hw : Z.abs (wrap32 f16) <? two63 = true).
  { apply Z.ltb_lt. pose proof (wrap32_range f16) as Hr. apply int32_ok_iff in Hr. unfold two31, two63 in *. lia. }
  rewrite Hw. cbn [bind astype_elem to_f]. reflexivity.
Qed.

Lemma e40 : -1022 <= 40 <= 1023. Proof. lia. Qed.

(* every sample of the source axis is a finite float (no overflow up to 2^32 samples) *)
Lemma segy_sample_fin d t0 k : 1 <= d <= 65535 -> -32768 <= t0 <= 32767 -> 0 <= k < two32 -> fin (segy_sample d t0 k).
Proof.
  intros Hd Ht Hk. destruct (q_FR d Hd) as (Hfq & Hq). apply Rabs_le_inv in Hq.
  pose proof (D_bounds d Hd) as HD. pose proof (T_bounds t0 Ht) as HT.
  destruct (f_of_Z_FR k ltac:(unfold two32 in Hk; lia)) as (Hfk & Hvk).
  destruct (f_of_Z_FR t0 ltac:(lia)) as (Hft & Hvt).
  assert (HK : (0 <= IZR k <= 4294967296)%R) by (split; apply IZR_le; unfold two32 in Hk; lia).
  set (q := PrimFloat.div (f_of_Z d) f_thousand) in *.
  assert (Hb : (Rabs (FR (f_of_Z k) * FR q) <= bpow radix2 39)%R).
  { rewrite Hvk. change (bpow radix2 39) with 549755813888%R. apply Rabs_le. nra. }
  destruct (mul_FR 39 (f_of_Z k) q Hfk Hfq ltac:(lia) Hb) as (Hfm & Hvm).
  pose proof (rnd_bound 39 _ ltac:(lia) Hb) as Hrb. rewrite <- Hvm in Hrb. apply Rabs_le_inv in Hrb.
  change (bpow radix2 39) with 549755813888%R in Hrb.
  assert (Hb2 : (Rabs (FR (PrimFloat.mul (f_of_Z k) q) + FR (f_of_Z t0)) <= bpow radix2 40)%R).
  { rewrite Hvt. change (bpow radix2 40) with 1099511627776%R. apply Rabs_le. lra. }
  destruct (add_FR 40 _ _ Hfm Hft e40 Hb2) as (Hfa & _). exact Hfa.
Qed.

(* element k regenerated from the exact header IS the source's sample k: same operations on the same operands, the two
   commutative ones with their operands exchanged *)
Lemma zs_elem_all d t0 k : 1 <= d <= 65535 -> -32768 <= t0 <= 32767 -> 0 <= k < two32 ->
  exists v, zs_elem (u32 t0) d k = Return v /\ val_same v (VF (segy_sample d t0 k)) = true.
Proof.
  intros Hd Ht Hk. eexists. split.
  - apply zs_elem_char; unfold two32, two63 in *; lia.
  - rewrite wrap32_u32 by (apply int32_ok_iff; unfold two31; lia).
    rewrite prim_add_comm, prim_mul_comm. fold f_thousand. fold (segy_sample d t0 k).
    cbn [val_same]. apply f_same_refl. apply segy_sample_fin; assumption.
Qed.

(* the whole-domain counterpart of zslices_regenerated *)
Definition zs_dom_all (d t0 n : Z) : bool :=
  (1 <=? d) && (d <=? 65535) && (-32768 <=? t0) && (t0 <=? 32767) && (2 <=? n) && (n <? two32).
Lemma zs_dom_all_facts d t0 n : zs_dom_all d t0 n = true -> 1 <= d <= 65535 /\ -32768 <= t0 <= 32767 /\ 2 <= n < two32.
Proof. unfold zs_dom_all. rewrite !andb_true_iff, !Z.leb_le, Z.ltb_lt. lia. Qed.

Theorem zslices_regenerated_all d t0 n : zs_dom_all d t0 n = true ->
  let l := segy_samples d t0 n in
  stored_count l = Return n /\ stored_start l = Return (u32 t0) /\ stored_interval l = Return d /\
  exists r, rd_axis (zs_env n (u32 t0) d) rd_axis_zslices = Return r /\ list_same r l = true.
Proof.
  intros Hdom l. apply zs_dom_all_facts in Hdom. destruct Hdom as (Hd & Ht & Hn).
  destruct (hdr_first_two d t0 n ltac:(lia)) as (Hi2 & Hs2).
  split; [apply stored_count_n; lia |]. split; [unfold l; rewrite Hs2; apply start_exact_all; assumption |].
  split; [unfold l; rewrite Hi2; apply interval_exact_all; assumption |].
  rewrite (rd_zslices_elems n (u32 t0) d ltac:(unfold two32; lia)). unfold l, segy_samples.
  apply (mapM_same (zs_elem (u32 t0) d) (fun i => VF (segy_sample d t0 i))).
  intros k Hk. apply in_zrange in Hk. apply zs_elem_all; [assumption | assumption | lia].
Qed.

Theorem sample_fields_written_all c d t0 n :
  zs_dom_all d t0 n = true -> c_samples c = segy_samples d t0 n ->
  written c 4 n /\ written c 16 (u32 t0) /\ written c 28 d.
Proof.
  intros Hdom Hs. destruct (zslices_regenerated_all d t0 n Hdom) as (H4 & H16 & H28 & _).
  repeat split; eexists; (split; [cbn [wr_fields In]; tauto |]).
  - rewrite samples_field_4_only. cbn [env_of_cube e_arr]. rewrite Hs. exact H4.
  - rewrite samples_field_16_only. cbn [env_of_cube e_arr]. rewrite Hs. exact H16.
  - rewrite samples_field_28_only by reflexivity. cbn [env_of_cube e_arr]. rewrite Hs. exact H28.
Qed.

Theorem zslices_preserved_all c E d t0 n :
  zs_dom_all d t0 n = true -> c_samples c = segy_samples d t0 n ->
  written c 4 (e_u32 E 4) -> written c 16 (e_u32 E 16) -> written c 28 (e_u32 E 28) ->
  PrimFloat.eqb (e_f64 E 92) f_zero = true -> (e_ver E >? version_to_encoding 0 1 6 false) = true ->
  exists r, rd_axis E rd_axis_zslices = Return r /\ list_same r (c_samples c) = true.
Proof.
  intros Hdom Hs W4 W16 W28 Hz Hv.
  destruct (sample_fields_written_all c d t0 n Hdom Hs) as (S4 & S16 & S28).
  apply written_4 in W4, S4. apply written_16 in W16, S16. apply written_28 in W28, S28.
  rewrite S4 in W4. rewrite S16 in W16. rewrite S28 in W28.
  injection W4 as W4. injection W16 as W16. injection W28 as W28.
  destruct (zslices_regenerated_all d t0 n Hdom) as (_ & _ & _ & r & Hr & Hsame).
  exists r. rewrite (rd_zslices_char E Hz Hv), <- W4, <- W16, <- W28, Hs. split; assumption.
Qed.

(* non-vacuity: the concrete cube of Proofs/Geometry.v (interval 1001 us, start -32768 ms, 3 samples) satisfies every
   hypothesis of zslices_preserved_all; the two header values are also evaluated by the kernel (vm_compute, no axiom) *)
Theorem geometry_all_nonvacuous :
  zs_dom_all 1001 (-32768) 3 = true /\ c_samples nv_cube = segy_samples 1001 (-32768) 3 /\
  written nv_cube 4 (e_u32 nv_env 4) /\ written nv_cube 16 (e_u32 nv_env 16) /\ written nv_cube 28 (e_u32 nv_env 28) /\
  PrimFloat.eqb (e_f64 nv_env 92) f_zero = true /\ (e_ver nv_env >? version_to_encoding 0 1 6 false) = true /\
  stored_interval (segy_samples 1001 (-32768) 2) = Return 1001 /\
  stored_start (segy_samples 1001 (-32768) 2) = Return (u32 (-32768)).
Proof.
  destruct geometry_nonvacuous as (_ & _ & Hs & Hw & Hz & Hv & _).
  split; [vm_compute; reflexivity |]. split; [exact Hs |].
  split; [apply Hw; cbn [In]; tauto |]. split; [apply Hw; cbn [In]; tauto |]. split; [apply Hw; cbn [In]; tauto |].
  split; [exact Hz |]. split; [exact Hv |]. split; vm_compute; reflexivity.
Qed.
