(* Proofs/Compose.v -- C03: conformance of the container header is established by the converters and PRESERVED by the
   cropper and the re-blocker, hence by every finite composition of writers (induction over the sequence; no length
   bound).  Conforms is the self-consistency the specification demands of a header: well-formed (positive sizes, block
   dimensions multiples of 4, ONE BLOCK = 4096 BYTES), the stated number of disk blocks is exactly the data section
   (padded voxels x bits / 8), and a header array is 4 bytes per grid trace. *)
From Coq Require Import ZArith List Bool Lia.
Import ListNotations.
From SZ Require Import Lib.Py Gen.Reader Spec.Container Model.HeaderW Proofs.ContainerW.
From SZ Require Model.Cropper Model.Reblock Proofs.Cropper Proofs.Reblock.
Open Scope Z_scope.

Definition Conforms (H : hdr) : Prop :=
  wf3 H = true /\ 4096 * s_ndb H = s_data_bytes3 H /\ s_hel H = 4 * (s_nil H * s_nxl H).

(* one writer applied to an existing SGZ file (identified by its parsed header) *)
Inductive writer_step : hdr -> hdr -> Prop :=
| step_crop : forall H A il xl zs R,
    SZ.Model.Cropper.crop_by_indexes H A il xl zs = Return R ->
    writer_step H (SZ.Model.Cropper.out_hdr H (SZ.Model.Cropper.co_fields R))
| step_reblock : forall H L,
    SZ.Model.Reblock.rb_guard H = true -> rd_data_start_bytes H + s_data_bytes3 H <= L ->
    s_ndb (SZ.Proofs.Reblock.out_hdr H) < 4294967296 ->
    writer_step H (SZ.Proofs.Reblock.out_hdr H).

Inductive writer_steps : hdr -> hdr -> Prop :=
| steps_nil : forall H, writer_steps H H
| steps_cons : forall H1 H2 H3, writer_step H1 H2 -> writer_steps H2 H3 -> writer_steps H1 H3.

Lemma crop_preserves H H' : Conforms H -> writer_step H H' -> Conforms H'.
Proof.
  intros (W & D & E) S. destruct S as [H A il xl zs R C | H L G Len N].
  - pose proof (SZ.Proofs.Cropper.crop_header_thm H A il xl zs R W C) as T. cbv zeta in T.
    destruct T as (_ & _ & _ & Tn & _ & Th & Tw & Td & _).
    split; [exact Tw|]. split; [exact Td|]. rewrite Th, Tn. reflexivity.
  - destruct (SZ.Proofs.Reblock.header_full H (repeat 0 60) L W G Len) as (hb' & _ & _ & _ & _ & Tw & Td & _).
    + vm_compute. discriminate.
    + exact N.
    + split; [exact Tw|]. split; [lia|].
      (* only the layout fields and the block count change: dimensions and array length are the source's *)
      exact E.
Qed.

Theorem compositions_conform H H' : Conforms H -> writer_steps H H' -> Conforms H'.
Proof.
  intros C S. induction S as [H | H1 H2 H3 S1 _ IH]; [exact C|]. apply IH. eapply crop_preserves; eassumption.
Qed.

(* the converters establish it *)
Theorem converter_conforms rn rd ns n_il n_xl bs0 bs1 bs2 n_arrays venc tc :
  cfg3 rn rd ns n_il n_xl bs0 bs1 bs2 = true ->
  fields_ok rn rd ns n_il n_xl 0 tc bs0 bs1 bs2 n_arrays venc false false = true ->
  Conforms (Hw rn rd ns n_il n_xl bs0 bs1 bs2 n_arrays venc tc).
Proof.
  intros CFG FIT. split; [apply written_wf; assumption|].
  destruct (written_diskblocks _ _ _ _ _ _ _ _ n_arrays venc tc CFG FIT) as [D _].
  destruct (written_states_truth _ _ _ _ _ _ _ _ n_arrays venc tc CFG FIT) as (_ & Ni & Nx & _ & _ & _ & _ & _ & _ & Hl & _).
  split; [lia|]. rewrite Hl, Ni, Nx. reflexivity.
Qed.
