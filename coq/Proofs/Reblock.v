(* Proofs/Reblock.v -- C12: the re-blocker (Model/Reblock.v over the generated Gen/Reblock.v). *)
From Coq Require Import ZArith List Bool Lia.
Import ListNotations.
From SZ Require Import Lib.Py Gen.Utils Gen.Reader Gen.Reblock Spec.Container Proofs.PyLemmas Proofs.Layout
  Proofs.Default Model.Reblock.
Open Scope Z_scope.

(* ================= lists: znth, slices, splices ================= *)
Lemma zlen_nonneg {A} (l : list A) : 0 <= zlen l.
Proof. unfold zlen. lia. Qed.

Lemma znth_app1 {A} (l r : list A) k d : 0 <= k < zlen l -> znth (l ++ r) k d = znth l k d.
Proof. unfold znth, zlen. intro Hk. replace (k <? 0) with false by lia. apply app_nth1. lia. Qed.

Lemma znth_app2 {A} (l r : list A) k d : zlen l <= k -> znth (l ++ r) k d = znth r (k - zlen l) d.
Proof.
  unfold znth, zlen. intro Hk. replace (k <? 0) with false by lia. replace (k - _ <? 0) with false by lia.
  rewrite app_nth2 by lia. f_equal. lia.
Qed.

Lemma zlen_app {A} (l r : list A) : zlen (l ++ r) = zlen l + zlen r.
Proof. unfold zlen. rewrite app_length. lia. Qed.

Lemma zlen_firstn {A} (l : list A) n : 0 <= n <= zlen l -> zlen (firstn (Z.to_nat n) l) = n.
Proof. unfold zlen. intro Hn. rewrite firstn_length. lia. Qed.

Lemma zlen_skipn {A} (l : list A) n : 0 <= n <= zlen l -> zlen (skipn (Z.to_nat n) l) = zlen l - n.
Proof. unfold zlen. intro Hn. rewrite skipn_length. lia. Qed.

Lemma nth_firstn_lt' {A} (l : list A) n k d : (k < n)%nat -> nth k (firstn n l) d = nth k l d.
Proof.
  revert n k. induction l as [|a l IH]; intros n k Hk.
  - rewrite firstn_nil. reflexivity.
  - destruct n as [|n]; [lia|]. destruct k as [|k]; [reflexivity|]. cbn. apply IH. lia.
Qed.
Lemma nth_skipn' {A} (l : list A) n k d : nth k (skipn n l) d = nth (n + k) l d.
Proof.
  revert n. induction l as [|a l IH]; intro n.
  - rewrite skipn_nil. destruct k, n; reflexivity.
  - destruct n as [|n]; [reflexivity|]. cbn. apply IH.
Qed.

Lemma znth_firstn {A} (l : list A) n k d : 0 <= k < n -> znth (firstn (Z.to_nat n) l) k d = znth l k d.
Proof.
  unfold znth. intro Hk. replace (k <? 0) with false by lia. apply nth_firstn_lt'. lia.
Qed.

Lemma znth_skipn {A} (l : list A) n k d : 0 <= n -> 0 <= k -> znth (skipn (Z.to_nat n) l) k d = znth l (n + k) d.
Proof.
  unfold znth. intros Hn Hk. replace (k <? 0) with false by lia. replace (n + k <? 0) with false by lia.
  rewrite nth_skipn'. f_equal. lia.
Qed.

Lemma zlen_repeat {A} (a : A) n : 0 <= n -> zlen (repeat a (Z.to_nat n)) = n.
Proof. unfold zlen. intro. rewrite repeat_length. lia. Qed.

Lemma znth_repeat {A} (a : A) n k : znth (repeat a n) k a = a.
Proof.
  unfold znth. destruct (k <? 0); [reflexivity|]. apply nth_repeat.
Qed.

Lemma norm_bound_id b n : 0 <= b <= n -> norm_bound b n = b.
Proof. intro Hb. unfold norm_bound. replace (b <? 0) with false by lia. lia. Qed.
Lemma norm_bound_over b n : 0 <= n <= b -> norm_bound b n = n.
Proof. intro Hb. unfold norm_bound. replace (b <? 0) with false by lia. lia. Qed.

(* a slice assignment whose right-hand side has exactly the length of the replaced range *)
Lemma splice_same {A} (l r : list A) lo hi :
  0 <= lo <= hi -> hi <= zlen l -> zlen r = hi - lo ->
  zlen (splice l lo hi r) = zlen l /\
  forall k d, znth (splice l lo hi r) k d = if (lo <=? k) && (k <? hi) then znth r (k - lo) d else znth l k d.
Proof.
  intros Hlo Hhi Hr. unfold splice, sl_b, sl_a.
  rewrite (norm_bound_id lo) by lia. rewrite (norm_bound_id hi) by lia. rewrite Z.max_r by lia.
  assert (F1 : zlen (firstn (Z.to_nat lo) l) = lo) by (apply zlen_firstn; lia).
  assert (F2 : zlen (skipn (Z.to_nat hi) l) = zlen l - hi) by (apply zlen_skipn; lia).
  split.
  - rewrite !zlen_app, F1, F2. lia.
  - intros k d. destruct (Z.ltb_spec k 0) as [Hneg | Hk].
    + replace ((lo <=? k) && (k <? hi)) with false by lia. unfold znth. replace (k <? 0) with true by lia. reflexivity.
    + destruct (Z.ltb_spec k lo) as [H1 | H1].
      * replace (lo <=? k) with false by lia. cbn [andb].
        rewrite znth_app1 by lia. apply znth_firstn. lia.
      * replace (lo <=? k) with true by lia. cbn [andb].
        rewrite znth_app2 by lia. rewrite F1.
        destruct (Z.ltb_spec k hi) as [H2 | H2].
        -- apply znth_app1. lia.
        -- rewrite znth_app2 by lia. rewrite znth_skipn by lia. f_equal. lia.
Qed.

(* assigning nothing at or beyond the end changes nothing *)
Lemma splice_noop {A} (l : list A) lo hi : zlen l <= lo -> splice l lo hi [] = l.
Proof.
  intro Hlo. pose proof (zlen_nonneg l) as Hn. unfold splice, sl_b, sl_a.
  rewrite (norm_bound_over lo) by lia.
  assert (E : Z.max (zlen l) (norm_bound hi (zlen l)) = zlen l).
  { unfold norm_bound. destruct (Z.ltb_spec hi 0); lia. }
  rewrite E. cbn [app]. unfold zlen. rewrite Nat2Z.id. apply firstn_skipn.
Qed.

Lemma pyslice_in {A} (l : list A) lo hi :
  0 <= lo <= hi -> hi <= zlen l ->
  zlen (pyslice l lo hi) = hi - lo /\ forall j d, 0 <= j < hi - lo -> znth (pyslice l lo hi) j d = znth l (lo + j) d.
Proof.
  intros Hlo Hhi. unfold pyslice, sl_b, sl_a.
  rewrite (norm_bound_id lo) by lia. rewrite (norm_bound_id hi) by lia. rewrite Z.max_r by lia.
  split.
  - rewrite zlen_firstn; [lia|]. rewrite zlen_skipn by lia. lia.
  - intros j d Hj. rewrite znth_firstn by lia. apply znth_skipn; lia.
Qed.

Lemma pyslice_beyond {A} (l : list A) lo hi : zlen l <= lo -> pyslice l lo hi = [].
Proof.
  intro Hlo. pose proof (zlen_nonneg l) as Hn. unfold pyslice, sl_b, sl_a.
  rewrite (norm_bound_over lo) by lia.
  assert (E : Z.max (zlen l) (norm_bound hi (zlen l)) = zlen l).
  { unfold norm_bound. destruct (Z.ltb_spec hi 0); lia. }
  rewrite E, Z.sub_diag. reflexivity.
Qed.

(* ================= loops over range(m) ================= *)
Lemma zrange_nat_snoc lo n : zrange_nat lo (S n) = zrange_nat lo n ++ [lo + Z.of_nat n].
Proof.
  revert lo. induction n as [|n IH]; intro lo.
  - cbn. f_equal. lia.
  - change (zrange_nat lo (S (S n))) with (lo :: zrange_nat (lo + 1) (S n)). rewrite IH. cbn [zrange_nat app].
    do 3 f_equal. lia.
Qed.

Lemma zrange_snoc m : 0 <= m -> zrange 0 (m + 1) = zrange 0 m ++ [m].
Proof.
  intro Hm. unfold zrange. replace (Z.to_nat (m + 1 - 0)) with (S (Z.to_nat (m - 0))) by lia.
  rewrite zrange_nat_snoc. do 2 f_equal. lia.
Qed.

Lemma fold_zrange_ind {S} (f : S -> Z -> S) (P : Z -> S -> Prop) s0 m :
  0 <= m -> P 0 s0 -> (forall k s, 0 <= k < m -> P k s -> P (k + 1) (f s k)) ->
  P m (fold_left f (zrange 0 m) s0).
Proof.
  intros Hm H0 Hstep.
  assert (G : forall k, 0 <= k -> k <= m -> P k (fold_left f (zrange 0 k) s0)).
  { intros k Hk. pattern k. apply natlike_ind; [| |exact Hk].
    - intros _. rewrite zrange_empty by lia. exact H0.
    - intros j Hj IH Hle. rewrite <- Z.add_1_r in *. rewrite zrange_snoc by lia. rewrite fold_left_app. cbn [fold_left].
      apply Hstep; [lia|]. apply IH. lia. }
  apply G; lia.
Qed.

(* concatenation of m pieces of equal length n *)
Lemma flat_map_blocks {A} (f : Z -> list A) n m :
  0 <= m -> 0 <= n -> (forall a, 0 <= a < m -> zlen (f a) = n) ->
  zlen (flat_map f (zrange 0 m)) = m * n /\
  forall a q d, 0 <= a < m -> 0 <= q < n -> znth (flat_map f (zrange 0 m)) (a * n + q) d = znth (f a) q d.
Proof.
  intros Hm Hn Hlen.
  assert (G : forall k, 0 <= k -> k <= m ->
     zlen (flat_map f (zrange 0 k)) = k * n /\
     forall a q d, 0 <= a < k -> 0 <= q < n -> znth (flat_map f (zrange 0 k)) (a * n + q) d = znth (f a) q d).
  { intros k Hk. pattern k. apply natlike_ind; [| |exact Hk].
    - intros _. rewrite zrange_empty by lia. cbn. split; [reflexivity | intros; lia].
    - intros j Hj IH Hle. rewrite <- Z.add_1_r in *. destruct (IH ltac:(lia)) as [IL IN]. rewrite zrange_snoc by lia.
      rewrite flat_map_app. cbn [flat_map]. rewrite app_nil_r. split.
      + rewrite zlen_app, IL, Hlen by lia. lia.
      + intros a q d Ha Hq. destruct (Z.eq_dec a j) as [-> | Hne].
        * rewrite znth_app2 by (rewrite IL; lia). rewrite IL. f_equal. lia.
        * rewrite znth_app1; [apply IN; lia|]. rewrite IL. nia. }
  apply G; lia.
Qed.
