(* Proofs/Reblock.v -- C12: the re-blocker (Model/Reblock.v over the generated Gen/Reblock.v). *)
From Coq Require Import ZArith List Bool Lia.
Import ListNotations.
From SZ Require Import Lib.Py Gen.Utils Gen.Version Gen.Reader Gen.Reblock Spec.Container Proofs.PyLemmas Proofs.Layout
  Proofs.Default Model.Reblock.
Open Scope Z_scope.

(* ================= lists: znth, slices, splices ================= *)
Lemma zlen_nonneg {A} (l : list A) : 0 <= zlen l.
Proof. unfold zlen. lia. Qed.

Lemma znth_app1 {A} (l r : list A) k d : 0 <= k < zlen l -> znth (l ++ r) k d = znth l k d.
Proof. unfold znth, zlen. intro Hk. replace (k <? 0) with false by lia. apply app_nth1. lia. Qed.

Lemma znth_app2 {A} (l r : list A) k d : zlen l <= k -> znth (l ++ r) k d = znth r (k - zlen l) d.
Proof.
  unfold znth, zlen. intro Hk. replace (k <? 0) with false by lia. replace (k - _ <? 0) with false by lia.
  rewrite app_nth2 by lia. f_equal. lia.
Qed.

Lemma zlen_app {A} (l r : list A) : zlen (l ++ r) = zlen l + zlen r.
Proof. unfold zlen. rewrite app_length. lia. Qed.

Lemma zlen_firstn {A} (l : list A) n : 0 <= n <= zlen l -> zlen (firstn (Z.to_nat n) l) = n.
Proof. unfold zlen. intro Hn. rewrite firstn_length. lia. Qed.

Lemma zlen_skipn {A} (l : list A) n : 0 <= n <= zlen l -> zlen (skipn (Z.to_nat n) l) = zlen l - n.
Proof. unfold zlen. intro Hn. rewrite skipn_length. lia. Qed.

Lemma nth_firstn_lt' {A} (l : list A) n k d : (k < n)%nat -> nth k (firstn n l) d = nth k l d.
Proof.
  revert n k. induction l as [|a l IH]; intros n k Hk.
  - rewrite firstn_nil. reflexivity.
  - destruct n as [|n]; [lia|]. destruct k as [|k]; [reflexivity|]. cbn. apply IH. lia.
Qed.
Lemma nth_skipn' {A} (l : list A) n k d : nth k (skipn n l) d = nth (n + k) l d.
Proof.
  revert n. induction l as [|a l IH]; intro n.
  - rewrite skipn_nil. destruct k, n; reflexivity.
  - destruct n as [|n]; [reflexivity|]. cbn. apply IH.
Qed.

Lemma znth_firstn {A} (l : list A) n k d : 0 <= k < n -> znth (firstn (Z.to_nat n) l) k d = znth l k d.
Proof.
  unfold znth. intro Hk. replace (k <? 0) with false by lia. apply nth_firstn_lt'. lia.
Qed.

Lemma znth_skipn {A} (l : list A) n k d : 0 <= n -> 0 <= k -> znth (skipn (Z.to_nat n) l) k d = znth l (n + k) d.
Proof.
  unfold znth. intros Hn Hk. replace (k <? 0) with false by lia. replace (n + k <? 0) with false by lia.
  rewrite nth_skipn'. f_equal. lia.
Qed.

Lemma zlen_repeat {A} (a : A) n : 0 <= n -> zlen (repeat a (Z.to_nat n)) = n.
Proof. unfold zlen. intro. rewrite repeat_length. lia. Qed.

Lemma znth_repeat {A} (a : A) n k : znth (repeat a n) k a = a.
Proof.
  unfold znth. destruct (k <? 0); [reflexivity|]. apply nth_repeat.
Qed.

Lemma norm_bound_id b n : 0 <= b <= n -> norm_bound b n = b.
Proof. intro Hb. unfold norm_bound. replace (b <? 0) with false by lia. lia. Qed.
Lemma norm_bound_over b n : 0 <= n <= b -> norm_bound b n = n.
Proof. intro Hb. unfold norm_bound. replace (b <? 0) with false by lia. lia. Qed.

(* a slice assignment whose right-hand side has exactly the length of the replaced range *)
Lemma splice_same {A} (l r : list A) lo hi :
  0 <= lo <= hi -> hi <= zlen l -> zlen r = hi - lo ->
  zlen (splice l lo hi r) = zlen l /\
  forall k d, znth (splice l lo hi r) k d = if (lo <=? k) && (k <? hi) then znth r (k - lo) d else znth l k d.
Proof.
  intros Hlo Hhi Hr. unfold splice, sl_b, sl_a.
  rewrite (norm_bound_id lo) by lia. rewrite (norm_bound_id hi) by lia. rewrite Z.max_r by lia.
  assert (F1 : zlen (firstn (Z.to_nat lo) l) = lo) by (apply zlen_firstn; lia).
  assert (F2 : zlen (skipn (Z.to_nat hi) l) = zlen l - hi) by (apply zlen_skipn; lia).
  split.
  - rewrite !zlen_app, F1, F2. lia.
  - intros k d. destruct (Z.ltb_spec k 0) as [Hneg | Hk].
    + replace ((lo <=? k) && (k <? hi)) with false by lia. unfold znth. replace (k <? 0) with true by lia. reflexivity.
    + destruct (Z.ltb_spec k lo) as [H1 | H1].
      * replace (lo <=? k) with false by lia. cbn [andb].
        rewrite znth_app1 by lia. apply znth_firstn. lia.
      * replace (lo <=? k) with true by lia. cbn [andb].
        rewrite znth_app2 by lia. rewrite F1.
        destruct (Z.ltb_spec k hi) as [H2 | H2].
        -- apply znth_app1. lia.
        -- rewrite znth_app2 by lia. rewrite znth_skipn by lia. f_equal. lia.
Qed.

(* assigning nothing at or beyond the end changes nothing *)
Lemma splice_noop {A} (l : list A) lo hi : zlen l <= lo -> splice l lo hi [] = l.
Proof.
  intro Hlo. pose proof (zlen_nonneg l) as Hn. unfold splice, sl_b, sl_a.
  rewrite (norm_bound_over lo) by lia.
  assert (E : Z.max (zlen l) (norm_bound hi (zlen l)) = zlen l).
  { unfold norm_bound. destruct (Z.ltb_spec hi 0); lia. }
  rewrite E. cbn [app]. unfold zlen. rewrite Nat2Z.id. apply firstn_skipn.
Qed.

Lemma pyslice_in {A} (l : list A) lo hi :
  0 <= lo <= hi -> hi <= zlen l ->
  zlen (pyslice l lo hi) = hi - lo /\ forall j d, 0 <= j < hi - lo -> znth (pyslice l lo hi) j d = znth l (lo + j) d.
Proof.
  intros Hlo Hhi. unfold pyslice, sl_b, sl_a.
  rewrite (norm_bound_id lo) by lia. rewrite (norm_bound_id hi) by lia. rewrite Z.max_r by lia.
  split.
  - rewrite zlen_firstn; [lia|]. rewrite zlen_skipn by lia. lia.
  - intros j d Hj. rewrite znth_firstn by lia. apply znth_skipn; lia.
Qed.

Lemma pyslice_beyond {A} (l : list A) lo hi : zlen l <= lo -> pyslice l lo hi = [].
Proof.
  intro Hlo. pose proof (zlen_nonneg l) as Hn. unfold pyslice, sl_b, sl_a.
  rewrite (norm_bound_over lo) by lia.
  assert (E : Z.max (zlen l) (norm_bound hi (zlen l)) = zlen l).
  { unfold norm_bound. destruct (Z.ltb_spec hi 0); lia. }
  rewrite E, Z.sub_diag. reflexivity.
Qed.

(* ================= loops over range(m) ================= *)
Lemma zrange_nat_snoc lo n : zrange_nat lo (S n) = zrange_nat lo n ++ [lo + Z.of_nat n].
Proof.
  revert lo. induction n as [|n IH]; intro lo.
  - cbn. f_equal. lia.
  - change (zrange_nat lo (S (S n))) with (lo :: zrange_nat (lo + 1) (S n)). rewrite IH. cbn [zrange_nat app].
    do 3 f_equal. lia.
Qed.

Lemma zrange_snoc m : 0 <= m -> zrange 0 (m + 1) = zrange 0 m ++ [m].
Proof.
  intro Hm. unfold zrange. replace (Z.to_nat (m + 1 - 0)) with (S (Z.to_nat (m - 0))) by lia.
  rewrite zrange_nat_snoc. do 2 f_equal. lia.
Qed.

Lemma fold_zrange_ind {S} (f : S -> Z -> S) (P : Z -> S -> Prop) s0 m :
  0 <= m -> P 0 s0 -> (forall k s, 0 <= k < m -> P k s -> P (k + 1) (f s k)) ->
  P m (fold_left f (zrange 0 m) s0).
Proof.
  intros Hm H0 Hstep.
  assert (G : forall k, 0 <= k -> k <= m -> P k (fold_left f (zrange 0 k) s0)).
  { intros k Hk. pattern k. apply natlike_ind; [| |exact Hk].
    - intros _. rewrite zrange_empty by lia. exact H0.
    - intros j Hj IH Hle. rewrite <- Z.add_1_r in *. rewrite zrange_snoc by lia. rewrite fold_left_app. cbn [fold_left].
      apply Hstep; [lia|]. apply IH. lia. }
  apply G; lia.
Qed.

(* concatenation of m pieces of equal length n *)
Lemma flat_map_blocks {A} (f : Z -> list A) n m :
  0 <= m -> 0 <= n -> (forall a, 0 <= a < m -> zlen (f a) = n) ->
  zlen (flat_map f (zrange 0 m)) = m * n /\
  forall a q d, 0 <= a < m -> 0 <= q < n -> znth (flat_map f (zrange 0 m)) (a * n + q) d = znth (f a) q d.
Proof.
  intros Hm Hn Hlen.
  assert (G : forall k, 0 <= k -> k <= m ->
     zlen (flat_map f (zrange 0 k)) = k * n /\
     forall a q d, 0 <= a < k -> 0 <= q < n -> znth (flat_map f (zrange 0 k)) (a * n + q) d = znth (f a) q d).
  { intros k Hk. pattern k. apply natlike_ind; [| |exact Hk].
    - intros _. rewrite zrange_empty by lia. cbn. split; [reflexivity | intros; lia].
    - intros j Hj IH Hle. rewrite <- Z.add_1_r in *. destruct (IH ltac:(lia)) as [IL IN]. rewrite zrange_snoc by lia.
      rewrite flat_map_app. cbn [flat_map]. rewrite app_nil_r. split.
      + rewrite zlen_app, IL, Hlen by lia. lia.
      + intros a q d Ha Hq. destruct (Z.eq_dec a j) as [-> | Hne].
        * rewrite znth_app2 by (rewrite IL; lia). rewrite IL. f_equal. lia.
        * rewrite znth_app1; [apply IN; lia|]. rewrite IL. nia. }
  apply G; lia.
Qed.

(* ================= the geometry under the two asserts ================= *)
Section REBLOCK.
Variable H : hdr.
Hypothesis W : wf3 H = true.
Hypothesis G : rb_guard H = true.
Let F := wf3_facts H W.

Lemma guard_unpack :
  rd_rate_n H = 2 * rd_rate_d H /\ rd_blockshape0 H = 4 /\ rd_blockshape1 H = 4 /\ rd_blockshape2 H = 1024.
Proof.
  unfold rb_guard, rb_assert_rate, rb_assert_blockshape in G.
  rewrite !andb_true_iff, !Z.eqb_eq in G. tauto.
Qed.

Lemma guard_rate_code : s_rate_code H = 2.
Proof.
  destruct guard_unpack as (R & _). rewrite (r_rn H F), (r_rd H F) in R. unfold s_rn, s_rd in R.
  destruct (Z.ltb_spec (s_rate_code H) 0); lia.
Qed.
Lemma guard_rate_integral : rd_rate_d H = 1 /\ rd_rate_n H = 2.
Proof. rewrite (r_rn H F), (r_rd H F). unfold s_rn, s_rd. rewrite guard_rate_code. cbn. lia. Qed.
Lemma g_default : default_layout H.
Proof. destruct guard_unpack as (_ & B0 & B1 & _). rewrite (r_bs0 H F) in B0. rewrite (r_bs1 H F) in B1. split; assumption. Qed.
Lemma g_bs2 : s_bs2 H = 1024.
Proof. destruct guard_unpack as (_ & _ & _ & B2). rewrite (r_bs2 H F) in B2. exact B2. Qed.
Lemma g_ub : s_ub3 H = 16.
Proof. unfold s_ub3, s_rn, s_rd. rewrite guard_rate_code. reflexivity. Qed.
Lemma g_unit_bytes : rd_unit_bytes H = 16.
Proof. rewrite (r_ub H F). exact g_ub. Qed.

(* padded extents of the source: PX multiple of 4, PZ multiple of 1024 *)
Definition PXs := s_PX H.
Definition PZs := s_PZ H.
Definition C := rd_chunk_bytes H.

Lemma g_PX : s_nxl H <= PXs < s_nxl H + 4 /\ PXs mod 4 = 0.
Proof.
  unfold PXs, s_PX. destruct g_default as [_ D1]. rewrite D1.
  destruct (pad_to_spec (s_nxl H) 4 ltac:(lia)) as (A & B & _). split; [lia | exact B].
Qed.
Lemma g_PI : s_nil H <= s_PI H < s_nil H + 4 /\ s_PI H mod 4 = 0.
Proof.
  unfold s_PI. destruct g_default as [D0 _]. rewrite D0.
  destruct (pad_to_spec (s_nil H) 4 ltac:(lia)) as (A & B & _). split; [lia | exact B].
Qed.
Lemma g_PZ : s_ns H <= PZs /\ PZs mod 1024 = 0 /\ 1024 <= PZs.
Proof.
  unfold PZs. destruct (f_PZ H F) as (A & B & _ & D). rewrite g_bs2 in B, D. lia.
Qed.
Lemma g_C : C = 4 * PZs.
Proof.
  unfold C, PZs. rewrite (cb_units H W g_default), g_ub.
  destruct (f_PZ H F) as (_ & _ & M4 & _).
  pose proof (Z.div_mod (s_PZ H) 4 ltac:(lia)) as DM. lia.
Qed.
Lemma g_C_pos : 4096 <= C.
Proof. rewrite g_C. destruct g_PZ as (_ & _ & P). lia. Qed.
Lemma g_sp1 : rd_shape_pad1 H = PXs. Proof. exact (r_P1 H F). Qed.
Lemma g_sp2 : rd_shape_pad2 H = PZs. Proof. exact (r_P2 H F). Qed.

Lemma g_inline_bytes : 4 * rb_inline_bytes H = (PXs / 4) * C.
Proof.
  unfold rb_inline_bytes, rb_rate. rewrite g_sp1, g_sp2. destruct guard_rate_integral as [_ ->]. rewrite g_C.
  destruct g_PX as (_ & M). pose proof (exact_div PXs 4 ltac:(lia) M) as E. set (q := PXs / 4) in *.
  rewrite E. replace (PZs * (4 * q) * 2) with ((PZs * q) * 8) by ring. rewrite Z.div_mul by lia. ring.
Qed.

(* the output grid *)
Definition PIo := pad_to (s_nil H) 64.
Definition PXo := pad_to (s_nxl H) 64.
Definition PZo := pad_to (s_ns H) 4.
Lemma g_ps0 : rb_padded_shape0 H = PIo.
Proof. unfold rb_padded_shape0, rb_new_blockshape0, PIo. rewrite (r_nil H F). apply pad_is_pad_to. lia. Qed.
Lemma g_ps1 : rb_padded_shape1 H = PXo.
Proof. unfold rb_padded_shape1, rb_new_blockshape1, PXo. rewrite (r_nxl H F). apply pad_is_pad_to. lia. Qed.
Lemma g_ps2 : rb_padded_shape2 H = PZo.
Proof. unfold rb_padded_shape2, rb_new_blockshape2, PZo. rewrite (r_ns H F). apply pad_is_pad_to. lia. Qed.
Definition Ib := PIo / 64.
Definition Xb := PXo / 64.
Definition Zb := PZo / 4.
Lemma g_Ib : PIo = 64 * Ib /\ 64 * (Ib - 1) < s_nil H <= 64 * Ib.
Proof.
  unfold Ib, PIo. destruct (pad_to_spec (s_nil H) 64 ltac:(lia)) as (A & B & _).
  pose proof (exact_div _ 64 ltac:(lia) B). lia.
Qed.
Lemma g_Xb : PXo = 64 * Xb /\ 64 * (Xb - 1) < s_nxl H <= 64 * Xb.
Proof.
  unfold Xb, PXo. destruct (pad_to_spec (s_nxl H) 64 ltac:(lia)) as (A & B & _).
  pose proof (exact_div _ 64 ltac:(lia) B). lia.
Qed.
Lemma g_Zb : PZo = 4 * Zb /\ 4 * (Zb - 1) < s_ns H <= 4 * Zb.
Proof.
  unfold Zb, PZo. destruct (pad_to_spec (s_ns H) 4 ltac:(lia)) as (A & B & _).
  pose proof (exact_div _ 4 ltac:(lia) B). lia.
Qed.
Lemma g_Zb_C : 1 <= Zb /\ 16 * Zb <= C.
Proof.
  destruct g_Zb as (E & A). pose proof (f_ns H F). destruct g_PZ as (P1 & P2 & P3). rewrite g_C.
  pose proof (exact_div PZs 1024 ltac:(lia) P2). lia.
Qed.

(* i_count / x_count: n < count  <->  the 4-line unit row contains a real line *)
Lemma i_count_spec i : 0 <= i < Ib ->
  0 <= rb_i_count H i <= 16 /\ forall n, 0 <= n < 16 -> (n < rb_i_count H i <-> 4 * (16 * i + n) < s_nil H).
Proof.
  intro Hi. destruct g_Ib as (_ & A). unfold rb_i_count, rb_new_blockshape0. rewrite (r_nil H F).
  destruct (Z.gtb_spec ((i + 1) * 64) (s_nil H)) as [Hg | Hg].
  - assert (Ei : i = Ib - 1) by lia.
    assert (Em : s_nil H mod 64 = s_nil H - 64 * i).
    { symmetry. apply (Z.mod_unique_pos _ _ i); lia. }
    rewrite Em. set (r := s_nil H - 64 * i) in *.
    pose proof (Z.div_mod (r + 3) 4 ltac:(lia)) as DM. pose proof (Z.mod_pos_bound (r + 3) 4 ltac:(lia)) as MB.
    split; [lia|]. intros n Hn. lia.
  - split; [lia|]. intros n Hn. lia.
Qed.
Lemma x_count_spec i ic x : 0 <= x < Xb ->
  0 <= rb_x_count H i ic x <= 16 /\ forall c, 0 <= c < 16 -> (c < rb_x_count H i ic x <-> 4 * (16 * x + c) < s_nxl H).
Proof.
  intro Hi. destruct g_Xb as (_ & A). unfold rb_x_count, rb_new_blockshape1. rewrite (r_nxl H F).
  destruct (Z.gtb_spec ((x + 1) * 64) (s_nxl H)) as [Hg | Hg].
  - assert (Ei : x = Xb - 1) by lia.
    assert (Em : s_nxl H mod 64 = s_nxl H - 64 * x).
    { symmetry. apply (Z.mod_unique_pos _ _ x); lia. }
    rewrite Em. set (r := s_nxl H - 64 * x) in *.
    pose proof (Z.div_mod (r + 3) 4 ltac:(lia)) as DM. pose proof (Z.mod_pos_bound (r + 3) 4 ltac:(lia)) as MB.
    split; [lia|]. intros n Hn. lia.
  - split; [lia|]. intros n Hn. lia.
Qed.

(* ================= reading the source ================= *)
Lemma znth_zrange_nat lo n j : (j < n)%nat -> nth j (zrange_nat lo n) 0 = lo + Z.of_nat j.
Proof.
  revert lo j. induction n as [|n IH]; intros lo j Hj; [lia|].
  destruct j as [|j]; cbn [zrange_nat nth]; [lia|]. rewrite IH by lia. lia.
Qed.

Lemma file_read_full L off len : 0 <= len -> off + len <= L ->
  zlen (file_read L off len) = len /\ forall j, 0 <= j < len -> znth (file_read L off len) j None = Some (off + j).
Proof.
  intros Hl Hfit. unfold file_read. replace (len <? 0) with false by lia. rewrite Z.min_l by lia.
  unfold zlen, zrange. rewrite map_length, zrange_nat_length. split; [lia|].
  intros j Hj. unfold znth. replace (j <? 0) with false by lia.
  rewrite (nth_indep _ None (Some 0)) by (rewrite map_length, zrange_nat_length; lia).
  rewrite (map_nth Some). rewrite znth_zrange_nat by lia. f_equal. lia.
Qed.

Variable L : Z.
Hypothesis HL : rd_data_start_bytes H + s_data_bytes3 H <= L.
Definition ds := rd_data_start_bytes H.
Definition Q := PXs / 4.
Definition R := s_PI H / 4.

Lemma g_Q : PXs = 4 * Q /\ 1 <= Q /\ 4 * (Q - 1) < s_nxl H <= 4 * Q.
Proof.
  unfold Q. destruct g_PX as (A & M). pose proof (exact_div PXs 4 ltac:(lia) M). pose proof (f_nxl H F). lia.
Qed.
Lemma g_R : s_PI H = 4 * R /\ 1 <= R /\ 4 * (R - 1) < s_nil H <= 4 * R.
Proof.
  unfold R. destruct g_PI as (A & M). pose proof (exact_div (s_PI H) 4 ltac:(lia) M). pose proof (f_nil H F). lia.
Qed.
Lemma g_data_bytes : s_data_bytes3 H = R * Q * C.
Proof.
  unfold s_data_bytes3, R, Q, PXs. rewrite g_ub. rewrite g_C. unfold PZs.
  destruct (f_PZ H F) as (_ & _ & M4 & _). pose proof (exact_div (s_PZ H) 4 ltac:(lia) M4) as E.
  set (t := s_PZ H / 4) in *. rewrite E. ring.
Qed.

Lemma seek_eq i ic x xc n : rb_seek H i ic x xc n = ds + ((16 * i + n) * Q + 16 * x) * C.
Proof.
  unfold rb_seek, ds. fold C.
  replace (4 * (n + i * 16) * rb_inline_bytes H) with ((n + i * 16) * (4 * rb_inline_bytes H)) by ring.
  rewrite g_inline_bytes. fold Q. ring.
Qed.

(* every read lies inside the data section of the source *)
Lemma read_in_data i x n : 0 <= i < Ib -> 0 <= x < Xb -> 0 <= n < rb_i_count H i ->
  let ic := rb_i_count H i in let xc := rb_x_count H i ic x in
  1 <= xc /\ ds <= rb_seek H i ic x xc n /\
  rb_seek H i ic x xc n + rb_read_len H i ic x xc n <= ds + s_data_bytes3 H.
Proof.
  intros Hi Hx Hn ic xc. rewrite seek_eq. unfold rb_read_len. fold C. rewrite g_data_bytes.
  destruct (i_count_spec i Hi) as (IC & ICs). destruct (x_count_spec i ic x Hx) as (XC & XCs). fold xc in XC, XCs. fold ic in Hn.
  fold ic in IC.
  assert (Hn16 : 0 <= n < 16) by lia.
  pose proof (proj1 (ICs n Hn16) ltac:(lia)) as Hreal.
  destruct g_R as (_ & R1 & R2 & R3). destruct g_Q as (_ & Q1 & Q2 & Q3). destruct g_Xb as (_ & XB).
  assert (X1 : 1 <= xc).
  { destruct (Z.le_gt_cases 1 xc) as [Hle | Hgt]; [exact Hle|]. exfalso.
    assert (~ (0 < xc)) by lia. apply H0. apply (XCs 0); lia. }
  assert (X2 : 16 * x + xc <= Q).
  { pose proof (proj1 (XCs (xc - 1) ltac:(lia)) ltac:(lia)). lia. }
  assert (I2 : 16 * i + n + 1 <= R) by lia.
  pose proof g_C_pos as CP. split; [exact X1|]. split.
  - assert (0 <= ((16 * i + n) * Q + 16 * x) * C) by nia. lia.
  - assert (E : ((16 * i + n) * Q + 16 * x) * C + C * xc = ((16 * i + n) * Q + (16 * x + xc)) * C) by ring.
    assert (B1 : (16 * i + n) * Q + (16 * x + xc) <= (16 * i + n + 1) * Q) by lia.
    assert (B2 : (16 * i + n + 1) * Q <= R * Q) by nia.
    assert (B3 : ((16 * i + n) * Q + (16 * x + xc)) * C <= (R * Q) * C) by nia.
    lia.
Qed.

(* ================= the staging buffer ================= *)
Lemma cell_bound c j : 0 <= c < 16 -> 0 <= j < C ->
  0 <= c * C + j < 16 * C /\ (forall xc, c < xc -> c * C + j < xc * C) /\ (forall xc, xc <= c -> xc * C <= c * C + j).
Proof.
  intros Hc Hj. pose proof g_C_pos as CP. split; [nia|]. split; intros xc Hxc; nia.
Qed.

Lemma fill_spec i x : 0 <= i < Ib -> 0 <= x < Xb ->
  let ic := rb_i_count H i in let xc := rb_x_count H i ic x in
  zlen (rb_fill H L i x) = 256 * C /\
  forall n c j, 0 <= n < 16 -> 0 <= c < 16 -> 0 <= j < C ->
    znth (rb_fill H L i x) (n * (16 * C) + c * C + j) None =
    if (n <? ic) && (c <? xc) then Some (ds + ((16 * i + n) * Q + 16 * x + c) * C + j) else None.
Proof.
  intros Hi Hx ic xc. unfold rb_fill. fold ic. fold xc. unfold rb_n_stop, rb_buffer_len. fold C.
  destruct (i_count_spec i Hi) as (IC & _). fold ic in IC. destruct (x_count_spec i ic x Hx) as (XC & _). fold xc in XC.
  pose proof g_C_pos as CP.
  set (f := fun buf n => splice buf (rb_idx_lo H i ic x xc n) (rb_idx_hi H i ic x xc n)
                               (file_read L (rb_seek H i ic x xc n) (rb_read_len H i ic x xc n))).
  apply (fold_zrange_ind f (fun m buf => zlen buf = 256 * C /\
     forall n c j, 0 <= n < 16 -> 0 <= c < 16 -> 0 <= j < C ->
       znth buf (n * (16 * C) + c * C + j) None =
       if (n <? m) && (c <? xc) then Some (ds + ((16 * i + n) * Q + 16 * x + c) * C + j) else None)); [lia | |].
  - split.
    + unfold zeros. replace (C * 16 * 16) with (256 * C) by ring. apply zlen_repeat. lia.
    + intros n c j Hn Hc Hj. replace (n <? 0) with false by lia. cbn [andb]. unfold zeros. apply znth_repeat.
  - intros k buf Hk (IL & IN). unfold f.
    pose proof (read_in_data i x k Hi Hx ltac:(fold ic; lia)) as RD. cbv zeta in RD. fold ic in RD. fold xc in RD.
    destruct RD as (X1 & S1 & S2).
    assert (RL : 0 <= rb_read_len H i ic x xc k) by (unfold rb_read_len; fold C; nia).
    assert (FIT : rb_seek H i ic x xc k + rb_read_len H i ic x xc k <= L) by (unfold ds in S2; lia).
    destruct (file_read_full L (rb_seek H i ic x xc k) (rb_read_len H i ic x xc k) RL FIT) as (FL & FN).
    assert (Elo : rb_idx_lo H i ic x xc k = k * (16 * C)) by (unfold rb_idx_lo; fold C; ring).
    assert (Ehi : rb_idx_hi H i ic x xc k = k * (16 * C) + xc * C) by (unfold rb_idx_hi; fold C; ring).
    assert (Erl : rb_read_len H i ic x xc k = xc * C) by (unfold rb_read_len; fold C; ring).
    rewrite Elo, Ehi, Erl. rewrite Erl in FL, FN.
    destruct (splice_same buf (file_read L (rb_seek H i ic x xc k) (xc * C)) (k * (16 * C)) (k * (16 * C) + xc * C))
      as (SL & SN); [nia | rewrite IL; nia | rewrite FL; lia |].
    split; [rewrite SL; exact IL|].
    intros n c j Hn Hc Hj. rewrite SN. destruct (cell_bound c j Hc Hj) as (CB1 & CB2 & CB3).
    destruct (Z.lt_trichotomy n k) as [Hlt | [Heq | Hgt]].
    + replace (k * (16 * C) <=? n * (16 * C) + c * C + j) with false by nia. cbn [andb].
      rewrite IN by assumption. replace (n <? k) with true by lia. replace (n <? k + 1) with true by lia. reflexivity.
    + subst n. replace (k * (16 * C) <=? k * (16 * C) + c * C + j) with true by lia. cbn [andb].
      replace (k <? k + 1) with true by lia. cbn [andb].
      destruct (Z.ltb_spec c xc) as [Hcx | Hcx].
      * replace (k * (16 * C) + c * C + j <? k * (16 * C) + xc * C) with true by (pose proof (CB2 xc Hcx); lia).
        rewrite FN by (pose proof (CB2 xc Hcx); lia). rewrite seek_eq. f_equal. ring.
      * replace (k * (16 * C) + c * C + j <? k * (16 * C) + xc * C) with false by (pose proof (CB3 xc Hcx); lia).
        rewrite IN by assumption. replace (k <? k) with false by lia. reflexivity.
    + replace (n * (16 * C) + c * C + j <? k * (16 * C) + xc * C) with false by nia.
      rewrite andb_false_r. rewrite IN by assumption. replace (n <? k) with false by lia.
      replace (n <? k + 1) with false by lia. reflexivity.
Qed.

(* ================= one output block ================= *)
Lemma block_spec i x buf z : zlen buf = 256 * C -> 0 <= z < Zb ->
  zlen (rb_block H i x buf z) = 4096 /\
  forall u j, 0 <= u < 256 -> 0 <= j < 16 ->
    znth (rb_block H i x buf z) (u * 16 + j) None = znth buf (u * C + z * 16 + j) None.
Proof.
  intros BL Hz. unfold rb_block. set (ic := rb_i_count H i). set (xc := rb_x_count H i ic x).
  change (rb_u_stop H i ic x xc z) with 4096. change (rb_block_len H i ic x xc z) with 4096.
  pose proof g_C_pos as CP. destruct g_Zb_C as (Z1 & ZC).
  set (f := fun blk u => splice blk (rb_dst_lo H i ic x xc z u) (rb_dst_hi H i ic x xc z u)
                                (pyslice buf (rb_src_lo H i ic x xc z u) (rb_src_hi H i ic x xc z u))).
  assert (PP : zlen (fold_left f (zrange 0 4096) (zeros 4096)) = 4096 /\
     forall u j, 0 <= u < 256 -> 0 <= j < 16 ->
       znth (fold_left f (zrange 0 4096) (zeros 4096)) (u * 16 + j) None =
       if u <? 4096 then znth buf (u * C + z * 16 + j) None else None).
  { apply (fold_zrange_ind f (fun m blk => zlen blk = 4096 /\
       forall u j, 0 <= u < 256 -> 0 <= j < 16 ->
         znth blk (u * 16 + j) None = if u <? m then znth buf (u * C + z * 16 + j) None else None)); [lia | |].
    - split; [apply zlen_repeat; lia|]. intros u j Hu Hj. replace (u <? 0) with false by lia. apply znth_repeat.
    - intros k blk Hk (IL & IN). unfold f.
      assert (Edl : rb_dst_lo H i ic x xc z k = k * 16) by (unfold rb_dst_lo; rewrite g_unit_bytes; ring).
      assert (Edh : rb_dst_hi H i ic x xc z k = k * 16 + 16) by (unfold rb_dst_hi; rewrite g_unit_bytes; ring).
      assert (Esl : rb_src_lo H i ic x xc z k = k * C + z * 16) by (unfold rb_src_lo; rewrite g_unit_bytes; fold C; ring).
      assert (Esh : rb_src_hi H i ic x xc z k = k * C + z * 16 + 16) by (unfold rb_src_hi; rewrite g_unit_bytes; fold C; ring).
      rewrite Edl, Edh, Esl, Esh.
      destruct (Z.lt_ge_cases k 256) as [Hlt | Hge].
      + destruct (pyslice_in buf (k * C + z * 16) (k * C + z * 16 + 16)) as (PL & PN); [nia | rewrite BL; nia |].
        destruct (splice_same blk (pyslice buf (k * C + z * 16) (k * C + z * 16 + 16)) (k * 16) (k * 16 + 16))
          as (SL & SN); [lia | lia | rewrite PL; lia |].
        split; [lia|]. intros u j Hu Hj. rewrite SN.
        destruct (Z.eq_dec u k) as [-> | Hne].
        * replace ((k * 16 <=? k * 16 + j) && (k * 16 + j <? k * 16 + 16)) with true by lia.
          replace (k <? k + 1) with true by lia. rewrite PN by lia. f_equal. lia.
        * replace ((k * 16 <=? u * 16 + j) && (u * 16 + j <? k * 16 + 16)) with false by lia.
          rewrite IN by assumption. replace (u <? k + 1) with (u <? k) by lia. reflexivity.
      + rewrite pyslice_beyond by (rewrite BL; nia). rewrite splice_noop by lia.
        split; [exact IL|]. intros u j Hu Hj. rewrite IN by assumption.
        replace (u <? k + 1) with true by lia. replace (u <? k) with true by lia. reflexivity. }
  destruct PP as (PL & PN). split; [exact PL|]. intros u j Hu Hj. rewrite PN by assumption.
  replace (u <? 4096) with true by lia. reflexivity.
Qed.

(* ================= the data section ================= *)
Lemma z_stop_eq i ic x xc : rb_z_stop H i ic x xc = Zb.
Proof. unfold rb_z_stop, rb_new_blockshape2, Zb. rewrite g_ps2. reflexivity. Qed.
Lemma x_stop_eq i ic : rb_x_stop H i ic = Xb.
Proof. unfold rb_x_stop, rb_new_blockshape1, Xb. rewrite g_ps1. reflexivity. Qed.
Lemma i_stop_eq : rb_i_stop H = Ib.
Proof. unfold rb_i_stop, rb_new_blockshape0, Ib. rewrite g_ps0. reflexivity. Qed.

Lemma g_Ib_pos : 1 <= Ib. Proof. destruct g_Ib as (_ & A). pose proof (f_nil H F). lia. Qed.
Lemma g_Xb_pos : 1 <= Xb. Proof. destruct g_Xb as (_ & A). pose proof (f_nxl H F). lia. Qed.

Lemma blocks_x_spec i x : 0 <= i < Ib -> 0 <= x < Xb ->
  zlen (rb_blocks_x H L i x) = Zb * 4096 /\
  forall z q, 0 <= z < Zb -> 0 <= q < 4096 ->
    znth (rb_blocks_x H L i x) (z * 4096 + q) None = znth (rb_block H i x (rb_fill H L i x) z) q None.
Proof.
  intros Hi Hx. unfold rb_blocks_x. rewrite z_stop_eq. destruct g_Zb_C as (Z1 & _).
  destruct (fill_spec i x Hi Hx) as (FLn & _).
  destruct (flat_map_blocks (fun z => rb_block H i x (rb_fill H L i x) z) 4096 Zb) as (A & B); [lia | lia | |].
  - intros a Ha. apply block_spec; assumption.
  - split; [exact A|]. intros z q Hz Hq. apply B; assumption.
Qed.

Lemma blocks_i_spec i : 0 <= i < Ib ->
  zlen (rb_blocks_i H L i) = Xb * (Zb * 4096) /\
  forall x q, 0 <= x < Xb -> 0 <= q < Zb * 4096 ->
    znth (rb_blocks_i H L i) (x * (Zb * 4096) + q) None = znth (rb_blocks_x H L i x) q None.
Proof.
  intros Hi. unfold rb_blocks_i. rewrite x_stop_eq. destruct g_Zb_C as (Z1 & _). pose proof g_Xb_pos.
  destruct (flat_map_blocks (fun x => rb_blocks_x H L i x) (Zb * 4096) Xb) as (A & B); [lia | lia | |].
  - intros a Ha. apply blocks_x_spec; assumption.
  - split; [exact A|]. intros x q Hx Hq. apply B; assumption.
Qed.

Lemma data_spec :
  zlen (rb_data H L) = Ib * (Xb * (Zb * 4096)) /\
  forall i q, 0 <= i < Ib -> 0 <= q < Xb * (Zb * 4096) ->
    znth (rb_data H L) (i * (Xb * (Zb * 4096)) + q) None = znth (rb_blocks_i H L i) q None.
Proof.
  unfold rb_data. rewrite i_stop_eq. destruct g_Zb_C as (Z1 & _). pose proof g_Xb_pos. pose proof g_Ib_pos.
  destruct (flat_map_blocks (fun i => rb_blocks_i H L i) (Xb * (Zb * 4096)) Ib) as (A & B); [lia | nia | |].
  - intros a Ha. apply blocks_i_spec; assumption.
  - split; [exact A|]. intros i q Hi Hq. apply B; assumption.
Qed.

(* byte j of the unit written at position (block (i,x,z), row n, column c) *)
Lemma data_unit i n x c z j :
  0 <= i < Ib -> 0 <= n < 16 -> 0 <= x < Xb -> 0 <= c < 16 -> 0 <= z < Zb -> 0 <= j < 16 ->
  znth (rb_data H L) ((((i * Xb + x) * Zb + z) * 256 + (n * 16 + c)) * 16 + j) None =
  if (4 * (16 * i + n) <? s_nil H) && (4 * (16 * x + c) <? s_nxl H)
  then Some (ds + 16 * (((16 * i + n) * Q + (16 * x + c)) * (PZs / 4) + z) + j) else None.
Proof.
  intros Hi Hn Hx Hc Hz Hj. destruct g_Zb_C as (Z1 & ZC). pose proof g_Xb_pos as XP. pose proof g_C_pos as CP.
  destruct data_spec as (_ & D1). destruct (blocks_i_spec i Hi) as (_ & D2). destruct (blocks_x_spec i x Hi Hx) as (_ & D3).
  destruct (fill_spec i x Hi Hx) as (FL & FN). destruct (block_spec i x (rb_fill H L i x) z FL Hz) as (_ & D4).
  set (q3 := (n * 16 + c) * 16 + j). set (q2 := z * 4096 + q3). set (q1 := x * (Zb * 4096) + q2).
  assert (B3 : 0 <= q3 < 4096) by (unfold q3; lia).
  assert (B2 : 0 <= q2 < Zb * 4096) by (unfold q2; nia).
  assert (B1 : 0 <= q1 < Xb * (Zb * 4096)) by (unfold q1; nia).
  replace ((((i * Xb + x) * Zb + z) * 256 + (n * 16 + c)) * 16 + j) with (i * (Xb * (Zb * 4096)) + q1)
    by (unfold q1, q2, q3; ring).
  rewrite D1 by assumption. unfold q1. rewrite D2 by assumption. unfold q2. rewrite D3 by assumption. unfold q3.
  rewrite D4 by lia.
  replace ((n * 16 + c) * C + z * 16 + j) with (n * (16 * C) + c * C + (z * 16 + j)) by ring.
  rewrite FN by lia.
  destruct (i_count_spec i Hi) as (_ & ICs). destruct (x_count_spec i (rb_i_count H i) x Hx) as (_ & XCs).
  pose proof (ICs n Hn) as In_. pose proof (XCs c Hc) as Ic_.
  assert (E1 : (n <? rb_i_count H i) = (4 * (16 * i + n) <? s_nil H)).
  { destruct (Z.ltb_spec n (rb_i_count H i)); destruct (Z.ltb_spec (4 * (16 * i + n)) (s_nil H)); try reflexivity; lia. }
  assert (E2 : (c <? rb_x_count H i (rb_i_count H i) x) = (4 * (16 * x + c) <? s_nxl H)).
  { destruct (Z.ltb_spec c (rb_x_count H i (rb_i_count H i) x)); destruct (Z.ltb_spec (4 * (16 * x + c)) (s_nxl H)); try reflexivity; lia. }
  rewrite E1, E2. destruct ((4 * (16 * i + n) <? s_nil H) && (4 * (16 * x + c) <? s_nxl H)); [|reflexivity].
  f_equal. rewrite g_C. destruct (f_PZ H F) as (_ & _ & M4 & _). fold PZs in M4.
  pose proof (exact_div PZs 4 ltac:(lia) M4) as E. set (t := PZs / 4) in *. rewrite E. ring.
Qed.

(* ================= the output header and the specification's unit addressing ================= *)
Lemma radix2_bound a A b B : 0 <= a < A -> 0 <= b < B -> 0 <= a * B + b < A * B.
Proof. intros Ha Hb. split; [nia|]. assert (a * B + B <= A * B) by nia. lia. Qed.
Lemma zdiv_exact a k q : 0 < k -> a = k * q -> a / k = q.
Proof. intros Hk ->. rewrite Z.mul_comm. apply Z.div_mul. lia. Qed.

Definition Nblk := Ib * Xb * Zb.
Definition Ho := set_layout H 64 64 4 Nblk.

Lemma cdl_eq : rb_compressed_data_length_diskblocks H = Nblk.
Proof.
  unfold rb_compressed_data_length_diskblocks, rb_rate. destruct guard_rate_integral as [_ ->].
  rewrite g_ps0, g_ps1, g_ps2. destruct g_Ib as (-> & _). destruct g_Xb as (-> & _). destruct g_Zb as (-> & _).
  unfold Nblk. replace (2 * (4 * Zb) * (64 * Xb) * (64 * Ib)) with ((Ib * Xb * Zb) * (8 * 4096)) by ring.
  apply Z.div_mul. lia.
Qed.

Lemma Ho_wf : wf3 Ho = true.
Proof.
  destruct (wf3_unpack H W) as (Hil & Hxl & Hns & _).
  pose proof guard_rate_code as RC. unfold wf3.
  change (s_nil Ho) with (s_nil H). change (s_nxl Ho) with (s_nxl H). change (s_ns Ho) with (s_ns H).
  change (s_bs0 Ho) with 64. change (s_bs1 Ho) with 64. change (s_bs2 Ho) with 4.
  change (s_rate_code Ho) with (s_rate_code H). change (s_ub3 Ho) with (s_ub3 H).
  change (s_rn Ho) with (s_rn H). change (s_rd Ho) with (s_rd H).
  rewrite g_ub. unfold s_rn, s_rd. rewrite RC.
  replace (1 <=? s_nil H) with true by lia. replace (1 <=? s_nxl H) with true by lia.
  replace (1 <=? s_ns H) with true by lia. reflexivity.
Qed.

Lemma Ho_PI : s_PI Ho = 64 * Ib. Proof. destruct g_Ib as (E & _). exact E. Qed.
Lemma Ho_PX : s_PX Ho = 64 * Xb. Proof. destruct g_Xb as (E & _). exact E. Qed.
Lemma Ho_PZ : s_PZ Ho = 4 * Zb. Proof. destruct g_Zb as (E & _). exact E. Qed.
Lemma Ho_ub : s_ub3 Ho = 16. Proof. exact g_ub. Qed.

Lemma Ho_data_bytes : s_data_bytes3 Ho = 4096 * s_ndb Ho /\ zlen (rb_data H L) = s_data_bytes3 Ho.
Proof.
  destruct data_spec as (DL & _). unfold s_data_bytes3. rewrite Ho_PI, Ho_PX, Ho_PZ, Ho_ub, DL.
  change (s_ndb Ho) with Nblk. unfold Nblk.
  rewrite (zdiv_exact (64 * Ib) 4 (16 * Ib)) by lia.
  rewrite (zdiv_exact (64 * Xb) 4 (16 * Xb)) by lia.
  rewrite (zdiv_exact (4 * Zb) 4 Zb) by lia.
  split; ring.
Qed.

Lemma Ho_unit_index i n x c z :
  0 <= i -> 0 <= n < 16 -> 0 <= x -> 0 <= c < 16 -> 0 <= z ->
  unit_index3 Ho (16 * i + n) (16 * x + c) z = ((i * Xb + x) * Zb + z) * 256 + (n * 16 + c).
Proof.
  intros Hi Hn Hx Hc Hz. unfold unit_index3. rewrite Ho_PX, Ho_PZ.
  change (s_bs0 Ho) with 64. change (s_bs1 Ho) with 64. change (s_bs2 Ho) with 4.
  change (64 / 4) with 16. change (4 / 4) with 1.
  rewrite (zdiv_exact (64 * Xb) 64 Xb) by lia.
  rewrite (zdiv_exact (4 * Zb) 4 Zb) by lia.
  rewrite Z.div_1_r, Z.mod_1_r.
  replace ((16 * i + n) / 16) with i by (apply (Z.div_unique_pos _ _ i n); lia).
  replace ((16 * i + n) mod 16) with n by (apply (Z.mod_unique_pos _ _ i n); lia).
  replace ((16 * x + c) / 16) with x by (apply (Z.div_unique_pos _ _ x c); lia).
  replace ((16 * x + c) mod 16) with c by (apply (Z.mod_unique_pos _ _ x c); lia).
  ring.
Qed.

(* THE UNIT PERMUTATION: the unit the specification locates at (iu,xu,zu) in the output file is the unit the
   specification locates at (iu,xu,zu) in the source file when it contains a real voxel, and zero bytes otherwise *)
Lemma unit_permutation iu xu zu j :
  0 <= iu < s_PI Ho / 4 -> 0 <= xu < s_PX Ho / 4 -> 0 <= zu < s_PZ Ho / 4 -> 0 <= j < s_ub3 Ho ->
  znth (rb_data H L) (s_ub3 Ho * unit_index3 Ho iu xu zu + j) None =
  if (4 * iu <? s_nil H) && (4 * xu <? s_nxl H)
  then Some (rd_data_start_bytes H + s_ub3 H * unit_index3 H iu xu zu + j) else None.
Proof.
  rewrite Ho_PI, Ho_PX, Ho_PZ, Ho_ub.
  rewrite (zdiv_exact (64 * Ib) 4 (16 * Ib)) by lia.
  rewrite (zdiv_exact (64 * Xb) 4 (16 * Xb)) by lia.
  rewrite (zdiv_exact (4 * Zb) 4 Zb) by lia.
  intros Hiu Hxu Hzu Hj.
  pose proof (Z.div_mod iu 16 ltac:(lia)) as DI. pose proof (Z.mod_pos_bound iu 16 ltac:(lia)) as MI.
  pose proof (Z.div_mod xu 16 ltac:(lia)) as DX. pose proof (Z.mod_pos_bound xu 16 ltac:(lia)) as MX.
  set (i := iu / 16) in *. set (n := iu mod 16) in *. set (x := xu / 16) in *. set (c := xu mod 16) in *.
  assert (Hi : 0 <= i < Ib) by lia. assert (Hx : 0 <= x < Xb) by lia.
  rewrite DI, DX. rewrite Ho_unit_index by lia.
  replace (16 * (((i * Xb + x) * Zb + zu) * 256 + (n * 16 + c)) + j)
    with ((((i * Xb + x) * Zb + zu) * 256 + (n * 16 + c)) * 16 + j) by ring.
  rewrite data_unit by lia.
  rewrite (unit_index3_default H W g_default) by lia. rewrite g_ub. fold PXs. fold Q. fold PZs. unfold ds.
  destruct ((4 * (16 * i + n) <? s_nil H) && (4 * (16 * x + c) <? s_nxl H)); [|reflexivity].
  f_equal; try ring.
Qed.

(* hence: every real voxel is decoded from the same unit code, same cell, in both files *)
Lemma voxel_provenance i x z : 0 <= i < s_nil H -> 0 <= x < s_nxl H -> 0 <= z < s_ns H ->
  exists o o' c, spec_cell3 Ho i x z = PUnit o c /\ spec_cell3 H i x z = PUnit o' c /\
    0 <= o /\ o + s_ub3 Ho <= zlen (rb_data H L) /\
    forall j, 0 <= j < s_ub3 Ho -> znth (rb_data H L) (o + j) None = Some (rd_data_start_bytes H + o' + j).
Proof.
  intros Hi Hx Hz. unfold spec_cell3. do 3 eexists. split; [reflexivity|]. split; [reflexivity|].
  destruct g_Ib as (_ & IB). destruct g_Xb as (_ & XB). destruct g_Zb as (_ & ZB).
  assert (Ui : 0 <= i / 4 < 16 * Ib) by (pose proof (Z.div_mod i 4 ltac:(lia)); pose proof (Z.mod_pos_bound i 4 ltac:(lia)); lia).
  assert (Ux : 0 <= x / 4 < 16 * Xb) by (pose proof (Z.div_mod x 4 ltac:(lia)); pose proof (Z.mod_pos_bound x 4 ltac:(lia)); lia).
  assert (Uz : 0 <= z / 4 < Zb) by (pose proof (Z.div_mod z 4 ltac:(lia)); pose proof (Z.mod_pos_bound z 4 ltac:(lia)); lia).
  assert (Ri : 4 * (i / 4) < s_nil H) by (pose proof (Z.div_mod i 4 ltac:(lia)); pose proof (Z.mod_pos_bound i 4 ltac:(lia)); lia).
  assert (Rx : 4 * (x / 4) < s_nxl H) by (pose proof (Z.div_mod x 4 ltac:(lia)); pose proof (Z.mod_pos_bound x 4 ltac:(lia)); lia).
  assert (PIe : s_PI Ho / 4 = 16 * Ib) by (rewrite Ho_PI; apply zdiv_exact; lia).
  assert (PXe : s_PX Ho / 4 = 16 * Xb) by (rewrite Ho_PX; apply zdiv_exact; lia).
  assert (PZe : s_PZ Ho / 4 = Zb) by (rewrite Ho_PZ; apply zdiv_exact; lia).
  (* position of the unit inside the data section *)
  pose proof (Z.div_mod (i / 4) 16 ltac:(lia)) as DI. pose proof (Z.mod_pos_bound (i / 4) 16 ltac:(lia)) as MI.
  pose proof (Z.div_mod (x / 4) 16 ltac:(lia)) as DX. pose proof (Z.mod_pos_bound (x / 4) 16 ltac:(lia)) as MX.
  assert (IDX : unit_index3 Ho (i / 4) (x / 4) (z / 4) =
                (((i / 4 / 16) * Xb + x / 4 / 16) * Zb + z / 4) * 256 + ((i / 4) mod 16 * 16 + (x / 4) mod 16)).
  { rewrite DI at 1. rewrite DX at 1. apply Ho_unit_index; lia. }
  destruct Ho_data_bytes as (_ & DLen). destruct data_spec as (DL & _).
  assert (Bnd : 0 <= unit_index3 Ho (i / 4) (x / 4) (z / 4) < Ib * (Xb * (Zb * 256))).
  { rewrite IDX. set (a := i / 4 / 16) in *. set (b := x / 4 / 16) in *. set (n := (i / 4) mod 16) in *. set (m := (x / 4) mod 16) in *.
    assert (Ha : 0 <= a < Ib) by lia. assert (Hb : 0 <= b < Xb) by lia.
    pose proof (radix2_bound a Ib b Xb Ha Hb) as R1.
    pose proof (radix2_bound (a * Xb + b) (Ib * Xb) (z / 4) Zb R1 Uz) as R2.
    assert (Hr : 0 <= n * 16 + m < 256) by lia.
    pose proof (radix2_bound ((a * Xb + b) * Zb + z / 4) (Ib * Xb * Zb) (n * 16 + m) 256 R2 Hr) as R3.
    replace (Ib * (Xb * (Zb * 256))) with (Ib * Xb * Zb * 256) by ring. exact R3. }
  split; [rewrite Ho_ub; lia|]. split; [rewrite Ho_ub, DL; lia|].
  intros j Hj. rewrite unit_permutation by lia.
  replace (4 * (i / 4) <? s_nil H) with true by lia. replace (4 * (x / 4) <? s_nxl H) with true by lia. reflexivity.
Qed.

(* every read the re-blocker issues lies inside the source's data section (so none is short on a complete file) *)
Lemma reads_in_data_section off len : In (off, len) (rb_reads H) ->
  rd_data_start_bytes H <= off /\ 0 < len /\ off + len <= rd_data_start_bytes H + s_data_bytes3 H.
Proof.
  unfold rb_reads. rewrite i_stop_eq. intro HI. apply in_flat_map in HI. destruct HI as (i & Hi & HI).
  apply in_zrange in Hi. rewrite x_stop_eq in HI. apply in_flat_map in HI. destruct HI as (x & Hx & HI).
  apply in_zrange in Hx. apply in_map_iff in HI. destruct HI as (n & E & Hn). apply in_zrange in Hn.
  unfold rb_n_stop in Hn. inversion E; subst off len; clear E.
  pose proof (read_in_data i x n Hi Hx Hn) as RD. cbv zeta in RD. destruct RD as (X1 & S1 & S2).
  unfold ds in *. split; [exact S1|]. split; [|exact S2].
  unfold rb_read_len. fold C. pose proof g_C_pos. nia.
Qed.
End REBLOCK.

(* ================= header bytes ================= *)
Lemma u32_le32 v : 0 <= v < 4294967296 ->
  v mod 256 + 256 * ((v / 256) mod 256) + 65536 * ((v / 65536) mod 256) + 16777216 * ((v / 16777216) mod 256) = v.
Proof.
  intro Hv. change 65536 with (256 * 256). change 16777216 with (256 * 256 * 256).
  rewrite <- !Z.div_div by lia.
  set (a := v / 256). set (b := a / 256). set (c := b / 256).
  pose proof (Z.div_mod v 256 ltac:(lia)) as D1. fold a in D1.
  pose proof (Z.div_mod a 256 ltac:(lia)) as D2. fold b in D2.
  pose proof (Z.div_mod b 256 ltac:(lia)) as D3. fold c in D3.
  pose proof (Z.mod_pos_bound v 256 ltac:(lia)). pose proof (Z.mod_pos_bound a 256 ltac:(lia)).
  pose proof (Z.mod_pos_bound b 256 ltac:(lia)).
  assert (Hc : 0 <= c < 256) by lia.
  rewrite (Z.mod_small c 256) by lia. lia.
Qed.

Lemma patch_spec (h : list Z) lo v : 0 <= lo -> lo + 4 <= zlen h ->
  zlen (splice h lo (lo + 4) (le32 v)) = zlen h /\
  forall k, znth (splice h lo (lo + 4) (le32 v)) k 0 =
            if (lo <=? k) && (k <? lo + 4) then znth (le32 v) (k - lo) 0 else znth h k 0.
Proof.
  intros Hlo Hfit. destruct (splice_same h (le32 v) lo (lo + 4)) as (A & B); [lia | lia | change (zlen (le32 v)) with 4; lia |].
  split; [exact A | intro k; apply B].
Qed.

Lemma u32_at_patch_same h lo v : 0 <= lo -> lo + 4 <= zlen h -> 0 <= v < 4294967296 ->
  u32_at (splice h lo (lo + 4) (le32 v)) lo = v.
Proof.
  intros Hlo Hfit Hv. destruct (patch_spec h lo v Hlo Hfit) as (_ & B). unfold u32_at. rewrite !B.
  replace ((lo <=? lo) && (lo <? lo + 4)) with true by lia.
  replace ((lo <=? lo + 1) && (lo + 1 <? lo + 4)) with true by lia.
  replace ((lo <=? lo + 2) && (lo + 2 <? lo + 4)) with true by lia.
  replace ((lo <=? lo + 3) && (lo + 3 <? lo + 4)) with true by lia.
  replace (lo - lo) with 0 by lia. replace (lo + 1 - lo) with 1 by lia. replace (lo + 2 - lo) with 2 by lia.
  replace (lo + 3 - lo) with 3 by lia. change (znth (le32 v) 0 0) with (v mod 256).
  change (znth (le32 v) 1 0) with ((v / 256) mod 256). change (znth (le32 v) 2 0) with ((v / 65536) mod 256).
  change (znth (le32 v) 3 0) with ((v / 16777216) mod 256). apply u32_le32. exact Hv.
Qed.

Lemma znth_patch_other h lo v k : 0 <= lo -> lo + 4 <= zlen h -> k < lo \/ lo + 4 <= k ->
  znth (splice h lo (lo + 4) (le32 v)) k 0 = znth h k 0.
Proof.
  intros Hlo Hfit Hk. destruct (patch_spec h lo v Hlo Hfit) as (_ & B). rewrite B.
  replace ((lo <=? k) && (k <? lo + 4)) with false by lia. reflexivity.
Qed.

Lemma u32_at_patch_other h lo v o : 0 <= lo -> lo + 4 <= zlen h -> o + 4 <= lo \/ lo + 4 <= o ->
  u32_at (splice h lo (lo + 4) (le32 v)) o = u32_at h o.
Proof.
  intros Hlo Hfit Ho. unfold u32_at. rewrite !znth_patch_other by lia. reflexivity.
Qed.
Lemma i32_at_patch_other h lo v o : 0 <= lo -> lo + 4 <= zlen h -> o + 4 <= lo \/ lo + 4 <= o ->
  i32_at (splice h lo (lo + 4) (le32 v)) o = i32_at h o.
Proof. intros. unfold i32_at. rewrite u32_at_patch_other by assumption. reflexivity. Qed.

Lemma header_spec H hb : wf3 H = true -> rb_guard H = true -> 60 <= zlen hb -> Nblk H < 4294967296 ->
  exists hb', rb_header H hb = Return hb' /\ zlen hb' = zlen hb /\
    (forall k, k < 44 \/ 60 <= k -> znth hb' k 0 = znth hb k 0) /\
    hdr_of_bytes hb' = set_layout (hdr_of_bytes hb) 64 64 4 (Nblk H).
Proof.
  intros W G Hlen Hn.
  assert (N0 : 0 <= Nblk H).
  { unfold Nblk. pose proof (g_Ib_pos H W). pose proof (g_Xb_pos H W). pose proof (g_Zb_C H W G). nia. }
  unfold rb_header, rb_header_patches. rewrite (cdl_eq H W G).
  change (rb_new_blockshape0 H) with 64. change (rb_new_blockshape1 H) with 64. change (rb_new_blockshape2 H) with 4.
  cbn [fold_left bind]. change (int_to_bytes 64) with (Return (le32 64)). change (int_to_bytes 4) with (Return (le32 4)).
  cbn [bind]. unfold int_to_bytes. replace ((0 <=? Nblk H) && (Nblk H <? 4294967296)) with true by lia. cbn [bind].
  set (h1 := splice hb 44 48 (le32 64)). set (h2 := splice h1 48 52 (le32 64)). set (h3 := splice h2 52 56 (le32 4)).
  set (h4 := splice h3 56 60 (le32 (Nblk H))).
  destruct (patch_spec hb 44 64 ltac:(lia) ltac:(lia)) as (L1 & _). change (44 + 4) with 48 in L1. fold h1 in L1.
  destruct (patch_spec h1 48 64 ltac:(lia) ltac:(lia)) as (L2 & _). change (48 + 4) with 52 in L2. fold h2 in L2.
  destruct (patch_spec h2 52 4 ltac:(lia) ltac:(lia)) as (L3 & _). change (52 + 4) with 56 in L3. fold h3 in L3.
  destruct (patch_spec h3 56 (Nblk H) ltac:(lia) ltac:(lia)) as (L4 & _). change (56 + 4) with 60 in L4. fold h4 in L4.
  exists h4. split; [reflexivity|]. split; [lia|]. split.
  - intros k Hk. unfold h4. rewrite (znth_patch_other h3 56) by lia. unfold h3. rewrite (znth_patch_other h2 52) by lia.
    unfold h2. rewrite (znth_patch_other h1 48) by lia. unfold h1. rewrite (znth_patch_other hb 44) by lia. reflexivity.
  - assert (U : forall o, o + 4 <= 44 \/ 60 <= o -> u32_at h4 o = u32_at hb o).
    { intros o Hoo. unfold h4. rewrite (u32_at_patch_other h3 56) by lia. unfold h3. rewrite (u32_at_patch_other h2 52) by lia.
      unfold h2. rewrite (u32_at_patch_other h1 48) by lia. unfold h1. rewrite (u32_at_patch_other hb 44) by lia. reflexivity. }
    assert (U44 : u32_at h4 44 = 64).
    { unfold h4. rewrite (u32_at_patch_other h3 56) by lia. unfold h3. rewrite (u32_at_patch_other h2 52) by lia.
      unfold h2. rewrite (u32_at_patch_other h1 48) by lia. apply (u32_at_patch_same hb 44 64); lia. }
    assert (U48 : u32_at h4 48 = 64).
    { unfold h4. rewrite (u32_at_patch_other h3 56) by lia. unfold h3. rewrite (u32_at_patch_other h2 52) by lia.
      apply (u32_at_patch_same h1 48 64); lia. }
    assert (U52 : u32_at h4 52 = 4).
    { unfold h4. rewrite (u32_at_patch_other h3 56) by lia. apply (u32_at_patch_same h2 52 4); lia. }
    assert (U56 : u32_at h4 56 = Nblk H) by (apply (u32_at_patch_same h3 56 (Nblk H)); lia).
    unfold hdr_of_bytes, set_layout. cbn [h_u32_0 h_u32_4 h_u32_8 h_u32_12 h_i32_40 h_u32_44 h_u32_48 h_u32_52 h_u32_56 h_u32_60 h_u32_64 h_u32_68 h_u32_72].
    unfold i32_at. rewrite U44, U48, U52, U56. rewrite !U by lia. reflexivity.
Qed.

(* ================= footer ================= *)
Definition zmem (k : Z) (l : list Z) : bool := existsb (Z.eqb k) l.
(* a template the writers produce: distinct field codes; an entry that duplicates ANOTHER field refers to an
   earlier entry (HeaderwordInfo._find_duplicated_headerwords maps to the first field with the same values) *)
Fixpoint wf_tmpl_aux (seen : list Z) (T : tmpl) : bool :=
  match T with
  | [] => true
  | (k, v0, v1) :: r =>
      negb (zmem k seen) &&
      (if (v0 =? 0) && negb (v1 =? 0) && negb (v1 =? k) then zmem v1 seen else true) &&
      wf_tmpl_aux (seen ++ [k]) r
  end.
Definition wf_tmpl (T : tmpl) : bool := wf_tmpl_aux [] T.

Definition keys {V} (d : list (Z * V)) : list Z := map fst d.

Lemma zmem_In k l : zmem k l = true <-> In k l.
Proof.
  unfold zmem. rewrite existsb_exists. split.
  - intros (x & Hx & E). apply Z.eqb_eq in E. subst. exact Hx.
  - intro Hk. exists k. split; [exact Hk | apply Z.eqb_refl].
Qed.

Lemma d_lookup_none {V} k (d : list (Z * V)) : ~ In k (keys d) -> d_lookup k d = None.
Proof.
  induction d as [|(k', e) d IH]; intro Hn; [reflexivity|]. cbn [d_lookup]. cbn in Hn.
  destruct (Z.eqb_spec k k') as [-> | Hne]; [exfalso; apply Hn; left; reflexivity|]. apply IH. tauto.
Qed.
Lemma d_lookup_some {V} k (d : list (Z * V)) : In k (keys d) -> exists e, d_lookup k d = Some e.
Proof.
  induction d as [|(k', e) d IH]; intro Hn; [destruct Hn|]. cbn [d_lookup].
  destruct (Z.eqb_spec k k') as [-> | Hne]; [eexists; reflexivity|]. apply IH. cbn in Hn. destruct Hn; [congruence | assumption].
Qed.
Lemma d_set_fresh {V} k (e : V) d : ~ In k (keys d) -> d_set k e d = d ++ [(k, e)].
Proof.
  induction d as [|(k', e') d IH]; intro Hn; [reflexivity|]. cbn [d_set app]. cbn in Hn.
  destruct (Z.eqb_spec k k') as [-> | Hne]; [exfalso; apply Hn; left; reflexivity|]. rewrite IH by tauto. reflexivity.
Qed.

(* indices of the arrays the footer loop writes, given the final header_dict: entries that are file offsets and
   whose table entry names themselves *)
Definition out_of (T : tmpl) (d : list (Z * hentry)) : list Z :=
  flat_map (fun ke : Z * hentry => match ke with
            | (k, EOff j) => if tmpl_dup T k =? k then [j] else []
            | (_, EConst _) => [] end) d.

Lemma out_of_app T d1 d2 : out_of T (d1 ++ d2) = out_of T d1 ++ out_of T d2.
Proof. unfold out_of. apply flat_map_app. Qed.

Lemma tmpl_dup_at (T1 T2 : tmpl) k v0 v1 : ~ In k (map (fun t => fst (fst t)) T1) ->
  tmpl_dup (T1 ++ (k, v0, v1) :: T2) k = v1.
Proof.
  intro Hn. unfold tmpl_dup. rewrite map_app. cbn [map].
  induction T1 as [|((c, a), b) T1 IH]; cbn [map app d_lookup].
  - rewrite Z.eqb_refl. reflexivity.
  - cbn in Hn. destruct (Z.eqb_spec k c) as [-> | Hne]; [exfalso; apply Hn; left; reflexivity|]. apply IH. tauto.
Qed.

Lemma zrange0_snoc m : 0 <= m -> zrange 0 m ++ [m] = zrange 0 (m + 1).
Proof. intro. symmetry. apply zrange_snoc. assumption. Qed.

Lemma header_dict_out T : forall Tr Tp d cnt,
  T = Tp ++ Tr -> keys d = map (fun t => fst (fst t)) Tp -> wf_tmpl_aux (keys d) Tr = true -> 0 <= cnt ->
  out_of T d = zrange 0 cnt ->
  out_of T (fst (fold_left hd_step Tr (d, cnt))) = zrange 0 (snd (fold_left hd_step Tr (d, cnt))) /\
  0 <= snd (fold_left hd_step Tr (d, cnt)).
Proof.
  induction Tr as [|((k, v0), v1) Tr IH]; intros Tp d cnt ET EK WF Hc Hout.
  - cbn. split; assumption.
  - cbn [wf_tmpl_aux] in WF. rewrite !andb_true_iff in WF. destruct WF as ((Hfresh & Halias) & WF).
    assert (Hk : ~ In k (keys d)).
    { intro Hin. apply zmem_In in Hin. rewrite Hin in Hfresh. discriminate. }
    assert (TD : tmpl_dup T k = v1).
    { rewrite ET. apply tmpl_dup_at. rewrite <- EK. exact Hk. }
    cbn [fold_left].
    assert (Est : hd_step (d, cnt) (k, v0, v1) =
                  if negb (v0 =? 0) || (v1 =? 0) then (d_set k (EConst v0) d, cnt)
                  else match d_lookup v1 d with
                       | Some e => (d_set k e d, cnt)
                       | None => (d_set k (EOff cnt) d, cnt + 1)
                       end) by reflexivity.
    rewrite Est. clear Est.
    assert (Next : forall e, keys (d_set k e d) = map (fun t => fst (fst t)) (Tp ++ [(k, v0, v1)]) /\
                             wf_tmpl_aux (keys (d_set k e d)) Tr = true).
    { intro e. rewrite d_set_fresh by exact Hk. unfold keys. rewrite !map_app. cbn [map fst]. fold (keys d).
      rewrite <- EK. split; [reflexivity | exact WF]. }
    assert (ET' : T = (Tp ++ [(k, v0, v1)]) ++ Tr) by (rewrite <- app_assoc; exact ET).
    destruct (negb (v0 =? 0) || (v1 =? 0)) eqn:Econst.
    + destruct (Next (EConst v0)) as (K1 & K2). apply (IH (Tp ++ [(k, v0, v1)])); try assumption.
      rewrite d_set_fresh by exact Hk. rewrite out_of_app. cbn. rewrite app_nil_r. exact Hout.
    + apply orb_false_iff in Econst. destruct Econst as (E0 & E1). apply negb_false_iff in E0.
      destruct (d_lookup v1 d) as [e|] eqn:Elk.
      * destruct (Next e) as (K1 & K2). apply (IH (Tp ++ [(k, v0, v1)])); try assumption.
        rewrite d_set_fresh by exact Hk. rewrite out_of_app, Hout.
        assert (Hne : v1 <> k).
        { intro E. rewrite E in Elk. rewrite (d_lookup_none k d Hk) in Elk. discriminate. }
        cbn. destruct e as [c | j]; [rewrite app_nil_r; reflexivity|]. rewrite TD.
        replace (v1 =? k) with false by lia. cbn. rewrite app_nil_r. reflexivity.
      * assert (Eself : v1 = k).
        { destruct (Z.eq_dec v1 k) as [E | Hne]; [exact E|]. exfalso.
          rewrite E0, E1 in Halias. replace (v1 =? k) with false in Halias by lia. cbn in Halias.
          apply zmem_In in Halias. destruct (d_lookup_some v1 d Halias) as (e & Ee). congruence. }
        destruct (Next (EOff cnt)) as (K1 & K2). apply (IH (Tp ++ [(k, v0, v1)])); try assumption; [lia|].
        rewrite d_set_fresh by exact Hk. rewrite out_of_app, Hout. cbn. rewrite TD, Eself, Z.eqb_refl. cbn.
        apply zrange0_snoc. exact Hc.
Qed.

Lemma stride_ge_hel H : 0 <= rd_padded_header_entry_length_bytes H - rd_header_entry_length_bytes H.
Proof.
  unfold rd_padded_header_entry_length_bytes, rd_padded_header_entry_length_bytes_v1, rd_header_entry_length_bytes.
  destruct (rd_file_version_enc_v1 H >? version_to_encoding 0 2 1 false); [|lia].
  set (h := rd_header_entry_length_bytes_v1 H).
  pose proof (Z.div_mod (h - 1) 512 ltac:(lia)). pose proof (Z.mod_pos_bound (h - 1) 512 ltac:(lia)). lia.
Qed.

Lemma footer_mapM H T nlive (d : list (Z * hentry)) :
  mapM (fun kv : Z * (Z * bool) => match kv with (k, (j, m)) =>
          let alen := if (m : bool) then 4 * nlive else rd_header_entry_length_bytes H in
          let p := rb_footer_pad H alen in
          if p <? 0 then Raise ValueErr else Return (j, m, p) end)
       (filter (fun kv : Z * (Z * bool) => if rb_footer_stored_only then tmpl_dup T (fst kv) =? fst kv else true)
          (flat_map (fun ke : Z * hentry => match ke with
                                    | (k, EOff j) => [(k, (j, use_mask H rb_footer_include_padding))]
                                    | (_, EConst _) => []
                                    end) d)) =
  Return (map (fun j => (j, false, rd_padded_header_entry_length_bytes H - rd_header_entry_length_bytes H)) (out_of T d)).
Proof.
  assert (UM : use_mask H rb_footer_include_padding = false).
  { unfold use_mask, rb_footer_include_padding. rewrite orb_true_r. cbn. apply andb_false_r. }
  rewrite UM. change rb_footer_stored_only with true. cbv iota.
  induction d as [|(k, e) d IH]; [reflexivity|].
  cbn [flat_map out_of]. destruct e as [c | j]; [exact IH|].
  cbn [app filter fst]. destruct (tmpl_dup T k =? k).
  - cbn [mapM map app]. unfold rb_footer_pad at 1. pose proof (stride_ge_hel H) as SG.
    replace (rd_padded_header_entry_length_bytes H - rd_header_entry_length_bytes H <? 0) with false by lia.
    cbn [bind]. fold (out_of T d). unfold out_of in IH. rewrite IH. reflexivity.
  - cbn [app]. exact IH.
Qed.

Lemma footer_spec H T nlive : wf_tmpl T = true ->
  rb_footer H T nlive =
  Return (map (fun j => (j, false, rd_padded_header_entry_length_bytes H - rd_header_entry_length_bytes H))
              (zrange 0 (snd (header_dict T)))).
Proof.
  intro WF. unfold rb_footer, variant_headers. rewrite footer_mapM.
  destruct (header_dict_out T T [] [] 0 eq_refl eq_refl WF ltac:(lia) eq_refl) as (E & _).
  unfold header_dict. rewrite E. reflexivity.
Qed.

(* ================= the whole conversion ================= *)
Lemma reblock_refuses_lemma H hb T L nlive : rb_guard H = false -> reblock H hb T L nlive = Raise AssertErr.
Proof.
  unfold rb_guard, reblock. intro G. destruct (rb_assert_rate H); [|reflexivity]. cbn in G. rewrite G. reflexivity.
Qed.

Lemma reblock_returns H hb T L nlive :
  wf3 H = true -> rb_guard H = true -> 60 <= zlen hb -> Nblk H < 4294967296 -> wf_tmpl T = true ->
  exists hb', rb_header H hb = Return hb' /\
    reblock H hb T L nlive =
    Return {| o_header := hb'; o_data := rb_data H L;
              o_footer := map (fun j => (j, false, rd_padded_header_entry_length_bytes H - rd_header_entry_length_bytes H))
                              (zrange 0 (snd (header_dict T))) |}.
Proof.
  intros W G Hlen Hn WT. destruct (header_spec H hb W G Hlen Hn) as (hb' & E & _). exists hb'. split; [exact E|].
  unfold reblock. unfold rb_guard in G. apply andb_true_iff in G. destruct G as (G1 & G2). rewrite G1, G2. cbn [negb].
  rewrite E. cbn [bind]. rewrite (footer_spec H T nlive WT). reflexivity.
Qed.

(* ================= statements in the form Props/C12.v quotes ================= *)
Definition out_hdr (H : hdr) : hdr :=
  set_layout H 64 64 4 ((pad_to (s_nil H) 64 / 64) * (pad_to (s_nxl H) 64 / 64) * (pad_to (s_ns H) 4 / 4)).

Lemma guard_iff H : wf3 H = true ->
  (rb_guard H = true <-> s_rate_code H = 2 /\ s_bs0 H = 4 /\ s_bs1 H = 4 /\ s_bs2 H = 1024).
Proof.
  intro W. pose proof (wf3_facts H W) as F. split.
  - intro G. split; [exact (guard_rate_code H W G)|]. destruct (g_default H W G) as [D0 D1].
    split; [exact D0|]. split; [exact D1 | exact (g_bs2 H W G)].
  - intros (R & B0 & B1 & B2). unfold rb_guard, rb_assert_rate, rb_assert_blockshape.
    rewrite (r_rn H F), (r_rd H F), (r_bs0 H F), (r_bs1 H F), (r_bs2 H F). unfold s_rn, s_rd. rewrite R, B0, B1, B2. reflexivity.
Qed.

Lemma header_full H hb L : wf3 H = true -> rb_guard H = true -> rd_data_start_bytes H + s_data_bytes3 H <= L ->
  60 <= zlen hb -> s_ndb (out_hdr H) < 4294967296 ->
  exists hb', rb_header H hb = Return hb' /\ zlen hb' = zlen hb /\
    (forall k, k < 44 \/ 60 <= k -> znth hb' k 0 = znth hb k 0) /\
    hdr_of_bytes hb' = set_layout (hdr_of_bytes hb) 64 64 4 (s_ndb (out_hdr H)) /\
    wf3 (out_hdr H) = true /\
    s_data_bytes3 (out_hdr H) = 4096 * s_ndb (out_hdr H) /\
    zlen (rb_data H L) = s_data_bytes3 (out_hdr H).
Proof.
  intros W G HL Hlen Hn. destruct (header_spec H hb W G Hlen Hn) as (hb' & A & B & C0 & D). exists hb'.
  split; [exact A|]. split; [exact B|]. split; [exact C0|]. split; [exact D|]. split; [exact (Ho_wf H W G)|].
  exact (Ho_data_bytes H W G L HL).
Qed.

Lemma footer_full H T nlive : wf_tmpl T = true -> template_ok T (rd_n_header_arrays H) = true ->
  let stride := rd_padded_header_entry_length_bytes H in let hel := rd_header_entry_length_bytes H in
  rb_footer H T nlive = Return (map (fun j => (j, false, stride - hel)) (zrange 0 (rd_n_header_arrays H))) /\
  0 <= stride - hel /\
  rd_padded_header_entry_length_bytes (out_hdr H) = stride /\ rd_header_entry_length_bytes (out_hdr H) = hel /\
  rd_n_header_arrays (out_hdr H) = rd_n_header_arrays H /\ rd_tracecount (out_hdr H) = rd_tracecount H.
Proof.
  intros WT TO stride hel. unfold template_ok in TO. apply Z.eqb_eq in TO.
  split; [rewrite <- TO; exact (footer_spec H T nlive WT)|]. split; [exact (stride_ge_hel H)|]. repeat split; reflexivity.
Qed.

(* the unit permutation as a table the correspondence harness evaluates: (byte position of the unit in the output
   data section, file offset of its 16 bytes in the source, or None for a zero-filled unit) *)
Definition unit_expect (H : hdr) (iu xu zu : Z) : Z * option Z :=
  (s_ub3 (out_hdr H) * unit_index3 (out_hdr H) iu xu zu,
   if (4 * iu <? s_nil H) && (4 * xu <? s_nxl H)
   then Some (rd_data_start_bytes H + s_ub3 H * unit_index3 H iu xu zu) else None).
Definition unit_grid (H : hdr) : Z * Z * Z := (s_PI (out_hdr H) / 4, s_PX (out_hdr H) / 4, s_PZ (out_hdr H) / 4).

Lemma unit_expect_ok H : wf3 H = true -> rb_guard H = true ->
  forall L, rd_data_start_bytes H + s_data_bytes3 H <= L ->
  forall iu xu zu j, 0 <= iu < fst (fst (unit_grid H)) -> 0 <= xu < snd (fst (unit_grid H)) ->
    0 <= zu < snd (unit_grid H) -> 0 <= j < 16 ->
    znth (rb_data H L) (fst (unit_expect H iu xu zu) + j) None =
    option_map (fun o => o + j) (snd (unit_expect H iu xu zu)).
Proof.
  intros W G L HL iu xu zu j Hi Hx Hz Hj. unfold unit_expect, unit_grid in *. cbn [fst snd] in *.
  assert (Hj' : 0 <= j < s_ub3 (Ho H)) by (rewrite (Ho_ub H W G); exact Hj).
  pose proof (unit_permutation H W G L HL iu xu zu j Hi Hx Hz Hj') as P. change (Ho H) with (out_hdr H) in P.
  rewrite P. destruct ((4 * iu <? s_nil H) && (4 * xu <? s_nxl H)); reflexivity.
Qed.
